import Generated.Funcs
import DracoModel.Octahedron
import DracoModel.RansSymbol
import DracoModel.Varint
import DracoModel.Geometry
/-
  DracoProofs.GeneratedCore — tactics and C-arithmetic lemmas for the equality proofs, and the functions of
  core/bit_utils.h, core/math_utils.h, compression/entropy/rans_symbol_coding.h (used by C17, C08; the octahedron and
  wrap transform functions are in DracoProofs.GeneratedFuncs).  Every definition of lean/Generated/Funcs.lean (translated mechanically
  from clang's typed AST of /repo's working tree on every run, tools/vlib/xlate.py) equals the
  hand-written model definition that the property theorems are about.

  Hypotheses are the ranges of the C types of the arguments / fields (`I32 x`: `x` is an `int32_t`
  value) or the documented preconditions of the model definition (`OctaT.WF`, `Octa.inGrid`, a
  successful `Wrap.init`): the ranges in which the C++ has no signed overflow.

  The proofs deliberately do not use `rfl`/`decide` on the generated terms: they unfold both sides, split
  on every `if`, and close the leaves with `omega`, so that a harmless rewrite of the C++ (operand
  order, an extra temporary, an equivalent comparison, a different nesting of the branches) still goes
  through, while a change of behaviour does not.
-/
namespace Draco.Generated
open Draco Draco.CInt

/-- `x` is a value of `int32_t` -/
def I32 (x : Int) : Prop := -2^31 ≤ x ∧ x < 2^31

/-- `x` is a value of `uint32_t` -/
def U32 (x : Int) : Prop := 0 ≤ x ∧ x < 2^32

instance (x : Int) : Decidable (I32 x) := by unfold I32; infer_instance
instance (x : Int) : Decidable (U32 x) := by unfold U32; infer_instance

/-! ### C operations in linear-arithmetic form -/

theorem tdiv_two (x : Int) : Int.tdiv x 2 = if 0 ≤ x then x / 2 else -((-x) / 2) := by
  split
  · rename_i h; exact Int.tdiv_eq_ediv_of_nonneg h
  · rename_i h
    have : x = -(-x) := by omega
    rw [this, Int.neg_tdiv, Int.tdiv_eq_ediv_of_nonneg (by omega)]; simp

theorem cAnd_one (x : Int) : cAnd 32 x 1 = x % 2 := by
  unfold cAnd pat
  have : ((1:Int) % 2^32).toNat = 1 := by decide
  rw [this, Nat.and_one_is_mod]
  omega

theorem cShl_one (a : Int) : cShl a 1 = a * 2 := by
  unfold cShl; simp

theorem cShr_one (a : Int) : cShr a 1 = a / 2 := by
  unfold cShr; simp

/-- `wrapI32 (x / 2) = y / 2` (C division) from `x = y` for an `int32_t` value `x` -/
theorem wrap_tdiv2 (a b : Int) (h : a = b) (h1 : -2^31 ≤ a) (h2 : a < 2^31) :
    wrapI32 (Int.tdiv a 2) = Int.tdiv b 2 := by
  subst h; rw [tdiv_two]; unfold wrapI32; split <;> omega

theorem wrapI32_id (x : Int) (h1 : -2^31 ≤ x) (h2 : x < 2^31) : wrapI32 x = x := by unfold wrapI32; omega
theorem wrapI64_id (x : Int) (h1 : -2^63 ≤ x) (h2 : x < 2^63) : wrapI64 x = x := by unfold wrapI64; omega
theorem wrapU32_id (x : Int) (h1 : 0 ≤ x) (h2 : x < 2^32) : wrapU32 x = x := by unfold wrapU32; omega
theorem wrapU64_id (x : Int) (h1 : 0 ≤ x) (h2 : x < 2^64) : wrapU64 x = x := by unfold wrapU64; omega

theorem wrapU8_id (x : Int) (h1 : 0 ≤ x) (h2 : x < 2^8) : wrapU8 x = x := by unfold wrapU8; omega

theorem cAnd32_255 (x : Int) : cAnd 32 x 255 = x % 256 := by
  unfold cAnd pat
  have : ((255:Int) % 2^32).toNat = 2^8 - 1 := by decide
  rw [this, Nat.and_two_pow_sub_one_eq_mod]
  omega
theorem cAnd32_127 (x : Int) : cAnd 32 x 127 = x % 128 := by
  unfold cAnd pat
  have : ((127:Int) % 2^32).toNat = 2^7 - 1 := by decide
  rw [this, Nat.and_two_pow_sub_one_eq_mod]
  omega
theorem cAnd64_127 (x : Int) : cAnd 64 x 127 = x % 128 := by
  unfold cAnd pat
  have : ((127:Int) % 2^64).toNat = 2^7 - 1 := by decide
  rw [this, Nat.and_two_pow_sub_one_eq_mod]
  omega
theorem cOr32_128 (a : Int) (h0 : 0 ≤ a) (h1 : a < 128) : cOr 32 a 128 = a + 128 := by
  unfold cOr pat
  have e1 : ((128:Int) % 2^32).toNat = 2^7 * 1 := by decide
  have e2 : (a % 2^32).toNat = a.toNat := by congr 1; omega
  rw [e1, e2, Nat.or_comm, ← Nat.two_pow_add_eq_or_of_lt (by omega)]; omega
theorem cOr_zero (w : Nat) (a : Int) (h0 : 0 ≤ a) (h1 : a < 2^w) : cOr w 0 a = a := by
  unfold cOr pat
  have e2 : (a % 2^w).toNat = a.toNat := by congr 1; exact Int.emod_eq_of_lt h0 h1
  simp [e2]; omega

/-- closed C constant expressions (`1 << 14`, `(1 << 7) - 1`, …) and shifts by literals -/
macro "c_const1" : tactic =>
  `(tactic| ((try simp only [cShl, cShr, Int.reduceToNat, Int.reducePow, Int.reduceMul, Int.reduceSub, Int.reduceAdd, Int.reduceDiv] at *);
             (try simp (disch := omega) only [wrapI32_id, wrapI64_id, wrapU32_id, wrapU64_id] at *)))
macro "c_const" : tactic => `(tactic| (c_const1; c_const1; c_const1))

/-- leaves: drop the reductions to the C type that provably do nothing (innermost first), unfold the remaining C
    operations to `%`/`/` by literals, split the remaining `if`s, `omega` -/
macro "c_leaf" : tactic =>
  `(tactic| ((try simp only [cAnd_one, cShl_one, cShr_one, decide_eq_true_eq, ge_iff_le, gt_iff_lt] at *);
             (try simp (disch := omega) only [wrapI32_id, wrapI64_id, wrapU32_id, wrapU64_id] at *);
             (try simp only [tdiv_two, wrapI32, wrapU32, wrapI64, wrapU64, cAbs, wrap32, u32, s32, tdiv2, iabs] at *);
             (repeat' (first | omega | split | constructor)); done))

/-- both sides are decision trees over (tuples of) integers: split every `if`, compare the leaves -/
macro "c_eq" : tactic =>
  `(tactic| repeat' (first | with_reducible rfl | split | (apply Prod.ext <;> dsimp only) | (with_reducible apply wrap_tdiv2) | c_leaf))

/-! ### core (bit_utils.h, math_utils.h) and rANS precision (rans_symbol_coding.h) -/

theorem AddAsUnsigned_eq_model (a b : Int) : AddAsUnsigned a b = wrap32 (a + b) := by
  dsimp only [AddAsUnsigned]
  c_eq

/-- `3 * n` is an `int` multiplication: no signed overflow for `3 n < 2^31` -/
theorem ComputeRAnsUnclampedPrecision_eq_model (n : Int) (h0 : 0 ≤ n) (h1 : 3 * n < 2^31) :
    ComputeRAnsUnclampedPrecision n = 3 * n / 2 := by
  dsimp only [ComputeRAnsUnclampedPrecision]
  c_eq

theorem ComputeRAnsPrecisionFromUniqueSymbolsBitLength_eq_model (n : Nat) (h1 : 3 * n < 2^31) :
    ComputeRAnsPrecisionFromUniqueSymbolsBitLength n = (ransPrecisionBits n : Int) := by
  dsimp only [ComputeRAnsPrecisionFromUniqueSymbolsBitLength, ransPrecisionBits]
  rw [ComputeRAnsUnclampedPrecision_eq_model n (by omega) (by omega)]
  c_eq

theorem ConvertSymbolToSignedInt_eq_model (v : Int) (hv : U32 v) :
    ConvertSymbolToSignedInt v = ofSymbol v.toNat := by
  unfold U32 at hv
  dsimp only [ConvertSymbolToSignedInt, ofSymbol]
  c_eq

theorem nat_or_one_even (n : Nat) (he : n % 2 = 0) : n ||| 1 = n + 1 := by
  have h := Nat.two_pow_add_eq_or_of_lt (i := 1) (b := 1) (by decide) (n / 2)
  have e : 2 ^ 1 * (n / 2) = n := by omega
  rw [e] at h; exact h.symm

theorem cOr_one_even (a : Int) (h0 : 0 ≤ a) (h1 : a < 2^32) (he : a % 2 = 0) : cOr 32 a 1 = a + 1 := by
  unfold cOr pat
  have e1 : ((1:Int) % 2^32).toNat = 1 := by decide
  have e2 : (a % 2^32).toNat = a.toNat := by congr 1; omega
  rw [e1, e2, nat_or_one_even _ (by omega)]; omega

theorem ConvertSignedIntToSymbol_eq_model (x : Int) (hx : I32 x) :
    ConvertSignedIntToSymbol x = (toSymbol 32 x : Int) := by
  unfold I32 at hx
  dsimp only [ConvertSignedIntToSymbol, toSymbol]
  split
  · c_leaf
  · rename_i hneg
    rw [nat_or_one_even _ (by omega)]
    rw [cOr_one_even _ (by c_leaf) (by c_leaf) (by c_leaf)]
    c_leaf

theorem xor31 : ∀ k : Fin 32, (31 ^^^ (31 - k.val)) = k.val := by decide

theorem MostSignificantBit_eq_model (n : Int) (hn : U32 n) (h0 : n ≠ 0) :
    MostSignificantBit n = (Octa.msb n.toNat : Int) := by
  unfold U32 at hn
  dsimp only [MostSignificantBit, Octa.msb, cClz32, cXor, pat]
  have hl : Nat.log2 n.toNat < 32 := (Nat.log2_lt (by omega)).2 (by omega)
  have e1 : ((31:Int) % 2^32).toNat = 31 := by decide
  have e2 : ((31 - (Nat.log2 n.toNat : Int)) % 2^32).toNat = 31 - Nat.log2 n.toNat := by omega
  rw [e1, e2, xor31 ⟨_, hl⟩]
  c_leaf
/-! ### byte sources: little-endian loads, byte lists as index → byte functions -/

theorem cOr32_disj8 (a b : Int) (ha : 0 ≤ a) (hb0 : 0 ≤ b) (hb : b < 2^8) (hs : a * 2^8 + b < 2^32) :
    cOr 32 (a * 256) b = a * 256 + b := by
  unfold cOr pat
  have e1 : ((a * 256) % 2^32).toNat = 2^8 * a.toNat := by omega
  have e2 : (b % 2^32).toNat = b.toNat := by omega
  rw [e1, e2, ← Nat.two_pow_add_eq_or_of_lt (by omega)]; omega
theorem cOr32_disj16 (a b : Int) (ha : 0 ≤ a) (hb0 : 0 ≤ b) (hb : b < 2^16) (hs : a * 2^16 + b < 2^32) :
    cOr 32 (a * 65536) b = a * 65536 + b := by
  unfold cOr pat
  have e1 : ((a * 65536) % 2^32).toNat = 2^16 * a.toNat := by omega
  have e2 : (b % 2^32).toNat = b.toNat := by omega
  rw [e1, e2, ← Nat.two_pow_add_eq_or_of_lt (by omega)]; omega
theorem cOr32_disj24 (a b : Int) (ha : 0 ≤ a) (hb0 : 0 ≤ b) (hb : b < 2^24) (hs : a * 2^24 + b < 2^32) :
    cOr 32 (a * 16777216) b = a * 16777216 + b := by
  unfold cOr pat
  have e1 : ((a * 16777216) % 2^32).toNat = 2^24 * a.toNat := by omega
  have e2 : (b % 2^32).toNat = b.toNat := by omega
  rw [e1, e2, ← Nat.two_pow_add_eq_or_of_lt (by omega)]; omega

theorem cAnd32_63 (x : Int) : cAnd 32 x 63 = x % 64 := by
  unfold cAnd pat
  have : ((63:Int) % 2^32).toNat = 2^6 - 1 := by decide
  rw [this, Nat.and_two_pow_sub_one_eq_mod]; omega
theorem cAnd32_16383 (x : Int) : cAnd 32 x 16383 = x % 16384 := by
  unfold cAnd pat
  have : ((16383:Int) % 2^32).toNat = 2^14 - 1 := by decide
  rw [this, Nat.and_two_pow_sub_one_eq_mod]; omega
theorem cAnd32_4194303 (x : Int) : cAnd 32 x 4194303 = x % 4194304 := by
  unfold cAnd pat
  have : ((4194303:Int) % 2^32).toNat = 2^22 - 1 := by decide
  rw [this, Nat.and_two_pow_sub_one_eq_mod]; omega
theorem cAnd32_1073741823 (x : Int) : cAnd 32 x 1073741823 = x % 1073741824 := by
  unfold cAnd pat
  have : ((1073741823:Int) % 2^32).toNat = 2^30 - 1 := by decide
  rw [this, Nat.and_two_pow_sub_one_eq_mod]; omega

theorem mem_get_le16_val (f : Int → Int) (hf : ∀ i, 0 ≤ f i ∧ f i < 256) : mem_get_le16 f = f 1 * 256 + f 0 := by
  have h0 := hf 0; have h1 := hf 1
  unfold mem_get_le16
  c_const
  rw [cOr32_disj8 _ _ (by omega) (by omega) (by omega) (by omega)]
theorem mem_get_le24_val (f : Int → Int) (hf : ∀ i, 0 ≤ f i ∧ f i < 256) : mem_get_le24 f = f 2 * 65536 + f 1 * 256 + f 0 := by
  have h0 := hf 0; have h1 := hf 1; have h2 := hf 2
  unfold mem_get_le24
  c_const
  rw [cOr32_disj16 (f 2) (f 1 * 256) (by omega) (by omega) (by omega) (by omega)]
  have e : f 2 * 65536 + f 1 * 256 = (f 2 * 256 + f 1) * 256 := by omega
  rw [e, cOr32_disj8 _ _ (by omega) (by omega) (by omega) (by omega)]
theorem mem_get_le32_val (f : Int → Int) (hf : ∀ i, 0 ≤ f i ∧ f i < 256) :
    mem_get_le32 f = f 3 * 16777216 + f 2 * 65536 + f 1 * 256 + f 0 := by
  have h0 := hf 0; have h1 := hf 1; have h2 := hf 2; have h3 := hf 3
  unfold mem_get_le32
  c_const
  have e0 : wrapU32 (wrapI32 (f 3 * 16777216)) = f 3 * 16777216 := by unfold wrapU32 wrapI32; omega
  rw [e0, cOr32_disj24 (f 3) (f 2 * 65536) (by omega) (by omega) (by omega) (by omega)]
  have e1 : f 3 * 16777216 + f 2 * 65536 = (f 3 * 256 + f 2) * 65536 := by omega
  rw [e1, cOr32_disj16 _ (f 1 * 256) (by omega) (by omega) (by omega) (by omega)]
  have e2 : (f 3 * 256 + f 2) * 65536 + f 1 * 256 = (f 3 * 65536 + f 2 * 256 + f 1) * 256 := by omega
  rw [e2, cOr32_disj8 _ _ (by omega) (by omega) (by omega) (by omega)]

/-- a byte list as the index → byte function of the translated code -/
def bufOf (l : List Nat) : Int → Int := fun i => ((l.getD i.toNat 0 : Nat) : Int)

theorem bufOf_range (l : List Nat) (h : ∀ b ∈ l, b < 256) (i : Int) : 0 ≤ bufOf l i ∧ bufOf l i < 256 := by
  unfold bufOf
  rw [List.getD_eq_getElem?_getD]
  cases hh : l[i.toNat]? with
  | none => simp
  | some b =>
    have := h b (List.mem_of_getElem? hh)
    simp; omega

theorem bufOf_suffix (pre suf : List Nat) (j : Nat) (i : Int) (hi : i = (pre.length + j : Nat)) :
    bufOf (pre ++ suf) i = ((suf.getD j 0 : Nat) : Int) := by
  subst hi
  unfold bufOf
  have e : (((pre.length + j : Nat) : Int)).toNat = pre.length + j := by omega
  rw [e]
  simp [List.getD_eq_getElem?_getD, List.getElem?_append_right]


/-! ### core/draco_types.cc -/

/-- `DataTypeLength` for the valid data types `DT_INT8 … DT_BOOL` (the model returns 0, the C++ −1 for the others) -/
theorem DataTypeLength_eq_model (dt : Nat) (h1 : 1 ≤ dt) (h2 : dt ≤ 11) :
    DataTypeLength dt = (dataTypeLength dt : Int) := by
  unfold DataTypeLength dataTypeLength
  have e : wrapI32 (dt : Int) = dt := wrapI32_id _ (by omega) (by omega)
  simp only [e]
  repeat' (first | omega | split)


end Draco.Generated
