import DracoProofs.EbTravEquiv
import DracoProofs.EbTraversalFuel
/-
  SUCCESS TRANSFER for the vertex traversals: if the encoder's traversal (`depthFirstOrder`) on the view `e`
  succeeds and the decoder's view `d` is embedded into `e` (`TVIso d e φ ψ`), then the decoder's traversal
  (`Eb.depthFirst`) on `d` succeeds (and, by DracoProofs/EbTravEquiv.lean, the outputs correspond).

  The simulation of EbTravEquiv.lean (both runs succeed ⇒ corresponding states) is turned into a FORWARD simulation:
  every body of the decoder's loops succeeds on a state related to a state on which the encoder's body succeeded
  (`*_prog`); the two runs have different fuel bounds, so a decoder loop may a priori stop before the encoder's loop
  breaks — then the decoder raises "fuel exhausted" (`OkF`: success with the relation, or the fuel error), which
  `Eb.depthFirst_noFuel` (DracoProofs/EbTraversalFuel.lean) excludes for the whole traversal.

  Decoder-side side conditions (not in `TVIso`): the vertex ids fit `uint32_t` (`d.numVertices ≤ inv`), the face
  array covers the corners (`3 * d.numFaces ≤ facesD.size`), the vertex → entry map covers the vertices
  (`d.numVertices ≤ v2dSize`).
-/
namespace Draco.EbEnc
open Draco
open Draco.Eb hiding iabs nextC prevC

/-! ### success or "fuel exhausted" -/

/-- `x` succeeds with a result satisfying `Q`, or ends with the fuel error -/
def OkF {α : Type} (x : R α) (Q : α → Prop) : Prop :=
  (∃ a, x = .ok a ∧ Q a) ∨ ∃ s, x = .error (.fuel s)

theorem OkF.bind {α β : Type} {x : R α} {f : α → R β} {Q : α → Prop} {Q' : β → Prop}
    (hx : OkF x Q) (hf : ∀ a, Q a → OkF (f a) Q') : OkF (x >>= f) Q' := by
  rcases hx with ⟨a, rfl, ha⟩ | ⟨s, rfl⟩
  · exact hf a ha
  · exact Or.inr ⟨s, rfl⟩

theorem OkF.mono {α : Type} {x : R α} {Q Q' : α → Prop} (hx : OkF x Q) (h : ∀ a, Q a → Q' a) : OkF x Q' := by
  rcases hx with ⟨a, e, ha⟩ | hs
  · exact Or.inl ⟨a, e, h a ha⟩
  · exact Or.inr hs

theorem OkF.of_ok {α : Type} {x : R α} {a : α} {Q : α → Prop} (e : x = .ok a) (h : Q a) : OkF x Q :=
  Or.inl ⟨a, e, h⟩

/-- forward simulation of two loops (of any lengths) with index independent bodies, the second of which exits by
    `break` (`Q`): the first one exits by `break` in a related state, or runs out of iterations in a state related
    to some state of the second loop, or ends with the fuel error -/
theorem forIn_fwd_break {α β σ τ : Type} (f : σ → R (ForInStep σ)) (g : τ → R (ForInStep τ))
    (Rel RelD : σ → τ → Prop) (Q : τ → Prop)
    (hQ : ∀ s t, Rel s t → ¬ Q t)
    (hstep : ∀ s t r', Rel s t → g t = .ok r' → OkF (f s) (fun r =>
      (∃ s' t', r = .yield s' ∧ r' = .yield t' ∧ Rel s' t') ∨
      (∃ s' t', r = .done s' ∧ r' = .done t' ∧ RelD s' t'))) :
    ∀ (l1 : List α) (l2 : List β) s0 t0 outE, Rel s0 t0 →
      forIn l2 t0 (fun _ t => g t) = .ok outE → Q outE →
      OkF (forIn l1 s0 (fun _ s => f s)) (fun outD => RelD outD outE ∨ ∃ t, Rel outD t) := by
  intro l1
  induction l1 with
  | nil =>
    intro l2 s0 t0 outE hr _ _
    exact OkF.of_ok rfl (Or.inr ⟨t0, hr⟩)
  | cons a l1 ih =>
    intro l2 s0 t0 outE hr h2 hq
    cases l2 with
    | nil =>
      simp [pure, Except.pure] at h2
      subst h2
      exact absurd hq (hQ _ _ hr)
    | cons b l2 =>
      rw [List.forIn_cons, bind_ok_iff] at h2
      obtain ⟨r', hg, h2⟩ := h2
      rw [List.forIn_cons]
      refine (hstep s0 t0 r' hr hg).bind ?_
      rintro r (⟨s', t', rfl, rfl, hr'⟩ | ⟨s', t', rfl, rfl, hr'⟩)
      · exact ih l2 s' t' outE hr' h2 hq
      · simp [pure, Except.pure] at h2
        subst h2
        exact OkF.of_ok rfl (Or.inl hr')

/-- forward simulation of two loops over lists of the same length whose bodies only yield -/
theorem forIn_fwd_yield {α β σ τ : Type} (f : α → σ → R (ForInStep σ)) (g : β → τ → R (ForInStep τ))
    (Rel : Nat → σ → τ → Prop) :
    ∀ (l1 : List α) (l2 : List β) (k : Nat), l1.length = l2.length →
    (∀ i (h1 : i < l1.length) (h2 : i < l2.length) s t r', Rel (k + i) s t → g l2[i] t = .ok r' →
      OkF (f l1[i] s) (fun r => ∃ s' t', r = .yield s' ∧ r' = .yield t' ∧ Rel (k + i + 1) s' t')) →
    ∀ s0 t0 outE, Rel k s0 t0 → forIn l2 t0 g = .ok outE →
      OkF (forIn l1 s0 f) (fun outD => Rel (k + l1.length) outD outE) := by
  intro l1
  induction l1 with
  | nil =>
    intro l2 k hlen _ s0 t0 outE hr h2
    cases l2 with
    | cons b l2 => simp at hlen
    | nil =>
      simp [pure, Except.pure] at h2
      subst h2
      exact OkF.of_ok rfl (by simpa using hr)
  | cons a l1 ih =>
    intro l2 k hlen hstep s0 t0 outE hr h2
    cases l2 with
    | nil => simp at hlen
    | cons b l2 =>
      rw [List.forIn_cons, bind_ok_iff] at h2
      obtain ⟨r', hg, h2⟩ := h2
      rw [List.forIn_cons]
      refine (hstep 0 (by simp) (by simp) s0 t0 r' (by simpa using hr) (by simpa using hg)).bind ?_
      rintro r ⟨s', t', rfl, rfl, hr'⟩
      have := ih l2 (k + 1) (by simpa using hlen) (fun i h1 h2 s t r' hrel hgi => by
        have := hstep (i + 1) (by simp; omega) (by simp; omega) s t r'
          (by rw [show k + (i + 1) = k + 1 + i by omega]; exact hrel) (by simpa using hgi)
        rw [show k + (i + 1) + 1 = k + 1 + i + 1 by omega] at this
        simpa using this) s' t' outE (by simpa using hr') h2
      rw [show k + (a :: l1).length = k + 1 + l1.length by simp; omega]
      exact this

/-! ### the decoder's accesses succeed -/

theorem faceVisited_total {fv : Array Bool} {n o : Nat} (hsz : fv.size = n) (hn : 3 * n ≤ inv)
    (ho : o = inv ∨ o < 3 * n) : ∃ b, faceVisited fv (faceOfCorner o) = .ok b := by
  rcases ho with rfl | ho
  · exact ⟨true, by simp [faceVisited, faceOfCorner, pure, Except.pure]⟩
  · have hne : o ≠ inv := by omega
    have hlt : o / 3 < fv.size := by omega
    have h3 : o / 3 ≠ inv := by omega
    refine ⟨fv[o / 3], ?_⟩
    unfold faceVisited faceOfCorner
    simp only [beq_iff_eq, hne, h3, if_false]
    rw [trav_rdB_ok_iff]
    simp [hlt]

/-- the result of `onNewVertex` -/
def newOut (faces : Array Nat) (out : SeqOut) (v c : Nat) (hc : c < faces.size) : SeqOut :=
  { pointIds := out.pointIds.push faces[c], d2c := out.d2c.push c, v2d := out.v2d.setIfInBounds v out.d2c.size }

section
variable {d e : TView} {φ ψ : Nat → Nat} {facesD facesE : Array Nat}

/-- the end of an iteration of the decoder's inner loop succeeds at a corner in use -/
theorem dfTail_prog (h : TVIso d e φ ψ) {fvD vvD : Array Bool} {outD : SeqOut} (hsz : fvD.size = d.numFaces)
    (stackD : Array Nat) (c fD : Nat) (fin : Bool) (hlt : c < 3 * d.numFaces) :
    ∃ r, dfTail d fvD vvD outD stackD c fD fin = .ok r ∧ r.value.2.2.1 = outD ∧
      ∀ s', r = .done s' → s'.2.2.2.2.2.2 = true := by
  obtain ⟨ro, hr1, hr2, -⟩ := right_corr h c hlt
  obtain ⟨lo, hl1, hl2, -⟩ := left_corr h c hlt
  obtain ⟨b1, hb1⟩ := faceVisited_total hsz h.fits.1 hr2
  obtain ⟨b2, hb2⟩ := faceVisited_total hsz h.fits.1 hl2
  unfold dfTail
  rw [hr1, trav_ok_bind, hl1, trav_ok_bind, hb1, trav_ok_bind]
  cases b1 <;> simp only [Bool.false_eq_true, if_false, if_true] <;> rw [hb2, trav_ok_bind] <;>
    cases b2 <;> refine ⟨_, rfl, rfl, ?_⟩ <;> intro s' e <;> cases e <;> rfl

/-- an iteration of the decoder's inner loop succeeds on a state related to one on which the encoder's does -/
theorem dfInner_prog (h : TVIso d e φ ψ) (hNV : d.numVertices ≤ inv) (hfa : 3 * d.numFaces ≤ facesD.size)
    (n : Nat) (s t : DfStI) (r' : ForInStep DfStI) (hr : TRelI d e φ ψ facesD facesE n s t)
    (hv : d.numVertices ≤ s.2.2.1.v2d.size) (hE : dfInner e facesE t = .ok r') :
    ∃ r, dfInner d facesD s = .ok r ∧ r.value.2.2.1.v2d.size = s.2.2.1.v2d.size ∧
      ∀ s', r = .done s' → s'.2.2.2.2.2.2 = true := by
  have hf := h.fits
  have hinv : inv = 4294967295 := rfl
  obtain ⟨fvD, vvD, outD, stackD, c, fD, b2D⟩ := s
  obtain ⟨fvE, vvE, outE, stackE, cE, fE, b2E⟩ := t
  obtain ⟨hi, f1, f2⟩ := hr
  simp only at hi f1 f2 hv
  subst f1 f2
  obtain ⟨hc, hstack, hstk, hcorner, hclt, hfD, hfE, hk, hh⟩ := hi
  subst hstack hcorner hfD hfE
  unfold dfInner dfInnerC at hE ⊢
  simp only at hE ⊢
  rw [bind_ok_iff] at hE
  obtain ⟨fvE', hmE, hE⟩ := hE
  rw [trav_wrB_ok_iff] at hmE
  obtain ⟨hmE1, -⟩ := hmE
  have hlt : c < 3 * d.numFaces := by
    rcases hclt with rfl | hlt
    · exfalso
      rw [ext_inv, hc.fvE_size] at hmE1
      omega
    · exact hlt
  have hwD : ∀ site, wrB site fvD (c / 3) true = .ok (fvD.setIfInBounds (c / 3) true) := fun site =>
    (trav_wrB_ok_iff _ _ _ _ _).2 ⟨by rw [hc.fvD_size]; omega, rfl⟩
  have hsz' : (fvD.setIfInBounds (c / 3) true).size = d.numFaces := by simp [hc.fvD_size]
  rw [hwD, trav_ok_bind]
  obtain ⟨v, hv1, hv2, -, -⟩ := h.vertex c hlt
  rw [hv1, trav_ok_bind]
  have hvne : (v == inv) = false := by simp; omega
  simp only [hvne, Bool.false_eq_true, if_false]
  have hvs : v < vvD.size := by rw [hc.vvD_size]; exact hv2
  have hrd : ∀ site, rdB site vvD v = .ok vvD[v] := fun site => (trav_rdB_ok_iff _ _ _ _).2 (by simp [hvs])
  rw [hrd, trav_ok_bind]
  generalize vvD[v] = b
  cases b with
  | true =>
    simp only [Bool.not_true, Bool.false_eq_true, if_false]
    obtain ⟨r, hr, ho, hfin⟩ := dfTail_prog h (vvD := vvD) (outD := outD) hsz' stackD c (c / 3) false hlt
    exact ⟨r, hr, by rw [ho], hfin⟩
  | false =>
    simp only [Bool.not_false, if_true]
    obtain ⟨bb, hbd1, -⟩ := h.boundary c v hlt hv1
    rw [hbd1, trav_ok_bind]
    have hwv : ∀ site, wrB site vvD v true = .ok (vvD.setIfInBounds v true) := fun site =>
      (trav_wrB_ok_iff _ _ _ _ _).2 ⟨hvs, rfl⟩
    rw [hwv, trav_ok_bind]
    have hcf : c < facesD.size := by omega
    have hon : onNewVertex facesD outD v c = .ok (newOut facesD outD v c hcf) :=
      (onNewVertex_ok_iff _ _ _ _ _).2 ⟨facesD[c], by simp [hcf], by omega, rfl⟩
    rw [hon, trav_ok_bind]
    cases bb with
    | true =>
      simp only [Bool.not_true, Bool.false_eq_true, if_false]
      obtain ⟨r, hr, ho, hfin⟩ := dfTail_prog h (vvD := vvD.setIfInBounds v true)
        (outD := newOut facesD outD v c hcf) hsz' stackD c (c / 3) false hlt
      exact ⟨r, hr, by rw [ho]; simp [newOut], hfin⟩
    | false =>
      simp only [Bool.not_false, if_true]
      obtain ⟨ro, hr1, -, -⟩ := right_corr h c hlt
      rw [hr1, trav_ok_bind]
      exact ⟨_, rfl, by simp [ForInStep.value, newOut], by intro s' e; cases e⟩

/-- the relation of the inner loops together with the size of the decoder's vertex → entry map -/
def RelI' (d e : TView) (φ ψ : Nat → Nat) (facesD facesE : Array Nat) (n m : Nat) (s t : DfStI) : Prop :=
  TRelI d e φ ψ facesD facesE n s t ∧ s.2.2.1.v2d.size = m

def RelID' (d e : TView) (φ ψ : Nat → Nat) (facesD facesE : Array Nat) (n m : Nat) (s t : DfStI) : Prop :=
  TRelID d e φ ψ facesD facesE n s t ∧ s.2.2.1.v2d.size = m ∧ s.2.2.2.2.2.2 = true

/-- forward step of the inner loop -/
theorem dfInner_fwd (h : TVIso d e φ ψ) (hNV : d.numVertices ≤ inv) (hfa : 3 * d.numFaces ≤ facesD.size)
    (n m : Nat) (hm : d.numVertices ≤ m) (s t : DfStI) (r' : ForInStep DfStI)
    (hr : RelI' d e φ ψ facesD facesE n m s t) (hE : dfInner e facesE t = .ok r') :
    OkF (dfInner d facesD s) (fun r =>
      (∃ s' t', r = .yield s' ∧ r' = .yield t' ∧ RelI' d e φ ψ facesD facesE n m s' t') ∨
      (∃ s' t', r = .done s' ∧ r' = .done t' ∧ RelID' d e φ ψ facesD facesE n m s' t')) := by
  obtain ⟨hrel, hsz⟩ := hr
  obtain ⟨r, hD, hv, hfin⟩ := dfInner_prog h hNV hfa n s t r' hrel (by omega) hE
  refine OkF.of_ok hD ?_
  rcases dfInner_sim h n s t r r' hrel hD hE with ⟨s', t', rfl, rfl, hr'⟩ | ⟨s', t', rfl, rfl, hr'⟩
  · exact Or.inl ⟨s', t', rfl, rfl, hr', by simpa [ForInStep.value, hsz] using hv⟩
  · exact Or.inr ⟨s', t', rfl, rfl, hr', by simpa [ForInStep.value, hsz] using hv, hfin s' rfl⟩

/-- forward step of the loop over the stack: the decoder's iteration succeeds in a corresponding state, or the
    decoder's inner loop runs out of fuel -/
theorem dfMid_fwd (h : TVIso d e φ ψ) (hNV : d.numVertices ≤ inv) (hfa : 3 * d.numFaces ≤ facesD.size)
    (n fuelD fuelE : Nat) (hn : n ≤ d.numFaces) (m : Nat) (hm : d.numVertices ≤ m) (s t : DfStM)
    (r' : ForInStep DfStM) (hr : TRelM d e φ ψ facesD facesE n s t) (hv : s.2.2.1.v2d.size = m)
    (hE : dfMid e facesE fuelE t = .ok r') :
    OkF (dfMid d facesD fuelD s) (fun r =>
      ((∃ s' t', r = .yield s' ∧ r' = .yield t' ∧ TRelM d e φ ψ facesD facesE n s' t') ∨
       (∃ s' t', r = .done s' ∧ r' = .done t' ∧ TRelMD d e φ ψ facesD facesE n s' t' ∧ s'.2.2.2.2 = true)) ∧
      r.value.2.2.1.v2d.size = m) := by
  suffices hex : OkF (dfMid d facesD fuelD s)
      (fun r => r.value.2.2.1.v2d.size = m ∧ ∀ s', r = .done s' → s'.2.2.2.2 = true) by
    rcases hex with ⟨r, hD, hsz, hfin⟩ | hs
    · refine Or.inl ⟨r, hD, ?_, hsz⟩
      rcases dfMid_sim h n fuelD fuelE hn s t r r' hr hD hE with ⟨s', t', rfl, rfl, hrel⟩ | ⟨s', t', rfl, rfl, hrel⟩
      · exact Or.inl ⟨s', t', rfl, rfl, hrel⟩
      · exact Or.inr ⟨s', t', rfl, rfl, hrel, hfin s' rfl⟩
    · exact Or.inr hs
  have hf := h.fits
  obtain ⟨fvD, vvD, outD, stackD, finD⟩ := s
  obtain ⟨fvE, vvE, outE, stackE, finE⟩ := t
  obtain ⟨hs, f1, f2⟩ := hr
  simp only at hs f1 f2 hv
  subst f1 f2
  have hstack := hs.stack
  subst hstack
  unfold dfMid dfMidC at hE ⊢
  simp only at hE ⊢
  have hemp : (Array.map (ext φ) stackD).isEmpty = stackD.isEmpty := by simp [Array.isEmpty]
  rw [hemp] at hE
  by_cases hem : stackD.isEmpty = true
  · rw [if_pos hem]
    exact OkF.of_ok rfl ⟨hv, by intro s' e; cases e; rfl⟩
  rw [if_neg hem] at hE ⊢
  have hsz : 0 < stackD.size := by
    rcases Nat.eq_zero_or_pos stackD.size with e0 | e0
    · exact absurd (by simp [Array.isEmpty, e0]) hem
    · exact e0
  rw [trav_back_map hsz] at hE
  have hbm := trav_back_mem hsz
  rcases hs.stack_lt _ hbm with hx | hx
  · rw [hx]
    simp only [beq_self_eq_true, if_true]
    exact OkF.of_ok rfl ⟨hv, by intro s' e; cases e⟩
  · have hxne : stackD.back! ≠ inv := by omega
    have hxneE : ext φ stackD.back! ≠ inv := by rw [ext_of_ne φ hxne]; exact h.phi_ne_inv _ hx
    simp only [beq_iff_eq, hxne, hxneE, if_false] at hE ⊢
    rw [faceVisited_div _ _ hxne]
    rw [faceVisited_div _ _ hxneE, faceVisited_corr h hs.core _ (Or.inr hx)] at hE
    obtain ⟨b, hb⟩ := faceVisited_total hs.core.fvD_size hf.1 (Or.inr hx)
    rw [hb, trav_ok_bind] at hE ⊢
    cases b with
    | true =>
      simp only [if_true]
      exact OkF.of_ok rfl ⟨hv, by intro s' e; cases e⟩
    | false =>
      simp only [Bool.false_eq_true, if_false] at hE ⊢
      rw [bind_ok_iff] at hE
      obtain ⟨sE, hlE, hE⟩ := hE
      split at hE
      · exact absurd hE (trav_throw_ne_ok _ _)
      rename_i hfE
      simp only [Std.Legacy.Range.forIn_eq_forIn_range'] at hlE ⊢
      have hres := forIn_fwd_break (dfInner d facesD) (dfInner e facesE) (RelI' d e φ ψ facesD facesE n m)
        (RelID' d e φ ψ facesD facesE n m) (fun t => t.2.2.2.2.2.2 = true)
        (fun s t hrel => by simp [hrel.1.2.2])
        (fun s t r' hrel h2 => dfInner_fwd h hNV hfa n m hm s t r' hrel h2)
        (List.range' 0 [0:fuelD].size 1) _
        ((fvD, vvD, outD, stackD, stackD.back!, stackD.back! / 3, false) : DfStI) _ sE ?_ hlE (by simpa using hfE)
      · refine hres.bind ?_
        rintro sD (⟨hrel, hsz', hfin⟩ | ⟨t, hrel, -⟩)
        · simp only [hfin, Bool.not_true, Bool.false_eq_true, if_false]
          exact OkF.of_ok rfl ⟨by simpa [ForInStep.value] using hsz', by intro s' e; cases e⟩
        · have : sD.2.2.2.2.2.2 = false := hrel.2.1
          simp only [this, Bool.not_false, if_true]
          exact Or.inr ⟨_, rfl⟩
      · refine ⟨⟨?_, rfl, rfl⟩, hv⟩
        refine { core := hs.core, stack := rfl, stack_lt := hs.stack_lt, corner := rfl,
                 corner_lt := Or.inr hx, faceD := rfl, faceE := rfl, k := ?_, hedge := ?_ }
        · intro j hj
          rcases hs.k j hj with e1 | e1
          · exact Or.inl e1
          · rcases trav_mem_pop_or_eq_back e1 with e2 | e2
            · exact Or.inr (Or.inl e2)
            · exact Or.inr (Or.inr e2.symm)
        · intro hg
          obtain ⟨hj, hsn⟩ := hs.hedge hg
          exact ⟨hj, hsn, fun hne => hsn _ hbm hne⟩

/-- the visited flags and the sequence after `visitK` -/
def visVV (vv : Array Bool) (v : Nat) : Array Bool := if vv[v]? = some true then vv else vv.setIfInBounds v true
def visOut (faces : Array Nat) (vv : Array Bool) (out : SeqOut) (v c : Nat) (hc : c < faces.size) : SeqOut :=
  if vv[v]? = some true then out else newOut faces out v c hc

theorem visOut_size (faces : Array Nat) (vv : Array Bool) (out : SeqOut) (v c : Nat) (hc : c < faces.size) :
    (visOut faces vv out v c hc).v2d.size = out.v2d.size := by
  unfold visOut
  split <;> simp [newOut]

theorem visVV_size (vv : Array Bool) (v : Nat) : (visVV vv v).size = vv.size := by
  unfold visVV
  split <;> simp

/-- the decoder's `visitK` runs its continuation -/
theorem visitK_eq {β : Type} (faces : Array Nat) (vv : Array Bool) (out : SeqOut) (v c : Nat)
    (k : Array Bool → SeqOut → R β) (hv : v < vv.size) (hc : c < faces.size) (hv2 : v < out.v2d.size) :
    visitK faces vv out v c k = k (visVV vv v) (visOut faces vv out v c hc) := by
  unfold visitK visVV visOut
  have hrd : ∀ site, rdB site vv v = .ok vv[v] := fun site => (trav_rdB_ok_iff _ _ _ _).2 (by simp [hv])
  rw [hrd, trav_ok_bind]
  have hg : vv[v]? = some vv[v] := by simp [hv]
  rw [hg]
  generalize vv[v] = b
  cases b with
  | true => simp
  | false =>
    simp only [Bool.not_false, if_true]
    have hwv : ∀ site, wrB site vv v true = .ok (vv.setIfInBounds v true) := fun site =>
      (trav_wrB_ok_iff _ _ _ _ _).2 ⟨hv, rfl⟩
    have hon : onNewVertex faces out v c = .ok (newOut faces out v c hc) :=
      (onNewVertex_ok_iff _ _ _ _ _).2 ⟨faces[c], by simp [hc], hv2, rfl⟩
    rw [hwv, trav_ok_bind, hon, trav_ok_bind]
    simp

/-- forward step of the loop over the start corners: `TraverseFromCorner` -/
theorem dfFrom_fwd (h : TVIso d e φ ψ) (hNV : d.numVertices ≤ inv) (hfa : 3 * d.numFaces ≤ facesD.size)
    (fuelD fuelE i : Nat) (hi : i < d.numFaces) (m : Nat) (hm : d.numVertices ≤ m)
    {fvD vvD : Array Bool} {outD : SeqOut} {fvE vvE : Array Bool} {outE : SeqOut}
    (hc : TravCore d e φ ψ facesD facesE fvD vvD outD fvE vvE outE)
    (hprev : ∀ j, j < i → fvD[j]? = some true) (hj : Hedge d → JInv d fvD vvD) (hv : outD.v2d.size = m)
    (r' : ForInStep DfSt4) (hE : dfFrom e facesE fuelE (φ (3 * i)) fvE vvE outE = .ok r') :
    OkF (dfFrom d facesD fuelD (3 * i) fvD vvD outD) (fun r =>
      ∃ s' t', r = .yield s' ∧ r' = .yield t' ∧ TRelO d e φ ψ facesD facesE (i + 1) s' t' ∧
        s'.2.2.1.v2d.size = m) := by
  suffices hex : OkF (dfFrom d facesD fuelD (3 * i) fvD vvD outD) (fun r => r.value.2.2.1.v2d.size = m) by
    rcases hex with ⟨r, hD, hsz⟩ | hs
    · refine Or.inl ⟨r, hD, ?_⟩
      obtain ⟨s', t', rfl, rfl, hrel⟩ := dfFrom_sim h fuelD fuelE i hi hc hprev hj r r' hD hE
      exact ⟨s', t', rfl, rfl, hrel, hsz⟩
    · exact Or.inr hs
  have hf := h.fits
  have hinv : inv = 4294967295 := rfl
  have hlt : 3 * i < 3 * d.numFaces := by omega
  have hne : 3 * i ≠ inv := by omega
  unfold dfFrom at hE ⊢
  simp only at hE ⊢
  obtain ⟨nv, hn1, hn2, hn3, _⟩ := h.vertex (Eb.nextC (3 * i)) (TVIso.nextC_lt hlt)
  obtain ⟨pv, hp1, hp2, hp3, _⟩ := h.vertex (Eb.prevC (3 * i)) (TVIso.prevC_lt hlt hf.1)
  rw [h.phi_next _ hlt] at hn3
  rw [h.phi_prev _ hlt] at hp3
  rw [hn1, trav_ok_bind, hp1, trav_ok_bind]
  rw [hn3, trav_ok_bind, hp3, trav_ok_bind] at hE
  split at hE
  · exact absurd hE (trav_throw_ne_ok _ _)
  have hnn : (nv == inv || pv == inv) = false := by simp; omega
  simp only [hnn, Bool.false_eq_true, if_false]
  rw [← h.phi_next _ hlt] at hE
  have hnl := TVIso.nextC_lt hlt
  have hpl := TVIso.prevC_lt hlt hf.1
  have hnf : Eb.nextC (3 * i) < facesD.size := by omega
  have hpf : Eb.prevC (3 * i) < facesD.size := by omega
  -- first visit
  have hq1 : nv < vvD.size := by rw [hc.vvD_size]; exact hn2
  rw [visitK_eq facesD vvD outD nv _ _ hq1 hnf (by omega)]
  have hk1 : visitK facesD vvD outD nv (Eb.nextC (3 * i))
      (fun vv out => (pure (vv, out) : R (Array Bool × SeqOut))) =
      .ok (visVV vvD nv, visOut facesD vvD outD nv _ hnf) := visitK_eq facesD vvD outD nv _ _ hq1 hnf (by omega)
  obtain ⟨vv1, out1, vvE1, outE1, hc1, hkD1, hE, hseen1, hor1⟩ :=
    visitK_sim h hc _ nv hnl hn1 _ _ _ r' hk1 hE
  simp only [pure, Except.pure, Except.ok.injEq, Prod.mk.injEq] at hkD1
  obtain ⟨rfl, rfl⟩ := hkD1
  -- second visit
  rw [← h.phi_prev _ hlt] at hE
  have hq2 : pv < (visVV vvD nv).size := by rw [visVV_size, hc.vvD_size]; exact hp2
  have hq3 : pv < (visOut facesD vvD outD nv _ hnf).v2d.size := by rw [visOut_size]; omega
  rw [visitK_eq facesD _ _ pv _ _ hq2 hpf hq3]
  have hk2 : visitK facesD (visVV vvD nv) (visOut facesD vvD outD nv _ hnf) pv (Eb.prevC (3 * i))
      (fun vv out => (pure (vv, out) : R (Array Bool × SeqOut))) =
      .ok (visVV (visVV vvD nv) pv, visOut facesD (visVV vvD nv) (visOut facesD vvD outD nv _ hnf) pv _ hpf) :=
    visitK_eq facesD _ _ pv _ _ hq2 hpf hq3
  obtain ⟨vv2, out2, vvE2, outE2, hc2, hkD2, hE, hseen2, hor2⟩ :=
    visitK_sim h hc1 _ pv hpl hp1 _ _ _ r' hk2 hE
  simp only [pure, Except.pure, Except.ok.injEq, Prod.mk.injEq] at hkD2
  obtain ⟨rfl, rfl⟩ := hkD2
  have hsz2 : (visOut facesD (visVV vvD nv) (visOut facesD vvD outD nv _ hnf) pv _ hpf).v2d.size = m := by
    rw [visOut_size, visOut_size, hv]
  -- the loop over the stack
  rw [bind_ok_iff] at hE
  obtain ⟨sE, hlE, hE⟩ := hE
  split at hE
  · exact absurd hE (trav_throw_ne_ok _ _)
  rename_i hfE
  simp only [Std.Legacy.Range.forIn_eq_forIn_range'] at hlE ⊢
  have hres := forIn_fwd_break (dfMid d facesD fuelD) (dfMid e facesE fuelE)
    (fun s t => TRelM d e φ ψ facesD facesE (i + 1) s t ∧ s.2.2.1.v2d.size = m)
    (fun s t => TRelMD d e φ ψ facesD facesE (i + 1) s t ∧ s.2.2.2.2 = true ∧ s.2.2.1.v2d.size = m)
    (fun t => t.2.2.2.2 = true)
    (fun s t hrel => by simp [hrel.1.2.2])
    (fun s t r' hrel h2 => by
      refine (dfMid_fwd h hNV hfa (i + 1) fuelD fuelE (by omega) m hm s t r' hrel.1 hrel.2 h2).mono ?_
      rintro r ⟨⟨s', t', rfl, rfl, hr'⟩ | ⟨s', t', rfl, rfl, hr', hfin⟩, hsz⟩
      · exact Or.inl ⟨s', t', rfl, rfl, hr', by simpa [ForInStep.value] using hsz⟩
      · exact Or.inr ⟨s', t', rfl, rfl, hr', hfin, by simpa [ForInStep.value] using hsz⟩)
    (List.range' 0 [0:fuelD].size 1) _
    ((fvD, visVV (visVV vvD nv) pv,
      visOut facesD (visVV vvD nv) (visOut facesD vvD outD nv _ hnf) pv _ hpf, #[3 * i], false) : DfStM)
    _ sE ?_ hlE (by simpa using hfE)
  · refine hres.bind ?_
    rintro sD (⟨-, hfin, hsz'⟩ | ⟨t, hrel, -⟩)
    · simp only [hfin, Bool.not_true, Bool.false_eq_true, if_false]
      exact OkF.of_ok rfl (by simpa [ForInStep.value] using hsz')
    · have : sD.2.2.2.2 = false := hrel.2.1
      simp only [this, Bool.not_false, if_true]
      exact Or.inr ⟨_, rfl⟩
  · refine ⟨⟨?_, rfl, rfl⟩, hsz2⟩
    refine { core := hc2, stack := by simp [ext_of_ne φ hne], stack_lt := ?_, k := ?_, hedge := ?_ }
    · intro x hx
      simp only [List.mem_toArray, List.mem_singleton] at hx
      subst hx
      exact Or.inr hlt
    · intro j hj'
      by_cases e1 : j < i
      · exact Or.inl (hprev j e1)
      · have : j = i := by omega
        subst this
        exact Or.inr (by simp)
    · intro hg
      refine ⟨((hj hg).of_or hor1).of_or hor2, ?_⟩
      intro x hx _
      simp only [List.mem_toArray, List.mem_singleton] at hx
      subst hx
      refine ⟨?_, ?_⟩
      · have : VSeen d (visVV vvD nv) (Eb.nextC (3 * i)) := by
          intro v' hv'
          rw [hn1] at hv'; cases hv'
          exact hseen1
        exact this.of_or hor2
      · intro v' hv'
        rw [hp1] at hv'; cases hv'
        exact hseen2

/-- **Success transfer, depth-first traversal**: the decoder's traversal succeeds (or runs out of fuel — excluded
    below) whenever the encoder's traversal of an isomorphic view does; the final states correspond -/
theorem depthFirst_okF (h : TVIso d e φ ψ) (hNV : d.numVertices ≤ inv) (hfa : 3 * d.numFaces ≤ facesD.size)
    (order v2dInit : Array Nat) (v2dSize : Nat) (hv2 : d.numVertices ≤ v2dSize)
    (hsize : order.size = d.numFaces) (horder : ∀ i, i < d.numFaces → order[i]! = φ (3 * i))
    (outE : SeqOut) (hE : depthFirstOrder e facesE order v2dInit = .ok outE) :
    OkF (depthFirst d facesD v2dSize) (fun _ => True) := by
  have hf := h.fits
  rw [depthFirstOrder_eq, bind_ok_iff] at hE
  obtain ⟨sE, hlE, hE⟩ := hE
  rw [depthFirst_eq]
  simp only [Std.Legacy.Range.forIn_eq_forIn_range']
  rw [← Array.forIn_toList] at hlE
  have hlen : (List.range' 0 [0:d.numFaces].size 1).length = order.toList.length := by
    simp [Std.Legacy.Range.size, hsize]
  refine OkF.bind (Q := fun _ => True) (OkF.mono (forIn_fwd_yield _ _
    (fun i (s t : DfSt4) => TRelO d e φ ψ facesD facesE i s t ∧ s.2.2.1.v2d.size = v2dSize)
    _ _ 0 hlen ?_ (dfInit d (Array.replicate v2dSize 0)) _ sE ?_ hlE) (fun _ _ => trivial))
    (fun a _ => OkF.of_ok rfl trivial)
  · intro i h1 h2 s t r' hrel hfE
    have hi : i < d.numFaces := by simpa [Std.Legacy.Range.size] using h1
    have e1 : (List.range' 0 [0:d.numFaces].size 1)[i] = i := by simp
    have e2 : order.toList[i] = φ (3 * i) := by
      rw [← horder i hi]
      have : i < order.size := by omega
      simp [this]
    rw [e1]
    rw [e2] at hfE
    obtain ⟨fvD, vvD, outD, stackD⟩ := s
    obtain ⟨fvE, vvE, outE, stackE⟩ := t
    obtain ⟨⟨hc, hk, hj⟩, hsz⟩ := hrel
    simp only [Nat.zero_add] at hk ⊢
    simp only at hc hk hj hfE hsz ⊢
    have hlt : 3 * i < 3 * d.numFaces := by omega
    have hne : 3 * i ≠ inv := by omega
    have hfv := faceVisited_corr h hc (3 * i) (Or.inr hlt)
    rw [ext_of_ne φ hne] at hfv
    have hfo : faceOfCorner (3 * i) = i := by
      simp only [faceOfCorner, beq_iff_eq]
      rw [if_neg hne]
      omega
    rw [hfv, hfo] at hfE
    have hfvD : faceVisited fvD i = rdB "is_face_visited_" fvD i := by
      unfold faceVisited
      rw [if_neg (by simp; omega)]
    rw [hfvD] at hfE
    have hil : i < fvD.size := by rw [hc.fvD_size]; exact hi
    have hrd : rdB "is_face_visited_" fvD i = .ok fvD[i] := (trav_rdB_ok_iff _ _ _ _).2 (by simp [hil])
    have hget : fvD[i]? = some fvD[i] := by simp [hil]
    rw [hrd, trav_ok_bind] at hfE ⊢
    generalize fvD[i] = b at hfE hget ⊢
    cases b with
    | true =>
      simp only [if_true, pure, Except.pure] at hfE ⊢
      cases hfE
      refine OkF.of_ok rfl ⟨_, _, rfl, rfl, ⟨hc, ?_, hj⟩, hsz⟩
      intro j hj'
      by_cases e3 : j < i
      · exact hk j e3
      · have : j = i := by omega
        subst this
        exact hget
    | false =>
      simp only [Bool.false_eq_true, if_false] at hfE ⊢
      exact dfFrom_fwd h hNV hfa _ _ i hi v2dSize hv2 hc hk hj hsz r' hfE
  · exact ⟨⟨TravCore.init h _ _, fun j hj => by omega, fun _ c _ hm => by
      simp [dfInit, Array.getElem?_replicate] at hm⟩, by simp [dfInit]⟩

/-- **Success transfer, depth-first traversal** (`traversalMethod = 0`): if the encoder's depth-first traversal
    of the view `e` (from the start corners `φ (3 i)`) succeeds and the decoder's view `d` is embedded into `e`, then
    the decoder's traversal of `d` succeeds -/
theorem depthFirst_success_transfer (h : TVIso d e φ ψ) (hNV : d.numVertices ≤ inv)
    (hfa : 3 * d.numFaces ≤ facesD.size) (order v2dInit : Array Nat) (v2dSize : Nat) (hv2 : d.numVertices ≤ v2dSize)
    (hsize : order.size = d.numFaces) (horder : ∀ i, i < d.numFaces → order[i]! = φ (3 * i))
    (outE : SeqOut) (hE : depthFirstOrder e facesE order v2dInit = .ok outE) :
    ∃ outD, depthFirst d facesD v2dSize = .ok outD := by
  rcases depthFirst_okF h hNV hfa order v2dInit v2dSize hv2 hsize horder outE hE with ⟨a, ha, -⟩ | ⟨s, hs⟩
  · exact ⟨a, ha⟩
  · exact absurd hs (depthFirst_noFuel d facesD v2dSize s)

end

end Draco.EbEnc
