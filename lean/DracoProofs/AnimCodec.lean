import DracoProofs.Animation
import DracoProofs.SpecCheck
/-
  The bridge between the `KeyframeAnimation` state machine (DracoModel/Animation.lean) and the
  sequential point-cloud codec (DracoModel/SeqEncoder.lean, SeqDecoder.lean): the point cloud an
  animation IS, the invariants that make it a geometry in the domain `GeomOK` of the sequential
  round-trip theorems.
-/
namespace Draco
open SeqEnc

/-- the `PointAttribute` behind one attribute of the animation: the components are stored little
    endian with `DataTypeLength(data_type)` bytes each, identity point map (frame `i` = entry `i`) -/
def AnimAttr.toAttribute (a : AnimAttr) : Attribute :=
  { attType := a.attType, dataType := a.dataType, numComponents := a.numComponents,
    normalized := a.normalized, uniqueId := a.uniqueId, numValues := a.size, map := none,
    values := a.data.flatMap (writeLE (dataTypeLength a.dataType)) }

/-- the `PointCloud` a `KeyframeAnimation` is (`KeyframeAnimationEncoder::EncodeKeyframeAnimation`
    passes it to `PointCloudSequentialEncoder::Encode` unchanged): frames are points -/
def Anim.toGeometry (A : Anim) : Geometry :=
  { isMesh := false, numPoints := A.numFrames, faces := [], atts := A.atts.map AnimAttr.toAttribute }

/-- API calls whose arguments are what the C++ types hold and that stay clear of the two narrowings
    of the model header: the component count fits the stored `uint8_t`, the components are values of
    the track's type (bit patterns of `DataTypeLength` bytes; float32 patterns for timestamps), and
    fewer than 2^23 frames / components per call (so that `num_components * num_frames` neither wraps
    in `uint32_t` nor leaves `int`) -/
def AnimCall.Plain : AnimCall → Prop
  | .setTimestamps ts => ts.length < 2 ^ 23 ∧ ∀ x ∈ ts, x < 2 ^ 32
  | .addKeyframes dt nc data => nc < 256 ∧ data.length < 2 ^ 23 ∧ ∀ x ∈ data, x < 256 ^ dataTypeLength dt

instance (c : AnimCall) : Decidable c.Plain := by
  cases c <;> unfold AnimCall.Plain <;> infer_instance

/-- the stored data is one component list per entry and consists of bit patterns of the type -/
def AnimAttr.WellStored (a : AnimAttr) : Prop :=
  a.data.length = a.size * a.numComponents ∧ ∀ x ∈ a.data, x < 256 ^ dataTypeLength a.dataType

def Anim.Stored (A : Anim) : Prop := A.numFrames < 2 ^ 23 ∧ ∀ a ∈ A.atts, a.WellStored

theorem tsAttr_wellStored (ts : List Nat) (h : ∀ x ∈ ts, x < 2 ^ 32) : (tsAttr ts).WellStored := by
  refine ⟨by simp [tsAttr, AnimAttr.init], ?_⟩
  intro x hx
  have := h x hx
  show x < 256 ^ dataTypeLength 9
  have e : dataTypeLength 9 = 4 := by decide
  rw [e]; omega

theorem Anim.step_stored {A : Anim} (h : A.Stored) {c : AnimCall} (hc : c.Plain) :
    (A.step c).1.Stored := by
  obtain ⟨hnf, hall⟩ := h
  cases c with
  | setTimestamps ts =>
    obtain ⟨hl, hx⟩ := hc
    show (A.setTimestamps ts).1.Stored
    rcases A.setTimestamps_cases ts with ⟨e, -⟩ | ⟨-, e, enf, -⟩
    · rw [e]; exact ⟨hnf, hall⟩
    · refine ⟨by rw [enf]; exact hl, ?_⟩
      rw [e]
      intro a ha
      rcases List.mem_cons.mp ha with rfl | ha
      · exact tsAttr_wellStored ts hx
      · exact hall a (List.mem_of_mem_tail ha)
  | addKeyframes dt nc data =>
    obtain ⟨hnc, hl, hx⟩ := hc
    show (A.addKeyframes dt nc data).1.Stored
    have hpre : ∀ a ∈ A.preAtts dt nc, a.WellStored := by
      unfold Anim.preAtts
      split
      · intro a ha
        rcases List.mem_singleton.mp ha with rfl
        exact ⟨by simp [placeholderAttr, AnimAttr.init], by simp [placeholderAttr, AnimAttr.init]⟩
      · exact hall
    have hpf : A.preFrames nc data < 2 ^ 23 := by
      unfold Anim.preFrames
      split
      · exact Nat.lt_of_le_of_lt (Nat.div_le_self _ _) hl
      · exact hnf
    rcases A.addKeyframes_cases dt nc data with ⟨-, e⟩ | ⟨-, -, -, e, enf, -⟩ | ⟨-, elen, -, e, enf⟩
    · rw [e]; exact ⟨hnf, hall⟩
    · exact ⟨by rw [enf]; exact hpf, by rw [e]; exact hpre⟩
    · refine ⟨by rw [enf]; exact hpf, ?_⟩
      rw [e]
      intro a ha
      rcases List.mem_append.mp ha with ha | ha
      · exact hpre a ha
      · rcases List.mem_singleton.mp ha with rfl
        have hprod : nc * A.preFrames nc data < 2 ^ 32 := by
          have : nc * A.preFrames nc data < 256 * 2 ^ 23 := by
            calc nc * A.preFrames nc data ≤ 255 * A.preFrames nc data := Nat.mul_le_mul_right _ (by omega)
              _ < 256 * 2 ^ 23 := by omega
          omega
        have hlen : data.length = nc * A.preFrames nc data := by
          rw [elen]; exact Nat.mod_eq_of_lt hprod
        rw [trackAttr_of_lt _ _ _ _ _ hnc hlen]
        exact ⟨by show data.length = _ * nc; rw [hlen, Nat.mul_comm], hx⟩

theorem Anim.run_stored : ∀ (cs : List AnimCall) {A : Anim}, A.Stored →
    (∀ c ∈ cs, c.Plain) → (A.run cs).1.Stored
  | [], _, h, _ => h
  | c :: cs, A, h, hc => by
    rw [Anim.run_cons]
    exact Anim.run_stored cs (Anim.step_stored h (hc c (by simp))) (fun x hx => hc x (by simp [hx]))

theorem Anim.empty_stored : Anim.empty.Stored := ⟨by decide, by intro a ha; cases ha⟩

/-! ### the animation's point cloud lies in the domain of the sequential round-trip theorems -/

theorem animDataTypeLength_pos (dt : Nat) (h1 : 1 ≤ dt) (h2 : dt < 12) : 1 ≤ dataTypeLength dt := by
  interval_cases dt <;> decide

theorem animFlatMap_writeLE_length (len : Nat) (l : List Nat) :
    (l.flatMap (writeLE len)).length = l.length * len := by
  induction l with
  | nil => simp
  | cons x xs ih => simp [writeLE_length, ih, Nat.succ_mul]; omega

theorem animFlatMap_writeLE_isBytes (len : Nat) (l : List Nat) : IsBytes (l.flatMap (writeLE len)) := by
  intro b hb
  simp only [List.mem_flatMap] at hb
  obtain ⟨x, _, hx⟩ := hb
  exact writeLE_isBytes len x b hx

/-- an animation attribute as a point-cloud attribute satisfies `AttOK`: GENERIC attributes never go
    through the normal encoder, everything else comes from the state machine's invariants -/
theorem animAttr_attOK (a : AnimAttr) (o : AttOpts) (n : Nat) (hc : a.Codable) (hs : a.WellStored)
    (hsize : a.size = n) (huid : a.uniqueId < 2 ^ 32) (hn : n < 2 ^ 23)
    (hexp : ∀ org r, o.explicitQuant = some (org, r) → r < 2 ^ 32 ∧ ∀ m ∈ org, m < 2 ^ 32) :
    AttOK a.toAttribute o n := by
  obtain ⟨c1, c2, c3, c4, c5, c6⟩ := hc
  obtain ⟨s1, s2⟩ := hs
  have hdl := animDataTypeLength_pos a.dataType c3 c4
  refine ⟨?_, animFlatMap_writeLE_isBytes _ _, by show a.attType < 5; omega, by show a.dataType ≤ 11; omega,
    by show a.numComponents ≤ 255; omega, huid, ?_, hexp, ?_⟩
  · unfold Attribute.valid Attribute.stride AnimAttr.toAttribute
    simp only [animFlatMap_writeLE_length, s1, hsize, ge_iff_le, Bool.and_eq_true, decide_eq_true_eq]
    refine ⟨⟨⟨c5, hdl⟩, ?_⟩, Nat.le_refl _⟩
    rw [Nat.mul_assoc, Nat.mul_comm a.numComponents]
  · show n * a.numComponents < 2 ^ 31
    calc n * a.numComponents ≤ n * 255 := Nat.mul_le_mul_left _ (by omega)
      _ < 2 ^ 31 := by omega
  · intro h3
    exfalso
    unfold encoderType at h3
    have : a.toAttribute.attType = 4 := c1
    split at h3
    · cases h3
    · split at h3
      · rw [this] at h3
        simp [Generated.geometryAttribute_NORMAL] at h3
      · cases h3

/-- every attribute of a reachable animation whose timestamps are set has one entry per frame -/
theorem anim_size_eq (calls : List AnimCall) (hts : (Anim.empty.run calls).1.timestampsSize ≠ 0)
    (i : Nat) (a : AnimAttr) (ha : (Anim.empty.run calls).1.atts[i]? = some a) :
    a.size = (Anim.empty.run calls).1.numFrames := by
  obtain ⟨h1, h2⟩ := Anim.run_framesOk Anim.empty_framesOk calls
  have hu := Anim.run_uidIdx Anim.empty_uidIdx calls
  rcases Nat.eq_zero_or_pos i with h0 | h0
  · subst h0
    rw [Anim.timestampsSize_of_uidIdx hu ha] at hts
    rcases h2 a ha with h | h
    · exact absurd h hts
    · exact h
  · exact h1 i a ha h0

/-- the point cloud of a reachable animation lies in the domain of the sequential round-trip
    theorems: the frame-count and storage invariants of the state machine discharge everything except
    "at least one frame", "timestamps are set" (otherwise attribute 0 is the empty placeholder, which
    the encoder would read out of bounds), the attribute count bound, and the well-formedness of
    explicitly configured quantization parameters -/
theorem anim_geomOK (calls : List AnimCall) (opts : EncOpts)
    (hcod : ∀ c ∈ calls, c.Codable) (hplain : ∀ c ∈ calls, c.Plain)
    (hpos : 0 < (Anim.empty.run calls).1.numFrames)
    (hts : (Anim.empty.run calls).1.timestampsSize ≠ 0)
    (hna : (Anim.empty.run calls).1.atts.length < 2 ^ 32)
    (hexp : ∀ i org r, (opts.att i).explicitQuant = some (org, r) → r < 2 ^ 32 ∧ ∀ m ∈ org, m < 2 ^ 32) :
    GeomOK (Anim.empty.run calls).1.toGeometry opts := by
  have hst := Anim.run_stored calls Anim.empty_stored hplain
  have hco := Anim.run_codable calls Anim.empty_codable hcod
  have hu := Anim.run_uidIdx Anim.empty_uidIdx calls
  refine ⟨hpos, ?_, by simp [Anim.toGeometry], by simp [Anim.toGeometry],
    by simpa [Anim.toGeometry] using hna, ?_⟩
  · show (Anim.empty.run calls).1.numFrames < 2 ^ 31
    have := hst.1; omega
  · intro i a' hi
    simp only [Anim.toGeometry, List.getElem?_map] at hi
    cases ha : (Anim.empty.run calls).1.atts[i]? with
    | none => rw [ha] at hi; cases hi
    | some a =>
      rw [ha] at hi
      simp only [Option.map_some, Option.some.injEq] at hi
      subst hi
      have hmem : a ∈ (Anim.empty.run calls).1.atts := List.mem_of_getElem? ha
      have hil : i < (Anim.empty.run calls).1.atts.length := by
        rcases Nat.lt_or_ge i (Anim.empty.run calls).1.atts.length with h | h
        · exact h
        · rw [List.getElem?_eq_none h] at ha; cases ha
      exact animAttr_attOK a (opts.att i) _ (hco a hmem) (hst.2 a hmem)
        (anim_size_eq calls hts i a ha) (by rw [hu i a ha]; omega) hst.1 (hexp i)

/-! ### helpers for reading the decoded attributes -/

theorem chunks_flatten_take (s : Nat) (l : Bytes) : ∀ (n : Nat), n * s ≤ l.length →
    ((List.range n).map fun i => (l.drop (i * s)).take s).flatten = l.take (n * s) := by
  intro n
  induction n with
  | zero => intro _; simp
  | succ n ih =>
    intro h
    rw [List.range_succ, List.map_append, List.flatten_append, ih (by rw [Nat.succ_mul] at h; omega)]
    simp only [List.map_cons, List.map_nil, List.flatten_cons, List.flatten_nil, List.append_nil]
    rw [Nat.succ_mul, List.take_add]

/-- with the identity map and one value per point the value rows in point order are the buffer -/
theorem pointRows_flatten_identity (a : Attribute) (n : Nat) (hmap : a.map = none)
    (hlen : a.values.length = n * a.stride) : (pointRows a n).flatten = a.values := by
  unfold pointRows
  simp only [hmap]
  have : (fun i => valueAt a.values.toArray a.stride i) = fun i => (a.values.drop (i * a.stride)).take a.stride := by
    funext i; exact valueAt_eq a.values a.stride i
  rw [show valueAt a.values.toArray a.stride = fun i => valueAt a.values.toArray a.stride i from rfl, this,
    chunks_flatten_take a.stride a.values n (by omega), ← hlen, List.take_length]

theorem find?_uid_index {α : Type} (uid : α → Nat) : ∀ (l : List α) (k j : Nat) (d : α),
    (∀ i x, l[i]? = some x → uid x = k + i) → l[j]? = some d →
    l.find? (fun x => uid x == k + j) = some d := by
  intro l
  induction l with
  | nil => intro k j d _ h; simp at h
  | cons y ys ih =>
    intro k j d hu hj
    cases j with
    | zero =>
      simp only [List.getElem?_cons_zero, Option.some.injEq] at hj
      subst hj
      have := hu 0 y (by simp)
      simp [this]
    | succ j =>
      have hy := hu 0 y (by simp)
      have hne : (uid y == k + (j + 1)) = false := by simp [hy]
      rw [List.find?_cons_of_neg (by simp [hne])]
      have := ih (k + 1) j d (fun i x hx => by
        have := hu (i + 1) x (by simpa using hx); omega) (by simpa using hj)
      rw [show k + (j + 1) = k + 1 + j by omega]
      exact this

/-- what decoding the encoded animation returns, attribute by attribute -/
theorem anim_decoded_attribute (calls : List AnimCall) (opts : EncOpts)
    (hcod : ∀ c ∈ calls, c.Codable) (hplain : ∀ c ∈ calls, c.Plain)
    (hts : (Anim.empty.run calls).1.timestampsSize ≠ 0)
    (hexp : ∀ i org r, (opts.att i).explicitQuant = some (org, r) → r < 2 ^ 32 ∧ ∀ m ∈ org, m < 2 ^ 32)
    (j : Nat) (a : AnimAttr) (ha : (Anim.empty.run calls).1.atts[j]? = some a) :
    let A := (Anim.empty.run calls).1
    let E := expected A.toGeometry opts
    ∃ d, E.atts[j]? = some d ∧ E.atts.find? (fun x => x.uniqueId == j) = some d ∧
      d.uniqueId = j ∧ d.attType = a.attType ∧ d.dataType = a.dataType ∧
      d.numComponents = a.numComponents ∧ d.map = none ∧ d.numValues = A.numFrames ∧
      d.values = ((pointRows a.toAttribute A.numFrames).map (transformRow opts j a.toAttribute)).flatten ∧
      ((a.dataType ≠ 9 ∨ (opts.att j).quantBits ≤ 0) → d.values = a.toAttribute.values) := by
  intro A E
  have hst := Anim.run_stored calls Anim.empty_stored hplain
  have hco := Anim.run_codable calls Anim.empty_codable hcod
  have hu := Anim.run_uidIdx Anim.empty_uidIdx calls
  have hmem : a ∈ A.atts := List.mem_of_getElem? ha
  obtain ⟨c1, c2, c3, c4, c5, c6⟩ := hco a hmem
  obtain ⟨s1, s2⟩ := hst.2 a hmem
  have hg : A.toGeometry.atts[j]? = some a.toAttribute := by
    simp [Anim.toGeometry, A, ha]
  have hE := expected_att A.toGeometry opts j a.toAttribute hg
  -- unique id = index in the decoded list
  have huidE : ∀ i x, E.atts[i]? = some x → x.uniqueId = 0 + i := by
    intro i x hx
    have hlen : E.atts.length = A.atts.length := by
      simp [E, expected, Anim.toGeometry]
      have : ∀ (l : List Attribute) k, (zipIdxFrom k l).length = l.length := by
        intro l; induction l with
        | nil => intro _; rfl
        | cons a as ih => intro k; simp [zipIdxFrom, ih]
      rw [this]; simp
    have hi : i < A.atts.length := by
      rcases Nat.lt_or_ge i E.atts.length with h | h
      · omega
      · rw [List.getElem?_eq_none h] at hx; cases hx
    have hai : A.atts[i]? = some A.atts[i] := List.getElem?_eq_getElem hi
    have hgi : A.toGeometry.atts[i]? = some (A.atts[i]).toAttribute := by
      simp [Anim.toGeometry, hai]
    have := expected_att A.toGeometry opts i _ hgi
    rw [show E.atts[i]? = _ from this] at hx
    simp only [Option.some.injEq] at hx
    subst hx
    rw [Nat.zero_add]
    exact hu i _ hai
  have hfind := find?_uid_index (fun (x : Attribute) => x.uniqueId) E.atts 0 j _ huidE hE
  rw [Nat.zero_add] at hfind
  have hvals := expectedAttributeOf_rowwise opts A.numFrames j a.toAttribute c5 (hexp j)
  refine ⟨_, hE, hfind, hu j a ha, rfl, rfl, rfl, rfl, rfl, hvals, ?_⟩
  intro hq
  show (expectedAttributeOf opts A.numFrames j a.toAttribute).values = _
  rw [hvals]
  have hty : encoderType a.toAttribute (opts.att j) = 0 ∨ encoderType a.toAttribute (opts.att j) = 1 := by
    rcases encoderType_cases a.toAttribute (opts.att j) with h | ⟨h, _⟩ | ⟨_, h9⟩ | ⟨_, h9, hq'⟩
    · exact Or.inl h
    · exact Or.inr h
    · exfalso
      unfold encoderType at *
      have h9' : a.dataType = 9 := h9
      rcases hq with hq | hq
      · exact hq h9'
      · rename_i h2
        split at h2
        · cases h2
        · split at h2
          · rename_i hc; omega
          · cases h2
    · exfalso
      rcases hq with hq | hq
      · exact hq h9
      · omega
  have hT : transformRow opts j a.toAttribute = id := by
    funext row
    rcases hty with h | h <;> simp [transformRow, h]
  rw [hT, List.map_id]
  apply pointRows_flatten_identity _ _ rfl
  show (a.data.flatMap _).length = A.numFrames * (dataTypeLength a.dataType * a.numComponents)
  rw [animFlatMap_writeLE_length, s1, anim_size_eq calls hts j a ha]
  rw [Nat.mul_assoc, Nat.mul_comm a.numComponents]

/-- the sequential round trip on the animation's point cloud (proofs-level copy of `C01.seq_roundtrip`) -/
theorem anim_seq_roundtrip (ch : Choices) (g : Geometry) (opts : EncOpts) (bs : Bytes)
    (hok : GeomOK g opts) (henc : encodeGeometry ch g none opts = some bs) (extra : Bytes) :
    ∃ st, decodeGeometry {} { rest := bs ++ extra } = (some ⟨expected g opts, none⟩, st) ∧
      st.rest = extra := by
  obtain ⟨encs, hf⟩ := encodeGeometry_full ch g none opts bs henc
  obtain ⟨st, h1, h2, _⟩ := (runs_decodeGeometry ch g none opts bs encs hok
    (fun m h => by cases h) hf).run { rest := bs ++ extra } extra rfl rfl
  rw [expectedGeometry_eq ch g none opts bs encs hf] at h1
  exact ⟨st, h1, h2⟩

/-- a quantized float track: the parameters exist (the encoder succeeded) and every decoded row is
    `dequantize (quantize row)` by the codec's own expressions -/
theorem transformRow_quantized (ch : Choices) (opts : EncOpts) (n j : Nat) (a : Attribute) (e : AttEnc)
    (henc : encodeAttribute ch opts n j a = some e) (h9 : a.dataType = 9)
    (hq : (opts.att j).quantBits > 0) (hnn : a.attType ≠ 1) :
    ∃ mins range q, quantizationParams a (opts.att j) = some (mins, range, q) ∧
      transformRow opts j a = fun row =>
        dequantRow range q mins (quantizeRow mins range q 0 (rowF32s a.numComponents row)) := by
  have hty : encoderType a (opts.att j) = 2 := by
    unfold encoderType
    rw [if_neg (by omega), if_pos ⟨by rw [h9]; rfl, hq⟩, if_neg (by show ¬ a.attType = 1; exact hnn)]
  rcases encodeAttribute_cases ch opts n j a e henc with ⟨h, _⟩ | ⟨h, _⟩ | ⟨_, mins, range, q, vb, hqp, _, _⟩ | ⟨h, _⟩
  · rw [hty] at h; cases h
  · rw [hty] at h; cases h
  · exact ⟨mins, range, q, hqp, by funext row; simp [transformRow, hty, hqp]⟩
  · rw [hty] at h; cases h

end Draco
