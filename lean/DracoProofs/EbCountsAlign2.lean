import DracoProofs.EbCountsAlign
/-
  The `NoIntσ` transfer and the index map of the run.

  * encoder: `initFromAttribute_ni` — when `no_interior_seams_` holds after `InitFromAttribute`, every seam edge is a
    boundary edge of the table (`seamLoop_ni`, new invariant of the seam-marking loop);
  * decoder: `buildAttConn_ni_conv` — when every seam edge of a `buildAttConn` table is a boundary edge, its
    `no_interior_seams_` flag holds (converse of `buildAttConn_ni`);
  * `noInt_transfer`: under the connectivity link and corresponding seam flags, the encoder's flag `true` gives the decoder's;
  * `sigmaOf enc`: `σ k` = the attribute data id of the `k`-th controller that encodes on its attribute corner table;
    `seamLinkσ_of_run`, `noIntσ_of_run`, `eb_encoded_counts_of_link''` from the index-wise
    `SeamLink mesh.numFaces mesh.atts (enc.conn.atts.map (·.conn)) φ`.
-/
namespace Draco.EbEnc.CountsIso
open Draco Draco.SeqEnc
open Draco.Eb hiding nextC prevC iabs
open Draco.Counts
open Draco.EbEnc.EncCounts AttViews Seams Draco.EbEnc.ValuesRefine

/-! ## encoder: `no_interior_seams_` ⇒ the seam edges are boundary edges -/

theorem inLoop_ni {t : CT} {cv : Array Nat} {c o : Nat} {es vs : Array Bool} {ni : Bool} {r : ISt}
    (h : forIn [:2] ((es, vs, ni, c, o) : ISt) (inStep t cv c o) = .ok r) : r.2.2.1 = true → r.1 = es := by
  intro hr
  rcases forIn_two _ _ _ h with h0 | ⟨s1, h0, h1⟩
  · rcases inStep_ok h0 with ⟨es', vs', e, _⟩ | ⟨e, _⟩
    · injection e with e
      subst e
      cases hr
    · cases e
  · rcases inStep_ok h0 with ⟨es', vs', e, _⟩ | ⟨e, _⟩
    · cases e
    · injection e with e
      subst e
      rcases h1 with h1 | h1
      · rcases inStep_ok h1 with ⟨es', vs', e, _⟩ | ⟨e, _⟩
        · injection e with e
          subst e
          cases hr
        · cases e
      · rcases inStep_ok h1 with ⟨es', vs', e, _⟩ | ⟨e, _⟩
        · cases e
        · injection e with e
          subst e
          rfl

theorem outStep_ni {t : CT} {cv : Array Nat} (hk : CTOK t) {c : Nat} (hc : c < t.numCorners) {s : ValuesRefine.OSt}
    {r : ForInStep ValuesRefine.OSt} (h : outStep t cv c s = .ok r) :
    ∃ s', r = .yield s' ∧ (s'.2.2 = true → s.2.2 = true ∧
      ∀ x : Nat, s'.1[x]! = true → s.1[x]! = true ∨ (x = c ∧ t.opp[c]! = inv)) := by
  have h3 := hk.three
  have hfit := hk.fits
  unfold CT.numCorners at hc
  have hci : c ≠ inv := by omega
  unfold outStep at h
  obtain ⟨d, hd, h⟩ := (bind_ok_iff _ _ _).mp h
  rcases ite_ok h with ⟨hdt, h⟩ | ⟨hdt, h⟩
  · exact ⟨_, pure_ok h, fun e => ⟨e, fun x hx => Or.inl hx⟩⟩
  · obtain ⟨o, ho, h⟩ := (bind_ok_iff _ _ _).mp h
    obtain ⟨_, hov⟩ := opposite_get hci ho
    rw [ValuesRefine.vget_eq] at hov
    rcases ite_ok h with ⟨hoi, h⟩ | ⟨hoi, h⟩
    · obtain ⟨es1, h1, h⟩ := (bind_ok_iff _ _ _).mp h
      obtain ⟨v1, _, h⟩ := (bind_ok_iff _ _ _).mp h
      obtain ⟨vs1, _, h⟩ := (bind_ok_iff _ _ _).mp h
      obtain ⟨v2, _, h⟩ := (bind_ok_iff _ _ _).mp h
      obtain ⟨vs2, _, h⟩ := (bind_ok_iff _ _ _).mp h
      have : o = inv := by simpa using hoi
      refine ⟨_, pure_ok h, fun e => ⟨e, fun x hx => ?_⟩⟩
      rcases wrB_cases h1 x hx with e1 | e1
      · exact Or.inr ⟨e1, by rw [hov, this]⟩
      · exact Or.inl e1
    · rcases ite_ok h with ⟨hlt, h⟩ | ⟨hlt, h⟩
      · exact ⟨_, pure_ok h, fun e => ⟨e, fun x hx => Or.inl hx⟩⟩
      · obtain ⟨ri, hri, h⟩ := (bind_ok_iff _ _ _).mp h
        obtain ⟨_, a2, _⟩ := inLoop_ok hri
        have a4 := inLoop_ni hri
        refine ⟨_, pure_ok h, fun e => ⟨a2 e, fun x hx => ?_⟩⟩
        have : ri.1 = s.1 := a4 e
        left
        have hx' : ri.1[x]! = true := hx
        rw [this] at hx'
        exact hx'

theorem seamLoop_ni {t : CT} {cv : Array Nat} (hk : CTOK t) {s : ValuesRefine.OSt} (h : ValuesRefine.seamLoop t cv = .ok s) :
    s.2.2 = true → ∀ x : Nat, s.1[x]! = true → t.opp[x]! = inv := by
  unfold ValuesRefine.seamLoop at h
  rw [Seams.range_forIn] at h
  have key := Seams.loop_inv_ok (outStep t cv)
    (fun _ s => s.2.2 = true → ∀ x : Nat, s.1[x]! = true → t.opp[x]! = inv) t.numCorners 0
    (by
      intro j s r _ hj hI hr
      obtain ⟨s', rfl, hn⟩ := outStep_ni hk (by omega) hr
      refine ⟨s', rfl, fun hs' x hx => ?_⟩
      obtain ⟨h1, h2⟩ := hn hs'
      rcases h2 x hx with e | ⟨rfl, e⟩
      · exact hI h1 x e
      · exact e)
    _ s (fun _ x hx => by
      simp only [] at hx
      rw [replicate_false_get] at hx; cases hx) h
  exact key

/-- **encoder**: an attribute corner table with `no_interior_seams_` has seam edges only on the boundary -/
theorem initFromAttribute_ni {t : CT} {cv : Array Nat} {a : AttConn} (hk : CTOK t)
    (h : initFromAttribute t cv = .ok a) (hni : a.noInteriorSeams = true) :
    ∀ x : Nat, a.edgeSeam[x]! = true → t.opp[x]! = inv := by
  obtain ⟨s, hs, e1, _, e3, _⟩ := initFromAttribute_ok h
  rw [e1]
  exact seamLoop_ni hk hs (by rw [← e3]; exact hni)

/-! ## decoder: all seam edges on the boundary ⇒ `no_interior_seams_` -/

theorem bacStep_keep {c2vBase opp : Array Nat} (c : Nat) (st : BSt) (r : ForInStep BSt) (hsz : st.1.size ≤ inv)
    (h : bacStep c2vBase opp c st = .ok r) (hb : opp[c]! = inv) : ∃ st', r = .yield st' ∧ st'.2.2 = st.2.2 := by
  unfold bacStep at h
  rw [bind_ok_iff] at h
  obtain ⟨es, h1, h⟩ := h
  rw [bind_ok_iff] at h
  obtain ⟨v1, _, h⟩ := h
  rw [bind_ok_iff] at h
  obtain ⟨vs1, _, h⟩ := h
  rw [bind_ok_iff] at h
  obtain ⟨v2, _, h⟩ := h
  rw [bind_ok_iff] at h
  obtain ⟨vs2, _, h⟩ := h
  rw [bind_ok_iff] at h
  obtain ⟨oc, ho, h⟩ := h
  obtain ⟨w1, _, _⟩ := wrB_ok h1
  have hoc := opposite_ok ho (by omega)
  subst hoc
  have hne : ¬ (opp[c]! != inv) = true := by simp [hb]
  rw [if_neg hne] at h
  simp only [pure, Except.pure] at h
  cases h
  exact ⟨_, rfl, rfl⟩

theorem markLoop_keep (c2vBase opp : Array Nat) : ∀ (l : List Nat) (init s : BSt), init.1.size ≤ inv →
    forIn l init (bacStep c2vBase opp) = .ok s → (∀ c ∈ l, opp[c]! = inv) → s.2.2 = init.2.2 := by
  intro l
  induction l with
  | nil =>
    intro init s _ h _
    simp only [List.forIn_nil, pure, Except.pure] at h
    cases h; rfl
  | cons a l ih =>
    intro init s hsz h hall
    rw [List.forIn_cons, bind_ok_iff] at h
    obtain ⟨r, h1, h2⟩ := h
    obtain ⟨st', e, k1, _, _⟩ := bacStep_ok c2vBase opp a init r hsz h1
    obtain ⟨st'', e', j1⟩ := bacStep_keep a init r hsz h1 (hall a List.mem_cons_self)
    subst e
    cases e'
    dsimp only at h2
    rw [ih st' s (by omega) h2 (fun c hc => hall c (List.mem_cons_of_mem _ hc)), j1]

/-- **decoder**: converse of `buildAttConn_ni` -/
theorem buildAttConn_ni_conv {N : Nat} {c2vBase opp vc sc : Array Nat} (hle : N ≤ inv) (hszc : c2vBase.size = N)
    {a : AttConn} (h : buildAttConn c2vBase opp vc sc = .ok a)
    (hb : ∀ d, d < N → a.edgeSeam[d]! = true → opp[d]! = inv) : a.noInteriorSeams = true := by
  obtain ⟨s, hs, e1, _, e3, _⟩ := buildAttConn_recompute' c2vBase opp vc sc a h
  unfold markSeams at hs
  rw [← Array.forIn_toList] at hs
  have hsz0 : (Array.replicate c2vBase.size false).size ≤ inv := by simp; omega
  obtain ⟨_, k2, k3⟩ := Seams.markLoop_ok c2vBase opp sc.toList _ s hsz0 hs
  rw [e3]
  refine markLoop_keep c2vBase opp sc.toList _ s hsz0 hs ?_
  intro c hc
  have hcN : c < N := by have := k2 c hc; simpa [hszc] using this
  apply hb c hcN
  rw [e1, k3 c (by simpa [hszc] using hcN)]
  exact Or.inr (Or.inl hc)

/-! ## the transfer -/

/-- the encoder's table has `no_interior_seams_` ⇒ so has the decoder's, under the connectivity link and corresponding
    seam flags -/
theorem noInt_transfer {t : CT} (hk : CTOK t) {n : Nat} {co : ConnOut} {φ ψ : Nat → Nat}
    (hiso : TVIso (baseViewD n co.c2v co.opp co.vc) t.view φ ψ) (hszc : co.c2v.size = 3 * n)
    (hszo : co.opp.size = 3 * n)
    {sc : Array Nat} {aD : AttConn} (hD : buildAttConn co.c2v co.opp co.vc sc = .ok aD)
    {cv : Array Nat} {aE : AttConn} (hE : initFromAttribute t cv = .ok aE)
    (hflag : ∀ d, d < 3 * n → aD.edgeSeam[d]! = aE.edgeSeam[φ d]!)
    (hni : aE.noInteriorSeams = true) : aD.noInteriorSeams = true := by
  have hbE := initFromAttribute_ni hk hE hni
  have hle : 3 * n ≤ inv := hiso.fits.1
  refine buildAttConn_ni_conv hle hszc hD ?_
  intro d hd hf
  rw [hflag d hd] at hf
  have hoE := hbE _ hf
  obtain ⟨o, h1, h2, h3⟩ := hiso.opposite d hd
  have hphi : φ d < 3 * t.numFaces := hiso.phi_lt d hd
  have hEop : t.view.opposite (φ d) = .ok t.opp[φ d]! :=
    view_opposite_eq t.view rfl (φ d) (by
      show φ d < t.opp.size
      rw [hk.oppsz, hk.three]; exact hphi) (hiso.phi_ne_inv d hd)
  rw [hEop, hoE] at h3
  have hDop : (baseViewD n co.c2v co.opp co.vc).opposite d = .ok co.opp[d]! :=
    view_opposite_eq _ rfl d (by show d < co.opp.size; omega) (hiso.ne_inv d hd)
  rw [hDop] at h1
  injection h1 with h1
  injection h3 with h3
  rw [h1]
  rcases h2 with e | e
  · exact e
  · exfalso
    have hnf : (baseViewD n co.c2v co.opp co.vc).numFaces = n := rfl
    rw [hnf] at e
    have hne : o ≠ inv := by omega
    rw [ext_of_ne φ hne] at h3
    exact hiso.phi_ne_inv o (by rw [hnf]; exact e) h3.symm

/-! ## the index map of the run -/

/-- the attribute data ids of the controllers that encode on their attribute corner table, in controller order -/
def sigmaList (enc : Encoded) : List Nat :=
  enc.controllers.toList.filterMap fun c =>
    if c.onAttTable && c.attDataId ≥ 0 then some c.attDataId.toNat else none

/-- `σ k`: the attribute data of the `k`-th table of `usedOf enc` -/
def sigmaOf (enc : Encoded) (k : Nat) : Nat := (sigmaList enc).getD k 0

theorem usedOf_eq (enc : Encoded) :
    usedOf enc = ((sigmaList enc).map fun j => (enc.conn.atts[j]!).conn).toArray := by
  unfold usedOf sigmaList
  rw [List.map_filterMap]
  congr 1
  apply List.filterMap_congr
  intro c _
  split <;> rfl

theorem usedOf_size (enc : Encoded) : (usedOf enc).size = (sigmaList enc).length := by
  rw [usedOf_eq]; simp

theorem usedOf_get (enc : Encoded) (k : Nat) (hk : k < (usedOf enc).size) :
    (usedOf enc)[k]! = (enc.conn.atts[sigmaOf enc k]!).conn := by
  have hk' : k < (sigmaList enc).length := by rw [← usedOf_size]; exact hk
  rw [getElem!_pos _ k hk]
  simp only [usedOf_eq, List.getElem_toArray, List.getElem_map, sigmaOf]
  rw [List.getD_eq_getElem?_getD, List.getElem?_eq_getElem hk']
  rfl

theorem map_conn_get (a : Array AttData) (j : Nat) (hj : j < a.size) : (a.map (·.conn))[j]! = (a[j]!).conn := by
  have h' : j < (a.map (·.conn)).size := by simpa using hj
  rw [getElem!_pos (a.map (·.conn)) j h', getElem!_pos a j hj]
  simp

section stream
variable {ch : EbChoices} {g : Geometry} {md : Option GeometryMetadata} {o : EbOpts} {enc : Encoded}

theorem sigmaOf_lt (henc : encodeEdgebreaker ch g md o = .ok enc) (k : Nat) (hk : k < (usedOf enc).size) :
    sigmaOf enc k < enc.conn.atts.size := by
  obtain ⟨coder, posFaces, acv, hconn, hcs, _, _⟩ := encoded_points_run henc
  have hk' : k < (sigmaList enc).length := by rw [← usedOf_size]; exact hk
  have hmem : sigmaOf enc k ∈ sigmaList enc := by
    unfold sigmaOf
    rw [List.getD_eq_getElem?_getD, List.getElem?_eq_getElem hk']
    exact List.getElem_mem hk'
  generalize sigmaOf enc k = j at hmem
  unfold sigmaList at hmem
  simp only [List.mem_filterMap] at hmem
  obtain ⟨c, hc, hval⟩ := hmem
  split at hval
  · rename_i hcond
    injection hval with hval
    rw [← hval]
    simp only [Bool.and_eq_true, decide_eq_true_eq] at hcond
    exact (generateControllers_attDataId_lt hcs c (by simpa using hc) hcond.2).1
  · cases hval

/-- `SeamLinkσ` along `sigmaOf enc` from the index-wise link between the decoder's attribute data and the encoder's -/
theorem seamLinkσ_of_run (henc : encodeEdgebreaker ch g md o = .ok enc) {n : Nat} {attsD : Array AttConn} {φ : Nat → Nat}
    (hlink : SeamLink n attsD (enc.conn.atts.map (·.conn)) φ) :
    SeamLinkσ n attsD (usedOf enc) φ (sigmaOf enc) := by
  have hsz : enc.conn.atts.size = attsD.size := by have := hlink.1; simpa using this
  refine ⟨fun k hk => by rw [← hsz]; exact sigmaOf_lt henc k hk, ?_⟩
  intro k hk d hd
  have hlt := sigmaOf_lt henc k hk
  rw [usedOf_get enc k hk, hlink.2 (sigmaOf enc k) (by rw [← hsz]; exact hlt) d hd]
  rw [map_conn_get _ _ hlt]

/-- `NoIntσ` of the decoder's attribute data from the encoder's (`hoff`: an attribute data that no controller encodes on
    its attribute corner table has no interior seams — the `offTable` branch of `generateControllers`) -/
theorem noIntσ_of_run (henc : encodeEdgebreaker ch g md o = .ok enc)
    {mesh : Mesh} {co : ConnOut} (hst : DecStagesOf mesh co) {ψ : Nat → Nat}
    (hiso : TVIso (baseViewD mesh.numFaces co.c2v co.opp co.vc) enc.conn.ct.view (phi enc.conn.processed) ψ)
    (hszc : co.c2v.size = 3 * mesh.numFaces) (hszo : co.opp.size = 3 * mesh.numFaces)
    (hlink : SeamLink mesh.numFaces mesh.atts (enc.conn.atts.map (·.conn)) (phi enc.conn.processed))
    (hoff : ∀ j, j < enc.conn.atts.size → (¬ ∃ k, k < (usedOf enc).size ∧ sigmaOf enc k = j) →
      (enc.conn.atts[j]!).conn.noInteriorSeams = true) :
    NoIntσ mesh.atts (usedOf enc).size (sigmaOf enc) := by
  obtain ⟨coder, posFaces, acv, hconn, _, _, _⟩ := encoded_points_run henc
  obtain ⟨table, _, hcreate, hct, _⟩ := encodeConnectivity_visited ch.conn (coder == 2) posFaces acv enc.conn hconn
  have hk : CTOK enc.conn.ct := by rw [hct]; exact ctok_ofTable hcreate
  have hsz : enc.conn.atts.size = mesh.atts.size := by have := hlink.1; simpa using this
  intro j hj hnim
  have hjE : j < enc.conn.atts.size := by rw [hsz]; exact hj
  obtain ⟨sc, hD⟩ := hst.build j hj
  obtain ⟨cv, hE⟩ := conn_atts_init ch.conn (coder == 2) posFaces acv enc.conn hconn j hjE
  rw [getElem!_pos mesh.atts j hj]
  refine noInt_transfer hk hiso hszc hszo hD hE ?_ (hoff j hjE hnim)
  intro d hd
  have := hlink.2 j hj d hd
  rw [getElem!_pos mesh.atts j hj] at this
  rw [this]
  rw [map_conn_get _ _ hjE]

/-- **The reported counts agree, more than one attribute**, with the index-wise seam link between the decoder's attribute
    data and the encoder's `attribute_data_` as the only seam hypothesis; `hoff` is an encoder-side fact about
    `generateControllers` (see `noIntσ_of_run`). -/
theorem eb_encoded_counts_of_link'' (henc : encodeEdgebreaker ch g md o = .ok enc)
    {mesh : Mesh} {co : ConnOut} (hst : DecStagesOf mesh co) (ψ : Nat → Nat)
    (hatts : g.atts.length > 1)
    (hne : mesh.atts.isEmpty = false)
    (hn : mesh.numFaces = enc.conn.processed.size)
    (hiso : TVIso (baseViewD mesh.numFaces co.c2v co.opp co.vc) enc.conn.ct.view (phi enc.conn.processed) ψ)
    (hdec : APHyp mesh.numFaces co) (hszc : co.c2v.size = 3 * mesh.numFaces)
    (hhole : ∀ v, v < co.vc.size → co.vc[v]! ≠ inv → co.hole[v]! = true → ∃ k, iter (sRP co.opp) k co.vc[v]! = inv)
    (hlink : SeamLink mesh.numFaces mesh.atts (enc.conn.atts.map (·.conn)) (phi enc.conn.processed))
    (hoff : ∀ j, j < enc.conn.atts.size → (¬ ∃ k, k < (usedOf enc).size ∧ sigmaOf enc k = j) →
      (enc.conn.atts[j]!).conn.noInteriorSeams = true) :
    enc.numEncodedPoints = mesh.numPoints ∧ enc.numEncodedFaces = mesh.numFaces :=
  eb_encoded_counts_of_link' henc hst ψ (sigmaOf enc) hatts hne hn hiso hdec hszc hhole
    (seamLinkσ_of_run henc hlink) (noIntσ_of_run henc hst hiso hszc hdec.tbl.oppsz hlink hoff)

end stream

end Draco.EbEnc.CountsIso
