import DracoProofs.CornerTableOpp
/-
  Invariants of `ComputeVertexCorners` needed for clause I4 (every corner maps through
  `VertexParent` to its input vertex id) and the assembly of I1–I4 for `CornerTable.create`.
-/
namespace Draco

/-- `VertexParent` on raw data -/
def vparent (numOrig : Nat) (parents : Array Nat) (v : Nat) : Nat :=
  if v < numOrig then v else vget parents (v - numOrig)

/-! ### facts about the input map -/

theorem vget_initCtv (faces : Faces) (c : Nat) : vget (initCtv faces) c = inputVertex faces c := by
  unfold vget initCtv
  rw [Array.getD_eq_getD_getElem?, Array.getElem?_ofFn]
  split
  · rfl
  · rename_i h
    unfold inputVertex
    have : faces.size ≤ c / 3 := by omega
    rw [Array.getElem?_eq_none this]
    rfl

theorem size_initCtv (faces : Faces) : (initCtv faces).size = 3 * faces.size := by
  unfold initCtv; simp

theorem isDegenA_initCtv (faces : Faces) (f : Nat) (hf : f < faces.size) :
    isDegenA (initCtv faces) f = faceDegenerate faces f := by
  unfold isDegenA faceDegenerate
  simp only [vget_initCtv]
  unfold inputVertex
  have h0 : (3 * f) / 3 = f := by omega
  have h1 : (3 * f + 1) / 3 = f := by omega
  have h2 : (3 * f + 2) / 3 = f := by omega
  have m0 : (3 * f) % 3 = 0 := by omega
  have m1 : (3 * f + 1) % 3 = 1 := by omega
  have m2 : (3 * f + 2) % 3 = 2 := by omega
  rw [h0, h1, h2, m0, m1, m2]
  rw [Array.getElem?_eq_getElem hf]
  simp

theorem foldl_max_lt (l : List Nat) : ∀ (init : Nat),
    init ≤ l.foldl (fun m v => max m (v + 1)) init ∧
    ∀ x ∈ l, x < l.foldl (fun m v => max m (v + 1)) init := by
  induction l with
  | nil => intro init; simp
  | cons y l ih =>
    intro init
    simp only [List.foldl_cons, List.mem_cons]
    obtain ⟨h1, h2⟩ := ih (max init (y + 1))
    refine ⟨by omega, ?_⟩
    intro x hx
    rcases hx with hx | hx
    · subst hx; omega
    · exact h2 x hx

theorem vget_lt_numVerticesOf (ctv : Array Nat) (c : Nat) (hc : c < ctv.size) :
    vget ctv c < numVerticesOf ctv := by
  unfold numVerticesOf vget
  rw [← Array.foldl_toList]
  apply (foldl_max_lt ctv.toList 0).2
  rw [Array.getD_eq_getD_getElem?, Array.getElem?_eq_getElem hc]
  simp

/-! ### swings preserve the input vertex -/

theorem swingLeftA_facts {ctv0 : Array Nat} {opp : Array (Option Nat)} {k : Nat}
    (hn : ctv0.size = 3 * k) (hopp : OppOK ctv0 ctv0.size opp) {a nx : Nat}
    (h : swingLeftA opp a = some nx) :
    nx < ctv0.size ∧ vget ctv0 nx = vget ctv0 a ∧ swingRightA opp nx = some a := by
  unfold swingLeftA at h
  cases ho : oget opp (nextC a) with
  | none => simp [ho] at h
  | some o =>
    simp [ho] at h
    subst h
    obtain ⟨h1, _, _, h4, _, _⟩ := hopp.2.facts ho
    have ho_lt : o < ctv0.size := by have := oget_lt h1; rw [hopp.1] at this; exact this
    refine ⟨by rw [hn] at ho_lt ⊢; exact nextC_lt ho_lt, ?_, ?_⟩
    · have := h4.2; rw [prevC_nextC] at this; exact this.symm
    · unfold swingRightA; rw [prevC_nextC, h1]; simp

theorem swingRightA_facts {ctv0 : Array Nat} {opp : Array (Option Nat)} {k : Nat}
    (hn : ctv0.size = 3 * k) (hopp : OppOK ctv0 ctv0.size opp) {a nx : Nat}
    (h : swingRightA opp a = some nx) :
    nx < ctv0.size ∧ vget ctv0 nx = vget ctv0 a ∧ swingLeftA opp nx = some a := by
  unfold swingRightA at h
  cases ho : oget opp (prevC a) with
  | none => simp [ho] at h
  | some o =>
    simp [ho] at h
    subst h
    obtain ⟨h1, _, _, h4, _, _⟩ := hopp.2.facts ho
    have ho_lt : o < ctv0.size := by have := oget_lt h1; rw [hopp.1] at this; exact this
    refine ⟨by rw [hn] at ho_lt ⊢; exact prevC_lt ho_lt, ?_, ?_⟩
    · have := h4.1; rw [nextC_prevC] at this; exact this.symm
    · unfold swingLeftA; rw [nextC_prevC, h1]; simp

/-! ### ComputeVertexCorners: the `VertexParent` invariant -/

structure VInv (ctv0 : Array Nat) (numOrig : Nat) (st : VCState) : Prop where
  size_ctv : st.ctv.size = ctv0.size
  size_visC : st.visitedC.size = ctv0.size
  size_vc : st.vc.size = numOrig + st.parents.size
  parent : ∀ c, c < ctv0.size →
    vget st.ctv c < numOrig + st.parents.size ∧ vparent numOrig st.parents (vget st.ctv c) = vget ctv0 c
  unvisited : ∀ c, st.visitedC.getD c false = false → vget st.ctv c = vget ctv0 c

/-- what a walk needs to know about the label `v` it writes when `nm` -/
def LabelOK (_ctv0 : Array Nat) (numOrig : Nat) (st : VCState) (v : Nat) (nm : Bool) (p : Nat) : Prop :=
  nm = true → v < numOrig + st.parents.size ∧ vparent numOrig st.parents v = p

theorem mark_inv {ctv0 : Array Nat} {numOrig : Nat} {st : VCState} (v : Nat) (nm : Bool) (act : Nat)
    (vc' : Array (Option Nat)) (hvc : vc'.size = st.vc.size)
    (h : VInv ctv0 numOrig st) (_hact : act < ctv0.size)
    (hl : LabelOK ctv0 numOrig st v nm (vget ctv0 act)) :
    VInv ctv0 numOrig
      { st with visitedC := st.visitedC.setIfInBounds act true, vc := vc',
                ctv := if nm then st.ctv.setIfInBounds act v else st.ctv } := by
  refine ⟨?_, ?_, ?_, ?_, ?_⟩
  · simp only []; split <;> simp [Array.size_setIfInBounds, h.size_ctv]
  · simp [Array.size_setIfInBounds, h.size_visC]
  · simp only []; rw [hvc]; exact h.size_vc
  · intro c hc
    simp only []
    cases nm with
    | false => exact h.parent c hc
    | true =>
      simp only [if_true]
      rw [vget_set]
      split
      · rename_i hca
        rw [← hca.1]
        exact hl rfl
      · exact h.parent c hc
  · intro c hc
    simp only [] at hc ⊢
    rw [bget_set] at hc
    split at hc
    · cases hc
    · rename_i hca
      have hne : ¬ (act = c ∧ act < st.ctv.size) := by
        rw [h.size_ctv]; rw [h.size_visC] at hca; exact hca
      cases nm with
      | false => exact h.unvisited c hc
      | true =>
        simp only [if_true]
        rw [vget_set]
        simp only [hne, if_false]
        exact h.unvisited c hc

theorem markL_inv {ctv0 : Array Nat} {numOrig : Nat} {st : VCState} (v : Nat) (nm : Bool) (act : Nat)
    (h : VInv ctv0 numOrig st) (hact : act < ctv0.size)
    (hl : LabelOK ctv0 numOrig st v nm (vget ctv0 act)) : VInv ctv0 numOrig (markL v nm st act) :=
  mark_inv v nm act _ (by simp [Array.size_setIfInBounds]) h hact hl

theorem markR_inv {ctv0 : Array Nat} {numOrig : Nat} {st : VCState} (v : Nat) (nm : Bool) (act : Nat)
    (h : VInv ctv0 numOrig st) (hact : act < ctv0.size)
    (hl : LabelOK ctv0 numOrig st v nm (vget ctv0 act)) : VInv ctv0 numOrig (markR v nm st act) :=
  mark_inv v nm act _ rfl h hact hl

theorem cvcLeft_inv {ctv0 : Array Nat} {opp : Array (Option Nat)} {k : Nat} (numOrig : Nat)
    (hn : ctv0.size = 3 * k) (hopp : OppOK ctv0 ctv0.size opp) (c v : Nat) (nm : Bool) (p : Nat) :
    ∀ (fuel act : Nat) (st : VCState), VInv ctv0 numOrig st → act < ctv0.size → vget ctv0 act = p →
      LabelOK ctv0 numOrig st v nm p →
      VInv ctv0 numOrig (cvcLeft opp c v nm fuel act st).1 ∧
      (cvcLeft opp c v nm fuel act st).1.parents = st.parents := by
  intro fuel
  induction fuel with
  | zero => intro act st h _ _ _; simpa [cvcLeft] using h
  | succ fuel ih =>
    intro act st h hact hp hl
    unfold cvcLeft
    simp only []
    have hm := markL_inv v nm act h hact (by rw [hp]; exact hl)
    split
    · exact ⟨hm, rfl⟩
    · rename_i nx hsw
      split
      · exact ⟨hm, rfl⟩
      · obtain ⟨h1, h2, _⟩ := swingLeftA_facts hn hopp hsw
        have := ih nx (markL v nm st act) hm h1 (by rw [h2, hp]) hl
        exact ⟨this.1, this.2⟩

theorem cvcRight_inv {ctv0 : Array Nat} {opp : Array (Option Nat)} {k : Nat} (numOrig : Nat)
    (hn : ctv0.size = 3 * k) (hopp : OppOK ctv0 ctv0.size opp) (v : Nat) (nm : Bool) (p : Nat) :
    ∀ (fuel : Nat) (act : Option Nat) (st : VCState), VInv ctv0 numOrig st →
      (∀ a, act = some a → a < ctv0.size ∧ vget ctv0 a = p) →
      LabelOK ctv0 numOrig st v nm p →
      VInv ctv0 numOrig (cvcRight opp v nm fuel act st) ∧
      (cvcRight opp v nm fuel act st).parents = st.parents := by
  intro fuel
  induction fuel with
  | zero => intro act st h _ _; simpa [cvcRight] using h
  | succ fuel ih =>
    intro act st h hact hl
    cases act with
    | none => simpa [cvcRight] using h
    | some a =>
      unfold cvcRight
      obtain ⟨ha, hp⟩ := hact a rfl
      have hm := markR_inv v nm a h ha (by rw [hp]; exact hl)
      have := ih (swingRightA opp a) (markR v nm st a) hm ?_ hl
      · exact ⟨this.1, this.2⟩
      · intro b hb
        obtain ⟨h1, h2, _⟩ := swingRightA_facts hn hopp hb
        exact ⟨h1, by rw [h2, hp]⟩

theorem vget_push_lt (a : Array Nat) (x i : Nat) (h : i < a.size) : vget (a.push x) i = vget a i := by
  unfold vget
  simp only [Array.getD_eq_getD_getElem?, Array.getElem?_push]
  have : i ≠ a.size := Nat.ne_of_lt h
  simp [this]

theorem vget_push_eq (a : Array Nat) (x : Nat) : vget (a.push x) a.size = x := by
  unfold vget
  simp [Array.getD_eq_getD_getElem?]

theorem cvcCorner_inv {ctv0 : Array Nat} {opp : Array (Option Nat)} {k : Nat} (numOrig : Nat)
    (hn : ctv0.size = 3 * k) (hopp : OppOK ctv0 ctv0.size opp)
    (fuel : Nat) (st : VCState) (c : Nat) (hc : c < ctv0.size) (h : VInv ctv0 numOrig st) :
    VInv ctv0 numOrig (cvcCorner opp fuel st c) := by
  unfold cvcCorner
  split
  · exact h
  · rename_i hvis
    have hvis : st.visitedC.getD c false = false := by simpa using hvis
    have hv0 : vget st.ctv c = vget ctv0 c := h.unvisited c hvis
    simp only []
    generalize hnm : st.visitedV.getD (vget st.ctv c) false = nm
    generalize hv : (if nm = true then st.vc.size else vget st.ctv c) = v
    -- the state after the optional creation of a new vertex and the visited-vertex mark
    generalize hst1 : ({ (if nm = true then
          { st with vc := st.vc.push none, parents := st.parents.push (vget st.ctv c),
                    visitedV := st.visitedV.push false }
        else st) with
        visitedV := (if nm = true then
          { st with vc := st.vc.push none, parents := st.parents.push (vget st.ctv c),
                    visitedV := st.visitedV.push false }
        else st).visitedV.setIfInBounds v true } : VCState) = st1
    have hinv1 : VInv ctv0 numOrig st1 ∧ LabelOK ctv0 numOrig st1 v nm (vget ctv0 c) := by
      subst hst1
      subst hv
      cases nm with
      | false =>
        simp only [Bool.false_eq_true, if_false]
        exact ⟨⟨h.size_ctv, h.size_visC, h.size_vc, h.parent, h.unvisited⟩, fun hf => by cases hf⟩
      | true =>
        simp only [if_true]
        refine ⟨⟨h.size_ctv, h.size_visC, ?_, ?_, h.unvisited⟩, fun _ => ⟨?_, ?_⟩⟩
        · simp only [Array.size_push]; rw [h.size_vc]; omega
        · intro c' hc'
          obtain ⟨h1, h2⟩ := h.parent c' hc'
          simp only [Array.size_push]
          refine ⟨by omega, ?_⟩
          unfold vparent at h2 ⊢
          split
          · rename_i hlt; simp only [hlt, if_true] at h2; exact h2
          · rename_i hlt
            simp only [hlt, if_false] at h2
            rw [vget_push_lt _ _ _ (by omega)]; exact h2
        · simp only [Array.size_push]; rw [h.size_vc]; omega
        · unfold vparent
          rw [h.size_vc]
          have : ¬ (numOrig + st.parents.size < numOrig) := by omega
          simp only [this, if_false]
          have : numOrig + st.parents.size - numOrig = st.parents.size := by omega
          rw [this, vget_push_eq, hv0]
    obtain ⟨hinv1, hlab1⟩ := hinv1
    have hL := cvcLeft_inv numOrig hn hopp c v nm
      (vget ctv0 c) fuel c st1 hinv1 hc rfl hlab1
    split
    · have hlab2 : LabelOK ctv0 numOrig
          (cvcLeft opp c v nm fuel c st1).1 v nm (vget ctv0 c) := by
        unfold LabelOK; rw [hL.2]; exact hlab1
      refine (cvcRight_inv numOrig hn hopp _ nm (vget ctv0 c) _ _ _ hL.1 ?_ hlab2).1
      intro a ha
      obtain ⟨h1, h2, _⟩ := swingRightA_facts hn hopp ha
      exact ⟨h1, h2⟩
    · exact hL.1

theorem cvcFace_inv {ctv0 : Array Nat} {opp : Array (Option Nat)} {k : Nat} (numOrig : Nat)
    (hn : ctv0.size = 3 * k) (hopp : OppOK ctv0 ctv0.size opp)
    (fuel : Nat) (st : VCState) (f : Nat) (hf : f < ctv0.size / 3) (h : VInv ctv0 numOrig st) :
    VInv ctv0 numOrig (cvcFace opp fuel st f) := by
  unfold cvcFace
  split
  · exact h
  · exact cvcCorner_inv numOrig hn hopp fuel _ _ (by omega)
      (cvcCorner_inv numOrig hn hopp fuel _ _ (by omega) (cvcCorner_inv numOrig hn hopp fuel _ _ (by omega) h))

theorem computeVertexCornersF_inv {ctv0 : Array Nat} {opp : Array (Option Nat)} {k : Nat}
    (hn : ctv0.size = 3 * k) (hopp : OppOK ctv0 ctv0.size opp) (fuel : Nat) :
    VInv ctv0 (numVerticesOf ctv0) (computeVertexCornersF ctv0 opp (numVerticesOf ctv0) fuel) := by
  unfold computeVertexCornersF
  apply foldl_range_inv' (VInv ctv0 (numVerticesOf ctv0))
  · refine ⟨rfl, by simp, by simp, ?_, fun c _ => rfl⟩
    intro c hc
    have := vget_lt_numVerticesOf ctv0 c hc
    simp only [Array.size_empty, Nat.add_zero]
    refine ⟨this, ?_⟩
    unfold vparent; simp [this]
  · intro i hi s hs
    exact cvcFace_inv _ hn hopp fuel s i hi hs

end Draco
