import DracoProofs.EbChain
import DracoProofs.EbCreateProps
/-
  `PosAgree` (EbLayer.lean) between the ENCODER's and the DECODER's position source of a prediction scheme with a
  parent (POSITION) attribute — "assign_points_correspond" for the parent attribute — PROVED from the structure of the
  two sides instead of evaluated:

    * decoder: `pointToValueMap` (`UpdatePointToAttributeIndexMapping`): under `PointsRefineVertices` (two corners
      with the same decoder point have the same base vertex) the map sends the point of a corner to the entry of
      the corner's base vertex (`pointToValueMap_spec`);
    * encoder: `parentMap` (`TransformAttributeToPortableFormat` of the parent): the map sends a point to an entry
      of the position sequence whose point has the same position value index (`parentMap_spec`);
    * the position table is built from the position value indices (`CornerTable::Create(posFaces)`), so the corners
      of one base vertex carry points with the same position value index (`vertexPos_of_create`);
    * the portable values are computed entry-wise from the rows of the entries (`EntryWise`, proved for
      `integerPortable` / `quantizedPortable` — `portableOf` with kind 1 / 2 — of an attribute with 3 components).

  Main results: `posAgree_of_setup` / `decParentOK_of_setup` from `ParentSetup`; `parentSetup_of_runs` assembles
  `ParentSetup` from the traversal runs, `CornerTable.create`, and the remaining named hypotheses.  The last section
  connects the hypotheses to the named parts of `encodeEdgebreaker` (`connInputs`, `portableOf`, `parentAfter`,
  `portablePass`).
-/
namespace Draco.EbEnc
open Draco Draco.SeqEnc
open Draco.Eb hiding iabs nextC prevC

namespace PosAgreeP

/-! ### generic facts -/

/-- a successful `for` loop over a range whose body — when it succeeds from a state satisfying the invariant — yields
    a state satisfying the invariant -/
theorem forIn_ok_inv {σ : Type} (f : Nat → σ → R (ForInStep σ)) (I : Nat → σ → Prop) :
    ∀ (n a : Nat) (init out : σ),
      (∀ j s r, a ≤ j → j < a + n → I j s → f j s = .ok r → ∃ s', r = .yield s' ∧ I (j + 1) s') →
      I a init → forIn (List.range' a n 1) init f = .ok out → I (a + n) out := by
  intro n
  induction n with
  | zero =>
    intro a init out _ hI h
    simp only [List.range'_zero, List.forIn_nil, pure, Except.pure, Except.ok.injEq] at h
    subst h
    simpa using hI
  | succ n ih =>
    intro a init out hstep hI h
    rw [List.range'_succ, List.forIn_cons, bind_ok_iff] at h
    obtain ⟨r, h1, h2⟩ := h
    obtain ⟨s', rfl, hI'⟩ := hstep a init r (Nat.le_refl _) (by omega) hI h1
    have := ih (a + 1) s' out (fun j s r h1 h2 => hstep j s r (by omega) (by omega)) hI' h2
    have e : a + 1 + n = a + (n + 1) := by omega
    rw [e] at this
    exact this

theorem rd_some {site : String} {a : Array Nat} {i v : Nat} : rd site a i = .ok v ↔ a[i]? = some v := by
  unfold rd
  by_cases h : i < a.size
  · simp [h, pure, Except.pure]
  · simp [h, throw, throwThe, MonadExceptOf.throw]

theorem rd_of_lt (site : String) (a : Array Nat) (i : Nat) (h : i < a.size) : rd site a i = .ok a[i]! := by
  rw [rd_some]; simp [h]

theorem rdI_of_lt (site : String) (a : Array Int) (i : Nat) (h : i < a.size) : rdI site a i = .ok a[i]! := by
  unfold rdI
  simp [h, pure, Except.pure]

theorem get!_of_some {a : Array Nat} {i v : Nat} (h : a[i]? = some v) : i < a.size ∧ a[i]! = v := by
  by_cases hi : i < a.size
  · simp [hi] at h ⊢; exact h
  · simp [hi] at h

/-! ### (1) the decoder's point → entry map -/

/-- **`PointsRefineVertices`**: two corners that carry the same decoder point have the same base vertex
    (invariant of `assignPoints`) -/
def PointsRefineVertices (t : TView) (faces : Array Nat) : Prop :=
  ∀ c c', c < 3 * t.numFaces → c' < 3 * t.numFaces → faces[c]! = faces[c']! → t.c2v[c]! = t.c2v[c']!

/-- `Vertex` of a valid corner is the entry of the corner-to-vertex array -/
theorem vertex_get {t : TView} {c v : Nat} (hne : c ≠ inv) (h : t.vertex c = .ok v) : t.c2v[c]! = v := by
  unfold TView.vertex at h
  have e : (c == inv) = false := by simpa using hne
  simp only [e, Bool.and_false, Bool.false_eq_true, if_false] at h
  exact (get!_of_some (rd_some.mp h)).2

/-- what one successful step of `UpdatePointToAttributeIndexMapping` establishes (with the vertex and its entry) -/
theorem pointToValueStep_spec {t : TView} {faces : Array Nat} {np : Nat} {v2d : Array Nat} {c : Nat}
    {m m' : Array Nat} (h : pointToValueStep t faces np v2d c m = .ok m') :
    ∃ v e, c < faces.size ∧ t.vertex c = .ok v ∧ v2d[v]? = some e ∧ faces[c]! < np ∧ e < np ∧
      m' = m.setIfInBounds faces[c]! e := by
  unfold pointToValueStep at h
  rw [bind_ok_iff] at h
  obtain ⟨pt, hpt, h⟩ := h
  rw [bind_ok_iff] at h
  obtain ⟨v, hv, h⟩ := h
  by_cases hvi : (v == inv) = true
  · simp [hvi, throw, throwThe, MonadExceptOf.throw, bind, Except.bind] at h
  · have hvi' : (v == inv) = false := by simpa using hvi
    simp only [hvi', Bool.false_eq_true, if_false] at h
    rw [bind_ok_iff] at h
    obtain ⟨e, he, h⟩ := h
    by_cases hcond : (decide (pt ≥ np) || decide (e ≥ np)) = true
    · simp [hcond, throw, throwThe, MonadExceptOf.throw, bind, Except.bind] at h
    · simp only [hcond, Bool.false_eq_true, if_false] at h
      simp only [Bool.or_eq_true, decide_eq_true_eq, not_or, Nat.not_le] at hcond
      simp only [pure, Except.pure, Except.ok.injEq] at h
      obtain ⟨hc, hfc⟩ := get!_of_some (rd_some.mp hpt)
      refine ⟨v, e, hc, hv, rd_some.mp he, ?_, hcond.2, ?_⟩
      · rw [hfc]; exact hcond.1
      · rw [hfc]; exact h.symm

/-- the point of corner `k` is mapped to the entry of the vertex of `k` -/
def CornerOK (t : TView) (faces v2d m : Array Nat) (k : Nat) : Prop :=
  ∃ v e, t.vertex k = .ok v ∧ v2d[v]? = some e ∧ m[faces[k]!]? = some e

theorem pointToValueLoop_spec {t : TView} {faces : Array Nat} {np : Nat} {v2d : Array Nat}
    (hfits : 3 * t.numFaces ≤ inv) (href : PointsRefineVertices t faces) :
    ∀ (n c : Nat) (m m' : Array Nat), c + n ≤ 3 * t.numFaces → m.size = np →
      (∀ k, k < c → CornerOK t faces v2d m k) →
      pointToValueLoop t faces np v2d n c m = .ok m' →
      m'.size = np ∧ ∀ k, k < c + n → CornerOK t faces v2d m' k := by
  intro n
  induction n with
  | zero =>
    intro c m m' _ hsz hk h
    simp only [pointToValueLoop, pure, Except.pure, Except.ok.injEq] at h
    subst h
    exact ⟨hsz, fun k hk' => hk k (by omega)⟩
  | succ n ih =>
    intro c m m' hcn hsz hk h
    simp only [pointToValueLoop] at h
    rw [bind_ok_iff] at h
    obtain ⟨m1, hstep, h⟩ := h
    obtain ⟨v, e, hc, hv, he, hpt, _, hm1⟩ := pointToValueStep_spec hstep
    have hsz1 : m1.size = np := by rw [hm1]; simpa using hsz
    have := ih (c + 1) m1 m' (by omega) hsz1 ?_ h
    · refine ⟨this.1, fun k hk' => this.2 k (by omega)⟩
    · intro k hk'
      by_cases hkc : k = c
      · subst hkc
        refine ⟨v, e, hv, he, ?_⟩
        rw [hm1, Array.getElem?_setIfInBounds]
        simp [hsz, hpt]
      · obtain ⟨v', e', hv', he', hm'⟩ := hk k (by omega)
        by_cases hf : faces[k]! = faces[c]!
        · -- the same point: the same vertex, hence the same entry
          have h1 := vertex_get (by omega) hv'
          have h2 := vertex_get (by omega) hv
          have h3 := href k c (by omega) (by omega) hf
          have hvv : v' = v := by rw [← h1, ← h2, h3]
          subst hvv
          refine ⟨v', e, hv', he, ?_⟩
          rw [hm1, hf, Array.getElem?_setIfInBounds]
          simp [hsz, hpt]
        · refine ⟨v', e', hv', he', ?_⟩
          rw [hm1, Array.getElem?_setIfInBounds]
          have : ¬ faces[c]! = faces[k]! := fun e => hf e.symm
          simp only [this, if_false]
          exact hm'

/-- **(1) spec of `pointToValueMap`** under `PointsRefineVertices`: the point of every corner is mapped to the entry
    (`v2d`) of the base vertex of the corner -/
theorem pointToValueMap_spec {t : TView} {faces : Array Nat} {np : Nat} {v2d m : Array Nat}
    (hfits : 3 * t.numFaces ≤ inv) (href : PointsRefineVertices t faces)
    (h : pointToValueMap t faces np v2d = .ok m) :
    m.size = np ∧ ∀ c, c < 3 * t.numFaces →
      ∃ v e, t.vertex c = .ok v ∧ v2d[v]? = some e ∧ faces[c]! < np ∧ m[faces[c]!]? = some e := by
  have h0 := pointToValueMap_ok h
  unfold pointToValueMap at h
  rw [bind_ok_iff] at h
  obtain ⟨m0, hloop, h⟩ := h
  have hm : m = m0 := by
    split at h
    · simp [raise] at h
    · simp only [pure, Except.pure, Except.ok.injEq] at h; exact h.symm
  subst hm
  obtain ⟨hsz, hall⟩ := pointToValueLoop_spec hfits href (3 * t.numFaces) 0 _ m (by omega) (by simp)
    (fun k hk => by omega) hloop
  refine ⟨hsz, fun c hc => ?_⟩
  obtain ⟨v, e, hv, he, hme⟩ := hall c (by omega)
  obtain ⟨hk, hlt⟩ := h0.2.2 c hc
  refine ⟨v, e, hv, he, ?_, hme⟩
  simpa [hk] using hlt

/-! ### (2) the encoder's point → entry map -/

/-- `attribute->mapped_index(p)` -/
def mapped (a : Attribute) (p : Nat) : R Nat := mappedIndex (a.map.map List.toArray) p

theorem wr_spec {site : String} {a : Array Nat} {i v : Nat} {r : Array Nat} (h : wr site a i v = .ok r) :
    i < a.size ∧ r = a.setIfInBounds i v := by
  unfold wr at h
  by_cases hi : i < a.size
  · simp only [hi, dite_true, pure, Except.pure, Except.ok.injEq] at h
    refine ⟨hi, ?_⟩
    rw [← h]
    simp [Array.setIfInBounds, hi]
  · simp [hi, throw, throwThe, MonadExceptOf.throw] at h

theorem array_forIn_range {α σ : Type} [Inhabited α] (a : Array α) (init : σ) (f : α → σ → R (ForInStep σ)) :
    forIn a init f = forIn (List.range' 0 a.size 1) init (fun i s => f a[i]! s) := by
  rw [← Array.forIn_toList]
  have : a.toList = (List.range' 0 a.size 1).map (fun i => a[i]!) := by
    apply List.ext_getElem
    · simp
    · intro i h1 h2
      simp at h1
      simp [h1]
  conv => lhs; rw [this]
  rw [List.forIn_map]

/-- the first loop of `parentMap`: value index → LAST entry of the sequence with that value index -/
def VtvOK (a : Attribute) (pids : Array Nat) (nv : Nat) (i : Nat) (vtv : Array Nat) : Prop :=
  vtv.size = nv ∧ ∀ k val, k < i → mapped a pids[k]! = .ok val →
    ∃ k', vtv[val]? = some k' ∧ k' < i ∧ mapped a pids[k']! = .ok val

/-- **(2) spec of `parentMap`**: one entry per point; a point whose value index occurs in the sequence is mapped to
    an entry of the sequence (the last one) whose point has the same value index.  (The value index of a point that
    does NOT occur in the sequence is mapped to entry 0.) -/
theorem parentMap_spec {a : Attribute} {np : Nat} {pids pm : Array Nat} (h : parentMap a np pids = .ok pm) :
    pm.size = np ∧
    (∀ p, p < np → ∃ val, mapped a p = .ok val) ∧
    ∀ p k0 val, p < np → k0 < pids.size → mapped a pids[k0]! = .ok val → mapped a p = .ok val →
      pm[p]! < pids.size ∧ mapped a pids[pm[p]!]! = .ok val := by
  unfold parentMap at h
  simp only [Std.Legacy.Range.forIn_eq_forIn_range', Std.Legacy.Range.size, Nat.sub_zero, Nat.add_sub_cancel,
    Nat.div_one] at h
  rw [bind_ok_iff] at h
  obtain ⟨vtv, h1, h⟩ := h
  rw [bind_ok_iff] at h
  obtain ⟨out, h2, h⟩ := h
  simp only [pure, Except.pure, Except.ok.injEq] at h
  subst h
  -- first loop
  have hv := forIn_ok_inv _ (VtvOK a pids a.numValues) pids.size 0 _ vtv ?_ ?_ h1
  · -- second loop
    have ho := forIn_ok_inv _ (fun p (o : Array Nat) => o.size = p ∧ ∀ q, q < p →
        ∃ val x, mapped a q = .ok val ∧ vtv[val]? = some x ∧ o[q]? = some x) np 0 _ out ?_ ?_ h2
    · simp only [Nat.zero_add] at hv ho
      refine ⟨ho.1, fun p hp => ?_, ?_⟩
      · obtain ⟨val, _, hval, _⟩ := ho.2 p hp
        exact ⟨val, hval⟩
      · intro p k0 val hp hk0 hk0v hpv
        obtain ⟨val', x, hval', hx, hout⟩ := ho.2 p hp
        rw [hval'] at hpv
        have e : val' = val := by simpa using hpv
        rw [e] at hx
        obtain ⟨k', h3, h4, h5⟩ := hv.2 k0 val hk0 hk0v
        rw [hx] at h3
        cases h3
        rw [(get!_of_some hout).2]
        exact ⟨h4, h5⟩
    · intro j s r _ hj hI hr
      rw [bind_ok_iff] at hr
      obtain ⟨val, hval, hr⟩ := hr
      rw [bind_ok_iff] at hr
      obtain ⟨x, hx, hr⟩ := hr
      simp only [pure, Except.pure, Except.ok.injEq] at hr
      subst hr
      refine ⟨_, rfl, by simp [hI.1], ?_⟩
      intro q hq
      by_cases hqj : q = j
      · subst hqj
        refine ⟨val, x, hval, rd_some.mp hx, ?_⟩
        have : q = s.size := hI.1.symm
        subst this
        simp
      · obtain ⟨val', x', h1', h2', h3'⟩ := hI.2 q (by omega)
        refine ⟨val', x', h1', h2', ?_⟩
        rw [← h3']
        have : q ≠ s.size := by rw [hI.1]; exact hqj
        simp [Array.getElem?_push, this]
    · exact ⟨by simp, fun q hq => by omega⟩
  · intro j s r _ hj hI hr
    rw [bind_ok_iff] at hr
    obtain ⟨val, hval, hr⟩ := hr
    rw [bind_ok_iff] at hr
    obtain ⟨s', hs', hr⟩ := hr
    simp only [pure, Except.pure, Except.ok.injEq] at hr
    subst hr
    obtain ⟨hlt, rfl⟩ := wr_spec hs'
    refine ⟨_, rfl, by simpa using hI.1, ?_⟩
    intro k val' hk hkv
    by_cases hvv : val' = val
    · subst hvv
      refine ⟨j, ?_, by omega, hval⟩
      rw [Array.getElem?_setIfInBounds]
      simp [hlt]
    · have hkj : k ≠ j := by
        intro e; subst e
        rw [show mapped a pids[k]! = _ from hval] at hkv
        cases hkv; exact hvv rfl
      obtain ⟨k', g1, g2, g3⟩ := hI.2 k val' (by omega) hkv
      refine ⟨k', ?_, by omega, g3⟩
      rw [Array.getElem?_setIfInBounds]
      have : ¬ val = val' := fun e => hvv e.symm
      simp only [this, if_false]
      exact g1
  · exact ⟨by simp, fun k val hk => by omega⟩

/-- `rowsAt`: one row per entry, the value of the value index of its point -/
theorem rowsAt_spec {a : Attribute} {pids : Array Nat} {rows : List Bytes} (h : rowsAt a pids = .ok rows) :
    rows.length = pids.size ∧
    ∀ k, k < pids.size → ∃ val, mapped a pids[k]! = .ok val ∧
      rows[k]? = some (valueAt a.values.toArray a.stride val) := by
  unfold rowsAt at h
  simp only [] at h
  rw [bind_ok_iff] at h
  obtain ⟨out, h1, h⟩ := h
  simp only [pure, Except.pure, Except.ok.injEq] at h
  subst h
  rw [array_forIn_range] at h1
  have ho := forIn_ok_inv _ (fun p (o : Array Bytes) => o.size = p ∧ ∀ q, q < p →
      ∃ val, mapped a pids[q]! = .ok val ∧ o[q]? = some (valueAt a.values.toArray a.stride val))
    pids.size 0 _ out ?_ ?_ h1
  · simp only [Nat.zero_add] at ho
    refine ⟨by simpa using ho.1, fun k hk => ?_⟩
    obtain ⟨val, hv, ho'⟩ := ho.2 k hk
    exact ⟨val, hv, by simpa using ho'⟩
  · intro j s r _ hj hI hr
    rw [bind_ok_iff] at hr
    obtain ⟨val, hval, hr⟩ := hr
    simp only [pure, Except.pure, Except.ok.injEq] at hr
    subst hr
    refine ⟨_, rfl, by simp [hI.1], ?_⟩
    intro q hq
    by_cases hqj : q = j
    · subst hqj
      refine ⟨val, hval, ?_⟩
      have : q = s.size := hI.1.symm
      subst this
      simp
    · obtain ⟨val', h1', h2'⟩ := hI.2 q (by omega)
      refine ⟨val', h1', ?_⟩
      rw [← h2']
      have : q ≠ s.size := by rw [hI.1]; exact hqj
      simp [Array.getElem?_push, this]
  · exact ⟨by simp, fun q hq => by omega⟩

/-! ### (3) the chain -/

/-- the portable values of the position sequence are computed ENTRY-WISE from the value index of the entry's point:
    three values per entry, equal for two entries whose points have the same position value index -/
def EntryWise (a : Attribute) (pids : Array Nat) (portable : Array Int) : Prop :=
  portable.size = 3 * pids.size ∧
  ∀ k k' val, k < pids.size → k' < pids.size → mapped a pids[k]! = .ok val → mapped a pids[k']! = .ok val →
    ∀ j, j < 3 → portable[3 * k + j]! = portable[3 * k' + j]!

/-- **the structural facts behind `PosAgree`** for one value block whose prediction scheme reads the positions.

    Encoder: `a` the POSITION attribute, `np = g.numPoints`, `facesE` the point of every corner, `eB = t.view` the base
    view, `seqP` the sequence of the position controller, `portableP` its portable values, `pmap` the point map of the
    portable parent attribute, `seqE` the sequence of the attribute being encoded.
    Decoder: `facesD = mesh.faces`, `npD = mesh.numPoints`, `dB` the base view, `seqPD` the sequence of the position
    decoder, `mapD` its point → entry map, `seqD` the sequence of the attribute being decoded.
    `φ` / `ψB`: the corner map and the vertex map of the base tables. -/
structure ParentSetup (a : Attribute) (np : Nat) (facesE : Array Nat) (dB eB : TView) (φ ψB : Nat → Nat)
    (seqPD seqP : SeqOut) (facesD : Array Nat) (npD : Nat) (seqD seqE : SeqOut)
    (portableP : Array Int) (pmap mapD : Array Nat) : Prop where
  /-- the base views are isomorphic -/
  baseIso : TVIso dB eB φ ψB
  /-- decoder invariant of `assignPoints`: the same point ⇒ the same base vertex -/
  refines : PointsRefineVertices dB facesD
  /-- `UpdatePointToAttributeIndexMapping` of the position decoder -/
  mapD_ok : pointToValueMap dB facesD npD seqPD.v2d = .ok mapD
  /-- `TransformAttributeToPortableFormat` of the parent on the encoder's side -/
  pmap_ok : parentMap a np seqP.pointIds = .ok pmap
  /-- the two position sequences have the same number of entries -/
  posSeq_size : seqP.pointIds.size = seqPD.d2c.size
  /-- every base vertex of a corner is an entry of the position sequence: the decoder's `v2d` of the vertex is the
      entry `p` whose corner `c'` has that vertex, and the encoder's entry `p` is the point of the corner `φ c'` -/
  posSeq : ∀ c v, c < 3 * dB.numFaces → dB.vertex c = .ok v →
    ∃ p c', p < seqPD.d2c.size ∧ c' < 3 * dB.numFaces ∧ dB.vertex c' = .ok v ∧ seqPD.v2d[v]? = some p ∧
      facesE[φ c']? = some seqP.pointIds[p]!
  /-- the two sequences of the current attribute have the same number of entries -/
  curSeq_size : seqE.pointIds.size = seqD.pointIds.size
  /-- entry `i` of the current sequences: the points of corresponding corners -/
  curSeq : ∀ i, i < seqD.pointIds.size →
    ∃ c, c < 3 * dB.numFaces ∧ facesD[c]? = some seqD.pointIds[i]! ∧ facesE[φ c]? = some seqE.pointIds[i]!
  /-- the corners of one base vertex carry points with the same position value index
      (`CornerTable::Create` on the position value indices) -/
  vertexPos : ∀ c c' w, c < 3 * eB.numFaces → c' < 3 * eB.numFaces → eB.vertex c = .ok w → eB.vertex c' = .ok w →
    mapped a facesE[c]! = mapped a facesE[c']!
  /-- the portable position values are computed entry-wise -/
  entryWise : EntryWise a seqP.pointIds portableP
  /-- the points of the faces are points of the geometry -/
  facesE_lt : ∀ c, c < 3 * eB.numFaces → facesE[c]! < np

/-- `PosSource.get` when every read is in range -/
theorem get_of_lt (ps : PosSource) (i : Nat) (h1 : i < ps.pointIds.size) (h2 : ps.pointIds[i]! < ps.map.size)
    (h3 : 3 * ps.map[ps.pointIds[i]!]! + 2 < ps.values.size) :
    ps.get i = .ok (ps.values[3 * ps.map[ps.pointIds[i]!]!]!, ps.values[3 * ps.map[ps.pointIds[i]!]! + 1]!,
      ps.values[3 * ps.map[ps.pointIds[i]!]! + 2]!) := by
  unfold PosSource.get
  rw [rd_of_lt _ _ _ h1]
  simp only [bind, Except.bind]
  rw [rd_of_lt _ _ _ h2]
  simp only []
  rw [rdI_of_lt _ _ _ (by omega), rdI_of_lt _ _ _ (by omega), rdI_of_lt _ _ _ h3]
  rfl

/-- `PosSource.get` of an entry out of range -/
theorem get_of_ge (ps : PosSource) (i : Nat) (h1 : ¬ i < ps.pointIds.size) :
    ps.get i = .error (.ub "entry_to_point_id_map_") := by
  unfold PosSource.get rd
  simp [h1, throw, throwThe, MonadExceptOf.throw, bind, Except.bind]

/-- **`PosAgree` from the structure of the two sides.** -/
theorem posAgree_of_setup {a : Attribute} {np : Nat} {facesE : Array Nat} {dB eB : TView} {φ ψB : Nat → Nat}
    {seqPD seqP : SeqOut} {facesD : Array Nat} {npD : Nat} {seqD seqE : SeqOut}
    {portableP : Array Int} {pmap mapD : Array Nat}
    (h : ParentSetup a np facesE dB eB φ ψB seqPD seqP facesD npD seqD seqE portableP pmap mapD) :
    PosAgree { pointIds := seqE.pointIds, map := pmap, values := portableP }
             { pointIds := seqD.pointIds, map := mapD, values := portableP } := by
  intro i
  by_cases hi : i < seqD.pointIds.size
  · have hiE : i < seqE.pointIds.size := by rw [h.curSeq_size]; exact hi
    have hfits := h.baseIso.fits
    obtain ⟨c, hc, hfD, hfE⟩ := h.curSeq i hi
    obtain ⟨hcD, hptD⟩ := get!_of_some hfD
    obtain ⟨hcE, hptE⟩ := get!_of_some hfE
    -- decoder: the point of `c` is mapped to the entry of the base vertex of `c`
    obtain ⟨hmsz, hmap⟩ := pointToValueMap_spec hfits.1 h.refines h.mapD_ok
    obtain ⟨v, e, hv, he, hptlt, hme⟩ := hmap c hc
    obtain ⟨p, c', hp, hc', hv', hvp, hfp⟩ := h.posSeq c v hc hv
    rw [hvp] at he
    have hep : p = e := by simpa using he
    subst hep
    obtain ⟨_, hmD⟩ := get!_of_some hme
    -- the corners `φ c` and `φ c'` have the same encoder base vertex
    obtain ⟨v1, a1, _, a3, _⟩ := h.baseIso.vertex c hc
    obtain ⟨v2, b1, _, b3, _⟩ := h.baseIso.vertex c' hc'
    rw [hv] at a1; cases a1
    rw [hv'] at b1; cases b1
    have hφc := h.baseIso.phi_lt c hc
    have hφc' := h.baseIso.phi_lt c' hc'
    have hsame := h.vertexPos (φ c) (φ c') (ψB v) hφc hφc' a3 b3
    -- encoder: the point of `φ c` is mapped to an entry with the same position value index
    obtain ⟨hpsz, hpok, hpm⟩ := parentMap_spec h.pmap_ok
    have hptElt : seqE.pointIds[i]! < np := by rw [← hptE]; exact h.facesE_lt _ hφc
    obtain ⟨val, hval⟩ := hpok _ hptElt
    have hpP : p < seqP.pointIds.size := by rw [h.posSeq_size]; exact hp
    obtain ⟨_, hptP⟩ := get!_of_some hfp
    have hvalP : mapped a seqP.pointIds[p]! = .ok val := by rw [← hptP, ← hsame, hptE]; exact hval
    obtain ⟨hkE, hkEv⟩ := hpm _ p val hptElt hpP hvalP hval
    obtain ⟨hsz, hew⟩ := h.entryWise
    have hrow := hew _ p val hkE hpP hkEv hvalP
    rw [get_of_lt _ i hiE (by simpa [hpsz] using hptElt) (by simp only []; omega),
        get_of_lt _ i hi (by simp only []; rw [← hptD, hmsz]; exact hptlt)
          (by simp only []; rw [← hptD, hmD]; omega)]
    simp only []
    rw [← hptD, hmD]
    have r0 := hrow 0 (by omega)
    have r1 := hrow 1 (by omega)
    have r2 := hrow 2 (by omega)
    simp only [Nat.add_zero] at r0
    rw [r0, r1, r2]
  · have hiE : ¬ i < seqE.pointIds.size := by rw [h.curSeq_size]; exact hi
    rw [get_of_ge _ i hiE, get_of_ge _ i hi]

/-- **`DecParentOK` from the structure of the two sides**: the decoder's parent is the portable position attribute
    with the decoder's point map and the decoded portable values — which ARE the encoder's (`hints`: the conclusion
    of the value-block theorem for the position block) -/
theorem decParentOK_of_setup {a : Attribute} {np : Nat} {facesE : Array Nat} {dB eB : TView} {φ ψB : Nat → Nat}
    {seqPD seqP : SeqOut} {facesD : Array Nat} {npD : Nat} {seqD seqE : SeqOut}
    {portableP : Array Int} {pmap mapD : Array Nat}
    (h : ParentSetup a np facesE dB eB φ ψB seqPD seqP facesD npD seqD seqE portableP pmap mapD)
    (s : PScheme) (parentE : ParentAtt) (parentD : Parent) (posE : PosSource)
    (hmapE : parentE.map = pmap) (hvalsE : parentE.values = portableP)
    (hnc : parentD.numComponents = 3) (hok : parentD.intsOk = true)
    (hmapD : parentD.map = mapD) (hints : parentD.ints = portableP)
    (hpos : encParentSource s seqE.pointIds (some parentE) = .ok posE) :
    DecParentOK s (some parentD) seqD.pointIds posE := by
  intro hs
  refine ⟨parentD, rfl, hnc, hok, ?_⟩
  have hposE : posE = { pointIds := seqE.pointIds, map := pmap, values := portableP } := by
    unfold encParentSource at hpos
    simp only [hs, if_true] at hpos
    by_cases h3 : (parentE.numComponents != 3) = true
    · simp [h3, throw, throwThe, MonadExceptOf.throw, bind, Except.bind] at hpos
    · by_cases h0 : (parentE.kind == 0) = true
      · by_cases hint : isIntegralType parentE.dataType = true <;>
          simp [h3, h0, hint, throw, throwThe, MonadExceptOf.throw, bind, Except.bind] at hpos
      · simp [h3, h0, pure, Except.pure, hmapE, hvalsE] at hpos
        exact hpos.symm
  rw [hposE, hmapD, hints]
  exact posAgree_of_setup h

/-! ### discharging the fields of `ParentSetup` -/

/-- the core facts of a pair of traversal runs (either method) -/
theorem travCore_of_runs {d e : TView} {φ ψ : Nat → Nat} (h : TVIso d e φ ψ) (order v2dInit : Array Nat) (v2dSize : Nat)
    (hsize : order.size = d.numFaces) (horder : ∀ i, i < d.numFaces → order[i]! = φ (3 * i))
    (facesD facesE : Array Nat) (outD outE : SeqOut)
    (htrav : TraversalRuns d e facesD facesE order v2dInit v2dSize outD outE) :
    ∃ fvD vvD fvE vvE, TravCore d e φ ψ facesD facesE fvD vvD outD fvE vvE outE ∧
      (∀ j, j < d.numFaces → fvD[j]? = some true) ∧ (Hedge d → JInv d fvD vvD) := by
  rcases htrav with ⟨hD, hE⟩ | ⟨hD, hE⟩
  · exact depthFirst_sim h order v2dInit v2dSize hsize horder outD outE hD hE
  · exact maxPredictionDegree_sim h order v2dInit v2dSize hsize horder outD outE hD hE

/-- **fields `posSeq_size`, `posSeq`** from the two traversal runs of the POSITION sequence on the base views
    (`Hedge`: every vertex of a corner is visited) -/
theorem posSeq_of_runs {d e : TView} {φ ψ : Nat → Nat} (h : TVIso d e φ ψ) (hg : Hedge d)
    (order v2dInit : Array Nat) (v2dSize : Nat)
    (hsize : order.size = d.numFaces) (horder : ∀ i, i < d.numFaces → order[i]! = φ (3 * i))
    (facesD facesE : Array Nat) (outD outE : SeqOut)
    (htrav : TraversalRuns d e facesD facesE order v2dInit v2dSize outD outE) :
    outE.pointIds.size = outD.d2c.size ∧
    ∀ c v, c < 3 * d.numFaces → d.vertex c = .ok v →
      ∃ p c', p < outD.d2c.size ∧ c' < 3 * d.numFaces ∧ d.vertex c' = .ok v ∧ outD.v2d[v]? = some p ∧
        facesE[φ c']? = some outE.pointIds[p]! := by
  obtain ⟨fvD, vvD, fvE, vvE, hco, hall, hj⟩ :=
    travCore_of_runs h order v2dInit v2dSize hsize horder facesD facesE outD outE htrav
  have hszE : outE.pointIds.size = outD.d2c.size := by rw [hco.pidE.1, hco.d2c_size]
  refine ⟨hszE, ?_⟩
  intro c v hc hv
  have hseen := hj hg c hc (hall (c / 3) (by omega)) v hv
  obtain ⟨p, hp, hpv⟩ := hco.vis v hseen
  obtain ⟨hlt, hd2c⟩ := hco.d2c p hp
  obtain ⟨_, s2, _⟩ := hco.seen p hp v hpv
  refine ⟨p, outD.d2c[p], hp, hlt, hpv, s2, ?_⟩
  have hpE : p < outE.d2c.size := by rw [hco.d2c_size]; exact hp
  have := hco.pidE.2 p hpE
  rw [← hd2c]
  have e1 : outE.d2c[p]! = outE.d2c[p] := by simp [hpE]
  rw [e1, ← this]
  have hpP : p < outE.pointIds.size := by rw [hszE]; exact hp
  simp [hpP]

/-- **fields `curSeq_size`, `curSeq`** from the two traversal runs of the CURRENT sequence (on the base views or on
    the views of an attribute corner table: the same corner map `φ`, the same number of faces) -/
theorem curSeq_of_runs {d e : TView} {φ ψ : Nat → Nat} (h : TVIso d e φ ψ)
    (order v2dInit : Array Nat) (v2dSize : Nat)
    (hsize : order.size = d.numFaces) (horder : ∀ i, i < d.numFaces → order[i]! = φ (3 * i))
    (facesD facesE : Array Nat) (outD outE : SeqOut)
    (htrav : TraversalRuns d e facesD facesE order v2dInit v2dSize outD outE) :
    outE.pointIds.size = outD.pointIds.size ∧
    ∀ i, i < outD.pointIds.size →
      ∃ c, c < 3 * d.numFaces ∧ facesD[c]? = some outD.pointIds[i]! ∧ facesE[φ c]? = some outE.pointIds[i]! := by
  obtain ⟨fvD, vvD, fvE, vvE, hco, _, _⟩ :=
    travCore_of_runs h order v2dInit v2dSize hsize horder facesD facesE outD outE htrav
  have hszE : outE.pointIds.size = outD.pointIds.size := by rw [hco.pidE.1, hco.d2c_size, hco.pidD.1]
  refine ⟨hszE, ?_⟩
  intro i hi
  have hp : i < outD.d2c.size := by rw [← hco.pidD.1]; exact hi
  have hpE : i < outE.d2c.size := by rw [hco.d2c_size]; exact hp
  obtain ⟨hlt, hd2c⟩ := hco.d2c i hp
  refine ⟨outD.d2c[i], hlt, ?_, ?_⟩
  · rw [← hco.pidD.2 i hp]
    simp [hi]
  · have := hco.pidE.2 i hpE
    rw [← hd2c]
    have e1 : outE.d2c[i]! = outE.d2c[i] := by simp [hpE]
    rw [e1, ← this]
    have hpP : i < outE.pointIds.size := by rw [hszE]; exact hi
    simp [hpP]

/-- **field `vertexPos`** for the base view of a table built by `CornerTable::Create(posFaces)`: two corners with the
    same base vertex have the same input vertex id (`createF_vertex_parent`), and `posFaces` holds — corner by corner —
    the position value index of the corner's point (or, with `use_single_connectivity_`, the point itself): `hpf` -/
theorem vertexPos_of_create {posFaces : Faces} {table : CornerTable} (hc : CornerTable.create posFaces = some table)
    (a : Attribute) (facesE : Array Nat)
    (hpf : ∀ c c', c < 3 * posFaces.size → c' < 3 * posFaces.size →
      inputVertex posFaces c = inputVertex posFaces c' → mapped a facesE[c]! = mapped a facesE[c']!) :
    ∀ c c' w, c < 3 * (CT.ofTable table).view.numFaces → c' < 3 * (CT.ofTable table).view.numFaces →
      (CT.ofTable table).view.vertex c = .ok w → (CT.ofTable table).view.vertex c' = .ok w →
      mapped a facesE[c]! = mapped a facesE[c']! := by
  intro c c' w h1 h2 hv hv'
  rw [ofTable_view_numFaces hc] at h1 h2
  rw [ofTable_view_vertex hc c h1] at hv
  rw [ofTable_view_vertex hc c' h2] at hv'
  have e1 : vget table.cornerToVertex c = w := by injection hv
  have e2 : vget table.cornerToVertex c' = w := by injection hv'
  have p1 := (CornerTable.createF_vertex_parent hc c h1).2
  have p2 := (CornerTable.createF_vertex_parent hc c' h2).2
  apply hpf c c' h1 h2
  rw [← p1, ← p2]
  unfold CornerTable.parentAt
  rw [e1, e2]

/-! ### `EntryWise` of the integer and the quantized portable values (three components) -/

/-- element `n * i + j` of the concatenation of lists of length `n` -/
theorem flatten_uniform_get {α : Type} (n : Nat) : ∀ (ls : List (List α)), (∀ e ∈ ls, e.length = n) →
    ∀ i j, i < ls.length → j < n → ls.flatten[n * i + j]? = (ls[i]?).bind (·[j]?) := by
  intro ls
  induction ls with
  | nil => intro _ i j hi; simp at hi
  | cons e es ih =>
    intro h i j hi hj
    have he : e.length = n := h e (by simp)
    cases i with
    | zero =>
      simp only [Nat.mul_zero, Nat.zero_add, List.flatten_cons, List.getElem?_cons_zero, Option.bind_some]
      rw [List.getElem?_append_left (by omega)]
    | succ i =>
      simp only [List.flatten_cons, List.getElem?_cons_succ]
      rw [List.getElem?_append_right (by rw [he, Nat.mul_succ]; omega)]
      have : n * (i + 1) + j - e.length = n * i + j := by rw [he, Nat.mul_succ]; omega
      rw [this]
      exact ih (fun x hx => h x (by simp [hx])) i j (by simpa using hi) hj

theorem flatten_uniform_length {α : Type} (n : Nat) : ∀ (ls : List (List α)), (∀ e ∈ ls, e.length = n) →
    ls.flatten.length = n * ls.length := by
  intro ls
  induction ls with
  | nil => simp
  | cons e es ih =>
    intro h
    simp only [List.flatten_cons, List.length_append, h e (by simp), List.length_cons,
      ih (fun x hx => h x (by simp [hx])), Nat.mul_succ]
    omega

/-- entries (three values each, one per point of the sequence) that depend only on the value index of the point -/
theorem entryWise_of_entries (a : Attribute) (pids : Array Nat) (vs : List (List Int))
    (hlen : vs.length = pids.size) (h3 : ∀ e ∈ vs, e.length = 3)
    (hdep : ∀ k k' val, k < pids.size → k' < pids.size → mapped a pids[k]! = .ok val → mapped a pids[k']! = .ok val →
      vs[k]? = vs[k']?) :
    EntryWise a pids vs.flatten.toArray := by
  refine ⟨by rw [List.size_toArray, flatten_uniform_length 3 vs h3, hlen], ?_⟩
  intro k k' val hk hk' hv hv' j hj
  have e1 := flatten_uniform_get 3 vs h3 k j (by omega) hj
  have e2 := flatten_uniform_get 3 vs h3 k' j (by omega) hj
  rw [hdep k k' val hk hk' hv hv', ← e2] at e1
  simp only [List.getElem!_toArray, List.getElem!_eq_getElem?_getD, e1]

theorem convertRow_length (dt len : Nat) : ∀ (nc : Nat) (row : Bytes) (vs : List Int),
    convertRow dt len nc row = some vs → vs.length = nc := by
  intro nc
  induction nc with
  | zero => intro row vs h; simp only [convertRow, Option.some.injEq] at h; subst h; rfl
  | succ nc ih =>
    intro row vs h
    simp only [convertRow] at h
    split at h
    · rename_i v vs' _ hvs
      simp only [Option.some.injEq] at h
      subst h
      simp [ih _ _ hvs]
    · cases h

theorem rowF32s_length : ∀ (nc : Nat) (row : Bytes), (rowF32s nc row).length = nc := by
  intro nc
  induction nc with
  | zero => intro row; rfl
  | succ nc ih => intro row; simp [rowF32s, ih]

theorem quantizeRow_length (mins : List Nat) (range q : Nat) : ∀ (xs : List Nat) (c : Nat),
    (quantizeRow mins range q c xs).length = xs.length := by
  intro xs
  induction xs with
  | nil => intro c; rfl
  | cons x xs ih => intro c; simp [quantizeRow, ih]

/-- the rows of two entries with the same value index coincide -/
theorem rows_dep {a : Attribute} {pids : Array Nat} {rows : List Bytes} (hr : rowsAt a pids = .ok rows)
    (k k' val : Nat) (hk : k < pids.size) (hk' : k' < pids.size)
    (hv : mapped a pids[k]! = .ok val) (hv' : mapped a pids[k']! = .ok val) : rows[k]? = rows[k']? := by
  obtain ⟨_, hrow⟩ := rowsAt_spec hr
  obtain ⟨v1, a1, a2⟩ := hrow k hk
  obtain ⟨v2, b1, b2⟩ := hrow k' hk'
  rw [hv] at a1; rw [hv'] at b1
  cases a1; cases b1
  rw [a2, b2]

/-- **`EntryWise` of `integerPortable`** (`SequentialIntegerAttributeEncoder::PrepareValues`), three components -/
theorem entryWise_integer {a : Attribute} {pids : Array Nat} {rows : List Bytes} {p : List Int}
    (hr : rowsAt a pids = .ok rows) (hp : integerPortable a rows = some p) (h3 : a.numComponents = 3) :
    EntryWise a pids p.toArray := by
  unfold integerPortable at hp
  split at hp
  · cases hp
  · rename_i vs hvs
    simp only [Option.some.injEq] at hp
    subst hp
    obtain ⟨hl, hget⟩ := allSome_map _ _ _ hvs
    obtain ⟨hrl, _⟩ := rowsAt_spec hr
    apply entryWise_of_entries a pids vs (by rw [hl, hrl])
    · intro e he
      obtain ⟨i, hi, rfl⟩ := List.getElem_of_mem he
      have := hget i (by omega) hi
      rw [convertRow_length _ _ _ _ _ this, h3]
    · intro k k' val hk hk' hv hv'
      have hrows := rows_dep hr k k' val hk hk' hv hv'
      have hkr : k < rows.length := by omega
      have hkr' : k' < rows.length := by omega
      rw [List.getElem?_eq_getElem hkr, List.getElem?_eq_getElem hkr'] at hrows
      have hrows' : rows[k] = rows[k'] := by injection hrows
      have g1 := hget k hkr (by omega)
      have g2 := hget k' hkr' (by omega)
      rw [hrows', g2] at g1
      rw [List.getElem?_eq_getElem (by omega : k < vs.length), List.getElem?_eq_getElem (by omega : k' < vs.length)]
      exact g1.symm

/-- **`EntryWise` of `quantizedPortable`** (`AttributeQuantizationTransform::GeneratePortableAttribute`), three
    components -/
theorem entryWise_quantized {a : Attribute} {pids : Array Nat} {rows : List Bytes} (mins : List Nat) (range q : Nat)
    (hr : rowsAt a pids = .ok rows) (h3 : a.numComponents = 3) :
    EntryWise a pids (quantizedPortable mins range q a.numComponents rows).toArray := by
  unfold quantizedPortable
  obtain ⟨hrl, _⟩ := rowsAt_spec hr
  apply entryWise_of_entries a pids _ (by rw [List.length_map, hrl])
  · intro e he
    simp only [List.mem_map] at he
    obtain ⟨row, _, rfl⟩ := he
    rw [quantizeRow_length, rowF32s_length, h3]
  · intro k k' val hk hk' hv hv'
    have hrows := rows_dep hr k k' val hk hk' hv hv'
    simp only [List.getElem?_map, hrows]

/-! ### the faces handed to `CornerTable::Create` (`hpf` of `vertexPos_of_create`) and the face points -/

/-- the point of corner `c` in the flattened faces is the `c % 3`-th point of face `c / 3` -/
theorem flattenFaces_get (fs : List (Nat × Nat × Nat)) (c : Nat) (hc : c < 3 * fs.length) :
    (flattenFaces fs).toArray[c]! = inputVertex fs.toArray c := by
  have hmod : c % 3 < 3 := Nat.mod_lt _ (by omega)
  have hdiv : c / 3 < fs.length := by omega
  have e := flatten_uniform_get 3 (fs.map fun f => [f.1, f.2.1, f.2.2]) (by
    intro e he
    simp only [List.mem_map] at he
    obtain ⟨f, _, rfl⟩ := he
    rfl) (c / 3) (c % 3) (by simpa using hdiv) hmod
  have hc3 : 3 * (c / 3) + c % 3 = c := Nat.div_add_mod c 3
  rw [hc3] at e
  have hff : flattenFaces fs = (fs.map fun f => [f.1, f.2.1, f.2.2]).flatten := by
    unfold flattenFaces
    rw [List.flatMap_def]
  unfold inputVertex
  simp only [List.getElem!_toArray, List.getElem!_eq_getElem?_getD, hff, e, List.getElem?_toArray,
    List.getElem?_map, List.getElem?_eq_getElem hdiv, Option.map_some, Option.bind_some]
  obtain ⟨x, y, z⟩ := fs[c / 3]
  have : c % 3 = 0 ∨ c % 3 = 1 ∨ c % 3 = 2 := by omega
  rcases this with h | h | h <;> simp [h]

/-- `use_single_connectivity_`: the table is built from the point ids themselves -/
theorem hpf_single (a : Attribute) (fs : List (Nat × Nat × Nat)) :
    ∀ c c', c < 3 * fs.toArray.size → c' < 3 * fs.toArray.size →
      inputVertex fs.toArray c = inputVertex fs.toArray c' →
      mapped a (flattenFaces fs).toArray[c]! = mapped a (flattenFaces fs).toArray[c']! := by
  intro c c' hc hc' h
  rw [flattenFaces_get fs c (by simpa using hc), flattenFaces_get fs c' (by simpa using hc'), h]

/-- the table is built from the position value indices of the points: `posFaces[f] = (mapped a, mapped b, mapped c)` -/
theorem hpf_mapped (a : Attribute) (fs : List (Nat × Nat × Nat)) (posFaces : Faces)
    (hsz : posFaces.size = fs.length)
    (hpos : ∀ c, c < 3 * fs.length → mapped a (inputVertex fs.toArray c) = .ok (inputVertex posFaces c)) :
    ∀ c c', c < 3 * posFaces.size → c' < 3 * posFaces.size →
      inputVertex posFaces c = inputVertex posFaces c' →
      mapped a (flattenFaces fs).toArray[c]! = mapped a (flattenFaces fs).toArray[c']! := by
  intro c c' hc hc' h
  rw [flattenFaces_get fs c (by omega), flattenFaces_get fs c' (by omega), hpos c (by omega), hpos c' (by omega), h]

/-- `CreateCornerTableFromPositionAttribute`: the loop of `encodeEdgebreaker` that fills `posFaces` -/
def posFacesLoop (m : Option (Array Nat)) (fs : List (Nat × Nat × Nat)) (init : Faces) : R Faces := do
  let mut posFaces : Faces := init
  for (a, b, c) in fs do
    posFaces := posFaces.push (← mappedIndex m a, ← mappedIndex m b, ← mappedIndex m c)
  pure posFaces

theorem posFacesLoop_spec (m : Option (Array Nat)) : ∀ (fs : List (Nat × Nat × Nat)) (init out : Faces),
    posFacesLoop m fs init = .ok out →
    out.size = init.size + fs.length ∧ (∀ f, f < init.size → out[f]? = init[f]?) ∧
    ∀ f (hf : f < fs.length), ∃ x y z, mappedIndex m fs[f].1 = .ok x ∧ mappedIndex m fs[f].2.1 = .ok y ∧
      mappedIndex m fs[f].2.2 = .ok z ∧ out[init.size + f]? = some (x, y, z) := by
  intro fs
  induction fs with
  | nil =>
    intro init out h
    simp only [posFacesLoop, List.forIn_nil, pure, Except.pure, bind, Except.bind, Except.ok.injEq] at h
    subst h
    exact ⟨by simp, fun _ _ => rfl, fun f hf => by simp at hf⟩
  | cons t ts ih =>
    intro init out h
    obtain ⟨a, b, c⟩ := t
    unfold posFacesLoop at h
    simp only [List.forIn_cons] at h
    rw [bind_ok_iff] at h
    obtain ⟨r, h1, h⟩ := h
    rw [bind_ok_iff] at h1
    obtain ⟨s1, h1, h2⟩ := h1
    rw [bind_ok_iff] at h1
    obtain ⟨x, hx, h1⟩ := h1
    rw [bind_ok_iff] at h1
    obtain ⟨y, hy, h1⟩ := h1
    rw [bind_ok_iff] at h1
    obtain ⟨z, hz, h1⟩ := h1
    simp only [pure, Except.pure, Except.ok.injEq] at h1
    subst h1
    have h' : posFacesLoop m ts (init.push (x, y, z)) = .ok out := by
      unfold posFacesLoop
      rw [bind_ok_iff]
      simp only [bind, Except.bind] at h2
      exact ⟨r, h2, h⟩
    obtain ⟨i1, i2, i3⟩ := ih _ _ h'
    refine ⟨by simp at i1 ⊢; omega, ?_, ?_⟩
    · intro f hf
      rw [i2 f (by simp; omega), Array.getElem?_push]
      have : f ≠ init.size := by omega
      simp [this]
    · intro f hf
      cases f with
      | zero =>
        refine ⟨x, y, z, hx, hy, hz, ?_⟩
        rw [Nat.add_zero, i2 init.size (by simp)]
        simp
      | succ f =>
        obtain ⟨x', y', z', g1, g2, g3, g4⟩ := i3 f (by simpa using hf)
        refine ⟨x', y', z', by simpa using g1, by simpa using g2, by simpa using g3, ?_⟩
        rw [← g4]
        congr 1
        simp; omega

/-- `hpos` of `hpf_mapped` for the `posFaces` the encoder's loop builds -/
theorem hpos_of_loop (a : Attribute) (fs : List (Nat × Nat × Nat)) (posFaces : Faces)
    (h : posFacesLoop (a.map.map List.toArray) fs #[] = .ok posFaces) :
    posFaces.size = fs.length ∧
    ∀ c, c < 3 * fs.length → mapped a (inputVertex fs.toArray c) = .ok (inputVertex posFaces c) := by
  obtain ⟨h1, _, h3⟩ := posFacesLoop_spec _ fs #[] posFaces h
  refine ⟨by simpa using h1, ?_⟩
  intro c hc
  have hdiv : c / 3 < fs.length := by omega
  obtain ⟨x, y, z, hx, hy, hz, ho⟩ := h3 (c / 3) hdiv
  simp only [List.size_toArray, List.length_nil, Nat.zero_add] at ho
  unfold inputVertex mapped
  rw [ho]
  simp only [List.getElem?_toArray, List.getElem?_eq_getElem hdiv]
  generalize fs[c / 3] = t at hx hy hz ⊢
  obtain ⟨p, q, r⟩ := t
  have : c % 3 = 0 ∨ c % 3 = 1 ∨ c % 3 = 2 := by omega
  rcases this with h | h | h <;> simp [h, hx, hy, hz]

/-- **field `facesE_lt`** from `Geometry.valid` -/
theorem facesE_lt_of_valid (g : Geometry) (hv : g.valid = true) (c : Nat) (hc : c < 3 * g.faces.length) :
    (flattenFaces g.faces).toArray[c]! < g.numPoints := by
  unfold Geometry.valid at hv
  rw [Bool.and_eq_true] at hv
  have hdiv : c / 3 < g.faces.length := by omega
  have hf := List.all_eq_true.1 hv.1 g.faces[c / 3] (List.getElem_mem hdiv)
  rw [flattenFaces_get g.faces c hc]
  unfold inputVertex
  simp only [List.getElem?_toArray, List.getElem?_eq_getElem hdiv]
  generalize g.faces[c / 3] = t at hf ⊢
  obtain ⟨p, q, r⟩ := t
  simp only [Bool.and_eq_true, decide_eq_true_eq] at hf
  split
  · exact hf.1.1
  · split
    · exact hf.1.2
    · exact hf.2

/-! ### the setup from the runs -/

/-- **`ParentSetup` assembled**: the base table is created from `posFaces`; both position sequences are traversal
    runs on the base views; both current sequences are traversal runs on views `dC` / `eC` isomorphic under the SAME
    corner map `φ` (the base views themselves or the views of an attribute corner table: `eb_att_views_iso`).
    What remains as hypotheses: the isomorphisms, the decoder invariant
    `PointsRefineVertices`, the two map computations, `hpf` (content of `posFaces`), `EntryWise`, the face points. -/
theorem parentSetup_of_runs {a : Attribute} {np : Nat} {facesE facesD : Array Nat} {npD : Nat}
    {posFaces : Faces} {table : CornerTable} (hcreate : CornerTable.create posFaces = some table)
    {dB : TView} {φ ψB : Nat → Nat} (hiso : TVIso dB (CT.ofTable table).view φ ψB)
    (order : Array Nat) (hsize : order.size = dB.numFaces) (horder : ∀ i, i < dB.numFaces → order[i]! = φ (3 * i))
    (v2dInitP : Array Nat) (v2dSizeP : Nat) (seqPD seqP : SeqOut)
    (htravP : TraversalRuns dB (CT.ofTable table).view facesD facesE order v2dInitP v2dSizeP seqPD seqP)
    (dC eC : TView) (ψC : Nat → Nat) (hisoC : TVIso dC eC φ ψC) (hnf : dC.numFaces = dB.numFaces)
    (v2dInitC : Array Nat) (v2dSizeC : Nat) (seqD seqE : SeqOut)
    (htravC : TraversalRuns dC eC facesD facesE order v2dInitC v2dSizeC seqD seqE)
    (href : PointsRefineVertices dB facesD)
    {portableP : Array Int} {pmap mapD : Array Nat}
    (hmapD : pointToValueMap dB facesD npD seqPD.v2d = .ok mapD)
    (hpmap : parentMap a np seqP.pointIds = .ok pmap)
    (hpf : ∀ c c', c < 3 * posFaces.size → c' < 3 * posFaces.size →
      inputVertex posFaces c = inputVertex posFaces c' → mapped a facesE[c]! = mapped a facesE[c']!)
    (hew : EntryWise a seqP.pointIds portableP)
    (hlt : ∀ c, c < 3 * posFaces.size → facesE[c]! < np) :
    ParentSetup a np facesE dB (CT.ofTable table).view φ ψB seqPD seqP facesD npD seqD seqE portableP pmap mapD := by
  have hg : Hedge dB := Hedge.of_iso_hedge hiso (hedge_ofTable hcreate)
  obtain ⟨p1, p2⟩ := posSeq_of_runs hiso hg order v2dInitP v2dSizeP hsize horder facesD facesE seqPD seqP htravP
  obtain ⟨c1, c2⟩ := curSeq_of_runs hisoC order v2dInitC v2dSizeC (by rw [hnf]; exact hsize)
    (by rw [hnf]; exact horder) facesD facesE seqD seqE htravC
  exact {
    baseIso := hiso
    refines := href
    mapD_ok := hmapD
    pmap_ok := hpmap
    posSeq_size := p1
    posSeq := p2
    curSeq_size := c1
    curSeq := fun i hi => by
      obtain ⟨c, hc, h1, h2⟩ := c2 i hi
      exact ⟨c, by rw [← hnf]; exact hc, h1, h2⟩
    vertexPos := vertexPos_of_create hcreate a facesE hpf
    entryWise := hew
    facesE_lt := fun c hc => hlt c (by rw [ofTable_view_numFaces hcreate] at hc; exact hc) }

/-! ### the named parts of `encodeEdgebreaker`: `connInputs`, `portableOf`, `portablePass` -/

/-- `use_single_connectivity_`: `connInputs` hands the faces themselves to `CornerTable::Create` -/
theorem connInputs_single {g : Geometry} {pf : Faces} {acv : Array (Nat × Array Nat)}
    (h : connInputs g true = .ok (pf, acv)) : pf = g.faces.toArray := by
  unfold connInputs at h
  simp only [if_true, Bool.not_true, Bool.false_eq_true, if_false, pure, Except.pure, bind, Except.bind,
    Except.ok.injEq, Prod.mk.injEq] at h
  exact h.1.symm

/-- otherwise `connInputs` hands the position value indices of the face points to `CornerTable::Create` -/
theorem connInputs_mapped {g : Geometry} {pf : Faces} {acv : Array (Nat × Array Nat)}
    (h : connInputs g false = .ok (pf, acv)) :
    ∃ pid, namedAttributeId g.atts.toArray posType = some pid ∧
      posFacesLoop ((g.atts.toArray[pid]!).map.map List.toArray) g.faces #[] = .ok pf := by
  unfold connInputs at h
  simp only [Bool.false_eq_true, if_false] at h
  split at h
  · simp [throw, throwThe, MonadExceptOf.throw, bind, Except.bind] at h
  · rename_i pid hpid
    refine ⟨pid, hpid, ?_⟩
    rw [bind_ok_iff] at h
    obtain ⟨s, hs, h⟩ := h
    have hpf : pf = s := by
      simp only [Bool.not_false, if_true] at h
      split at h
      · simp [throw, throwThe, MonadExceptOf.throw, bind, Except.bind] at h
      · rw [bind_ok_iff] at h
        obtain ⟨s1, _, h⟩ := h
        simp only [pure, Except.pure, Except.ok.injEq, Prod.mk.injEq] at h
        exact h.1.symm
    subst hpf
    unfold posFacesLoop
    rw [bind_ok_iff]
    refine ⟨pf, ?_, rfl⟩
    rw [← hs]
    congr 1

/-- **`hpf`** (hypothesis of `vertexPos_of_create` / `parentSetup_of_runs`) for the faces `connInputs` hands to
    `CornerTable::Create`: `a` = the first POSITION attribute (any attribute with `use_single_connectivity_`) -/
theorem hpf_of_connInputs {g : Geometry} {single : Bool} {pf : Faces} {acv : Array (Nat × Array Nat)}
    (h : connInputs g single = .ok (pf, acv)) (a : Attribute)
    (ha : single = false → ∀ pid, namedAttributeId g.atts.toArray posType = some pid → a = g.atts.toArray[pid]!) :
    pf.size = g.faces.length ∧
    ∀ c c', c < 3 * pf.size → c' < 3 * pf.size → inputVertex pf c = inputVertex pf c' →
      mapped a (flattenFaces g.faces).toArray[c]! = mapped a (flattenFaces g.faces).toArray[c']! := by
  cases single with
  | true =>
    have := connInputs_single h
    subst this
    exact ⟨by simp, hpf_single a g.faces⟩
  | false =>
    obtain ⟨pid, hpid, hloop⟩ := connInputs_mapped h
    have := ha rfl pid hpid
    subst this
    obtain ⟨hsz, hpos⟩ := hpos_of_loop _ g.faces pf hloop
    exact ⟨hsz, hpf_mapped _ g.faces pf hsz hpos⟩

/-- **`EntryWise` of `portableOf`** for the integer and the quantization encoder of an attribute with three
    components -/
theorem entryWise_portableOf {o : EbOpts} {a : Attribute} {s : SeqEncSt} {pids : Array Nat} {rows : List Bytes}
    {pt : Array Int × Bytes} (hr : rowsAt a pids = .ok rows) (hp : portableOf o a s rows = .ok pt)
    (h3 : a.numComponents = 3) (hk : s.kind = 1 ∨ s.kind = 2) : EntryWise a pids pt.1 := by
  unfold portableOf at hp
  rcases hk with hk | hk
  · simp only [hk, beq_self_eq_true, if_true] at hp
    split at hp
    · simp [throw, throwThe, MonadExceptOf.throw] at hp
    · rename_i p hp'
      simp only [pure, Except.pure, Except.ok.injEq] at hp
      subst hp
      exact entryWise_integer hr hp' h3
  · have e1 : ((2 : Nat) == 1) = false := by decide
    simp only [hk, e1, Bool.false_eq_true, if_false, beq_self_eq_true, if_true] at hp
    split at hp
    · simp [throw, throwThe, MonadExceptOf.throw] at hp
    · simp only [pure, Except.pure, Except.ok.injEq] at hp
      subst hp
      exact entryWise_quantized _ _ _ hr h3

/-- `parentAfter`: the parent it was given, or the portable attribute of the sequential encoder `s` -/
theorem parentAfter_spec {g : Geometry} {anp : Bool} {posId : Option Nat} {pids : Array Nat} {s : SeqEncSt}
    {pt : Array Int × Bytes} {parent pfin : Option ParentAtt}
    (h : parentAfter g anp posId pids s pt parent = .ok pfin) :
    pfin = parent ∨ ∃ pm, some s.attId = posId ∧
      parentMap (g.atts.toArray[s.attId]!) g.numPoints pids = .ok pm ∧
      pfin = some { kind := s.kind, numComponents := (g.atts.toArray[s.attId]!).numComponents,
                    dataType := (g.atts.toArray[s.attId]!).dataType, map := pm, values := pt.1 } := by
  unfold parentAfter at h
  split at h
  · rename_i hc
    simp only [Bool.and_eq_true, beq_iff_eq] at hc
    rw [bind_ok_iff] at h
    obtain ⟨pm, hpm, h⟩ := h
    simp only [pure, Except.pure, Except.ok.injEq] at h
    exact Or.inr ⟨pm, hc.2, hpm, h.symm⟩
  · simp only [pure, Except.pure, Except.ok.injEq] at h
    exact Or.inl h.symm

/-- the parent attribute `portablePass` leaves behind: the one it was given, or the portable attribute of one of its
    sequential encoders (`rowsAt`, `portableOf`, `parentMap` on the pass's point sequence) -/
theorem portablePass_parent (o : EbOpts) (g : Geometry) (anp : Bool) (posId : Option Nat) (pids : Array Nat) :
    ∀ (ss : List SeqEncSt) (parent : Option ParentAtt) (pts : List (Array Int × Bytes)) (pfin : Option ParentAtt),
      portablePass o g anp posId pids ss parent = .ok (pts, pfin) →
      pfin = parent ∨ ∃ s rows pt pm, s ∈ ss ∧ some s.attId = posId ∧
        rowsAt (g.atts.toArray[s.attId]!) pids = .ok rows ∧
        portableOf o (g.atts.toArray[s.attId]!) s rows = .ok pt ∧
        parentMap (g.atts.toArray[s.attId]!) g.numPoints pids = .ok pm ∧
        pfin = some { kind := s.kind, numComponents := (g.atts.toArray[s.attId]!).numComponents,
                      dataType := (g.atts.toArray[s.attId]!).dataType, map := pm, values := pt.1 } := by
  intro ss
  induction ss with
  | nil =>
    intro parent pts pfin h
    simp only [portablePass, pure, Except.pure, Except.ok.injEq, Prod.mk.injEq] at h
    exact Or.inl h.2.symm
  | cons s ss ih =>
    intro parent pts pfin h
    simp only [portablePass] at h
    rw [bind_ok_iff] at h
    obtain ⟨rows, hrows, h⟩ := h
    rw [bind_ok_iff] at h
    obtain ⟨pt, hpt, h⟩ := h
    have key : ∀ parent', portablePass o g anp posId pids ss parent' >>= (fun x => (pure (pt :: x.1, x.2) :
        R (List (Array Int × Bytes) × Option ParentAtt))) = .ok (pts, pfin) →
        pfin = parent' ∨ ∃ s' rows pt pm, s' ∈ ss ∧ some s'.attId = posId ∧
          rowsAt (g.atts.toArray[s'.attId]!) pids = .ok rows ∧
          portableOf o (g.atts.toArray[s'.attId]!) s' rows = .ok pt ∧
          parentMap (g.atts.toArray[s'.attId]!) g.numPoints pids = .ok pm ∧
          pfin = some { kind := s'.kind, numComponents := (g.atts.toArray[s'.attId]!).numComponents,
                        dataType := (g.atts.toArray[s'.attId]!).dataType, map := pm, values := pt.1 } := by
      intro parent' h
      rw [bind_ok_iff] at h
      obtain ⟨⟨rest, pf'⟩, hrest, h⟩ := h
      simp only [pure, Except.pure, Except.ok.injEq, Prod.mk.injEq] at h
      obtain ⟨_, rfl⟩ := h
      exact ih parent' rest pf' hrest
    rw [bind_ok_iff] at h
    obtain ⟨parent', hpa, h⟩ := h
    rcases key _ h with e | ⟨s', rows', pt', pm', hmem, r1, r2, r3, r4, r5⟩
    · subst e
      rcases parentAfter_spec hpa with e | ⟨pm, hc, hpm, e⟩
      · exact Or.inl e
      · exact Or.inr ⟨s, rows, pt, pm, by simp, hc, hrows, hpt, hpm, e⟩
    · exact Or.inr ⟨s', rows', pt', pm', by simp [hmem], r1, r2, r3, r4, r5⟩

end PosAgreeP

end Draco.EbEnc
