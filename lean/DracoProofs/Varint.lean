import DracoModel.Varint
namespace Draco

theorem mul128_or (a r : Nat) (hr : r < 128) : (a * 128) ||| r = a * 128 + r := by
  have := Nat.shiftLeft_add_eq_or_of_lt (i := 7) (b := r) (by simpa using hr) a
  simp [Nat.shiftLeft_eq] at this
  omega

theorem decVarintAux_enc (w : Nat) (rest : Bytes) :
    ∀ (b f v : Nat), 0 < b → v < 128^b → b ≤ f + 1 → v < 2^w →
      decVarintAux w b (encVarintFuel f v ++ rest) = some (v, rest) := by
  intro b
  induction b with
  | zero => intro f v h; omega
  | succ b ih =>
    intro f v _ hv hf hw
    by_cases hsmall : v < 128
    · cases f with
      | zero =>
        simp [encVarintFuel, decVarintAux, Nat.mod_eq_of_lt hsmall]
        omega
      | succ f =>
        have : ¬ v ≥ 128 := by omega
        simp [encVarintFuel, this, decVarintAux]
    · have hb : 0 < b := by
        rcases Nat.eq_zero_or_pos b with h | h
        · subst h; simp at hv; omega
        · exact h
      cases f with
      | zero => omega
      | succ f =>
        have hge : v ≥ 128 := by omega
        have hdiv : v / 128 < 128^b := by
          rw [Nat.div_lt_iff_lt_mul (by decide)]
          rw [Nat.pow_succ] at hv; exact hv
        have hdw : v / 128 < 2^w := Nat.lt_of_le_of_lt (Nat.div_le_self _ _) hw
        have ihv := ih f (v/128) hb hdiv (by omega) hdw
        simp only [encVarintFuel, hge, if_true, List.cons_append, decVarintAux]
        have hbyte : v % 128 + 128 ≥ 128 := by omega
        simp only [hbyte, if_true, ihv]
        have hm : (v / 128 * 128) % 2^w = v / 128 * 128 := by
          apply Nat.mod_eq_of_lt
          have : v / 128 * 128 ≤ v := Nat.div_mul_le_self v 128
          omega
        have hr : (v % 128 + 128) % 128 = v % 128 := by omega
        rw [hm, hr, mul128_or _ _ (Nat.mod_lt _ (by decide))]
        have := Nat.div_add_mod v 128
        congr 2; omega

end Draco
