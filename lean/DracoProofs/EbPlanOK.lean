import DracoProofs.EbAssembly
import DracoProofs.EbChain
import DracoProofs.SeqAttrLemmas
/-
  `PlanOK` of the plan `planOf …` (the hypothesis of `eb_stream_decodes` / `eb_roundtrip_conditional`) from its
  sources: the transform parameters the encoder wrote (`portableOf`), the attribute descriptors of a geometry in the
  domain, the value-block theorem, and named structural facts about the controllers.
-/
namespace Draco.EbEnc
open Draco Draco.SeqEnc DecM
open Draco.Eb hiding iabs nextC prevC

/-- attribute of the input geometry inside the domain of the stream format -/
structure EbAttOK (a : Attribute) (ao : AttOpts) : Prop where
  attType : a.attType < 5
  dataType : 1 ≤ a.dataType ∧ a.dataType ≤ 11
  numComponents : 1 ≤ a.numComponents ∧ a.numComponents ≤ 255
  uniqueId : a.uniqueId < 2 ^ 32
  explicit : ∀ org r, ao.explicitQuant = some (org, r) → r < 2 ^ 32 ∧ ∀ m ∈ org, m < 2 ^ 32

/-- **transform parameters**: what `portableOf` wrote is what `decodeTransformParams` reads, and it is the transform
    `transformOfItem` declares -/
theorem runs_paramsOf (o : EbOpts) (a : Attribute) (s : SeqEncSt) (rows : List Bytes) (portable : Array Int) (tb : Bytes)
    (hok : EbAttOK a (o.base.att s.attId)) (hkind : s.kind = encoderType a (o.base.att s.attId))
    (h : portableOf o a s rows = .ok (portable, tb)) (it : EncItem) (hid : it.attId = s.attId) (hk : it.kind = s.kind) :
    Runs (decodeTransformParams s.kind a.numComponents) 514 tb (transformOfItem o a it) 514 ∧
    (s.kind = 2 → ∃ bits mins range, transformOfItem o a it = .quantization bits mins range) ∧
    (s.kind = 3 → ∃ bits : Int, transformOfItem o a it = .octahedron bits ∧ 2 ≤ bits ∧ bits ≤ 30 ∧ a.numComponents = 3) ∧
    (s.kind ≤ 3) ∧ (s.kind = 1 → a.dataType ≤ 6) ∧ (s.kind = 2 → a.dataType = 9) ∧ (s.kind = 3 → a.dataType = 9) := by
  unfold portableOf at h
  simp only [] at h
  unfold transformOfItem
  rw [hk, hid]
  rcases encoderType_cases a (o.base.att s.attId) with h0 | ⟨h1, hd1, hd6⟩ | ⟨h2, hd9⟩ | ⟨h3, hd9, hqb⟩
  · rw [← hkind] at h0
    rw [h0] at h ⊢
    simp only [show ((0:Nat) == 1) = false from rfl, show ((0:Nat) == 2) = false from rfl,
      show ((0:Nat) == 3) = false from rfl, Bool.false_eq_true, if_false, pure, Except.pure, Except.ok.injEq,
      Prod.mk.injEq] at h ⊢
    obtain ⟨_, rfl⟩ := h
    refine ⟨?_, (fun h => absurd h (by decide)), (fun h => absurd h (by decide)), by decide, (fun h => absurd h (by decide)), (fun h => absurd h (by decide)),
      (fun h => absurd h (by decide))⟩
    unfold decodeTransformParams
    simp only [show ((0:Nat) == 2) = false from rfl, show ((0:Nat) == 3) = false from rfl, Bool.false_eq_true, if_false]
    exact Runs.pure _ 514
  · rw [← hkind] at h1
    rw [h1] at h ⊢
    simp only [show ((1:Nat) == 1) = true from rfl, if_true, show ((1:Nat) == 2) = false from rfl,
      show ((1:Nat) == 3) = false from rfl, Bool.false_eq_true, if_false] at h ⊢
    split at h
    · cases h
    · simp only [pure, Except.pure, Except.ok.injEq, Prod.mk.injEq] at h
      obtain ⟨_, rfl⟩ := h
      refine ⟨?_, (fun h => absurd h (by decide)), (fun h => absurd h (by decide)), by decide, fun _ => hd6, (fun h => absurd h (by decide)),
        (fun h => absurd h (by decide))⟩
      unfold decodeTransformParams
      simp only [show ((1:Nat) == 2) = false from rfl, show ((1:Nat) == 3) = false from rfl, Bool.false_eq_true, if_false]
      exact Runs.pure _ 514
  · rw [← hkind] at h2
    rw [h2] at h ⊢
    simp only [show ((2:Nat) == 1) = false from rfl, show ((2:Nat) == 2) = true from rfl, Bool.false_eq_true, if_false,
      if_true] at h ⊢
    split at h
    · cases h
    · rename_i mins range q hq
      simp only [pure, Except.pure, Except.ok.injEq, Prod.mk.injEq] at h
      obtain ⟨_, rfl⟩ := h
      obtain ⟨q1, q30, _, qml, qr, qm⟩ := quantizationParams_spec a _ mins range q hok.explicit hq
      rw [hq]
      simp only []
      have hq256 : q % 256 = q := Nat.mod_eq_of_lt (by omega)
      refine ⟨?_, fun _ => ⟨_, _, _, rfl⟩, (fun h => absurd h (by decide)), by decide, (fun h => absurd h (by decide)), fun _ => hd9,
        (fun h => absurd h (by decide))⟩
      unfold decodeTransformParams
      simp only [show ((2:Nat) == 2) = true from rfl, if_true]
      rw [← qml]
      have hm := Runs.replicateM'_map (f := DecM.rdU32) (v := 514) mins (writeLE 4) id
        (fun x hx => Runs.rdU32 x 514 (qm x hx))
      rw [List.map_id] at hm
      rw [show mins.flatMap (writeLE 4) = (mins.map (writeLE 4)).flatten from rfl, List.append_assoc]
      refine Runs.bind hm ?_
      refine Runs.bind (Runs.rdU32 range 514 qr) ?_
      refine Runs.bind1 (Runs.rdU8 _ 514) ?_
      rw [hq256]
      refine Runs.bind0 (Runs.require (by simp; omega) 514) ?_
      exact Runs.pure _ 514
  · rw [← hkind] at h3
    rw [h3] at h ⊢
    simp only [show ((3:Nat) == 1) = false from rfl, show ((3:Nat) == 2) = false from rfl,
      show ((3:Nat) == 3) = true from rfl, Bool.false_eq_true, if_false, if_true] at h ⊢
    split at h
    · simp [throw, throwThe, MonadExceptOf.throw, bind, Except.bind] at h
    · rename_i hnc
      split at h
      · simp [throw, throwThe, MonadExceptOf.throw, bind, Except.bind] at h
      · split at h
        · cases h
        · rename_i ot hot
          simp only [pure, Except.pure, bind, Except.bind, Except.ok.injEq, Prod.mk.injEq] at h
          obtain ⟨_, rfl⟩ := h
          have hq230 : 2 ≤ (o.base.att s.attId).quantBits.toNat ∧ (o.base.att s.attId).quantBits.toNat ≤ 30 := by
            unfold Octa.init at hot
            split at hot
            · cases hot
            · omega
          have hq256 : (o.base.att s.attId).quantBits.toNat % 256 = (o.base.att s.attId).quantBits.toNat :=
            Nat.mod_eq_of_lt (by omega)
          have hnc3 : a.numComponents = 3 := by simpa using hnc
          refine ⟨?_, (fun h => absurd h (by decide)), fun _ => ⟨_, rfl, by rw [hq256]; omega, by rw [hq256]; omega, hnc3⟩, by decide,
            (fun h => absurd h (by decide)), (fun h => absurd h (by decide)), fun _ => hd9⟩
          unfold decodeTransformParams
          simp only [show ((3:Nat) == 2) = false from rfl, show ((3:Nat) == 3) = true from rfl, Bool.false_eq_true,
            if_false, if_true]
          refine Runs.bind1 (Runs.rdU8 _ 514) ?_
          exact Runs.pure _ 514

theorem portablePass_spec (o : EbOpts) (g : Geometry) (anp : Bool) (posId : Option Nat) (pids : Array Nat) :
    ∀ (ss : List SeqEncSt) (p : Option ParentAtt) (pts : List (Array Int × Bytes)) (p' : Option ParentAtt),
    portablePass o g anp posId pids ss p = .ok (pts, p') →
    ∀ k (h1 : k < ss.length) (h2 : k < pts.length), ∃ rows,
      rowsAt (g.atts.toArray[ss[k].attId]!) pids = .ok rows ∧
      portableOf o (g.atts.toArray[ss[k].attId]!) ss[k] rows = .ok pts[k] := by
  intro ss
  induction ss with
  | nil => intro p pts p' _ k h1; exact absurd h1 (Nat.not_lt_zero _)
  | cons s ss ih =>
    intro p pts p' h k h1 h2
    unfold portablePass at h
    simp only [] at h
    rw [bind_ok_iff] at h
    obtain ⟨rows, hrows, h⟩ := h
    rw [bind_ok_iff] at h
    obtain ⟨pt, hpt, h⟩ := h
    rw [bind_ok_iff] at h
    obtain ⟨par, _, h⟩ := h
    rw [bind_ok_iff] at h
    obtain ⟨⟨rest, pfin⟩, hrest, h⟩ := h
    simp only [pure, Except.pure, Except.ok.injEq, Prod.mk.injEq] at h
    obtain ⟨rfl, rfl⟩ := h
    cases k with
    | zero => exact ⟨rows, hrows, hpt⟩
    | succ k =>
      simp only [List.getElem_cons_succ]
      exact ih par rest _ hrest k (by simpa using h1) (by simpa using h2)

theorem encodeItem_tr (ch : EbChoices) (o : EbOpts) (g : Geometry) (e : Nat) (mdata : MeshData) (pids : Array Nat)
    (parent : Option ParentAtt) (s : SeqEncSt) (pt : Array Int × Bytes) (it : EncItem)
    (h : encodeItem ch o g e mdata pids parent s pt = .ok it) : it.trBytes = pt.2 := by
  unfold encodeItem at h
  simp only [] at h
  split at h
  · rw [bind_ok_iff] at h
    obtain ⟨rows, _, h⟩ := h
    simp only [pure, Except.pure, Except.ok.injEq] at h
    subst h; rfl
  · rw [bind_ok_iff] at h
    obtain ⟨⟨sch, vb⟩, _, h⟩ := h
    simp only [pure, Except.pure, Except.ok.injEq] at h
    subst h; rfl

/-- descriptor and parameter conditions of every item of a controller -/
theorem item_desc_param (ch : EbChoices) (o : EbOpts) (g : Geometry) (conn : ConnEnc) (cs : Array Controller) (anp : Bool)
    (posId : Option Nat) (e : Nat) (p : Option ParentAtt) (c : CtrlOut) (opts : DecOpts)
    (hgen : generateControllers o g.atts.toArray g.numPoints conn = .ok cs) (he : e < cs.size)
    (hatt : ∀ a, a < g.atts.toArray.size → EbAttOK (g.atts.toArray[a]!) (o.base.att a))
    (h : encodeController ch o g conn cs anp posId e p = .ok c) :
    ∀ k (hk : k < c.items.size), DescOK (itemOf o g.atts.toArray c.items[k]) ∧ ParamOK opts (itemOf o g.atts.toArray c.items[k]) := by
  obtain ⟨pts, items, _, _, hpts, hitems, hci, hctrl⟩ := encodeController_spec ch o g conn cs anp posId e p c h
  have hl := portablePass_length o g anp posId c.seq.pointIds _ p pts c.parent hpts
  obtain ⟨i1, i2⟩ := encodePass_spec ch o g e _ c.seq.pointIds c.parent _ pts items hl hitems
  have hmem : cs[e]! ∈ cs := by rw [getElem!_pos cs e he]; exact Array.getElem_mem he
  obtain ⟨g1, g2⟩ := generateControllers_encs hgen _ hmem
  intro k hk
  have hk' : k < items.length := by rw [hci] at hk; simpa using hk
  have hks : k < (cs[e]!).encs.toList.length := by rw [← i1]; exact hk'
  have hkp : k < pts.length := by rw [hl]; exact hks
  have hitem := i2 k hks hkp hk'
  obtain ⟨hid, hkind⟩ := encodeItem_ids ch o g e _ _ _ _ _ _ hitem
  have htr := encodeItem_tr ch o g e _ _ _ _ _ _ hitem
  obtain ⟨rows, _, hpo⟩ := portablePass_spec o g anp posId c.seq.pointIds _ p pts c.parent hpts k hks hkp
  have hka : k < (cs[e]!).attIds.size := by rw [← g1]; simpa using hks
  obtain ⟨f1, f2, _⟩ := g2 k hka
  have hsk : (cs[e]!).encs.toList[k] = (cs[e]!).encs[k]! := by
    have : k < (cs[e]!).encs.size := by simpa using hks
    simp [this]
  have hlt : (cs[e]!).encs.toList[k].attId < g.atts.toArray.size := by
    rw [hsk, f1]
    exact generateControllers_attIds_lt hgen _ hmem _ (by
      have : (cs[e]!).attIds[k]! = (cs[e]!).attIds[k] := by simp [hka]
      rw [this]; exact Array.getElem_mem hka)
  have hok := hatt _ hlt
  have hitk : c.items[k] = items[k] := by simp [hci]
  have hkd : (cs[e]!).encs.toList[k].kind = encoderType (g.atts.toArray[(cs[e]!).encs.toList[k].attId]!)
      (o.base.att (cs[e]!).encs.toList[k].attId) := by
    rw [hsk, f2, f1]
  obtain ⟨r1, r2, r3, r4, r5, r6, r7⟩ := runs_paramsOf o _ _ rows _ _ hok hkd (by
      have : pts[k] = (pts[k].1, pts[k].2) := rfl
      rw [this] at hpo; exact hpo) items[k] hid hkind
  rw [hitk]
  constructor
  · refine ⟨?_, ?_, ?_, ?_, ?_, ?_, ?_⟩
    · show (descOf _).attType < 5
      rw [hid]; exact hok.attType
    · show 1 ≤ (descOf _).dataType ∧ (descOf _).dataType ≤ 11
      rw [hid]; exact hok.dataType
    · show 1 ≤ (descOf _).numComponents ∧ (descOf _).numComponents ≤ 255
      rw [hid]; exact hok.numComponents
    · show (descOf _).uniqueId < _
      rw [hid]; exact hok.uniqueId
    · show items[k].kind ≤ 3
      rw [hkind]; exact r4
    · intro h2
      show (descOf _).dataType = 9
      rw [hid]; exact r6 (by rw [← hkind]; exact h2)
    · intro h3
      show (descOf _).numComponents = 3 ∧ (descOf _).dataType = 9
      rw [hid]
      obtain ⟨_, _, _, _, hn3⟩ := r3 (by rw [← hkind]; exact h3)
      exact ⟨hn3, r7 (by rw [← hkind]; exact h3)⟩
  · refine ⟨?_, ?_, ?_, ?_⟩
    · show Runs (decodeTransformParams items[k].kind (descOf _).numComponents) 514 items[k].trBytes
        (transformOfItem o _ items[k]) 514
      rw [htr, hkind, hid]
      exact r1
    · intro h2
      show ∃ bits mins range, transformOfItem o _ items[k] = _
      rw [hid]; exact r2 (by rw [← hkind]; exact h2)
    · intro h3
      show ∃ bits, transformOfItem o _ items[k] = _ ∧ _
      rw [hid]
      obtain ⟨bits, hb, b1, b2, _⟩ := r3 (by rw [← hkind]; exact h3)
      exact ⟨bits, hb, fun _ => ⟨b1, b2⟩⟩
    · intro h1 _
      show (descOf _).dataType ≤ 6
      rw [hid]; exact r5 (by rw [← hkind]; exact h1)

theorem chain_mem {ch : EbChoices} {o : EbOpts} {g : Geometry} {conn : ConnEnc} {cs : Array Controller} {anp : Bool}
    {posId : Option Nat} : ∀ {es : List Nat} {p : Option ParentAtt} {couts : List CtrlOut},
    CtrlChain ch o g conn cs anp posId es p couts →
    ∀ c ∈ couts, ∃ e p', e ∈ es ∧ encodeController ch o g conn cs anp posId e p' = .ok c := by
  intro es p couts h
  induction h with
  | nil => intro c hc; cases hc
  | cons e es p c cs' hc _ ih =>
    intro c' hc'
    rcases List.mem_cons.mp hc' with rfl | hm
    · exact ⟨e, p, List.mem_cons_self, hc⟩
    · obtain ⟨e', p', he', h'⟩ := ih c' hm
      exact ⟨e', p', List.mem_cons_of_mem _ he', h'⟩

/-- **`PlanOK` from its sources**: descriptor and parameter conditions are theorems (`item_desc_param`); what remains are
    the decoder-side facts `hdec` (ids in range, the decoder's own sequence and point-map runs), the distinctness of the
    attribute data ids `hids`, and the value conditions `hvals` (raw lengths; the value-block theorem
    `eb_value_block_conditional_iso`) -/
theorem planOK_of_setup (ch : EbChoices) (g : Geometry) (md : Option GeometryMetadata) (o : EbOpts) (enc : Encoded)
    (henc : encodeEdgebreaker ch g md o = .ok enc) (opts : DecOpts) (mesh : Mesh) (sides : List (SeqOut × Array Nat))
    (hsides : enc.couts.size = sides.length)
    (hatt : ∀ a, a < g.atts.toArray.size → EbAttOK (g.atts.toArray[a]!) (o.base.att a))
    (hids : (planOf o g.atts.toArray enc.conn enc.controllers enc.couts.toList sides).Pairwise fun a b =>
      (0 ≤ b.dec.attDataId → a.dec.attDataId ≠ b.dec.attDataId) ∧ (b.dec.attDataId < 0 → 0 ≤ a.dec.attDataId))
    (hdec : ∀ d ∈ planOf o g.atts.toArray enc.conn enc.controllers enc.couts.toList sides, DecoderOK mesh d)
    (hvals : ∀ (i k : Nat) (hi : i < (planOf o g.atts.toArray enc.conn enc.controllers enc.couts.toList sides).length)
      (hk : k < (planOf o g.atts.toArray enc.conn enc.controllers enc.couts.toList sides)[i].items.length),
      ValuesOK mesh (planOf o g.atts.toArray enc.conn enc.controllers enc.couts.toList sides)[i]
        (parentAt (planOf o g.atts.toArray enc.conn enc.controllers enc.couts.toList sides) i k)
        (planOf o g.atts.toArray enc.conn enc.controllers enc.couts.toList sides)[i].items[k]) :
    PlanOK opts mesh (planOf o g.atts.toArray enc.conn enc.controllers enc.couts.toList sides) := by
  obtain ⟨mdBytes, coder, posFaces, acv, cs, couts, h1, h2, h3, h4, h5, h6, h7, h8, h9, h10, h11, h12, h13, h14⟩ :=
    (encodeEdgebreaker_stages ch g md o enc henc).stages
  have hchain := encodeControllers_chain ch o g enc.conn cs _ _ _ _ _ h8
  have hord := rearrangeEncoders_order h7
  rw [h9, h10] at hids hdec hvals ⊢
  rw [h10] at hsides
  simp only [] at hids hdec hvals hsides ⊢
  have hlenc : couts.length = cs.size := by
    have := congrArg List.length (chain_ctrl hchain)
    simpa [hord.1] using this
  have hplen : (planOf o g.atts.toArray enc.conn cs couts sides).length = couts.length := by
    unfold planOf
    rw [List.length_zipWith, ← (by simpa using hsides : couts.length = sides.length), Nat.min_self]
  refine ⟨by rw [hplen, hlenc]; omega, hids, hdec, ?_⟩
  intro i k hi hk
  have hic : i < couts.length := by rw [← hplen]; exact hi
  have his : i < sides.length := by rw [← (by simpa using hsides : couts.length = sides.length)]; exact hic
  have hpi : (planOf o g.atts.toArray enc.conn cs couts sides)[i] =
      decoderItemOf o g.atts.toArray enc.conn cs couts[i] sides[i] :=
    List.getElem_zipWith (f := decoderItemOf o g.atts.toArray enc.conn cs) (l := couts) (l' := sides) (i := i) (h := hi)
  have hkk : k < couts[i].items.size := by
    rw [hpi] at hk
    simpa [decoderItemOf] using hk
  have hitem : (planOf o g.atts.toArray enc.conn cs couts sides)[i].items[k] =
      itemOf o g.atts.toArray couts[i].items[k] := by
    simp only [hpi, decoderItemOf, List.getElem_map, Array.getElem_toList]
  obtain ⟨e, p', hemem, hrun⟩ := chain_mem hchain couts[i] (List.getElem_mem hic)
  have helt : e < cs.size := hord.2.1 e (by simpa using hemem)
  obtain ⟨hD, hP⟩ := item_desc_param ch o g enc.conn cs _ _ e p' couts[i] opts h5 helt hatt hrun k hkk
  have hV := hvals i k hi hk
  rw [hitem] at hV ⊢
  exact { toDescOK := hD, toParamOK := hP, toValuesOK := hV }

/-- the value block an item recorded -/
theorem encodeItem_block (ch : EbChoices) (o : EbOpts) (g : Geometry) (e : Nat) (mdata : MeshData) (pids : Array Nat)
    (parent : Option ParentAtt) (s : SeqEncSt) (pt : Array Int × Bytes) (it : EncItem)
    (h : encodeItem ch o g e mdata pids parent s pt = .ok it) (hk : s.kind ≠ 0) :
    ∃ b, it.block = some b ∧ b.attId = s.attId ∧ b.kind = s.kind ∧
      b.nc = (if s.kind == 3 then 2 else (g.atts.toArray[s.attId]!).numComponents) ∧
      b.md = mdata ∧ b.pointIds = pids ∧ b.parent = parent ∧ b.portable = pt.1 ∧ it.portable = pt.1 ∧
      it.valueBytes = b.bytes ∧
      encodeIntegerValuesEb ch o.base b.attId b.kind b.nc b.numValues b.scheme b.md b.pointIds b.parent b.portable =
        .ok (b.outScheme, b.bytes) := by
  unfold encodeItem at h
  simp only [] at h
  have hk0 : (s.kind == 0) = false := by simpa using hk
  rw [hk0] at h
  simp only [Bool.false_eq_true, if_false] at h
  rw [bind_ok_iff] at h
  obtain ⟨⟨sch, vb⟩, hrun, h⟩ := h
  simp only [pure, Except.pure, Except.ok.injEq] at h
  subst h
  exact ⟨_, rfl, rfl, rfl, rfl, rfl, rfl, rfl, rfl, rfl, rfl, hrun⟩

/-- **value condition of an item from the checked value-block theorem**: for an item of kind 1–3 whose recorded block
    passes `valueBlockHypsIso` against the decoder's view / sequence / parent, with both traversal runs -/
theorem valuesOK_of_item (ch : EbChoices) (o : EbOpts) (g : Geometry) (e : Nat) (viewE : TView) (seqE : SeqOut)
    (parent : Option ParentAtt) (s : SeqEncSt) (pt : Array Int × Bytes) (it : EncItem)
    (h : encodeItem ch o g e ⟨viewE, seqE.d2c, seqE.v2d⟩ seqE.pointIds parent s pt = .ok it)
    (mesh : Mesh) (d : DecoderItem) (parentD : Option Parent)
    (hraw : s.kind = 0 → it.valueBytes.length =
      d.n * (dataTypeLength (g.atts.toArray[s.attId]!).dataType * (g.atts.toArray[s.attId]!).numComponents))
    (processed psi back cback facesD facesE v2dInit : Array Nat) (v2dSize : Nat)
    (hchk : s.kind ≠ 0 → ∀ b, it.block = some b →
      valueBlockHypsIso ch o.base b (viewOfDecoder mesh d.dec) d.seq parentD (phiOf processed) psi back cback = [] ∧
      processed.size = (viewOfDecoder mesh d.dec).numFaces ∧
      TraversalRuns (viewOfDecoder mesh d.dec) viewE facesD facesE processed v2dInit v2dSize d.seq seqE) :
    ValuesOK mesh d parentD (itemOf o g.atts.toArray it) := by
  obtain ⟨hid, hkind⟩ := encodeItem_ids ch o g e _ _ _ _ _ _ h
  constructor
  · intro h0
    show it.valueBytes.length = d.n * (dataTypeLength (descOf _).dataType * (descOf _).numComponents)
    rw [hid]
    exact hraw (by rw [← hkind]; exact h0)
  · intro hne
    have hne' : s.kind ≠ 0 := by rw [← hkind]; exact hne
    obtain ⟨b, hb, b1, b2, b3, b4, b5, b6, b7, b8, b9, b10⟩ := encodeItem_block ch o g e _ _ _ _ _ _ h hne'
    obtain ⟨hy, hsize, htrav⟩ := hchk hne' b hb
    have hbt : b.md.t = viewE := by rw [b4]
    have := value_block_checked_iso ch o.base b (descOf (g.atts.toArray[it.attId]!)).numComponents
      (viewOfDecoder mesh d.dec) d.seq seqE parentD processed psi back cback facesD facesE v2dInit v2dSize hy hsize
      (by rw [hbt]; exact htrav) (by rw [b4]) b5 b10
    show Runs (decodeIntegerValuesEb it.kind d.n (if it.kind == 3 then 2 else (descOf _).numComponents)
      (descOf _).numComponents _ _ _) 514 it.valueBytes (it.portable, TransformData.none) 514
    rw [b9, b8, ← b7, hkind, ← b2]
    have hnc : (if b.kind == 3 then 2 else (descOf (g.atts.toArray[it.attId]!)).numComponents) = b.nc := by
      rw [b3, b2, hid]; rfl
    rw [hnc]
    exact this

/-- **`eb_roundtrip_conditional` with `PlanOK` resolved into its sources** (`planOK_of_setup`): the descriptor and
    transform-parameter conditions are theorems; hypotheses left: the CONNECTIVITY LINK `hconn`; the decoder-side facts
    `hdec` (id ranges, the decoder's own sequence / point-map runs), `hids`; the value conditions `hvals`
    (`valuesOK_of_item`: the checked value-block theorem); the input attributes inside the format's domain `hatt`; and the
    face correspondence (`EbFaceCorr`: from the row correspondences of `EbTuples`; `hcover`: the traversal reaches every
    non-degenerate face). -/
theorem eb_roundtrip_conditional_sources (ch : EbChoices) (g : Geometry) (md : Option GeometryMetadata) (o : EbOpts)
    (enc : Encoded) (henc : encodeEdgebreaker ch g md o = .ok enc) (hmd : ∀ m, md = some m → m.WF')
    (mesh : Mesh) (sides : List (SeqOut × Array Nat)) (hsides : enc.couts.size = sides.length)
    (hconn : ∀ coder, traversalCoder o g.faces.length = some coder →
      Runs decodeConnectivity 514 ([coder] ++ enc.conn.bytes) mesh 514)
    (plan : AttPlan) (hplan : plan = planOf o g.atts.toArray enc.conn enc.controllers enc.couts.toList sides)
    (hatt : ∀ a, a < g.atts.toArray.size → EbAttOK (g.atts.toArray[a]!) (o.base.att a))
    (hids : plan.Pairwise fun a b =>
      (0 ≤ b.dec.attDataId → a.dec.attDataId ≠ b.dec.attDataId) ∧ (b.dec.attDataId < 0 → 0 ≤ a.dec.attDataId))
    (hdec : ∀ d ∈ plan, DecoderOK mesh d)
    (hvals : ∀ (i k : Nat) (hi : i < plan.length) (hk : k < plan[i].items.length),
      ValuesOK mesh plan[i] (parentAt plan i k) plan[i].items[k])
    (req : Spec.QuantReq) (ms : List Spec.Matched)
    (hlen : g.atts.length = (plan.attributes {}).length)
    (huid : (g.atts.map (·.uniqueId)).Nodup)
    (hms : Spec.collect (g.atts.map (Spec.matchOne req (planGeometry {} mesh plan)
      (planGeometry { skip := allTypes } mesh plan))) = some ms)
    (σ : Nat → Nat)
    (hσlt : ∀ i, i < (facesOf mesh).length → σ i < g.faces.length)
    (hσinj : ∀ i j, i < (facesOf mesh).length → j < (facesOf mesh).length → σ i = σ j → i = j)
    (hface : ∀ i (hi : i < (facesOf mesh).length), T_dec ms ((facesOf mesh)[i]) = T_exp ms (g.faces[σ i]'(hσlt i hi)))
    (hcover : ∀ j (hj : j < g.faces.length), nondegFace g (g.faces[j]) = true →
      ∃ i, i < (facesOf mesh).length ∧ σ i = j)
    (extra : Bytes) :
    ∃ st st',
      decodeGeometry {} { rest := enc.bytes ++ extra } = (some ⟨planGeometry {} mesh plan, md⟩, st) ∧ st.rest = extra ∧
      decodeGeometry { skip := allTypes } { rest := enc.bytes ++ extra } =
        (some ⟨planGeometry { skip := allTypes } mesh plan, md⟩, st') ∧ st'.rest = extra ∧
      Spec.checkCore .edgebreaker req g (planGeometry {} mesh plan) (planGeometry { skip := allTypes } mesh plan) = true := by
  subst hplan
  exact eb_roundtrip_conditional ch g md o enc henc hmd mesh sides hsides hconn _ rfl
    (planOK_of_setup ch g md o enc henc {} mesh sides hsides hatt hids hdec hvals)
    (planOK_of_setup ch g md o enc henc { skip := allTypes } mesh sides hsides hatt hids hdec hvals)
    req ms hlen huid hms σ hσlt hσinj hface hcover extra

end Draco.EbEnc
