import DracoProofs.EbFinal4
import DracoProofs.EbSeqSuccess
/-
  Removing `hseq` (success of the decoder's sequencer and of `UpdatePointToAttributeIndexMapping`) for the geometries
  whose controllers are all depth-first controllers on the base table.

  * `pointToValueMap_success`: `UpdatePointToAttributeIndexMapping` succeeds when every corner step is well defined and
    every point is the point of a corner;
  * `sideOfDecoder_ok_base`: success of one decoder side from the encoder's run (`depthFirst_success_transfer`);
  * `sidesOfDecoder_ok_of_link`, `eb_roundtrip_of_link_base'`.
-/
namespace Draco.EbEnc
open Draco Draco.SeqEnc DecM
open Draco.Eb hiding iabs nextC prevC

namespace Final5
open PosAgreeP Tuples FaceCorr PlanSettingP Final2 Final3 Final4 EncCounts

/-! ### success of `UpdatePointToAttributeIndexMapping` -/

/-- the step of corner `k` is well defined -/
def StepOK (t : TView) (faces : Array Nat) (np : Nat) (v2d : Array Nat) (k : Nat) : Prop :=
  ∃ v e, k < faces.size ∧ t.vertex k = .ok v ∧ v ≠ inv ∧ v2d[v]? = some e ∧ faces[k]! < np ∧ e < np ∧ e ≠ inv

theorem step_success {t : TView} {faces : Array Nat} {np : Nat} {v2d : Array Nat} {k : Nat}
    (h : StepOK t faces np v2d k) (m : Array Nat) :
    ∃ e, e ≠ inv ∧ pointToValueStep t faces np v2d k m = .ok (m.setIfInBounds faces[k]! e) := by
  obtain ⟨v, e, hk, hv, hvi, he, hp, hen, hei⟩ := h
  refine ⟨e, hei, ?_⟩
  unfold pointToValueStep
  rw [rd_of_lt _ _ _ hk]
  simp only [bind, Except.bind, hv]
  have hvi' : (v == inv) = false := by simpa using hvi
  simp only [hvi', Bool.false_eq_true, if_false]
  rw [rd_some.mpr he]
  simp only []
  have hc : (decide (faces[k]! ≥ np) || decide (e ≥ np)) = false := by simp; omega
  simp [hc, pure, Except.pure]

theorem loop_success {t : TView} {faces : Array Nat} {np : Nat} {v2d : Array Nat} :
    ∀ (n c : Nat) (m : Array Nat), m.size = np → (∀ k, c ≤ k → k < c + n → StepOK t faces np v2d k) →
      ∃ m', pointToValueLoop t faces np v2d n c m = .ok m' ∧ m'.size = np ∧
        ∀ p, p < np → (m[p]! ≠ inv ∨ ∃ k, c ≤ k ∧ k < c + n ∧ faces[k]! = p) → m'[p]! ≠ inv := by
  intro n
  induction n with
  | zero =>
    intro c m hsz _
    refine ⟨m, rfl, hsz, ?_⟩
    intro p _ h
    rcases h with h | ⟨k, h1, h2, _⟩
    · exact h
    · omega
  | succ n ih =>
    intro c m hsz hst
    obtain ⟨e, hei, hstep⟩ := step_success (hst c (Nat.le_refl _) (by omega)) m
    obtain ⟨m', hl, hsz', hI⟩ := ih (c + 1) (m.setIfInBounds faces[c]! e) (by simpa using hsz)
      (fun k h1 h2 => hst k (by omega) (by omega))
    refine ⟨m', ?_, hsz', ?_⟩
    · simp only [pointToValueLoop, bind, Except.bind, hstep]
      exact hl
    · intro p hp h
      apply hI p hp
      have hget : ∀ q, (m.setIfInBounds q e)[p]! = if q = p then e else m[p]! := by
        intro q
        have hlt : p < m.size := by rw [hsz]; exact hp
        by_cases hqp : q = p
        · subst hqp; simp [hlt]
        · simp [hlt, hqp]
      rw [hget]
      by_cases hpc : faces[c]! = p
      · left; rw [if_pos hpc]; exact hei
      · rw [if_neg hpc]
        rcases h with h | ⟨k, h1, h2, h3⟩
        · exact Or.inl h
        · by_cases hkc : k = c
          · subst hkc; exact absurd h3 hpc
          · exact Or.inr ⟨k, by omega, by omega, h3⟩

/-- **success of `pointToValueMap`**: every corner step is well defined and every point is the point of a corner -/
theorem pointToValueMap_success {t : TView} {faces : Array Nat} {np : Nat} {v2d : Array Nat}
    (hst : ∀ k, k < 3 * t.numFaces → StepOK t faces np v2d k)
    (hcov : ∀ p, p < np → ∃ k, k < 3 * t.numFaces ∧ faces[k]! = p) :
    ∃ m, pointToValueMap t faces np v2d = .ok m := by
  obtain ⟨m', hl, hsz, hI⟩ := loop_success (3 * t.numFaces) 0 (Array.replicate np inv) (by simp)
    (fun k _ h => hst k (by omega))
  refine ⟨m', ?_⟩
  unfold pointToValueMap
  simp only [bind, Except.bind, hl]
  have hany : (m'.any fun x => x == inv) = false := by
    rw [Bool.eq_false_iff]
    intro h
    rw [Array.any_eq_true] at h
    obtain ⟨p, hp, hpv⟩ := h
    have hp' : p < np := by rw [← hsz]; exact hp
    obtain ⟨k, hk, hkp⟩ := hcov p hp'
    have := hI p hp' (Or.inr ⟨k, Nat.zero_le _, by omega, hkp⟩)
    apply this
    have : m'[p]! = m'[p] := by simp [hp]
    rw [this]
    simpa using hpv
  simp [hany, pure, Except.pure]

/-! ### success of one decoder side on the base table -/

/-- **the decoder-side facts the sequencer's success needs** (stage facts of `decodeConnectivity` / `assignPoints`):
    * `hNV` — the vertex count fits the index type; `hnp` — so does the point count;
    * `hfa` — `mesh.faces` has an entry for every corner; `hfp` — every entry is a point;
    * `hcov` — every point is the point of some corner (`assignPoints` creates points for corners only). -/
structure DecSeqOK (mesh : Mesh) : Prop where
  hNV : mesh.vc.size ≤ inv
  hnp : mesh.numPoints ≤ inv
  hfa : 3 * mesh.numFaces ≤ mesh.faces.size
  hfp : ∀ k, k < 3 * mesh.numFaces → mesh.faces[k]! < mesh.numPoints
  hcov : ∀ p, p < mesh.numPoints → ∃ k, k < 3 * mesh.numFaces ∧ mesh.faces[k]! = p

/-- the entries of a sequence on a view with `PointsRefineVertices` carry pairwise different points: there are at most
    as many entries as points -/
theorem entries_le_points {d e : TView} {φ ψ : Nat → Nat} (h : TVIso d e φ ψ) {facesD facesE : Array Nat}
    {fvD vvD fvE vvE : Array Bool} {outD outE : SeqOut}
    (hco : TravCore d e φ ψ facesD facesE fvD vvD outD fvE vvE outE)
    (href : PointsRefineVertices d facesD) (np : Nat) (hfp : ∀ k, k < 3 * d.numFaces → facesD[k]! < np) :
    outD.d2c.size ≤ np := by
  have hfits := h.fits
  let f : Nat → Nat := fun p => facesD[outD.d2c[p]!]!
  have hnd : ((List.range outD.d2c.size).map f).Nodup := by
    apply List.Nodup.map_on _ List.nodup_range
    intro p hp q hq hpq
    have hp' : p < outD.d2c.size := List.mem_range.mp hp
    have hq' : q < outD.d2c.size := List.mem_range.mp hq
    obtain ⟨hlp, _⟩ := hco.d2c p hp'
    obtain ⟨hlq, _⟩ := hco.d2c q hq'
    obtain ⟨vp, a1, _, _, _⟩ := h.vertex _ hlp
    obtain ⟨vq, b1, _, _, _⟩ := h.vertex _ hlq
    have ep : outD.d2c[p]! = outD.d2c[p] := by simp [hp']
    have eq : outD.d2c[q]! = outD.d2c[q] := by simp [hq']
    have hc2v := href _ _ hlp hlq (by simpa [f, ep, eq] using hpq)
    have g1 := vertex_get (by omega) a1
    have g2 := vertex_get (by omega) b1
    have hv : vp = vq := by rw [← g1, ← g2, hc2v]
    subst hv
    have s1 := (hco.seen p hp' vp a1).2.1
    have s2 := (hco.seen q hq' vp b1).2.1
    rw [s1] at s2
    exact Option.some.inj s2
  have := nodup_lt_length_le np _ hnd (by
    intro x hx
    obtain ⟨p, hp, rfl⟩ := List.mem_map.mp hx
    have hp' : p < outD.d2c.size := List.mem_range.mp hp
    have ep : outD.d2c[p]! = outD.d2c[p] := by simp [hp']
    show facesD[outD.d2c[p]!]! < np
    rw [ep]
    exact hfp _ (hco.d2c p hp').1)
  simpa using this

/-- **one decoder side succeeds**: a depth-first controller on the base table (single connectivity, or first attribute
    POSITION) -/
theorem sideOfDecoder_ok_base (ch : EbChoices) (g : Geometry) (md : Option GeometryMetadata) (o : EbOpts) (enc : Encoded)
    (henc : encodeEdgebreaker ch g md o = .ok enc) (mesh : Mesh)
    (hiso : CTIso enc.conn.ct enc.conn.processed mesh.numFaces mesh.c2v mesh.opp) (hD : DecBaseOK enc mesh)
    (hS : DecSeqOK mesh) (c : CtrlOut) (hc : c ∈ enc.couts.toList)
    (hcase : useSingleConnectivity o = true ∨
      ((g.atts.toArray[(enc.controllers[c.ctrl]!).attIds[0]!]!).attType == posType) = true)
    (hm0 : (enc.controllers[c.ctrl]!).traversalMethod = 0) :
    ∃ side, sideOfDecoder mesh (decOfController enc.conn (enc.controllers[c.ctrl]!)) = .ok side := by
  obtain ⟨hview, hpv⟩ := ctrl_base ch g md o enc henc c hc hcase
  obtain ⟨posFaces, acv, table, _, hcreate, hct, _⟩ := table_of_run ch g md o enc henc
  have hB := baseIso_of_link ch g md o enc henc mesh hiso hD
  have hg : Hedge (baseViewD mesh.numFaces mesh.c2v mesh.opp mesh.vc) := by
    have hB' := hB
    rw [hct] at hB'
    exact Hedge.of_iso_hedge hB' (hedge_ofTable hcreate)
  -- the encoder's run
  have hE : depthFirstOrder enc.conn.ct.view (flattenFaces g.faces).toArray enc.conn.processed
      (Array.replicate enc.conn.ct.view.numVertices inv) = .ok c.seq := by
    obtain ⟨mdBytes, coder, posFaces, acv, cs, couts, h1, h2, h3, h4, h5, h6, h7, h8, h9, h10, _⟩ :=
      (encodeEdgebreaker_stages ch g md o enc henc).stages
    have hchain := encodeControllers_chain ch o g enc.conn cs _ _ _ _ _ h8
    have hc' : c ∈ couts := by rw [h10] at hc; simpa using hc
    obtain ⟨e, p', _, hrun⟩ := chain_mem hchain c hc'
    obtain ⟨_, _, _, hseqE, _, _, _, hce⟩ := encodeController_spec ch o g enc.conn cs _ _ e p' c hrun
    rw [← hce, ← h9] at hseqE
    unfold sequenceOfController at hseqE
    simp only [hm0] at hseqE
    rw [hview] at hseqE
    simpa [predictionDegree_toNat] using hseqE
  -- the decoder's run
  set dec := decOfController enc.conn (enc.controllers[c.ctrl]!) with hdec
  have hmD : dec.traversalMethod = 0 := hm0
  set v2dSize := (if dec.attDataId < 0 then mesh.vc.size
    else max (mesh.atts[dec.attDataId.toNat]!).lm.size mesh.vc.size) with hv2def
  have hv2 : (baseViewD mesh.numFaces mesh.c2v mesh.opp mesh.vc).numVertices ≤ v2dSize := by
    show mesh.vc.size ≤ v2dSize
    rw [hv2def]
    split <;> omega
  obtain ⟨outD, hDrun⟩ := depthFirst_success_transfer (facesD := mesh.faces) hB hS.hNV hS.hfa enc.conn.processed _ v2dSize hv2
    hiso.faces.symm (fun i _ => (phi_three enc.conn.processed i).symm) c.seq hE
  have hseqD : sequenceOfDecoder mesh dec = .ok outD := by
    unfold sequenceOfDecoder
    simp only [hmD, viewOfDecoder_base mesh dec hpv]
    simpa [predictionDegree_toNat] using hDrun
  -- the point map
  obtain ⟨fvD, vvD, fvE, vvE, hco, hall, hj⟩ := depthFirst_sim hB enc.conn.processed _ v2dSize hiso.faces.symm
    (fun i _ => (phi_three enc.conn.processed i).symm) outD c.seq hDrun hE
  have hent := entries_le_points hB hco hD.refines mesh.numPoints hS.hfp
  have hmap : ∃ m, pointToValueMap (baseViewD mesh.numFaces mesh.c2v mesh.opp mesh.vc) mesh.faces mesh.numPoints
      outD.v2d = .ok m := by
    apply pointToValueMap_success
    · intro k hk
      obtain ⟨v, a1, a2, _, _⟩ := hB.vertex k hk
      have hseen := hj hg k hk (hall (k / 3) (by
        have : (baseViewD mesh.numFaces mesh.c2v mesh.opp mesh.vc).numFaces = mesh.numFaces := rfl
        omega)) v a1
      obtain ⟨p, hp, hpv'⟩ := hco.vis v hseen
      have s2 := (hco.seen p hp v hpv').2.1
      have hnp := hS.hnp
      have hNV := hS.hNV
      have a2' : v < mesh.vc.size := a2
      exact ⟨v, p, by have := hS.hfa; have : (baseViewD mesh.numFaces mesh.c2v mesh.opp mesh.vc).numFaces = mesh.numFaces := rfl; omega,
        a1, by omega, s2, hS.hfp k hk, by omega, by omega⟩
    · exact hS.hcov
  obtain ⟨m, hm⟩ := hmap
  refine ⟨(outD, m), ?_⟩
  unfold sideOfDecoder
  simp only [bind, Except.bind, hseqD, viewOfDecoder_base mesh dec hpv, hm]
  rfl

/-! ### all sides, and the round trip without `hseq` -/

theorem sidesOfDecoder_ok (mesh : Mesh) (conn : ConnEnc) (cs : Array Controller) : ∀ (couts : List CtrlOut),
    (∀ c ∈ couts, ∃ side, sideOfDecoder mesh (decOfController conn (cs[c.ctrl]!)) = .ok side) →
    ∃ sides, sidesOfDecoder mesh conn cs couts = .ok sides := by
  intro couts
  induction couts with
  | nil => intro _; exact ⟨[], rfl⟩
  | cons c couts ih =>
    intro h
    obtain ⟨side, hs⟩ := h c (by simp)
    obtain ⟨rest, hr⟩ := ih (fun c' hc' => h c' (by simp [hc']))
    refine ⟨side :: rest, ?_⟩
    simp only [sidesOfDecoder, bind, Except.bind, hs, hr]
    rfl

/-- **`hseq` from the link** for the geometries whose controllers are all depth-first controllers on the base table
    (`hclass`: single connectivity or first attribute POSITION, and `traversalMethod = 0`) -/
theorem sidesOfDecoder_ok_of_link (ch : EbChoices) (g : Geometry) (md : Option GeometryMetadata) (o : EbOpts)
    (enc : Encoded) (henc : encodeEdgebreaker ch g md o = .ok enc) (mesh : Mesh)
    (hiso : CTIso enc.conn.ct enc.conn.processed mesh.numFaces mesh.c2v mesh.opp) (hD : DecBaseOK enc mesh)
    (hS : DecSeqOK mesh)
    (hclass : ∀ c ∈ enc.couts.toList, (useSingleConnectivity o = true ∨
      ((g.atts.toArray[(enc.controllers[c.ctrl]!).attIds[0]!]!).attType == posType) = true) ∧
      (enc.controllers[c.ctrl]!).traversalMethod = 0) :
    ∃ sides, sidesOfDecoder mesh enc.conn enc.controllers enc.couts.toList = .ok sides :=
  sidesOfDecoder_ok mesh enc.conn enc.controllers _ (fun c hc =>
    sideOfDecoder_ok_base ch g md o enc henc mesh hiso hD hS c hc (hclass c hc).1 (hclass c hc).2)

/-- **eb_roundtrip_of_link_base'**: `eb_roundtrip_of_link_base` without `hseq`, for the class `hclass`; the sides are the
    ones the decoder's sequencer computes (they exist: `sidesOfDecoder_ok_of_link`), so `hvals` / `hrest` are stated for
    every `sides` with `sidesOfDecoder … = .ok sides`. -/
theorem eb_roundtrip_of_link_base' (ch : EbChoices) (g : Geometry) (md : Option GeometryMetadata) (o : EbOpts)
    (enc : Encoded) (henc : encodeEdgebreaker ch g md o = .ok enc) (hmd : ∀ m, md = some m → m.WF')
    (hatt : ∀ a, a < g.atts.toArray.size → EbAttOK (g.atts.toArray[a]!) (o.base.att a))
    (huid : (g.atts.map (·.uniqueId)).Nodup) (hn128 : g.atts.length ≤ 128)
    (hbytes : ∀ a ∈ g.atts, IsBytes a.values) (hgv : g.valid = true)
    (mesh : Mesh)
    (hconn : ∀ coder, traversalCoder o g.faces.length = some coder →
      Runs decodeConnectivity 514 ([coder] ++ enc.conn.bytes) mesh 514)
    (hiso : CTIso enc.conn.ct enc.conn.processed mesh.numFaces mesh.c2v mesh.opp)
    (hmatts : mesh.atts.size = enc.conn.atts.size)
    (hD : DecBaseOK enc mesh) (hS : DecSeqOK mesh)
    (hclass : ∀ c ∈ enc.couts.toList, (useSingleConnectivity o = true ∨
      ((g.atts.toArray[(enc.controllers[c.ctrl]!).attIds[0]!]!).attType == posType) = true) ∧
      (enc.controllers[c.ctrl]!).traversalMethod = 0)
    (hvals : ∀ sides, sidesOfDecoder mesh enc.conn enc.controllers enc.couts.toList = .ok sides → ∀ (i k : Nat)
      (hi : i < (planOf o g.atts.toArray enc.conn enc.controllers enc.couts.toList sides).length)
      (hk : k < (planOf o g.atts.toArray enc.conn enc.controllers enc.couts.toList sides)[i].items.length),
      ValuesOK mesh (planOf o g.atts.toArray enc.conn enc.controllers enc.couts.toList sides)[i]
        (parentAt (planOf o g.atts.toArray enc.conn enc.controllers enc.couts.toList sides) i k)
        (planOf o g.atts.toArray enc.conn enc.controllers enc.couts.toList sides)[i].items[k])
    (hrest : ∀ sides, sidesOfDecoder mesh enc.conn enc.controllers enc.couts.toList = .ok sides →
      ∀ c side it, (c, side) ∈ enc.couts.toList.zip sides → it ∈ c.items.toList →
      ¬ (useSingleConnectivity o = true ∨
        (((g.atts.toArray[(enc.controllers[c.ctrl]!).attIds[0]!]!).attType == posType) = true ∧
         ((g.atts.toArray[it.attId]!).attType == posType) = true)) →
      ∃ (dC : TView) (ψC : Nat → Nat) (np npD : Nat), dC.numFaces = mesh.numFaces ∧
        TupleSetup (g.atts.toArray[it.attId]!) np (flattenFaces g.faces).toArray mesh.faces npD dC c.view
          (phi enc.conn.processed) ψC side.1 c.seq side.2)
    (extra : Bytes) :
    ∃ sides, sidesOfDecoder mesh enc.conn enc.controllers enc.couts.toList = .ok sides ∧ ∃ st st',
      decodeGeometry {} { rest := enc.bytes ++ extra } =
        (some ⟨planGeometry {} mesh (planOf o g.atts.toArray enc.conn enc.controllers enc.couts.toList sides), md⟩, st) ∧
      st.rest = extra ∧
      decodeGeometry { skip := allTypes } { rest := enc.bytes ++ extra } =
        (some ⟨planGeometry { skip := allTypes } mesh
          (planOf o g.atts.toArray enc.conn enc.controllers enc.couts.toList sides), md⟩, st') ∧
      st'.rest = extra ∧
      Spec.checkCore .edgebreaker (quantReq g o.base) g
        (planGeometry {} mesh (planOf o g.atts.toArray enc.conn enc.controllers enc.couts.toList sides))
        (planGeometry { skip := allTypes } mesh
          (planOf o g.atts.toArray enc.conn enc.controllers enc.couts.toList sides)) = true := by
  obtain ⟨sides, hseq⟩ := sidesOfDecoder_ok_of_link ch g md o enc henc mesh hiso hD hS hclass
  exact ⟨sides, hseq, eb_roundtrip_of_link_base ch g md o enc henc hmd hatt huid hn128 hbytes hgv mesh hconn hiso hmatts
    hD sides hseq (hvals sides hseq) (hrest sides hseq) extra⟩

/-! ### the one-triangle example from `eb_roundtrip_of_link_base'` (no `hseq`, no `hrows`) -/

open ConnExample in
example (extra : Bytes) :
    ∃ st st',
      decodeGeometry {} { rest := exBytes ++ extra } = (some ⟨planGeometry {} exMesh exPlan, none⟩, st) ∧ st.rest = extra ∧
      decodeGeometry { skip := allTypes } { rest := exBytes ++ extra } =
        (some ⟨planGeometry { skip := allTypes } exMesh exPlan, none⟩, st') ∧ st'.rest = extra ∧
      Spec.checkCore .edgebreaker (quantReq exG exO.base) exG (planGeometry {} exMesh exPlan)
        (planGeometry { skip := allTypes } exMesh exPlan) = true := by
  have hiso : CTIso exEnc.conn.ct exEnc.conn.processed exMesh.numFaces exMesh.c2v exMesh.opp :=
    ctIso_sound _ _ _ _ _ (by decide +kernel) (by decide +kernel) (by decide +kernel) exIso
  have hseq0 : sidesOfDecoder exMesh exEnc.conn exEnc.controllers exEnc.couts.toList = .ok exSides := by
    have h : (match sidesOfDecoder exMesh exEnc.conn exEnc.controllers exEnc.couts.toList with
        | .ok s => decide (s = exSides) | .error _ => false) = true := by
      decide +kernel
    split at h
    · rename_i s hs; rw [hs, of_decide_eq_true h]
    · exact absurd h (by decide)
  have hsides : ∀ sides, sidesOfDecoder exMesh exEnc.conn exEnc.controllers exEnc.couts.toList = .ok sides →
      sides = exSides := by
    intro sides h
    rw [hseq0] at h
    exact (Except.ok.inj h).symm
  have hD : DecBaseOK exEnc exMesh :=
    { hdv := by decide +kernel
      hbd := by
        intro d hd
        have h3 : d < 3 := by
          have : exMesh.numFaces = 1 := by decide +kernel
          omega
        have : d = 0 ∨ d = 1 ∨ d = 2 := by omega
        rcases this with rfl | rfl | rfl <;> exact ⟨true, by decide +kernel, by decide +kernel⟩
      refines := by
        intro c c' hc hc'
        have hn : (baseViewD exMesh.numFaces exMesh.c2v exMesh.opp exMesh.vc).numFaces = 1 := by decide +kernel
        rw [hn] at hc hc'
        have h1 : c = 0 ∨ c = 1 ∨ c = 2 := by omega
        have h2 : c' = 0 ∨ c' = 1 ∨ c' = 2 := by omega
        rcases h1 with rfl | rfl | rfl <;> rcases h2 with rfl | rfl | rfl <;> decide +kernel }
  have hS : DecSeqOK exMesh :=
    { hNV := by decide +kernel, hnp := by decide +kernel, hfa := by decide +kernel, hfp := by decide +kernel,
      hcov := by decide +kernel }
  have hbytes : ∀ a ∈ exG.atts, IsBytes a.values := by
    have hb : (exG.atts.all fun a => a.values.all fun b => decide (b < 256)) = true := by decide +kernel
    intro a ha b hb'
    have h1 := List.all_eq_true.mp hb a ha
    have h2 := List.all_eq_true.mp h1 b hb'
    simpa using h2
  have hall : (exEnc.couts.toList.all fun c => c.items.toList.all fun it =>
      ((exG.atts.toArray[(exEnc.controllers[c.ctrl]!).attIds[0]!]!).attType == posType) &&
      ((exG.atts.toArray[it.attId]!).attType == posType)) = true := by decide +kernel
  have hcl : (exEnc.couts.toList.all fun c =>
      ((exG.atts.toArray[(exEnc.controllers[c.ctrl]!).attIds[0]!]!).attType == posType) &&
      ((exEnc.controllers[c.ctrl]!).traversalMethod == 0)) = true := by decide +kernel
  obtain ⟨sides, hs, h⟩ := eb_roundtrip_of_link_base' exCh exG none exO exEnc exEncode (fun m h => by cases h) exHatt
    exHuid (by decide +kernel) hbytes (by decide +kernel) exMesh exHconn hiso (by decide +kernel) hD hS
    (by
      intro c hc
      have := List.all_eq_true.mp hcl c hc
      simp only [Bool.and_eq_true, beq_iff_eq] at this
      exact ⟨Or.inr (by simpa using this.1), this.2⟩)
    (by
      intro sides hs
      rw [hsides sides hs]
      exact exHvals)
    (by
      intro sides hs c side it hz hit hn
      exfalso
      apply hn
      right
      have hc := (List.of_mem_zip hz).1
      have h1 := List.all_eq_true.mp hall c hc
      have h2 := List.all_eq_true.mp h1 it hit
      simpa using h2) extra
  rw [hsides sides hs, exEnc_bytes] at h
  exact h

end Final5

end Draco.EbEnc
