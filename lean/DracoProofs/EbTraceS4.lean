import DracoProofs.EbTraceS3
import DracoProofs.EbStkInv
import DracoProofs.EbEncTraceS
import DracoProofs.EbCTIsoComplete
/-
  `ctIso_StS_closed`: `ctIso_StS` (DracoProofs/EbTraceS3.lean) with its two parameters discharged by DracoProofs/EbStkInv.lean
  (`stkInv_step`, `cornerA_of_stk_ev`): the PURE decoder `StS` on an abstract trace `TraceS` without interior start faces
  produces a table isomorphic to the encoder's (`CTIso`), before the compaction.
-/
namespace Draco.EbEnc.DecSim
open Draco Draco.EbEnc
open Draco.Eb (inv TopoSplit)
open Draco.EbEnc.Coverage (TblOK)

/-- **the pure simulation theorem with `S` and topology split events** (no interior start face, before the compaction) -/
theorem ctIso_StS_closed {t : CT} {P : Array Nat} {syms : List Nat} {evs : List TopoSplit} {starts : List (Bool × Nat)}
    (hT : TblOK t) (hTr : TraceS t P syms evs starts) (hn : P.size = syms.length) (maxV : Nat)
    (hcov : ∀ d, d < 3 * P.size → ∃ k, iter (AttViews.sRP t.opp) k t.vc[t.c2v[phi P d]!]! = phi P d)
    (hvlt : ∀ d, d < 3 * P.size → t.c2v[phi P d]! < t.numVertices) :
    CTIso t P P.size (StS syms evs P.size maxV syms.length).c2v (StS syms evs P.size maxV syms.length).opp := by
  have hC := hTr.ctx hT
  have hfit : 3 * syms.length ≤ inv := by rw [← hn]; exact hC.fits'
  refine ctIso_StS hT hTr hn maxV ?_ ?_ hcov hvlt
  · intro j hj hI
    exact stkInv_step hTr.evok (stkOK_of_traceAtS (hTr.face j hj)) hfit hI hj
  · intro j hj hs hev hI
    obtain ⟨_, _, _, hA⟩ := (hTr.face j hj).2 hs
    obtain ⟨a, he, h1, h2, h3⟩ := cornerA_of_stk_ev hI hA hj hfit hev
    unfold cornerAS
    rw [he]
    exact ⟨h1, h2, h3⟩

/-- … and the executable checker accepts the pair of tables -/
theorem ctIso_StS_closed_check {t : CT} {P : Array Nat} {syms : List Nat} {evs : List TopoSplit}
    {starts : List (Bool × Nat)} (hT : TblOK t) (hTr : TraceS t P syms evs starts) (hn : P.size = syms.length)
    (maxV : Nat)
    (hcov : ∀ d, d < 3 * P.size → ∃ k, iter (AttViews.sRP t.opp) k t.vc[t.c2v[phi P d]!]! = phi P d)
    (hvlt : ∀ d, d < 3 * P.size → t.c2v[phi P d]! < t.numVertices) :
    ctIso t P P.size (StS syms evs P.size maxV syms.length).c2v (StS syms evs P.size maxV syms.length).opp = true :=
  CTIsoComplete.ctIso_complete (ctIso_StS_closed hT hTr hn maxV hcov hvlt)

/-! ## instance: the annulus (3×3 grid of quads minus the middle one): the model's own run, ONE genuine split event -/

open Draco.EbEnc.ConnExample in
def annulusFaces : Faces :=
  #[(0, 1, 5), (0, 5, 4), (1, 2, 6), (1, 6, 5), (2, 3, 7), (2, 7, 6), (4, 5, 9), (4, 9, 8), (6, 7, 11), (6, 11, 10), (8, 9, 13), (8, 13, 12), (9, 10, 14), (9, 14, 13), (10, 11, 15), (10, 15, 14)]

open Draco.EbEnc.ConnExample in
def annConn : ConnEnc :=
  match encodeConnectivity exCh.conn false annulusFaces #[] with
  | .ok c => c
  | .error _ => default

open Draco.EbEnc.ConnExample in
theorem annEncode : encodeConnectivity exCh.conn false annulusFaces #[] = .ok annConn := by
  have h : (match encodeConnectivity exCh.conn false annulusFaces #[] with | .ok _ => true | .error _ => false) = true := by
    decide +kernel
  unfold annConn
  split at h
  · rename_i e he; rw [he]
  · exact absurd h (by decide)

/-- the abstract trace of the model's run on the annulus, by kernel evaluation -/
theorem annTrace : TraceS annConn.ct annConn.processed annConn.symbols.toList.reverse annConn.splits.toList.reverse
    [(false, 15)] := by decide +kernel

open Draco.EbEnc.ConnExample in
/-- **the pure simulation theorem on the model's own run with a genuine topology split event**: the encoder's run on the
    annulus emits one split event, and the pure decoder `StS` on its symbols and events rebuilds a table isomorphic to the
    encoder's -/
theorem annulusPure : annConn.splits.size = 1 ∧
    CTIso annConn.ct annConn.processed annConn.processed.size
      (StS annConn.symbols.toList.reverse annConn.splits.toList.reverse annConn.processed.size 19
        annConn.symbols.toList.reverse.length).c2v
      (StS annConn.symbols.toList.reverse annConn.splits.toList.reverse annConn.processed.size 19
        annConn.symbols.toList.reverse.length).opp := by
  refine ⟨by decide +kernel, ?_⟩
  have hT := (EncTraceS.traceS_base_of_run exCh.conn annulusFaces annConn annEncode).1
  obtain ⟨hcov, hvlt⟩ := EncTrace.cover_of_run exCh.conn false annulusFaces #[] annConn annEncode
  exact ctIso_StS_closed hT annTrace (by decide +kernel) 19 hcov hvlt

end Draco.EbEnc.DecSim
