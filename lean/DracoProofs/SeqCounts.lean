import DracoModel.SeqDecoder
import DracoModel.EbCounts
import DracoProofs.SeqStream
import DracoProofs.Scalar
/-
  Helper lemmas for C09 part 1 (sequential decoders):
    * `Post`  — partial-correctness postconditions of `DecM` programs (inversion),
    * `Post2` — two runs of two programs from the same state,
    * `Runs`  — a program succeeds on a state whose input starts with given bytes,
    * the postcondition of `decodeGeometrySeq` (transferred to `decodeGeometry` on sequential
      streams by `decodeGeometry_eq_seq`), and the run of `decodeSeqConnectivity` on the
      output of `encodeSeqConnectivityRaw`.
-/
namespace Draco.Counts
open Draco.DecM

/-! ### postconditions -/

/-- every successful run of `m` returns a value satisfying `P` -/
def Post {α} (m : DecM α) (P : α → Prop) : Prop := ∀ s a s', m s = (some a, s') → P a

theorem Post.bind {α β} {m : DecM α} {f : α → DecM β} {Q : α → Prop} {P : β → Prop}
    (hm : Post m Q) (hf : ∀ a, Q a → Post (f a) P) : Post (m.andThen f) P := by
  intro s b s' h
  unfold DecM.andThen at h
  cases hms : m s with
  | mk o s1 =>
    rw [hms] at h
    cases o with
    | none => simp at h
    | some a => exact hf a (hm s a s1 hms) s1 b s' h

theorem Post.mono {α} {m : DecM α} {Q P : α → Prop} (h : Post m Q) (hq : ∀ a, Q a → P a) :
    Post m P :=
  fun s a s' e => hq a (h s a s' e)

theorem Post.bind_any {α β} {m : DecM α} {f : α → DecM β} {P : β → Prop}
    (hf : ∀ a, Post (f a) P) : Post (m.andThen f) P :=
  Post.bind (Q := fun _ => True) (fun _ _ _ _ => trivial) (fun a _ => hf a)

theorem Post.ret {α} {a : α} {P : α → Prop} (h : P a) : Post (DecM.ret a) P := by
  intro s b s' e
  simp only [DecM.ret, Prod.mk.injEq, Option.some.injEq] at e
  rw [← e.1]; exact h

theorem Post.fail {α} {P : α → Prop} : Post (DecM.fail : DecM α) P := by
  intro s b s' e
  simp [DecM.fail] at e

theorem Post.failWith {α} {P : α → Prop} (st : Status) : Post (DecM.failWith st : DecM α) P := by
  intro s b s' e
  simp [DecM.failWith] at e

theorem Post.ite {α} {c : Prop} [Decidable c] {m1 m2 : DecM α} {P : α → Prop}
    (h1 : c → Post m1 P) (h2 : ¬ c → Post m2 P) : Post (if c then m1 else m2) P := by
  by_cases hc : c
  · rw [if_pos hc]; exact h1 hc
  · rw [if_neg hc]; exact h2 hc

theorem Post.require (c : Bool) : Post (DecM.require c) (fun _ => c = true) := by
  cases c with
  | false => intro s b s' e; simp [DecM.require, DecM.fail] at e
  | true => intro _ _ _ _; rfl

theorem Post.mapM' {α β} {f : α → DecM β} {P : β → Prop} (hf : ∀ a, Post (f a) P) :
    ∀ l : List α, Post (DecM.mapM' f l) (fun r => (∀ x ∈ r, P x) ∧ r.length = l.length) := by
  intro l
  induction l with
  | nil =>
    unfold DecM.mapM'
    exact Post.ret ⟨by simp, rfl⟩
  | cons a as ih =>
    unfold DecM.mapM'
    simp only [pure]
    refine Post.bind (hf a) (fun b hb => ?_)
    refine Post.bind ih (fun bs hbs => ?_)
    refine Post.ret ⟨?_, by simp [hbs.2]⟩
    intro x hx
    rcases List.mem_cons.1 hx with e | e
    · rw [e]; exact hb
    · exact hbs.1 x e

/-! ### two programs run from the same state -/

/-- whenever `m1` and `m2` both succeed from the same state their results are related by `R` -/
def Post2 {α β} (m1 : DecM α) (m2 : DecM β) (R : α → β → Prop) : Prop :=
  ∀ s a s1 b s2, m1 s = (some a, s1) → m2 s = (some b, s2) → R a b

theorem Post2.bind_same {α β γ} {m : DecM α} {f : α → DecM β} {g : α → DecM γ}
    {R : β → γ → Prop} (h : ∀ a, Post2 (f a) (g a) R) :
    Post2 (m.andThen f) (m.andThen g) R := by
  intro s b s1 c s2 e1 e2
  unfold DecM.andThen at e1 e2
  cases hms : m s with
  | mk o t =>
    rw [hms] at e1 e2
    cases o with
    | none => simp at e1
    | some a => exact h a t b s1 c s2 e1 e2

theorem Post2.ite_same {α β} {c : Prop} [Decidable c] {m1 m2 : DecM α} {n1 n2 : DecM β}
    {R : α → β → Prop} (h1 : c → Post2 m1 n1 R) (h2 : ¬ c → Post2 m2 n2 R) :
    Post2 (if c then m1 else m2) (if c then n1 else n2) R := by
  by_cases hc : c
  · rw [if_pos hc, if_pos hc]; exact h1 hc
  · rw [if_neg hc, if_neg hc]; exact h2 hc

theorem Post2.of_post {α β} {m1 : DecM α} {m2 : DecM β} {P : α → Prop} {Q : β → Prop}
    {R : α → β → Prop} (h1 : Post m1 P) (h2 : Post m2 Q) (h : ∀ a b, P a → Q b → R a b) :
    Post2 m1 m2 R :=
  fun s a s1 b s2 e1 e2 => h a b (h1 s a s1 e1) (h2 s b s2 e2)

/-! ### successful runs on a given input prefix -/

/-- `m` succeeds from `s` with result `a`, leaves input `r` and keeps the bitstream version -/
def Runs {α} (m : DecM α) (s : DSt) (a : α) (r : Bytes) : Prop :=
  ∃ s', m s = (some a, s') ∧ s'.rest = r ∧ s'.version = s.version

theorem Runs.bind {α β} {m : DecM α} {f : α → DecM β} {s : DSt} {a : α} {r : Bytes} {b : β}
    {r' : Bytes} (hm : Runs m s a r)
    (hf : ∀ s1, s1.rest = r → s1.version = s.version → Runs (f a) s1 b r') :
    Runs (m.andThen f) s b r' := by
  obtain ⟨s1, e, hr, hv⟩ := hm
  obtain ⟨s2, e2, hr2, hv2⟩ := hf s1 hr hv
  refine ⟨s2, ?_, hr2, hv2.trans hv⟩
  unfold DecM.andThen
  rw [e]
  exact e2

theorem Runs.lift {α} {r : Rd α} {s : DSt} {a : α} {rest : Bytes}
    (h : r s.rest = some (a, rest)) : Runs (DecM.lift r) s a rest := by
  refine ⟨{ s with rest := rest }, ?_, rfl, rfl⟩
  unfold DecM.lift
  rw [h]

theorem Runs.ret {α} (a : α) (s : DSt) : Runs (DecM.ret a) s a s.rest := ⟨s, rfl, rfl, rfl⟩
theorem Runs.version (s : DSt) : Runs DecM.version s s.version s.rest := ⟨s, rfl, rfl, rfl⟩
theorem Runs.remaining (s : DSt) : Runs DecM.remaining s s.rest.length s.rest := ⟨s, rfl, rfl, rfl⟩
theorem Runs.declare (n : Nat) (s : DSt) : Runs (DecM.declare n) s () s.rest := ⟨_, rfl, rfl, rfl⟩
theorem Runs.alloc (site : String) (n : Nat) (s : DSt) : Runs (DecM.alloc site n) s () s.rest :=
  ⟨_, rfl, rfl, rfl⟩
theorem Runs.require {c : Bool} (h : c = true) (s : DSt) : Runs (DecM.require c) s () s.rest := by
  subst h; exact ⟨s, rfl, rfl, rfl⟩

theorem Runs.varint32 {s : DSt} {v : Nat} {r : Bytes} (h : s.rest = encVarint v ++ r)
    (hv : v < 2^32) : Runs (DecM.varint 32) s v r :=
  Runs.lift (by rw [h]; exact decVarint_enc (by simp) v hv r)

theorem Runs.rdU8 {s : DSt} {v : Nat} {r : Bytes} (h : s.rest = v :: r) : Runs DecM.rdU8 s v r :=
  Runs.lift (by rw [h]; rfl)

theorem Runs.rdLE {s : DSt} {n v : Nat} {r : Bytes} (h : s.rest = writeLE n v ++ r)
    (hv : v < 256^n) : Runs (DecM.lift (readLE n)) s v r :=
  Runs.lift (by rw [h, readLE_writeLE, Nat.mod_eq_of_lt hv])

theorem Runs.replicate_zero {α} (f : DecM α) (s : DSt) :
    Runs (DecM.replicateM' 0 f) s [] s.rest := ⟨s, rfl, rfl, rfl⟩

theorem Runs.replicate_succ {α} {f : DecM α} {n : Nat} {s : DSt} {a : α} {as : List α}
    {r r' : Bytes} (h : Runs f s a r)
    (ht : ∀ s1, s1.rest = r → s1.version = s.version → Runs (DecM.replicateM' n f) s1 as r') :
    Runs (DecM.replicateM' (n + 1) f) s (a :: as) r' := by
  unfold DecM.replicateM'
  rw [List.replicate_succ]
  unfold DecM.mapM'
  simp only [pure]
  refine Runs.bind h (fun s1 h1 v1 => ?_)
  refine Runs.bind (ht s1 h1 v1) (fun s2 h2 _ => ?_)
  exact ⟨s2, rfl, h2, rfl⟩

/-! ### `triples` and flattened faces -/

def flatFaces : List (Nat × Nat × Nat) → List Nat
  | [] => []
  | (a, b, c) :: fs => a :: b :: c :: flatFaces fs

theorem triples_flatFaces : ∀ fs, triples (flatFaces fs) = fs
  | [] => rfl
  | (a, b, c) :: fs => by simp [flatFaces, triples, triples_flatFaces fs]

/-- faces referring to existing points -/
def FacesBelow (np : Nat) (fs : List (Nat × Nat × Nat)) : Prop :=
  ∀ f ∈ fs, f.1 < np ∧ f.2.1 < np ∧ f.2.2 < np

theorem flatFaces_all (np : Nat) : ∀ fs, FacesBelow np fs →
    (flatFaces fs).all (fun x => decide (x < np)) = true
  | [], _ => rfl
  | (a, b, c) :: fs, h => by
    have h0 := h (a, b, c) (by simp)
    have ih := flatFaces_all np fs (fun f hf => h f (by simp [hf]))
    simp only [flatFaces, List.all_cons, ih, Bool.and_true, Bool.and_eq_true, decide_eq_true_eq]
    exact h0

theorem triples_below (np : Nat) : ∀ (n : Nat) (l : List Nat), l.length ≤ n →
    l.all (fun x => decide (x < np)) = true → FacesBelow np (triples l) := by
  intro n
  induction n using Nat.strongRecOn with
  | _ n ih =>
    intro l hl h
    match l, hl, h with
    | [], _, _ => intro f hf; simp [triples] at hf
    | [_], _, _ => intro f hf; simp [triples] at hf
    | [_, _], _, _ => intro f hf; simp [triples] at hf
    | a :: b :: c :: rest, hl, h =>
      simp only [List.all_cons, Bool.and_eq_true, decide_eq_true_eq] at h
      have := ih (n - 3) (by simp at hl; omega) rest (by simp at hl; omega) h.2.2.2
      intro f hf
      simp only [triples, List.mem_cons] at hf
      rcases hf with e | e
      · rw [e]; exact ⟨h.1, h.2.1, h.2.2.1⟩
      · exact this f e

/-! ### postcondition of the sequential decoders -/

theorem decodeSeqConnectivity_post :
    Post decodeSeqConnectivity (fun r => FacesBelow r.1 r.2) := by
  unfold decodeSeqConnectivity
  simp only [bind, pure]
  repeat' first
    | exact Post.bind (Post.require _) (fun _ h => Post.ret (triples_below _ _ _ (Nat.le_refl _) h))
    | apply Post.ite <;> intro _
    | apply Post.bind_any; intro _

/-- every attribute built by `decodeSequentialAttributes` has one value per point -/
def AttPerPoint (np : Nat) (a : Attribute) : Prop := a.numValues = np ∧ a.map = none

theorem toAttribute_perPoint (d : AttDesc) (np : Nat) (v : Bytes) :
    AttPerPoint np (d.toAttribute np v) := ⟨rfl, rfl⟩

theorem decodeSequentialAttributes_post (opts : DecOpts) (np : Nat) :
    Post (decodeSequentialAttributes opts np) (fun r => ∀ a ∈ r, AttPerPoint np a) := by
  unfold decodeSequentialAttributes
  simp only [bind, pure]
  iterate 7 (apply Post.bind_any; intro _)
  refine Post.mono (Post.mapM' ?_ _) (fun a h => h.1)
  intro st
  repeat' first
    | exact Post.ret ⟨rfl, rfl⟩
    | exact Post.fail
    | apply Post.ite <;> intro _
    | split
    | apply Post.bind_any; intro _

theorem decodePointAttributesSeq_post (opts : DecOpts) (np : Nat) :
    Post (decodePointAttributesSeq opts np) (fun r => ∀ a ∈ r, AttPerPoint np a) := by
  unfold decodePointAttributesSeq
  simp only [bind, pure]
  apply Post.bind_any; intro n
  apply Post.ite <;> intro _
  · exact Post.ret (by simp)
  · apply Post.ite <;> intro _
    · exact decodeSequentialAttributes_post opts np
    · exact Post.failWith _

/-- what C09 needs of a decoded geometry: one attribute value per point (identity mapping),
    faces refer to existing points, point clouds have no faces -/
def SeqCountsOK (g : Geometry) : Prop :=
  (∀ a ∈ g.atts, a.numValues = g.numPoints ∧ a.map = none) ∧
  FacesBelow g.numPoints g.faces ∧ (g.isMesh = false → g.faces = [])

theorem decodeGeometrySeq_post (opts : DecOpts) :
    Post (decodeGeometrySeq opts) (fun r => SeqCountsOK r.geometry) := by
  unfold decodeGeometrySeq decodeStreamWith
  simp only [bind, pure]
  repeat' first
    | exact Post.failWith _
    | exact Post.bind (Q := fun _ => False) (Post.failWith _) (fun _ h => h.elim)
    | exact Post.bind decodeSeqConnectivity_post (fun x hx =>
        Post.bind (decodePointAttributesSeq_post opts _) (fun atts ha =>
          Post.ret ⟨ha, hx, by simp⟩))
    | exact Post.bind_any (fun np => Post.bind_any (fun _ =>
        Post.bind (decodePointAttributesSeq_post opts _) (fun atts ha =>
          Post.ret ⟨ha, by intro f hf; simp at hf, fun _ => rfl⟩)))
    | apply Post.ite <;> intro _
    | apply Post.bind_any; intro _

theorem facesBelow_all (np : Nat) : ∀ fs, FacesBelow np fs →
    fs.all (fun (a, b, c) => decide (a < np) && decide (b < np) && decide (c < np)) = true
  | [], _ => rfl
  | (a, b, c) :: fs, h => by
    have h0 := h (a, b, c) (by simp)
    have ih := facesBelow_all np fs (fun f hf => h f (by simp [hf]))
    simp only [List.all_cons, ih, Bool.and_true, Bool.and_eq_true, decide_eq_true_eq]
    exact ⟨⟨h0.1, h0.2.1⟩, h0.2.2⟩

theorem Post2.tail {α β γ δ} {m1 : DecM α} {m2 : DecM β} {F : α → γ} {G : β → δ}
    {Q : α → β → Prop} {R : γ → δ → Prop} (hm : Post2 m1 m2 Q)
    (h : ∀ a b, Q a b → R (F a) (G b)) :
    Post2 (m1.andThen fun a => DecM.ret (F a)) (m2.andThen fun b => DecM.ret (G b)) R := by
  intro s c s1 d s2 e1 e2
  unfold DecM.andThen at e1 e2
  cases h1 : m1 s with
  | mk o1 t1 =>
    cases h2 : m2 s with
    | mk o2 t2 =>
      rw [h1] at e1; rw [h2] at e2
      cases o1 with
      | none => simp at e1
      | some a =>
        cases o2 with
        | none => simp at e2
        | some b =>
          simp only [DecM.ret, Prod.mk.injEq, Option.some.injEq] at e1 e2
          rw [← e1.1, ← e2.1]
          exact h a b (hm s a t1 b t2 h1 h2)

theorem Post2.failWith_bind {α β γ} {R : γ → β → Prop} (st : Status) (f : α → DecM γ)
    (m2 : DecM β) : Post2 ((DecM.failWith st : DecM α).andThen f) m2 R := by
  intro s a s1 b s2 e1 _
  simp [DecM.andThen, DecM.failWith] at e1

theorem Post2.failWith {α β} {R : α → β → Prop} (st : Status) (m2 : DecM β) :
    Post2 (DecM.failWith st : DecM α) m2 R := by
  intro s a s1 b s2 e1 _
  simp [DecM.failWith] at e1

theorem decodeSequentialAttributes_length (o1 o2 : DecOpts) (np : Nat) :
    Post2 (decodeSequentialAttributes o1 np) (decodeSequentialAttributes o2 np)
      (fun r1 r2 => r1.length = r2.length) := by
  unfold decodeSequentialAttributes
  simp only [bind, pure]
  iterate 7 (apply Post2.bind_same; intro _)
  exact Post2.of_post (Post.mapM' (P := fun _ => True) (fun _ _ _ _ _ => trivial) _)
    (Post.mapM' (P := fun _ => True) (fun _ _ _ _ _ => trivial) _)
    (fun a b ha hb => ha.2.trans hb.2.symm)

theorem decodePointAttributesSeq_length (o1 o2 : DecOpts) (np : Nat) :
    Post2 (decodePointAttributesSeq o1 np) (decodePointAttributesSeq o2 np)
      (fun r1 r2 => r1.length = r2.length) := by
  unfold decodePointAttributesSeq
  simp only [bind, pure]
  apply Post2.bind_same; intro n
  apply Post2.ite_same <;> intro _
  · exact Post2.of_post (Post.ret (P := fun r => r = []) rfl) (Post.ret (P := fun r => r = []) rfl)
      (fun a b ha hb => by rw [ha, hb])
  · apply Post2.ite_same <;> intro _
    · exact decodeSequentialAttributes_length o1 o2 np
    · exact Post2.failWith _ _

/-- two successful decodes of the same stream under different decoder options (in particular
    different `skip` sets) yield the same kind, number of points, faces and number of
    attributes -/
theorem decodeGeometrySeq_opts_indep (o1 o2 : DecOpts) :
    Post2 (decodeGeometrySeq o1) (decodeGeometrySeq o2) (fun r1 r2 =>
      r1.geometry.isMesh = r2.geometry.isMesh ∧ r1.geometry.numPoints = r2.geometry.numPoints ∧
      r1.geometry.faces = r2.geometry.faces ∧ r1.geometry.atts.length = r2.geometry.atts.length) := by
  unfold decodeGeometrySeq decodeStreamWith
  simp only [bind, pure]
  repeat' first
    | exact Post2.failWith _ _
    | exact Post2.failWith_bind _ _ _
    | exact Post2.tail (decodePointAttributesSeq_length o1 o2 _) (fun _ _ h => ⟨rfl, rfl, rfl, h⟩)
    | apply Post2.ite_same <;> intro _
    | apply Post2.bind_same; intro _

/-! ### `decodeSeqConnectivity` on the output of `encodeSeqConnectivityRaw` -/

theorem encVarint_length_pos (v : Nat) : 1 ≤ (encVarint v).length := by
  unfold encVarint encVarintFuel
  split <;> simp

theorem encodeSeqIndex_length_pos (np v : Nat) : 1 ≤ (encodeSeqIndex np v).length := by
  unfold encodeSeqIndex
  split
  · simp [writeLE]
  · split
    · simp [writeLE]
    · split
      · exact encVarint_length_pos v
      · simp [writeLE]

theorem encodeSeqFaces_length (np : Nat) : ∀ fs, 3 * fs.length ≤ (encodeSeqFaces np fs).length
  | [] => by simp
  | (a, b, c) :: fs => by
    have ih := encodeSeqFaces_length np fs
    have ha := encodeSeqIndex_length_pos np a
    have hb := encodeSeqIndex_length_pos np b
    have hc := encodeSeqIndex_length_pos np c
    simp only [encodeSeqFaces, List.length_append, List.length_cons]
    omega

/-- reading back the index list with any reader that inverts `encodeSeqIndex` -/
theorem Runs.indices (rd : DecM Nat) (np : Nat)
    (hrd : ∀ v, v < np → ∀ (s : DSt) (r : Bytes), s.rest = encodeSeqIndex np v ++ r → Runs rd s v r) :
    ∀ (fs : List (Nat × Nat × Nat)), FacesBelow np fs → ∀ (s : DSt) (tail : Bytes),
      s.rest = encodeSeqFaces np fs ++ tail →
      Runs (DecM.replicateM' (3 * fs.length) rd) s (flatFaces fs) tail
  | [], _, s, tail, h => by
    have := Runs.replicate_zero rd s
    simp only [encodeSeqFaces, List.nil_append] at h
    rw [h] at this
    exact this
  | (a, b, c) :: fs, hb, s, tail, h => by
    have h0 := hb (a, b, c) (by simp)
    have ih := Runs.indices rd np hrd fs (fun f hf => hb f (by simp [hf]))
    have e : 3 * ((a, b, c) :: fs).length = 3 * fs.length + 1 + 1 + 1 := by simp; omega
    rw [e]
    simp only [encodeSeqFaces, List.append_assoc] at h
    refine Runs.replicate_succ (hrd a h0.1 s _ h) (fun s1 h1 _ => ?_)
    refine Runs.replicate_succ (hrd b h0.2.1 s1 _ h1) (fun s2 h2 _ => ?_)
    refine Runs.replicate_succ (hrd c h0.2.2 s2 _ h2) (fun s3 h3 _ => ?_)
    exact ih s3 tail h3

theorem Runs.indexTail (rd : DecM Nat) (np : Nat) (faces : List (Nat × Nat × Nat)) (tail : Bytes)
    (hrd : ∀ v, v < np → ∀ (s : DSt) (r : Bytes), s.rest = encodeSeqIndex np v ++ r → Runs rd s v r)
    (hidx : FacesBelow np faces) (s : DSt) (h : s.rest = encodeSeqFaces np faces ++ tail) :
    Runs ((DecM.replicateM' (3 * faces.length) rd).andThen fun idx =>
        (DecM.require (idx.all fun x => decide (x < np))).andThen fun _ =>
          DecM.ret (np, triples idx)) s (np, faces) tail := by
  refine Runs.bind (Runs.indices rd np hrd faces hidx s tail h) (fun s1 h1 _ => ?_)
  refine Runs.bind (Runs.require (flatFaces_all np faces hidx) s1) (fun s2 h2 _ => ?_)
  rw [triples_flatFaces]
  exact ⟨s2, rfl, h2.trans h1, rfl⟩

theorem decodeSeqConnectivity_raw (s : DSt) (np : Nat) (faces : List (Nat × Nat × Nat))
    (tail : Bytes) (hv : s.version = bsVersion 2 2)
    (hrest : s.rest = encodeSeqConnectivityRaw np faces ++ tail)
    (hidx : FacesBelow np faces) (hnp : np < 2^32) (hnf : faces.length ≤ 0xffffffff / 3) :
    Runs decodeSeqConnectivity s (np, faces) tail := by
  unfold decodeSeqConnectivity
  simp only [bind, pure]
  refine Runs.bind (Runs.version s) (fun s1 h1 v1 => ?_)
  rw [hv]
  simp only [Nat.lt_irrefl, if_false, decide_false, Bool.not_false, Bool.and_true]
  rw [hrest] at h1
  unfold encodeSeqConnectivityRaw at h1
  simp only [List.append_assoc, List.cons_append] at h1
  refine Runs.bind (Runs.varint32 h1 (by omega)) (fun s2 h2 v2 => ?_)
  refine Runs.bind (Runs.varint32 h2 hnp) (fun s3 h3 v3 => ?_)
  refine Runs.bind (Runs.require (by simpa using hnf) s3) (fun s4 h4 v4 => ?_)
  refine Runs.bind (Runs.declare _ s4) (fun s5 h5 v5 => ?_)
  have h5' : s5.rest = 1 :: (encodeSeqFaces np faces ++ tail) := by rw [h5, h4, h3]
  refine Runs.bind (Runs.rdU8 h5') (fun s6 h6 v6 => ?_)
  refine Runs.bind (Runs.remaining s6) (fun s7 h7 v7 => ?_)
  have hlen : faces.length ≤ s6.rest.length / 3 := by
    have := encodeSeqFaces_length np faces
    rw [h6]
    simp only [List.length_append]
    omega
  have hm : ((1 : Nat) != 0) = true := by decide
  rw [if_pos hm]
  refine Runs.bind (Runs.require (by simpa using hlen) s7) (fun s8 h8 v8 => ?_)
  refine Runs.bind (Runs.alloc _ _ s8) (fun s9 h9 v9 => ?_)
  rw [h8, h7, h6] at h9
  have h10 : ¬ ((1 == 0) = true) := by decide
  rw [if_neg h10]
  by_cases c1 : np < 256
  · rw [if_pos c1]
    refine Runs.indexTail _ np faces tail (fun v hvn t r ht => ?_) hidx s9 h9
    refine Runs.rdU8 ?_
    rw [ht, encodeSeqIndex, if_pos c1]
    simp only [writeLE, List.cons_append, List.nil_append]
    rw [Nat.mod_eq_of_lt (by omega)]
  · rw [if_neg c1]
    by_cases c2 : np < 2^16
    · rw [if_pos c2]
      refine Runs.indexTail _ np faces tail (fun v hvn t r ht => ?_) hidx s9 h9
      refine Runs.rdLE ?_ (by omega)
      rw [ht, encodeSeqIndex, if_neg c1, if_pos c2]
    · rw [if_neg c2]
      by_cases c3 : np < 2^21
      · rw [if_pos (by simpa using c3)]
        refine Runs.indexTail _ np faces tail (fun v hvn t r ht => ?_) hidx s9 h9
        refine Runs.varint32 ?_ (by omega)
        rw [ht, encodeSeqIndex, if_neg c1, if_neg c2, if_pos c3]
      · rw [if_neg (by simpa using c3)]
        refine Runs.indexTail _ np faces tail (fun v hvn t r ht => ?_) hidx s9 h9
        refine Runs.rdLE ?_ (by omega)
        rw [ht, encodeSeqIndex, if_neg c1, if_neg c2, if_neg c3]
/-! ### whole streams -/

/-- every successful run of `m` from the state `s` returns a value satisfying `P` -/
def PostAt {α} (m : DecM α) (s : DSt) (P : α → Prop) : Prop := ∀ a s', m s = (some a, s') → P a

theorem Post.at {α} {m : DecM α} {P : α → Prop} (h : Post m P) (s : DSt) : PostAt m s P :=
  fun a s' e => h s a s' e

theorem Runs.postAt_bind {α β} {m : DecM α} {f : α → DecM β} {s : DSt} {a : α} {r : Bytes}
    {P : β → Prop} (hm : Runs m s a r)
    (hf : ∀ s1, s1.rest = r → s1.version = s.version → PostAt (f a) s1 P) :
    PostAt (m.andThen f) s P := by
  obtain ⟨s1, e, hr, hv⟩ := hm
  intro b s' h
  unfold DecM.andThen at h
  rw [e] at h
  exact hf s1 hr hv b s' h

theorem PostAt.setVersion {β} {f : Unit → DecM β} {s : DSt} {v : Nat} {P : β → Prop}
    (h : PostAt (f ()) { s with version := v } P) :
    PostAt ((DecM.setVersion v).andThen f) s P := by
  intro b s' e
  exact h b s' e

theorem Runs.bytes {s : DSt} {n : Nat} {b r : Bytes} (h : s.rest = b ++ r) (hn : b.length = n) :
    Runs (DecM.bytes n) s b r := by
  refine Runs.lift ?_
  rw [h]
  unfold readBytes
  have : ¬ (b ++ r).length < n := by simp [hn]
  rw [if_neg this, List.take_left' hn, List.drop_left' hn]

theorem Runs.header (s : DSt) (ma mi et em : Nat) (r : Bytes)
    (h : s.rest = [68, 82, 65, 67, 79] ++ [ma, mi, et, em] ++ writeLE 2 0 ++ r) :
    Runs decodeHeader s ⟨ma, mi, et, em, 0⟩ r := by
  unfold decodeHeader
  simp only [pure]
  simp only [List.append_assoc] at h
  refine Runs.bind (Runs.bytes h rfl) (fun s1 h1 _ => ?_)
  refine Runs.bind (Runs.require (by decide) s1) (fun s2 h2 _ => ?_)
  rw [h1] at h2
  refine Runs.bind (Runs.rdU8 h2) (fun s3 h3 _ => ?_)
  refine Runs.bind (Runs.rdU8 h3) (fun s4 h4 _ => ?_)
  refine Runs.bind (Runs.rdU8 h4) (fun s5 h5 _ => ?_)
  refine Runs.bind (Runs.rdU8 h5) (fun s6 h6 _ => ?_)
  refine Runs.bind (Runs.rdLE (n := 2) h6 (by decide)) (fun s7 h7 _ => ?_)
  exact ⟨s7, rfl, h7, rfl⟩

theorem decodeGeometrySeq_mesh_stream (opts : DecOpts) (s : DSt) (np : Nat)
    (faces : List (Nat × Nat × Nat)) (tail : Bytes)
    (hrest : s.rest = encodeSeqHeader true ++ (encodeSeqConnectivityRaw np faces ++ tail))
    (hidx : FacesBelow np faces) (hnp : np < 2^32) (hnf : faces.length ≤ 0xffffffff / 3) :
    PostAt (decodeGeometrySeq opts) s (fun r =>
      r.geometry.isMesh = true ∧ r.geometry.numPoints = np ∧ r.geometry.faces = faces) := by
  unfold decodeGeometrySeq decodeStreamWith
  simp only [bind, pure]
  refine Runs.postAt_bind (Runs.header s 2 2 1 0 _ (by rw [hrest]; rfl)) (fun s1 h1 _ => ?_)
  refine Runs.postAt_bind (Runs.require (by decide) s1) (fun s2 h2 _ => ?_)
  refine Runs.postAt_bind (Runs.require (by decide) s2) (fun s3 h3 _ => ?_)
  simp (decide := true) only [if_true, if_false]
  refine PostAt.setVersion ?_
  refine Runs.postAt_bind (Runs.ret none _) (fun s4 h4 v4 => ?_)
  refine Runs.postAt_bind (decodeSeqConnectivity_raw s4 np faces tail (by rw [v4]) (by rw [h4]; show s3.rest = _; rw [h3, h2, h1])
    hidx hnp hnf) (fun s5 _ _ => ?_)
  exact (Post.bind_any (fun atts => Post.ret ⟨rfl, rfl, rfl⟩)).at s5

theorem toUnsigned_toSigned_32 (v : Nat) (h : v < 2^32) : toUnsigned 32 (toSigned 32 v) = v := by
  unfold toUnsigned toSigned
  rw [Nat.mod_eq_of_lt h]
  split <;> omega

theorem Runs.rdI32 {s : DSt} {v : Nat} {r : Bytes} (h : s.rest = writeLE 4 v ++ r)
    (hv : v < 2^32) : Runs DecM.rdI32 s (toSigned 32 v) r := by
  unfold DecM.rdI32
  simp only [pure]
  refine Runs.bind (Runs.rdLE (n := 4) h (by omega)) (fun s1 h1 _ => ?_)
  exact ⟨s1, rfl, h1, rfl⟩

theorem decodeGeometrySeq_pc_stream (opts : DecOpts) (s : DSt) (np : Nat) (tail : Bytes)
    (hrest : s.rest = encodeSeqHeader false ++ (encodePcGeometryData np ++ tail))
    (hnp : np < 2^32) :
    PostAt (decodeGeometrySeq opts) s (fun r =>
      r.geometry.isMesh = false ∧ r.geometry.numPoints = np ∧ r.geometry.faces = []) := by
  unfold decodeGeometrySeq decodeStreamWith
  simp only [bind, pure]
  refine Runs.postAt_bind (Runs.header s 2 3 0 0 _ (by rw [hrest]; rfl)) (fun s1 h1 _ => ?_)
  refine Runs.postAt_bind (Runs.require (by decide) s1) (fun s2 h2 _ => ?_)
  refine Runs.postAt_bind (Runs.require (by decide) s2) (fun s3 h3 _ => ?_)
  simp (decide := true) only [if_false]
  refine PostAt.setVersion ?_
  refine Runs.postAt_bind (Runs.ret none _) (fun s4 h4 v4 => ?_)
  refine Runs.postAt_bind (Runs.rdI32 (v := np) (by rw [h4]; show s3.rest = _; rw [h3, h2, h1]; rfl) hnp)
    (fun s5 _ _ => ?_)
  rw [toUnsigned_toSigned_32 np hnp]
  exact (Post.bind_any (fun _ => Post.bind_any (fun atts => Post.ret ⟨rfl, rfl, rfl⟩))).at s5
/-! ### transfer to the complete decoder `decodeGeometry` -/

/-- a stream that starts with the header written by the sequential encoders is sequential -/
theorem isSeqStream_of_header (s : DSt) (isMesh : Bool) (r : Bytes)
    (h : s.rest = encodeSeqHeader isMesh ++ r) : IsSeqStream s := by
  cases isMesh with
  | true =>
    obtain ⟨s1, e, _, _⟩ := Runs.header s 2 2 1 0 r (by rw [h]; rfl)
    exact ⟨_, s1, e, rfl⟩
  | false =>
    obtain ⟨s1, e, _, _⟩ := Runs.header s 2 3 0 0 r (by rw [h]; rfl)
    exact ⟨_, s1, e, rfl⟩

theorem decodeGeometry_post (opts : DecOpts) (s : DSt) (hs : IsSeqStream s) :
    PostAt (decodeGeometry opts) s (fun r => SeqCountsOK r.geometry) := by
  intro a s' e
  rw [decodeGeometry_eq_seq opts s hs] at e
  exact decodeGeometrySeq_post opts s a s' e

theorem decodeGeometry_opts_indep (o1 o2 : DecOpts) (s : DSt) (hs : IsSeqStream s)
    (r1 : DecodeResult) (s1 : DSt) (r2 : DecodeResult) (s2 : DSt)
    (h1 : decodeGeometry o1 s = (some r1, s1)) (h2 : decodeGeometry o2 s = (some r2, s2)) :
    r1.geometry.isMesh = r2.geometry.isMesh ∧ r1.geometry.numPoints = r2.geometry.numPoints ∧
      r1.geometry.faces = r2.geometry.faces ∧
      r1.geometry.atts.length = r2.geometry.atts.length := by
  rw [decodeGeometry_eq_seq o1 s hs] at h1
  rw [decodeGeometry_eq_seq o2 s hs] at h2
  exact decodeGeometrySeq_opts_indep o1 o2 s r1 s1 r2 s2 h1 h2

theorem decodeGeometry_mesh_stream (opts : DecOpts) (s : DSt) (np : Nat)
    (faces : List (Nat × Nat × Nat)) (tail : Bytes)
    (hrest : s.rest = encodeSeqHeader true ++ (encodeSeqConnectivityRaw np faces ++ tail))
    (hidx : FacesBelow np faces) (hnp : np < 2^32) (hnf : faces.length ≤ 0xffffffff / 3) :
    PostAt (decodeGeometry opts) s (fun r =>
      r.geometry.isMesh = true ∧ r.geometry.numPoints = np ∧ r.geometry.faces = faces) := by
  intro a s' e
  rw [decodeGeometry_eq_seq opts s (isSeqStream_of_header s true _ hrest)] at e
  exact decodeGeometrySeq_mesh_stream opts s np faces tail hrest hidx hnp hnf a s' e

theorem decodeGeometry_pc_stream (opts : DecOpts) (s : DSt) (np : Nat) (tail : Bytes)
    (hrest : s.rest = encodeSeqHeader false ++ (encodePcGeometryData np ++ tail))
    (hnp : np < 2^32) :
    PostAt (decodeGeometry opts) s (fun r =>
      r.geometry.isMesh = false ∧ r.geometry.numPoints = np ∧ r.geometry.faces = []) := by
  intro a s' e
  rw [decodeGeometry_eq_seq opts s (isSeqStream_of_header s false _ hrest)] at e
  exact decodeGeometrySeq_pc_stream opts s np tail hrest hnp a s' e

end Draco.Counts
