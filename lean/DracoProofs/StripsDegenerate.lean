import DracoProofs.StripsMain
/-
  DracoProofs.StripsDegenerate — `GenerateTriangleStripsWithDegenerateTriangles`: the connecting
  indices only produce zero-area triangles and keep the parity, so the consumer (who discards
  zero-area triangles) reads the non-degenerate faces of the mesh.
-/
namespace Draco
namespace Strips

/-- the triangle (if any) that starts at the first index of a strip -/
def firstTri (odd : Bool) (x : Nat) : List Nat → List Face
  | b :: c :: _ => [if odd then (b, x, c) else (x, b, c)]
  | _ => []

theorem stripTriangles_step (odd : Bool) (x : Nat) (rest : List Nat) :
    stripTriangles odd (x :: rest) = firstTri odd x rest ++ stripTriangles (!odd) rest := by
  cases rest with
  | nil => simp [stripTriangles, firstTri]
  | cons b r =>
    cases r with
    | nil => simp [stripTriangles, firstTri]
    | cons c r => simp [stripTriangles, firstTri]

theorem firstTri_append (odd : Bool) (x : Nat) (A B : List Nat) (hA : 2 ≤ A.length) :
    firstTri odd x (A ++ B) = firstTri odd x A := by
  cases A with
  | nil => simp at hA
  | cons a A =>
    cases A with
    | nil => simp at hA
    | cons a' A => simp [firstTri]

/-- decoding a strip in two parts that overlap in two indices -/
theorem stripTriangles_append (odd : Bool) (X : List Nat) (y l : Nat) (Y : List Nat) :
    stripTriangles odd (X ++ [y, l] ++ Y) =
      stripTriangles odd (X ++ [y, l]) ++ stripTriangles (odd != decide (X.length % 2 = 1)) (y :: l :: Y) := by
  induction X generalizing odd with
  | nil =>
    simp [stripTriangles]
  | cons x X ih =>
    have e1 : x :: X ++ [y, l] ++ Y = x :: (X ++ [y, l] ++ Y) := rfl
    have e2 : x :: X ++ [y, l] = x :: (X ++ [y, l]) := rfl
    rw [e1, e2, stripTriangles_step, stripTriangles_step, ih (!odd)]
    rw [firstTri_append odd x (X ++ [y, l]) Y (by simp)]
    have hp : ((!odd) != decide (X.length % 2 = 1)) = (odd != decide ((x :: X).length % 2 = 1)) := by
      simp only [List.length_cons]
      by_cases h : X.length % 2 = 1
      · have : ¬ (X.length + 1) % 2 = 1 := by omega
        cases odd <;> simp [h, this]
      · have : (X.length + 1) % 2 = 1 := by omega
        cases odd <;> simp [h, this]
    rw [hp, List.append_assoc]

def nd (f : Face) : Bool := !isDegenerateTriangle f

/-- the connecting indices: all triangles they produce are degenerate, the new strip starts at an
    even position (no extra index) -/
theorem connector_even (y l s s1 s2 : Nat) (T : List Nat) :
    (stripTriangles false (y :: l :: l :: s :: s :: s1 :: s2 :: T)).filter nd =
      (stripTriangles false (s :: s1 :: s2 :: T)).filter nd := by
  simp [stripTriangles, nd, isDegenerateTriangle]

/-- … and with the extra index when an odd number of triangles precedes -/
theorem connector_odd (y l s s1 s2 : Nat) (T : List Nat) :
    (stripTriangles true (y :: l :: l :: s :: s :: s :: s1 :: s2 :: T)).filter nd =
      (stripTriangles false (s :: s1 :: s2 :: T)).filter nd := by
  simp [stripTriangles, nd, isDegenerateTriangle]

theorem stream_length (cx : Ctx) (i : Nat) (C : List Nat) (hC : C ≠ []) :
    (stream cx i C).length = C.length + (if i = 0 then 2 else 0) := by
  induction C generalizing i with
  | nil => exact absurd rfl hC
  | cons c C ih =>
    simp only [stream, emit, List.length_append, List.length_cons]
    cases C with
    | nil => by_cases hi : i = 0 <;> simp [stream, hi]
    | cons c' C =>
      rw [ih (i + 1) (by simp)]
      by_cases hi : i = 0 <;> simp [hi] <;> omega

theorem stream_zero_shape (cx : Ctx) (c : Nat) (C : List Nat) :
    ∃ T, stream cx 0 (c :: C) = cx.pt c :: cx.pt (nextC c) :: cx.pt (prevC c) :: T := by
  exact ⟨stream cx 1 C, by simp [stream, emit]⟩

/-- any list with at least two elements ends in `[y, last]` -/
theorem split_last_two (T : List Nat) (h : 2 ≤ T.length) (d : Nat) :
    ∃ T0 y, T = T0 ++ [y, T.getLast?.getD d] ∧ T0.length + 2 = T.length := by
  have hne : T ≠ [] := by intro e; simp [e] at h
  have h1 := List.dropLast_concat_getLast hne
  have hne2 : T.dropLast ≠ [] := by
    intro e
    have : T.dropLast.length = T.length - 1 := List.length_dropLast
    rw [e] at this
    simp at this
    omega
  have h2 := List.dropLast_concat_getLast hne2
  refine ⟨T.dropLast.dropLast, T.dropLast.getLast hne2, ?_, ?_⟩
  · rw [List.getLast?_eq_some_getLast hne]
    simp only [Option.getD_some]
    conv => lhs; rw [← h1, ← h2]
    simp
  · simp only [List.length_dropLast]
    omega

/-- invariant of the stream in the degenerate-triangle mode -/
def DInv (cx : Ctx) (st : Out) (Cs : List (List Nat)) : Prop :=
  (Cs = [] → st.out = [] ∧ st.numEncodedFaces = 0) ∧
  (Cs ≠ [] → ∃ X y, st.out.reverse = X ++ [y, st.lastPoint] ∧ X.length % 2 = st.numEncodedFaces % 2 ∧
    (stripTriangles false st.out.reverse).filter nd = (Cs.reverse.flatMap (chainTris cx 0)).filter nd)

theorem loop_degenerate {cx : Ctx} (hinv : OppInv cx) (n : Nat) (hn : n ≤ cx.faces.size) :
    ∃ Cs, CoreInv cx cx.faces.size (loopState cx false n) Cs n ∧ DInv cx (loopState cx false n) Cs := by
  induction n with
  | zero =>
    refine ⟨[], ⟨?_, by simp [allFaces, allCorners], by simp [allFaces, allCorners], by simp, by simp, rfl⟩,
      ⟨fun _ => ⟨rfl, rfl⟩, fun h => absurd rfl h⟩⟩
    intro f
    simp only [loopState, List.range_zero, List.foldl_nil, allFaces, allCorners, List.reverse_nil,
      List.flatten_nil, List.map_nil, List.not_mem_nil, not_false_eq_true, and_true]
    simp only [Array.getD_eq_getD_getElem?, Array.getElem?_replicate]
    by_cases hf : f < cx.faces.size <;> simp [hf]
  | succ n ih =>
    obtain ⟨Cs, hI, hD⟩ := ih (by omega)
    rw [loopState_succ]
    by_cases hv : (loopState cx false n).visited.getD n true = true
    · rw [faceStep_visited _ _ _ _ hv]
      exact ⟨Cs, coreInv_visited hI (by omega) hv, hD⟩
    · have hv' : (loopState cx false n).visited.getD n true = false := by simpa using hv
      obtain ⟨c, C, hch, hfr, hmem, h1, h2, h3, h4, h5⟩ := faceStep_unvisited hinv false _ n hv'
      refine ⟨(c :: C) :: Cs, coreInv_step hI (c :: C) hch hfr hmem h1 h2, ?_⟩
      generalize hst : loopState cx false n = st at *
      generalize hst' : faceStep cx false st n = st' at *
      have hlenT : (stream cx 0 (c :: C)).length = C.length + 3 := by
        rw [stream_length cx 0 (c :: C) (by simp)]
        simp
      obtain ⟨T', hT'⟩ := stream_zero_shape cx c C
      obtain ⟨T0, y', hsplit, hT0⟩ := split_last_two (stream cx 0 (c :: C)) (by omega) st.lastPoint
      rw [← h5] at hsplit
      have hdec := stripTriangles_stream cx (c :: C) hch
      refine ⟨fun h => (by cases h), fun _ => ?_⟩
      by_cases hCs : Cs = []
      · -- first strip
        subst hCs
        have hout : st.out = [] := (hD.1 rfl).1
        have hns : ¬ st.numStrips > 0 := by rw [hI.nstrips]; simp
        have e3 : st'.out.reverse = stream cx 0 (c :: C) := by
          rw [h3]; simp [preOut, hns, hout]
        have e4 : st'.numEncodedFaces = st.numEncodedFaces + (C.length + 1) := by
          rw [h4]; simp [preEnc, hns]
        have henc0 : st.numEncodedFaces = 0 := (hD.1 rfl).2
        refine ⟨T0, y', by rw [e3]; exact hsplit, ?_, ?_⟩
        · rw [e4, henc0]; omega
        · rw [e3, hdec]; simp
      · -- a further strip
        obtain ⟨X, y, hX, hpar, hdecS⟩ := hD.2 hCs
        have hns : st.numStrips > 0 := by
          rw [hI.nstrips]
          exact List.length_pos_iff.2 hCs
        by_cases hp : (st.numEncodedFaces + 2) % 2 = 1
        · -- odd number of triangles so far: one extra index
          have e3 : st'.out.reverse = X ++ [y, st.lastPoint] ++
              (st.lastPoint :: cx.pt c :: cx.pt c :: stream cx 0 (c :: C)) := by
            rw [h3]
            simp only [preOut, hns, if_true, Bool.false_eq_true, if_false, hp, List.reverse_append,
              List.reverse_reverse, List.reverse_cons]
            rw [hX]
            simp
          have e4 : st'.numEncodedFaces = st.numEncodedFaces + 3 + (C.length + 1) := by
            rw [h4]; simp [preEnc, hns, hp]
          have hodd : decide (X.length % 2 = 1) = true := by
            have : X.length % 2 = 1 := by omega
            simp [this]
          refine ⟨X ++ [y, st.lastPoint] ++ (st.lastPoint :: cx.pt c :: cx.pt c :: T0), y', ?_, ?_, ?_⟩
          · rw [e3, hsplit]; simp
          · rw [e4]
            simp only [List.length_append, List.length_cons, List.length_nil]
            omega
          · rw [e3, stripTriangles_append, List.filter_append, ← hX, hdecS, hodd, hT']
            have := connector_odd y st.lastPoint (cx.pt c) (cx.pt (nextC c)) (cx.pt (prevC c)) T'
            simp only [Bool.false_bne] at this ⊢
            rw [this, ← hT', hdec]
            simp [List.flatMap_append, List.filter_append]
        · have e3 : st'.out.reverse = X ++ [y, st.lastPoint] ++
              (st.lastPoint :: cx.pt c :: stream cx 0 (c :: C)) := by
            rw [h3]
            simp only [preOut, hns, if_true, Bool.false_eq_true, if_false, hp, List.reverse_append,
              List.reverse_reverse, List.reverse_cons]
            rw [hX]
            simp
          have e4 : st'.numEncodedFaces = st.numEncodedFaces + 2 + (C.length + 1) := by
            rw [h4]; simp [preEnc, hns]; omega
          have heven : decide (X.length % 2 = 1) = false := by
            have : ¬ X.length % 2 = 1 := by omega
            simp [this]
          refine ⟨X ++ [y, st.lastPoint] ++ (st.lastPoint :: cx.pt c :: T0), y', ?_, ?_, ?_⟩
          · rw [e3, hsplit]; simp
          · rw [e4]
            simp only [List.length_append, List.length_cons, List.length_nil]
            omega
          · rw [e3, stripTriangles_append, List.filter_append, ← hX, hdecS, heven, hT']
            have := connector_even y st.lastPoint (cx.pt c) (cx.pt (nextC c)) (cx.pt (prevC c)) T'
            simp only [Bool.bne_false] at this ⊢
            rw [this, ← hT', hdec]
            simp [List.flatMap_append, List.filter_append]

end Strips
end Draco

namespace Draco
namespace Strips

theorem nd_iff (f : Face) : nd f = true ↔ (f.1 ≠ f.2.1 ∧ f.1 ≠ f.2.2 ∧ f.2.1 ≠ f.2.2) := by
  simp [nd, isDegenerateTriangle, and_assoc]

theorem faceRot_nd {f' f : Face} (h : FaceRot f' f) : nd f' = nd f := by
  apply Bool.eq_iff_iff.2
  rw [nd_iff, nd_iff]
  obtain ⟨a, b, c⟩ := f
  rcases h with e | e | e <;> subst e <;> simp only [Cleanup.rotL] <;>
    constructor <;> intro ⟨h1, h2, h3⟩ <;> refine ⟨?_, ?_, ?_⟩ <;> omega

theorem forall₂_filter {R : Face → Face → Prop} {p : Face → Bool} {l1 l2 : List Face}
    (h : List.Forall₂ R l1 l2) (hp : ∀ x y, R x y → p x = p y) :
    List.Forall₂ R (l1.filter p) (l2.filter p) := by
  induction h with
  | nil => exact List.Forall₂.nil
  | @cons x y l1 l2 hxy _ ih =>
    simp only [List.filter_cons, hp x y hxy]
    split
    · exact List.Forall₂.cons hxy ih
    · exact ih

/-- **degenerate-triangle strips describe the mesh**: for every involutive opposite table the
    triangles a consumer draws (zero-area triangles discarded) are, up to order and up to the choice
    of the first corner (orientation preserved), exactly the faces of the mesh that have three
    different point ids — each once. -/
theorem generateWith_degenerate_spec (opp : Array (Option Nat)) (faces : List Face)
    (hinv : OppInv { faces := faces.toArray, opp := opp }) :
    ∃ l, l.Perm (faces.filter (fun f => !isDegenerateTriangle f)) ∧
      List.Forall₂ FaceRot (triangles false (generateWith opp false faces)) l := by
  obtain ⟨Cs, hI, hD⟩ := loop_degenerate hinv faces.length (by simp)
  have hN : ({ faces := faces.toArray, opp := opp } : Ctx).faces.size = faces.length := by simp
  rw [hN] at hI
  have hperm : ((allCorners Cs).map fun c => faces.toArray.getD (c / 3) (0, 0, 0)).Perm faces := by
    have hp : (allFaces Cs).Perm (List.range faces.length) :=
      perm_range_of hI.nodup hI.lt (fun x hx => hI.done x hx)
    have := hp.map fun i => faces.toArray.getD i (0, 0, 0)
    rw [← faces_eq_map_range] at this
    unfold allFaces at this
    rw [List.map_map] at this
    exact this
  refine ⟨((allCorners Cs).map fun c => faces.toArray.getD (c / 3) (0, 0, 0)).filter nd, hperm.filter _, ?_⟩
  have hdec : triangles false (generateWith opp false faces) =
      (Cs.reverse.flatMap (chainTris { faces := faces.toArray, opp := opp } 0)).filter nd := by
    rw [generateWith_eq]
    by_cases hCs : Cs = []
    · subst hCs
      rw [(hD.1 rfl).1]
      rfl
    · obtain ⟨_, _, _, _, h⟩ := hD.2 hCs
      exact h
  rw [hdec]
  exact forall₂_filter (forall₂_flatMap_chainTris _ Cs.reverse) (fun _ _ h => faceRot_nd h)

end Strips
end Draco
