import DracoModel.SeqDecoder
/-
  C06 — bytes that follow the stream. A `DecM` computation is *stable* when a successful run is
  unaffected by bytes appended to the input: same result, same final state except that the appended
  bytes are still unread. Stability is closed under the monad operations and holds for every
  byte-level reader that only looks at what it consumes. It FAILS for `remaining` (the model of
  `DecoderBuffer::remaining_size()`), which is why every sanity check of the form
  `declared_count <= k * remaining_size()` is a place where trailing bytes can change the outcome of a
  decode — but only from reject to accept (monotone guards), never the decoded values.
  (In bit mode reads past the end yield zeros in the real code, so for arbitrary byte strings
  "appended bytes never change an accepted decode" is false; it holds for runs that never hit the end.)
-/
namespace Draco
namespace DecM

def _root_.Draco.DSt.append (s : DSt) (extra : Bytes) : DSt := { s with rest := s.rest ++ extra }

/-- byte-level reader unaffected by appended bytes -/
def RdStable {α} (r : Rd α) : Prop :=
  ∀ bs a rest extra, r bs = some (a, rest) → r (bs ++ extra) = some (a, rest ++ extra)

/-- a successful run is unaffected by appended bytes -/
def Stable {α} (m : DecM α) : Prop :=
  ∀ s a s' extra, m s = (some a, s') → m (s.append extra) = (some a, s'.append extra)

theorem stable_pure {α} (a : α) : Stable (pure a : DecM α) := by
  intro s b s' extra h
  simp only [pure, ret, Prod.mk.injEq, Option.some.injEq] at h ⊢
  exact ⟨h.1, by rw [← h.2]⟩

theorem stable_bind {α β} {m : DecM α} {f : α → DecM β} (hm : Stable m) (hf : ∀ a, Stable (f a)) :
    Stable (m >>= f) := by
  intro s b s' extra h
  simp only [bind, andThen] at h ⊢
  cases hms : m s with
  | mk o s1 =>
    rw [hms] at h
    cases o with
    | none => simp at h
    | some a =>
      rw [hm s a s1 extra hms]
      exact hf a s1 b s' extra h

theorem stable_fail {α} : Stable (fail : DecM α) := by
  intro s a s' extra h
  simp [fail] at h

theorem stable_failWith {α} (st : Status) : Stable (failWith st : DecM α) := by
  intro s a s' extra h
  simp [failWith] at h

theorem stable_require (c : Bool) : Stable (require c) := by
  unfold require
  cases c
  · exact stable_fail
  · exact stable_pure ()

theorem stable_ofOption {α} (o : Option α) : Stable (ofOption o) := by
  cases o
  · exact stable_fail
  · exact stable_pure _

theorem stable_lift {α} {r : Rd α} (hr : RdStable r) : Stable (lift r) := by
  intro s a s' extra h
  simp only [lift] at h ⊢
  cases hrs : r s.rest with
  | none => rw [hrs] at h; simp at h
  | some p =>
    obtain ⟨a', rest⟩ := p
    rw [hrs] at h
    simp only [Prod.mk.injEq, Option.some.injEq] at h
    have := hr s.rest a' rest extra hrs
    simp only [DSt.append, this, Prod.mk.injEq, Option.some.injEq]
    exact ⟨h.1, by rw [← h.2]⟩

theorem stable_version : Stable version := by
  intro s a s' extra h
  simp only [version, Prod.mk.injEq, Option.some.injEq] at h ⊢
  exact ⟨by rw [← h.1]; rfl, by rw [← h.2]⟩

theorem stable_setVersion (v : Nat) : Stable (setVersion v) := by
  intro s a s' extra h
  simp only [setVersion, Prod.mk.injEq] at h ⊢
  exact ⟨h.1, by rw [← h.2]; rfl⟩

theorem stable_alloc (site : String) (n : Nat) : Stable (alloc site n) := by
  intro s a s' extra h
  simp only [alloc, Prod.mk.injEq] at h ⊢
  exact ⟨h.1, by rw [← h.2]; rfl⟩

theorem stable_declare (n : Nat) : Stable (declare n) := by
  intro s a s' extra h
  simp only [declare, Prod.mk.injEq] at h ⊢
  exact ⟨h.1, by rw [← h.2]; rfl⟩

/-- `remaining_size()` itself is NOT stable … -/
theorem remaining_not_stable : ¬ Stable remaining := by
  intro h
  have := h { rest := [] } 0 { rest := [] } [7] rfl
  simp [remaining, DSt.append] at this

/-- … but a monotone guard on it is: a check that passes keeps passing when bytes are appended -/
theorem stable_remaining_guard {β} (p : Nat → Bool) (hp : ∀ r r', r ≤ r' → p r = true → p r' = true)
    {k : DecM β} (hk : Stable k) :
    Stable (remaining >>= fun rem => require (p rem) >>= fun _ => k) := by
  intro s b s' extra h
  simp only [bind, andThen, remaining] at h ⊢
  have hlen : s.rest.length ≤ (s.append extra).rest.length := by simp [DSt.append]
  cases hc : p s.rest.length with
  | false => simp [hc, require, fail] at h
  | true =>
    have hc' := hp _ _ hlen hc
    simp only [hc, require] at h
    simp only [hc', require]
    exact hk s b s' extra h

theorem stable_mapM' {α β} (f : α → DecM β) (hf : ∀ a, Stable (f a)) : ∀ l, Stable (mapM' f l)
  | [] => stable_pure []
  | a :: as => by
    unfold mapM'
    exact stable_bind (hf a) fun b => stable_bind (stable_mapM' f hf as) fun bs => stable_pure (b :: bs)

theorem stable_replicateM' {α} (n : Nat) {f : DecM α} (hf : Stable f) : Stable (replicateM' n f) :=
  stable_mapM' _ (fun _ => hf) _

/-! ### byte-level readers -/

theorem rdStable_readU8 : RdStable readU8 := by
  intro bs a rest extra h
  cases bs with
  | nil => simp [readU8] at h
  | cons b bs => simp only [readU8, Option.some.injEq, Prod.mk.injEq] at h; simp [readU8, h.1, ← h.2]

theorem rdStable_readBytes (n : Nat) : RdStable (readBytes n) := by
  intro bs a rest extra h
  unfold readBytes at h ⊢
  by_cases hl : bs.length < n
  · simp [hl] at h
  · simp only [hl, if_false, Option.some.injEq, Prod.mk.injEq] at h
    have : ¬ (bs ++ extra).length < n := by simp; omega
    have hn : n ≤ bs.length := by omega
    simp only [this, if_false, Option.some.injEq, Prod.mk.injEq]
    rw [← h.1, ← h.2]
    exact ⟨List.take_append_of_le_length hn, List.drop_append_of_le_length hn⟩

theorem rdStable_readLE (n : Nat) : RdStable (readLE n) := by
  intro bs a rest extra h
  unfold readLE at h ⊢
  cases hb : readBytes n bs with
  | none => simp [hb] at h
  | some p =>
    obtain ⟨v, r⟩ := p
    rw [hb] at h
    simp only [Option.some.injEq, Prod.mk.injEq] at h
    rw [rdStable_readBytes n bs v r extra hb]
    simp [h.1, ← h.2]

theorem rdStable_decVarintAux (w : Nat) : ∀ b, RdStable (decVarintAux w b)
  | 0 => by intro bs a rest extra h; simp [decVarintAux] at h
  | b+1 => by
    intro bs a rest extra h
    cases bs with
    | nil => simp [decVarintAux] at h
    | cons byte tl =>
      simp only [decVarintAux, List.cons_append] at h ⊢
      by_cases hge : byte ≥ 128
      · simp only [hge, if_true] at h ⊢
        cases hr : decVarintAux w b tl with
        | none => simp [hr] at h
        | some p =>
          obtain ⟨v, r⟩ := p
          rw [hr] at h
          simp only [Option.some.injEq, Prod.mk.injEq] at h
          rw [rdStable_decVarintAux w b tl v r extra hr]
          simp [h.1, ← h.2]
      · simp only [hge, if_false, Option.some.injEq, Prod.mk.injEq] at h ⊢
        exact ⟨h.1, by rw [← h.2]⟩

theorem rdStable_decVarint (w : Nat) : RdStable (decVarint w) := rdStable_decVarintAux w _

theorem stable_rdU8 : Stable rdU8 := stable_lift rdStable_readU8
theorem stable_rdU16 : Stable rdU16 := stable_lift (rdStable_readLE 2)
theorem stable_rdU32 : Stable rdU32 := stable_lift (rdStable_readLE 4)
theorem stable_varint (w : Nat) : Stable (varint w) := stable_lift (rdStable_decVarint w)
theorem stable_bytes (n : Nat) : Stable (bytes n) := stable_lift (rdStable_readBytes n)

/-- what `Stable` says, for users of the (from here on irreducible) definition -/
theorem stable_def {α} (m : DecM α) :
    Stable m ↔ ∀ s a s' extra, m s = (some a, s') → m (s.append extra) = (some a, s'.append extra) := Iff.rfl

attribute [irreducible] Stable

/-- one step of a stability proof by the structure of the computation -/
syntax "stable_step" : tactic
macro_rules
  | `(tactic| stable_step) => `(tactic| first
      | exact stable_pure _ | exact stable_rdU8 | exact stable_rdU16 | exact stable_rdU32
      | exact stable_varint _ | exact stable_bytes _ | exact stable_require _ | exact stable_version
      | exact stable_setVersion _ | exact stable_alloc _ _ | exact stable_declare _ | exact stable_fail
      | exact stable_failWith _ | exact stable_ofOption _
      | apply stable_replicateM' | apply stable_bind | intro _ | split | dsimp only)

end DecM
end Draco
