import DracoModel.Quantizer
/-
  Structural lemmas about the attribute-level functions (`GeneratePortableAttribute`,
  `InverseTransformAttribute`) and the parameter (de)serialisation; generic in `FloatOps`.
-/
namespace Draco
namespace Quant
open FloatOps

/-- component `c` of value `i` -/
def at2 {α : Type} (rows : List (List α)) (i c : Nat) : Option α :=
  (rows[i]?).bind (fun r => r[c]?)

section
variable {F : Type} [FloatOps F]

theorem quantizeRow_go_get (p : QParams F) (q : Nat) : ∀ (row : List F) (c0 c : Nat),
    (quantizeRow.go p q c0 row)[c]? = (row[c]?).map (quantize p q (c0 + c))
  | [], _, _ => by simp [quantizeRow.go]
  | x :: xs, c0, 0 => by simp [quantizeRow.go]
  | x :: xs, c0, c+1 => by
    have := quantizeRow_go_get p q xs (c0+1) c
    simp [quantizeRow.go, this]
    congr 2; omega

theorem dequantizeRow_go_get (p : QParams F) (q : Nat) : ∀ (row : List Int) (c0 c : Nat),
    (dequantizeRow.go p q c0 row)[c]? = (row[c]?).map (dequantize p q (c0 + c))
  | [], _, _ => by simp [dequantizeRow.go]
  | x :: xs, c0, 0 => by simp [dequantizeRow.go]
  | x :: xs, c0, c+1 => by
    have := dequantizeRow_go_get p q xs (c0+1) c
    simp [dequantizeRow.go, this]
    congr 2; omega

/-- component `c` of value `i` of the portable attribute depends only on component `c` of
    value `i` of the input -/
theorem generatePortable_get (p : QParams F) (q : Nat) (rows : List (List F)) (i c : Nat) :
    at2 (generatePortable p q rows) i c = (at2 rows i c).map (quantize p q c) := by
  unfold at2 generatePortable
  rw [List.getElem?_map]
  cases rows[i]? with
  | none => rfl
  | some row =>
    simp only [Option.map_some, Option.bind_some, quantizeRow]
    rw [quantizeRow_go_get]; simp

theorem inverseTransform_get (p : QParams F) (q : Nat) (hq : 1 ≤ q) (ks : List (List Int)) :
    ∃ out, inverseTransform p q ks = some out ∧ ∀ i c,
      at2 out i c = (at2 ks i c).map (dequantize p q c) := by
  have hM : ¬ maxQuantizedValue q ≤ 0 := by
    obtain ⟨k, rfl⟩ : ∃ k, q = k + 1 := ⟨q - 1, by omega⟩
    have : 0 < (2:Int)^k := Int.pow_pos (by decide)
    unfold maxQuantizedValue; rw [Int.pow_succ]; omega
  refine ⟨ks.map (dequantizeRow p q), ?_, ?_⟩
  · simp [inverseTransform, dequantizerInit, hM]
  · intro i c
    unfold at2
    rw [List.getElem?_map]
    cases ks[i]? with
    | none => rfl
    | some row =>
      simp only [Option.map_some, Option.bind_some, dequantizeRow]
      rw [dequantizeRow_go_get]; simp

omit [FloatOps F] in
theorem setParameters_some {q : Int} {mins : List F} {range : F} {p : QParams F} {qn : Nat}
    (h : setParameters q mins range = some (p, qn)) :
    p = { minValues := mins, range := range } ∧ (qn : Int) = q ∧ 1 ≤ qn ∧ qn ≤ 30 := by
  unfold setParameters at h
  by_cases hv : isQuantizationValid q = true
  · simp [hv] at h
    unfold isQuantizationValid at hv
    simp at hv
    obtain ⟨rfl, rfl⟩ := h
    refine ⟨rfl, ?_, ?_, ?_⟩ <;> omega
  · simp [hv] at h

end

/-! ### parameter serialisation round trip -/

theorem writeLE_length : ∀ (n v : Nat), (writeLE n v).length = n
  | 0, _ => rfl
  | n+1, v => by simp [writeLE, writeLE_length n]

theorem leValue_writeLE : ∀ (n v : Nat), v < 256^n → leValue (writeLE n v) = v
  | 0, v, h => by simp at h; simp [writeLE, leValue, h]
  | n+1, v, h => by
    have : v / 256 < 256^n := by
      rw [Nat.div_lt_iff_lt_mul (by decide)]; rw [Nat.pow_succ] at h; exact h
    simp [writeLE, leValue, leValue_writeLE n (v/256) this]
    omega

theorem readLE_writeLE (n v : Nat) (rest : Bytes) (h : v < 256^n) :
    readLE n (writeLE n v ++ rest) = some (v, rest) := by
  have hl := writeLE_length n v
  have hlt : ¬ (n + List.length rest < n) := by omega
  simp [readLE, readBytes, hl, hlt, leValue_writeLE n v h]

section
variable {F : Type} [FloatOps F]

/-- the instance law needed for the round trip: `float → bits → float` is the identity and the
    pattern has 32 bits -/
def BitsRoundTrip (F : Type) [FloatOps F] : Prop :=
  ∀ x : F, toBits x < 2^32 ∧ (ofBits (toBits x) : F) = x

theorem decodeFloats_enc (hb : BitsRoundTrip F) : ∀ (xs : List F) (rest : Bytes),
    decodeFloats (F := F) xs.length (xs.flatMap encodeFloat ++ rest) = some (xs, rest)
  | [], rest => by simp [decodeFloats]
  | x :: xs, rest => by
    have h1 := readLE_writeLE 4 (toBits x) (xs.flatMap encodeFloat ++ rest)
      (by have := (hb x).1; omega)
    have h2 := decodeFloats_enc hb xs rest
    simp only [List.length_cons, decodeFloats, List.flatMap_cons, List.append_assoc, encodeFloat]
    rw [h1]
    simp only [h2, (hb x).2]

/-- `DecodeParameters ∘ EncodeParameters = id`, composable form -/
theorem decodeParameters_encodeParameters (hb : BitsRoundTrip F) (p : QParams F) (q : Nat)
    (hq1 : 1 ≤ q) (hq2 : q ≤ 30) (rest : Bytes) :
    decodeParameters (F := F) p.minValues.length (encodeParameters p q ++ rest)
      = some ((p, q), rest) := by
  unfold decodeParameters encodeParameters
  have h1 := decodeFloats_enc hb p.minValues (encodeFloat p.range ++ [q % 256] ++ rest)
  have h2 := readLE_writeLE 4 (toBits p.range) ([q % 256] ++ rest)
    (by have := (hb p.range).1; omega)
  have hq : q % 256 = q := by omega
  have hv : isQuantizationValid (q : Int) = true := by
    unfold isQuantizationValid; simp; omega
  simp only [List.append_assoc] at h1 h2 ⊢
  rw [h1]; simp only [encodeFloat]
  rw [h2]; simp [readU8, hq, hv, (hb p.range).2]

end
end Quant
end Draco
