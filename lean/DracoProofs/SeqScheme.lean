import DracoProofs.SeqGeometry
import DracoModel.Options
/-
  The prediction scheme of the sequential encoders is a function of geometry and options (not of the
  `double`-driven choices), and the laws of the option store (`DracoModel/Options.lean`).
-/
namespace Draco
open SeqEnc

/-- whatever `EncodeValues` writes starts with the scheme bytes -/
theorem encodeIntegerValues_prefix (ch : Choices) (level : Nat) (builtin : Bool) (i kind nc : Nat)
    (pred : Bool) (octa : Option OctaT) (numValues : Nat) (portable : List Int) (bs : Bytes)
    (hnv : numValues ≠ 0)
    (h : encodeIntegerValues ch level builtin i kind nc pred octa numValues portable = some bs) :
    ∃ rest, bs = schemePrefix kind pred portable ++ rest := by
  unfold encodeIntegerValues at h
  have hnv' : (numValues == 0) = false := by simpa using hnv
  simp only [hnv', Bool.false_eq_true, if_false] at h
  unfold schemePrefix
  generalize (pred && match Wrap.dataBounds portable with
    | none => true
    | some (mn, mx) => decide (mx - mn < 2 ^ 31 - 1)) = pred' at h ⊢
  cases pred' with
  | false =>
    simp only [Bool.not_false, if_true] at h
    split at h
    · cases h
    · simp only [Option.some.injEq] at h
      exact ⟨_, by rw [← h]; rfl⟩
  | true =>
    simp only [Bool.not_true, Bool.false_eq_true, if_false] at h
    by_cases hk : kind = 3
    · subst hk
      simp only [BEq.rfl, if_true] at h
      split at h
      · cases h
      · split at h
        · cases h
        · split at h
          · cases h
          · simp only [Option.some.injEq] at h
            exact ⟨_, by rw [← h]; rfl⟩
    · have hk' : (kind == 3) = false := by simpa using hk
      simp only [hk', Bool.false_eq_true, if_false] at h
      split at h
      · cases h
      · split at h
        · cases h
        · split at h
          · cases h
          · simp only [Option.some.injEq] at h
            rename_i _ t _ _ body _
            refine ⟨body ++ Wrap.encodeTransformData t, ?_⟩
            rw [← h]
            simp only [hk', Bool.false_eq_true, if_false, if_true]
            rfl

/-- the value block of every attribute starts with the scheme bytes the option model computes -/
theorem encodeAttribute_scheme (ch : Choices) (g : Geometry) (opts : EncOpts) (i : Nat) (a : Attribute)
    (e : AttEnc) (h : encodeAttribute (ch.resolved g opts) opts g.numPoints i a = some e) :
    e.encType = encoderType a (opts.att i) ∧
      ∃ rest, e.valueBytes = schemeBytesOf g opts i a ++ rest := by
  obtain ⟨hty, hp⟩ := portableOf_eq _ opts g.numPoints i a e h
  refine ⟨hty, ?_⟩
  unfold schemeBytesOf
  by_cases h0 : encoderType a (opts.att i) = 0
  · simp [h0]
  · by_cases hnv : a.numValues = 0
    · simp [hnv]
    · have hc : (encoderType a (opts.att i) == 0 || a.numValues == 0) = false := by simp [h0, hnv]
      simp only [hc, Bool.false_eq_true, if_false]
      have hne : e.encType ≠ 0 := by rw [hty]; exact h0
      rw [hp hne]
      have hsel : ∀ kind, predictionEnabled (ch.resolved g opts) (opts.att i) i kind =
          predictionEnabledSel (selectPredictionMethod g.isMesh opts g.atts g.numPoints i) (opts.att i) kind :=
        fun _ => rfl
      rcases encodeAttribute_cases _ opts g.numPoints i a e h with ⟨h0', _⟩ | ⟨h1, portable, vb, _, hvb, rfl⟩ |
          ⟨h2, mins, range, q, vb, _, hvb, rfl⟩ | ⟨h3, _, t, vb, _, hvb, rfl⟩
      · exact absurd h0' h0
      · rw [h1, ← hsel]; exact encodeIntegerValues_prefix _ _ _ _ _ _ _ _ _ _ _ hnv hvb
      · rw [h2, ← hsel]; exact encodeIntegerValues_prefix _ _ _ _ _ _ _ _ _ _ _ hnv hvb
      · rw [h3, ← hsel]; exact encodeIntegerValues_prefix _ _ _ _ _ _ _ _ _ _ _ hnv hvb

/-- the whole-stream encoder ignores `ch.selectPrediction` -/
theorem resolved_congr (ch1 ch2 : Choices) (g : Geometry) (opts : EncOpts)
    (ho : ch1.oracle = ch2.oracle) (ha : ch1.attScheme = ch2.attScheme) (hc : ch1.connScheme = ch2.connScheme) :
    ch1.resolved g opts = ch2.resolved g opts := by
  cases ch1; cases ch2
  simp only [Choices.resolved] at *
  subst ho ha hc
  rfl

/-! ### option store laws -/

namespace Opt

theorem lookup_filter_ne {β : Type} (n m : String) (h : n ≠ m) : ∀ (l : List (String × β)),
    (l.filter (fun e => e.1 != m)).lookup n = l.lookup n := by
  intro l
  induction l with
  | nil => rfl
  | cons e es ih =>
    obtain ⟨k, v⟩ := e
    by_cases hk : k = m
    · subst hk
      have : (n == k) = false := by simpa using h
      simp [List.filter_cons, List.lookup_cons, this, ih]
    · have hk' : (k != m) = true := by simpa using hk
      simp only [List.filter_cons, hk', if_true, List.lookup_cons, ih]

theorem find_set_self (o : Options) (n : String) (v : OptVal) : (o.set n v).find n = some v := by
  simp [Options.set, Options.find, List.lookup_cons]

theorem find_set_other (o : Options) (n m : String) (v : OptVal) (h : n ≠ m) :
    (o.set m v).find n = o.find n := by
  have : (n == m) = false := by simpa using h
  simp only [Options.set, Options.find, List.lookup_cons, this]
  exact lookup_filter_ne n m h o.entries

end Opt
end Draco
