import DracoProofs.EbCreateProps
import DracoProofs.EbSeams
import DracoProofs.EbTVIsoBase
/-
  The ATTRIBUTE corner table views of the Edgebreaker decoder and encoder are isomorphic under the corner map of the
  BASE views (`att_views_iso`, `att_views_iso_nondeg`).

  Stage 1: `RecomputeVerticesInternal` on both sides (`EbEnc.recomputeVertices`, the second loop of `Eb.buildAttConn`)
           is ONE function `recomputeG` over named bodies (`recomputeVertices_eq`, `buildAttConn_recompute`).
  Stage 2: `Opposite` / `SwingLeft` of the attribute views correspond, given corresponding seam flags
           (`att_opposite_corr`, `att_swingLeft_corr`).
  Stage 3: specification of a successful run of `recomputeG` on a table with fans (`FanTbl`, `FanHyp`):
           `recomputeG_spec` (`SecSpec` for every corner of every fan), packaged as `recomputeG_same_vertex`
           (same attribute vertex iff same base vertex and same sector) and `recomputeG_leftMost` (the entries of
           `vertex_to_left_most_corner_map_`).
  Stage 4: the isomorphism: `att_views_iso_gen` (on arrays, hypotheses per fan), `att_views_iso_tbl` (hypotheses as
           table invariants), `att_views_iso` (the decoder's `buildAttConn`, the encoder's `recomputeVertices` on a
           table made by `CornerTable.create`), `att_views_iso_nondeg` (the encoder's cover hypothesis from
           `createF_fan_complete`).

  Hypotheses beyond `TVIso` of the base views (all are invariants of corner tables / of `AddSeamEdge`; `TVIso` says
  nothing about `vertex_corners_` except through `IsOnBoundary`):
    * the left-most corner recorded for a vertex is a corner of that vertex (both sides);
    * every decoder corner / every image corner is reached from the left-most corner of its vertex by `SwingRight` steps
      (for the encoder: from `createF_fan_complete` for non-degenerate faces, `cover_enc_of_create`);
    * the end points of a seam edge are marked in `is_vertex_on_seam_` (both sides).
  The vertex seam flags of the two sides need not correspond.
-/
namespace Draco.EbEnc
open Draco
open Draco.Eb hiding iabs nextC prevC

namespace AttViews

/-! ## Stage 1: both loops are `recomputeG` -/

/-- (first corner of the sector, next corner on the left, finished) -/
abbrev LSt := Nat × Nat × Bool
/-- (`corner_to_vertex_map_`, `vertex_to_left_most_corner_map_`, current attribute vertex, corner, finished) -/
abbrev RSt := Array Nat × Array Nat × Nat × Nat × Bool

/-- `MeshAttributeCornerTable::Opposite` as `RecomputeVertices` uses it -/
def attOpp (opp : Array Nat) (es : Array Bool) (c : Nat) : R Nat :=
  if (c == inv) = true then pure inv
  else do
    let b ← rdB "IsCornerOppositeToSeamEdge" es c
    if b = true then pure inv else rd "CornerTable::Opposite" opp c

/-- one step of the swing to the left on the attribute table, from the left-most corner `c` of a seam vertex -/
def lStep (opp : Array Nat) (es : Array Bool) (c : Nat) (_x : Nat) (s : LSt) : R (ForInStep LSt) :=
  if (s.2.1 == inv) = true then pure (ForInStep.done (s.1, s.2.1, true))
  else do
    let o ← attOpp opp es (Eb.nextC s.2.1)
    if (Eb.nextC o == c) = true then do
      throw Err.fail
      pure (ForInStep.yield (s.2.1, Eb.nextC o, s.2.2))
    else pure (ForInStep.yield (s.2.1, Eb.nextC o, s.2.2))

/-- one step of the swing to the right over the corners of the vertex, `firstC` the corner the walk started at -/
def rStep (opp : Array Nat) (es : Array Bool) (firstC : Nat) (_x : Nat) (s : RSt) : R (ForInStep RSt) :=
  if (s.2.2.2.1 == inv || s.2.2.2.1 == firstC) = true then
    pure (ForInStep.done (s.1, s.2.1, s.2.2.1, s.2.2.2.1, true))
  else do
    let b ← rdB "IsCornerOppositeToSeamEdge" es (Eb.nextC s.2.2.2.1)
    let jp : Array Nat → Nat → R (ForInStep RSt) := fun lm firstVertId => do
      let c2v ← wr "corner_to_vertex_map_" s.1 s.2.2.2.1 firstVertId
      let actC ← swingRight opp s.2.2.2.1
      pure (ForInStep.yield (c2v, lm, firstVertId, actC, s.2.2.2.2))
    if b = true then jp (s.2.1.push s.2.2.2.1) s.2.1.size else jp s.2.1 s.2.2.1

/-- the walk to the right from the first corner `firstC` of the first sector -/
def vFinish (nc : Nat) (opp : Array Nat) (es : Array Bool) (c2v lm : Array Nat) (firstC : Nat) :
    R (ForInStep (Array Nat × Array Nat)) := do
  let c2v ← wr "corner_to_vertex_map_" c2v firstC lm.size
  let actC ← swingRight opp firstC
  let s ← forIn [:nc + 1] ((c2v, lm.push firstC, lm.size, actC, false) : RSt) (rStep opp es firstC)
  if (!s.2.2.2.2) = true then do
    throw (Err.fuel "RecomputeVertices: swing right")
    pure (ForInStep.yield (s.1, s.2.1))
  else pure (ForInStep.yield (s.1, s.2.1))

/-- the body of `RecomputeVerticesInternal` for the base vertex `v` -/
def vBody (nc : Nat) (opp vc : Array Nat) (es vs : Array Bool) (v : Nat) (s : Array Nat × Array Nat) :
    R (ForInStep (Array Nat × Array Nat)) :=
  if (vc[v]! == inv) = true then pure (ForInStep.yield (s.1, s.2))
  else do
    let b ← rdB "is_vertex_on_seam_" vs v
    if b = true then do
      let o ← attOpp opp es (Eb.nextC vc[v]!)
      let l ← forIn [:nc + 1] ((vc[v]!, Eb.nextC o, false) : LSt) (lStep opp es vc[v]!)
      if (!l.2.2) = true then do
        let _r ← (throw (Err.fuel "RecomputeVertices: swing left") : R Unit)
        vFinish nc opp es s.1 s.2 l.1
      else vFinish nc opp es s.1 s.2 l.1
    else vFinish nc opp es s.1 s.2 vc[v]!

/-- `MeshAttributeCornerTable::RecomputeVerticesInternal` on the arrays of a base table with `nc` corners -/
def recomputeG (nc : Nat) (opp vc : Array Nat) (es vs : Array Bool) : R (Array Nat × Array Nat) := do
  let s ← forIn [:vc.size] ((Array.replicate nc inv, Array.mkEmpty vc.size) : Array Nat × Array Nat)
    (vBody nc opp vc es vs)
  pure (s.1, s.2)

end AttViews
open AttViews

/-- the encoder's `RecomputeVertices` is `recomputeG` on its table -/
theorem recomputeVertices_eq (t : CT) (es vs : Array Bool) :
    recomputeVertices t es vs = recomputeG t.numCorners t.opp t.vc es vs := by
  rfl

/-- a successful `buildAttConn` is: the first loop (`markSeams`, DracoProofs/EbSeams.lean), then `recomputeG` on the
    flags of the first loop -/
theorem buildAttConn_recompute (c2vBase opp vc sc : Array Nat) (a : AttConn)
    (h : buildAttConn c2vBase opp vc sc = .ok a) :
    ∃ s, markSeams c2vBase opp vc sc = .ok s ∧ a.edgeSeam = s.1 ∧ a.vertSeam = s.2.1 ∧
      recomputeG c2vBase.size opp vc s.1 s.2.1 = .ok (a.c2v, a.lm) := by
  obtain ⟨s, h1, h2⟩ := (bind_ok_iff (α := Seams.BSt) (forIn sc ((Array.replicate c2vBase.size false,
    Array.replicate vc.size false, true) : Seams.BSt) (Seams.bacStep c2vBase opp)) _ a).mp h
  refine ⟨s, h1, ?_⟩
  obtain ⟨s2, h3, h4⟩ := (bind_ok_iff (α := Array Nat × Array Nat)
    (forIn [:vc.size] ((Array.replicate c2vBase.size inv, Array.mkEmpty vc.size) : Array Nat × Array Nat)
      (vBody c2vBase.size opp vc s.1 s.2.1)) _ a).mp h2
  cases h4
  refine ⟨rfl, rfl, ?_⟩
  show (forIn [:vc.size] ((Array.replicate c2vBase.size inv, Array.mkEmpty vc.size) : Array Nat × Array Nat)
      (vBody c2vBase.size opp vc s.1 s.2.1) >>= fun s => pure (s.1, s.2)) = _
  rw [h3]
  rfl

/-! ## Stage 2: `Opposite` / `SwingLeft` of the attribute views correspond -/

namespace AttViews

theorem rdB_ok' (site : String) (a : Array Bool) (i : Nat) (h : i < a.size) : rdB site a i = .ok a[i]! := by
  unfold rdB
  rw [dif_pos h]
  simp [h, pure, Except.pure]

theorem beq_inv_false {c : Nat} (h : c ≠ inv) : (c == inv) = false := by simpa using h

end AttViews

/-- **(i)** `Opposite` of the attribute views (the base views `d`, `e` with the seam flags `sd`, `se`; whatever their
    vertex maps are) corresponds under the corner map of the base views, when the flags correspond -/
theorem att_opposite_corr {d e : TView} {φ ψ : Nat → Nat} (h : TVIso d e φ ψ) (hd : d.isAtt = false)
    (sd se c2vd lmd c2ve lme) (hsd : 3 * d.numFaces ≤ sd.size) (hse : 3 * e.numFaces ≤ se.size)
    (hflag : ∀ c, c < 3 * d.numFaces → sd[c]! = se[φ c]!) (c : Nat) (hc : c < 3 * d.numFaces) :
    ∃ o, ({ c2v := c2vd, opp := d.opp, seam := sd, lm := lmd, isAtt := true, numFaces := d.numFaces } : TView).opposite c
        = .ok o ∧ (o = inv ∨ o < 3 * d.numFaces) ∧
      ({ c2v := c2ve, opp := e.opp, seam := se, lm := lme, isAtt := true, numFaces := e.numFaces } : TView).opposite (φ c)
        = .ok (ext φ o) := by
  obtain ⟨o, h1, h2, h3⟩ := h.opposite c hc
  have he : e.isAtt = false := by rw [← h.isAtt]; exact hd
  have hci := beq_inv_false (h.ne_inv c hc)
  have hpi := beq_inv_false (h.phi_ne_inv c hc)
  have hpl := h.phi_lt c hc
  simp only [TView.opposite, hci, hd, Bool.false_eq_true, if_false] at h1
  simp only [TView.opposite, hpi, he, Bool.false_eq_true, if_false] at h3
  simp only [TView.opposite, hci, hpi, Bool.false_eq_true, if_false, if_true]
  rw [rdB_ok' _ sd c (by omega), rdB_ok' _ se (φ c) (by omega), ← hflag c hc]
  by_cases hs : sd[c]! = true
  · refine ⟨inv, ?_, Or.inl rfl, ?_⟩
    · simp [hs, bind, Except.bind, pure, Except.pure]
    · simp [hs, bind, Except.bind, pure, Except.pure]
  · refine ⟨o, ?_, h2, ?_⟩
    · simp only [bind, Except.bind, hs, Bool.false_eq_true, if_false]; exact h1
    · simp only [bind, Except.bind, hs, Bool.false_eq_true, if_false]; exact h3

/-- `SwingLeft` of the attribute views corresponds -/
theorem att_swingLeft_corr {d e : TView} {φ ψ : Nat → Nat} (h : TVIso d e φ ψ) (hd : d.isAtt = false)
    (sd se c2vd lmd c2ve lme) (hsd : 3 * d.numFaces ≤ sd.size) (hse : 3 * e.numFaces ≤ se.size)
    (hflag : ∀ c, c < 3 * d.numFaces → sd[c]! = se[φ c]!) (c : Nat) (hc : c < 3 * d.numFaces) :
    ∃ o, ({ c2v := c2vd, opp := d.opp, seam := sd, lm := lmd, isAtt := true, numFaces := d.numFaces } : TView).swingLeft c
        = .ok o ∧ (o = inv ∨ o < 3 * d.numFaces) ∧
      ({ c2v := c2ve, opp := e.opp, seam := se, lm := lme, isAtt := true, numFaces := e.numFaces } : TView).swingLeft (φ c)
        = .ok (ext φ o) := by
  obtain ⟨o, h1, ho, h2⟩ := att_opposite_corr h hd sd se c2vd lmd c2ve lme hsd hse hflag (Eb.nextC c) (TVIso.nextC_lt hc)
  refine ⟨Eb.nextC o, ?_, next_ok ho, ?_⟩
  · unfold TView.swingLeft; rw [h1]; rfl
  · unfold TView.swingLeft; rw [← h.phi_next c hc, h2, ← ext_next h o ho]; rfl

/-! ## Stage 3: specification of `recomputeG`

  The base table is given by its arrays; `sRP` / `sLP` are `SwingRight` / `SwingLeft` of the base table and `aLP` is
  `SwingLeft` of the attribute table as pure functions (`inv` for the boundary, `inv ↦ inv`). -/

namespace AttViews

/-- `CornerTable::SwingRight` of the base table -/
def sRP (opp : Array Nat) (c : Nat) : Nat := if c = inv then inv else Eb.prevC (opp[Eb.prevC c]!)
/-- `CornerTable::SwingLeft` of the base table -/
def sLP (opp : Array Nat) (c : Nat) : Nat := if c = inv then inv else Eb.nextC (opp[Eb.nextC c]!)
/-- `MeshAttributeCornerTable::Opposite` -/
def aOppP (opp : Array Nat) (es : Array Bool) (c : Nat) : Nat := if es[c]! = true then inv else opp[c]!
/-- `MeshAttributeCornerTable::SwingLeft` -/
def aLP (opp : Array Nat) (es : Array Bool) (c : Nat) : Nat :=
  if c = inv then inv else Eb.nextC (aOppP opp es (Eb.nextC c))

/-- the base table: `N` corners in whole faces, `Opposite` an involution where it is defined -/
structure BaseTbl (N : Nat) (opp : Array Nat) : Prop where
  n3 : N % 3 = 0
  le : N ≤ inv
  oppsz : opp.size = N
  invol : ∀ c, c < N → opp[c]! ≠ inv → opp[c]! < N ∧ opp[opp[c]!]! = c

theorem nextC_inv : Eb.nextC inv = inv := by simp [Eb.nextC]
theorem prevC_inv : Eb.prevC inv = inv := by simp [Eb.prevC]

theorem nextC_ltN {N c : Nat} (hN : N % 3 = 0) (hc : c < N) : Eb.nextC c < N := by
  have e : N = 3 * (N / 3) := by omega
  rw [e] at hc ⊢
  exact TVIso.nextC_lt hc

theorem prevC_ltN {N c : Nat} (hN : N % 3 = 0) (hle : N ≤ inv) (hc : c < N) : Eb.prevC c < N := by
  have e : N = 3 * (N / 3) := by omega
  rw [e] at hc hle ⊢
  exact TVIso.prevC_lt hc hle

section base
variable {N : Nat} {opp : Array Nat} (hb : BaseTbl N opp)
include hb

theorem BaseTbl.ne_inv {c : Nat} (hc : c < N) : c ≠ inv := by have := hb.le; omega

theorem BaseTbl.sR_lt {c : Nat} (hc : c < N) : sRP opp c = inv ∨ sRP opp c < N := by
  unfold sRP
  rw [if_neg (hb.ne_inv hc)]
  by_cases ho : opp[Eb.prevC c]! = inv
  · left; rw [ho, prevC_inv]
  · right; exact prevC_ltN hb.n3 hb.le (hb.invol _ (prevC_ltN hb.n3 hb.le hc) ho).1

theorem BaseTbl.sL_lt {c : Nat} (hc : c < N) : sLP opp c = inv ∨ sLP opp c < N := by
  unfold sLP
  rw [if_neg (hb.ne_inv hc)]
  by_cases ho : opp[Eb.nextC c]! = inv
  · left; rw [ho, nextC_inv]
  · right; exact nextC_ltN hb.n3 (hb.invol _ (nextC_ltN hb.n3 hc) ho).1

/-- `SwingLeft` undoes `SwingRight` -/
theorem BaseTbl.sR_sL {c b : Nat} (hc : c < N) (h : sRP opp c = b) (hne : b ≠ inv) : b < N ∧ sLP opp b = c := by
  have hlt : b < N := by
    rcases hb.sR_lt hc with e | e
    · rw [h] at e; exact absurd e hne
    · rw [h] at e; exact e
  refine ⟨hlt, ?_⟩
  unfold sRP at h
  rw [if_neg (hb.ne_inv hc)] at h
  have hle := hb.le
  have ho : opp[Eb.prevC c]! ≠ inv := by
    intro e; rw [e, prevC_inv] at h; exact hne h.symm
  obtain ⟨h1, h2⟩ := hb.invol _ (prevC_ltN hb.n3 hb.le hc) ho
  unfold sLP
  rw [if_neg hne, ← h, Eb.nextC_prevC _ (by omega), h2, Eb.nextC_prevC _ (by omega)]

/-- `SwingRight` undoes `SwingLeft` -/
theorem BaseTbl.sL_sR {c b : Nat} (hc : c < N) (h : sLP opp c = b) (hne : b ≠ inv) : b < N ∧ sRP opp b = c := by
  have hlt : b < N := by
    rcases hb.sL_lt hc with e | e
    · rw [h] at e; exact absurd e hne
    · rw [h] at e; exact e
  refine ⟨hlt, ?_⟩
  unfold sLP at h
  rw [if_neg (hb.ne_inv hc)] at h
  have hle := hb.le
  have ho : opp[Eb.nextC c]! ≠ inv := by
    intro e; rw [e, nextC_inv] at h; exact hne h.symm
  obtain ⟨h1, h2⟩ := hb.invol _ (nextC_ltN hb.n3 hc) ho
  unfold sRP
  rw [if_neg hne, ← h, Eb.prevC_nextC _ (by omega), h2, Eb.prevC_nextC _ (by omega)]

/-- the attribute `SwingLeft` is the base `SwingLeft` unless the edge is a seam -/
theorem BaseTbl.aL_cases (es : Array Bool) {c : Nat} (hc : c < N) :
    (aLP opp es c = inv ∧ (es[Eb.nextC c]! = true ∨ sLP opp c = inv)) ∨
    (aLP opp es c ≠ inv ∧ es[Eb.nextC c]! = false ∧ aLP opp es c = sLP opp c) := by
  unfold aLP aOppP sLP
  rw [if_neg (hb.ne_inv hc), if_neg (hb.ne_inv hc)]
  by_cases hs : es[Eb.nextC c]! = true
  · left; rw [if_pos hs, nextC_inv]; exact ⟨rfl, Or.inl hs⟩
  · rw [if_neg hs]
    by_cases e : Eb.nextC (opp[Eb.nextC c]!) = inv
    · left; exact ⟨e, Or.inr e⟩
    · right; exact ⟨e, by simpa using hs, rfl⟩

theorem BaseTbl.aL_lt (es : Array Bool) {c : Nat} (hc : c < N) : aLP opp es c = inv ∨ aLP opp es c < N := by
  rcases hb.aL_cases es hc with ⟨h, _⟩ | ⟨_, _, h⟩
  · exact Or.inl h
  · rw [h]; exact hb.sL_lt hc

/-- a step to the left on the attribute table is undone by `SwingRight` -/
theorem BaseTbl.aL_sR (es : Array Bool) {c b : Nat} (hc : c < N) (h : aLP opp es c = b) (hne : b ≠ inv) :
    b < N ∧ sRP opp b = c ∧ es[Eb.nextC c]! = false := by
  rcases hb.aL_cases es hc with ⟨h1, _⟩ | ⟨_, h2, h3⟩
  · rw [h] at h1; exact absurd h1 hne
  · rw [h] at h3
    obtain ⟨a, b'⟩ := hb.sL_sR hc h3.symm hne
    exact ⟨a, b', h2⟩

/-- the model's `SwingRight` on a valid corner -/
theorem BaseTbl.swingRight_eq {c : Nat} (hc : c < N) : swingRight opp c = .ok (sRP opp c) := by
  have h1 := prevC_ltN hb.n3 hb.le hc
  unfold swingRight Eb.opposite sRP
  rw [beq_inv_false (hb.ne_inv h1), if_neg (hb.ne_inv hc)]
  simp only [Bool.false_eq_true, if_false]
  rw [EbEnc.rd_ok' _ _ _ (by rw [hb.oppsz]; exact h1)]
  rfl

/-- the model's attribute `Opposite` on a valid corner -/
theorem BaseTbl.attOpp_eq (es : Array Bool) (hes : es.size = N) {c : Nat} (hc : c < N) :
    attOpp opp es c = .ok (aOppP opp es c) := by
  unfold attOpp aOppP
  rw [beq_inv_false (hb.ne_inv hc)]
  simp only [Bool.false_eq_true, if_false]
  rw [rdB_ok' _ es c (by omega)]
  by_cases hs : es[c]! = true
  · simp [hs, bind, Except.bind, pure, Except.pure]
  · simp only [bind, Except.bind, hs, Bool.false_eq_true, if_false]
    exact EbEnc.rd_ok' _ _ _ (by rw [hb.oppsz]; exact hc)

/-- … followed by `Next`: the attribute `SwingLeft` -/
theorem BaseTbl.attOpp_next (es : Array Bool) (hes : es.size = N) {c : Nat} (hc : c < N) :
    attOpp opp es (Eb.nextC c) = .ok (aOppP opp es (Eb.nextC c)) ∧
      Eb.nextC (aOppP opp es (Eb.nextC c)) = aLP opp es c := by
  refine ⟨hb.attOpp_eq es hes (nextC_ltN hb.n3 hc), ?_⟩
  unfold aLP
  rw [if_neg (hb.ne_inv hc)]

end base

/-! ### iteration -/

theorem sRP_inv (opp : Array Nat) : sRP opp inv = inv := by simp [sRP]
theorem aLP_inv (opp : Array Nat) (es : Array Bool) : aLP opp es inv = inv := by simp [aLP]

theorem iter_fix {f : Nat → Nat} (h : f inv = inv) (k : Nat) : iter f k inv = inv := by
  induction k with
  | zero => rfl
  | succ k ih => simp only [iter, h, ih]

/-- a valid iterate has valid predecessors -/
theorem iter_ne_inv {f : Nat → Nat} (h : f inv = inv) {k j : Nat} {a : Nat} (hk : iter f k a ≠ inv) (hj : j ≤ k) :
    iter f j a ≠ inv := by
  intro e
  have : iter f k a = iter f (k - j) (iter f j a) := by rw [← iter_add]; congr 1; omega
  rw [this, e, iter_fix h] at hk
  exact hk rfl

end AttViews

namespace AttViews

/-! ### loops with `break` -/

theorem forIn_range_done {σ : Type} (f : Nat → σ → R (ForInStep σ)) (I : Nat → σ → Prop) (Q : σ → Prop) :
    ∀ (k a : Nat), (∀ j s r, a ≤ j → j < a + k → I j s → f j s = .ok r →
        (∃ s', r = .yield s' ∧ I (j + 1) s') ∨ (∃ s', r = .done s' ∧ Q s')) →
    ∀ init out, I a init → forIn (List.range' a k 1) init f = .ok out → I (a + k) out ∨ Q out := by
  intro k
  induction k with
  | zero =>
    intro a _ init out hi h
    simp [pure, Except.pure] at h
    subst h
    exact Or.inl hi
  | succ k ih =>
    intro a h init out hi hf
    rw [List.range'_succ, List.forIn_cons, bind_ok_iff] at hf
    obtain ⟨r, h1, h2⟩ := hf
    rcases h a init r (Nat.le_refl _) (by omega) hi h1 with ⟨s', rfl, hI'⟩ | ⟨s', rfl, hQ⟩
    · have := ih (a + 1) (fun j s r hj1 hj2 hI => h j s r (by omega) (by omega) hI) s' out hI' h2
      rw [show a + (k + 1) = a + 1 + k by omega]
      exact this
    · simp only [pure, Except.pure] at h2
      cases h2
      exact Or.inr hQ

theorem set_get! (a : Array Nat) (i v x : Nat) (h : i < a.size) :
    (a.set i v h)[x]! = if x = i then v else a[x]! := by
  simp only [Array.getElem!_eq_getD, Array.getD_eq_getD_getElem?, Array.getElem?_set]
  by_cases e : i = x
  · subst e; simp
  · simp [e, Ne.symm e]

theorem push_get! (a : Array Nat) (v x : Nat) :
    (a.push v)[x]! = if x = a.size then v else a[x]! := by
  simp only [Array.getElem!_eq_getD, Array.getD_eq_getD_getElem?, Array.getElem?_push]
  by_cases e : x = a.size
  · simp [e]
  · simp [e]

theorem wr_ok {site : String} {a : Array Nat} {i v : Nat} {r : Array Nat} (h : wr site a i v = .ok r) :
    i < a.size ∧ r.size = a.size ∧ ∀ x, r[x]! = if x = i then v else a[x]! := by
  unfold wr at h
  split at h
  · rename_i hi
    simp only [pure, Except.pure] at h
    cases h
    exact ⟨hi, by simp, fun x => set_get! a i v x hi⟩
  · cases h

/-! ### the swing to the left (seam vertices) -/

theorem lPhase {N : Nat} {opp : Array Nat} (hb : BaseTbl N opp) (es : Array Bool) (hes : es.size = N)
    (c0 : Nat) (hc0 : c0 < N) (fuel : Nat) (out : LSt)
    (h : forIn [:fuel] ((c0, aLP opp es c0, false) : LSt) (lStep opp es c0) = .ok out) (hfin : out.2.2 = true) :
    out.1 < N ∧ (∃ k, iter (aLP opp es) k c0 = out.1) ∧ aLP opp es out.1 = inv := by
  rw [Seams.range_forIn] at h
  have key := forIn_range_done (lStep opp es c0)
    (fun _ s => s.2.2 = false ∧ s.1 < N ∧ (∃ k, iter (aLP opp es) k c0 = s.1) ∧ s.2.1 = aLP opp es s.1)
    (fun s => s.1 < N ∧ (∃ k, iter (aLP opp es) k c0 = s.1) ∧ aLP opp es s.1 = inv) fuel 0
    (by
      intro j s r _ _ ⟨h1, h2, ⟨k, h3⟩, h4⟩ hr
      obtain ⟨fc, ac, fin⟩ := s
      simp only at h1 h2 h3 h4
      unfold lStep at hr
      by_cases hd : (ac == inv) = true
      · simp only [hd, if_true, pure, Except.pure] at hr
        cases hr
        right
        refine ⟨_, rfl, h2, ⟨k, h3⟩, ?_⟩
        rw [← h4]; simpa using hd
      · simp only [hd] at hr
        have hne : ac ≠ inv := by simpa using hd
        have hac : ac < N := by
          rcases hb.aL_lt es h2 with e | e
          · rw [← h4] at e; exact absurd e hne
          · rw [← h4] at e; exact e
        obtain ⟨e1, e2⟩ := hb.attOpp_next es hes hac
        rw [e1] at hr
        simp only [Bool.false_eq_true, if_false, bind, Except.bind, e2] at hr
        by_cases hcy : (aLP opp es ac == c0) = true
        · simp only [hcy, if_true] at hr
          cases hr
        · simp only [hcy, Bool.false_eq_true, if_false, pure, Except.pure] at hr
          cases hr
          left
          refine ⟨_, rfl, h1, hac, ⟨k + 1, ?_⟩, rfl⟩
          rw [iter_succ', h3, h4])
    _ out ⟨rfl, hc0, ⟨0, rfl⟩, rfl⟩ h
  rcases key with ⟨e, _⟩ | hq
  · rw [hfin] at e; cases e
  · exact hq

/-! ### the swing to the right -/

/-- index (in the walk `X`) of the first corner of the sector of the `i`-th corner of the walk -/
def stI (es : Array Bool) (X : Nat → Nat) : Nat → Nat
  | 0 => 0
  | i + 1 => if es[Eb.nextC (X (i + 1))]! = true then i + 1 else stI es X i

/-- the invariant of the walk to the right from `f`, after `j` steps: `c2v00`, `lm00` the maps before the walk -/
structure RInv (N : Nat) (opp : Array Nat) (es : Array Bool) (f : Nat) (c2v00 lm00 : Array Nat) (j : Nat)
    (c2v lm : Array Nat) (fid act : Nat) : Prop where
  size : c2v.size = N
  act : act = iter (sRP opp) (j + 1) f
  valid : ∀ i, i ≤ j → iter (sRP opp) i f < N
  nef : ∀ i, 1 ≤ i → i ≤ j → iter (sRP opp) i f ≠ f
  lmsz : lm00.size < lm.size
  lmpre : ∀ w, w < lm00.size → lm[w]! = lm00[w]!
  frame : ∀ x, (∀ i, i ≤ j → x ≠ iter (sRP opp) i f) → c2v[x]! = c2v00[x]!
  ids : ∀ i, i ≤ j → lm00.size ≤ c2v[iter (sRP opp) i f]! ∧ c2v[iter (sRP opp) i f]! < lm.size ∧
    lm[c2v[iter (sRP opp) i f]!]! = iter (sRP opp) (stI es (fun i => iter (sRP opp) i f) i) f
  lms : ∀ w, lm00.size ≤ w → w < lm.size → ∃ i, i ≤ j ∧ lm[w]! = iter (sRP opp) i f ∧ c2v[iter (sRP opp) i f]! = w
  fid : fid = c2v[iter (sRP opp) j f]!

/-- the corners of the walk are distinct until it returns to its start -/
theorem walk_inj {N : Nat} {opp : Array Nat} (hb : BaseTbl N opp) {f j : Nat}
    (hv : ∀ i, i ≤ j → iter (sRP opp) i f < N) (hne : ∀ i, 1 ≤ i → i ≤ j → iter (sRP opp) i f ≠ f) :
    ∀ a b, a < b → b ≤ j → iter (sRP opp) a f ≠ iter (sRP opp) b f := by
  intro a
  induction a with
  | zero => intro b hab hb' e; exact hne b (by omega) hb' e.symm
  | succ a ih =>
    intro b hab hbj e
    obtain ⟨b', rfl⟩ : ∃ b', b = b' + 1 := ⟨b - 1, by omega⟩
    rw [iter_succ', iter_succ'] at e
    have h1 := hb.sR_sL (hv a (by omega)) rfl (hb.ne_inv (by rw [← iter_succ' (sRP opp) a f]; exact hv (a + 1) (by omega)))
    have h2 := hb.sR_sL (hv b' (by omega)) rfl (hb.ne_inv (by rw [← iter_succ' (sRP opp) b' f]; exact hv (b' + 1) (by omega)))
    rw [e] at h1
    exact ih b' (by omega) (by omega) (h1.2.symm.trans h2.2)

theorem RInv.step {N : Nat} {opp : Array Nat} (hb : BaseTbl N opp) {es : Array Bool} {f : Nat} {c2v00 lm00 : Array Nat}
    {j : Nat} {c2v lm : Array Nat} {fid a : Nat} (hI : RInv N opp es f c2v00 lm00 j c2v lm fid a)
    (ha : a ≠ inv) (haf : a ≠ f) (c2v' lm' : Array Nat) (fid' : Nat)
    (hsz : c2v'.size = c2v.size) (hc2v : ∀ x, c2v'[x]! = if x = a then fid' else c2v[x]!)
    (hcase : (es[Eb.nextC a]! = true ∧ lm' = lm.push a ∧ fid' = lm.size) ∨
      (es[Eb.nextC a]! = false ∧ lm' = lm ∧ fid' = fid)) :
    RInv N opp es f c2v00 lm00 (j + 1) c2v' lm' fid' (sRP opp a) := by
  have haX : a = iter (sRP opp) (j + 1) f := hI.act
  have haN : a < N := by
    have := hb.sR_lt (hI.valid j (Nat.le_refl _))
    rw [← iter_succ' (sRP opp) j f, ← haX] at this
    rcases this with e | e
    · exact absurd e ha
    · exact e
  have hvalid : ∀ i, i ≤ j + 1 → iter (sRP opp) i f < N := by
    intro i hi
    by_cases e : i = j + 1
    · rw [e, ← haX]; exact haN
    · exact hI.valid i (by omega)
  have hnef : ∀ i, 1 ≤ i → i ≤ j + 1 → iter (sRP opp) i f ≠ f := by
    intro i h1 hi
    by_cases e : i = j + 1
    · rw [e, ← haX]; exact haf
    · exact hI.nef i h1 (by omega)
  have hdist : ∀ i, i ≤ j → iter (sRP opp) i f ≠ a := by
    intro i hi
    rw [haX]
    exact walk_inj hb hvalid hnef i (j + 1) (by omega) (Nat.le_refl _)
  have hold : ∀ i, i ≤ j → c2v'[iter (sRP opp) i f]! = c2v[iter (sRP opp) i f]! := by
    intro i hi
    rw [hc2v, if_neg (hdist i hi)]
  have hlmle : lm.size ≤ lm'.size := by
    rcases hcase with ⟨_, e, _⟩ | ⟨_, e, _⟩
    · rw [e]; simp
    · rw [e]
  have hlmold : ∀ w, w < lm.size → lm'[w]! = lm[w]! := by
    intro w hw
    rcases hcase with ⟨_, e, _⟩ | ⟨_, e, _⟩
    · rw [e, push_get!, if_neg (by omega)]
    · rw [e]
  have hlmsz := hI.lmsz
  -- the id of the new corner
  have hnew : lm00.size ≤ fid' ∧ fid' < lm'.size ∧
      lm'[fid']! = iter (sRP opp) (stI es (fun i => iter (sRP opp) i f) (j + 1)) f := by
    rcases hcase with ⟨e1, e2, e3⟩ | ⟨e1, e2, e3⟩
    · refine ⟨by omega, by rw [e2, e3]; simp, ?_⟩
      rw [e2, e3, push_get!, if_pos rfl]
      show a = iter (sRP opp) (if es[Eb.nextC (iter (sRP opp) (j + 1) f)]! = true then j + 1 else _) f
      rw [← haX, if_pos e1]
      exact haX
    · obtain ⟨h1, h2, h3⟩ := hI.ids j (Nat.le_refl _)
      rw [← hI.fid] at h1 h2 h3
      refine ⟨by omega, by rw [e2, e3]; exact h2, ?_⟩
      rw [e2, e3, h3]
      show _ = iter (sRP opp) (if es[Eb.nextC (iter (sRP opp) (j + 1) f)]! = true then j + 1 else _) f
      rw [← haX, if_neg (by simp [e1])]
  refine ⟨by rw [hsz]; exact hI.size, by rw [iter_succ', ← haX], hvalid, hnef, by omega, ?_, ?_, ?_, ?_, ?_⟩
  · intro w hw
    rw [hlmold w (by omega)]
    exact hI.lmpre w hw
  · intro x hx
    rw [hc2v, if_neg (by rw [haX]; exact hx (j + 1) (Nat.le_refl _))]
    exact hI.frame x (fun i hi => hx i (by omega))
  · intro i hi
    by_cases e : i = j + 1
    · subst e
      rw [← haX, hc2v, if_pos rfl]
      exact hnew
    · obtain ⟨h1, h2, h3⟩ := hI.ids i (by omega)
      rw [hold i (by omega)]
      exact ⟨h1, by omega, by rw [hlmold _ h2]; exact h3⟩
  · intro w hw1 hw2
    by_cases hw : w < lm.size
    · obtain ⟨i, hi, h1, h2⟩ := hI.lms w hw1 hw
      exact ⟨i, by omega, by rw [hlmold w hw]; exact h1, by rw [hold i hi]; exact h2⟩
    · rcases hcase with ⟨e1, e2, e3⟩ | ⟨e1, e2, e3⟩
      · have : w = lm.size := by rw [e2] at hw2; simp at hw2; omega
        refine ⟨j + 1, Nat.le_refl _, ?_, ?_⟩
        · rw [this, e2, push_get!, if_pos rfl]; exact haX
        · rw [← haX, hc2v, if_pos rfl, e3, this]
      · rw [e2] at hw2; omega
  · rw [← haX, hc2v, if_pos rfl]

theorem RInv.init {N : Nat} {opp : Array Nat} (es : Array Bool) {f : Nat} (hf : f < N) (c2v00 lm00 c2v0 : Array Nat)
    (hsz : c2v0.size = N) (hc2v : ∀ x, c2v0[x]! = if x = f then lm00.size else c2v00[x]!) :
    RInv N opp es f c2v00 lm00 0 c2v0 (lm00.push f) lm00.size (sRP opp f) := by
  refine ⟨hsz, rfl, ?_, ?_, by simp, ?_, ?_, ?_, ?_, ?_⟩
  · intro i hi
    have : i = 0 := by omega
    subst this; exact hf
  · intro i h1 h2; omega
  · intro w hw
    rw [push_get!, if_neg (by omega)]
  · intro x hx
    have hxf : x ≠ f := hx 0 (Nat.le_refl _)
    rw [hc2v, if_neg hxf]
  · intro i hi
    have : i = 0 := by omega
    subst this
    show lm00.size ≤ c2v0[f]! ∧ c2v0[f]! < (lm00.push f).size ∧ (lm00.push f)[c2v0[f]!]! = f
    rw [hc2v, if_pos rfl, push_get!, if_pos rfl]
    simp
  · intro w h1 h2
    have : w = lm00.size := by simp at h2; omega
    refine ⟨0, Nat.le_refl _, ?_, ?_⟩
    · rw [this, push_get!, if_pos rfl]; rfl
    · show c2v0[f]! = w
      rw [hc2v, if_pos rfl, this]
  · show lm00.size = c2v0[f]!
    rw [hc2v, if_pos rfl]

/-- one iteration of the walk to the right -/
theorem rStep_ok {N : Nat} {opp : Array Nat} (hb : BaseTbl N opp) (es : Array Bool)
    (f : Nat) (c2v00 lm00 : Array Nat) (j x : Nat) (s : RSt) (r : ForInStep RSt)
    (hI : RInv N opp es f c2v00 lm00 j s.1 s.2.1 s.2.2.1 s.2.2.2.1) (hfin : s.2.2.2.2 = false)
    (hr : rStep opp es f x s = .ok r) :
    (∃ s', r = .yield s' ∧ RInv N opp es f c2v00 lm00 (j + 1) s'.1 s'.2.1 s'.2.2.1 s'.2.2.2.1 ∧ s'.2.2.2.2 = false) ∨
    (∃ s', r = .done s' ∧ RInv N opp es f c2v00 lm00 j s'.1 s'.2.1 s'.2.2.1 s'.2.2.2.1 ∧ s'.2.2.2.2 = true ∧
      (iter (sRP opp) (j + 1) f = inv ∨ iter (sRP opp) (j + 1) f = f)) := by
  obtain ⟨c2v, lm, fid, act, fin⟩ := s
  simp only at hI hfin
  unfold rStep at hr
  simp only at hr
  by_cases hd : (act == inv || act == f) = true
  · rw [if_pos hd] at hr
    simp only [pure, Except.pure] at hr
    cases hr
    right
    refine ⟨_, rfl, hI, rfl, ?_⟩
    rw [← hI.act]
    simpa using hd
  · rw [if_neg hd, bind_ok_iff] at hr
    obtain ⟨b, hb1, hr⟩ := hr
    have hne : act ≠ inv ∧ act ≠ f := by simpa using hd
    have haN : act < N := by
      have := hb.sR_lt (hI.valid j (Nat.le_refl _))
      rw [← iter_succ' (sRP opp) j f, ← hI.act] at this
      rcases this with e | e
      · exact absurd e hne.1
      · exact e
    obtain ⟨_, rfl⟩ := Seams.rdB_ok hb1
    left
    by_cases hbt : es[Eb.nextC act]! = true
    · rw [if_pos hbt, bind_ok_iff] at hr
      obtain ⟨c2v', hw, hr⟩ := hr
      rw [hb.swingRight_eq haN] at hr
      simp only [bind, Except.bind, pure, Except.pure] at hr
      cases hr
      obtain ⟨_, w2, w3⟩ := wr_ok hw
      exact ⟨_, rfl, hI.step hb hne.1 hne.2 c2v' _ _ w2 w3 (Or.inl ⟨hbt, rfl, rfl⟩), hfin⟩
    · rw [if_neg hbt, bind_ok_iff] at hr
      obtain ⟨c2v', hw, hr⟩ := hr
      rw [hb.swingRight_eq haN] at hr
      simp only [bind, Except.bind, pure, Except.pure] at hr
      cases hr
      obtain ⟨_, w2, w3⟩ := wr_ok hw
      exact ⟨_, rfl, hI.step hb hne.1 hne.2 c2v' _ _ w2 w3 (Or.inr ⟨by simpa using hbt, rfl, rfl⟩), hfin⟩

/-- the walk to the right from `f`, on maps `c2v00`, `lm00` -/
theorem vFinish_ok {N : Nat} {opp : Array Nat} (hb : BaseTbl N opp) (es : Array Bool)
    (c2v00 lm00 : Array Nat) (hsz : c2v00.size = N) (f : Nat) (fuel : Nat) (r : ForInStep (Array Nat × Array Nat))
    (hr : vFinish fuel opp es c2v00 lm00 f = .ok r) :
    f < N ∧ ∃ c2v lm fid act J, r = .yield (c2v, lm) ∧ RInv N opp es f c2v00 lm00 J c2v lm fid act ∧
      (iter (sRP opp) (J + 1) f = inv ∨ iter (sRP opp) (J + 1) f = f) := by
  unfold vFinish at hr
  rw [bind_ok_iff] at hr
  obtain ⟨c2v0, hw, hr⟩ := hr
  obtain ⟨w1, w2, w3⟩ := wr_ok hw
  have hf : f < N := by omega
  refine ⟨hf, ?_⟩
  rw [hb.swingRight_eq hf, ok_bind, bind_ok_iff] at hr
  obtain ⟨s, hl, hr⟩ := hr
  rw [Seams.range_forIn] at hl
  have key := forIn_range_done (rStep opp es f)
    (fun j s => RInv N opp es f c2v00 lm00 j s.1 s.2.1 s.2.2.1 s.2.2.2.1 ∧ s.2.2.2.2 = false)
    (fun s => ∃ J, RInv N opp es f c2v00 lm00 J s.1 s.2.1 s.2.2.1 s.2.2.2.1 ∧ s.2.2.2.2 = true ∧
      (iter (sRP opp) (J + 1) f = inv ∨ iter (sRP opp) (J + 1) f = f)) (fuel + 1) 0
    (by
      intro j s r _ _ ⟨hI, hfin⟩ hr
      rcases rStep_ok hb es f c2v00 lm00 j j s r hI hfin hr with ⟨s', e, h1, h2⟩ | ⟨s', e, h1, h2, h3⟩
      · exact Or.inl ⟨s', e, h1, h2⟩
      · exact Or.inr ⟨s', e, j, h1, h2, h3⟩)
    _ s ⟨RInv.init es hf c2v00 lm00 c2v0 (by omega) w3, rfl⟩ hl
  rcases key with ⟨_, e⟩ | ⟨J, hI, e, hend⟩
  · rw [e] at hr
    simp only [Bool.not_false, if_true] at hr
    cases hr
  · rw [e] at hr
    simp only [Bool.not_true, Bool.false_eq_true, if_false, pure, Except.pure] at hr
    cases hr
    exact ⟨_, _, _, _, J, rfl, hI, hend⟩

end AttViews

namespace AttViews

/-! ### what the walk to the right established -/

theorem stI_le (es : Array Bool) (X : Nat → Nat) (i : Nat) : stI es X i ≤ i := by
  induction i with
  | zero => exact Nat.le_refl _
  | succ i ih => unfold stI; split <;> omega

theorem stI_cut (es : Array Bool) (X : Nat → Nat) (i : Nat) (h : stI es X i ≠ 0) :
    es[Eb.nextC (X (stI es X i))]! = true := by
  induction i with
  | zero => exact absurd rfl h
  | succ i ih =>
    unfold stI at h ⊢
    by_cases e : es[Eb.nextC (X (i + 1))]! = true
    · rw [if_pos e]; exact e
    · rw [if_neg e] at h ⊢; exact ih h

theorem stI_nocut (es : Array Bool) (X : Nat → Nat) (i m : Nat) (h1 : stI es X i < m) (h2 : m ≤ i) :
    es[Eb.nextC (X m)]! = false := by
  induction i with
  | zero => omega
  | succ i ih =>
    unfold stI at h1
    by_cases e : es[Eb.nextC (X (i + 1))]! = true
    · rw [if_pos e] at h1; omega
    · rw [if_neg e] at h1
      by_cases hm : m = i + 1
      · rw [hm]; simpa using e
      · exact ih h1 (by omega)

theorem stI_zero (es : Array Bool) (X : Nat → Nat) (i : Nat)
    (h : ∀ m, 1 ≤ m → m ≤ i → es[Eb.nextC (X m)]! = false) : stI es X i = 0 := by
  induction i with
  | zero => rfl
  | succ i ih =>
    unfold stI
    rw [if_neg (by rw [h (i + 1) (by omega) (Nat.le_refl _)]; simp)]
    exact ih (fun m a b => h m a (by omega))

/-- the corners the walk from `f` met in its first `J + 1` steps -/
def Vis (opp : Array Nat) (f J : Nat) (x : Nat) : Prop := ∃ i, i ≤ J ∧ x = iter (sRP opp) i f

/-- what `RecomputeVertices` established for the corner `x` of a fan `S`: its attribute vertex `c2v[x]` is valid, the
    left-most corner `lm[c2v[x]]` recorded for it lies in the fan, has the same attribute vertex and is reached from `x` by
    attribute `SwingLeft` steps; the attribute `SwingLeft` of `x` (if any) has the same attribute vertex; and the recorded
    left-most corner has no attribute `SwingLeft`, unless no corner of the fan lacks one (closed fan without seam). -/
structure SecSpec (opp : Array Nat) (es : Array Bool) (S : Nat → Prop) (c2v lm : Array Nat) (x : Nat) : Prop where
  lt : c2v[x]! < lm.size
  start_in : S lm[c2v[x]!]!
  start_id : c2v[lm[c2v[x]!]!]! = c2v[x]!
  reach : ∃ k, iter (aLP opp es) k x = lm[c2v[x]!]!
  left : aLP opp es x ≠ inv → S (aLP opp es x) ∧ c2v[aLP opp es x]! = c2v[x]!
  bnd : aLP opp es lm[c2v[x]!]! = inv ∨ ∀ y, S y → aLP opp es y ≠ inv ∧ S (aLP opp es y)

theorem SecSpec.congr {opp : Array Nat} {es : Array Bool} {S S' : Nat → Prop} {c2v lm : Array Nat} {x : Nat}
    (h : SecSpec opp es S c2v lm x) (hS : ∀ y, S y ↔ S' y) : SecSpec opp es S' c2v lm x :=
  ⟨h.lt, (hS _).mp h.start_in, h.start_id, h.reach, fun e => ⟨(hS _).mp (h.left e).1, (h.left e).2⟩,
    h.bnd.imp id fun a y hy => ⟨(a y ((hS y).mpr hy)).1, (hS _).mp (a y ((hS y).mpr hy)).2⟩⟩

/-- `SecSpec` of a fan survives changes of the maps elsewhere -/
theorem SecSpec.frame {opp : Array Nat} {es : Array Bool} {S : Nat → Prop} {c2v lm c2v' lm' : Array Nat} {x : Nat}
    (h : SecSpec opp es S c2v lm x) (hx : S x) (hc : ∀ y, S y → c2v'[y]! = c2v[y]!) (hsz : lm.size ≤ lm'.size)
    (hlm : ∀ w, w < lm.size → lm'[w]! = lm[w]!) : SecSpec opp es S c2v' lm' x := by
  have e1 : c2v'[x]! = c2v[x]! := hc x hx
  have e2 : lm'[c2v[x]!]! = lm[c2v[x]!]! := hlm _ h.lt
  refine ⟨by rw [e1]; have := h.lt; omega, by rw [e1, e2]; exact h.start_in, ?_, by rw [e1, e2]; exact h.reach, ?_,
    by rw [e1, e2]; exact h.bnd⟩
  · rw [e1, e2, hc _ h.start_in]; exact h.start_id
  · intro e
    obtain ⟨a, b⟩ := h.left e
    exact ⟨a, by rw [hc _ a, e1]; exact b⟩

section final
variable {N : Nat} {opp : Array Nat} (hb : BaseTbl N opp) {es : Array Bool} {f : Nat} {c2v00 lm00 : Array Nat} {J : Nat}
  {c2v lm : Array Nat} {fid act : Nat} (hI : RInv N opp es f c2v00 lm00 J c2v lm fid act)
include hb hI

/-- the base `SwingLeft` of a later corner of the walk is the corner before it -/
theorem RInv.sL_walk (m : Nat) (hm : m + 1 ≤ J) : sLP opp (iter (sRP opp) (m + 1) f) = iter (sRP opp) m f := by
  have h1 := hI.valid m (by omega)
  have h2 := hI.valid (m + 1) hm
  exact (hb.sR_sL h1 (iter_succ' (sRP opp) m f).symm (hb.ne_inv h2)).2

/-- … and so is the attribute `SwingLeft`, when the edge between them is no seam -/
theorem RInv.aL_walk (m : Nat) (hm : m + 1 ≤ J) (hs : es[Eb.nextC (iter (sRP opp) (m + 1) f)]! = false) :
    aLP opp es (iter (sRP opp) (m + 1) f) = iter (sRP opp) m f := by
  have h2 := hI.valid (m + 1) hm
  have h3 := hI.sL_walk hb m hm
  rcases hb.aL_cases es h2 with ⟨_, e | e⟩ | ⟨_, _, e⟩
  · rw [hs] at e; cases e
  · rw [h3] at e; exact absurd e (hb.ne_inv (hI.valid m (by omega)))
  · rw [e, h3]

theorem RInv.aL_iter (i : Nat) (hi : i ≤ J) : ∀ d, d ≤ i - stI es (fun i => iter (sRP opp) i f) i →
    iter (aLP opp es) d (iter (sRP opp) i f) = iter (sRP opp) (i - d) f := by
  intro d
  induction d with
  | zero => intro _; rfl
  | succ d ih =>
    intro hd
    rw [iter_succ', ih (by omega)]
    obtain ⟨m, hm⟩ : ∃ m, i - d = m + 1 := ⟨i - d - 1, by omega⟩
    rw [hm, show i - (d + 1) = m by omega]
    apply hI.aL_walk hb m (by omega)
    have := stI_nocut es (fun i => iter (sRP opp) i f) i (m + 1) (by omega) (by omega)
    exact this

omit hb in
/-- corners of the walk with the same sector start have the same attribute vertex -/
theorem RInv.id_eq (i i' : Nat) (hi : i ≤ J) (hi' : i' ≤ J)
    (h : stI es (fun i => iter (sRP opp) i f) i = stI es (fun i => iter (sRP opp) i f) i') :
    c2v[iter (sRP opp) i f]! = c2v[iter (sRP opp) i' f]! := by
  obtain ⟨a1, a2, a3⟩ := hI.ids i hi
  obtain ⟨b1, b2, b3⟩ := hI.ids i' hi'
  obtain ⟨k, _, k2, k3⟩ := hI.lms _ a1 a2
  obtain ⟨l, _, l2, l3⟩ := hI.lms _ b1 b2
  rw [← k3, ← l3, ← k2, ← l2, a3, b3, h]

theorem RInv.secSpec (hend : iter (sRP opp) (J + 1) f = inv ∨ iter (sRP opp) (J + 1) f = f)
    (hmode : aLP opp es f = inv ∨ ((∀ k, iter (sRP opp) k f ≠ inv) ∧
      ∀ m, m ≤ J → es[Eb.nextC (iter (sRP opp) m f)]! = false))
    (x : Nat) (hx : Vis opp f J x) : SecSpec opp es (Vis opp f J) c2v lm x := by
  obtain ⟨i, hi, rfl⟩ := hx
  obtain ⟨a1, a2, a3⟩ := hI.ids i hi
  have hst := stI_le es (fun i => iter (sRP opp) i f) i
  -- closed fan without seam
  have hclosed : ((∀ k, iter (sRP opp) k f ≠ inv) ∧ ∀ m, m ≤ J → es[Eb.nextC (iter (sRP opp) m f)]! = false) →
      aLP opp es f = iter (sRP opp) J f ∧ aLP opp es f ≠ inv := by
    intro ⟨hn, hc⟩
    have hJ : iter (sRP opp) (J + 1) f = f := by
      rcases hend with e | e
      · exact absurd e (hn _)
      · exact e
    have hf : f < N := hI.valid 0 (Nat.zero_le _)
    have h1 := (hb.sR_sL (hI.valid J (Nat.le_refl _)) ((iter_succ' (sRP opp) J f).symm.trans hJ) (hb.ne_inv hf)).2
    rcases hb.aL_cases es hf with ⟨_, e | e⟩ | ⟨e0, _, e⟩
    · have := hc 0 (Nat.zero_le _)
      rw [show iter (sRP opp) 0 f = f from rfl, e] at this; cases this
    · rw [h1] at e; exact absurd e (hb.ne_inv (hI.valid J (Nat.le_refl _)))
    · exact ⟨by rw [e, h1], e0⟩
  refine ⟨a2, ?_, ?_, ?_, ?_, ?_⟩
  · rw [a3]; exact ⟨_, by omega, rfl⟩
  · obtain ⟨k, _, k2, k3⟩ := hI.lms _ a1 a2
    rw [k2, k3]
  · refine ⟨i - stI es (fun i => iter (sRP opp) i f) i, ?_⟩
    rw [hI.aL_iter hb i hi _ (Nat.le_refl _), a3]
    congr 1
    omega
  · intro hne
    cases i with
    | zero =>
      rcases hmode with e | hm
      · exact absurd e hne
      · obtain ⟨e1, _⟩ := hclosed hm
        show Vis opp f J (aLP opp es f) ∧ c2v[aLP opp es f]! = c2v[f]!
        rw [e1]
        refine ⟨⟨J, Nat.le_refl _, rfl⟩, ?_⟩
        apply hI.id_eq J 0 (Nat.le_refl _) (Nat.zero_le _)
        rw [stI_zero es _ J (fun m _ h2 => hm.2 m h2)]
        rfl
    | succ i =>
      have hs : es[Eb.nextC (iter (sRP opp) (i + 1) f)]! = false := by
        rcases hb.aL_cases es (hI.valid (i + 1) hi) with ⟨e, _⟩ | ⟨_, e, _⟩
        · exact absurd e hne
        · exact e
      rw [hI.aL_walk hb i hi hs]
      refine ⟨⟨i, by omega, rfl⟩, ?_⟩
      apply hI.id_eq i (i + 1) (by omega) hi
      show _ = if es[Eb.nextC (iter (sRP opp) (i + 1) f)]! = true then i + 1 else _
      rw [if_neg (by rw [hs]; simp)]
  · rw [a3]
    by_cases h0 : stI es (fun i => iter (sRP opp) i f) i = 0
    · rw [h0]
      rcases hmode with e | hm
      · exact Or.inl e
      · right
        obtain ⟨e1, e2⟩ := hclosed hm
        rintro y ⟨m, hm', rfl⟩
        cases m with
        | zero => exact ⟨e2, by show Vis opp f J (aLP opp es f); rw [e1]; exact ⟨J, Nat.le_refl _, rfl⟩⟩
        | succ m =>
          rw [hI.aL_walk hb m hm' (hm.2 _ hm')]
          exact ⟨hb.ne_inv (hI.valid m (by omega)), ⟨m, by omega, rfl⟩⟩
    · left
      have hcut := stI_cut es (fun i => iter (sRP opp) i f) i h0
      rcases hb.aL_cases es (hI.valid _ (by omega : stI es (fun i => iter (sRP opp) i f) i ≤ J)) with
        ⟨e, _⟩ | ⟨_, e, _⟩
      · exact e
      · rw [hcut] at e; cases e

end final

end AttViews

namespace AttViews

/-! ### the fan of a vertex -/

/-- `x` is a corner of the fan that starts at `c0`: reached from `c0` by `SwingRight` steps -/
def InFan (opp : Array Nat) (c0 x : Nat) : Prop := x ≠ inv ∧ ∃ k, iter (sRP opp) k c0 = x

/-- the base table with its vertices: `bv` = `Vertex` of the base table, constant along `SwingRight`; the left-most corner
    `vc[v]` of a vertex that has one is a corner of that vertex -/
structure FanTbl (N : Nat) (opp vc : Array Nat) (bv : Nat → Nat) : Prop extends BaseTbl N opp where
  bvR : ∀ c, c < N → sRP opp c ≠ inv → bv (sRP opp c) = bv c
  vcOK : ∀ v, v < vc.size → vc[v]! ≠ inv → vc[v]! < N ∧ bv vc[v]! = v

theorem FanTbl.bv_iter {N : Nat} {opp vc : Array Nat} {bv : Nat → Nat} (ht : FanTbl N opp vc bv) {a : Nat} (ha : a < N) :
    ∀ k, iter (sRP opp) k a ≠ inv → iter (sRP opp) k a < N ∧ bv (iter (sRP opp) k a) = bv a := by
  intro k
  induction k with
  | zero => intro _; exact ⟨ha, rfl⟩
  | succ k ih =>
    intro hne
    rw [iter_succ'] at hne ⊢
    have hk : iter (sRP opp) k a ≠ inv := by
      intro e; rw [e, sRP_inv] at hne; exact hne rfl
    obtain ⟨h1, h2⟩ := ih hk
    refine ⟨?_, by rw [ht.bvR _ h1 hne, h2]⟩
    rcases ht.toBaseTbl.sR_lt h1 with e | e
    · exact absurd e hne
    · exact e

theorem BaseTbl.aL_iter_lt {N : Nat} {opp : Array Nat} (hb : BaseTbl N opp) (es : Array Bool) {a : Nat} (ha : a < N) :
    ∀ k, iter (aLP opp es) k a ≠ inv → iter (aLP opp es) k a < N := by
  intro k
  induction k with
  | zero => intro _; exact ha
  | succ k ih =>
    intro hne
    rw [iter_succ'] at hne ⊢
    have hk : iter (aLP opp es) k a ≠ inv := by
      intro e; rw [e, aLP_inv] at hne; exact hne rfl
    rcases hb.aL_lt es (ih hk) with e | e
    · exact absurd e hne
    · exact e

/-- `m` attribute steps to the left are undone by `m` base steps to the right -/
theorem BaseTbl.aL_iter_sR {N : Nat} {opp : Array Nat} (hb : BaseTbl N opp) (es : Array Bool) {a : Nat} (ha : a < N) :
    ∀ m g, iter (aLP opp es) m a = g → g ≠ inv → iter (sRP opp) m g = a := by
  intro m
  induction m with
  | zero => intro g h _; exact h.symm
  | succ m ih =>
    intro g h hne
    rw [iter_succ'] at h
    have hk : iter (aLP opp es) m a ≠ inv := by
      intro e; rw [e, aLP_inv] at h; exact hne h.symm
    obtain ⟨_, h2, _⟩ := hb.aL_sR es (hb.aL_iter_lt es ha m hk) h hne
    show iter (sRP opp) m (sRP opp g) = a
    rw [h2]
    exact ih _ rfl hk

section visit
variable {N : Nat} {opp : Array Nat} {f J : Nat}

theorem walk_period (hJ : iter (sRP opp) (J + 1) f = f) (i t : Nat) :
    iter (sRP opp) (i + (J + 1) * t) f = iter (sRP opp) i f := by
  induction t with
  | zero => rfl
  | succ t ih =>
    rw [show i + (J + 1) * (t + 1) = (J + 1) + (i + (J + 1) * t) by rw [Nat.mul_succ]; omega, iter_add, hJ, ih]

/-- every valid corner of the walk is among its first `J + 1` corners, when the walk ends after them -/
theorem vis_of_iter (hend : iter (sRP opp) (J + 1) f = inv ∨ iter (sRP opp) (J + 1) f = f)
    (i : Nat) (hne : iter (sRP opp) i f ≠ inv) : Vis opp f J (iter (sRP opp) i f) := by
  rcases hend with e | e
  · by_cases hi : i ≤ J
    · exact ⟨i, hi, rfl⟩
    · exact absurd e (iter_ne_inv (sRP_inv opp) hne (by omega))
  · refine ⟨i % (J + 1), by have := Nat.mod_lt i (show 0 < J + 1 by omega); omega, ?_⟩
    have := walk_period e (i % (J + 1)) (i / (J + 1))
    rw [Nat.mod_add_div] at this
    exact this

/-- the corners the walk from `f` met are the corners of the fan of `c0`, when `c0` lies `m` steps to the right of `f` and
    — unless `m = 0` — the fan of `c0` is closed -/
theorem vis_iff_inFan (hv : ∀ i, i ≤ J → iter (sRP opp) i f < N) (hle : N ≤ inv)
    (hend : iter (sRP opp) (J + 1) f = inv ∨ iter (sRP opp) (J + 1) f = f)
    (c0 m : Nat) (hm : iter (sRP opp) m f = c0) (hcl : m ≠ 0 → ∀ k, iter (sRP opp) k c0 ≠ inv)
    (x : Nat) : Vis opp f J x ↔ InFan opp c0 x := by
  constructor
  · rintro ⟨i, hi, rfl⟩
    have hne : iter (sRP opp) i f ≠ inv := by have := hv i hi; omega
    refine ⟨hne, ?_⟩
    by_cases h0 : m = 0
    · subst h0
      exact ⟨i, by rw [← hm]; rfl⟩
    · have hn := hcl h0
      have hJ : iter (sRP opp) (J + 1) f = f := by
        rcases hend with e | e
        · have h1 := hn (J + 1)
          rw [← hm, ← iter_add] at h1
          exact absurd e (iter_ne_inv (sRP_inv opp) h1 (by omega))
        · exact e
      refine ⟨i + (J + 1) * m - m, ?_⟩
      rw [← hm, ← iter_add, show m + (i + (J + 1) * m - m) = i + (J + 1) * m by
        have : m ≤ (J + 1) * m := Nat.le_mul_of_pos_left m (Nat.succ_pos J)
        omega]
      exact walk_period hJ i m
  · rintro ⟨hne, k, rfl⟩
    rw [← hm, ← iter_add] at hne ⊢
    exact vis_of_iter hend _ hne

end visit

/-- the hypotheses on the fan of `v` under which `RecomputeVertices` assigns the sectors of `v` correctly: if the left-most
    corner `vc[v]` has a `SwingLeft`, the fan is closed (no `SwingRight` walk from it reaches the boundary); and the corners
    of a vertex that is not marked as seam vertex have no seam edge on their left -/
structure FanHyp (opp vc : Array Nat) (es vs : Array Bool) (v : Nat) : Prop where
  lmost : sLP opp vc[v]! ≠ inv → ∀ k, iter (sRP opp) k vc[v]! ≠ inv
  seamVert : vs[v]! = false → ∀ x, InFan opp vc[v]! x → es[Eb.nextC x]! = false

/-- the maps after the walk to the right from `f`, which lies `m` attribute steps to the left of `vc[v]` -/
theorem fan_final {N : Nat} {opp vc : Array Nat} {bv : Nat → Nat} (ht : FanTbl N opp vc bv) (es vs : Array Bool)
    (v : Nat) (hv : v < vc.size) (hc0 : vc[v]! ≠ inv) (f m : Nat) (hm : iter (aLP opp es) m vc[v]! = f) (hf : f < N)
    (hmode : aLP opp es f = inv ∨ (m = 0 ∧ vs[v]! = false))
    {c2v00 lm00 c2v lm : Array Nat} {J fid act : Nat} (hI : RInv N opp es f c2v00 lm00 J c2v lm fid act)
    (hend : iter (sRP opp) (J + 1) f = inv ∨ iter (sRP opp) (J + 1) f = f) :
    c2v.size = N ∧ lm00.size ≤ lm.size ∧ (∀ w, w < lm00.size → lm[w]! = lm00[w]!) ∧
      (∀ x, bv x ≠ v → c2v[x]! = c2v00[x]!) ∧
      (FanHyp opp vc es vs v → ∀ x, InFan opp vc[v]! x → SecSpec opp es (InFan opp vc[v]!) c2v lm x) := by
  have hb := ht.toBaseTbl
  obtain ⟨hc0N, hbv0⟩ := ht.vcOK v hv hc0
  have hfne := hb.ne_inv hf
  have hX : iter (sRP opp) m f = vc[v]! := hb.aL_iter_sR es hc0N m f hm hfne
  have hbvf : bv f = v := by
    obtain ⟨_, e⟩ := ht.bv_iter hf m (by rw [hX]; exact hc0)
    rw [hX] at e
    rw [← e, hbv0]
  refine ⟨hI.size, Nat.le_of_lt hI.lmsz, hI.lmpre, ?_, ?_⟩
  · intro x hx
    apply hI.frame
    intro i hi e
    obtain ⟨_, e2⟩ := ht.bv_iter hf i (hb.ne_inv (hI.valid i hi))
    rw [← e, hbvf] at e2
    exact hx e2
  · intro hh
    have hcl : m ≠ 0 → ∀ k, iter (sRP opp) k vc[v]! ≠ inv := by
      intro h0
      apply hh.lmost
      have h1 : iter (aLP opp es) 1 vc[v]! ≠ inv :=
        iter_ne_inv (aLP_inv opp es) (by rw [hm]; exact hfne) (by omega)
      rcases hb.aL_cases es hc0N with ⟨e, _⟩ | ⟨_, _, e⟩
      · exact absurd e h1
      · rw [← e]; exact h1
    have hiff := vis_iff_inFan hI.valid hb.le hend vc[v]! m hX hcl
    have hmode' : aLP opp es f = inv ∨ ((∀ k, iter (sRP opp) k f ≠ inv) ∧
        ∀ m, m ≤ J → es[Eb.nextC (iter (sRP opp) m f)]! = false) := by
      rcases hmode with e | ⟨rfl, hvs⟩
      · exact Or.inl e
      · have hfc : f = vc[v]! := hm.symm
        by_cases e : aLP opp es f = inv
        · exact Or.inl e
        · right
          constructor
          · rw [hfc]
            apply hh.lmost
            rcases hb.aL_cases es hf with ⟨e', _⟩ | ⟨e1, _, e2⟩
            · exact absurd e' e
            · rw [← hfc, ← e2]; exact e1
          · intro i hi
            apply hh.seamVert hvs
            exact (hiff _).mp ⟨i, hi, rfl⟩
    intro x hx
    exact (hI.secSpec hb hend hmode' x ((hiff x).mpr hx)).congr hiff

/-- a corner of the fan of `vc[v]` is a corner of `v` -/
theorem FanTbl.inFan_bv {N : Nat} {opp vc : Array Nat} {bv : Nat → Nat} (ht : FanTbl N opp vc bv)
    (v : Nat) (hv : v < vc.size) (hc0 : vc[v]! ≠ inv) (x : Nat) (hx : InFan opp vc[v]! x) : x < N ∧ bv x = v := by
  obtain ⟨hne, k, rfl⟩ := hx
  obtain ⟨h1, h2⟩ := ht.vcOK v hv hc0
  obtain ⟨a, b⟩ := ht.bv_iter h1 k hne
  exact ⟨a, by rw [b, h2]⟩

/-- **one vertex**: the body of `RecomputeVertices` for the base vertex `v` only yields; it extends `lm`, changes `c2v`
    only at corners of `v`, and establishes `SecSpec` for the corners of the fan of `v` -/
theorem vBody_ok {N : Nat} {opp vc : Array Nat} {bv : Nat → Nat} (ht : FanTbl N opp vc bv) (es vs : Array Bool)
    (hes : es.size = N) (v : Nat) (hv : v < vc.size) (s : Array Nat × Array Nat) (hsz : s.1.size = N) (fuel : Nat)
    (r : ForInStep (Array Nat × Array Nat)) (hr : vBody fuel opp vc es vs v s = .ok r) :
    ∃ c2v lm, r = .yield (c2v, lm) ∧ c2v.size = N ∧ s.2.size ≤ lm.size ∧ (∀ w, w < s.2.size → lm[w]! = s.2[w]!) ∧
      (∀ x, bv x ≠ v → c2v[x]! = s.1[x]!) ∧
      (vc[v]! ≠ inv → FanHyp opp vc es vs v →
        ∀ x, InFan opp vc[v]! x → SecSpec opp es (InFan opp vc[v]!) c2v lm x) := by
  have hb := ht.toBaseTbl
  unfold vBody at hr
  by_cases h0 : (vc[v]! == inv) = true
  · rw [if_pos h0] at hr
    simp only [pure, Except.pure] at hr
    cases hr
    have : vc[v]! = inv := by simpa using h0
    exact ⟨s.1, s.2, rfl, hsz, Nat.le_refl _, fun _ _ => rfl, fun _ _ => rfl, fun h => absurd this h⟩
  · rw [if_neg h0, bind_ok_iff] at hr
    have hc0 : vc[v]! ≠ inv := by simpa using h0
    obtain ⟨hc0N, _⟩ := ht.vcOK v hv hc0
    obtain ⟨b, hb1, hr⟩ := hr
    obtain ⟨_, rfl⟩ := Seams.rdB_ok hb1
    have fin : ∀ f m, iter (aLP opp es) m vc[v]! = f → (aLP opp es f = inv ∨ (m = 0 ∧ vs[v]! = false)) →
        vFinish fuel opp es s.1 s.2 f = .ok r → ∃ c2v lm, r = .yield (c2v, lm) ∧ c2v.size = N ∧ s.2.size ≤ lm.size ∧
          (∀ w, w < s.2.size → lm[w]! = s.2[w]!) ∧ (∀ x, bv x ≠ v → c2v[x]! = s.1[x]!) ∧
          (vc[v]! ≠ inv → FanHyp opp vc es vs v →
            ∀ x, InFan opp vc[v]! x → SecSpec opp es (InFan opp vc[v]!) c2v lm x) := by
      intro f m hm hmode hfin
      obtain ⟨hf, c2v, lm, fid, act, J, rfl, hI, hend⟩ := vFinish_ok hb es s.1 s.2 hsz f fuel r hfin
      obtain ⟨a1, a2, a3, a4, a5⟩ := fan_final ht es vs v hv hc0 f m hm hf hmode hI hend
      exact ⟨c2v, lm, rfl, a1, a2, a3, a4, fun _ => a5⟩
    by_cases hvs : vs[v]! = true
    · rw [if_pos hvs] at hr
      obtain ⟨e1, e2⟩ := hb.attOpp_next es hes hc0N
      rw [e1, ok_bind, e2, bind_ok_iff] at hr
      obtain ⟨l, hl, hr⟩ := hr
      by_cases hlf : l.2.2 = true
      · obtain ⟨_, ⟨m, hm⟩, h3⟩ := lPhase hb es hes vc[v]! hc0N (fuel + 1) l hl hlf
        rw [hlf] at hr
        simp only [Bool.not_true, Bool.false_eq_true, if_false] at hr
        exact fin l.1 m hm (Or.inl h3) hr
      · have : l.2.2 = false := by simpa using hlf
        rw [this] at hr
        simp only [Bool.not_false, if_true] at hr
        cases hr
    · rw [if_neg hvs] at hr
      exact fin vc[v]! 0 rfl (Or.inr ⟨rfl, by simpa using hvs⟩) hr

/-- **Stage 3, the specification of `recomputeG`**: after a successful run on a table with fans, `c2v` has `N` entries and
    `SecSpec` holds for every corner of the fan of every vertex `v` that satisfies `FanHyp` -/
theorem recomputeG_spec {N : Nat} {opp vc : Array Nat} {bv : Nat → Nat} (ht : FanTbl N opp vc bv) (es vs : Array Bool)
    (hes : es.size = N) (c2v lm : Array Nat) (hrun : recomputeG N opp vc es vs = .ok (c2v, lm)) :
    c2v.size = N ∧ ∀ v, v < vc.size → vc[v]! ≠ inv → FanHyp opp vc es vs v →
      ∀ x, InFan opp vc[v]! x → SecSpec opp es (InFan opp vc[v]!) c2v lm x := by
  unfold recomputeG at hrun
  rw [bind_ok_iff] at hrun
  obtain ⟨s, hl, hrun⟩ := hrun
  simp only [pure, Except.pure] at hrun
  cases hrun
  rw [Seams.range_forIn] at hl
  have key := Seams.loop_inv_ok (vBody N opp vc es vs)
    (fun k s => s.1.size = N ∧ ∀ v, v < k → v < vc.size → vc[v]! ≠ inv → FanHyp opp vc es vs v →
      ∀ x, InFan opp vc[v]! x → SecSpec opp es (InFan opp vc[v]!) s.1 s.2 x) vc.size 0
    (by
      intro j s r _ hj ⟨hsz, hI⟩ hr
      obtain ⟨c2v, lm, rfl, a1, a2, a3, a4, a5⟩ := vBody_ok ht es vs hes j (by omega) s hsz N r hr
      refine ⟨_, rfl, a1, ?_⟩
      intro v hvj hv hc0 hh x hx
      by_cases e : v = j
      · subst e; exact a5 hc0 hh x hx
      · apply (hI v (by omega) hv hc0 hh x hx).frame hx _ a2 a3
        intro y hy
        apply a4
        rw [(ht.inFan_bv v hv hc0 y hy).2]
        exact e)
    _ s ⟨by simp, fun v hv => by omega⟩ hl
  exact ⟨key.1, fun v hv => key.2 v (by omega) hv⟩

end AttViews

/-! ## Stage 4: the isomorphism of the attribute views -/

namespace AttViews

section oneside
variable {opp : Array Nat} {es : Array Bool} {S S' : Nat → Prop} {c2v lm : Array Nat}

/-- attribute `SwingLeft` steps stay in the fan and keep the attribute vertex -/
theorem sec_iter (hall : ∀ y, S y → SecSpec opp es S c2v lm y) (x : Nat) (hx : S x) :
    ∀ k, iter (aLP opp es) k x ≠ inv → S (iter (aLP opp es) k x) ∧ c2v[iter (aLP opp es) k x]! = c2v[x]! := by
  intro k
  induction k with
  | zero => intro _; exact ⟨hx, rfl⟩
  | succ k ih =>
    intro hne
    rw [iter_succ'] at hne ⊢
    have hk : iter (aLP opp es) k x ≠ inv := by
      intro e; rw [e, aLP_inv] at hne; exact hne rfl
    obtain ⟨h1, h2⟩ := ih hk
    obtain ⟨h3, h4⟩ := (hall _ h1).left hne
    exact ⟨h3, by rw [h4, h2]⟩

/-- **(ii), one side**: two corners have the same attribute vertex iff attribute `SwingLeft` steps lead from both to a
    common corner -/
theorem same_id_iff (hallx : ∀ y, S y → SecSpec opp es S c2v lm y) (hally : ∀ y, S' y → SecSpec opp es S' c2v lm y)
    (hS : ∀ y, S y → y ≠ inv) (x y : Nat) (hx : S x) (hy : S' y) :
    c2v[x]! = c2v[y]! ↔
      ∃ k k', iter (aLP opp es) k x = iter (aLP opp es) k' y ∧ iter (aLP opp es) k x ≠ inv := by
  constructor
  · intro e
    obtain ⟨k, hk⟩ := (hallx x hx).reach
    obtain ⟨k', hk'⟩ := (hally y hy).reach
    exact ⟨k, k', by rw [hk, hk', e], by rw [hk]; exact hS _ (hallx x hx).start_in⟩
  · rintro ⟨k, k', e, hne⟩
    have h1 := (sec_iter hallx x hx k hne).2
    have h2 := (sec_iter hally y hy k' (by rw [← e]; exact hne)).2
    rw [← h1, ← h2, e]

/-- **(iii), one side**: the recorded left-most corner of the attribute vertex of `x` has no attribute `SwingLeft` iff the
    attribute `SwingLeft` steps from `x` end -/
theorem bnd_iff (hall : ∀ y, S y → SecSpec opp es S c2v lm y) (hS : ∀ y, S y → y ≠ inv) (x : Nat) (hx : S x) :
    aLP opp es lm[c2v[x]!]! = inv ↔ ∃ k, iter (aLP opp es) k x = inv := by
  constructor
  · intro e
    obtain ⟨k, hk⟩ := (hall x hx).reach
    exact ⟨k + 1, by rw [iter_succ', hk, e]⟩
  · rintro ⟨k, hk⟩
    rcases (hall x hx).bnd with e | e
    · exact e
    · exfalso
      have : ∀ j, S (iter (aLP opp es) j x) := by
        intro j
        induction j with
        | zero => exact hx
        | succ j ih => rw [iter_succ']; exact (e _ ih).2
      exact hS _ (this k) hk

end oneside

/-- `IsOnBoundary` of an attribute view, on a vertex whose recorded left-most corner is valid -/
theorem att_isOnBoundary {N : Nat} {opp : Array Nat} (hb : BaseTbl N opp) (es : Array Bool) (hes : es.size = N)
    (c2v lm : Array Nat) (nf v : Nat) (hv : v < lm.size) (hg : lm[v]! < N) :
    ({ c2v := c2v, opp := opp, seam := es, lm := lm, isAtt := true, numFaces := nf } : TView).isOnBoundary v =
      .ok (aLP opp es lm[v]! == inv) := by
  have h1 := nextC_ltN hb.n3 hg
  unfold TView.isOnBoundary
  simp only
  rw [EbEnc.rd_ok' _ lm v hv, ok_bind, beq_inv_false (hb.ne_inv hg)]
  simp only [Bool.false_eq_true, if_false]
  unfold TView.swingLeft TView.opposite
  simp only [beq_inv_false (hb.ne_inv h1), Bool.false_eq_true, if_false, if_true]
  rw [rdB_ok' _ es _ (by omega)]
  unfold aLP aOppP
  rw [if_neg (hb.ne_inv hg)]
  by_cases hs : es[Eb.nextC lm[v]!]! = true
  · simp [hs, bind, Except.bind, pure, Except.pure]
  · simp only [bind, Except.bind, hs, Bool.false_eq_true, if_false]
    rw [EbEnc.rd_ok' _ opp _ (by rw [hb.oppsz]; exact h1)]
    rfl

/-- `Vertex` of an attribute view on a corner inside its map -/
theorem att_vertex (c2v opp lm : Array Nat) (es : Array Bool) (nf c : Nat) (hc : c < c2v.size) :
    ({ c2v := c2v, opp := opp, seam := es, lm := lm, isAtt := true, numFaces := nf } : TView).vertex c = .ok c2v[c]! := by
  unfold TView.vertex
  simp only [Bool.not_true, Bool.false_and, Bool.false_eq_true, if_false]
  exact EbEnc.rd_ok' _ _ _ hc

end AttViews

namespace AttViews

section corr
variable {n : Nat} {dc2v dopp dvc : Array Nat} {t : CT} {φ ψ : Nat → Nat}
  (hB : TVIso (baseViewD n dc2v dopp dvc) t.view φ ψ)
include hB

/-- the entries of the two `opposite_corners_` arrays correspond -/
theorem base_opp_corr (c : Nat) (hc : c < 3 * n) :
    (dopp[c]! = inv ∨ dopp[c]! < 3 * n) ∧ t.opp[φ c]! = ext φ dopp[c]! := by
  obtain ⟨o, h1, ho, h3⟩ := hB.opposite c hc
  have hci := beq_inv_false (hB.ne_inv c hc)
  have hpi := beq_inv_false (hB.phi_ne_inv c hc)
  simp only [TView.opposite, baseViewD, hci, Bool.false_eq_true, if_false] at h1
  simp only [TView.opposite, CT.view, hpi, Bool.false_eq_true, if_false] at h3
  obtain ⟨hi, e⟩ := rd_ok h1
  obtain ⟨hi', e'⟩ := rd_ok h3
  have e1 : dopp[c]! = o := by rw [← e]; simp [hi]
  have e2 : t.opp[φ c]! = ext φ o := by rw [← e']; simp [hi']
  rw [e1, e2]
  exact ⟨ho, rfl⟩

theorem ext_valid {x : Nat} (hx : x = inv ∨ x < 3 * n) : ext φ x = inv ↔ x = inv := by
  rcases hx with rfl | hx
  · simp
  · rw [ext_of_ne φ (hB.ne_inv x hx)]
    exact ⟨fun e => absurd e (hB.phi_ne_inv x hx), fun e => absurd e (hB.ne_inv x hx)⟩

theorem ext_inj {x y : Nat} (hx : x = inv ∨ x < 3 * n) (hy : y = inv ∨ y < 3 * n) (e : ext φ x = ext φ y) : x = y := by
  rcases hx with rfl | hx
  · rw [ext_inv] at e
    exact ((ext_valid hB hy).mp e.symm).symm
  · rcases hy with rfl | hy
    · rw [ext_inv] at e
      exact (ext_valid hB (Or.inr hx)).mp e
    · rw [ext_of_ne φ (hB.ne_inv x hx), ext_of_ne φ (hB.ne_inv y hy)] at e
      exact hB.phi_inj x y hx hy e

variable {esD esE : Array Bool} (hflag : ∀ d, d < 3 * n → esD[d]! = esE[φ d]!)
include hflag

/-- the attribute `SwingLeft` commutes with the corner map -/
theorem aL_corr (x : Nat) (hx : x = inv ∨ x < 3 * n) :
    aLP t.opp esE (ext φ x) = ext φ (aLP dopp esD x) ∧ (aLP dopp esD x = inv ∨ aLP dopp esD x < 3 * n) := by
  rcases hx with rfl | hx
  · rw [ext_inv, aLP_inv, aLP_inv, ext_inv]
    exact ⟨rfl, Or.inl rfl⟩
  · have hn := TVIso.nextC_lt (n := n) hx
    obtain ⟨ho, e⟩ := base_opp_corr hB _ hn
    rw [ext_of_ne φ (hB.ne_inv x hx)]
    unfold aLP aOppP
    rw [if_neg (hB.ne_inv x hx), if_neg (hB.phi_ne_inv x hx)]
    have hpn : Eb.nextC (φ x) = φ (Eb.nextC x) := (hB.phi_next x hx).symm
    rw [hpn, ← hflag _ hn, e]
    by_cases hs : esD[Eb.nextC x]! = true
    · rw [if_pos hs, if_pos hs, nextC_inv, ext_inv]
      exact ⟨rfl, Or.inl rfl⟩
    · rw [if_neg hs, if_neg hs]
      exact ⟨ext_next hB _ ho, next_ok ho⟩

theorem aL_iter_corr : ∀ (k x : Nat), (x = inv ∨ x < 3 * n) →
    iter (aLP t.opp esE) k (ext φ x) = ext φ (iter (aLP dopp esD) k x) ∧
      (iter (aLP dopp esD) k x = inv ∨ iter (aLP dopp esD) k x < 3 * n) := by
  intro k
  induction k with
  | zero => intro x hx; exact ⟨rfl, hx⟩
  | succ k ih =>
    intro x hx
    obtain ⟨h1, h2⟩ := aL_corr hB hflag x hx
    show iter (aLP t.opp esE) k (aLP t.opp esE (ext φ x)) = ext φ (iter (aLP dopp esD) k (aLP dopp esD x)) ∧ _
    rw [h1]
    exact ih _ h2

/-- "attribute `SwingLeft` steps lead to a common corner" is invariant under the isomorphism -/
theorem common_corr (d d' : Nat) (hd : d < 3 * n) (hd' : d' < 3 * n) :
    (∃ k k', iter (aLP dopp esD) k d = iter (aLP dopp esD) k' d' ∧ iter (aLP dopp esD) k d ≠ inv) ↔
    (∃ k k', iter (aLP t.opp esE) k (φ d) = iter (aLP t.opp esE) k' (φ d') ∧ iter (aLP t.opp esE) k (φ d) ≠ inv) := by
  have e1 : ∀ k, iter (aLP t.opp esE) k (φ d) = ext φ (iter (aLP dopp esD) k d) := fun k => by
    rw [← (aL_iter_corr hB hflag k d (Or.inr hd)).1, ext_of_ne φ (hB.ne_inv d hd)]
  have e2 : ∀ k, iter (aLP t.opp esE) k (φ d') = ext φ (iter (aLP dopp esD) k d') := fun k => by
    rw [← (aL_iter_corr hB hflag k d' (Or.inr hd')).1, ext_of_ne φ (hB.ne_inv d' hd')]
  have v1 := fun k => (aL_iter_corr hB hflag k d (Or.inr hd)).2
  have v2 := fun k => (aL_iter_corr hB hflag k d' (Or.inr hd')).2
  constructor
  · rintro ⟨k, k', e, hne⟩
    refine ⟨k, k', by rw [e1, e2, e], ?_⟩
    rw [e1]
    exact fun h => hne ((ext_valid hB (v1 k)).mp h)
  · rintro ⟨k, k', e, hne⟩
    rw [e1, e2] at e
    rw [e1] at hne
    exact ⟨k, k', ext_inj hB (v1 k) (v2 k') e, fun h => hne ((ext_valid hB (v1 k)).mpr h)⟩

/-- "the attribute `SwingLeft` steps end" is invariant under the isomorphism -/
theorem term_corr (d : Nat) (hd : d < 3 * n) :
    (∃ k, iter (aLP dopp esD) k d = inv) ↔ (∃ k, iter (aLP t.opp esE) k (φ d) = inv) := by
  have e1 : ∀ k, iter (aLP t.opp esE) k (φ d) = ext φ (iter (aLP dopp esD) k d) := fun k => by
    rw [← (aL_iter_corr hB hflag k d (Or.inr hd)).1, ext_of_ne φ (hB.ne_inv d hd)]
  have v1 := fun k => (aL_iter_corr hB hflag k d (Or.inr hd)).2
  constructor
  · rintro ⟨k, h⟩; exact ⟨k, by rw [e1]; exact (ext_valid hB (v1 k)).mpr h⟩
  · rintro ⟨k, h⟩; rw [e1] at h; exact ⟨k, (ext_valid hB (v1 k)).mp h⟩

end corr

end AttViews

namespace AttViews

/-- the specification of `recomputeG` for the fan a corner `x` lies in -/
theorem live_spec {N : Nat} {opp vc : Array Nat} {bv : Nat → Nat} (ht : FanTbl N opp vc bv) (es vs : Array Bool)
    (hes : es.size = N) (c2v lm : Array Nat) (hrun : recomputeG N opp vc es vs = .ok (c2v, lm))
    (x : Nat) (hv : bv x < vc.size) (hcov : InFan opp vc[bv x]! x) (hyp : FanHyp opp vc es vs (bv x)) :
    ∀ y, InFan opp vc[bv x]! y → SecSpec opp es (InFan opp vc[bv x]!) c2v lm y := by
  have hc0 : vc[bv x]! ≠ inv := by
    intro e
    obtain ⟨hne, k, hk⟩ := hcov
    rw [e, iter_fix (sRP_inv opp)] at hk
    exact hne hk.symm
  exact (recomputeG_spec ht es vs hes c2v lm hrun).2 (bv x) hv hc0 hyp

end AttViews

namespace AttViews

/-- **Stage 3, (ii) for one side**: after a successful run, two corners (each reached from the left-most corner of its
    base vertex, the fans satisfying `FanHyp`) have the same attribute vertex iff attribute `SwingLeft` steps — steps to
    the left around the base vertex that cross no seam edge — lead from both to a common corner: same base vertex and
    same sector -/
theorem recomputeG_same_vertex {N : Nat} {opp vc : Array Nat} {bv : Nat → Nat} (ht : FanTbl N opp vc bv)
    (es vs : Array Bool) (hes : es.size = N) (c2v lm : Array Nat) (hrun : recomputeG N opp vc es vs = .ok (c2v, lm))
    (x y : Nat) (hxv : bv x < vc.size) (hyv : bv y < vc.size) (hx : InFan opp vc[bv x]! x) (hy : InFan opp vc[bv y]! y)
    (hhx : FanHyp opp vc es vs (bv x)) (hhy : FanHyp opp vc es vs (bv y)) :
    c2v[x]! = c2v[y]! ↔
      ∃ k k', iter (aLP opp es) k x = iter (aLP opp es) k' y ∧ iter (aLP opp es) k x ≠ inv :=
  same_id_iff (live_spec ht es vs hes c2v lm hrun x hxv hx hhx) (live_spec ht es vs hes c2v lm hrun y hyv hy hhy)
    (fun _ h => h.1) x y hx hy

/-- **Stage 3, the left-most corners**: the entry of `lm` for the attribute vertex of `x` is a corner with that attribute
    vertex, reached from `x` by attribute `SwingLeft` steps; it is the first corner of the sector (it has no attribute
    `SwingLeft`) iff the sector has a first corner at all (the steps to the left from `x` end) -/
theorem recomputeG_leftMost {N : Nat} {opp vc : Array Nat} {bv : Nat → Nat} (ht : FanTbl N opp vc bv)
    (es vs : Array Bool) (hes : es.size = N) (c2v lm : Array Nat) (hrun : recomputeG N opp vc es vs = .ok (c2v, lm))
    (x : Nat) (hxv : bv x < vc.size) (hx : InFan opp vc[bv x]! x) (hhx : FanHyp opp vc es vs (bv x)) :
    c2v[x]! < lm.size ∧ c2v[lm[c2v[x]!]!]! = c2v[x]! ∧ (∃ k, iter (aLP opp es) k x = lm[c2v[x]!]!) ∧
      (aLP opp es lm[c2v[x]!]! = inv ↔ ∃ k, iter (aLP opp es) k x = inv) := by
  have hall := live_spec ht es vs hes c2v lm hrun x hxv hx hhx
  exact ⟨(hall x hx).lt, (hall x hx).start_id, (hall x hx).reach, bnd_iff hall (fun _ h => h.1) x hx⟩

end AttViews

namespace AttViews

/-- **the isomorphism, on arrays**: two successful runs of `RecomputeVertices` on isomorphic base tables with fans, on
    corresponding seam flags, give isomorphic attribute views -/
theorem att_views_iso_gen {n : Nat} {dc2v dopp dvc : Array Nat} {t : CT} {φ ψ : Nat → Nat}
    (hB : TVIso (baseViewD n dc2v dopp dvc) t.view φ ψ)
    (hD : FanTbl (3 * n) dopp dvc (fun c => dc2v[c]!)) (hE : FanTbl t.numCorners t.opp t.vc (fun c => t.c2v[c]!))
    (esD vsD esE vsE : Array Bool) (hesD : esD.size = 3 * n) (hesE : esE.size = t.numCorners)
    (hflag : ∀ d, d < 3 * n → esD[d]! = esE[φ d]!)
    (hcovD : ∀ d, d < 3 * n → InFan dopp dvc[dc2v[d]!]! d)
    (hcovE : ∀ d, d < 3 * n → InFan t.opp t.vc[t.c2v[φ d]!]! (φ d))
    (hhD : ∀ d, d < 3 * n → FanHyp dopp dvc esD vsD dc2v[d]!)
    (hhE : ∀ d, d < 3 * n → FanHyp t.opp t.vc esE vsE t.c2v[φ d]!)
    (c2vD lmD c2vE lmE : Array Nat) (hrD : recomputeG (3 * n) dopp dvc esD vsD = .ok (c2vD, lmD))
    (hrE : recomputeG t.numCorners t.opp t.vc esE vsE = .ok (c2vE, lmE)) :
    ∃ ψ', TVIso { c2v := c2vD, opp := dopp, seam := esD, lm := lmD, isAtt := true, numFaces := n }
      { c2v := c2vE, opp := t.opp, seam := esE, lm := lmE, isAtt := true, numFaces := t.numFaces } φ ψ' := by
  have hnE : 3 * t.numFaces = t.numCorners := by
    have := hE.n3
    unfold CT.numCorners at this ⊢
    unfold CT.numFaces
    omega
  have hfits : 3 * n ≤ inv ∧ 3 * t.numFaces ≤ inv ∧ dc2v.size ≤ inv ∧ t.c2v.size ≤ inv := hB.fits
  have hphi : ∀ d, d < 3 * n → φ d < t.numCorners := fun d hd => by
    have := hB.phi_lt d hd
    rw [← hnE]; exact this
  -- the vertices of the corners index the left-most corner maps
  have hvert : ∀ d, d < 3 * n → dc2v[d]! < dvc.size ∧ t.c2v[φ d]! < t.vc.size := by
    intro d hd
    obtain ⟨v, h1, h2, h3, h4⟩ := hB.vertex d hd
    have hci := beq_inv_false (hB.ne_inv d hd)
    have hpi := beq_inv_false (hB.phi_ne_inv d hd)
    simp only [TView.vertex, baseViewD, hci, Bool.not_false, Bool.and_false, Bool.false_eq_true, if_false] at h1
    simp only [TView.vertex, CT.view, hpi, Bool.not_false, Bool.and_false, Bool.false_eq_true, if_false] at h3
    obtain ⟨hi, e⟩ := rd_ok h1
    obtain ⟨hi', e'⟩ := rd_ok h3
    have e1 : dc2v[d]! = v := by rw [← e]; simp [hi]
    have e2 : t.c2v[φ d]! = ψ v := by rw [← e']; simp [hi']
    rw [e1, e2]
    exact ⟨h2, h4⟩
  have hszD := (recomputeG_spec hD esD vsD hesD c2vD lmD hrD).1
  have hszE := (recomputeG_spec hE esE vsE hesE c2vE lmE hrE).1
  have hallD : ∀ d, d < 3 * n → ∀ y, InFan dopp dvc[dc2v[d]!]! y →
      SecSpec dopp esD (InFan dopp dvc[dc2v[d]!]!) c2vD lmD y := fun d hd =>
    live_spec hD esD vsD hesD c2vD lmD hrD d (hvert d hd).1 (hcovD d hd) (hhD d hd)
  have hallE : ∀ d, d < 3 * n → ∀ y, InFan t.opp t.vc[t.c2v[φ d]!]! y →
      SecSpec t.opp esE (InFan t.opp t.vc[t.c2v[φ d]!]!) c2vE lmE y := fun d hd =>
    live_spec hE esE vsE hesE c2vE lmE hrE (φ d) (hvert d hd).2 (hcovE d hd) (hhE d hd)
  have hfanD : ∀ d, d < 3 * n → ∀ y, InFan dopp dvc[dc2v[d]!]! y → y < 3 * n := by
    intro d hd y hy
    have hc0 : dvc[dc2v[d]!]! ≠ inv := by
      intro e
      obtain ⟨hne, k, hk⟩ := hy
      rw [e, iter_fix (sRP_inv dopp)] at hk
      exact hne hk.symm
    exact (hD.inFan_bv _ (hvert d hd).1 hc0 y hy).1
  have hfanE : ∀ d, d < 3 * n → ∀ y, InFan t.opp t.vc[t.c2v[φ d]!]! y → y < t.numCorners := by
    intro d hd y hy
    have hc0 : t.vc[t.c2v[φ d]!]! ≠ inv := by
      intro e
      obtain ⟨hne, k, hk⟩ := hy
      rw [e, iter_fix (sRP_inv t.opp)] at hk
      exact hne hk.symm
    exact (hE.inFan_bv _ (hvert d hd).2 hc0 y hy).1
  -- (ii): the same attribute vertex on one side iff on the other side
  have hV : ∀ d d', d < 3 * n → d' < 3 * n → (c2vD[d]! = c2vD[d']! ↔ c2vE[φ d]! = c2vE[φ d']!) := by
    intro d d' hd hd'
    exact (same_id_iff (hallD d hd) (hallD d' hd') (fun _ h => h.1) d d' (hcovD d hd) (hcovD d' hd')).trans
      ((common_corr hB hflag d d' hd hd').trans
        (same_id_iff (hallE d hd) (hallE d' hd') (fun _ h => h.1) (φ d) (φ d') (hcovE d hd) (hcovE d' hd')).symm)
  -- the recorded left-most corner of the attribute vertex of a decoder corner
  have hg : ∀ d, d < 3 * n → lmD[c2vD[d]!]! < 3 * n ∧ c2vD[lmD[c2vD[d]!]!]! = c2vD[d]! := fun d hd =>
    ⟨hfanD d hd _ (hallD d hd d (hcovD d hd)).start_in, (hallD d hd d (hcovD d hd)).start_id⟩
  have hpsi : ∀ d, d < 3 * n → c2vE[φ lmD[c2vD[d]!]!]! = c2vE[φ d]! := fun d hd =>
    (hV _ d (hg d hd).1 hd).mp (hg d hd).2
  refine ⟨fun v => c2vE[φ lmD[v]!]!, rfl, ⟨hfits.1, hfits.2.1, by show c2vD.size ≤ inv; omega,
      by show c2vE.size ≤ inv; rw [hszE]; exact hE.le⟩, hB.phi_lt, hB.phi_inj, hB.phi_next, ?_, ?_, ?_, ?_⟩
  · -- Opposite
    intro c hc
    exact att_opposite_corr hB rfl esD esE c2vD lmD c2vE lmE (by show 3 * n ≤ esD.size; omega)
      (by show 3 * t.numFaces ≤ esE.size; omega) hflag c hc
  · -- Vertex
    intro c hc
    have hc' : c < 3 * n := hc
    refine ⟨c2vD[c]!, att_vertex _ _ _ _ _ _ (by omega), (hallD c hc' c (hcovD c hc')).lt, ?_, ?_⟩
    · rw [att_vertex _ _ _ _ _ _ (by rw [hszE]; exact hphi c hc')]
      show Except.ok c2vE[φ c]! = Except.ok c2vE[φ lmD[c2vD[c]!]!]!
      rw [hpsi c hc']
    · show c2vE[φ lmD[c2vD[c]!]!]! < lmE.size
      rw [hpsi c hc']
      exact (hallE c hc' _ (hcovE c hc')).lt
  · -- the vertex map is injective
    intro c c' v v' hc hc' hv hv' e
    have hc1 : c < 3 * n := hc
    have hc1' : c' < 3 * n := hc'
    rw [att_vertex _ _ _ _ _ _ (by omega)] at hv hv'
    cases hv; cases hv'
    have := (hV _ _ (hg c hc1).1 (hg c' hc1').1).mpr e
    rw [(hg c hc1).2, (hg c' hc1').2] at this
    exact this
  · -- IsOnBoundary
    intro c v hc hv
    have hc' : c < 3 * n := hc
    rw [att_vertex _ _ _ _ _ _ (by omega)] at hv
    cases hv
    have sD := hallD c hc' c (hcovD c hc')
    have sE := hallE c hc' _ (hcovE c hc')
    refine ⟨aLP dopp esD lmD[c2vD[c]!]! == inv,
      att_isOnBoundary hD.toBaseTbl esD hesD c2vD lmD n _ sD.lt (hg c hc').1, ?_⟩
    show TView.isOnBoundary _ c2vE[φ lmD[c2vD[c]!]!]! = _
    rw [hpsi c hc', att_isOnBoundary hE.toBaseTbl esE hesE c2vE lmE t.numFaces _ sE.lt (hfanE c hc' _ sE.start_in)]
    have hiff : aLP t.opp esE lmE[c2vE[φ c]!]! = inv ↔ aLP dopp esD lmD[c2vD[c]!]! = inv :=
      (bnd_iff (hallE c hc') (fun _ h => h.1) _ (hcovE c hc')).trans
        ((term_corr hB hflag c hc').symm.trans (bnd_iff (hallD c hc') (fun _ h => h.1) _ (hcovD c hc')).symm)
    congr 1
    rw [Bool.eq_iff_iff]
    simp only [beq_iff_eq]
    exact hiff

end AttViews

namespace AttViews

/-! ### the hypotheses of `att_views_iso_gen` from the structural properties of the views -/

theorem view_opposite_eq (b : TView) (hb : b.isAtt = false) (c : Nat) (hc : c < b.opp.size) (hne : c ≠ inv) :
    b.opposite c = .ok b.opp[c]! := by
  unfold TView.opposite
  simp only [beq_inv_false hne, hb, Bool.false_eq_true, if_false]
  exact EbEnc.rd_ok' _ _ _ hc

theorem view_vertex_eq (b : TView) (hb : b.isAtt = false) (c : Nat) (hc : c < b.c2v.size) (hne : c ≠ inv) :
    b.vertex c = .ok b.c2v[c]! := by
  unfold TView.vertex
  simp only [beq_inv_false hne, hb, Bool.not_false, Bool.and_false, Bool.false_eq_true, if_false]
  exact EbEnc.rd_ok' _ _ _ hc

/-- `BaseTbl` of a base view with an involutive `Opposite` -/
theorem baseTbl_of_view (b : TView) (hb : b.isAtt = false) (hle : 3 * b.numFaces ≤ inv)
    (hsz : b.opp.size = 3 * b.numFaces) (hinv : OppInvol b) : BaseTbl (3 * b.numFaces) b.opp := by
  refine ⟨by omega, hle, hsz, ?_⟩
  intro c hc hne
  have h1 := view_opposite_eq b hb c (by omega) (by omega)
  have h2 := hinv c _ hc h1 hne
  unfold TView.opposite at h2
  simp only [beq_inv_false hne, hb, Bool.false_eq_true, if_false] at h2
  obtain ⟨hi, e⟩ := rd_ok h2
  exact ⟨by omega, (getElem!_pos b.opp _ hi).trans e⟩

/-- `Vertex` is constant along `SwingRight` in a base view with the half-edge property -/
theorem bvR_of_hedge (b : TView) (hb : b.isAtt = false) (hc2v : 3 * b.numFaces ≤ b.c2v.size)
    (hbt : BaseTbl (3 * b.numFaces) b.opp) (hh : Hedge b) (c : Nat) (hc : c < 3 * b.numFaces)
    (hne : sRP b.opp c ≠ inv) : b.c2v[sRP b.opp c]! = b.c2v[c]! := by
  have hle := hbt.le
  have hp := prevC_ltN hbt.n3 hbt.le hc
  unfold sRP at hne ⊢
  rw [if_neg (hbt.ne_inv hc)] at hne ⊢
  have ho : b.opp[Eb.prevC c]! ≠ inv := by
    intro e; rw [e, prevC_inv] at hne; exact hne rfl
  obtain ⟨holt, _⟩ := hbt.invol _ hp ho
  have h1 := view_opposite_eq b hb (Eb.prevC c) (by rw [hbt.oppsz]; exact hp) (hbt.ne_inv hp)
  obtain ⟨_, h2⟩ := hh _ hp _ h1 ho
  rw [Eb.nextC_prevC c (by omega)] at h2
  have hpo := prevC_ltN hbt.n3 hbt.le holt
  rw [view_vertex_eq b hb _ (by omega) (hbt.ne_inv hpo), view_vertex_eq b hb c (by omega) (hbt.ne_inv hc)] at h2
  injection h2

/-- `SwingRight` steps are undone by `SwingLeft` steps -/
theorem FanTbl.sR_iter_sL {N : Nat} {opp vc : Array Nat} {bv : Nat → Nat} (ht : FanTbl N opp vc bv) {a : Nat}
    (ha : a < N) : ∀ m g, iter (sRP opp) m a = g → g ≠ inv → iter (sLP opp) m g = a := by
  intro m
  induction m with
  | zero => intro g h _; exact h.symm
  | succ m ih =>
    intro g h hne
    rw [iter_succ'] at h
    have hk : iter (sRP opp) m a ≠ inv := by
      intro e; rw [e, sRP_inv] at h; exact hne h.symm
    obtain ⟨_, h2⟩ := ht.toBaseTbl.sR_sL (ht.bv_iter ha m hk).1 h hne
    show iter (sLP opp) m (sLP opp g) = a
    rw [h2]
    exact ih _ rfl hk

/-- a fan whose left-most corner has a `SwingLeft` that is itself reached from the left-most corner is closed -/
theorem lmost_of_cover {N : Nat} {opp vc : Array Nat} {bv : Nat → Nat} (ht : FanTbl N opp vc bv) (c0 : Nat) (hc0 : c0 < N)
    (hy : ∀ y, y < N → sRP opp y = c0 → ∃ k, iter (sRP opp) k c0 = y) (hl : sLP opp c0 ≠ inv) :
    ∀ j, iter (sRP opp) j c0 ≠ inv := by
  obtain ⟨h1, h2⟩ := ht.toBaseTbl.sL_sR hc0 rfl hl
  obtain ⟨k, hk⟩ := hy _ h1 h2
  have hJ : iter (sRP opp) (k + 1) c0 = c0 := by rw [iter_succ', hk, h2]
  intro j
  have hp := walk_period hJ 0 j
  rw [Nat.zero_add] at hp
  apply iter_ne_inv (sRP_inv opp) (k := (k + 1) * j)
  · rw [hp]; exact ht.toBaseTbl.ne_inv hc0
  · exact Nat.le_mul_of_pos_left j (Nat.succ_pos k)

/-- `FanHyp.seamVert` from "the vertices of a seam edge are seam vertices" -/
theorem seamVert_of_flags {N : Nat} {opp vc : Array Nat} {bv : Nat → Nat} (ht : FanTbl N opp vc bv) (es vs : Array Bool)
    (hsv : ∀ c, c < N → es[c]! = true → vs[bv (Eb.prevC c)]! = true)
    (v : Nat) (hv : v < vc.size) (hc0 : vc[v]! ≠ inv) (hvs : vs[v]! = false) (x : Nat) (hx : InFan opp vc[v]! x) :
    es[Eb.nextC x]! = false := by
  obtain ⟨hxN, hbv⟩ := ht.inFan_bv v hv hc0 x hx
  cases h : es[Eb.nextC x]! with
  | false => rfl
  | true =>
    have := hsv _ (nextC_ltN ht.n3 hxN) h
    have hle := ht.le
    rw [Eb.prevC_nextC x (by omega), hbv, hvs] at this
    cases this

theorem aLP_empty (opp : Array Nat) (c : Nat) : aLP opp #[] c = sLP opp c := by
  unfold aLP aOppP sLP
  simp

end AttViews

namespace AttViews

/-- **the isomorphism, on tables with fans**: as `att_views_iso_gen`, with the hypotheses on the fans in the form of
    table invariants: every corner (decoder) / every image corner (encoder) is reached from the left-most corner of its
    vertex by `SwingRight` steps, and the vertices of a seam edge are marked as seam vertices -/
theorem att_views_iso_tbl {n : Nat} {dc2v dopp dvc : Array Nat} {t : CT} {φ ψ : Nat → Nat}
    (hB : TVIso (baseViewD n dc2v dopp dvc) t.view φ ψ)
    (hD : FanTbl (3 * n) dopp dvc (fun c => dc2v[c]!)) (hE : FanTbl t.numCorners t.opp t.vc (fun c => t.c2v[c]!))
    (esD vsD esE vsE : Array Bool) (hesD : esD.size = 3 * n) (hesE : esE.size = t.numCorners)
    (hflag : ∀ d, d < 3 * n → esD[d]! = esE[φ d]!)
    (hcovD : ∀ d, d < 3 * n → ∃ k, iter (sRP dopp) k dvc[dc2v[d]!]! = d)
    (hcovE : ∀ d, d < 3 * n → ∃ k, iter (sRP t.opp) k t.vc[t.c2v[φ d]!]! = φ d)
    (hsvD : ∀ c, c < 3 * n → esD[c]! = true → vsD[dc2v[Eb.prevC c]!]! = true)
    (hsvE : ∀ c, c < t.numCorners → esE[c]! = true → vsE[t.c2v[Eb.prevC c]!]! = true)
    (c2vD lmD c2vE lmE : Array Nat) (hrD : recomputeG (3 * n) dopp dvc esD vsD = .ok (c2vD, lmD))
    (hrE : recomputeG t.numCorners t.opp t.vc esE vsE = .ok (c2vE, lmE)) :
    ∃ ψ', TVIso { c2v := c2vD, opp := dopp, seam := esD, lm := lmD, isAtt := true, numFaces := n }
      { c2v := c2vE, opp := t.opp, seam := esE, lm := lmE, isAtt := true, numFaces := t.numFaces } φ ψ' := by
  have hnE : 3 * t.numFaces = t.numCorners := by
    have := hE.n3
    unfold CT.numCorners at this ⊢
    unfold CT.numFaces
    omega
  have hphi : ∀ d, d < 3 * n → φ d < t.numCorners := fun d hd => by
    have := hB.phi_lt d hd
    rw [← hnE]; exact this
  have hvert : ∀ d, d < 3 * n → dc2v[d]! < dvc.size ∧ t.c2v[φ d]! < t.vc.size := by
    intro d hd
    obtain ⟨v, h1, h2, h3, h4⟩ := hB.vertex d hd
    have hci := beq_inv_false (hB.ne_inv d hd)
    have hpi := beq_inv_false (hB.phi_ne_inv d hd)
    simp only [TView.vertex, baseViewD, hci, Bool.not_false, Bool.and_false, Bool.false_eq_true, if_false] at h1
    simp only [TView.vertex, CT.view, hpi, Bool.not_false, Bool.and_false, Bool.false_eq_true, if_false] at h3
    obtain ⟨hi, e⟩ := rd_ok h1
    obtain ⟨hi', e'⟩ := rd_ok h3
    have e1 : dc2v[d]! = v := by rw [← e]; simp [hi]
    have e2 : t.c2v[φ d]! = ψ v := by rw [← e']; simp [hi']
    rw [e1, e2]
    exact ⟨h2, h4⟩
  -- the left-most corners of the vertices of corners are valid
  have hc0D : ∀ d, d < 3 * n → dvc[dc2v[d]!]! ≠ inv := by
    intro d hd e
    obtain ⟨k, hk⟩ := hcovD d hd
    rw [e, iter_fix (sRP_inv dopp)] at hk
    exact hB.ne_inv d hd hk.symm
  have hc0E : ∀ d, d < 3 * n → t.vc[t.c2v[φ d]!]! ≠ inv := by
    intro d hd e
    obtain ⟨k, hk⟩ := hcovE d hd
    rw [e, iter_fix (sRP_inv t.opp)] at hk
    exact hB.phi_ne_inv d hd hk.symm
  have hsLD : aLP dopp #[] = sLP dopp := funext (aLP_empty dopp)
  have hsLE : aLP t.opp #[] = sLP t.opp := funext (aLP_empty t.opp)
  apply att_views_iso_gen hB hD hE esD vsD esE vsE hesD hesE hflag
    (fun d hd => ⟨hB.ne_inv d hd, hcovD d hd⟩) (fun d hd => ⟨hB.phi_ne_inv d hd, hcovE d hd⟩) ?_ ?_
    c2vD lmD c2vE lmE hrD hrE
  · -- the decoder's fans
    intro d hd
    obtain ⟨hcN, hbv⟩ := hD.vcOK _ (hvert d hd).1 (hc0D d hd)
    refine ⟨?_, seamVert_of_flags hD esD vsD hsvD _ (hvert d hd).1 (hc0D d hd)⟩
    apply lmost_of_cover hD _ hcN
    intro y hy hyc
    obtain ⟨k, hk⟩ := hcovD y hy
    have : dc2v[y]! = dc2v[d]! := by
      have := hD.bvR y hy (by rw [hyc]; exact hc0D d hd)
      simp only [hyc] at this
      rw [← this]; exact hbv
    rw [this] at hk
    exact ⟨k, hk⟩
  · -- the encoder's fans
    intro d hd
    obtain ⟨hcN, hbv⟩ := hE.vcOK _ (hvert d hd).2 (hc0E d hd)
    refine ⟨?_, seamVert_of_flags hE esE vsE hsvE _ (hvert d hd).2 (hc0E d hd)⟩
    apply lmost_of_cover hE _ hcN
    intro y hy hyc
    -- the left-most corner is the image of a decoder corner
    obtain ⟨k, hk⟩ := hcovE d hd
    have h1 := hE.sR_iter_sL hcN k _ hk (hB.phi_ne_inv d hd)
    obtain ⟨h2, h3⟩ := aL_iter_corr hB (esD := #[]) (esE := #[]) (fun _ _ => rfl) k d (Or.inr hd)
    rw [hsLD] at h2 h3
    rw [hsLE, ext_of_ne φ (hB.ne_inv d hd), h1] at h2
    have hd0 : iter (sLP dopp) k d < 3 * n := by
      rcases h3 with e | e
      · rw [e, ext_inv] at h2; exact absurd h2 (hc0E d hd)
      · exact e
    -- so is its `SwingLeft`
    have h4 := (hE.toBaseTbl.sR_sL hy hyc (hc0E d hd)).2
    obtain ⟨h5, h6⟩ := aL_corr hB (esD := #[]) (esE := #[]) (fun _ _ => rfl) _ (Or.inr hd0)
    rw [hsLD] at h5 h6
    have h2' : t.vc[t.c2v[φ d]!]! = φ (iter (sLP dopp) k d) := by rw [h2, ext_of_ne φ (hB.ne_inv _ hd0)]
    rw [hsLE, ext_of_ne φ (hB.ne_inv _ hd0), ← h2', h4] at h5
    have hy0 : sLP dopp (iter (sLP dopp) k d) < 3 * n := by
      rcases h6 with e | e
      · rw [e, ext_inv] at h5; exact absurd h5 (hE.toBaseTbl.ne_inv hy)
      · exact e
    rw [ext_of_ne φ (hB.ne_inv _ hy0)] at h5
    obtain ⟨k', hk'⟩ := hcovE _ hy0
    rw [← h5] at hk'
    have : t.c2v[y]! = t.c2v[φ d]! := by
      have := hE.bvR y hy (by rw [hyc]; exact hc0E d hd)
      simp only [hyc] at this
      rw [← this]; exact hbv
    rw [this] at hk'
    exact ⟨k', hk'⟩

end AttViews

namespace AttViews

/-- `FanTbl` of the decoder's base table, embedded into the view of a created table -/
theorem fanTbl_dec {faces : Faces} {table : CornerTable} (hc : CornerTable.create faces = some table)
    {n : Nat} {dc2v dopp dvc : Array Nat} {φ ψ : Nat → Nat}
    (hB : TVIso (baseViewD n dc2v dopp dvc) (CT.ofTable table).view φ ψ)
    (hszc : dc2v.size = 3 * n) (hszo : dopp.size = 3 * n)
    (hvcD : ∀ v, v < dvc.size → dvc[v]! ≠ inv → dvc[v]! < 3 * n ∧ dc2v[dvc[v]!]! = v) :
    FanTbl (3 * n) dopp dvc (fun c => dc2v[c]!) := by
  obtain ⟨hinv, hh⟩ := structural_of_create hc hB
  have hb : BaseTbl (3 * n) dopp := baseTbl_of_view (baseViewD n dc2v dopp dvc) rfl hB.fits.1 hszo hinv
  exact { toBaseTbl := hb
          bvR := fun c hc' hne =>
            bvR_of_hedge (baseViewD n dc2v dopp dvc) rfl (by show 3 * n ≤ dc2v.size; omega) hb hh c hc' hne
          vcOK := hvcD }

/-- `FanTbl` of the encoder's table, a created table -/
theorem fanTbl_enc {faces : Faces} {table : CornerTable} (hc : CornerTable.create faces = some table)
    (hvcE : ∀ v, v < (CT.ofTable table).vc.size → (CT.ofTable table).vc[v]! ≠ inv →
      (CT.ofTable table).vc[v]! < (CT.ofTable table).numCorners ∧
        (CT.ofTable table).c2v[(CT.ofTable table).vc[v]!]! = v) :
    FanTbl (CT.ofTable table).numCorners (CT.ofTable table).opp (CT.ofTable table).vc
      (fun c => (CT.ofTable table).c2v[c]!) := by
  have hnf := ofTable_view_numFaces hc
  have hnc : (CT.ofTable table).numCorners = 3 * (CT.ofTable table).view.numFaces := by
    rw [hnf]; exact create_c2v_size hc
  have hosz : (CT.ofTable table).view.opp.size = 3 * (CT.ofTable table).view.numFaces := by
    rw [hnf]
    show (Array.map _ table.oppositeCorners).size = _
    rw [Array.size_map, create_opp_size hc]
  have hb : BaseTbl (3 * (CT.ofTable table).view.numFaces) (CT.ofTable table).view.opp :=
    baseTbl_of_view (CT.ofTable table).view rfl (by rw [hnf]; exact create_fits hc) hosz (oppInvol_ofTable hc)
  rw [hnc]
  exact { toBaseTbl := hb
          bvR := fun c hc' hne =>
            bvR_of_hedge (CT.ofTable table).view rfl
              (by rw [hnf]; show 3 * faces.size ≤ table.cornerToVertex.size; rw [create_c2v_size hc])
              hb (hedge_ofTable hc) c hc' hne
          vcOK := by rw [← hnc]; exact hvcE }

end AttViews

/-! ### the encoder's cover hypothesis from `CornerTable.create` -/

namespace AttViews

section create
variable {faces : Faces} {table : CornerTable} (hc : CornerTable.create faces = some table)
include hc

/-- the entries of the encoder's `opposite_corners_` array -/
theorem ofTable_opp_get (c : Nat) (hlt : c < 3 * faces.size) :
    (CT.ofTable table).opp[c]! = (table.opposite (some c)).getD inv := by
  have hf := create_fits hc
  have h1 := ofTable_view_opposite hc c hlt
  have hsz : (CT.ofTable table).view.opp.size = 3 * faces.size := by
    show (Array.map _ table.oppositeCorners).size = _
    rw [Array.size_map, create_opp_size hc]
  rw [view_opposite_eq (CT.ofTable table).view rfl c (by rw [hsz]; exact hlt) (by omega)] at h1
  injection h1

/-- `SwingRight` of the array form is `SwingRight` of the created table -/
theorem ofTable_sR (c : Nat) (hlt : c < 3 * faces.size) :
    sRP (CT.ofTable table).opp c = (table.swingRight (some c)).getD inv ∧
      ∀ c', table.swingRight (some c) = some c' → c' < 3 * faces.size := by
  have hf := create_fits hc
  have hp : Eb.prevC c = Draco.prevC c := eb_prevC_eq c (by omega)
  have hplt : Draco.prevC c < 3 * faces.size := Draco.prevC_lt hlt
  have hsw : table.swingRight (some c) = (table.opposite (some (Draco.prevC c))).map Draco.prevC := by
    simp only [CornerTable.swingRight, CornerTable.previous, Option.map_some]
  unfold sRP
  rw [if_neg (by omega), hp, ofTable_opp_get hc _ hplt, hsw]
  cases ho : table.opposite (some (Draco.prevC c)) with
  | none =>
    refine ⟨by simp [prevC_inv], fun c' h => by simp at h⟩
  | some o =>
    obtain ⟨_, holt, _, _, _⟩ := CornerTable.createF_opposite_symm hc _ o ho
    refine ⟨?_, fun c' h => ?_⟩
    · simp only [Option.getD_some, Option.map_some]
      exact eb_prevC_eq o (by omega)
    · simp only [Option.map_some, Option.some.injEq] at h
      rw [← h]; exact Draco.prevC_lt holt

theorem ofTable_iter_sR : ∀ (k : Nat) (x : Option Nat), (∀ c, x = some c → c < 3 * faces.size) →
    iter (sRP (CT.ofTable table).opp) k (x.getD inv) = (iter table.swingRight k x).getD inv := by
  intro k
  induction k with
  | zero => intro x _; rfl
  | succ k ih =>
    intro x hx
    cases x with
    | none =>
      show iter _ k (sRP _ inv) = (iter table.swingRight k (table.swingRight none)).getD inv
      rw [sRP_inv]
      exact ih none (fun c h => by cases h)
    | some c =>
      obtain ⟨h1, h2⟩ := ofTable_sR hc c (hx c rfl)
      show iter _ k (sRP _ c) = (iter table.swingRight k (table.swingRight (some c))).getD inv
      rw [h1]
      exact ih _ h2

/-- **the encoder's cover hypothesis**: a corner of a non-degenerate face of a created table is reached from the left-most
    corner of its vertex by `SwingRight` steps (`createF_fan_complete`), in the array form -/
theorem cover_enc_of_create (c : Nat) (hlt : c < 3 * faces.size) (hnd : faceDegenerate faces (c / 3) = false)
    (hv : (CT.ofTable table).c2v[c]! < (CT.ofTable table).vc.size) :
    ∃ k, iter (sRP (CT.ofTable table).opp) k (CT.ofTable table).vc[(CT.ofTable table).c2v[c]!]! = c := by
  obtain ⟨⟨k, hk⟩, _⟩ := CornerTable.createF_fan_complete (Nat.succ_pos _) hc c hlt hnd
  have hcv : (CT.ofTable table).c2v[c]! = vget table.cornerToVertex c := by
    show table.cornerToVertex[c]! = table.cornerToVertex.getD c 0
    rw [Array.getElem!_eq_getD]
    rfl
  have hvc : (CT.ofTable table).vc[(CT.ofTable table).c2v[c]!]! =
      (table.leftMostCorner (vget table.cornerToVertex c)).getD inv := by
    rw [← hcv]
    have hv' : (CT.ofTable table).c2v[c]! < table.vertexCorners.size := by
      have : (CT.ofTable table).vc.size = table.vertexCorners.size := by
        show (Array.map _ table.vertexCorners).size = _
        rw [Array.size_map]
      omega
    show (Array.map (fun o => o.getD inv) table.vertexCorners)[(CT.ofTable table).c2v[c]!]! = _
    unfold CornerTable.leftMostCorner oget
    simp [hv']
  refine ⟨k, ?_⟩
  rw [hvc, ofTable_iter_sR hc k _ ?_, hk]
  · rfl
  · -- the left-most corner is a corner of the table
    intro c0 h0
    rw [h0] at hk
    apply Classical.byContradiction
    intro hge
    cases k with
    | zero =>
      simp only [iter, Option.some.injEq] at hk
      omega
    | succ k =>
      have hnone : table.swingRight (some c0) = none := by
        simp only [CornerTable.swingRight, CornerTable.previous, Option.map_some, CornerTable.opposite]
        have : oget table.oppositeCorners (Draco.prevC c0) = none := by
          unfold oget
          have h1 := Draco.prevC_div c0
          have h2 := create_opp_size hc
          have : table.oppositeCorners.size ≤ Draco.prevC c0 := by omega
          simp [this]
        rw [this]
        rfl
      have : iter table.swingRight (k + 1) (some c0) = none := by
        show iter table.swingRight k (table.swingRight (some c0)) = none
        rw [hnone, CornerTable.swingRight_eq_lift, iter_lift_none]
      rw [this] at hk
      cases hk

end create

end AttViews

/-- **The attribute views of both sides are isomorphic under the corner map of the base views.**

    `hB`: the base views are isomorphic (`TVIso`, DracoProofs/EbTVIsoBase.lean), the encoder's table being made by
    `CornerTable.create`.  The decoder builds its `MeshAttributeCornerTable` by `Eb.buildAttConn` (`aD`), the encoder
    runs `EbEnc.recomputeVertices` on seam flags `esE`, `vsE`; the edge flags correspond (`hflag`).

    Invariants of the two corner tables `TVIso` does not express (they concern `vertex_corners_`):
    * `hvcD`, `hvcE`: the left-most corner recorded for a vertex is a corner of that vertex;
    * `hcovD`, `hcovE`: every corner (decoder) / every image of a corner (encoder) is reached from the left-most corner
      of its vertex by `SwingRight` steps (the left-most corner of a boundary vertex is its left-most corner);
    and of the seam flags (`AddSeamEdge` marks the end points of every seam edge):
    * `hsvD`, `hsvE`: the vertices of a seam edge are marked in `is_vertex_on_seam_`. -/
theorem att_views_iso {faces : Faces} {table : CornerTable} (hc : CornerTable.create faces = some table)
    (t : CT) (htab : t = CT.ofTable table)
    (n : Nat) (dc2v dopp dvc : Array Nat) (φ ψ : Nat → Nat)
    (hB : TVIso (baseViewD n dc2v dopp dvc) t.view φ ψ)
    (hszc : dc2v.size = 3 * n) (hszo : dopp.size = 3 * n)
    (hvcD : ∀ v, v < dvc.size → dvc[v]! ≠ inv → dvc[v]! < 3 * n ∧ dc2v[dvc[v]!]! = v)
    (hcovD : ∀ d, d < 3 * n → ∃ k, iter (AttViews.sRP dopp) k dvc[dc2v[d]!]! = d)
    (hvcE : ∀ v, v < t.vc.size → t.vc[v]! ≠ inv → t.vc[v]! < t.numCorners ∧ t.c2v[t.vc[v]!]! = v)
    (hcovE : ∀ d, d < 3 * n → ∃ k, iter (AttViews.sRP t.opp) k t.vc[t.c2v[φ d]!]! = φ d)
    (seamCorners : Array Nat) (aD : AttConn) (hrD : buildAttConn dc2v dopp dvc seamCorners = .ok aD)
    (esE vsE : Array Bool) (hesE : esE.size = t.numCorners)
    (hflag : ∀ d, d < 3 * n → aD.edgeSeam[d]! = esE[φ d]!)
    (hsvD : ∀ c, c < 3 * n → aD.edgeSeam[c]! = true → aD.vertSeam[dc2v[Eb.prevC c]!]! = true)
    (hsvE : ∀ c, c < t.numCorners → esE[c]! = true → vsE[t.c2v[Eb.prevC c]!]! = true)
    (c2vE lmE : Array Nat) (hrE : recomputeVertices t esE vsE = .ok (c2vE, lmE)) :
    ∃ ψ', TVIso { c2v := aD.c2v, opp := dopp, seam := aD.edgeSeam, lm := aD.lm, isAtt := true, numFaces := n }
      { c2v := c2vE, opp := t.opp, seam := esE, lm := lmE, isAtt := true, numFaces := t.numFaces } φ ψ' := by
  subst htab
  obtain ⟨s, hs, e1, e2, hrun⟩ := buildAttConn_recompute dc2v dopp dvc seamCorners aD hrD
  have hesD : aD.edgeSeam.size = 3 * n := by
    unfold markSeams at hs
    rw [← Array.forIn_toList] at hs
    have hle : dc2v.size ≤ inv := hB.fits.2.2.1
    obtain ⟨k1, _, _⟩ := Seams.markLoop_ok dc2v dopp seamCorners.toList _ s (by simpa using hle) hs
    rw [e1, k1]
    simpa using hszc
  rw [← e1, ← e2, hszc] at hrun
  rw [recomputeVertices_eq] at hrE
  exact att_views_iso_tbl hB (fanTbl_dec hc hB hszc hszo hvcD) (fanTbl_enc hc hvcE) aD.edgeSeam aD.vertSeam esE vsE
    hesD hesE hflag hcovD hcovE hsvD hsvE aD.c2v aD.lm c2vE lmE hrun hrE

/-- `att_views_iso` with the encoder's cover hypothesis discharged by `CornerTable.create` (`createF_fan_complete`): the
    images of the decoder's corners lie in non-degenerate faces (`hnd`; the encoder never processes a degenerate face) -/
theorem att_views_iso_nondeg {faces : Faces} {table : CornerTable} (hc : CornerTable.create faces = some table)
    (t : CT) (htab : t = CT.ofTable table)
    (n : Nat) (dc2v dopp dvc : Array Nat) (φ ψ : Nat → Nat)
    (hB : TVIso (baseViewD n dc2v dopp dvc) t.view φ ψ)
    (hszc : dc2v.size = 3 * n) (hszo : dopp.size = 3 * n)
    (hvcD : ∀ v, v < dvc.size → dvc[v]! ≠ inv → dvc[v]! < 3 * n ∧ dc2v[dvc[v]!]! = v)
    (hcovD : ∀ d, d < 3 * n → ∃ k, iter (AttViews.sRP dopp) k dvc[dc2v[d]!]! = d)
    (hvcE : ∀ v, v < t.vc.size → t.vc[v]! ≠ inv → t.vc[v]! < t.numCorners ∧ t.c2v[t.vc[v]!]! = v)
    (hnd : ∀ d, d < 3 * n → faceDegenerate faces (φ d / 3) = false)
    (seamCorners : Array Nat) (aD : AttConn) (hrD : buildAttConn dc2v dopp dvc seamCorners = .ok aD)
    (esE vsE : Array Bool) (hesE : esE.size = t.numCorners)
    (hflag : ∀ d, d < 3 * n → aD.edgeSeam[d]! = esE[φ d]!)
    (hsvD : ∀ c, c < 3 * n → aD.edgeSeam[c]! = true → aD.vertSeam[dc2v[Eb.prevC c]!]! = true)
    (hsvE : ∀ c, c < t.numCorners → esE[c]! = true → vsE[t.c2v[Eb.prevC c]!]! = true)
    (c2vE lmE : Array Nat) (hrE : recomputeVertices t esE vsE = .ok (c2vE, lmE)) :
    ∃ ψ', TVIso { c2v := aD.c2v, opp := dopp, seam := aD.edgeSeam, lm := aD.lm, isAtt := true, numFaces := n }
      { c2v := c2vE, opp := t.opp, seam := esE, lm := lmE, isAtt := true, numFaces := t.numFaces } φ ψ' := by
  refine att_views_iso hc t htab n dc2v dopp dvc φ ψ hB hszc hszo hvcD hcovD hvcE ?_ seamCorners aD hrD esE vsE hesE
    hflag hsvD hsvE c2vE lmE hrE
  subst htab
  intro d hd
  have hlt : φ d < 3 * faces.size := by
    have := hB.phi_lt d hd
    rw [ofTable_view_numFaces hc] at this
    exact this
  apply cover_enc_of_create hc (φ d) hlt (hnd d hd)
  obtain ⟨v, _, _, h3, h4⟩ := hB.vertex d hd
  have hpi := beq_inv_false (hB.phi_ne_inv d hd)
  simp only [TView.vertex, CT.view, hpi, Bool.not_false, Bool.and_false, Bool.false_eq_true, if_false] at h3
  obtain ⟨hi', e'⟩ := rd_ok h3
  have e2 : (CT.ofTable table).c2v[φ d]! = ψ v := by rw [← e']; simp [hi']
  rw [e2]
  exact h4

end Draco.EbEnc
