import DracoProofs.RobustBasic
import DracoProofs.RobustLengths
/-
  A small partial-correctness calculus for `DecM` (success path): `Post m Q` = every successful
  run of `m` returns a value satisfying `Q`.  Goal directed rules, so that a proof follows the
  structure of the `do` block.
-/
namespace Draco.Robust
open Draco Draco.DecM

def Post {α} (m : DecM α) (Q : α → Prop) : Prop := ∀ s a s', m s = (some a, s') → Q a

theorem post_mono {α} {m : DecM α} {P Q : α → Prop} (h : Post m P) (hpq : ∀ a, P a → Q a) : Post m Q :=
  fun s a s' hm => hpq a (h s a s' hm)

theorem post_true {α} (m : DecM α) : Post m (fun _ => True) := fun _ _ _ _ => trivial

theorem post_pure {α} {a : α} {Q : α → Prop} (h : Q a) : Post (pure a) Q := by
  intro s b s' hm; obtain ⟨rfl, _⟩ := pure_ok hm; exact h

theorem post_fail {α} {Q : α → Prop} : Post (DecM.fail : DecM α) Q := fun _ _ _ h => (fail_ok h).elim

theorem post_failWith {α} {st : Status} {Q : α → Prop} : Post (DecM.failWith st : DecM α) Q :=
  fun _ _ _ h => (failWith_ok h).elim

theorem post_bind {α β} {m : DecM α} {f : α → DecM β} {P : α → Prop} {Q : β → Prop}
    (hm : Post m P) (hf : ∀ a, P a → Post (f a) Q) : Post (m >>= f) Q := by
  intro s b s' h
  obtain ⟨a, s1, h1, h2⟩ := bind_ok h
  exact hf a (hm s a s1 h1) s1 b s' h2

/-- bind whose first result is not constrained -/
theorem post_bind_any {α β} {m : DecM α} {f : α → DecM β} {Q : β → Prop}
    (hf : ∀ a, Post (f a) Q) : Post (m >>= f) Q :=
  post_bind (post_true m) (fun a _ => hf a)

theorem post_require {c : Bool} : Post (require c) (fun _ => c = true) :=
  fun _ _ _ h => (require_ok h).1

theorem post_bind_require {β} {c : Bool} {f : Unit → DecM β} {Q : β → Prop}
    (hf : c = true → Post (f ()) Q) : Post (require c >>= f) Q :=
  post_bind post_require (fun _ hc => hf hc)

theorem post_bind_pure {α β} {a : α} {f : α → DecM β} {Q : β → Prop} (hf : Post (f a) Q) : Post (pure a >>= f) Q := by
  intro s b s' h
  obtain ⟨a', s1, h1, h2⟩ := bind_ok h
  obtain ⟨rfl, rfl⟩ := pure_ok h1
  exact hf _ _ _ h2

theorem post_lift {α} {r : Rd α} {P : α → Prop} (hr : ∀ bs a rest, r bs = some (a, rest) → P a) : Post (lift r) P := by
  intro s a s' h
  obtain ⟨rest, hr', _⟩ := lift_ok h
  exact hr _ _ _ hr'

theorem post_ofOption {α} {o : Option α} : Post (ofOption o) (fun a => o = some a) :=
  fun _ _ _ h => (ofOption_ok h).1

theorem post_bytes (n : Nat) : Post (bytes n) (fun b => b.length = n) := by
  apply post_lift
  intro bs a rest h
  unfold readBytes at h
  split at h
  · cases h
  · cases h; simp only [List.length_take]; omega

theorem post_ite {α} {c : Prop} [Decidable c] {x y : DecM α} {Q : α → Prop}
    (hx : c → Post x Q) (hy : ¬c → Post y Q) : Post (if c then x else y) Q := by
  split
  · rename_i h; exact hx h
  · rename_i h; exact hy h

theorem post_mapM' {α β} (f : α → DecM β) (P : α → Prop) (Q : β → Prop)
    (hf : ∀ a, P a → Post (f a) Q) (l : List α) (hl : ∀ a ∈ l, P a) :
    Post (mapM' f l) (fun l' => l'.length = l.length ∧ ∀ b ∈ l', Q b) :=
  fun s l' s' h => mapM'_ok f P Q (fun a s b s' hp hh => hf a hp s b s' hh) l s l' s' hl h

theorem post_replicateM' {α} (f : DecM α) (Q : α → Prop) (hf : Post f Q) (n : Nat) :
    Post (replicateM' n f) (fun l => l.length = n ∧ ∀ a ∈ l, Q a) :=
  fun s l s' h => replicateM'_ok f Q hf n s l s' h

end Draco.Robust
