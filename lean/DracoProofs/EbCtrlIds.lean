import DracoProofs.EbCtrlInv
/-
  The attribute data ids, traversal methods and corner-table flags of the controllers created by
  `generateControllers` (DracoModel/EbEncoder.lean): what the decoder checks when it reads the
  identifiers of the attribute decoders (`att_data_id`, decoder type, traversal method).

  Every controller is described by its FIRST attribute id (`CtrlOk`): the attribute data id is
  what `find?` gives for that attribute; the other fields are functions of the options, of the type
  of that attribute and of `no_interior_seams` of its attribute data.
-/
namespace Draco.EbEnc
open Draco Draco.SeqEnc
open Draco.Eb hiding nextC prevC Scheme iabs

/-! ### small facts -/

theorem head_push (xs : Array Nat) (a : Nat) (h : 1 ≤ xs.size) : (xs.push a)[0]! = xs[0]! := by
  rw [getElem!_pos (xs.push a) 0 (by simp), getElem!_pos xs 0 (by omega), Array.getElem_push_lt]

theorem mem_modify_zero {α : Type} {xs : Array α} {f : α → α} {a : α} (h : a ∈ xs.modify 0 f) :
    a ∈ xs ∨ ∃ b ∈ xs, a = f b := by
  obtain ⟨l⟩ := xs
  rw [Array.mem_def, Array.toList_modify] at h
  cases l with
  | nil => simp at h
  | cons x t =>
    simp only [List.modify_zero_cons, List.mem_cons] at h
    rcases h with rfl | h
    · exact Or.inr ⟨x, by simp, rfl⟩
    · exact Or.inl (by simp [h])

theorem depthFirst_toNat : Generated.MESH_TRAVERSAL_DEPTH_FIRST.toNat = 0 := rfl
theorem predictionDegree_toNat : Generated.MESH_TRAVERSAL_PREDICTION_DEGREE.toNat = 1 := rfl

/-- two elements satisfying `p` make the filter at least two long -/
theorem filter_length_two {α : Type} (p : α → Bool) : ∀ (l : List α) (a b : Nat) (hab : a < b)
    (hb : b < l.length), p (l[a]'(by omega)) = true → p l[b] = true → 2 ≤ (l.filter p).length := by
  intro l
  induction l with
  | nil => intro a b _ hb; simp at hb
  | cons x t ih =>
    intro a b hab hb ha hpb
    cases b with
    | zero => omega
    | succ b =>
      simp only [List.getElem_cons_succ] at hpb
      cases a with
      | zero =>
        simp only [List.getElem_cons_zero] at ha
        have hm : t[b]'(by simpa using hb) ∈ t.filter p :=
          List.mem_filter.mpr ⟨List.getElem_mem _, hpb⟩
        have := List.length_pos_of_mem hm
        simp [ha]
        omega
      | succ a =>
        simp only [List.getElem_cons_succ] at ha
        have := ih a b (by omega) (by simpa using hb) ha hpb
        rw [List.filter_cons]
        split <;> simp <;> omega

/-! ### the attribute data id of an attribute -/

/-- `att_data_id` of attribute `attId`: the index of its `attribute_data_` entry, −1 without one -/
def findAttData (conn : ConnEnc) (attId : Nat) : Int :=
  (((List.range conn.atts.size).find? fun i => (conn.atts[i]!).attIndex == attId).map Int.ofNat).getD (-1)

theorem findAttData_eq (conn : ConnEnc) (attId : Nat) :
    (((List.range conn.atts.size).find? fun i => (conn.atts[i]!).attIndex == attId).map Int.ofNat).getD (-1) =
      findAttData conn attId := rfl

theorem findAttData_cases (conn : ConnEnc) (a : Nat) :
    findAttData conn a = -1 ∨
      ∃ k : Nat, findAttData conn a = (k : Int) ∧ k < conn.atts.size ∧ (conn.atts[k]!).attIndex = a := by
  unfold findAttData
  cases hf : (List.range conn.atts.size).find? fun i => (conn.atts[i]!).attIndex == a with
  | none => left; rfl
  | some k =>
    right
    have h1 := List.find?_some hf
    have h2 := List.mem_range.mp (List.mem_of_find?_eq_some hf)
    exact ⟨k, rfl, h2, by simpa using h1⟩

theorem findAttData_neg {conn : ConnEnc} {a : Nat} (h : findAttData conn a < 0) : findAttData conn a = -1 := by
  rcases findAttData_cases conn a with h1 | ⟨k, h1, -, -⟩
  · exact h1
  · omega

theorem findAttData_nonneg {conn : ConnEnc} {a : Nat} (h : 0 ≤ findAttData conn a) :
    (findAttData conn a).toNat < conn.atts.size ∧ (conn.atts[(findAttData conn a).toNat]!).attIndex = a := by
  rcases findAttData_cases conn a with h1 | ⟨k, h1, h2, h3⟩
  · omega
  · rw [h1]
    exact ⟨by simpa using h2, by simpa using h3⟩

/-- two attributes with the same non-negative attribute data id are the same attribute -/
theorem findAttData_inj {conn : ConnEnc} {a b : Nat} (hb : 0 ≤ findAttData conn b)
    (h : findAttData conn a = findAttData conn b) : a = b := by
  have h1 := (findAttData_nonneg (h ▸ hb : 0 ≤ findAttData conn a)).2
  have h2 := (findAttData_nonneg hb).2
  rw [h] at h1
  exact h1.symm.trans h2

/-! ### the controllers one by one -/

/-- what `generateControllers` guarantees for one controller, in terms of its first attribute id -/
structure CtrlOk (o : EbOpts) (atts : Array Attribute) (conn : ConnEnc) (c : Controller) : Prop where
  pos : 1 ≤ c.attIds.size
  dataId : c.attDataId = findAttData conn (c.attIds[0]!)
  method : c.traversalMethod = 0 ∨
    (c.traversalMethod = 1 ∧ (o.base.speed == 0) = true ∧ ((atts[c.attIds[0]!]!).attType == posType) = true)
  onTable : c.onAttTable = true → c.traversalMethod = 0 ∧ useSingleConnectivity o = false ∧
    ((atts[c.attIds[0]!]!).attType == posType) = false ∧ 0 ≤ c.attDataId ∧
    (conn.atts[c.attDataId.toNat]!).conn.noInteriorSeams = false
  offTable : c.onAttTable = false → useSingleConnectivity o = true ∨
    ((atts[c.attIds[0]!]!).attType == posType) = true ∨
    (0 ≤ c.attDataId ∧ (conn.atts[c.attDataId.toNat]!).conn.noInteriorSeams = true)
  nonneg : useSingleConnectivity o = false → ((atts[c.attIds[0]!]!).attType == posType) = false →
    0 ≤ c.attDataId

theorem CtrlOk.push_attId {o : EbOpts} {atts : Array Attribute} {conn : ConnEnc} {c : Controller}
    (h : CtrlOk o atts conn c) (a : Nat) : CtrlOk o atts conn { c with attIds := c.attIds.push a } := by
  have e : (c.attIds.push a)[0]! = c.attIds[0]! := head_push _ _ h.pos
  constructor
  · simp
  · simp only [e]; exact h.dataId
  · simp only [e]; exact h.method
  · simp only [e]; exact h.onTable
  · simp only [e]; exact h.offTable
  · simp only [e]; exact h.nonneg

theorem CtrlOk.with_encs {o : EbOpts} {atts : Array Attribute} {conn : ConnEnc} {c : Controller}
    (h : CtrlOk o atts conn c) (es : Array SeqEncSt) : CtrlOk o atts conn { c with encs := es } :=
  ⟨h.pos, h.dataId, h.method, h.onTable, h.offTable, h.nonneg⟩

/-- every controller of `generateControllers` is `CtrlOk` -/
theorem generateControllers_ctrlOk {o : EbOpts} {atts : Array Attribute} {np : Nat} {conn : ConnEnc}
    {cs : Array Controller} (h : generateControllers o atts np conn = .ok cs) :
    ∀ c ∈ cs, CtrlOk o atts conn c := by
  unfold generateControllers at h
  simp only [Std.Legacy.Range.forIn_eq_forIn_range'] at h
  rw [bind_ok_iff] at h
  obtain ⟨cs0, hloop, hret⟩ := h
  have hcs := pure_ok_eq hret
  have hinv := forIn_mem_inv _ _ (fun (s : Array Controller) => ∀ c ∈ s, CtrlOk o atts conn c) (by
    intro a _ s r hI hf
    clear hloop hret hcs
    have hpush : ∀ c : Controller, CtrlOk o atts conn c → ∀ c' ∈ s.push c, CtrlOk o atts conn c' := by
      intro c hc c' hc'
      rcases Array.mem_push.mp hc' with hc' | rfl
      · exact hI c' hc'
      · exact hc
    split at hf
    · have hr := pure_ok_eq hf
      subst hr
      intro c' hc'
      rcases mem_modify_zero hc' with hc' | ⟨b, hb, rfl⟩
      · exact hI c' hc'
      · exact (hI b hb).push_attId a
    · rename_i hns
      suffices hk : ∃ c, CtrlOk o atts conn c ∧ r = .yield (s.push c) by
        obtain ⟨c, hc, rfl⟩ := hk
        exact hpush c hc
      clear hI hpush
      repeat' split at hf
      all_goals first
        | exact absurd hf (fun h => throw_bind_ne_ok h)
        | (have hr := pure_ok_eq hf
           subst hr
           refine ⟨_, ?_, rfl⟩
           constructor <;>
            simp_all [findAttData, depthFirst_toNat, predictionDegree_toNat] <;>
            (cases hsc : useSingleConnectivity o <;> simp_all)))
    #[] cs0 (by simp) hloop
  subst hcs
  intro c hc
  obtain ⟨c0, hc0, rfl⟩ := Array.mem_map.mp hc
  exact (hinv c0 hc0).with_encs _

variable {o : EbOpts} {atts : Array Attribute} {np : Nat} {conn : ConnEnc} {cs : Array Controller}

theorem getElem!_mem_of_lt {α : Type} [Inhabited α] (xs : Array α) (i : Nat) (hi : i < xs.size) : xs[i]! ∈ xs := by
  rw [getElem!_pos xs i hi]
  exact Array.getElem_mem hi

/-- the first attribute ids of the controllers at two different positions differ -/
theorem generateControllers_head_ne (h : generateControllers o atts np conn = .ok cs) :
    ∀ i j, i < cs.size → j < cs.size → i ≠ j → (cs[i]!).attIds[0]! ≠ (cs[j]!).attIds[0]! := by
  intro i j hi hj hne e
  have hoki := generateControllers_ctrlOk h _ (getElem!_mem_of_lt cs i hi)
  have hokj := generateControllers_ctrlOk h _ (getElem!_mem_of_lt cs j hj)
  have h1 : (cs[i]!).attIds[0]! ∈ (cs[i]!).attIds := getElem!_mem_of_lt _ 0 hoki.pos
  have h2 : (cs[j]!).attIds[0]! ∈ (cs[j]!).attIds := getElem!_mem_of_lt _ 0 hokj.pos
  rw [← e] at h2
  exact generateControllers_attIds_disjoint h i j hi hj hne _ h1 h2

/-- the first attribute id of a controller is an attribute id -/
theorem generateControllers_head_lt (h : generateControllers o atts np conn = .ok cs) :
    ∀ c ∈ cs, c.attIds[0]! < atts.size := by
  intro c hc
  exact generateControllers_attIds_lt h c hc _
    (getElem!_mem_of_lt _ 0 (generateControllers_ctrlOk h c hc).pos)

/-! ### (2) the attribute data ids -/

/-- the attribute data id of a controller is the one of its first attribute -/
theorem generateControllers_attDataId (h : generateControllers o atts np conn = .ok cs) :
    ∀ c ∈ cs, c.attDataId = findAttData conn (c.attIds[0]!) :=
  fun c hc => (generateControllers_ctrlOk h c hc).dataId

/-- a negative attribute data id is −1 -/
theorem generateControllers_attDataId_neg (h : generateControllers o atts np conn = .ok cs) :
    ∀ c ∈ cs, c.attDataId < 0 → c.attDataId = -1 := by
  intro c hc hneg
  rw [generateControllers_attDataId h c hc] at hneg ⊢
  exact findAttData_neg hneg

/-- a non-negative attribute data id is an index of `attribute_data_`, of the entry of the
    controller's first attribute -/
theorem generateControllers_attDataId_lt (h : generateControllers o atts np conn = .ok cs) :
    ∀ c ∈ cs, 0 ≤ c.attDataId → c.attDataId.toNat < conn.atts.size ∧
      (conn.atts[c.attDataId.toNat]!).attIndex = c.attIds[0]! := by
  intro c hc hnn
  rw [generateControllers_attDataId h c hc] at hnn ⊢
  exact findAttData_nonneg hnn

/-- two different controllers do not share a non-negative attribute data id -/
theorem generateControllers_attDataId_ne (h : generateControllers o atts np conn = .ok cs) :
    ∀ i j, i < cs.size → j < cs.size → i ≠ j → 0 ≤ (cs[j]!).attDataId →
      (cs[i]!).attDataId ≠ (cs[j]!).attDataId := by
  intro i j hi hj hne hnn e
  rw [generateControllers_attDataId h _ (getElem!_mem_of_lt cs i hi),
    generateControllers_attDataId h _ (getElem!_mem_of_lt cs j hj)] at e
  rw [generateControllers_attDataId h _ (getElem!_mem_of_lt cs j hj)] at hnn
  exact generateControllers_head_ne h i j hi hj hne (findAttData_inj hnn e)

/-- without a single connectivity, a controller without attribute data is one of a POSITION attribute -/
theorem generateControllers_attDataId_neg_pos (h : generateControllers o atts np conn = .ok cs)
    (hs : useSingleConnectivity o = false) :
    ∀ c ∈ cs, c.attDataId < 0 → ((atts[c.attIds[0]!]!).attType == posType) = true := by
  intro c hc hneg
  cases hp : ((atts[c.attIds[0]!]!).attType == posType) with
  | true => rfl
  | false =>
    have := (generateControllers_ctrlOk h c hc).nonneg hs hp
    omega

/-- at most one controller has a negative attribute data id (with exactly one POSITION attribute, which is what
    `connInputs` requires without a single connectivity; with a single connectivity there is only one controller) -/
theorem generateControllers_attDataId_neg_unique (h : generateControllers o atts np conn = .ok cs)
    (hpos : useSingleConnectivity o = false → (atts.toList.filter fun a => a.attType == posType).length = 1) :
    ∀ i j, i < cs.size → j < cs.size → (cs[i]!).attDataId < 0 → (cs[j]!).attDataId < 0 → i = j := by
  intro i j hi hj hni hnj
  cases hs : useSingleConnectivity o with
  | true =>
    have := generateControllers_single h hs
    omega
  | false =>
    by_contra hne
    have hci := getElem!_mem_of_lt cs i hi
    have hcj := getElem!_mem_of_lt cs j hj
    have hpi := generateControllers_attDataId_neg_pos h hs _ hci hni
    have hpj := generateControllers_attDataId_neg_pos h hs _ hcj hnj
    have hli := generateControllers_head_lt h _ hci
    have hlj := generateControllers_head_lt h _ hcj
    have hhe := generateControllers_head_ne h i j hi hj hne
    rw [getElem!_pos atts _ hli] at hpi
    rw [getElem!_pos atts _ hlj] at hpj
    have key : ∀ a b (ha : a < atts.size) (hb : b < atts.size), a < b →
        (atts[a].attType == posType) = true → (atts[b].attType == posType) = true → False := by
      intro a b ha hb hab hpa hpb
      have := filter_length_two (fun a : Attribute => a.attType == posType) atts.toList a b hab
        (by simpa using hb) (by simpa using hpa) (by simpa using hpb)
      have := hpos hs
      omega
    rcases Nat.lt_or_gt_of_ne hhe with hlt | hlt
    · exact key _ _ hli hlj hlt hpi hpj
    · exact key _ _ hlj hli hlt hpj hpi

/-! ### (3) the condition of the decoder on the attribute data ids, in any duplicate free order -/

/-- the attribute data ids of the controllers in a duplicate free order (`rearrangeEncoders_order`): an id `≥ 0` is
    not repeated, and at most one id is negative -/
theorem generateControllers_attDataId_pairwise (h : generateControllers o atts np conn = .ok cs)
    (hpos : useSingleConnectivity o = false → (atts.toList.filter fun a => a.attType == posType).length = 1)
    (order : Array Nat) (hnd : order.toList.Nodup) (hlt : ∀ e ∈ order, e < cs.size) :
    (order.toList.map fun e => (cs[e]!).attDataId).Pairwise
      fun a b => (0 ≤ b → a ≠ b) ∧ (b < 0 → 0 ≤ a) := by
  rw [List.pairwise_map, List.pairwise_iff_getElem]
  intro p q hp hq hpq
  have hne : order.toList[p] ≠ order.toList[q] := List.pairwise_iff_getElem.mp hnd p q hp hq hpq
  have h1 : order.toList[p] < cs.size := hlt _ (by simp)
  have h2 : order.toList[q] < cs.size := hlt _ (by simp)
  refine ⟨generateControllers_attDataId_ne h _ _ h1 h2 hne, ?_⟩
  intro hb
  by_contra ha
  exact hne (generateControllers_attDataId_neg_unique h hpos _ _ h1 h2 (by omega) hb)

/-- the same for the order computed by `rearrangeEncoders` -/
theorem rearrangeEncoders_attDataId_pairwise (h : generateControllers o atts np conn = .ok cs)
    (hpos : useSingleConnectivity o = false → (atts.toList.filter fun a => a.attType == posType).length = 1)
    {order : Array Nat} (ho : rearrangeEncoders atts cs = .ok order) :
    (order.toList.map fun e => (cs[e]!).attDataId).Pairwise
      fun a b => (0 ≤ b → a ≠ b) ∧ (b < 0 → 0 ≤ a) := by
  obtain ⟨-, h2, h3⟩ := rearrangeEncoders_order ho
  exact generateControllers_attDataId_pairwise h hpos order h3 h2

/-! ### (1) traversal method and decoder type -/

/-- only `MESH_TRAVERSAL_DEPTH_FIRST` (0) and `MESH_TRAVERSAL_PREDICTION_DEGREE` (1) are used -/
theorem generateControllers_traversalMethod_lt (h : generateControllers o atts np conn = .ok cs) :
    ∀ c ∈ cs, c.traversalMethod < 2 := by
  intro c hc
  rcases (generateControllers_ctrlOk h c hc).method with h0 | ⟨h1, -, -⟩ <;> omega

/-- the prediction degree traversal is only used at speed 0 for a controller whose first attribute is a POSITION -/
theorem generateControllers_traversalMethod_one (h : generateControllers o atts np conn = .ok cs) :
    ∀ c ∈ cs, c.traversalMethod ≠ 0 → c.traversalMethod = 1 ∧ (o.base.speed == 0) = true ∧
      ((atts[c.attIds[0]!]!).attType == posType) = true := by
  intro c hc hne
  rcases (generateControllers_ctrlOk h c hc).method with h0 | h1
  · exact absurd h0 hne
  · exact h1

/-- a controller that traverses an attribute corner table: depth first, not under a single connectivity, first
    attribute not a POSITION, with attribute data that have interior seams -/
theorem generateControllers_onAttTable (h : generateControllers o atts np conn = .ok cs) :
    ∀ c ∈ cs, c.onAttTable = true → c.traversalMethod = 0 ∧ 0 ≤ c.attDataId ∧
      (conn.atts[c.attDataId.toNat]!).conn.noInteriorSeams = false ∧
      useSingleConnectivity o = false ∧ ((atts[c.attIds[0]!]!).attType == posType) = false := by
  intro c hc ht
  obtain ⟨h1, h2, h3, h4, h5⟩ := (generateControllers_ctrlOk h c hc).onTable ht
  exact ⟨h1, h4, h5, h2, h3⟩

/-- with a single connectivity no controller traverses an attribute corner table (and there is at most one
    controller: `generateControllers_single`) -/
theorem generateControllers_onAttTable_single (h : generateControllers o atts np conn = .ok cs)
    (hs : useSingleConnectivity o = true) : ∀ c ∈ cs, c.onAttTable = false := by
  intro c hc
  cases ht : c.onAttTable with
  | false => rfl
  | true =>
    have := (generateControllers_onAttTable h c hc ht).2.2.2.1
    rw [hs] at this
    cases this

/-- the element type the stream announces for the decoder of a controller: per vertex (`true`) or per corner
    (`decOfController`: `cornerDecoder = !perVertex`) -/
def perVertex (conn : ConnEnc) (c : Controller) : Bool :=
  decide (c.attDataId < 0) || (conn.atts[c.attDataId.toNat]!).conn.noInteriorSeams

/-- a controller on an attribute corner table is announced as a per-corner decoder -/
theorem generateControllers_onAttTable_perVertex (h : generateControllers o atts np conn = .ok cs) :
    ∀ c ∈ cs, c.onAttTable = true → perVertex conn c = false := by
  intro c hc ht
  obtain ⟨-, h2, h3, -, -⟩ := generateControllers_onAttTable h c hc ht
  simp [perVertex, h3]
  omega

/-- a controller announced as a per-corner decoder has attribute data; it uses the depth first traversal unless
    its first attribute is a POSITION attribute WITH an `attribute_data_` entry (at speed 0) -/
theorem generateControllers_perVertex_false' (h : generateControllers o atts np conn = .ok cs) :
    ∀ c ∈ cs, perVertex conn c = false → 0 ≤ c.attDataId ∧
      (conn.atts[c.attDataId.toNat]!).conn.noInteriorSeams = false ∧
      (c.traversalMethod = 0 ∨
        (c.traversalMethod = 1 ∧ (o.base.speed == 0) = true ∧ ((atts[c.attIds[0]!]!).attType == posType) = true)) := by
  intro c hc hv
  simp only [perVertex, Bool.or_eq_false_iff, decide_eq_false_iff_not] at hv
  exact ⟨by omega, hv.2, (generateControllers_ctrlOk h c hc).method⟩

/-- `attribute_data_` has entries for non-POSITION attributes only (`connInputs`) -/
def AttDataNonPos (atts : Array Attribute) (conn : ConnEnc) : Prop :=
  ∀ k, k < conn.atts.size → ((atts[(conn.atts[k]!).attIndex]!).attType == posType) = false

/-- a controller whose first attribute is a POSITION has no attribute data -/
theorem generateControllers_pos_attDataId (h : generateControllers o atts np conn = .ok cs)
    (hconn : AttDataNonPos atts conn) :
    ∀ c ∈ cs, ((atts[c.attIds[0]!]!).attType == posType) = true → c.attDataId = -1 := by
  intro c hc hp
  by_cases hnn : 0 ≤ c.attDataId
  · obtain ⟨h1, h2⟩ := generateControllers_attDataId_lt h c hc hnn
    have := hconn _ h1
    rw [h2, hp] at this
    cases this
  · exact generateControllers_attDataId_neg h c hc (by omega)

/-- (1) a controller announced as a per-corner decoder uses the depth first traversal and has attribute data -/
theorem generateControllers_perVertex_false (h : generateControllers o atts np conn = .ok cs)
    (hconn : AttDataNonPos atts conn) :
    ∀ c ∈ cs, perVertex conn c = false → c.traversalMethod = 0 ∧ 0 ≤ c.attDataId := by
  intro c hc hv
  obtain ⟨h1, -, h3⟩ := generateControllers_perVertex_false' h c hc hv
  refine ⟨?_, h1⟩
  rcases h3 with h0 | ⟨-, -, hp⟩
  · exact h0
  · have := generateControllers_pos_attDataId h hconn c hc hp
    omega

/-- without a single connectivity the announced decoder type is the one the encoder uses -/
theorem generateControllers_perVertex_eq (h : generateControllers o atts np conn = .ok cs)
    (hconn : AttDataNonPos atts conn) (hs : useSingleConnectivity o = false) :
    ∀ c ∈ cs, perVertex conn c = !c.onAttTable := by
  intro c hc
  cases ht : c.onAttTable with
  | true => simpa using generateControllers_onAttTable_perVertex h c hc ht
  | false =>
    rcases (generateControllers_ctrlOk h c hc).offTable ht with h1 | hp | ⟨-, h3⟩
    · rw [hs] at h1; cases h1
    · have := generateControllers_pos_attDataId h hconn c hc hp
      simp [perVertex, this]
    · simp [perVertex, h3]

end Draco.EbEnc
