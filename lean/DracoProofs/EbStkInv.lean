import DracoProofs.EbTraceS2
/-
  The stack / `splitActive` invariant `StkInv` (DracoProofs/EbTraceS2.lean) through the pure decoder with `S`
  (DracoProofs/EbTraceS.lean):

  * `stkInv_init`, `stkInv_step`, `stkInv_StS`: `StkInv syms evs j (StS syms evs nf maxV j)` for every `j ≤ syms.length`;
  * `cornerA_of_stk_ev`: the split-EVENT case of `cornerA_of_stk_noev`.

  Besides `EvOK` the step needs that the decoder's stack is not exhausted (`StkOK`, decidable): a symbol other than `E` is
  not the first one, and an `S` without split event finds two entries on the stack.  Both are part of the abstract trace
  (`stkOK_of_traceAtS`: `TraceAt` has `0 < j` for `R / L / C`, `SAt` has `0 < j` and `1 < (stk j).length`).  Without them
  the model's `set!` on an empty stack is a no-op while `stk` still records the face.
-/
namespace Draco.EbEnc.DecSim
open Draco Draco.EbEnc
open Draco.Eb (inv TopoSplit)

/-! ### arrays as lists -/

theorem arr_back (l : List Nat) (y : Nat) : (l ++ [y]).toArray.back! = y := by
  simp [Array.back!]

theorem arr_pop (l : List Nat) (y : Nat) : (l ++ [y]).toArray.pop = l.toArray := by
  simp

theorem arr_set_last (l : List Nat) (y z : Nat) :
    (l ++ [y]).toArray.set! ((l ++ [y]).toArray.size - 1) z = (l ++ [z]).toArray := by
  simp [Array.set!, Array.setIfInBounds]

theorem back_push (a : Array Nat) (x : Nat) : (a.push x).back! = x := by
  obtain ⟨l⟩ := a
  simp [Array.back!]

theorem arr_push (l : List Nat) (y : Nat) : l.toArray.push y = (l ++ [y]).toArray := by
  simp

/-- the stack as an array: `x :: l` (top first) ↦ `… ++ [3 x]` -/
theorem stkArr_cons (x : Nat) (l : List Nat) :
    ((x :: l).reverse.map (3 * ·)).toArray = (l.reverse.map (3 * ·) ++ [3 * x]).toArray := by
  simp

theorem setB_get (a : Array Nat) (k v i : Nat) :
    (a.set! k v)[i]! = if k = i ∧ k < a.size then v else a[i]! := by
  rw [Array.getElem!_eq_getD, Array.getElem!_eq_getD]
  exact vget_set a k i v

/-! ### `applySplits` -/

theorem applySplits_size (n : Nat) (evs : List TopoSplit) (j : Nat) : ∀ sa : Array Nat,
    (applySplits n evs j sa).size = sa.size := by
  unfold applySplits
  induction evs with
  | nil => intro sa; rfl
  | cons e rest ih =>
    intro sa
    rw [List.foldl_cons, ih]
    split <;> simp [Array.set!]

/-- the entry `i` after `applySplits`: `v`, when every event that writes to `i` writes `v` and (some event writes to `i` or
    the entry was `v` before) -/
theorem applySplits_get (n : Nat) (evs : List TopoSplit) (j i v : Nat) : ∀ sa : Array Nat, i < sa.size →
    (∀ ev, ev ∈ evs → ev.source = n - 1 - j ∧ ev.split < n → n - 1 - ev.split = i →
      (if ev.edge = 1 then 3 * j + 1 else 3 * j + 2) = v) →
    ((∃ ev, ev ∈ evs ∧ (ev.source = n - 1 - j ∧ ev.split < n) ∧ n - 1 - ev.split = i) ∨ sa[i]! = v) →
    (applySplits n evs j sa)[i]! = v := by
  unfold applySplits
  induction evs with
  | nil =>
    intro sa _ _ h
    rcases h with ⟨ev, hev, _⟩ | h
    · cases hev
    · exact h
  | cons e rest ih =>
    intro sa hi hall h
    rw [List.foldl_cons]
    have hall' : ∀ ev, ev ∈ rest → ev.source = n - 1 - j ∧ ev.split < n → n - 1 - ev.split = i →
        (if ev.edge = 1 then 3 * j + 1 else 3 * j + 2) = v :=
      fun ev hev => hall ev (List.mem_cons_of_mem _ hev)
    by_cases hc : e.source = n - 1 - j ∧ e.split < n
    · rw [if_pos hc]
      apply ih _ (by simpa [Array.set!] using hi) hall'
      by_cases hrest : ∃ ev, ev ∈ rest ∧ (ev.source = n - 1 - j ∧ ev.split < n) ∧ n - 1 - ev.split = i
      · exact Or.inl hrest
      · right
        by_cases hidx : n - 1 - e.split = i
        · rw [setB_get, if_pos ⟨hidx, by omega⟩]
          exact hall e List.mem_cons_self hc hidx
        · have hold : sa[i]! = v := by
            rcases h with ⟨ev, hev, hcv, hiv⟩ | h
            · rcases List.mem_cons.mp hev with rfl | hev'
              · exact absurd hiv hidx
              · exact absurd ⟨ev, hev', hcv, hiv⟩ hrest
            · exact h
          rw [setB_get, if_neg (fun h => hidx h.1)]
          exact hold
    · rw [if_neg hc]
      apply ih _ hi hall'
      rcases h with ⟨ev, hev, hcv, hiv⟩ | h
      · rcases List.mem_cons.mp hev with rfl | hev'
        · exact absurd hcv hc
        · exact Or.inl ⟨ev, hev', hcv, hiv⟩
      · exact Or.inr h

/-! ### the hypothesis on the stack -/

/-- the decoder's stack is not exhausted at the symbol `j` -/
def StkOK (syms : List Nat) (evs : List TopoSplit) (j : Nat) : Prop :=
  (syms[j]! ≠ 7 → 0 < j) ∧ (syms[j]! = 1 → hasEv syms.length evs j = false → 1 < (stk syms evs j).length)

instance (syms : List Nat) (evs : List TopoSplit) (j : Nat) : Decidable (StkOK syms evs j) := by
  unfold StkOK; infer_instance

/-- the abstract trace provides `StkOK` -/
theorem stkOK_of_traceAtS {t : CT} {P : Array Nat} {syms : List Nat} {evs : List TopoSplit} {j : Nat}
    (h : TraceAtS t P syms evs j) : StkOK syms evs j := by
  constructor
  · intro h7
    by_cases h1 : syms[j]! = 1
    · exact (h.2 h1).2.2.2.1
    · obtain ⟨_, _, _, _, h5, h3, h0, hor⟩ := h.1 h1
      rcases hor with e | e | e | e
      · exact absurd e h7
      · exact (h5 e).1
      · exact (h3 e).1
      · exact (h0 e).1
  · intro h1 hev
    have hA := (h.2 h1).2.2.2
    have hn : hasEv syms.length evs j = false →
        1 < (stk syms evs j).length ∧ t.opp[Eb.prevC P[j]!]! = P[(stk syms evs j)[1]!]! := by
      first
        | exact hA.2.2.2.1
        | exact hA.2.2.1
    exact (hn hev).1

/-! ### (1) the initial state -/

theorem stkInv_init (syms : List Nat) (evs : List TopoSplit) (nf maxV : Nat) :
    StkInv syms evs 0 (DSS.init syms.length nf maxV) := by
  refine ⟨by simp [DSS.init, stk], by simp [DSS.init], fun ev _ h => by omega, ?_⟩
  intro i hi _
  simp [DSS.init, hi]

/-! ### (2) one symbol -/

theorem stk_step_stack (sym j : Nat) (b : DS) (h7 : sym ≠ 7) :
    (step sym j b).stack = b.stack.set! (b.stack.size - 1) (3 * j) := by
  unfold step
  rw [if_neg h7]
  split
  · rfl
  · split <;> rfl

/-- the events of an `EvOK` list are determined by their split symbol -/
theorem evOK_split_inj {syms : List Nat} {evs : List TopoSplit} (hE : EvOK syms evs) {e e' : TopoSplit}
    (he : e ∈ evs) (he' : e' ∈ evs) (h : e.split = e'.split) : e = e' :=
  List.inj_on_of_nodup_map hE.2.1 he he' h

/-- the `splitActive` part of the step: shared by all symbols (`C` and `S` keep the array, the others run `applySplits`) -/
theorem stkInv_sa {syms : List Nat} {evs : List TopoSplit} {j : Nat} {s : DSS} (hE : EvOK syms evs)
    (hI : StkInv syms evs j s) (hj : j < syms.length) (sa' : Array Nat)
    (hsa : sa' = applySplits syms.length evs j s.splitActive ∨
      (sa' = s.splitActive ∧ syms[j]! ≠ 7 ∧ syms[j]! ≠ 5 ∧ syms[j]! ≠ 3)) :
    sa'.size = syms.length ∧
    (∀ ev, ev ∈ evs → syms.length - 1 - ev.source < j + 1 →
      sa'[syms.length - 1 - ev.split]! =
        (if ev.edge = 1 then 3 * (syms.length - 1 - ev.source) + 1 else 3 * (syms.length - 1 - ev.source) + 2)) ∧
    (∀ i, i < syms.length →
      (∀ ev, ev ∈ evs → syms.length - 1 - ev.source < j + 1 → syms.length - 1 - ev.split ≠ i) → sa'[i]! = inv) := by
  obtain ⟨hev, hnd, _⟩ := hE
  rcases hsa with rfl | ⟨rfl, h7, h5, h3⟩
  · refine ⟨by rw [applySplits_size]; exact hI.sasz, ?_, ?_⟩
    · intro ev hmem hlt
      obtain ⟨g1, g2, _, _, _⟩ := hev ev hmem
      have hidx : syms.length - 1 - ev.split < s.splitActive.size := by rw [hI.sasz]; omega
      apply applySplits_get _ _ _ _ _ _ hidx
      · intro ev' hmem' hc' hi'
        obtain ⟨g1', g2', _, _, _⟩ := hev ev' hmem'
        have : ev' = ev := evOK_split_inj ⟨hev, hnd, by assumption⟩ hmem' hmem (by omega)
        subst this
        have : syms.length - 1 - ev'.source = j := by omega
        rw [this]
      · by_cases hq : syms.length - 1 - ev.source < j
        · right
          exact hI.sa ev hmem hq
        · left
          exact ⟨ev, hmem, ⟨by omega, by omega⟩, rfl⟩
    · intro i hi hno
      apply applySplits_get _ _ _ _ _ _ (by rw [hI.sasz]; exact hi)
      · intro ev hmem hc hidx
        obtain ⟨g1, g2, _, _, _⟩ := hev ev hmem
        exact absurd hidx (hno ev hmem (by omega))
      · right
        exact hI.sa0 i hi (fun ev hmem hlt => hno ev hmem (by omega))
  · refine ⟨hI.sasz, ?_, ?_⟩
    · intro ev hmem hlt
      by_cases hq : syms.length - 1 - ev.source < j
      · exact hI.sa ev hmem hq
      · exfalso
        obtain ⟨_, _, _, _, hs⟩ := hev ev hmem
        have : syms.length - 1 - ev.source = j := by omega
        rw [this] at hs
        rcases hs with e | e | e
        · exact h7 e
        · exact h5 e
        · exact h3 e
    · intro i hi hno
      exact hI.sa0 i hi (fun ev hmem hlt => hno ev hmem (by omega))

theorem stkInv_step {syms : List Nat} {evs : List TopoSplit} {j : Nat} {s : DSS} (hE : EvOK syms evs)
    (hOK : StkOK syms evs j) (hfit : 3 * syms.length ≤ inv)
    (hI : StkInv syms evs j s) (hj : j < syms.length) :
    StkInv syms evs (j + 1) (stepSS syms.length evs syms[j]! j s) := by
  have hstk : stk syms evs (j + 1) =
      (if syms[j]! = 7 then j :: stk syms evs j
       else if syms[j]! = 1 then
        (if hasEv syms.length evs j then j :: (stk syms evs j).tail else j :: (stk syms evs j).tail.tail)
       else j :: (stk syms evs j).tail) := rfl
  -- a non-empty stack when the symbol is not `E`
  have hne : syms[j]! ≠ 7 → ∃ x l, stk syms evs j = x :: l := by
    intro h7
    obtain ⟨j', rfl⟩ : ∃ j', j = j' + 1 := ⟨j - 1, by have := hOK.1 h7; omega⟩
    have hh := stk_head syms evs j'
    cases hst : stk syms evs (j' + 1) with
    | nil => rw [hst] at hh; cases hh
    | cons x l => exact ⟨x, l, rfl⟩
  by_cases h1 : syms[j]! = 1
  · -- `S`
    obtain ⟨hsz, hsa, hsa0⟩ := stkInv_sa hE hI hj s.splitActive (Or.inr ⟨rfl, by omega, by omega, by omega⟩)
    have e : stepSS syms.length evs syms[j]! j s = stepS j s := by unfold stepSS; rw [if_pos h1]
    rw [e]
    refine ⟨?_, hsz, hsa, hsa0⟩
    obtain ⟨x, l, hst⟩ := hne (by omega)
    show (let st2 := if s.splitActive[j]! ≠ inv then s.stack.pop.push s.splitActive[j]! else s.stack.pop
      st2.set! (st2.size - 1) (3 * j)) = _
    have h7 : ¬ syms[j]! = 7 := by omega
    rw [hstk, if_neg h7, if_pos h1, hI.stack, hst, stkArr_cons, arr_pop]
    cases hev : hasEv syms.length evs j with
    | true =>
      -- the event supplies the split-active corner
      have hfind : ∃ ev, ev ∈ evs ∧ evHits syms.length j ev = true := by
        have := List.any_eq_true.mp hev
        exact this
      obtain ⟨ev, hmem, hhit⟩ := hfind
      simp only [evHits, Bool.and_eq_true, decide_eq_true_eq] at hhit
      obtain ⟨g1, g2, _, _, _⟩ := hE.1 ev hmem
      have hval := hI.sa ev hmem (by omega)
      rw [hhit.2] at hval
      have hne' : s.splitActive[j]! ≠ inv := by
        rw [hval]
        split <;> omega
      simp only [hne', ne_eq, not_false_eq_true, if_true, if_true]
      rw [arr_push, arr_set_last]
      simp
    | false =>
      have hlen := hOK.2 h1 hev
      have hsa0' : s.splitActive[j]! = inv := by
        apply hI.sa0 j hj
        intro ev hmem _ e
        have : evHits syms.length j ev = false := by
          have := List.any_eq_false.mp hev ev hmem
          simpa using this
        obtain ⟨g1, g2, _, _, _⟩ := hE.1 ev hmem
        simp [evHits, e] at this
        omega
      simp only [hsa0', ne_eq, not_true_eq_false, if_false]
      cases l with
      | nil => rw [hst] at hlen; simp at hlen
      | cons y rest =>
        simp only [List.tail_cons, Bool.false_eq_true, if_false]
        rw [stkArr_cons, arr_set_last]
        simp
  · by_cases h0 : syms[j]! = 0
    · -- `C`
      obtain ⟨hsz, hsa, hsa0⟩ := stkInv_sa hE hI hj s.splitActive (Or.inr ⟨rfl, by omega, by omega, by omega⟩)
      have e : stepSS syms.length evs syms[j]! j s = s.withBase (stepC j s.base) := by
        unfold stepSS; rw [if_neg h1, if_pos h0]
      rw [e]
      refine ⟨?_, hsz, hsa, hsa0⟩
      obtain ⟨x, l, hst⟩ := hne (by omega)
      show s.stack.set! (s.stack.size - 1) (3 * j) = _
      have h7 : ¬ syms[j]! = 7 := by omega
      rw [hstk, if_neg h7, if_neg h1, hI.stack, hst, stkArr_cons, arr_set_last]
      simp
    · -- `E`, `R`, `L` (and every other value: handled like `C` by `step`, with `applySplits`)
      obtain ⟨hsz, hsa, hsa0⟩ := stkInv_sa hE hI hj (applySplits syms.length evs j s.splitActive) (Or.inl rfl)
      have e : stepSS syms.length evs syms[j]! j s =
          { s.withBase (step syms[j]! j s.base) with
            splitActive := applySplits syms.length evs j (s.withBase (step syms[j]! j s.base)).splitActive } := by
        unfold stepSS; rw [if_neg h1, if_neg h0]
      rw [e]
      refine ⟨?_, hsz, hsa, hsa0⟩
      show (step syms[j]! j s.base).stack = _
      by_cases h7 : syms[j]! = 7
      · rw [hstk, if_pos h7]
        have : (step syms[j]! j s.base).stack = s.stack.push (3 * j) := by
          unfold step; rw [if_pos h7]; rfl
        rw [this, hI.stack]
        simp
      · obtain ⟨x, l, hst⟩ := hne h7
        rw [stk_step_stack _ _ _ h7]
        show s.stack.set! (s.stack.size - 1) (3 * j) = _
        rw [hstk, if_neg h7, if_neg h1, hI.stack, hst, stkArr_cons, arr_set_last]
        simp

/-! ### (4) all symbols -/

theorem stkInv_StS (syms : List Nat) (evs : List TopoSplit) (nf maxV : Nat) (hE : EvOK syms evs)
    (hOK : ∀ j, j < syms.length → StkOK syms evs j) (hfit : 3 * syms.length ≤ inv) :
    ∀ j, j ≤ syms.length → StkInv syms evs j (StS syms evs nf maxV j)
  | 0, _ => stkInv_init syms evs nf maxV
  | j+1, h => by
    have ih := stkInv_StS syms evs nf maxV hE hOK hfit j (by omega)
    exact stkInv_step hE (hOK j (by omega)) hfit ih (by omega)

/-- … from the abstract trace -/
theorem stkInv_of_trace {t : CT} {P : Array Nat} {syms : List Nat} {evs : List TopoSplit} {starts : List (Bool × Nat)}
    (hT : TraceS t P syms evs starts) (nf maxV : Nat) (hfit : 3 * syms.length ≤ inv) :
    ∀ j, j ≤ syms.length → StkInv syms evs j (StS syms evs nf maxV j) :=
  stkInv_StS syms evs nf maxV hT.evok (fun j hj => stkOK_of_traceAtS (hT.face j hj)) hfit

/-! ### (3) `cornerA` with a split event -/

/-- the event of the `S` at `j`: it is in the list and targets `j` -/
theorem evOf_spec {n : Nat} {evs : List TopoSplit} {j : Nat} (h : hasEv n evs j = true) :
    evOf n evs j ∈ evs ∧ (evOf n evs j).split < n ∧ n - 1 - (evOf n evs j).split = j := by
  unfold evOf
  cases hf : evs.find? (evHits n j) with
  | none =>
    exfalso
    rw [List.find?_eq_none] at hf
    obtain ⟨ev, hmem, hhit⟩ := List.any_eq_true.mp h
    exact hf ev hmem hhit
  | some e =>
    have h1 := List.find?_some hf
    have h2 := List.mem_of_find?_eq_some hf
    simp only [evHits, Bool.and_eq_true, decide_eq_true_eq] at h1
    exact ⟨h2, h1.1, h1.2⟩

/-- **`hpa` of `oinv_stepS`, split event** (explicit form of the two facts `SAt` provides): `cornerA` is the corner
    `3 q' + 1 / 2` recorded in `splitActive[j]` -/
theorem cornerA_of_stk_ev' {t : CT} {P : Array Nat} {syms : List Nat} {evs : List TopoSplit} {j : Nat} {s : DSS}
    (hS : StkInv syms evs j s) (hj : j < syms.length) (hfit : 3 * syms.length ≤ inv)
    (hev : hasEv syms.length evs j = true)
    (hsrc : syms.length - 1 - (evOf syms.length evs j).source < j)
    (hopp : t.opp[Eb.prevC P[j]!]! =
      (if (evOf syms.length evs j).edge = 1 then Eb.nextC P[syms.length - 1 - (evOf syms.length evs j).source]!
       else Eb.prevC P[syms.length - 1 - (evOf syms.length evs j).source]!)) :
    ∃ a, (if s.splitActive[j]! ≠ inv then s.stack.pop.push s.splitActive[j]! else s.stack.pop).back! = a ∧
      a < 3 * j ∧ a ≠ 3 * (j - 1) ∧ phi P a = t.opp[Eb.prevC P[j]!]! := by
  obtain ⟨hmem, hsp, hidx⟩ := evOf_spec hev
  have hval := hS.sa _ hmem hsrc
  rw [hidx] at hval
  have hne : s.splitActive[j]! ≠ inv := by
    rw [hval]; split <;> omega
  refine ⟨s.splitActive[j]!, ?_, ?_, ?_, ?_⟩
  · rw [if_pos hne, back_push]
  · rw [hval]; split <;> omega
  · rw [hval]; split <;> omega
  · rw [hval, hopp]
    split
    · rw [phi_1]
    · rw [phi_2]

/-- … from `SAt` -/
theorem cornerA_of_stk_ev {t : CT} {P : Array Nat} {syms : List Nat} {evs : List TopoSplit} {j : Nat} {s : DSS}
    (hS : StkInv syms evs j s) (hA : SAt t P syms evs j) (hj : j < syms.length) (hfit : 3 * syms.length ≤ inv)
    (hev : hasEv syms.length evs j = true) :
    ∃ a, (if s.splitActive[j]! ≠ inv then s.stack.pop.push s.splitActive[j]! else s.stack.pop).back! = a ∧
      a < 3 * j ∧ a ≠ 3 * (j - 1) ∧ phi P a = t.opp[Eb.prevC P[j]!]! := by
  have he : hasEv syms.length evs j = true →
      syms.length - 1 - (evOf syms.length evs j).source < j ∧
      t.opp[Eb.prevC P[j]!]! =
        (if (evOf syms.length evs j).edge = 1 then Eb.nextC P[syms.length - 1 - (evOf syms.length evs j).source]!
         else Eb.prevC P[syms.length - 1 - (evOf syms.length evs j).source]!) := by
    first
      | exact hA.2.2.2.2
      | exact hA.2.2.2
  exact cornerA_of_stk_ev' hS hj hfit hev (he hev).1 (he hev).2

/-! ### the instances of EbTraceS.lean -/

/-- 2×2 grid -/
example : ∀ j, j ≤ 8 → StkInv [7, 7, 1, 5, 5, 7, 1, 0] [] j (StS [7, 7, 1, 5, 5, 7, 1, 0] [] 8 11 j) :=
  fun j hj => stkInv_StS [7, 7, 1, 5, 5, 7, 1, 0] [] 8 11 (by decide) (by decide) (by decide) j hj

/-- annulus: one split event -/
example : ∀ j, j ≤ 16 → StkInv [7, 3, 5, 7, 1, 5, 3, 5, 5, 3, 5, 7, 1, 5, 3, 1] [⟨15, 0, 0⟩] j
    (StS [7, 3, 5, 7, 1, 5, 3, 5, 5, 3, 5, 7, 1, 5, 3, 1] [⟨15, 0, 0⟩] 16 19 j) :=
  fun j hj => stkInv_StS [7, 3, 5, 7, 1, 5, 3, 5, 5, 3, 5, 7, 1, 5, 3, 1] [⟨15, 0, 0⟩] 16 19
    (by decide) (by decide) (by decide) j hj

/-- torus: two split events -/
example : ∀ j, j ≤ 17 → StkInv [7, 7, 7, 1, 3, 5, 1, 1, 5, 0, 1, 0, 5, 0, 0, 0, 0] [⟨16, 6, 1⟩, ⟨15, 9, 1⟩] j
    (StS [7, 7, 7, 1, 3, 5, 1, 1, 5, 0, 1, 0, 5, 0, 0, 0, 0] [⟨16, 6, 1⟩, ⟨15, 9, 1⟩] 18 13 j) :=
  fun j hj => stkInv_StS [7, 7, 7, 1, 3, 5, 1, 1, 5, 0, 1, 0, 5, 0, 0, 0, 0] [⟨16, 6, 1⟩, ⟨15, 9, 1⟩] 18 13
    (by decide) (by decide) (by decide) j hj

end Draco.EbEnc.DecSim
