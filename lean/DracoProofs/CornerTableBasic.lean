import DracoModel.CornerTable
/-
  Basic lemmas for the corner-table model: corner arithmetic, array reads after writes, the
  Prop-level statement `CornerTable.Consistent` of property C13 (clauses I1–I5) and soundness of
  the executable checker `CornerTable.consistent`.
-/
namespace Draco

/-! ### corner arithmetic -/

/-- case split on the `if`s of `nextC` / `prevC`, then linear arithmetic -/
macro "corner_arith" : tactic =>
  `(tactic| (simp only [nextC, prevC] at *; (repeat' split) <;> omega))

theorem nextC_div (c : Nat) : nextC c / 3 = c / 3 := by corner_arith
theorem prevC_div (c : Nat) : prevC c / 3 = c / 3 := by corner_arith
theorem nextC_mod (c : Nat) : nextC c % 3 = (c + 1) % 3 := by corner_arith
theorem prevC_mod (c : Nat) : prevC c % 3 = (c + 2) % 3 := by corner_arith
@[simp] theorem nextC_prevC (c : Nat) : nextC (prevC c) = c := by corner_arith
@[simp] theorem prevC_nextC (c : Nat) : prevC (nextC c) = c := by corner_arith
theorem nextC_nextC (c : Nat) : nextC (nextC c) = prevC c := by corner_arith
theorem prevC_prevC (c : Nat) : prevC (prevC c) = nextC c := by corner_arith
theorem nextC_ne (c : Nat) : nextC c ≠ c := by corner_arith
theorem prevC_ne (c : Nat) : prevC c ≠ c := by corner_arith
theorem nextC_ne_prevC (c : Nat) : nextC c ≠ prevC c := by corner_arith
theorem nextC_lt {c n : Nat} (h : c < 3 * n) : nextC c < 3 * n := by corner_arith
theorem prevC_lt {c n : Nat} (h : c < 3 * n) : prevC c < 3 * n := by corner_arith
theorem nextC_inj {a b : Nat} (h : nextC a = nextC b) : a = b := by
  have := congrArg prevC h; simpa using this
theorem prevC_inj {a b : Nat} (h : prevC a = prevC b) : a = b := by
  have := congrArg nextC h; simpa using this

/-- the three corners of a face -/
theorem same_face_cases {a b : Nat} (h : a / 3 = b / 3) : b = a ∨ b = nextC a ∨ b = prevC a := by
  corner_arith

theorem corner_cases (c : Nat) :
    (c = 3 * (c / 3) ∧ nextC c = 3 * (c / 3) + 1 ∧ prevC c = 3 * (c / 3) + 2) ∨
    (c = 3 * (c / 3) + 1 ∧ nextC c = 3 * (c / 3) + 2 ∧ prevC c = 3 * (c / 3)) ∨
    (c = 3 * (c / 3) + 2 ∧ nextC c = 3 * (c / 3) ∧ prevC c = 3 * (c / 3) + 1) := by
  corner_arith

/-! ### array reads -/

theorem oget_set (a : Array (Option Nat)) (i j : Nat) (v : Option Nat) :
    oget (a.setIfInBounds i v) j = if i = j ∧ i < a.size then v else oget a j := by
  unfold oget
  simp only [Array.getD_eq_getD_getElem?, Array.getElem?_setIfInBounds]
  by_cases h : i = j
  · subst h
    by_cases h2 : i < a.size
    · simp [h2]
    · simp [h2]
  · simp [h]

theorem oget_set_ne (a : Array (Option Nat)) {i j : Nat} (v : Option Nat) (h : i ≠ j) :
    oget (a.setIfInBounds i v) j = oget a j := by
  rw [oget_set]; simp [h]

theorem oget_lt {a : Array (Option Nat)} {i x : Nat} (h : oget a i = some x) : i < a.size := by
  unfold oget at h
  rw [Array.getD_eq_getD_getElem?] at h
  by_cases hi : i < a.size
  · exact hi
  · simp [Array.getElem?_eq_none (Nat.le_of_not_lt hi)] at h

theorem oget_replicate (n i : Nat) : oget (Array.replicate n none) i = none := by
  unfold oget
  simp only [Array.getD_eq_getD_getElem?, Array.getElem?_replicate]
  split <;> rfl

theorem vget_set (a : Array Nat) (i j v : Nat) :
    vget (a.setIfInBounds i v) j = if i = j ∧ i < a.size then v else vget a j := by
  unfold vget
  simp only [Array.getD_eq_getD_getElem?, Array.getElem?_setIfInBounds]
  by_cases h : i = j
  · subst h
    by_cases h2 : i < a.size
    · simp [h2]
    · simp [h2]
  · simp [h]

theorem bget_set (a : Array Bool) (i j : Nat) (v : Bool) :
    (a.setIfInBounds i v).getD j false = if i = j ∧ i < a.size then v else a.getD j false := by
  simp only [Array.getD_eq_getD_getElem?, Array.getElem?_setIfInBounds]
  by_cases h : i = j
  · subst h
    by_cases h2 : i < a.size
    · simp [h2]
    · simp [h2]
  · simp [h]

/-! ### iteration -/

theorem iter_succ' {α : Type} (f : α → α) (k : Nat) (a : α) : iter f (k + 1) a = f (iter f k a) := by
  induction k generalizing a with
  | zero => rfl
  | succ k ih => simp only [iter] at ih ⊢; rw [ih]

theorem iter_add {α : Type} (f : α → α) (j k : Nat) (a : α) : iter f (j + k) a = iter f k (iter f j a) := by
  induction j generalizing a with
  | zero => simp [iter]
  | succ j ih => rw [Nat.add_right_comm]; simp only [iter]; exact ih _

/-! ### generic fold invariants -/

theorem foldl_range_inv {σ : Type} (P : Nat → σ → Prop) (f : σ → Nat → σ) (init : σ) (n : Nat)
    (h0 : P 0 init) (hstep : ∀ i, i < n → ∀ s, P i s → P (i + 1) (f s i)) :
    P n ((List.range n).foldl f init) := by
  induction n with
  | zero => simpa using h0
  | succ n ih =>
    rw [List.range_succ, List.foldl_append]
    simp only [List.foldl_cons, List.foldl_nil]
    exact hstep n (Nat.lt_succ_self n) _ (ih (fun i hi s hs => hstep i (Nat.lt_succ_of_lt hi) s hs))

theorem foldl_range_inv' {σ : Type} (P : σ → Prop) (f : σ → Nat → σ) (init : σ) (n : Nat)
    (h0 : P init) (hstep : ∀ i, i < n → ∀ s, P s → P (f s i)) :
    P ((List.range n).foldl f init) :=
  foldl_range_inv (fun _ s => P s) f init n h0 hstep

/-! ### projection forms of the definitions that destructure their state
  (the model matches on the state first so that the compiled code updates the arrays in place) -/

theorem cocCorner_eq (ctv : Array Nat) (st : HEState) (c : Nat) :
    cocCorner ctv st c =
      match takeMatch ctv (vget ctv (nextC c)) (vget ctv c) (st.buckets.getD (vget ctv (prevC c)) []) with
      | some (e, rest) =>
        { buckets := st.buckets.setIfInBounds (vget ctv (prevC c)) rest
          opp := (st.opp.setIfInBounds c (some e)).setIfInBounds e (some c) }
      | none =>
        { buckets := st.buckets.modify (vget ctv (nextC c)) (· ++ [(vget ctv (prevC c), c)])
          opp := st.opp } := by
  cases st; rfl

theorem markL_eq (v : Nat) (nm : Bool) (st : VCState) (act : Nat) :
    markL v nm st act =
      { st with
        visitedC := st.visitedC.setIfInBounds act true
        vc := st.vc.setIfInBounds v (some act)
        ctv := if nm then st.ctv.setIfInBounds act v else st.ctv } := by
  cases st; rfl

theorem markR_eq (v : Nat) (nm : Bool) (st : VCState) (act : Nat) :
    markR v nm st act =
      { st with
        visitedC := st.visitedC.setIfInBounds act true
        ctv := if nm then st.ctv.setIfInBounds act v else st.ctv } := by
  cases st; rfl

namespace CornerTable

/-- input vertex id of corner `c` obtained through the table: `VertexParent(Vertex(c))` -/
def parentAt (ct : CornerTable) (c : Nat) : Nat := ct.vertexParent (vget ct.cornerToVertex c)

/-- the `SwingRight` walk from `LeftMostCorner(v)` reaches the boundary or its start again within
    `numCorners` steps -/
def FanTerminates (ct : CornerTable) (v : Nat) : Prop :=
  ∃ k, k ≤ ct.numCorners ∧
    (iter ct.swingRight (k + 1) (ct.leftMostCorner v) = none ∨
     iter ct.swingRight (k + 1) (ct.leftMostCorner v) = ct.leftMostCorner v)

/-- Property C13 for a table `ct` built from the triangle list `faces`. -/
structure Consistent (faces : Faces) (ct : CornerTable) : Prop where
  size_ctv : ct.cornerToVertex.size = 3 * faces.size
  size_opp : ct.oppositeCorners.size = 3 * faces.size
  size_vc : ct.vertexCorners.size = ct.numOriginalVertices + ct.nonManifoldVertexParents.size
  /-- I1: `Opposite` is a symmetric pairing of distinct corners of distinct faces -/
  opposite_symm : ∀ c o, ct.opposite (some c) = some o →
    c < 3 * faces.size ∧ o < 3 * faces.size ∧ ct.opposite (some o) = some c ∧ o ≠ c ∧ o / 3 ≠ c / 3
  /-- I2: the paired corners face the same edge, oppositely oriented, in input vertex ids -/
  opposite_edge : ∀ c o, ct.opposite (some c) = some o →
    ct.parentAt (nextC c) = ct.parentAt (prevC o) ∧ ct.parentAt (prevC c) = ct.parentAt (nextC o)
  /-- I3: corners of degenerate input faces are unlinked -/
  degenerate_unlinked : ∀ c, faceDegenerate faces (c / 3) = true →
    ct.opposite (some c) = none ∧ ∀ o, ct.opposite (some o) ≠ some c
  /-- I4: corners of non-degenerate faces map through `VertexParent` to the input vertex id -/
  vertex_parent : ∀ c, c < 3 * faces.size → faceDegenerate faces (c / 3) = false →
    vget ct.cornerToVertex c < ct.numVertices ∧ ct.parentAt c = inputVertex faces c
  /-- I5: every corner of a non-degenerate face is reached from the left-most corner of its
      vertex by `SwingRight` steps, and that walk terminates -/
  fan_complete : ∀ c, c < 3 * faces.size → faceDegenerate faces (c / 3) = false →
    (∃ k, iter ct.swingRight k (ct.leftMostCorner (vget ct.cornerToVertex c)) = some c) ∧
    ct.FanTerminates (vget ct.cornerToVertex c)

/-! ### soundness of the checker -/

theorem fanWalk_sound (ct : CornerTable) (start : Nat) :
    ∀ (fuel cur : Nat) (l : List Nat), fanWalk ct start fuel cur = some l →
      (∀ x ∈ l, ∃ k, iter ct.swingRight k (some cur) = some x) ∧
      (∃ k, k < fuel ∧ (iter ct.swingRight (k + 1) (some cur) = none ∨
                        iter ct.swingRight (k + 1) (some cur) = some start)) := by
  intro fuel
  induction fuel with
  | zero => intro cur l h; simp [fanWalk] at h
  | succ fuel ih =>
    intro cur l h
    unfold fanWalk at h
    split at h
    · rename_i hsw
      injection h with h; subst h
      refine ⟨?_, 0, Nat.succ_pos _, Or.inl (by simpa [iter] using hsw)⟩
      intro x hx
      simp at hx; subst hx
      exact ⟨0, rfl⟩
    · rename_i nx hsw
      split at h
      · rename_i hnx
        injection h with h; subst h
        refine ⟨?_, 0, Nat.succ_pos _, Or.inr (by simp [iter, hsw, hnx])⟩
        intro x hx
        simp at hx; subst hx
        exact ⟨0, rfl⟩
      · cases hrec : fanWalk ct start fuel nx with
        | none => simp [hrec] at h
        | some l' =>
          simp [hrec] at h; subst h
          obtain ⟨h1, k, hk, h2⟩ := ih nx l' hrec
          refine ⟨?_, k + 1, Nat.succ_lt_succ hk, ?_⟩
          · intro x hx
            simp at hx
            rcases hx with hx | hx
            · subst hx; exact ⟨0, rfl⟩
            · obtain ⟨k', hk'⟩ := h1 x hx
              exact ⟨k' + 1, by simp only [iter]; rw [hsw]; exact hk'⟩
          · simp only [iter] at h2 ⊢
            rw [hsw]; exact h2

theorem fan_sound (ct : CornerTable) (v : Nat) (l : List Nat) (h : ct.fan v = some l) :
    (∀ x ∈ l, ∃ k, iter ct.swingRight k (ct.leftMostCorner v) = some x) ∧
    (l ≠ [] → ct.FanTerminates v) := by
  unfold fan at h
  split at h
  · injection h with h; subst h; simp
  · rename_i s hs
    obtain ⟨h1, k, hk, h2⟩ := fanWalk_sound ct s _ s l h
    rw [hs]
    refine ⟨h1, fun _ => ⟨k, by omega, ?_⟩⟩
    rw [hs]; exact h2

theorem consistent_sound (faces : Faces) (ct : CornerTable) (h : ct.consistent faces = true) :
    ct.Consistent faces := by
  unfold consistent at h
  simp only [Bool.and_eq_true, beq_iff_eq, List.all_eq_true, List.mem_range] at h
  obtain ⟨⟨⟨hs1, hs2⟩, hs3⟩, hall⟩ := h
  have hopp : ∀ c o, ct.opposite (some c) = some o →
      c < 3 * faces.size ∧ checkOpp faces ct (3 * faces.size) c = true := by
    intro c o hco
    have hc : c < 3 * faces.size := by
      have := oget_lt (show oget ct.oppositeCorners c = some o from hco)
      omega
    exact ⟨hc, (hall c hc).1⟩
  have hoppF : ∀ c o, ct.opposite (some c) = some o →
      c < 3 * faces.size ∧ o < 3 * faces.size ∧ ct.opposite (some o) = some c ∧ o ≠ c ∧ o / 3 ≠ c / 3 ∧
      (ct.parentAt (nextC c) = ct.parentAt (prevC o) ∧ ct.parentAt (prevC c) = ct.parentAt (nextC o)) ∧
      faceDegenerate faces (c / 3) = false := by
    intro c o hco
    obtain ⟨hc, hchk⟩ := hopp c o hco
    unfold checkOpp at hchk
    rw [hco] at hchk
    simp only [Bool.and_eq_true, decide_eq_true_eq, beq_iff_eq, bne_iff_ne, ne_eq,
      Bool.not_eq_true'] at hchk
    obtain ⟨⟨⟨⟨⟨⟨h1, h2⟩, h3⟩, h4⟩, h5⟩, h6⟩, h7⟩ := hchk
    exact ⟨hc, h1, h2, h3, h4, ⟨h5, h6⟩, h7⟩
  refine ⟨hs1, hs2, hs3, ?_, ?_, ?_, ?_, ?_⟩
  · intro c o hco
    obtain ⟨a, b, c', d, e, _, _⟩ := hoppF c o hco
    exact ⟨a, b, c', d, e⟩
  · intro c o hco
    exact (hoppF c o hco).2.2.2.2.2.1
  · intro c hdeg
    constructor
    · cases hco : ct.opposite (some c) with
      | none => rfl
      | some o =>
        have := (hoppF c o hco).2.2.2.2.2.2
        rw [hdeg] at this; cases this
    · intro o hoc
      obtain ⟨_, _, hsym, _, _, _, _⟩ := hoppF o c hoc
      have := (hoppF c o hsym).2.2.2.2.2.2
      rw [hdeg] at this; cases this
  · intro c hc hnd
    have := (hall c hc).2
    unfold checkVert at this
    simp only [hnd, Bool.false_or, Bool.and_eq_true, decide_eq_true_eq, beq_iff_eq] at this
    exact ⟨this.1.1, this.1.2⟩
  · intro c hc hnd
    have := (hall c hc).2
    unfold checkVert at this
    simp only [hnd, Bool.false_or, Bool.and_eq_true, decide_eq_true_eq, beq_iff_eq] at this
    obtain ⟨_, hfan⟩ := this
    split at hfan
    · cases hfan
    · rename_i l hl
      have hmem : c ∈ l := by simpa using hfan
      obtain ⟨h1, h2⟩ := fan_sound ct _ l hl
      exact ⟨h1 c hmem, h2 (List.ne_nil_of_mem hmem)⟩

end CornerTable
end Draco
