import DracoProofs.SeqIntValues
import DracoProofs.SeqAttrLemmas
/-
  The sequential attributes controller: `SequentialAttributeDecodersController` reads back what
  `SequentialAttributeEncodersController` wrote, attribute by attribute and phase by phase.
-/
namespace Draco
open SeqEnc DecM

/-- the domain of one attribute: what the C++ containers guarantee (`uint8_t` component count,
    `uint32_t` unique id, `int` value counts, byte buffers), a named attribute type and a valid
    data type (the decoder rejects others), structural validity (C03), float32 patterns as explicit
    quantization parameters, and for normals the hypothesis that the octahedral coordinates computed by
    the float code are canonical grid points (`octaEntryOK`; implied by the float oracle hypothesis
    `octaRowOK`) -/
structure AttOK (a : Attribute) (o : AttOpts) (n : Nat) : Prop where
  valid : a.valid n = true
  bytes : IsBytes a.values
  attType : a.attType < 5
  dataType : a.dataType ≤ 11
  numComponents : a.numComponents ≤ 255
  uniqueId : a.uniqueId < 2 ^ 32
  size : n * a.numComponents < 2 ^ 31
  explicit : ∀ org r, o.explicitQuant = some (org, r) → r < 2 ^ 32 ∧ ∀ m ∈ org, m < 2 ^ 32
  normals : encoderType a o = 3 → ∀ t, Octa.init o.quantBits.toNat = some t →
    ∀ r ∈ pointRows a n, octaEntryOK t (octaRow t r) = true

theorem encoderType_cases (a : Attribute) (o : AttOpts) :
    (encoderType a o = 0) ∨
    (encoderType a o = 1 ∧ 1 ≤ a.dataType ∧ a.dataType ≤ 6) ∨
    (encoderType a o = 2 ∧ a.dataType = 9) ∨
    (encoderType a o = 3 ∧ a.dataType = 9 ∧ o.quantBits > 0) := by
  unfold encoderType
  split
  · exact Or.inr (Or.inl ⟨rfl, by assumption⟩)
  · split
    · rename_i h
      have h9 : a.dataType = 9 := h.1
      split
      · exact Or.inr (Or.inr (Or.inr ⟨rfl, h9, h.2⟩))
      · exact Or.inr (Or.inr (Or.inl ⟨rfl, h9⟩))
    · exact Or.inl rfl

/-- the shape of the encoder state of one attribute, by encoder type -/
theorem encodeAttribute_cases (ch : Choices) (opts : EncOpts) (n i : Nat) (a : Attribute) (e : AttEnc)
    (h : encodeAttribute ch opts n i a = some e) :
    (encoderType a (opts.att i) = 0 ∧
      e = { desc := descOf a, encType := 0, raw := (pointRows a n).flatten,
            valueBytes := (pointRows a n).flatten }) ∨
    (encoderType a (opts.att i) = 1 ∧ ∃ portable vb,
      integerPortable a (pointRows a n) = some portable ∧
      encodeIntegerValues ch (symbolLevel opts.speed) opts.builtin i 1 a.numComponents
        (predictionEnabled ch (opts.att i) i 1) none a.numValues portable = some vb ∧
      e = { desc := descOf a, encType := 1, portable := portable, valueBytes := vb }) ∨
    (encoderType a (opts.att i) = 2 ∧ ∃ mins range q vb,
      quantizationParams a (opts.att i) = some (mins, range, q) ∧
      encodeIntegerValues ch (symbolLevel opts.speed) opts.builtin i 2 a.numComponents
        (predictionEnabled ch (opts.att i) i 2) none a.numValues
        (quantizedPortable mins range q a.numComponents (pointRows a n)) = some vb ∧
      e = { desc := descOf a, encType := 2,
            portable := quantizedPortable mins range q a.numComponents (pointRows a n),
            transform := .quantization q mins range, valueBytes := vb,
            transformBytes := mins.flatMap (writeLE 4) ++ writeLE 4 range ++ [q % 256] }) ∨
    (encoderType a (opts.att i) = 3 ∧ a.numComponents = 3 ∧ ∃ t vb,
      Octa.init (opts.att i).quantBits.toNat = some t ∧
      encodeIntegerValues ch (symbolLevel opts.speed) opts.builtin i 3 2
        (predictionEnabled ch (opts.att i) i 3)
        (Octa.setMaxQuantizedValue (2 ^ (opts.att i).quantBits.toNat - 1)) a.numValues
        (octaPortable t (pointRows a n)) = some vb ∧
      e = { desc := descOf a, encType := 3, portable := octaPortable t (pointRows a n),
            transform := .octahedron (opts.att i).quantBits.toNat, valueBytes := vb,
            transformBytes := [(opts.att i).quantBits.toNat % 256] }) := by
  unfold encodeAttribute at h
  dsimp only at h
  rcases encoderType_cases a (opts.att i) with h0 | ⟨h1, _⟩ | ⟨h2, _⟩ | ⟨h3, _⟩
  · rw [h0] at h
    simp only [Option.some.injEq] at h
    exact Or.inl ⟨h0, h.symm⟩
  · rw [h1] at h
    simp only at h
    split at h
    · cases h
    · rename_i portable hp
      split at h
      · cases h
      · rename_i vb hvb
        simp only [Option.some.injEq] at h
        exact Or.inr (Or.inl ⟨h1, portable, vb, hp, hvb, h.symm⟩)
  · rw [h2] at h
    simp only at h
    split at h
    · cases h
    · rename_i mins range q hq
      split at h
      · cases h
      · rename_i vb hvb
        simp only [Option.some.injEq] at h
        exact Or.inr (Or.inr (Or.inl ⟨h2, mins, range, q, vb, hq, hvb, h.symm⟩))
  · rw [h3] at h
    simp only at h
    split at h
    · cases h
    · rename_i hnc
      split at h
      · cases h
      · split at h
        · cases h
        · rename_i t ht
          split at h
          · cases h
          · rename_i vb hvb
            simp only [Option.some.injEq] at h
            refine Or.inr (Or.inr (Or.inr ⟨h3, by simpa using hnc, t, vb, ht, hvb, h.symm⟩))

/-! ### decoder states between the phases, as functions of the encoder state -/

abbrev st0 (e : AttEnc) : SeqAttState := { desc := e.desc, decoderType := e.encType }
abbrev st1 (e : AttEnc) : SeqAttState :=
  { desc := e.desc, decoderType := e.encType, rawValues := e.raw, portable := e.portable }
abbrev st2 (e : AttEnc) : SeqAttState :=
  { desc := e.desc, decoderType := e.encType, rawValues := e.raw, portable := e.portable,
    transform := e.transform }

theorem AttOK.numValues_pos {a : Attribute} {o : AttOpts} {n : Nat} (h : AttOK a o n) (hn : 0 < n) :
    a.numValues ≠ 0 ∧ 1 ≤ a.numComponents ∧ 1 ≤ dataTypeLength a.dataType := by
  have hv := h.valid
  unfold Attribute.valid at hv
  simp only [Bool.and_eq_true, decide_eq_true_eq] at hv
  obtain ⟨⟨⟨h1, h2⟩, _⟩, hmap⟩ := hv
  refine ⟨?_, h1, h2⟩
  cases hm : a.map with
  | none =>
    rw [hm] at hmap
    simp only [ge_iff_le, decide_eq_true_eq] at hmap
    omega
  | some m =>
    rw [hm] at hmap
    simp only [Bool.and_eq_true, beq_iff_eq, List.all_eq_true, decide_eq_true_eq] at hmap
    obtain ⟨hml, hmall⟩ := hmap
    cases m with
    | nil => simp at hml; omega
    | cons x xs => have := hmall x (by simp); omega

/-- everything the four decoder phases need to know about one encoded attribute -/
structure AttFacts (n : Nat) (a : Attribute) (e : AttEnc) : Prop where
  desc : e.desc = descOf a
  ty : e.encType ≤ 3
  ty2 : e.encType = 2 → a.dataType = 9
  ty3 : e.encType = 3 → a.numComponents = 3 ∧ a.dataType = 9
  raw0 : e.encType = 0 → e.valueBytes = e.raw ∧ e.raw.length = n * (dataTypeLength a.dataType * a.numComponents)
    ∧ e.portable = [] ∧ e.transform = .none ∧ e.transformBytes = []
  rawN : e.encType ≠ 0 → e.raw = []
  vals : e.encType ≠ 0 → ∀ v, bsVersion 2 0 ≤ v →
    Runs (decodeIntegerValues e.encType n (if (e.encType == 3) = true then 2 else a.numComponents)) v
      e.valueBytes e.portable v
  tr1 : e.encType = 1 → e.transform = .none ∧ e.transformBytes = [] ∧ 1 ≤ a.dataType ∧ a.dataType ≤ 6 ∧
    (e.portable.map (intToLE (dataTypeLength a.dataType))).flatten = (pointRows a n).flatten
  tr2 : e.encType = 2 → ∃ mins range q, e.transform = .quantization (q : Nat) mins range ∧
    e.transformBytes = mins.flatMap (writeLE 4) ++ writeLE 4 range ++ [q % 256] ∧
    1 ≤ q ∧ q ≤ 30 ∧ mins.length = a.numComponents ∧ range < 2 ^ 32 ∧ ∀ m ∈ mins, m < 2 ^ 32
  tr3 : e.encType = 3 → ∃ q : Nat, e.transform = .octahedron (q : Nat) ∧ e.transformBytes = [q % 256] ∧
    2 ≤ q ∧ q ≤ 30
  range : ∀ x ∈ e.portable, -2 ^ 31 ≤ x ∧ x < 2 ^ 31

theorem attFacts (ch : Choices) (opts : EncOpts) (n i : Nat) (a : Attribute) (e : AttEnc)
    (hn : 0 < n) (hok : AttOK a (opts.att i) n)
    (h : encodeAttribute ch opts n i a = some e) : AttFacts n a e := by
  obtain ⟨hnv, hnc, hdl⟩ := hok.numValues_pos hn
  obtain ⟨hrl, hrs⟩ := pointRows_spec a n hok.valid
  have hsz := hok.size
  rcases encodeAttribute_cases ch opts n i a e h with ⟨h0, rfl⟩ | ⟨h1, portable, vb, hp, hvb, rfl⟩ |
      ⟨h2, mins, range, q, vb, hq, hvb, rfl⟩ | ⟨h3, hnc3, t, vb, ht, hvb, rfl⟩
  · refine ⟨rfl, by simp, by simp, by simp, fun _ => ⟨rfl, ?_, rfl, rfl, rfl⟩, by simp, by simp,
      by simp, by simp, by simp, by simp⟩
    simp only
    rw [flatten_length_uniform a.stride _ hrs, hrl, Attribute.stride]
  · rcases encoderType_cases a (opts.att i) with h' | ⟨_, hd1, hd6⟩ | ⟨h', _⟩ | ⟨h', _⟩ <;>
      try (rw [h1] at h'; cases h')
    have hbytes : ∀ r ∈ pointRows a n, r.length = a.stride ∧ IsBytes r := by
      intro r hr
      refine ⟨hrs r hr, ?_⟩
      unfold pointRows at hr
      have hva : ∀ idx, IsBytes (valueAt a.values.toArray a.stride idx) := by
        intro idx x hx
        unfold valueAt at hx
        rw [Array.toList_extract] at hx
        have : x ∈ a.values := by
          rw [List.extract_eq_take_drop] at hx
          exact List.mem_of_mem_drop (List.mem_of_mem_take hx)
        exact hok.bytes x this
      cases hm : a.map with
      | none => rw [hm] at hr; simp only [List.mem_map] at hr; obtain ⟨p, _, rfl⟩ := hr; exact hva p
      | some m => rw [hm] at hr; simp only [List.mem_map] at hr; obtain ⟨p, _, rfl⟩ := hr; exact hva p
    obtain ⟨p1, p2, p3⟩ := integerPortable_spec a ⟨hd1, hd6⟩ n (pointRows a n) portable hrl hbytes hp
    refine ⟨rfl, by simp, by simp, by simp, by simp, by simp, fun _ v hv => ?_,
      fun _ => ⟨rfl, rfl, hd1, hd6, p2⟩, by simp, by simp, p3⟩
    simp only [show ((1:Nat) == 3) = false from rfl, Bool.false_eq_true, if_false]
    exact runs_intValues ch _ opts.builtin i 1 a.numComponents n _ none a.numValues portable vb v hv
      (by omega) hn p1 (by omega) p3 hnv (by simp) hvb
  · rcases encoderType_cases a (opts.att i) with h' | ⟨h', _⟩ | ⟨_, hd9⟩ | ⟨h', _⟩ <;>
      try (rw [h2] at h'; cases h')
    obtain ⟨q1, q30, _, qml, qr, qm⟩ := quantizationParams_spec a (opts.att i) mins range q hok.explicit hq
    obtain ⟨p1, p3⟩ := quantizedPortable_spec mins range q a.numComponents (pointRows a n)
    refine ⟨rfl, by simp, fun _ => hd9, by simp, by simp, by simp, fun _ v hv => ?_, by simp,
      fun _ => ⟨mins, range, q, rfl, rfl, q1, q30, qml, qr, qm⟩, by simp, p3⟩
    simp only [show ((2:Nat) == 3) = false from rfl, Bool.false_eq_true, if_false]
    exact runs_intValues ch _ opts.builtin i 2 a.numComponents n _ none a.numValues _ vb v hv
      (by omega) hn (by rw [p1, hrl]) (by omega) p3 hnv (by simp) hvb
  · rcases encoderType_cases a (opts.att i) with h' | ⟨h', _⟩ | ⟨h', _⟩ | ⟨_, hd9, hqb⟩ <;>
      try (rw [h3] at h'; cases h')
    obtain ⟨hwf, _⟩ := Octa.init_wf ht
    have hq230 : 2 ≤ (opts.att i).quantBits.toNat ∧ (opts.att i).quantBits.toNat ≤ 30 := by
      unfold Octa.init at ht
      split at ht
      · cases ht
      · omega
    obtain ⟨p1, p3, p4⟩ := octaPortable_spec t hwf (pointRows a n) (hok.normals h3 t ht)
    refine ⟨rfl, by simp, by simp, fun _ => ⟨hnc3, hd9⟩, by simp, by simp, fun _ v hv => ?_, by simp,
      by simp, fun _ => ⟨_, rfl, rfl, hq230.1, hq230.2⟩, p3⟩
    simp only [show ((3:Nat) == 3) = true from rfl, if_true]
    rw [setMaxQuantizedValue_pow _ hq230.1 hq230.2, ht] at hvb
    exact runs_intValues ch _ opts.builtin i 3 2 n _ _ a.numValues _ vb v hv
      (by decide) hn (by rw [p1, hrl]) (by rw [hnc3] at hsz; omega) p3 hnv
      (fun _ => ⟨rfl, _, t, ht, rfl, p4⟩) hvb

/-! ### attribute descriptors -/

theorem encVarint_length_pos (x : Nat) : 1 ≤ (encVarint x).length := by
  unfold encVarint encVarintFuel
  split <;> simp

theorem runs_decodeAttDescs (v : Nat) (hv : bsVersion 2 0 ≤ v) (descs : List AttDesc)
    (hne : descs.length ≠ 0) (h32 : descs.length < 2 ^ 32)
    (hd : ∀ d ∈ descs, d.attType < 5 ∧ 1 ≤ d.dataType ∧ d.dataType ≤ 11 ∧ 1 ≤ d.numComponents ∧
      d.numComponents ≤ 255 ∧ d.uniqueId < 2 ^ 32) :
    Runs decodeAttDescs v (encVarint descs.length ++ descs.flatMap descBytes) descs v := by
  unfold decodeAttDescs
  refine Runs.bind0 (Runs.version v) ?_
  simp only []
  have hv2 : ¬ v < bsVersion 2 0 := by omega
  have hv13 : ¬ v < bsVersion 1 3 := by unfold bsVersion at *; omega
  rw [if_neg hv2]
  refine Runs.bind (Runs.varint32 _ v h32) ?_
  refine Runs.bind0 (Runs.require (by simpa using hne) v) ?_
  refine Runs.remaining_bind (fun rem hrem => ?_)
  have hlen : descs.length ≤ (descs.flatMap descBytes).length := by
    clear hne h32 hd hrem
    induction descs with
    | nil => simp
    | cons d ds ih =>
      simp only [List.flatMap_cons, List.length_append, List.length_cons]
      have : 1 ≤ (descBytes d).length := by
        unfold descBytes; simp
      omega
  refine Runs.bind0 (Runs.require (by simp; omega) v) ?_
  refine Runs.bind0 (Runs.alloc _ _ v) ?_
  have hmap : descs = descs.map id := by simp
  rw [List.flatMap_def]
  refine Runs.of_eq (Runs.replicateM'_map descs descBytes id (fun d hdm => ?_)) rfl rfl (by simp)
  obtain ⟨d1, d2, d3, d4, d5, d6⟩ := hd d hdm
  unfold descBytes
  refine Runs.bind1 (Runs.rdU8 _ v) ?_
  refine Runs.bind1 (Runs.rdU8 _ v) ?_
  refine Runs.bind1 (Runs.rdU8 _ v) ?_
  refine Runs.bind1 (Runs.rdU8 _ v) ?_
  rw [Nat.mod_eq_of_lt (by omega : d.attType < 256), Nat.mod_eq_of_lt (by omega : d.dataType < 256),
    Nat.mod_eq_of_lt (by omega : d.numComponents < 256)]
  refine Runs.bind0 (Runs.require (decide_eq_true (by show d.attType < 5; omega)) v) ?_
  refine Runs.bind0 (Runs.require (by
    have h1 : (d.dataType != 0) = true := by simp; omega
    have h2 : decide (d.dataType < Generated.DT_TYPES_COUNT.toNat) = true := decide_eq_true (by show d.dataType < 12; omega)
    rw [h1, h2]; rfl) v) ?_
  refine Runs.bind0 (Runs.require (by simp; omega) v) ?_
  rw [if_neg hv13]
  refine Runs.bind' (Runs.varint32 _ v d6) (List.append_nil _).symm ?_
  refine Runs.of_eq (Runs.pure _ v) rfl rfl ?_
  cases d with
  | mk t dt nc nz uid => cases nz <;> simp

/-! ### the controller -/

theorem map_singleton_flatten {α : Type} (f : α → Nat) (l : List α) :
    (l.map fun x => [f x]).flatten = l.map f := by
  induction l with
  | nil => rfl
  | cons x xs ih => simp [ih]

/-- `SequentialAttributeDecodersController` (descriptors, decoder types, portable values, transform
    data, inverse transforms) reads back the output of the encoder's controller -/
theorem runs_decodeSequentialAttributes (dopts : DecOpts) (n v : Nat) (hv : bsVersion 2 0 ≤ v)
    (hn31 : n < 2 ^ 31)
    (pairs : List (Attribute × AttEnc)) (hne : pairs.length ≠ 0) (h32 : pairs.length < 2 ^ 32)
    (hok : ∀ p ∈ pairs, AttFacts n p.1 p.2 ∧ p.1.attType < 5 ∧ p.1.dataType ≤ 11 ∧
      1 ≤ dataTypeLength p.1.dataType ∧ 1 ≤ p.1.numComponents ∧
      p.1.numComponents ≤ 255 ∧ p.1.uniqueId < 2 ^ 32) :
    Runs (decodeSequentialAttributes dopts n) v
      (encVarint pairs.length ++ (pairs.map (·.2)).flatMap (fun e => descBytes e.desc)
        ++ (pairs.map (·.2)).map (·.encType) ++ (pairs.map (·.2)).flatMap (·.valueBytes)
        ++ (pairs.map (·.2)).flatMap (·.transformBytes))
      (pairs.map fun p => expectedAttributeSkip dopts.skip n p.1 p.2) v := by
  unfold decodeSequentialAttributes
  simp only [List.append_assoc]
  rw [← List.append_assoc]
  have hdescs : Runs decodeAttDescs v
      (encVarint pairs.length ++ (pairs.map (·.2)).flatMap (fun e => descBytes e.desc))
      (pairs.map (fun p => p.2.desc)) v := by
    have := runs_decodeAttDescs v hv (pairs.map (fun p => p.2.desc)) (by simpa using hne)
      (by simpa using h32) (by
        intro d hd
        simp only [List.mem_map] at hd
        obtain ⟨p, hp, rfl⟩ := hd
        obtain ⟨f, a1, a2, a3, a4, a5, a6⟩ := hok p hp
        rw [f.desc]
        have : 1 ≤ p.1.dataType := by
          unfold dataTypeLength at a3
          by_contra hc
          have : p.1.dataType = 0 := by omega
          rw [this] at a3
          simp at a3
        exact ⟨a1, this, a2, a4, a5, a6⟩)
    simpa [List.flatMap_map] using this
  refine Runs.bind hdescs ?_
  refine Runs.bind0 (Runs.alloc _ _ v) ?_
  rw [List.map_map, ← map_singleton_flatten, List.flatMap_map, List.flatMap_map, List.flatMap_def,
    List.flatMap_def]
  refine Runs.bind (RunsAll.mapM' (RunsAll.of_map pairs (fun p => p.2.desc) (fun p => [p.2.encType])
    (fun p => st0 p.2) (fun p hp => ?_))) ?_
  · -- decoder types
    obtain ⟨f, -⟩ := hok p hp
    refine Runs.bind1 (Runs.rdU8 _ v) ?_
    refine Runs.bind0 (Runs.require (by simpa using f.ty) v) ?_
    by_cases h2 : p.2.encType = 2
    · rw [if_pos (by simp [h2])]
      refine Runs.bind0 (Runs.require (by
        rw [f.desc, descOf]; simp only []; rw [f.ty2 h2]; rfl) v) ?_
      rw [if_neg (by simp [h2])]
      exact Runs.pure _ v
    · rw [if_neg (by simpa using h2)]
      by_cases h3 : p.2.encType = 3
      · rw [if_pos (by simp [h3])]
        refine Runs.bind0 (Runs.require (by
          rw [f.desc, descOf]; simp only []; rw [(f.ty3 h3).1, (f.ty3 h3).2]; rfl) v) ?_
        exact Runs.pure _ v
      · rw [if_neg (by simpa using h3)]
        exact Runs.pure _ v
  refine Runs.bind0 (Runs.require (by simpa using hn31) v) ?_
  refine Runs.bind0 (Runs.alloc _ _ v) ?_
  refine Runs.bind (RunsAll.mapM' (RunsAll.of_map pairs (fun p => st0 p.2) (fun p => p.2.valueBytes)
    (fun p => st1 p.2) (fun p hp => ?_))) ?_
  · -- portable attributes
    obtain ⟨f, -⟩ := hok p hp
    dsimp only [st0]
    refine Runs.bind0 (Runs.alloc _ _ v) ?_
    by_cases h0 : p.2.encType = 0
    · obtain ⟨r1, r2, r3, r4, r5⟩ := f.raw0 h0
      rw [if_pos (by simp [h0]), r1]
      refine Runs.bind' (Runs.bytes _ _ v (by rw [r2, f.desc, descOf])) (List.append_nil _).symm ?_
      refine Runs.of_eq (Runs.pure _ v) rfl rfl ?_
      simp [st1, r3]
    · rw [if_neg (by simpa using h0)]
      refine Runs.bind' (f.vals h0 v hv |>.of_eq (by rw [f.desc, descOf]) rfl rfl) (List.append_nil _).symm ?_
      refine Runs.of_eq (Runs.pure _ v) rfl rfl ?_
      simp [st1, f.rawN h0]
  refine Runs.bind' (RunsAll.mapM' (RunsAll.of_map pairs (fun p => st1 p.2) (fun p => p.2.transformBytes)
    (fun p => st2 p.2) (fun p hp => ?_))) (List.append_nil _).symm ?_
  · -- transform data
    obtain ⟨f, -⟩ := hok p hp
    dsimp only [st1]
    by_cases h2 : p.2.encType = 2
    · obtain ⟨mins, range, q, t1, t2, q1, q30, ml, rl, mm⟩ := f.tr2 h2
      have hncm : p.2.desc.numComponents = mins.length := by rw [f.desc, descOf, ml]
      rw [if_pos (by simp [h2]), t2, hncm]
      simp only [List.append_assoc]
      rw [List.flatMap_def]
      refine Runs.bind (Runs.of_eq (a' := mins) (Runs.replicateM'_map mins (writeLE 4) id (fun m hm =>
        Runs.rdU32 m v (mm m hm))) rfl rfl (List.map_id mins)) ?_
      refine Runs.bind (Runs.rdU32 range v rl) ?_
      refine Runs.bind1 (Runs.rdU8 _ v) ?_
      rw [Nat.mod_eq_of_lt (by omega : q < 256)]
      refine Runs.bind0 (Runs.require (by simp; omega) v) ?_
      refine Runs.of_eq (Runs.pure _ v) rfl rfl ?_
      simp [st2, t1, h2]
    · rw [if_neg (by simpa using h2)]
      by_cases h3 : p.2.encType = 3
      · obtain ⟨q, t1, t2, q2, q30⟩ := f.tr3 h3
        rw [if_pos (by simp [h3]), t2]
        refine Runs.bind1 (Runs.rdU8 _ v) ?_
        rw [Nat.mod_eq_of_lt (by omega : q < 256)]
        refine Runs.of_eq (Runs.pure _ v) rfl rfl ?_
        simp [st2, t1, h3]
      · rw [if_neg (by simpa using h3)]
        have hc : p.2.encType = 0 ∨ p.2.encType = 1 := by have := f.ty; omega
        have ht : p.2.transform = .none ∧ p.2.transformBytes = [] := by
          rcases hc with h0 | h1
          · exact ⟨(f.raw0 h0).2.2.2.1, (f.raw0 h0).2.2.2.2⟩
          · exact ⟨(f.tr1 h1).1, (f.tr1 h1).2.1⟩
        rw [ht.2]
        refine Runs.of_eq (Runs.pure _ v) rfl rfl ?_
        simp [st2, ht.1]
  -- inverse transforms
  have hnil : ([] : Bytes) = (pairs.map fun _ => ([] : Bytes)).flatten := by
    clear hok hdescs hne h32
    induction pairs with
    | nil => rfl
    | cons x xs ih => simp
  rw [hnil]
  refine RunsAll.mapM' (RunsAll.of_map pairs (fun p => st2 p.2) (fun _ => []) _ (fun p hp => ?_))
  obtain ⟨f, -⟩ := hok p hp
  dsimp only [st2]
  have hat : p.2.desc.attType = p.1.attType := by rw [f.desc, descOf]
  by_cases h0 : p.2.encType = 0
  · obtain ⟨r1, r2, r3, r4, r5⟩ := f.raw0 h0
    rw [if_pos (by simp [h0])]
    refine Runs.of_eq (Runs.pure _ v) rfl rfl ?_
    simp [expectedAttributeSkip, expectedAttribute, h0, f.desc]
  · rw [if_neg (by simpa using h0)]
    have hne0 : (p.2.encType != 0) = true := by simpa using h0
    by_cases hs : dopts.skip.contains p.1.attType = true
    · rw [if_pos (by rw [hat]; exact hs)]
      refine Runs.of_eq (Runs.pure _ v) rfl rfl ?_
      simp only [expectedAttributeSkip, hne0, hs, Bool.and_self, if_true]
      rw [f.desc, descOf]
    · have hs' : dopts.skip.contains p.1.attType = false := by simpa using hs
      have hexp : expectedAttributeSkip dopts.skip n p.1 p.2 = expectedAttribute n p.1 p.2 := by
        simp only [expectedAttributeSkip, hs', Bool.and_false, Bool.false_eq_true, if_false]
      rw [if_neg (by rw [hat]; exact hs), hexp]
      by_cases h1 : p.2.encType = 1
      · obtain ⟨t1, t2, d1, d6, t5⟩ := f.tr1 h1
        rw [h1]
        simp only []
        refine Runs.bind0 (Runs.require (by
          have hd : p.2.desc.dataType = p.1.dataType := by rw [f.desc, descOf]
          simp only [hd, ge_iff_le, Bool.and_eq_true, decide_eq_true_eq]; omega) v) ?_
        refine Runs.of_eq (Runs.pure _ v) rfl rfl ?_
        rw [f.desc, descOf]
        simp only [expectedAttribute, h1]
        rw [t5]
        rfl
      · by_cases h2 : p.2.encType = 2
        · obtain ⟨mins, range, q, t1, t2, q1, q30, ml, rl, mm⟩ := f.tr2 h2
          rw [h2, t1]
          simp only []
          refine Runs.of_eq (Runs.pure _ v) rfl rfl ?_
          simp [expectedAttribute, h2, t1, f.desc]
        · have h3 : p.2.encType = 3 := by have := f.ty; omega
          obtain ⟨q, t1, t2, q2, q30⟩ := f.tr3 h3
          rw [h3, t1]
          simp only []
          refine Runs.bind0 (Runs.require (by simp; omega) v) ?_
          refine Runs.of_eq (Runs.pure _ v) rfl rfl ?_
          simp [expectedAttribute, h3, t1, f.desc]

theorem expectedAttributeSkip_nil (n : Nat) (a : Attribute) (e : AttEnc) :
    expectedAttributeSkip [] n a e = expectedAttribute n a e := by
  simp [expectedAttributeSkip]

end Draco
