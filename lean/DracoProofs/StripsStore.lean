import DracoProofs.StripsChain
/-
  DracoProofs.StripsStore — `StoreStrip` (`Strips.storeLoop`) writes the stream of the corners it
  walks through, and along a store chain it walks exactly through the chain.
-/
namespace Draco
namespace Strips

/-- `is_face_visited_[f] = true` for all `f` of the list -/
def markList (vis : Array Bool) (fs : List Nat) : Array Bool :=
  fs.foldl (fun v f => v.setIfInBounds f true) vis

/-- the corners `StoreStrip` walks through -/
def walk (cx : Ctx) : Nat → Nat → Option Nat → List Nat
  | 0, _, _ => []
  | _ + 1, _, none => []
  | k + 1, i, some c => c :: walk cx k (i + 1) (oget cx.opp (zz i c))

theorem zz_zero (c : Nat) : zz 0 c = c := by simp [zz]

theorem zz_pos (i c : Nat) (hi : i ≠ 0) : zz i c = if i % 2 = 1 then prevC c else nextC c := by
  simp [zz, hi]

theorem getLast_append_getD (A S : List Nat) (d : Nat) :
    (A ++ S).getLast?.getD d = S.getLast?.getD (A.getLast?.getD d) := by
  rw [List.getLast?_append]
  cases S.getLast? <;> simp

theorem storeLoop_spec (cx : Ctx) (k i : Nat) (c : Option Nat) (st : Out) :
    (storeLoop cx k i c st).out = (stream cx i (walk cx k i c)).reverse ++ st.out ∧
    (storeLoop cx k i c st).visited = markList st.visited ((walk cx k i c).map (· / 3)) ∧
    (storeLoop cx k i c st).numStrips = st.numStrips ∧
    (storeLoop cx k i c st).numEncodedFaces = st.numEncodedFaces + (walk cx k i c).length ∧
    (storeLoop cx k i c st).lastPoint = ((stream cx i (walk cx k i c)).getLast?).getD st.lastPoint := by
  induction k generalizing i c st with
  | zero => simp [storeLoop, walk, stream, markList]
  | succ k ih =>
    cases c with
    | none => simp [storeLoop, walk, stream, markList]
    | some ci =>
      unfold storeLoop walk
      by_cases hi : i = 0
      · subst hi
        simp only [if_true, zz_zero, Nat.zero_add]
        have := ih 1 (oget cx.opp ci)
          { st with visited := st.visited.setIfInBounds (ci / 3) true, numEncodedFaces := st.numEncodedFaces + 1,
                    out := cx.pt (prevC ci) :: cx.pt (nextC ci) :: cx.pt ci :: st.out, lastPoint := cx.pt (prevC ci) }
        dsimp only at this
        obtain ⟨h1, h2, h3, h4, h5⟩ := this
        refine ⟨?_, ?_, ?_, ?_, ?_⟩
        · rw [h1]; simp [stream, emit]
        · rw [h2]; simp [markList]
        · rw [h3]
        · rw [h4]; simp only [List.length_cons]; omega
        · rw [h5]
          simp only [stream, emit, if_true, Nat.zero_add]
          rw [getLast_append_getD]
          simp
      · simp only [hi, if_false]
        rw [zz_pos i ci hi]
        have := ih (i + 1) (oget cx.opp (if i % 2 = 1 then prevC ci else nextC ci))
          { st with visited := st.visited.setIfInBounds (ci / 3) true, numEncodedFaces := st.numEncodedFaces + 1,
                    out := cx.pt ci :: st.out, lastPoint := cx.pt ci }
        dsimp only at this
        obtain ⟨h1, h2, h3, h4, h5⟩ := this
        refine ⟨?_, ?_, ?_, ?_, ?_⟩
        · rw [h1]; simp [stream, emit, hi]
        · rw [h2]; simp [markList]
        · rw [h3]
        · rw [h4]; simp only [List.length_cons]; omega
        · rw [h5]
          simp only [stream, emit, hi, if_false]
          rw [getLast_append_getD]
          simp

/-- along a store chain `StoreStrip` visits exactly the chain -/
theorem walk_chain (cx : Ctx) (i : Nat) (c : Nat) (C : List Nat) (h : SChain cx i (c :: C)) :
    walk cx (C.length + 1) i (some c) = c :: C := by
  induction C generalizing i c with
  | nil => simp [walk]
  | cons c' C ih =>
    obtain ⟨hopp, _, hrest⟩ := h
    have e : walk cx ((c' :: C).length + 1) i (some c) =
        c :: walk cx (C.length + 1) (i + 1) (oget cx.opp (zz i c)) := rfl
    rw [e, hopp, ih (i + 1) c' hrest]

end Strips
end Draco
