import DracoProofs.Builders
import DracoModel.C14Check
/-
  DracoProofs.BuildersSpec — the geometry held by the builders before `Finalize`
  (`MeshSpec.soup`, `PointCloudSpec.raw`) is valid and describes exactly the values handed in
  (`MeshSpec.triangles`, `PointCloudSpec.points`).
-/
namespace Draco

theorem fitBytes_length (n : Nat) (v : Bytes) : (fitBytes n v).length = n := by
  simp [fitBytes, List.length_take]

/-- the three buffer entries written for one face -/
def FaceValue.cornerVals (n : Nat) : FaceValue → List Bytes
  | .corners v0 v1 v2 => [fitBytes n v0, fitBytes n v1, fitBytes n v2]
  | .perFace v => [fitBytes n v, fitBytes n v, fitBytes n v]

theorem FaceValue.bytes_eq (n : Nat) (v : FaceValue) : v.bytes n = (v.cornerVals n).flatten := by
  cases v <;> simp [FaceValue.bytes, FaceValue.cornerVals]

theorem FaceValue.cornerVals_length (n : Nat) (v : FaceValue) : (v.cornerVals n).length = 3 := by
  cases v <;> rfl

theorem FaceValue.cornerVals_elem (n : Nat) (v : FaceValue) : ∀ e ∈ v.cornerVals n, e.length = n := by
  cases v <;> simp [FaceValue.cornerVals, fitBytes_length]

theorem flatMap_length3 (n : Nat) (vals : List FaceValue) :
    (vals.flatMap (FaceValue.cornerVals n)).length = 3 * vals.length := by
  induction vals with
  | nil => rfl
  | cons v vals ih => simp [List.flatMap_cons, FaceValue.cornerVals_length, ih]; omega

/-- entry `3 f + k` is the `k`-th corner value of face `f` -/
theorem flatMap_getD3 (n : Nat) (vals : List FaceValue) (f k : Nat) (hf : f < vals.length) (hk : k < 3) :
    (vals.flatMap (FaceValue.cornerVals n)).getD (3 * f + k) [] =
      ((vals.getD f (.perFace [])).cornerVals n).getD k [] := by
  induction vals generalizing f with
  | nil => simp at hf
  | cons v vals ih =>
    rw [List.flatMap_cons]
    cases f with
    | zero =>
      have hl := FaceValue.cornerVals_length n v
      simp only [Nat.mul_zero, Nat.zero_add, List.getD_cons_zero]
      rw [List.getD_eq_getElem?_getD, List.getElem?_append_left (by omega), ← List.getD_eq_getElem?_getD]
    | succ f =>
      have hl := FaceValue.cornerVals_length n v
      rw [List.getD_eq_getElem?_getD, List.getElem?_append_right (by omega), hl]
      have : 3 * (f + 1) + k - 3 = 3 * f + k := by omega
      rw [this, ← List.getD_eq_getElem?_getD, ih f (by simpa using hf)]
      simp

/-- the attribute of the soup built from one `(AttSpec, values)` pair -/
def soupAtt (numFaces : Nat) (a : AttSpec) (vals : List FaceValue) (k : Nat) : Attribute :=
  a.toAttribute k (3 * numFaces) ((vals.map (FaceValue.bytes a.stride)).flatten)

theorem soupAtt_entries (F : Nat) (a : AttSpec) (vals : List FaceValue) (k : Nat) (hl : vals.length = F) :
    (soupAtt F a vals k).entries = vals.flatMap (FaceValue.cornerVals a.stride) := by
  have e0 : (soupAtt F a vals k).entries =
      chunk a.stride (3 * F) ((vals.map (FaceValue.bytes a.stride)).flatten) := rfl
  rw [e0]
  have e1 : (vals.map (FaceValue.bytes a.stride)).flatten = (vals.flatMap (FaceValue.cornerVals a.stride)).flatten := by
    clear e0
    induction vals generalizing F with
    | nil => rfl
    | cons v vals ih =>
      simp only [List.map_cons, List.flatten_cons, List.flatMap_cons, List.flatten_append]
      rw [FaceValue.bytes_eq, ih vals.length rfl]
  rw [e1, ← hl, ← flatMap_length3 a.stride vals]
  have := chunk_flatten a.stride (vals.flatMap (FaceValue.cornerVals a.stride)) (by
    intro e he
    obtain ⟨v, _, hv⟩ := List.mem_flatMap.1 he
    exact FaceValue.cornerVals_elem _ v e hv) []
  simpa using this

/-- what the spec says the corner `k` of face `f` carries in this attribute -/
def specCorner (a : AttSpec) (vals : List FaceValue) (f k : Nat) : Bytes :=
  match vals.getD f (.perFace []) with
  | .corners v0 v1 v2 => fitBytes a.stride (if k = 0 then v0 else if k = 1 then v1 else v2)
  | .perFace v => fitBytes a.stride v

theorem soupAtt_pointValue (F : Nat) (a : AttSpec) (vals : List FaceValue) (k' : Nat) (hl : vals.length = F)
    (f k : Nat) (hf : f < F) (hk : k < 3) :
    (soupAtt F a vals k').pointValue (3 * f + k) = specCorner a vals f k := by
  unfold Attribute.pointValue
  rw [soupAtt_entries F a vals k' hl]
  have hm : (soupAtt F a vals k').mappedIndex (3 * f + k) = 3 * f + k := rfl
  rw [hm, flatMap_getD3 a.stride vals f k (by omega) hk]
  unfold specCorner
  cases vals.getD f (.perFace []) with
  | corners v0 v1 v2 =>
    have : k = 0 ∨ k = 1 ∨ k = 2 := by omega
    rcases this with h | h | h <;> subst h <;> simp [FaceValue.cornerVals]
  | perFace v =>
    have : k = 0 ∨ k = 1 ∨ k = 2 := by omega
    rcases this with h | h | h <;> subst h <;> simp [FaceValue.cornerVals]

theorem soupAtt_valid (F : Nat) (a : AttSpec) (vals : List FaceValue) (k : Nat) (hl : vals.length = F)
    (h1 : 1 ≤ a.numComponents) (h2 : 1 ≤ dataTypeLength a.dataType) : (soupAtt F a vals k).Valid (3 * F) := by
  refine ⟨h1, h2, ?_, fun _ => Nat.le_refl _, fun m hm => by cases hm⟩
  show 3 * F * a.stride ≤ ((vals.map (FaceValue.bytes a.stride)).flatten).length
  have : ((vals.map (FaceValue.bytes a.stride)).flatten).length = 3 * F * a.stride := by
    rw [← hl]
    clear hl
    induction vals with
    | nil => simp
    | cons v vals ih =>
      simp only [List.map_cons, List.flatten_cons, List.length_append, ih, List.length_cons]
      have : (v.bytes a.stride).length = 3 * a.stride := by
        cases v <;> simp [FaceValue.bytes, fitBytes_length] <;> omega
      rw [this, Nat.mul_add, Nat.add_mul]
      omega
  omega

theorem map_zipIdx_fst {α β : Type} (l : List α) (g : α → Nat → β) (g' : α → β) (h : ∀ x k, g x k = g' x) (n : Nat) :
    (l.zipIdx n).map (fun p => g p.1 p.2) = l.map g' := by
  induction l generalizing n with
  | nil => rfl
  | cons x l ih =>
    rw [List.zipIdx_cons, List.map_cons, List.map_cons, ih (n + 1), h]

theorem MeshSpec.soup_atts (s : MeshSpec) :
    s.soup.atts = s.atts.zipIdx.map fun p => soupAtt s.numFaces p.1.1 p.1.2 p.2 := rfl

theorem MeshSpec.wellFormed_iff (s : MeshSpec) : s.wellFormed = true ↔
    ∀ p ∈ s.atts, p.2.length = s.numFaces ∧ 1 ≤ p.1.numComponents ∧ 1 ≤ dataTypeLength p.1.dataType := by
  unfold MeshSpec.wellFormed
  simp only [List.all_eq_true, Bool.and_eq_true, beq_iff_eq, decide_eq_true_eq, ge_iff_le]
  constructor
  · intro h p hp
    have := h p hp
    obtain ⟨a, vals⟩ := p
    exact ⟨this.1.1, this.1.2, this.2⟩
  · intro h p hp
    have := h p hp
    obtain ⟨a, vals⟩ := p
    exact ⟨⟨this.1, this.2.1⟩, this.2.2⟩

/-- the mesh held by the builder before `Finalize` is valid -/
theorem MeshSpec.soup_valid (s : MeshSpec) (hw : s.wellFormed = true) : s.soup.valid = true := by
  rw [MeshSpec.wellFormed_iff] at hw
  unfold Geometry.valid
  simp only [Bool.and_eq_true, List.all_eq_true]
  refine ⟨?_, ?_⟩
  · intro f hf
    have : f ∈ (List.range s.numFaces).map fun f => (3 * f, 3 * f + 1, 3 * f + 2) := hf
    obtain ⟨i, hi, rfl⟩ := List.mem_map.1 this
    have hi' : i < s.numFaces := List.mem_range.1 hi
    have hn : s.soup.numPoints = 3 * s.numFaces := rfl
    simp only [hn, decide_eq_true_eq]
    omega
  · intro a' ha'
    rw [s.soup_atts] at ha'
    obtain ⟨p, hp, rfl⟩ := List.mem_map.1 ha'
    have hmem : p.1 ∈ s.atts := by
      obtain ⟨_, _, h3⟩ := List.mem_zipIdx hp
      rw [h3]
      exact List.getElem_mem _
    obtain ⟨h1, h2, h3⟩ := hw p.1 hmem
    rw [Attribute.valid_iff]
    exact soupAtt_valid s.numFaces p.1.1 p.1.2 p.2 h1 h2 h3

/-- … and describes exactly the triangles handed to the builder -/
theorem MeshSpec.soup_triangles (s : MeshSpec) (hw : s.wellFormed = true) : s.soup.triangles = s.triangles := by
  rw [MeshSpec.wellFormed_iff] at hw
  unfold Geometry.triangles MeshSpec.triangles
  have hf : s.soup.faces = (List.range s.numFaces).map fun f => (3 * f, 3 * f + 1, 3 * f + 2) := rfl
  rw [hf, List.map_map]
  apply List.map_congr_left
  intro f hf
  have hf' : f < s.numFaces := List.mem_range.1 hf
  simp only [Function.comp]
  have key : ∀ k, k < 3 → s.soup.pointTuple (3 * f + k) = s.atts.map fun p => specCorner p.1 p.2 f k := by
    intro k hk
    unfold Geometry.pointTuple
    rw [s.soup_atts, List.map_map]
    have : (s.atts.zipIdx.map ((fun x => x.pointValue (3 * f + k)) ∘ fun p => soupAtt s.numFaces p.1.1 p.1.2 p.2)) =
        s.atts.zipIdx.map (fun p => specCorner p.1.1 p.1.2 f k) := by
      apply List.map_congr_left
      intro p hp
      have hmem : p.1 ∈ s.atts := by
        obtain ⟨_, _, h3⟩ := List.mem_zipIdx hp
        rw [h3]
        exact List.getElem_mem _
      exact soupAtt_pointValue s.numFaces p.1.1 p.1.2 p.2 (hw p.1 hmem).1 f k hf' hk
    rw [this]
    exact map_zipIdx_fst s.atts (fun x _ => specCorner x.1 x.2 f k) _ (fun _ _ => rfl) 0
  have k0 := key 0 (by omega)
  have k1 := key 1 (by omega)
  have k2 := key 2 (by omega)
  simp only [Nat.add_zero] at k0
  rw [k0, k1, k2]
  simp [specCorner]
  refine ⟨?_, ?_, ?_⟩ <;> (intro a b _; cases b[f]?.getD (FaceValue.perFace []) <;> rfl)

/-! ### point cloud builder -/

def rawAtt (np : Nat) (a : AttSpec) (vals : List Bytes) (k : Nat) : Attribute :=
  a.toAttribute k np ((vals.map (fitBytes a.stride)).flatten)

theorem rawAtt_entries (np : Nat) (a : AttSpec) (vals : List Bytes) (k : Nat) (hl : vals.length = np) :
    (rawAtt np a vals k).entries = vals.map (fitBytes a.stride) := by
  have e0 : (rawAtt np a vals k).entries = chunk a.stride np ((vals.map (fitBytes a.stride)).flatten) := rfl
  rw [e0]
  have := chunk_flatten a.stride (vals.map (fitBytes a.stride)) (by
    intro e he
    obtain ⟨v, _, rfl⟩ := List.mem_map.1 he
    exact fitBytes_length _ _) []
  rw [List.length_map, hl] at this
  simpa using this

theorem rawAtt_valid (np : Nat) (a : AttSpec) (vals : List Bytes) (k : Nat) (hl : vals.length = np)
    (h1 : 1 ≤ a.numComponents) (h2 : 1 ≤ dataTypeLength a.dataType) : (rawAtt np a vals k).Valid np := by
  refine ⟨h1, h2, ?_, fun _ => Nat.le_refl _, fun m hm => by cases hm⟩
  show np * a.stride ≤ ((vals.map (fitBytes a.stride)).flatten).length
  rw [flatten_length_of a.stride _ (by
    intro e he
    obtain ⟨v, _, rfl⟩ := List.mem_map.1 he
    exact fitBytes_length _ _)]
  simp [hl]

theorem PointCloudSpec.raw_atts (s : PointCloudSpec) :
    s.raw.atts = s.atts.zipIdx.map fun p => rawAtt s.numPoints p.1.1 p.1.2 p.2 := rfl

theorem PointCloudSpec.wellFormed_iff (s : PointCloudSpec) : s.wellFormed = true ↔
    ∀ p ∈ s.atts, p.2.length = s.numPoints ∧ 1 ≤ p.1.numComponents ∧ 1 ≤ dataTypeLength p.1.dataType := by
  unfold PointCloudSpec.wellFormed
  simp only [List.all_eq_true, Bool.and_eq_true, beq_iff_eq, decide_eq_true_eq, ge_iff_le]
  constructor
  · intro h p hp
    have := h p hp
    obtain ⟨a, vals⟩ := p
    exact ⟨this.1.1, this.1.2, this.2⟩
  · intro h p hp
    have := h p hp
    obtain ⟨a, vals⟩ := p
    exact ⟨⟨this.1, this.2.1⟩, this.2.2⟩

theorem PointCloudSpec.raw_valid (s : PointCloudSpec) (hw : s.wellFormed = true) : s.raw.valid = true := by
  rw [PointCloudSpec.wellFormed_iff] at hw
  unfold Geometry.valid
  simp only [Bool.and_eq_true, List.all_eq_true]
  refine ⟨(by intro f hf; cases hf), ?_⟩
  intro a' ha'
  rw [s.raw_atts] at ha'
  obtain ⟨p, hp, rfl⟩ := List.mem_map.1 ha'
  have hmem : p.1 ∈ s.atts := by
    obtain ⟨_, _, h3⟩ := List.mem_zipIdx hp
    rw [h3]
    exact List.getElem_mem _
  obtain ⟨h1, h2, h3⟩ := hw p.1 hmem
  rw [Attribute.valid_iff]
  exact rawAtt_valid s.numPoints p.1.1 p.1.2 p.2 h1 h2 h3

theorem PointCloudSpec.raw_points (s : PointCloudSpec) (hw : s.wellFormed = true) : s.raw.points = s.points := by
  rw [PointCloudSpec.wellFormed_iff] at hw
  unfold Geometry.points PointCloudSpec.points
  have hn : s.raw.numPoints = s.numPoints := rfl
  rw [hn]
  apply List.map_congr_left
  intro pt hpt
  have hpt' : pt < s.numPoints := List.mem_range.1 hpt
  congr 1
  unfold Geometry.pointTuple
  rw [s.raw_atts, List.map_map]
  have : (s.atts.zipIdx.map ((fun x => x.pointValue pt) ∘ fun p => rawAtt s.numPoints p.1.1 p.1.2 p.2)) =
      s.atts.zipIdx.map (fun p => fitBytes p.1.1.stride (p.1.2.getD pt [])) := by
    apply List.map_congr_left
    intro p hp
    have hmem : p.1 ∈ s.atts := by
      obtain ⟨_, _, h3⟩ := List.mem_zipIdx hp
      rw [h3]
      exact List.getElem_mem _
    have hl := (hw p.1 hmem).1
    simp only [Function.comp]
    unfold Attribute.pointValue
    rw [rawAtt_entries s.numPoints p.1.1 p.1.2 p.2 hl]
    have hm : (rawAtt s.numPoints p.1.1 p.1.2 p.2).mappedIndex pt = pt := rfl
    rw [hm]
    have hlt : pt < p.1.2.length := by omega
    simp [List.getD_eq_getElem?_getD, hlt]
  rw [this]
  rw [map_zipIdx_fst s.atts (fun x _ => fitBytes x.1.stride (x.2.getD pt [])) _ (fun _ _ => rfl) 0]

end Draco
