import DracoModel.BitBuf
import Mathlib.Tactic.Ring
/-
  `DecoderBuffer::BitDecoder` reads back what `EncoderBuffer::BitEncoder` wrote
  (`packBits` / `BitReader`), position based.
-/
namespace Draco

/-- bit `k` of a byte string, LSB first inside each byte -/
def bitAt (start : Bytes) (k : Nat) : Nat := (start.getD (k / 8) 0 / 2 ^ (k % 8)) % 2

/-- the reader after `k` bits of `start` have been read -/
def readerAt (start : Bytes) (k : Nat) : BitReader := ⟨start.drop (k / 8), k % 8, k⟩

theorem readerAt_zero (start : Bytes) : BitReader.start start = readerAt start 0 := by
  simp [BitReader.start, readerAt]

theorem getBit_readerAt (start : Bytes) (k : Nat) (h : k < 8 * start.length) :
    (readerAt start k).getBit = (bitAt start k, readerAt start (k + 1)) := by
  have hk : k / 8 < start.length := by omega
  have hd : start.drop (k / 8) = start.getD (k / 8) 0 :: start.drop (k / 8 + 1) := by
    rw [List.drop_eq_getElem_cons hk]
    simp [List.getD_eq_getElem?_getD, List.getElem?_eq_getElem hk]
  simp only [BitReader.getBit, readerAt, hd, bitAt]
  by_cases h8 : k % 8 + 1 = 8
  · have e1 : (k + 1) / 8 = k / 8 + 1 := by omega
    have e2 : (k + 1) % 8 = 0 := by omega
    simp only [h8, if_true, e1, e2]
  · have e1 : (k + 1) / 8 = k / 8 := by omega
    have e2 : (k + 1) % 8 = k % 8 + 1 := by omega
    simp only [h8, if_false, e1, e2, hd]

/-- value of `n` bits starting at position `k` -/
def readVal (start : Bytes) : Nat → Nat → Nat
  | _, 0 => 0
  | k, n+1 => bitAt start k + 2 * readVal start (k + 1) n

theorem getBitsAux_readerAt (start : Bytes) : ∀ (n i acc k : Nat), k + n ≤ 8 * start.length →
    BitReader.getBitsAux n i acc (readerAt start k)
      = (acc + 2 ^ i * readVal start k n, readerAt start (k + n)) := by
  intro n
  induction n with
  | zero => intro i acc k _; simp [BitReader.getBitsAux, readVal]
  | succ n ih =>
    intro i acc k h
    simp only [BitReader.getBitsAux, getBit_readerAt start k (by omega)]
    rw [ih (i + 1) _ (k + 1) (by omega)]
    simp only [readVal]
    congr 1
    · rw [Nat.pow_succ]; ring
    · congr 1; omega

theorem getBits_readerAt (start : Bytes) (n k : Nat) (hn : n ≤ 32) (h : k + n ≤ 8 * start.length) :
    (readerAt start k).getBits n = some (readVal start k n, readerAt start (k + n)) := by
  have : ¬ n > 32 := by omega
  simp only [BitReader.getBits, this, if_false, getBitsAux_readerAt start n 0 0 k h]
  simp

/-! ### packBits -/

def b2n (b : Bool) : Nat := if b then 1 else 0

theorem valOfBits_bit : ∀ (l : List Bool) (k : Nat) (h : k < l.length),
    (valOfBits l / 2 ^ k) % 2 = b2n l[k] := by
  intro l
  induction l with
  | nil => intro k h; simp at h
  | cons b t ih =>
    intro k h
    cases k with
    | zero => simp only [valOfBits, b2n, List.getElem_cons_zero]; split <;> omega
    | succ k =>
      have := ih k (by simpa using h)
      simp only [valOfBits, List.getElem_cons_succ]
      rw [← this, Nat.pow_succ, Nat.mul_comm (2 ^ k) 2, ← Nat.div_div_eq_div_mul]
      congr 2
      split <;> omega

theorem packBits_length_A : ∀ (n : Nat) (bits : List Bool), bits.length ≤ n →
    (packBits bits).length = (bits.length + 7) / 8 := by
  intro n
  induction n with
  | zero =>
    intro bits h
    have : bits = [] := List.length_eq_zero_iff.mp (by omega)
    subst this; rw [packBits]; simp
  | succ n ih =>
    intro bits h
    rw [packBits]
    by_cases he : bits.isEmpty
    · have : bits = [] := by simpa using he
      subst this; simp
    · have hne : bits.length ≠ 0 := by
        intro h0; exact he (by simpa using List.length_eq_zero_iff.mp h0)
      simp only [he, Bool.false_eq_true, if_false, List.length_cons]
      rw [ih (bits.drop 8) (by simp; omega)]
      simp only [List.length_drop]; omega

theorem bitAt_cons_ge (b : Nat) (tl : Bytes) (k : Nat) (h : 8 ≤ k) :
    bitAt (b :: tl) k = bitAt tl (k - 8) := by
  obtain ⟨j, rfl⟩ : ∃ j, k = j + 8 := ⟨k - 8, by omega⟩
  have e1 : (j + 8) / 8 = j / 8 + 1 := by omega
  have e2 : (j + 8) % 8 = j % 8 := by omega
  simp only [bitAt, e1, e2, List.getD_cons_succ, Nat.add_sub_cancel]

theorem bitAt_packBits (rest : Bytes) : ∀ (n : Nat) (bits : List Bool) (k : Nat), bits.length ≤ n →
    (h : k < bits.length) → bitAt (packBits bits ++ rest) k = b2n bits[k] := by
  intro n
  induction n with
  | zero => intro bits k hn h; omega
  | succ n ih =>
    intro bits k hn h
    rw [packBits]
    have he : ¬ bits.isEmpty := by
      intro he; have : bits = [] := by simpa using he
      subst this; simp at h
    simp only [he, Bool.false_eq_true, if_false, List.cons_append]
    by_cases hk : k < 8
    · have e1 : k / 8 = 0 := by omega
      have e2 : k % 8 = k := by omega
      simp only [bitAt, e1, e2, List.getD_cons_zero]
      rw [valOfBits_bit (bits.take 8) k (by simp; omega)]
      simp
    · rw [bitAt_cons_ge _ _ _ (by omega)]
      rw [ih (bits.drop 8) (k - 8) (by simp; omega) (by simp; omega)]
      simp only [List.getElem_drop]
      congr 2; omega

theorem readVal_packBits (rest : Bytes) (bits : List Bool) : ∀ (n k : Nat), k + n ≤ bits.length →
    readVal (packBits bits ++ rest) k n = valOfBits ((bits.drop k).take n) := by
  intro n
  induction n with
  | zero => intro k _; simp [readVal, valOfBits]
  | succ n ih =>
    intro k h
    have hk : k < bits.length := by omega
    simp only [readVal]
    rw [ih (k + 1) (by omega), bitAt_packBits rest bits.length bits k (Nat.le_refl _) hk]
    rw [List.drop_eq_getElem_cons hk, List.take_succ_cons]
    simp only [valOfBits, b2n]

theorem valOfBits_bitsOf_A : ∀ (n v : Nat), valOfBits (bitsOf n v) = v % 2 ^ n := by
  intro n
  induction n with
  | zero => intro v; simp [bitsOf, valOfBits, Nat.mod_one]
  | succ n ih =>
    intro v
    simp only [bitsOf, valOfBits, ih]
    rw [Nat.pow_succ, Nat.mul_comm (2 ^ n) 2, Nat.mod_mul]
    have : (if (v % 2 == 1) = true then 1 else 0) = v % 2 := by
      by_cases h : v % 2 = 1
      · simp [h]
      · have : v % 2 = 0 := by omega
        simp [this]
    rw [this]

theorem bitsOf_length_A : ∀ (n v : Nat), (bitsOf n v).length = n := by
  intro n
  induction n with
  | zero => intro v; simp [bitsOf]
  | succ n ih => intro v; simp [bitsOf, ih]

end Draco
