import DracoProofs.EbCountsIso
/-
  The `is_vert_hole_` flags of the Edgebreaker connectivity decoder (`connLoop`,
  DracoModel/EbConnectivity.lean) and the boundary.

  PROVED HERE (final tables only): on a table with fans (`APHyp`), the hypothesis `FanHyps.hole` of the point count
  theorem ("a vertex still flagged as hole vertex reaches the boundary swinging right from its left-most corner")
  follows from a LOCAL property of the final tables: every flagged vertex with a left-most corner has SOME corner
  with an unglued adjacent edge (`OpenCorner`): `hole_of_openCorner`.

  EXPERIMENT (brute force over the real `connLoop`, kind 0, every symbol sequence over {C,S,L,R,E} of length ≤ 7
  without topology splits, length ≤ 5 with one arbitrary split event, length ≤ 4 with two, every start-face
  configuration, with and without the compaction; ≈ 600 000 successful runs): NO counterexample to `FanHyps.hole`, and
  `OpenCorner` holds for every flagged vertex of every successful run — also on runs whose tables are inconsistent
  (an "interior" start face glued onto a boundary loop that is not a triangle: `APHyp.closed` FAILS on those, `hole`
  does not).  Why `S` is harmless: after the two edges are glued the loop that re-labels the corners of `vertexN`
  swings LEFT from `Next(cornerB)` and fails when it comes back to its first corner, so on success the merged vertex
  has an open left end; the other two corners of the new face keep the (unglued) edge opposite to `corner`.

  NOT PROVED: `OpenCorner` for the result of `connLoop`.  No purely local invariant carries it through all three
  phases: (a) the `S` re-labelling must not touch corners of other vertices (needs `Opposite` involutive and the labels
  constant across glued edges as invariants — both local), (b) an interior start face un-opens the corner
  `Previous(corner)` of a vertex that is only cleared when the boundary loop is a triangle, (c) the compaction moves the
  flag of `src_vert` but re-labels only the corners its iterator reaches.  (b) and (c) need the fan structure
  (`APHyp.cover`-like: one chain per vertex) of the INTERMEDIATE tables, i.e. the invariant that would also prove `APHyp`.
-/
namespace Draco.EbEnc
open Draco
open Draco.Eb hiding nextC prevC iabs
open AttViews

/-- vertex `v` has a corner one of whose two edges at `v` has no opposite corner -/
def OpenCorner (N : Nat) (c2v opp : Array Nat) (v : Nat) : Prop :=
  ∃ c, c < N ∧ c2v[c]! = v ∧ (opp[Eb.nextC c]! = inv ∨ opp[Eb.prevC c]! = inv)

/-- on a table with fans, a vertex with an open corner reaches the boundary from its left-most corner -/
theorem reaches_boundary_of_openCorner {n : Nat} {co : ConnOut} (dec : APHyp n co) {v : Nat} (hv : v < co.vc.size)
    (hne : co.vc[v]! ≠ inv) (ho : OpenCorner (3 * n) co.c2v co.opp v) :
    ∃ k, iter (sRP co.opp) k co.vc[v]! = inv := by
  obtain ⟨c, hc, hcv, hopen⟩ := ho
  have hb := dec.tbl.toBaseTbl
  obtain ⟨hc0, -⟩ := dec.tbl.vcOK v hv hne
  obtain ⟨-, hcov⟩ := dec.cover c hc
  rw [hcv] at hcov
  obtain ⟨hci, k, hk⟩ := hcov
  rcases hopen with hl | hr
  · -- the left edge of `c` is open: the fan cannot be periodic
    obtain ⟨P, hO, -⟩ := CountsIso.orbit_exists hb hc0
    rcases hO.fin with hfin | hper
    · exact ⟨P, hfin⟩
    · exfalso
      have hP := hO.pos
      have e1 : iter (sRP co.opp) (P + k) co.vc[v]! = c := by rw [iter_add, hper, hk]
      have e2 : P + k = (P + k - 1) + 1 := by omega
      rw [e2, iter_succ'] at e1
      have hy : iter (sRP co.opp) (P + k - 1) co.vc[v]! ≠ inv := by
        intro e; rw [e, sRP_inv] at e1; exact hci e1.symm
      have hylt := AP.iter_sR_lt hb hc0 _ hy
      obtain ⟨-, hsl⟩ := hb.sR_sL hylt e1 hci
      have : sLP co.opp c = inv := by simp [sLP, hci, hl, nextC_inv]
      rw [this] at hsl
      exact hy hsl.symm
  · refine ⟨k + 1, ?_⟩
    rw [iter_succ', hk]
    simp only [sRP, hci, if_false, hr]
    simp [Eb.prevC]

/-- **`FanHyps.hole` from a local property**: if every flagged vertex with a left-most corner has an open corner,
    then every flagged vertex reaches the boundary -/
theorem hole_of_openCorner {n : Nat} {co : ConnOut} (dec : APHyp n co)
    (hw : ∀ v, v < co.vc.size → co.vc[v]! ≠ inv → co.hole[v]! = true → OpenCorner (3 * n) co.c2v co.opp v) :
    ∀ v, v < co.vc.size → co.vc[v]! ≠ inv → co.hole[v]! = true → ∃ k, iter (sRP co.opp) k co.vc[v]! = inv :=
  fun v hv hne hh => reaches_boundary_of_openCorner dec hv hne (hw v hv hne hh)

end Draco.EbEnc
