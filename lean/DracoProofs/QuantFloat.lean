import DracoProofs.QuantExact
import Mathlib.Tactic.NormNum
/-
  Error analysis of the quantizer under the standard floating point rounding model.

  `RoundingModel ops u`: `ops` is any oracle for the float operations on ℚ-valued numbers
  such that each arithmetic operation returns the exact result times `(1 + δ)`, `|δ| ≤ u`
  (no overflow / underflow: the relative model is assumed for all operands), the int → float
  conversion likewise, `floor` is exact and the literal `0.5f` is exact.
-/
namespace Draco
namespace Quant

structure RoundingModel (ops : FloatOps ℚ) (u : ℚ) : Prop where
  add : ∀ a b, ∃ δ : ℚ, |δ| ≤ u ∧ ops.add a b = (a + b) * (1 + δ)
  sub : ∀ a b, ∃ δ : ℚ, |δ| ≤ u ∧ ops.sub a b = (a - b) * (1 + δ)
  mul : ∀ a b, ∃ δ : ℚ, |δ| ≤ u ∧ ops.mul a b = (a * b) * (1 + δ)
  div : ∀ a b, b ≠ 0 → ∃ δ : ℚ, |δ| ≤ u ∧ ops.div a b = (a / b) * (1 + δ)
  ofInt : ∀ k : Int, ∃ δ : ℚ, |δ| ≤ u ∧ ops.ofInt k = (k : ℚ) * (1 + δ)
  floor : ∀ x, ops.floorToInt x = ⌊x⌋
  half : ops.half = 1/2

/-! ### products of `(1 + δ)` factors -/

theorem abs_mul_one_add {a α δ u : ℚ} (ha : |a - 1| ≤ α) (hδ : |δ| ≤ u) :
    |a * (1 + δ) - 1| ≤ α + u + α * u := by
  have e : a * (1 + δ) - 1 = ((a - 1) + δ) + (a - 1) * δ := by ring
  have h3 : |(a - 1) * δ| ≤ α * u := by
    rw [abs_mul]; exact mul_le_mul ha hδ (abs_nonneg _) (le_trans (abs_nonneg _) ha)
  have h4 := abs_add_le ((a - 1) + δ) ((a - 1) * δ)
  have h5 := abs_add_le (a - 1) δ
  rw [e]; linarith

theorem abs_mul_sub_one {a b α β : ℚ} (ha : |a - 1| ≤ α) (hb : |b - 1| ≤ β) :
    |a * b - 1| ≤ α + β + α * β := by
  have := abs_mul_one_add (a := a) (δ := b - 1) ha hb
  have e : a * (1 + (b - 1)) = a * b := by ring
  rwa [e] at this

theorem step_c {a c δ u : ℚ} (hu0 : 0 ≤ u) (hu : u ≤ 1/1024) (hc : c ≤ 16)
    (ha : |a - 1| ≤ c * u) (hδ : |δ| ≤ u) : |a * (1 + δ) - 1| ≤ (c + 1 + 1/64) * u := by
  have h := abs_mul_one_add ha hδ
  have h1 : c * u ≤ 1/64 := by nlinarith
  have h2 : c * u * u ≤ (1/64) * u := mul_le_mul_of_nonneg_right h1 hu0
  linarith

theorem one_add_pos {δ u : ℚ} (hu : u ≤ 1/1024) (hδ : |δ| ≤ u) : 1023/1024 ≤ 1 + δ := by
  have := (abs_le.mp hδ).1; linarith

theorem inv_bound {δ u : ℚ} (hu : u ≤ 1/1024) (hδ : |δ| ≤ u) :
    |1 / (1 + δ) - 1| ≤ (1024/1023) * u := by
  have hp := one_add_pos hu hδ
  have hpos : 0 < 1 + δ := by linarith
  have hy : 1 / (1 + δ) ≤ 1024/1023 := by
    rw [div_le_iff₀ hpos]; linarith
  have hy0 : 0 < 1 / (1 + δ) := by positivity
  have e : 1 / (1 + δ) - 1 = -δ * (1 / (1 + δ)) := by field_simp; ring
  rw [e, abs_mul, abs_neg, abs_of_pos hy0]
  calc |δ| * (1 / (1 + δ)) ≤ u * (1024/1023) :=
        mul_le_mul hδ hy hy0.le (le_trans (abs_nonneg _) hδ)
    _ = (1024/1023) * u := by ring

/-- five rounding factors -/
theorem prod5 {u δ1 δ0 δ2 δ3 δ4 : ℚ} (hu0 : 0 ≤ u) (hu : u ≤ 1/1024)
    (h1 : |δ1| ≤ u) (h0 : |δ0| ≤ u) (h2 : |δ2| ≤ u) (h3 : |δ3| ≤ u) (h4 : |δ4| ≤ u) :
    |(1 + δ1) * (1 + δ0) * (1 + δ2) * (1 + δ3) * (1 + δ4) - 1| ≤ (81/16) * u := by
  have a1 : |(1 + δ1) - 1| ≤ 1 * u := by simpa using h1
  have a2 := step_c hu0 hu (by norm_num) a1 h0
  have a3 := step_c hu0 hu (by norm_num) a2 h2
  have a4 := step_c hu0 hu (by norm_num) a3 h3
  have a5 := step_c hu0 hu (by norm_num) a4 h4
  norm_num at a5 ⊢
  linarith

/-- three rounding factors and one inverse factor -/
theorem prodQ {u δ6 δ5 δ7 δ0 : ℚ} (hu0 : 0 ≤ u) (hu : u ≤ 1/1024)
    (h6 : |δ6| ≤ u) (h5 : |δ5| ≤ u) (h7 : |δ7| ≤ u) (h0 : |δ0| ≤ u) :
    |(1 + δ6) * (1 + δ5) * (1 + δ7) * (1 / (1 + δ0)) - 1| ≤ (41/10) * u := by
  have a1 : |(1 + δ6) - 1| ≤ 1 * u := by simpa using h6
  have a2 := step_c hu0 hu (by norm_num) a1 h5
  have a3 := step_c hu0 hu (by norm_num) a2 h7
  have b := inv_bound hu h0
  have c := abs_mul_sub_one a3 b
  have hq : u * u ≤ u * (1/1024) := mul_le_mul_of_nonneg_left hu hu0
  norm_num at a3 c ⊢
  nlinarith

/-! ### encoder side -/

/-- `s` is the float value handed to `floor` by `QuantizeFloat`, `t` the exact scaled value -/
theorem enc_core {x m R M u δ0 δ1 δ2 δ3 δ4 : ℚ} (hu0 : 0 ≤ u) (hu : u ≤ 1/1024)
    (hR : 0 < R) (hM : 1 ≤ M) (hx1 : m ≤ x) (hx2 : x ≤ m + R)
    (h0 : |δ0| ≤ u) (h1 : |δ1| ≤ u) (h2 : |δ2| ≤ u) (h3 : |δ3| ≤ u) (h4 : |δ4| ≤ u)
    {t s : ℚ} (ht : t = (x - m) * (M / R))
    (hs : s = (((x - m) * (1 + δ1)) * ((M * (1 + δ0) / R) * (1 + δ2)) * (1 + δ3) + 1/2)
              * (1 + δ4)) :
    0 ≤ t ∧ t ≤ M ∧ 0 ≤ s ∧ |s - (t + 1/2)| ≤ t * ((81/16) * u) + u / 2 := by
  have hM0 : 0 < M := by linarith
  have ht0 : 0 ≤ t := by rw [ht]; exact mul_nonneg (by linarith) (div_nonneg hM0.le hR.le)
  have htM : t ≤ M := by
    have : t ≤ R * (M / R) := by
      rw [ht]; exact mul_le_mul_of_nonneg_right (by linarith) (div_nonneg hM0.le hR.le)
    have h3 : R * (M / R) = M := by field_simp
    linarith
  have p0 := one_add_pos hu h0
  have p1 := one_add_pos hu h1
  have p2 := one_add_pos hu h2
  have p3 := one_add_pos hu h3
  have p4 := one_add_pos hu h4
  set P : ℚ := (1 + δ1) * (1 + δ0) * (1 + δ2) * (1 + δ3) * (1 + δ4) with hP
  have hP5 : |P - 1| ≤ (81/16) * u := prod5 hu0 hu h1 h0 h2 h3 h4
  have hPpos : 0 ≤ P := by rw [hP]; positivity
  have es : s = t * P + (1/2) * (1 + δ4) := by
    rw [hs, ht, hP]; field_simp
  have hs0 : 0 ≤ s := by
    rw [es]
    have : 0 ≤ t * P := mul_nonneg ht0 hPpos
    nlinarith
  refine ⟨ht0, htM, hs0, ?_⟩
  have e : s - (t + 1/2) = t * (P - 1) + δ4 / 2 := by rw [es]; ring
  have b1 : |t * (P - 1)| ≤ t * ((81/16) * u) := by
    rw [abs_mul, abs_of_nonneg ht0]; exact mul_le_mul_of_nonneg_left hP5 ht0
  have b2 : |δ4 / 2| ≤ u / 2 := by
    rw [abs_div, abs_of_pos (by norm_num : (0:ℚ) < 2)]; linarith
  rw [e]
  linarith [abs_add_le (t * (P - 1)) (δ4 / 2)]

/-- consequences for `k = ⌊s⌋` -/
theorem floor_core {t s u : ℚ} (hs0 : 0 ≤ s)
    (hs : |s - (t + 1/2)| ≤ t * ((81/16) * u) + u / 2) :
    0 ≤ ⌊s⌋ ∧ |((⌊s⌋ : Int) : ℚ) - t| ≤ 1/2 + t * ((81/16) * u) + u / 2 := by
  have hk1 : ((⌊s⌋ : Int) : ℚ) ≤ s := Int.floor_le _
  have hk2 : s < ((⌊s⌋ : Int) : ℚ) + 1 := Int.lt_floor_add_one _
  obtain ⟨l, r⟩ := abs_le.mp hs
  refine ⟨Int.floor_nonneg.mpr hs0, ?_⟩
  rw [abs_le]; constructor <;> linarith

/-! ### decoder side -/

theorem dec_core {t M R u Q : ℚ} {k : Int} (hu0 : 0 ≤ u) (hu : u ≤ 1/1024)
    (hR : 0 < R) (hM : 1 ≤ M) (ht0 : 0 ≤ t) (htM : t ≤ M) (hk0 : 0 ≤ k)
    (hkt : |(k : ℚ) - t| ≤ 1/2 + t * ((81/16) * u) + u / 2)
    (hQ : |Q - 1| ≤ (41/10) * u) :
    |(k : ℚ) * (R / M) * Q - t * (R / M)| ≤ R / (2 * M) + (47/4) * u * R := by
  have hM0 : 0 < M := by linarith
  have hk0' : (0:ℚ) ≤ k := by exact_mod_cast hk0
  obtain ⟨l, r⟩ := abs_le.mp hkt
  have hkup : (k:ℚ) ≤ t + (1/2 + t * ((81/16) * u) + u / 2) := by linarith
  have b2 : |(k:ℚ) * (Q - 1)| ≤ (t + (1/2 + t * ((81/16) * u) + u / 2)) * ((41/10) * u) := by
    rw [abs_mul, abs_of_nonneg hk0']
    exact mul_le_mul hkup hQ (abs_nonneg _) (by nlinarith)
  have hq : u * u ≤ u * (1/1024) := mul_le_mul_of_nonneg_left hu hu0
  have hB : |((k:ℚ) - t) + (k:ℚ) * (Q - 1)| ≤ 1/2 + M * ((47/4) * u) := by
    have h3 := abs_add_le ((k:ℚ) - t) ((k:ℚ) * (Q - 1))
    -- coefficient of t
    have c1 : t * ((81/16) * u + (41/10) * u + (81/16) * u * ((41/10) * u))
        ≤ M * ((81/16) * u + (41/10) * u + (81/16) * u * ((41/10) * u)) :=
      mul_le_mul_of_nonneg_right htM (by nlinarith)
    have c2 : (u / 2 + (1/2) * ((41/10) * u) + (u / 2) * ((41/10) * u))
        ≤ M * (u / 2 + (1/2) * ((41/10) * u) + (u / 2) * ((41/10) * u)) := by
      have : 0 ≤ u / 2 + (1/2) * ((41/10) * u) + (u / 2) * ((41/10) * u) := by nlinarith
      nlinarith
    have c3 : ((81/16) * u + (41/10) * u + (81/16) * u * ((41/10) * u))
        + (u / 2 + (1/2) * ((41/10) * u) + (u / 2) * ((41/10) * u)) ≤ (47/4) * u := by
      nlinarith
    have c4 := mul_le_mul_of_nonneg_left c3 hM0.le
    nlinarith
  have e : (k : ℚ) * (R / M) * Q - t * (R / M)
      = (R / M) * (((k:ℚ) - t) + (k:ℚ) * (Q - 1)) := by ring
  rw [e, abs_mul, abs_of_pos (div_pos hR hM0)]
  calc R / M * |((k:ℚ) - t) + (k:ℚ) * (Q - 1)| ≤ R / M * (1/2 + M * ((47/4) * u)) :=
        mul_le_mul_of_nonneg_left hB (div_pos hR hM0).le
    _ = R / (2 * M) + (47/4) * u * R := by field_simp

/-- upper bound of the dequantized offset; uses integrality of `k` and `M` -/
theorem dec_upper {t M R u Q : ℚ} {k n : Int} (hu0 : 0 ≤ u) (hu : u ≤ 1/1024)
    (hR : 0 < R) (hM : 1 ≤ M) (hMn : M = n) (htM : t ≤ M) (hk0 : 0 ≤ k)
    (hkt : |(k : ℚ) - t| ≤ 1/2 + t * ((81/16) * u) + u / 2)
    (hQ : |Q - 1| ≤ (41/10) * u) :
    0 ≤ (k : ℚ) * (R / M) * Q ∧ (k : ℚ) * (R / M) * Q ≤ R + (143/10) * u * R := by
  have hM0 : 0 < M := by linarith
  have hk0' : (0:ℚ) ≤ k := by exact_mod_cast hk0
  have hy : 0 < R / M := div_pos hR hM0
  have hyM : R / M * M = R := by field_simp
  obtain ⟨ql, qr⟩ := abs_le.mp hQ
  have hQ0 : 0 ≤ Q := by nlinarith
  have hky : 0 ≤ (k:ℚ) * (R / M) := mul_nonneg hk0' hy.le
  refine ⟨mul_nonneg hky hQ0, ?_⟩
  have hQu : Q ≤ 1 + (41/10) * u := by linarith
  have hq : u * u ≤ u * (1/1024) := mul_le_mul_of_nonneg_left hu hu0
  have huR : 0 ≤ u * R := mul_nonneg hu0 hR.le
  have huuR : u * u * R ≤ u * (1/1024) * R := mul_le_mul_of_nonneg_right hq hR.le
  have step1 : (k:ℚ) * (R / M) * Q ≤ (k:ℚ) * (R / M) * (1 + (41/10) * u) :=
    mul_le_mul_of_nonneg_left hQu hky
  by_cases hkn : k ≤ n
  · have hkM : (k:ℚ) ≤ M := by rw [hMn]; exact_mod_cast hkn
    have h1 : (k:ℚ) * (R / M) ≤ R := by
      have := mul_le_mul_of_nonneg_right hkM hy.le
      linarith
    have h2 : (k:ℚ) * (R / M) * (1 + (41/10) * u) ≤ R * (1 + (41/10) * u) :=
      mul_le_mul_of_nonneg_right h1 (by linarith)
    nlinarith
  · have hkn' : n + 1 ≤ k := by omega
    have hkM : M + 1 ≤ (k:ℚ) := by rw [hMn]; exact_mod_cast hkn'
    obtain ⟨_, r⟩ := abs_le.mp hkt
    have htu : t * ((81/16) * u) ≤ M * ((81/16) * u) :=
      mul_le_mul_of_nonneg_right htM (by linarith)
    -- k ≤ M (1 + e5) + 1/2 + u/2
    have hkub : (k:ℚ) ≤ M + M * ((81/16) * u) + 1/2 + u / 2 := by linarith
    -- hence M u is not small: 1/2 - u/2 ≤ M e5
    have hMu : 1023/2048 ≤ M * ((81/16) * u) := by linarith
    -- R / M ≤ c u R with c = (81/16) * (2048/1023)
    have hyb : R / M ≤ (81/16) * (2048/1023) * u * R := by
      rw [div_le_iff₀ hM0]
      have := mul_le_mul_of_nonneg_left hMu hR.le
      nlinarith
    have h1 : (k:ℚ) * (R / M) ≤ (M + M * ((81/16) * u) + 1/2 + u / 2) * (R / M) :=
      mul_le_mul_of_nonneg_right hkub hy.le
    have e1 : (M + M * ((81/16) * u) + 1/2 + u / 2) * (R / M)
        = R + (81/16) * u * R + (1/2 + u / 2) * (R / M) := by
      have : M * (R / M) = R := by field_simp
      calc (M + M * ((81/16) * u) + 1/2 + u / 2) * (R / M)
          = M * (R / M) + (81/16) * u * (M * (R / M)) + (1/2 + u / 2) * (R / M) := by ring
        _ = _ := by rw [this]
    have h3 : (1/2 + u / 2) * (R / M) ≤ (1/2 + u / 2) * ((81/16) * (2048/1023) * u * R) :=
      mul_le_mul_of_nonneg_left hyb (by linarith)
    -- A := k (R/M) ≤ R + a1 u R  with a1 = 81/16 + (1/2+u/2) c ≤ 10.14
    have hA : (k:ℚ) * (R / M) ≤ R + (1015/100) * u * R := by
      nlinarith
    have h4 : (k:ℚ) * (R / M) * (1 + (41/10) * u)
        ≤ (R + (1015/100) * u * R) * (1 + (41/10) * u) :=
      mul_le_mul_of_nonneg_right hA (by linarith)
    nlinarith

/-- last rounding (`value + min_values_[c]`) and collection of the bounds -/
theorem final_core {x m R M u d δ8 mag : ℚ} (hu0 : 0 ≤ u) (hu : u ≤ 1/1024)
    (hR : 0 < R) (hM : 1 ≤ M) (hδ8 : |δ8| ≤ u)
    (hx : |x| ≤ mag) (hRm : R ≤ mag)
    (hd : |d - (x - m)| ≤ R / (2 * M) + (47/4) * u * R)
    (hd0 : 0 ≤ d) (hdu : d ≤ R + (143/10) * u * R) :
    |(d + m) * (1 + δ8) - x| ≤ R / (2 * M) + 14 * u * mag
    ∧ m - 16 * u * mag ≤ (d + m) * (1 + δ8)
    ∧ (d + m) * (1 + δ8) ≤ m + R + 16 * u * mag := by
  have hM0 : 0 < M := by linarith
  have hH : R / (2 * M) ≤ R / 2 := by
    rw [div_le_div_iff₀ (by linarith) (by norm_num)]; nlinarith
  have hH0 : 0 ≤ R / (2 * M) := by positivity
  have hmag : 0 ≤ mag := le_trans (abs_nonneg _) hx
  have hq : u * u ≤ u * (1/1024) := mul_le_mul_of_nonneg_left hu hu0
  have huR : u * R ≤ u * mag := mul_le_mul_of_nonneg_left hRm hu0
  have hux : u * |x| ≤ u * mag := mul_le_mul_of_nonneg_left hx hu0
  have huuR : u * u * R ≤ u * (1/1024) * mag := by
    calc u * u * R ≤ u * (1/1024) * R := mul_le_mul_of_nonneg_right hq hR.le
      _ ≤ u * (1/1024) * mag := mul_le_mul_of_nonneg_left hRm (by nlinarith)
  have huR0 : 0 ≤ u * R := mul_nonneg hu0 hR.le
  -- |d + m| ≤ |d - a| + |x|
  have hdm : |d + m| ≤ R / 2 + (47/4) * u * R + |x| := by
    have e : d + m = (d - (x - m)) + x := by ring
    rw [e]
    linarith [abs_add_le (d - (x - m)) x]
  have hr : |(d + m) * δ8| ≤ (R / 2 + (47/4) * u * R + |x|) * u := by
    rw [abs_mul]
    exact mul_le_mul hdm hδ8 (abs_nonneg _) (by positivity)
  have hr2 : (R / 2 + (47/4) * u * R + |x|) * u ≤ (152/100) * u * mag := by
    nlinarith
  have hrr := le_trans hr hr2
  obtain ⟨rl, rr⟩ := abs_le.mp hrr
  have eout : (d + m) * (1 + δ8) = (d + m) + (d + m) * δ8 := by ring
  refine ⟨?_, ?_, ?_⟩
  · have e : (d + m) * (1 + δ8) - x = (d - (x - m)) + (d + m) * δ8 := by ring
    rw [e]
    have := abs_add_le (d - (x - m)) ((d + m) * δ8)
    nlinarith
  · rw [eout]; nlinarith
  · rw [eout]; nlinarith

/-! ### from the oracle to the core lemmas -/

section oracle
variable (ops : FloatOps ℚ) {u : ℚ} (hm : RoundingModel ops u)
include hm

/-- `quantize` under the rounding model: the result is within
    `1/2 + t·(81/16)u + u/2` of the exact scaled value `t = (x - min)·M/R`. -/
theorem quantize_unpack (hu0 : 0 ≤ u) (hu : u ≤ 1/1024) (p : QParams ℚ) (q c : Nat) (x : ℚ)
    (hq : 1 ≤ q) (hR : 0 < p.range)
    (hx1 : @minOf ℚ ops p c ≤ x) (hx2 : x ≤ @minOf ℚ ops p c + p.range) :
    ∃ t : ℚ, t = (x - @minOf ℚ ops p c) * (((2:ℚ)^q - 1) / p.range) ∧ 0 ≤ t ∧
      t ≤ (2:ℚ)^q - 1 ∧ 0 ≤ @quantize ℚ ops p q c x ∧
      |((@quantize ℚ ops p q c x : Int) : ℚ) - t| ≤ 1/2 + t * ((81/16) * u) + u / 2 := by
  set m := @minOf ℚ ops p c with hmdef
  have hk : @quantize ℚ ops p q c x
      = ops.floorToInt (ops.add (ops.mul (ops.sub x m)
          (ops.div (ops.ofInt (maxQuantizedValue q)) p.range)) ops.half) := rfl
  obtain ⟨δ0, h0, e0⟩ := hm.ofInt (maxQuantizedValue q)
  obtain ⟨δ1, h1, e1⟩ := hm.sub x m
  obtain ⟨δ2, h2, e2⟩ := hm.div (ops.ofInt (maxQuantizedValue q)) p.range hR.ne'
  obtain ⟨δ3, h3, e3⟩ := hm.mul (ops.sub x m) (ops.div (ops.ofInt (maxQuantizedValue q)) p.range)
  obtain ⟨δ4, h4, e4⟩ := hm.add (ops.mul (ops.sub x m)
      (ops.div (ops.ofInt (maxQuantizedValue q)) p.range)) ops.half
  rw [hk, hm.floor, e4, e3, e2, e1, e0, hm.half, maxQ_cast]
  have hM := maxQ_ge_one hq
  obtain ⟨a, b, c', d⟩ := enc_core (x := x) (m := m) (R := p.range) (M := (2:ℚ)^q - 1)
    hu0 hu hR hM hx1 hx2 h0 h1 h2 h3 h4 rfl rfl
  obtain ⟨f1, f2⟩ := floor_core c' d
  exact ⟨_, rfl, a, b, f1, f2⟩

/-- `dequantize` under the rounding model: `(k·(R/M)·Q + min)(1+δ)` with `|Q-1| ≤ 4.1u` -/
theorem dequantize_unpack (hu0 : 0 ≤ u) (hu : u ≤ 1/1024) (p : QParams ℚ) (q c : Nat) (k : Int)
    (hq : 1 ≤ q) :
    ∃ Q δ8 : ℚ, |Q - 1| ≤ (41/10) * u ∧ |δ8| ≤ u ∧
      @dequantize ℚ ops p q c k
        = ((k:ℚ) * (p.range / ((2:ℚ)^q - 1)) * Q + @minOf ℚ ops p c) * (1 + δ8) := by
  set m := @minOf ℚ ops p c with hmdef
  have hd : @dequantize ℚ ops p q c k
      = ops.add (ops.mul (ops.ofInt k) (ops.div p.range (ops.ofInt (maxQuantizedValue q)))) m :=
    rfl
  have hM := maxQ_ge_one hq
  obtain ⟨δ0, h0, e0⟩ := hm.ofInt (maxQuantizedValue q)
  have p0 := one_add_pos hu h0
  have hne : ops.ofInt (maxQuantizedValue q) ≠ 0 := by
    rw [e0, maxQ_cast]
    exact mul_ne_zero (by linarith) (by linarith)
  obtain ⟨δ5, h5, e5⟩ := hm.div p.range (ops.ofInt (maxQuantizedValue q)) hne
  obtain ⟨δ6, h6, e6⟩ := hm.ofInt k
  obtain ⟨δ7, h7, e7⟩ := hm.mul (ops.ofInt k) (ops.div p.range (ops.ofInt (maxQuantizedValue q)))
  obtain ⟨δ8, h8, e8⟩ := hm.add
    (ops.mul (ops.ofInt k) (ops.div p.range (ops.ofInt (maxQuantizedValue q)))) m
  refine ⟨(1 + δ6) * (1 + δ5) * (1 + δ7) * (1 / (1 + δ0)), δ8, prodQ hu0 hu h6 h5 h7 h0, h8, ?_⟩
  rw [hd, e8, e7, e6, e5, e0, maxQ_cast]
  have h1 : (1 + δ0) ≠ 0 := by linarith
  have h2 : ((2:ℚ)^q - 1) ≠ 0 := by linarith
  congr 2
  field_simp

/-- All bounds of the float theorem, with an arbitrary magnitude bound `mag`. -/
theorem float_half_step_aux (hu0 : 0 ≤ u) (hu : u ≤ 1/1024) (p : QParams ℚ) (q c : Nat)
    (x mag : ℚ) (hq : 1 ≤ q) (hR : 0 < p.range)
    (hx1 : @minOf ℚ ops p c ≤ x) (hx2 : x ≤ @minOf ℚ ops p c + p.range)
    (hxm : |x| ≤ mag) (hRm : p.range ≤ mag) :
    0 ≤ @quantize ℚ ops p q c x ∧
    |@dequantize ℚ ops p q c (@quantize ℚ ops p q c x) - x|
        ≤ p.range / (2 * ((2:ℚ)^q - 1)) + 14 * u * mag ∧
    @minOf ℚ ops p c - 16 * u * mag ≤ @dequantize ℚ ops p q c (@quantize ℚ ops p q c x) ∧
    @dequantize ℚ ops p q c (@quantize ℚ ops p q c x)
        ≤ @minOf ℚ ops p c + p.range + 16 * u * mag := by
  obtain ⟨t, ht, ht0, htM, hk0, hkt⟩ := quantize_unpack ops hm hu0 hu p q c x hq hR hx1 hx2
  obtain ⟨Q, δ8, hQ, h8, hd⟩ :=
    dequantize_unpack ops hm hu0 hu p q c (@quantize ℚ ops p q c x) hq
  have hM := maxQ_ge_one hq
  have hM0 : (0:ℚ) < (2:ℚ)^q - 1 := by linarith
  have hMn : (2:ℚ)^q - 1 = ((maxQuantizedValue q : Int) : ℚ) := (maxQ_cast q).symm
  have hta : t * (p.range / ((2:ℚ)^q - 1)) = x - @minOf ℚ ops p c := by
    rw [ht]; field_simp
  have c1 := dec_core hu0 hu hR hM ht0 htM hk0 hkt hQ
  rw [hta] at c1
  obtain ⟨c2, c3⟩ := dec_upper hu0 hu hR hM hMn htM hk0 hkt hQ
  obtain ⟨r1, r2, r3⟩ := final_core (x := x) (m := @minOf ℚ ops p c) hu0 hu hR hM h8 hxm hRm
    c1 c2 c3
  rw [hd]
  exact ⟨hk0, r1, r2, r3⟩

/-- for small `q` (`16·M·u ≤ 1`, i.e. `q ≤ 20` when `u = 2^-24`) the quantized value stays in
    `[0, 2^q - 1]`; for large `q` it does not in general (the real code yields `2^q` already at
    `q = 23`). -/
theorem float_quantize_le (hu0 : 0 ≤ u) (hu : u ≤ 1/1024) (p : QParams ℚ) (q c : Nat)
    (x : ℚ) (hq : 1 ≤ q) (hR : 0 < p.range)
    (hx1 : @minOf ℚ ops p c ≤ x) (hx2 : x ≤ @minOf ℚ ops p c + p.range)
    (hMu : 16 * ((2:ℚ)^q - 1) * u ≤ 1) :
    @quantize ℚ ops p q c x ≤ maxQuantizedValue q := by
  obtain ⟨t, _, ht0, htM, _, hkt⟩ := quantize_unpack ops hm hu0 hu p q c x hq hR hx1 hx2
  obtain ⟨_, r⟩ := abs_le.mp hkt
  have htu : t * ((81/16) * u) ≤ ((2:ℚ)^q - 1) * ((81/16) * u) :=
    mul_le_mul_of_nonneg_right htM (by linarith)
  have h1 : ((@quantize ℚ ops p q c x : Int) : ℚ) < ((maxQuantizedValue q : Int) : ℚ) + 1 := by
    rw [maxQ_cast]; nlinarith
  have : @quantize ℚ ops p q c x < maxQuantizedValue q + 1 := by exact_mod_cast h1
  omega

end oracle

end Quant
end Draco
