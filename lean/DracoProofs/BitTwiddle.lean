import DracoProofs.RansBit
import Mathlib.Tactic.IntervalCases
/-
  bit_utils.h: `ReverseBits32` reverses, `CopyBits32` copies; consequences for
  `RAnsBitEncoder::EncodeLeastSignificantBits32`.
-/
namespace Draco

theorem mask1 : ∀ j < 64, Nat.testBit 0x55555555 j = decide (j < 32 ∧ j % 2 = 0) := by decide
theorem mask2 : ∀ j < 64, Nat.testBit 0x33333333 j = decide (j < 32 ∧ j % 4 < 2) := by decide
theorem mask4 : ∀ j < 64, Nat.testBit 0x0F0F0F0F j = decide (j < 32 ∧ j % 8 < 4) := by decide
theorem mask8 : ∀ j < 64, Nat.testBit 0x00FF00FF j = decide (j < 32 ∧ j % 16 < 8) := by decide

theorem testBit_hi {v k : Nat} (hv : v < 2^k) (j : Nat) (hj : k ≤ j) : v.testBit j = false :=
  Nat.testBit_lt_two_pow (Nat.lt_of_lt_of_le hv (Nat.pow_le_pow_right (by decide) hj))

/-- `ReverseBits32` mirrors the 32 bits -/
theorem reverseBits32_testBit (v : Nat) (hv : v < 2^32) (i : Nat) (hi : i < 32) :
    (reverseBits32 v).testBit i = v.testBit (31 - i) := by
  unfold reverseBits32
  simp only [Nat.testBit_or, Nat.testBit_and, Nat.testBit_shiftRight, Nat.testBit_shiftLeft,
    Nat.testBit_mod_two_pow]
  interval_cases i <;> simp [mask1, mask2, mask4, mask8, testBit_hi hv]

theorem getElem_bitsOf (n : Nat) : ∀ (w j : Nat) (h : j < (bitsOf n w).length),
    (bitsOf n w)[j] = w.testBit j := by
  induction n with
  | zero => intro w j h; simp [bitsOf] at h
  | succ n ih =>
    intro w j h
    cases j with
    | zero =>
      simp only [bitsOf, List.getElem_cons_zero, Nat.testBit_zero]
      rcases Nat.mod_two_eq_zero_or_one w with h0 | h0 <;> simp [h0]
    | succ j =>
      simp only [bitsOf, List.getElem_cons_succ]
      rw [ih (w / 2) j (by simpa [bitsOf] using h), Nat.testBit_succ]

theorem bitsOf_ext (n a b : Nat) (h : ∀ j < n, a.testBit j = b.testBit j) :
    bitsOf n a = bitsOf n b := by
  apply List.ext_getElem (by simp [bitsOf_length])
  intro j h1 h2
  rw [getElem_bitsOf, getElem_bitsOf]
  exact h j (by simpa [bitsOf_length] using h1)

theorem bitsOf_mod (n a : Nat) : bitsOf n (a % 2^n) = bitsOf n a := by
  apply bitsOf_ext
  intro j hj
  simp [Nat.testBit_mod_two_pow, hj]

/-- the word `reversed` of `EncodeLeastSignificantBits32` holds the bits of `value`,
    most significant first -/
theorem reversed_bits (n v : Nat) (hn1 : 1 ≤ n) (hn : n ≤ 32) (hv : v < 2^32) :
    bitsOf n (reverseBits32 v >>> (32 - n)) = msbBits n v := by
  rw [msbBits_eq_reverse]
  apply List.ext_getElem (by simp [bitsOf_length])
  intro j h1 h2
  have hj : j < n := by simpa [bitsOf_length] using h1
  rw [getElem_bitsOf, List.getElem_reverse, getElem_bitsOf, Nat.testBit_shiftRight,
    reverseBits32_testBit v hv _ (by omega)]
  congr 1
  simp only [bitsOf_length]
  omega

/-- `CopyBits32` into a word whose bits from `off` upwards are still clear -/
theorem copyBits32_spec (dst off src so k : Nat) (hd : dst < 2^off) (hk : 1 ≤ k)
    (hok : off + k ≤ 32) :
    copyBits32 dst off src so k = dst + 2^off * ((src >>> so) % 2^k) := by
  have hF : (0xFFFFFFFF : Nat) = 2^32 - 1 := by decide
  rw [Nat.add_comm]
  apply Nat.eq_of_testBit_eq
  intro i
  rw [Nat.testBit_two_pow_mul_add _ hd]
  unfold copyBits32
  simp only [hF, Nat.testBit_or, Nat.testBit_and, Nat.testBit_xor, Nat.testBit_shiftRight,
    Nat.testBit_shiftLeft, Nat.testBit_mod_two_pow, Nat.testBit_two_pow_sub_one]
  by_cases h1 : i < off
  · have : i < 32 := by omega
    have h2 : ¬ i ≥ off := by omega
    simp [h1, h2, this]
  · by_cases h2 : i < off + k
    · have h3 : i < 32 := by omega
      have h4 : i ≥ off := by omega
      have h5 : 32 - k + (i - off) < 32 := by omega
      have h6 : i - off < k := by omega
      simp [h1, h3, h4, h5, h6]
    · have hdst : dst.testBit i = false := testBit_hi hd i (by omega)
      have h4 : i ≥ off := by omega
      have h5 : ¬ 32 - k + (i - off) < 32 := by omega
      have h6 : ¬ i - off < k := by omega
      simp [h1, h4, h5, h6, hdst]

theorem bitsOf_take (k : Nat) : ∀ (n w : Nat), k ≤ n → (bitsOf n w).take k = bitsOf k w := by
  induction k with
  | zero => intro n w _; simp [bitsOf]
  | succ k ih =>
    intro n w h
    cases n with
    | zero => omega
    | succ n => simp [bitsOf, ih n (w / 2) (by omega)]

theorem pow_mul_lt (a b x y : Nat) (hx : x < 2^a) (hy : y < 2^b) : x + 2^a * y < 2^(a + b) := by
  have h1 : 2^a * y + 2^a ≤ 2^a * 2^b := by
    have : y + 1 ≤ 2^b := hy
    calc 2^a * y + 2^a = 2^a * (y + 1) := by ring
      _ ≤ 2^a * 2^b := Nat.mul_le_mul_left _ this
  rw [Nat.pow_add]
  omega

theorem RAnsBitEnc.encodeLsb32_spec (e : RAnsBitEnc) (n v : Nat) (he : e.Inv)
    (hn1 : 1 ≤ n) (hn : n ≤ 32) (hv : v < 2^32) :
    (e.encodeLsb32 n v).flat = e.flat ++ msbBits n v ∧ (e.encodeLsb32 n v).Inv := by
  obtain ⟨c0, c1, words, loc, num⟩ := e
  obtain ⟨hnum, hloc⟩ := he
  simp only at hnum hloc
  have hR := reversed_bits n v hn1 hn hv
  unfold RAnsBitEnc.encodeLsb32
  simp only
  generalize reverseBits32 v >>> (32 - n) = R at *
  generalize countOneBits32 R = ones
  by_cases hfit : n ≤ 32 - num
  · simp only [hfit, if_true]
    rw [copyBits32_spec loc num R 0 n hloc hn1 (by omega), Nat.shiftRight_zero]
    have hbits : bitsOf (num + n) (loc + 2^num * (R % 2^n)) = bitsOf num loc ++ msbBits n v := by
      rw [bitsOf_add_pow num n loc _ hloc, bitsOf_mod, hR]
    by_cases h32 : num + n = 32
    · simp only [h32, if_true]
      refine ⟨?_, by simp [RAnsBitEnc.Inv]⟩
      rw [flat_push]
      simp only [RAnsBitEnc.flat, List.append_assoc]
      rw [← h32, hbits]
    · simp only [h32, if_false]
      refine ⟨?_, ?_⟩
      · simp only [RAnsBitEnc.flat, List.append_assoc, hbits]
      · simp only [RAnsBitEnc.Inv]
        exact ⟨by omega, pow_mul_lt num n loc _ hloc (Nat.mod_lt _ (Nat.pow_pos (by decide)))⟩
  · simp only [hfit, if_false]
    have hrem1 : 1 ≤ 32 - num := by omega
    rw [copyBits32_spec loc num R 0 (32 - num) hloc hrem1 (by omega), Nat.shiftRight_zero,
      copyBits32_spec 0 0 R (32 - num) (n - (32 - num)) (by simp) (by omega) (by omega)]
    simp only [Nat.pow_zero, Nat.one_mul, Nat.zero_add]
    refine ⟨?_, ?_⟩
    · simp only [RAnsBitEnc.flat, List.reverse_cons, List.flatMap_append, List.flatMap_cons,
        List.flatMap_nil, List.append_nil, List.append_assoc]
      have e32 : bitsOf 32 (loc + 2^num * (R % 2^(32 - num))) =
          bitsOf num loc ++ bitsOf (32 - num) R := by
        have := bitsOf_add_pow num (32 - num) loc (R % 2^(32 - num)) hloc
        rw [show num + (32 - num) = 32 by omega] at this
        rw [this, bitsOf_mod]
      rw [e32, bitsOf_mod, Nat.shiftRight_eq_div_pow, ← bitsOf_drop, ← bitsOf_take (32 - num) n R (by omega),
        ← hR]
      simp only [List.append_assoc, List.take_append_drop]
    · simp only [RAnsBitEnc.Inv]
      exact ⟨by omega, Nat.mod_lt _ (Nat.pow_pos (by decide))⟩

theorem RAnsBitEnc.op_spec (e : RAnsBitEnc) (op : BitOp) (he : e.Inv) (hop : op.Valid) :
    (e.op op).flat = e.flat ++ op.bits ∧ (e.op op).Inv := by
  cases op with
  | bit b => exact RAnsBitEnc.encodeBit_spec e b he
  | lsb32 n v => exact RAnsBitEnc.encodeLsb32_spec e n v he hop.1 hop.2.1 hop.2.2

theorem RAnsBitEnc.foldl_op_spec : ∀ (ops : List BitOp) (e : RAnsBitEnc), e.Inv →
    (∀ op ∈ ops, op.Valid) →
    (ops.foldl RAnsBitEnc.op e).flat = e.flat ++ opsBits ops ∧ (ops.foldl RAnsBitEnc.op e).Inv := by
  intro ops
  induction ops with
  | nil => intro e he _; simp [opsBits, he]
  | cons op ops ih =>
    intro e he hv
    obtain ⟨s1, s2⟩ := RAnsBitEnc.op_spec e op he (hv op (by simp))
    obtain ⟨r1, r2⟩ := ih (e.op op) s2 (fun o ho => hv o (by simp [ho]))
    rw [List.foldl_cons]
    refine ⟨?_, r2⟩
    rw [r1, s1]
    simp [opsBits]

/-- RAnsBitEncoder / RAnsBitDecoder round trip -/
theorem ransBit_decode_encode (tab : List (Nat × Nat)) (hd : DivOK tab) (zpr : Nat → Nat → Nat)
    (ops : List BitOp) (hv : ∀ op ∈ ops, op.Valid) (hlen : (opsBits ops).length + 3 < 2^32)
    (rest : Bytes) :
    ransBitDecode false (ops.map BitOp.req) (ransBitEncode tab zpr ops ++ rest) =
      some (ops.map BitOp.value, rest) := by
  obtain ⟨f1, _⟩ := RAnsBitEnc.foldl_op_spec ops RAnsBitEnc.start RAnsBitEnc.start_inv hv
  rw [RAnsBitEnc.start_flat, List.nil_append] at f1
  unfold ransBitEncode
  generalize ops.foldl RAnsBitEnc.op RAnsBitEnc.start = e at f1 ⊢
  obtain ⟨d, h1, h2⟩ := ransBit_start_finish tab hd zpr e (by rw [f1]; exact hlen) rest
  rw [ransBitDecode_of_start false _ _ rest d h1]
  have hy : Yields RAnsBitDec.nextBit d (opsBits ops ++ []) := by rw [List.append_nil, ← f1]; exact h2
  obtain ⟨r1, _⟩ := runReqs_std RAnsBitDec.nextBit RAnsBitDec.req ransBit_stdStep ops d [] [] hv hy
  simp only [r1, List.reverse_nil, List.nil_append]

end Draco
