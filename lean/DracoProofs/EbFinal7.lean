import DracoProofs.EbFinal6
import DracoProofs.EbParentStruct
/-
  The last evaluated input of `eb_roundtrip_of_link_base''`: `hvals`.

  For every item of a base-table controller `ValuesOK` is derived from the link:
  * kind 0 (raw values): the raw length, from the `TupleSetup` of the item (rows of the stride of the attribute, one per
    entry);
  * kinds 1–3 (value block): `runs_valueBlock_views_struct` with the view isomorphism (`baseIso_of_link`), `Hedge` and
    `OppInvol` of the decoder's view (from the encoder's created table through the isomorphism), the pair of traversal
    runs (`travRuns_of_run`), `outD.d2c.size = outD.pointIds.size` (traversal) and the encoder's own block run
    (`encodeItem_block`) DERIVED; what is NOT derived is collected per block in `BlockSideOK` / `ValueSideOK`.
-/
namespace Draco.EbEnc
open Draco Draco.SeqEnc DecM
open Draco.Eb hiding iabs nextC prevC

namespace Final7
open PosAgreeP Tuples FaceCorr PlanSettingP Final2 Final3 Final4 Final5 Final6 EncCounts

/-- **the side conditions of one value block that are NOT derived from the link** (the items the op's checker
    `valueBlockHypsIso` evaluates beyond the isomorphism / traversal part):
    * `numValues` — the attribute has values (`attribute()->size() ≠ 0`);
    * `kindOK` — the prediction scheme fits the encoder kind (`SchemeKindOK`);
    * `parent` — when the (effective) scheme reads the POSITION attribute: the parent data of both sides correspond
      (`ParentSetup` of EbPosAgree.lean for the position sequences, and the identification of the encoder's `ParentAtt` /
      the decoder's `Parent` with its maps and portable values);
    * `nc`, `n`, `len`, `h32` — component count, entry count, `portable.size = entries · components`, below `2^32`;
    * `range` — the portable values are int32;
    * `normals` — kind 3: canonical octahedral coordinates (`NormalsOK`);
    * `faces`, `corners` — `3 · numFaces + 3 < 2^31`, entries ≤ corners;
    * `crease` — constrained multi-parallelogram: the crease-flag counts (`CreaseCountOK`). -/
structure BlockSideOK (ch : EbChoices) (o : EncOpts) (b : ValueBlock) (dV : TView) (outD outE : SeqOut)
    (facesD facesE processed : Array Nat) (parentD : Option Parent) : Prop where
  numValues : b.numValues ≠ 0
  kindOK : SchemeKindOK b.kind b.scheme
  parent : (effectiveScheme b.scheme b.portable).needsParent = true →
    ∃ (a : Attribute) (np : Nat) (dB eB : TView) (ψB : Nat → Nat) (seqPD seqP : SeqOut) (npD : Nat)
      (portableP : Array Int) (pmap mapD : Array Nat) (pe : ParentAtt) (pd : Parent),
      ParentSetup a np facesE dB eB (phi processed) ψB seqPD seqP facesD npD outD outE portableP pmap mapD ∧
      b.parent = some pe ∧ pe.map = pmap ∧ pe.values = portableP ∧
      parentD = some pd ∧ pd.numComponents = 3 ∧ pd.intsOk = true ∧ pd.map = mapD ∧ pd.ints = portableP
  nc : 0 < b.nc
  n : 0 < outD.pointIds.size
  len : b.portable.size = outD.pointIds.size * b.nc
  h32 : outD.pointIds.size * b.nc < 2 ^ 32
  range : ∀ x ∈ b.portable.toList, -2 ^ 31 ≤ x ∧ x < 2 ^ 31
  normals : b.kind = 3 → NormalsOK o b.attId b.nc outD.pointIds.size b.portable
  faces : 3 * dV.numFaces + 3 < 2 ^ 31
  corners : outD.pointIds.size ≤ 3 * dV.numFaces
  crease : b.scheme = .constrainedMulti → CreaseCountOK ch b.attId b.nc ⟨dV, outD.d2c, outD.v2d⟩ b.portable

/-- `valuesOK_of_item` with the value-block run itself as the hypothesis (instead of the checker) -/
theorem valuesOK_of_item' (ch : EbChoices) (o : EbOpts) (g : Geometry) (e : Nat) (viewE : TView) (seqE : SeqOut)
    (parent : Option ParentAtt) (s : SeqEncSt) (pt : Array Int × Bytes) (it : EncItem)
    (h : encodeItem ch o g e ⟨viewE, seqE.d2c, seqE.v2d⟩ seqE.pointIds parent s pt = .ok it)
    (mesh : Mesh) (d : DecoderItem) (parentD : Option Parent)
    (hraw : s.kind = 0 → it.valueBytes.length =
      d.n * (dataTypeLength (g.atts.toArray[s.attId]!).dataType * (g.atts.toArray[s.attId]!).numComponents))
    (hrun : s.kind ≠ 0 → ∀ b, it.block = some b →
      Runs (decodeIntegerValuesEb b.kind d.seq.pointIds.size b.nc (descOf (g.atts.toArray[it.attId]!)).numComponents
        ⟨viewOfDecoder mesh d.dec, d.seq.d2c, d.seq.v2d⟩ d.seq.pointIds parentD) 514 b.bytes
        (b.portable, TransformData.none) 514) :
    ValuesOK mesh d parentD (itemOf o g.atts.toArray it) := by
  obtain ⟨hid, hkind⟩ := encodeItem_ids ch o g e _ _ _ _ _ _ h
  constructor
  · intro h0
    show it.valueBytes.length = d.n * (dataTypeLength (descOf _).dataType * (descOf _).numComponents)
    rw [hid]
    exact hraw (by rw [← hkind]; exact h0)
  · intro hne
    have hne' : s.kind ≠ 0 := by rw [← hkind]; exact hne
    obtain ⟨b, hb, b1, b2, b3, b4, b5, b6, b7, b8, b9, b10⟩ := encodeItem_block ch o g e _ _ _ _ _ _ h hne'
    have := hrun hne' b hb
    show Runs (decodeIntegerValuesEb it.kind d.n (if it.kind == 3 then 2 else (descOf _).numComponents)
      (descOf _).numComponents _ _ _) 514 it.valueBytes (it.portable, TransformData.none) 514
    rw [b9, b8, ← b7, hkind, ← b2]
    have hnc : (if b.kind == 3 then 2 else (descOf (g.atts.toArray[it.attId]!)).numComponents) = b.nc := by
      rw [b3, b2, hid]; rfl
    rw [hnc]
    exact this

/-- the `encodeItem` call that produced the `k`-th item of a controller output -/
theorem item_call (ch : EbChoices) (o : EbOpts) (g : Geometry) (conn : ConnEnc) (cs : Array Controller) (anp : Bool)
    (posId : Option Nat) (e : Nat) (p : Option ParentAtt) (c : CtrlOut)
    (h : encodeController ch o g conn cs anp posId e p = .ok c) (k : Nat) (hk : k < c.items.size) :
    ∃ s pt, encodeItem ch o g e ⟨c.view, c.seq.d2c, c.seq.v2d⟩ c.seq.pointIds c.parent s pt = .ok c.items[k] := by
  obtain ⟨pts, items, _, _, hpts, hitems, hci, hctrl⟩ := encodeController_spec ch o g conn cs anp posId e p c h
  have hl := portablePass_length o g anp posId c.seq.pointIds _ p pts c.parent hpts
  obtain ⟨i1, i2⟩ := encodePass_spec ch o g e _ c.seq.pointIds c.parent _ pts items hl hitems
  have hk' : k < items.length := by rw [hci] at hk; simpa using hk
  have hks : k < (cs[e]!).encs.toList.length := by rw [← i1]; exact hk'
  have hkp : k < pts.length := by rw [hl]; exact hks
  have hitem := i2 k hks hkp hk'
  have hitk : c.items[k] = items[k] := by simp [hci]
  rw [hitk]
  exact ⟨_, _, hitem⟩

/-- **`ValuesOK` of an item of a base-table controller** from the link: raw length from the `TupleSetup` of the item's
    attribute; value block from `runs_valueBlock_views_struct` + `BlockSideOK` -/
theorem valuesOK_base_item (ch : EbChoices) (g : Geometry) (md : Option GeometryMetadata) (o : EbOpts) (enc : Encoded)
    (henc : encodeEdgebreaker ch g md o = .ok enc) (mesh : Mesh)
    (hiso : CTIso enc.conn.ct enc.conn.processed mesh.numFaces mesh.c2v mesh.opp) (hD : DecBaseOK enc mesh)
    (sides : List (SeqOut × Array Nat))
    (hruns : ∀ c side, (c, side) ∈ enc.couts.toList.zip sides →
      SideRuns mesh (decOfController enc.conn (enc.controllers[c.ctrl]!)) side)
    (c : CtrlOut) (side : SeqOut × Array Nat) (hz : (c, side) ∈ enc.couts.toList.zip sides)
    (hoff : (enc.controllers[c.ctrl]!).onAttTable = false)
    (k : Nat) (hk : k < c.items.size) (parentD : Option Parent)
    (hts : ∃ (dC : TView) (ψC : Nat → Nat) (np npD : Nat),
      TupleSetup (g.atts.toArray[c.items[k].attId]!) np (flattenFaces g.faces).toArray mesh.faces npD dC c.view
        (phi enc.conn.processed) ψC side.1 c.seq side.2)
    (hside : c.items[k].kind ≠ 0 → ∀ b, c.items[k].block = some b →
      BlockSideOK ch o.base b (baseViewD mesh.numFaces mesh.c2v mesh.opp mesh.vc) side.1 c.seq mesh.faces
        (flattenFaces g.faces).toArray enc.conn.processed parentD) :
    ValuesOK mesh (decoderItemOf o g.atts.toArray enc.conn enc.controllers c side) parentD
      (itemOf o g.atts.toArray c.items[k]) := by
  have hc : c ∈ enc.couts.toList := (List.of_mem_zip hz).1
  obtain ⟨hview, hpv⟩ := ctrl_base_off ch g md o enc henc c hc hoff
  obtain ⟨posFaces, acv, table, _, hcreate, hct, _⟩ := table_of_run ch g md o enc henc
  have hB := baseIso_of_link ch g md o enc henc mesh hiso hD
  have hB' := hB
  rw [hct] at hB'
  have hg : Hedge (baseViewD mesh.numFaces mesh.c2v mesh.opp mesh.vc) := Hedge.of_iso_hedge hB' (hedge_ofTable hcreate)
  have hinvol : OppInvol (baseViewD mesh.numFaces mesh.c2v mesh.opp mesh.vc) :=
    OppInvol.of_iso hB' (oppInvol_ofTable hcreate)
  obtain ⟨v2dSize, htrav⟩ := travRuns_of_run ch g md o enc henc mesh sides hruns c side hz
  rw [viewOfDecoder_base mesh _ hpv, hview] at htrav
  have hdsz : side.1.d2c.size = side.1.pointIds.size := by
    obtain ⟨fvD, vvD, fvE, vvE, hco, _, _⟩ := travCore_of_runs hB enc.conn.processed _ v2dSize hiso.faces.symm
      (fun i _ => (phi_three enc.conn.processed i).symm) mesh.faces _ side.1 c.seq htrav
    exact hco.pidD.1.symm
  -- the encoder's call
  obtain ⟨e, p', hrun⟩ : ∃ e p', encodeController ch o g enc.conn enc.controllers
      (enc.controllers.any fun c => c.encs.any fun s => s.scheme.needsParent)
      (namedAttributeId g.atts.toArray posType) e p' = .ok c := by
    obtain ⟨mdBytes, coder, posFaces, acv, cs, couts, h1, h2, h3, h4, h5, h6, h7, h8, h9, h10, _⟩ :=
      (encodeEdgebreaker_stages ch g md o enc henc).stages
    have hchain := encodeControllers_chain ch o g enc.conn cs _ _ _ _ _ h8
    have hc' : c ∈ couts := by rw [h10] at hc; simpa using hc
    obtain ⟨e, p', _, hr⟩ := chain_mem hchain c hc'
    exact ⟨e, p', by rw [h9]; exact hr⟩
  obtain ⟨s, pt, hcall⟩ := item_call ch o g enc.conn enc.controllers _ _ e p' c hrun k hk
  obtain ⟨hid, hkind⟩ := encodeItem_ids ch o g e _ _ _ _ _ _ hcall
  refine valuesOK_of_item' ch o g e c.view c.seq c.parent s pt c.items[k] hcall mesh _ parentD ?_ ?_
  · -- raw length
    intro h0
    obtain ⟨rows, hr, hv⟩ := (encodeItem_vals ch o g e _ _ _ _ _ _ hcall).1 h0
    obtain ⟨dC, ψC, np, npD, ht⟩ := hts
    rw [← hid] at hr ⊢
    obtain ⟨r1, _, r3⟩ := rows_uniform ht hr
    rw [hv, flatten_uniform_length _ rows (fun r hr' => (r3 r hr').1), r1, ht.seq_size]
    show (g.atts.toArray[c.items[k].attId]!).stride * side.1.pointIds.size = side.1.pointIds.size * _
    rw [Nat.mul_comm]
    rfl
  · -- the value block
    intro hne b hb
    obtain ⟨b', hb', b1, b2, b3, b4, b5, b6, b7, b8, b9, b10⟩ := encodeItem_block ch o g e _ _ _ _ _ _ hcall hne
    rw [hb] at hb'
    cases hb'
    have hS := hside (by rw [hkind]; exact hne) b hb
    rw [b4, b5] at b10
    show Runs (decodeIntegerValuesEb b.kind side.1.pointIds.size b.nc _
      ⟨viewOfDecoder mesh (decOfController enc.conn (enc.controllers[c.ctrl]!)), side.1.d2c, side.1.v2d⟩
      side.1.pointIds parentD) 514 b.bytes (b.portable, TransformData.none) 514
    rw [viewOfDecoder_base mesh _ hpv]
    rw [hview] at b10
    exact runs_valueBlock_views_struct ch o.base b.attId b.kind b.nc b.numValues _ b.scheme _ _ enc.conn.processed _ hB hg
      hinvol hiso.faces.symm mesh.faces _ _ v2dSize side.1 c.seq htrav b.parent parentD b.portable b.outScheme b.bytes
      hS.numValues hS.kindOK hS.parent hS.nc hS.n hS.len hdsz hS.h32 hS.range hS.normals hS.faces hS.corners hS.crease b10

/-- **the value-side conditions of the whole run that are not derived from the link**: `BlockSideOK` of every recorded
    value block (items of kind 1–3), against the decoder's base view, the decoder's sequence of the controller and the
    parent the decoder holds at that moment (`parentAt`), for the sides the decoder's sequencer computes -/
def ValueSideOK (ch : EbChoices) (o : EbOpts) (g : Geometry) (enc : Encoded) (mesh : Mesh) : Prop :=
  ∀ sides, sidesOfDecoder mesh enc.conn enc.controllers enc.couts.toList = .ok sides →
    ∀ (i k : Nat) (hi : i < enc.couts.toList.length) (hs : i < sides.length)
      (hk : k < (enc.couts.toList[i]).items.size),
      ((enc.couts.toList[i]).items[k]).kind ≠ 0 → ∀ b, ((enc.couts.toList[i]).items[k]).block = some b →
        BlockSideOK ch o.base b (baseViewD mesh.numFaces mesh.c2v mesh.opp mesh.vc) (sides[i]).1
          (enc.couts.toList[i]).seq mesh.faces (flattenFaces g.faces).toArray enc.conn.processed
          (parentAt (planOf o g.atts.toArray enc.conn enc.controllers enc.couts.toList sides) i k)

/-- **`hvals` from the link** for the geometries whose controllers are all on the base table -/
theorem hvals_of_link (ch : EbChoices) (g : Geometry) (md : Option GeometryMetadata) (o : EbOpts) (enc : Encoded)
    (henc : encodeEdgebreaker ch g md o = .ok enc) (mesh : Mesh)
    (hiso : CTIso enc.conn.ct enc.conn.processed mesh.numFaces mesh.c2v mesh.opp) (hD : DecBaseOK enc mesh)
    (hclass : ∀ c ∈ enc.couts.toList, (enc.controllers[c.ctrl]!).onAttTable = false)
    (sides : List (SeqOut × Array Nat))
    (hseq : sidesOfDecoder mesh enc.conn enc.controllers enc.couts.toList = .ok sides)
    (hsetup : ∀ c side it, (c, side) ∈ enc.couts.toList.zip sides → it ∈ c.items.toList →
      ∃ (dC : TView) (ψC : Nat → Nat) (np npD : Nat), dC.numFaces = mesh.numFaces ∧
        TupleSetup (g.atts.toArray[it.attId]!) np (flattenFaces g.faces).toArray mesh.faces npD dC c.view
          (phi enc.conn.processed) ψC side.1 c.seq side.2)
    (hVS : ValueSideOK ch o g enc mesh) :
    ∀ (i k : Nat)
      (hi : i < (planOf o g.atts.toArray enc.conn enc.controllers enc.couts.toList sides).length)
      (hk : k < (planOf o g.atts.toArray enc.conn enc.controllers enc.couts.toList sides)[i].items.length),
      ValuesOK mesh (planOf o g.atts.toArray enc.conn enc.controllers enc.couts.toList sides)[i]
        (parentAt (planOf o g.atts.toArray enc.conn enc.controllers enc.couts.toList sides) i k)
        (planOf o g.atts.toArray enc.conn enc.controllers enc.couts.toList sides)[i].items[k] := by
  obtain ⟨hsl, hruns⟩ := sidesOfDecoder_spec mesh enc.conn enc.controllers _ sides hseq
  intro i k hi hk
  have hplen : (planOf o g.atts.toArray enc.conn enc.controllers enc.couts.toList sides).length =
      enc.couts.toList.length := by
    unfold planOf
    rw [List.length_zipWith, ← hsl, Nat.min_self]
  have hic : i < enc.couts.toList.length := by rw [← hplen]; exact hi
  have his : i < sides.length := by rw [← hsl]; exact hic
  have hpi : (planOf o g.atts.toArray enc.conn enc.controllers enc.couts.toList sides)[i] =
      decoderItemOf o g.atts.toArray enc.conn enc.controllers (enc.couts.toList[i]) (sides[i]) :=
    List.getElem_zipWith (f := decoderItemOf o g.atts.toArray enc.conn enc.controllers) (l := enc.couts.toList)
      (l' := sides) (i := i) (h := hi)
  have hkk : k < (enc.couts.toList[i]).items.size := by
    rw [hpi] at hk
    simpa [decoderItemOf] using hk
  have hitem : (planOf o g.atts.toArray enc.conn enc.controllers enc.couts.toList sides)[i].items[k] =
      itemOf o g.atts.toArray (enc.couts.toList[i]).items[k] := by
    simp only [hpi, decoderItemOf, List.getElem_map, Array.getElem_toList]
  have hz : (enc.couts.toList[i], sides[i]) ∈ enc.couts.toList.zip sides := by
    have hl : i < (enc.couts.toList.zip sides).length := by
      rw [List.length_zip, Nat.lt_min]; exact ⟨hic, his⟩
    have := List.getElem_mem hl
    simpa using this
  have hcm : enc.couts.toList[i] ∈ enc.couts.toList := List.getElem_mem hic
  have hitm : (enc.couts.toList[i]).items[k] ∈ (enc.couts.toList[i]).items.toList := by simp
  obtain ⟨dC, ψC, np, npD, _, hts⟩ := hsetup _ _ _ hz hitm
  rw [hitem, hpi]
  exact valuesOK_base_item ch g md o enc henc mesh hiso hD sides hruns _ _ hz (hclass _ hcm) k hkk _
    ⟨dC, ψC, np, npD, hts⟩ (fun hne b hb => hVS sides hseq i k hic his hkk hne b hb)

/-- **eb_roundtrip_of_link_base'''**: `eb_roundtrip_of_link_base''` with `hvals` replaced by `ValueSideOK`: run + domain +
    link + `DecBaseOK` + `DecSeqOK` + `hclass` (all controllers on the base table) + `ValueSideOK` + `hrest` ⇒ round trip -/
theorem eb_roundtrip_of_link_base''' (ch : EbChoices) (g : Geometry) (md : Option GeometryMetadata) (o : EbOpts)
    (enc : Encoded) (henc : encodeEdgebreaker ch g md o = .ok enc) (hmd : ∀ m, md = some m → m.WF')
    (hatt : ∀ a, a < g.atts.toArray.size → EbAttOK (g.atts.toArray[a]!) (o.base.att a))
    (huid : (g.atts.map (·.uniqueId)).Nodup) (hn128 : g.atts.length ≤ 128)
    (hbytes : ∀ a ∈ g.atts, IsBytes a.values) (hgv : g.valid = true)
    (mesh : Mesh)
    (hconn : ∀ coder, traversalCoder o g.faces.length = some coder →
      Runs decodeConnectivity 514 ([coder] ++ enc.conn.bytes) mesh 514)
    (hiso : CTIso enc.conn.ct enc.conn.processed mesh.numFaces mesh.c2v mesh.opp)
    (hmatts : mesh.atts.size = enc.conn.atts.size)
    (hD : DecBaseOK enc mesh) (hS : DecSeqOK mesh)
    (hclass : ∀ c ∈ enc.couts.toList, (enc.controllers[c.ctrl]!).onAttTable = false)
    (hVS : ValueSideOK ch o g enc mesh)
    (hrest : ∀ sides, sidesOfDecoder mesh enc.conn enc.controllers enc.couts.toList = .ok sides →
      ∀ c side it, (c, side) ∈ enc.couts.toList.zip sides → it ∈ c.items.toList →
      ¬ (useSingleConnectivity o = true ∨
        (((g.atts.toArray[(enc.controllers[c.ctrl]!).attIds[0]!]!).attType == posType) = true ∧
         ((g.atts.toArray[it.attId]!).attType == posType) = true)) →
      ∃ (dC : TView) (ψC : Nat → Nat) (np npD : Nat), dC.numFaces = mesh.numFaces ∧
        TupleSetup (g.atts.toArray[it.attId]!) np (flattenFaces g.faces).toArray mesh.faces npD dC c.view
          (phi enc.conn.processed) ψC side.1 c.seq side.2)
    (extra : Bytes) :
    ∃ sides, sidesOfDecoder mesh enc.conn enc.controllers enc.couts.toList = .ok sides ∧ ∃ st st',
      decodeGeometry {} { rest := enc.bytes ++ extra } =
        (some ⟨planGeometry {} mesh (planOf o g.atts.toArray enc.conn enc.controllers enc.couts.toList sides), md⟩, st) ∧
      st.rest = extra ∧
      decodeGeometry { skip := allTypes } { rest := enc.bytes ++ extra } =
        (some ⟨planGeometry { skip := allTypes } mesh
          (planOf o g.atts.toArray enc.conn enc.controllers enc.couts.toList sides), md⟩, st') ∧
      st'.rest = extra ∧
      Spec.checkCore .edgebreaker (quantReq g o.base) g
        (planGeometry {} mesh (planOf o g.atts.toArray enc.conn enc.controllers enc.couts.toList sides))
        (planGeometry { skip := allTypes } mesh
          (planOf o g.atts.toArray enc.conn enc.controllers enc.couts.toList sides)) = true := by
  refine eb_roundtrip_of_link_base'' ch g md o enc henc hmd hatt huid hn128 hbytes hgv mesh hconn hiso hmatts hD hS hclass
    ?_ hrest extra
  intro sides hseq
  have hruns := (sidesOfDecoder_spec mesh enc.conn enc.controllers _ sides hseq).2
  refine hvals_of_link ch g md o enc henc mesh hiso hD hclass sides hseq ?_ hVS
  intro c side it hz hit
  by_cases hcase : useSingleConnectivity o = true ∨
      (((g.atts.toArray[(enc.controllers[c.ctrl]!).attIds[0]!]!).attType == posType) = true ∧
       ((g.atts.toArray[it.attId]!).attType == posType) = true)
  · exact hsetup_base ch g md o enc henc hgv mesh hiso hD sides hruns c side it hz hit hcase
  · exact hrest sides hseq c side it hz hit hcase

/-! ### the one-triangle example from `eb_roundtrip_of_link_base'''` (no `hseq`, no `hrows`, no `hvals`) -/

/-- the value block the encoder recorded for the triangle -/
def exBlk : ValueBlock := (((ConnExample.exEnc.couts.toList[0]!).items[0]!).block).getD default

open ConnExample in
example (extra : Bytes) :
    ∃ st st',
      decodeGeometry {} { rest := exBytes ++ extra } = (some ⟨planGeometry {} exMesh exPlan, none⟩, st) ∧ st.rest = extra ∧
      decodeGeometry { skip := allTypes } { rest := exBytes ++ extra } =
        (some ⟨planGeometry { skip := allTypes } exMesh exPlan, none⟩, st') ∧ st'.rest = extra ∧
      Spec.checkCore .edgebreaker (quantReq exG exO.base) exG (planGeometry {} exMesh exPlan)
        (planGeometry { skip := allTypes } exMesh exPlan) = true := by
  have hiso : CTIso exEnc.conn.ct exEnc.conn.processed exMesh.numFaces exMesh.c2v exMesh.opp :=
    ctIso_sound _ _ _ _ _ (by decide +kernel) (by decide +kernel) (by decide +kernel) exIso
  have hseq0 : sidesOfDecoder exMesh exEnc.conn exEnc.controllers exEnc.couts.toList = .ok exSides := by
    have h : (match sidesOfDecoder exMesh exEnc.conn exEnc.controllers exEnc.couts.toList with
        | .ok s => decide (s = exSides) | .error _ => false) = true := by
      decide +kernel
    split at h
    · rename_i s hs; rw [hs, of_decide_eq_true h]
    · exact absurd h (by decide)
  have hsides : ∀ sides, sidesOfDecoder exMesh exEnc.conn exEnc.controllers exEnc.couts.toList = .ok sides →
      sides = exSides := by
    intro sides h
    rw [hseq0] at h
    exact (Except.ok.inj h).symm
  have hD : DecBaseOK exEnc exMesh :=
    { hdv := by decide +kernel
      hbd := by
        intro d hd
        have h3 : d < 3 := by
          have : exMesh.numFaces = 1 := by decide +kernel
          omega
        have : d = 0 ∨ d = 1 ∨ d = 2 := by omega
        rcases this with rfl | rfl | rfl <;> exact ⟨true, by decide +kernel, by decide +kernel⟩
      refines := by
        intro c c' hc hc'
        have hn : (baseViewD exMesh.numFaces exMesh.c2v exMesh.opp exMesh.vc).numFaces = 1 := by decide +kernel
        rw [hn] at hc hc'
        have h1 : c = 0 ∨ c = 1 ∨ c = 2 := by omega
        have h2 : c' = 0 ∨ c' = 1 ∨ c' = 2 := by omega
        rcases h1 with rfl | rfl | rfl <;> rcases h2 with rfl | rfl | rfl <;> decide +kernel }
  have hS : DecSeqOK exMesh :=
    { hNV := by decide +kernel, hnp := by decide +kernel, hfa := by decide +kernel, hfp := by decide +kernel,
      hcov := by decide +kernel }
  have hbytes : ∀ a ∈ exG.atts, IsBytes a.values := by
    have hb : (exG.atts.all fun a => a.values.all fun b => decide (b < 256)) = true := by decide +kernel
    intro a ha b hb'
    have h1 := List.all_eq_true.mp hb a ha
    have h2 := List.all_eq_true.mp h1 b hb'
    simpa using h2
  have hall : (exEnc.couts.toList.all fun c => c.items.toList.all fun it =>
      ((exG.atts.toArray[(exEnc.controllers[c.ctrl]!).attIds[0]!]!).attType == posType) &&
      ((exG.atts.toArray[it.attId]!).attType == posType)) = true := by decide +kernel
  have hcl : (exEnc.couts.toList.all fun c => !(exEnc.controllers[c.ctrl]!).onAttTable) = true := by decide +kernel
  -- the value-side conditions of the single block
  have hVS : ValueSideOK exCh exO exG exEnc exMesh := by
    intro sides hs i k hi hsl hk hne b hb
    have e0 := hsides sides hs
    subst e0
    have hlen1 : exEnc.couts.toList.length = 1 := by decide +kernel
    have hi0 : i = 0 := by omega
    subst hi0
    have hc0 : exEnc.couts.toList[0]'hi = exEnc.couts.toList[0]! := (getElem!_pos _ 0 hi).symm
    have hsd : exSides[0]'hsl = (exSeqD, exMapD) := rfl
    generalize exEnc.couts.toList[0]'hi = c0 at hc0 hk hne hb ⊢
    generalize exSides[0]'hsl = sd at hsd ⊢
    subst hc0 hsd
    have hsz1 : (exEnc.couts.toList[0]!).items.size = 1 := by decide +kernel
    have hk0 : k = 0 := by omega
    subst hk0
    have hit0 : (exEnc.couts.toList[0]!).items[0]'hk = (exEnc.couts.toList[0]!).items[0]! :=
      (getElem!_pos _ 0 hk).symm
    generalize (exEnc.couts.toList[0]!).items[0]'hk = it0 at hit0 hne hb
    subst hit0
    have hbk : b = exBlk := by
      unfold exBlk
      rw [hb]
      rfl
    subst hbk
    have hpar : parentAt (planOf exO exG.atts.toArray exEnc.conn exEnc.controllers exEnc.couts.toList exSides) 0 0 = none := by
      have : planOf exO exG.atts.toArray exEnc.conn exEnc.controllers exEnc.couts.toList exSides = [ConnExample.exD] :=
        exPlan_eq
      rw [this]; rfl
    rw [hpar]
    exact {
      numValues := by decide +kernel
      kindOK := schemeKindOk_sound _ _ (by decide +kernel)
      parent := fun h => absurd h (by decide +kernel)
      nc := by decide +kernel
      n := by decide +kernel
      len := by decide +kernel
      h32 := by decide +kernel
      range := int32All_sound _ (by decide +kernel)
      normals := fun h => absurd h (by decide +kernel)
      faces := by decide +kernel
      corners := by decide +kernel
      crease := fun h => by
        have h0 : (exBlk.scheme == PScheme.constrainedMulti) = false := by decide +kernel
        rw [h] at h0
        exact absurd h0 (by decide) }
  obtain ⟨sides, hs, h⟩ := eb_roundtrip_of_link_base''' exCh exG none exO exEnc exEncode (fun m h => by cases h) exHatt
    exHuid (by decide +kernel) hbytes (by decide +kernel) exMesh exHconn hiso (by decide +kernel) hD hS
    (by
      intro c hc
      have := List.all_eq_true.mp hcl c hc
      simpa using this)
    hVS
    (by
      intro sides hs c side it hz hit hn
      exfalso
      apply hn
      right
      have hc := (List.of_mem_zip hz).1
      have h1 := List.all_eq_true.mp hall c hc
      have h2 := List.all_eq_true.mp h1 it hit
      simpa using h2) extra
  rw [hsides sides hs, exEnc_bytes] at h
  exact h

end Final7

end Draco.EbEnc
