import DracoProofs.EbTraceS2
import DracoProofs.EbDecSimI
/-
  The vertex half of the simulation invariant through `stepS`, and the pure simulation theorem with `S`.

  * `SFacts`, `vinv_stepS`: `VInv` (UNCHANGED, with the full `lm`) is preserved by the `S` step;
    `sfacts_of`: `SFacts` from the images of the two glued corners, the non-degeneracy of the face and `vN ≠ vP`;
  * `dL / dLk`, `OInv.invol`, `dLk_spec`, `dLk_norep`, `same_corner`, `vN_ne_vP`: the two copies of the tip vertex of an `S`
    face are different decoder vertices — from the clause `¬ FanEarlier` of `SAt` (no additional invariant is needed: the
    decoder's swing-left walk from `Next b` is injective, stays on one vertex, and by `lm` can only end in `Prev a`);
  * `inv_step_at`, `InvS` (= `OInv ∧ VInv ∧ StkInv`), `cornerAS`, `inv_stepSS` (with `hNP` as a parameter),
    `inv_stepSS'` (without), `inv_StS`, `inv_StS'`;
  * `TraceS.ctx`, `TraceS.closed`, `ctIso_StS_pre`, `ctIso_StS`: `CTIso t P P.size c2v opp` for the tables of `StS` after
    all symbols, before the compaction, without interior start faces.

  PARAMETERS that remain (to be supplied by DracoProofs/EbStkInv.lean):
    `hstk`  : `StkInv` is preserved by every step of `StS` (`stkInv_step`);
    `hcAev` : for an `S` with a split event, `cornerAS j s < 3 j`, `≠ 3 (j - 1)`, `phi P (cornerAS j s) = t.opp[Prev P[j]]`
              (`cornerA_of_stk_ev`; the event-free case is `cornerA_of_stk_noev`, used here);
  and, as in `ctIso_of_OV`, the encoder-side `hcov` (`AttViews.cover_enc_of_create`) and `hvlt`.
  NOT DONE: interior start faces after the symbol loop (`inv_runStarts` of EbDecSimI.lean applies to `OInv / VInv` at
  `syms.length`; its stack hypothesis is `StkInv.stack` at `syms.length` with `TraceS.comps`), the compaction renumbering,
  the monadic glue.
-/
namespace Draco.EbEnc.DecSim
open Draco Draco.EbEnc
open Draco.Eb (inv TopoSplit)
open Draco.EbEnc.EncCounts (nextC_lt3 prevC_lt3)
open Draco.EbEnc.Coverage (TblOK)

/-- what `stepS` needs to know about the state: `a` = `cornerA`, `b` = `cornerB` -/
structure SFacts (t : CT) (P : Array Nat) (j : Nat) (s : DSS) (a b : Nat) : Prop where
  hB : s.stack.back! = b
  hA : (if s.splitActive[j]! ≠ inv then s.stack.pop.push s.splitActive[j]! else s.stack.pop).back! = a
  ha : a < 3 * j
  hb : b < 3 * j
  hab : a ≠ b
  /-- both corners are open in the partial table -/
  hoa : s.opp[a]! = inv
  hob : s.opp[b]! = inv
  /-- the two copies of the tip vertex are different decoder vertices -/
  hNP : s.c2v[Eb.nextC b]! ≠ s.c2v[Eb.prevC a]!
  /-- the new face is not degenerate in the decoder's vertices -/
  hPB : s.c2v[Eb.prevC a]! ≠ s.c2v[Eb.prevC b]!
  /-- encoder vertices of the four old corners next to the glued edges -/
  eP : t.c2v[phi P (Eb.prevC a)]! = t.c2v[phi P (3 * j)]!
  eN : t.c2v[phi P (Eb.nextC b)]! = t.c2v[phi P (3 * j)]!
  eU : t.c2v[phi P (Eb.nextC a)]! = t.c2v[phi P (3 * j + 1)]!
  eB : t.c2v[phi P (Eb.prevC b)]! = t.c2v[phi P (3 * j + 2)]!

theorem gsB (a : Array Nat) (i v d : Nat) (hi : i < a.size) : (a.set! i v)[d]! = if d = i then v else a[d]! := gs a i v d hi

/-- **`VInv` through `stepS`** -/
theorem vinv_stepS {t : CT} {P : Array Nat} (hC : Ctx t P) {j : Nat} {s : DSS} (hO : OInv t P j s.opp)
    (hV : VInv t P j s.c2v s.opp s.vc) (hj : j < P.size) {a b : Nat} (hF : SFacts t P j s a b) :
    VInv t P (j + 1) (stepS j s).c2v (stepS j s).opp (stepS j s).vc := by
  have hinv := hC.fits'
  have i3 : 3 * j ≤ inv := by omega
  have hcs := hV.csize
  have hos := hO.size
  obtain ⟨hB, hA, ha, hb, hab, hoa, hob, hNP, hPB, eP, eN, eU, eB⟩ := hF
  have hai : a < inv := by omega
  have hbi : b < inv := by omega
  have hna := nextC_lt3 ha i3
  have hpa := prevC_lt3 ha i3
  have hnb := nextC_lt3 hb i3
  have hpb := prevC_lt3 hb i3
  -- abbreviations
  generalize hvP : s.c2v[Eb.prevC a]! = vP at hNP hPB
  generalize hvN : s.c2v[Eb.nextC b]! = vN at hNP
  generalize hvB : s.c2v[Eb.prevC b]! = vB at hPB
  generalize hvU : s.c2v[Eb.nextC a]! = vU
  have hvPl : vP < s.vc.size := by rw [← hvP]; exact hV.vlt _ hpa
  have hvNl : vN < s.vc.size := by rw [← hvN]; exact hV.vlt _ hnb
  have hvBl : vB < s.vc.size := by rw [← hvB]; exact hV.vlt _ hpb
  have hvUl : vU < s.vc.size := by rw [← hvU]; exact hV.vlt _ hna
  -- the new tables
  have ho' : ∀ d, (stepS j s).opp[d]! =
      if d = 3 * j + 1 then b else if d = b then 3 * j + 1 else if d = 3 * j + 2 then a else if d = a then 3 * j + 2
      else s.opp[d]! := by
    intro d
    show (glue (glue s.opp _ (3 * j + 2)) s.stack.back! (3 * j + 1))[d]! = _
    rw [hA, hB, glue_get _ _ _ _ (by rw [glue_size]; omega) (by rw [glue_size]; omega),
      glue_get _ _ _ _ (by omega) (by omega)]
  have hc1 : ∀ d, (((s.c2v.set! (3 * j) vP).set! (3 * j + 1) vU).set! (3 * j + 2) vB)[d]! =
      if d = 3 * j + 2 then vB else if d = 3 * j + 1 then vU else if d = 3 * j then vP else s.c2v[d]! := by
    intro d
    exact gs3 _ _ _ _ _ _ _ d (by omega) (by omega) (by omega)
  have hc1s : (((s.c2v.set! (3 * j) vP).set! (3 * j + 1) vU).set! (3 * j + 2) vB).size = 3 * P.size := by
    rw [size_set, size_set, size_set, hcs]
  have hc' : ∀ d, d < 3 * P.size → (stepS j s).c2v[d]! =
      (fun x => if x = vN then vP else x)
        (if d = 3 * j + 2 then vB else if d = 3 * j + 1 then vU else if d = 3 * j then vP else s.c2v[d]!) := by
    intro d hd
    show (mergeV (((s.c2v.set! (3 * j) s.c2v[Eb.prevC _]!).set! (3 * j + 1) s.c2v[Eb.nextC _]!).set! (3 * j + 2)
      s.c2v[Eb.prevC s.stack.back!]!) s.c2v[Eb.nextC s.stack.back!]! s.c2v[Eb.prevC _]!)[d]! = _
    rw [hA, hB, hvP, hvN, hvB, hvU, mergeV_get _ _ _ _ (by rw [hc1s]; exact hd), hc1]
  -- the label function
  have hold : ∀ d, d < 3 * j → (stepS j s).c2v[d]! = (if s.c2v[d]! = vN then vP else s.c2v[d]!) := by
    intro d hd
    rw [hc' d (by omega), if_neg (by omega), if_neg (by omega), if_neg (by omega)]
  have hn0 : (stepS j s).c2v[3 * j]! = vP := by
    rw [hc' _ (by omega), if_neg (by omega), if_neg (by omega), if_pos rfl]
    simp only
    split
    · rfl
    · rfl
  have hn1 : (stepS j s).c2v[3 * j + 1]! = (if vU = vN then vP else vU) := by
    rw [hc' _ (by omega), if_neg (by omega), if_pos rfl]
  have hn2 : (stepS j s).c2v[3 * j + 2]! = (if vB = vN then vP else vB) := by
    rw [hc' _ (by omega), if_pos rfl]
  have hv' : ∀ v, (stepS j s).vc[v]! = if v = vN then inv else if v = vP then
      (if vN = vB then 3 * j + 2 else s.vc[vN]!) else if v = vB then 3 * j + 2 else s.vc[v]! := by
    intro v
    show (((s.vc.set! s.c2v[Eb.prevC s.stack.back!]! (3 * j + 2)).set! s.c2v[Eb.prevC _]!
      (s.vc.set! s.c2v[Eb.prevC s.stack.back!]! (3 * j + 2))[s.c2v[Eb.nextC s.stack.back!]!]!).set!
      s.c2v[Eb.nextC s.stack.back!]! inv)[v]! = _
    rw [hA, hB, hvP, hvN, hvB, gs _ _ _ _ (by rw [size_set, size_set]; exact hvNl),
      gs _ _ _ _ (by rw [size_set]; exact hvPl), gs _ _ _ _ hvBl, gs _ _ _ _ hvBl]
  have hvs : (stepS j s).vc.size = s.vc.size := by
    show (((s.vc.set! _ _).set! _ _).set! _ _).size = _
    rw [size_set, size_set, size_set]
  have j0 := nx0 j (by omega)
  have j1 := nx1 j (by omega)
  have j2 := nx2 j (by omega)
  have q0 := pv0 j (by omega)
  have q1 := pv1 j (by omega)
  have q2 := pv2 j (by omega)
  have mP : (if vP = vN then vP else vP) = vP := by split <;> rfl
  refine ⟨?_, ?_, ?_, ?_, ?_, ?_⟩
  · -- csize
    show (mergeV _ _ _).size = _
    rw [mergeV_size, size_set, size_set, size_set, hcs]
  · -- vsz
    rw [hvs]; have := hV.vsz; omega
  · -- vlt
    intro d hd
    rw [hvs]
    by_cases hdo : d < 3 * j
    · rw [hold d hdo]
      split
      · exact hvPl
      · exact hV.vlt d hdo
    · have : d = 3 * j ∨ d = 3 * j + 1 ∨ d = 3 * j + 2 := by omega
      rcases this with rfl | rfl | rfl
      · rw [hn0]; exact hvPl
      · rw [hn1]; split
        · exact hvPl
        · exact hvUl
      · rw [hn2]; split
        · exact hvPl
        · exact hvBl
  · -- hedge
    intro d hd hne
    rw [ho'] at hne ⊢
    by_cases e1 : d = 3 * j + 1
    · subst e1
      rw [if_pos rfl, j1, q1, hold _ hnb, hvN, if_pos rfl, hn0, hold _ hpb, hvB, hn2]
      exact ⟨rfl, rfl⟩
    rw [if_neg e1] at hne ⊢
    by_cases e2 : d = b
    · subst e2
      rw [if_pos rfl, j1, q1, hn2, hn0, hold _ hpb, hvB, hold _ hnb, hvN, if_pos rfl]
      exact ⟨rfl, rfl⟩
    rw [if_neg e2] at hne ⊢
    by_cases e3 : d = 3 * j + 2
    · subst e3
      rw [if_pos rfl, j2, q2, hold _ hna, hvU, hn1, hold _ hpa, hvP, mP, hn0]
      exact ⟨rfl, rfl⟩
    rw [if_neg e3] at hne ⊢
    by_cases e4 : d = a
    · subst e4
      rw [if_pos rfl, j2, q2, hn0, hn1, hold _ hpa, hvP, mP, hold _ hna, hvU]
      exact ⟨rfl, rfl⟩
    rw [if_neg e4] at hne ⊢
    have hdo : d < 3 * j := by
      by_contra hh
      have : d = 3 * j := by omega
      subst this
      exact hne (hO.o3 _ (by omega) (by omega))
    obtain ⟨k1, _⟩ := hO.o1 d hdo hne
    obtain ⟨f1, f2⟩ := hV.hedge d hdo hne
    rw [hold _ (nextC_lt3 k1 i3), hold _ (prevC_lt3 k1 i3), hold _ (nextC_lt3 hdo i3), hold _ (prevC_lt3 hdo i3), f1, f2]
    exact ⟨rfl, rfl⟩
  · -- lm
    intro d hd hop
    rw [ho'] at hop
    by_cases hdo : d < 3 * j
    · have hnd := nextC_lt3 hdo i3
      rw [if_neg (by omega)] at hop
      by_cases x1 : Eb.nextC d = b
      · rw [if_pos x1] at hop; omega
      rw [if_neg x1, if_neg (by omega)] at hop
      by_cases x2 : Eb.nextC d = a
      · rw [if_pos x2] at hop; omega
      rw [if_neg x2] at hop
      have hl := hV.lm d hdo hop
      have hdi : d < inv := by omega
      -- the recorded left-most corners of `vP` and `vB`
      have lP : s.vc[vP]! = Eb.prevC a := by
        rw [← hvP]; exact hV.lm _ hpa (by rw [Eb.nextC_prevC _ hai]; exact hoa)
      have lB : s.vc[vB]! = Eb.prevC b := by
        rw [← hvB]; exact hV.lm _ hpb (by rw [Eb.nextC_prevC _ hbi]; exact hob)
      have nP : s.c2v[d]! ≠ vP := by
        intro e
        rw [e, lP] at hl
        exact x2 (by rw [← hl, Eb.nextC_prevC _ hai])
      have nB : s.c2v[d]! ≠ vB := by
        intro e
        rw [e, lB] at hl
        exact x1 (by rw [← hl, Eb.nextC_prevC _ hbi])
      rw [hold d hdo, hv']
      by_cases w : s.c2v[d]! = vN
      · rw [if_pos w, if_neg (fun e => hNP e.symm), if_pos rfl]
        have : vN ≠ vB := fun e => nB (w.trans e)
        rw [if_neg this, ← w]
        exact hl
      · rw [if_neg w, if_neg w, if_neg nP, if_neg nB]
        exact hl
    · have : d = 3 * j ∨ d = 3 * j + 1 ∨ d = 3 * j + 2 := by omega
      rcases this with rfl | rfl | rfl
      · rw [j0, if_pos rfl] at hop; omega
      · rw [j1, if_neg (by omega), if_neg (by omega), if_pos rfl] at hop; omega
      · rw [hn2, hv']
        by_cases w : vB = vN
        · rw [if_pos w, if_neg (fun e => hNP e.symm), if_pos rfl, if_pos w.symm]
        · rw [if_neg w, if_neg w, if_neg (fun e => hPB e.symm), if_pos rfl]
  · -- fine
    have hfine1 : ∀ d d', d < 3 * (j + 1) → d' < 3 * (j + 1) →
        (((s.c2v.set! (3 * j) vP).set! (3 * j + 1) vU).set! (3 * j + 2) vB)[d]! =
        (((s.c2v.set! (3 * j) vP).set! (3 * j + 1) vU).set! (3 * j + 2) vB)[d']! →
        t.c2v[phi P d]! = t.c2v[phi P d']! := by
      -- every corner has an old representative with the same label and the same encoder vertex
      have rep : ∀ d, d < 3 * (j + 1) → ∃ r, r < 3 * j ∧
          (((s.c2v.set! (3 * j) vP).set! (3 * j + 1) vU).set! (3 * j + 2) vB)[d]! = s.c2v[r]! ∧
          t.c2v[phi P d]! = t.c2v[phi P r]! := by
        intro d hd
        rw [hc1]
        by_cases hdo : d < 3 * j
        · exact ⟨d, hdo, by rw [if_neg (by omega), if_neg (by omega), if_neg (by omega)], rfl⟩
        · have : d = 3 * j ∨ d = 3 * j + 1 ∨ d = 3 * j + 2 := by omega
          rcases this with rfl | rfl | rfl
          · exact ⟨_, hpa, by rw [if_neg (by omega), if_neg (by omega), if_pos rfl, hvP], eP.symm⟩
          · exact ⟨_, hna, by rw [if_neg (by omega), if_pos rfl, hvU], eU.symm⟩
          · exact ⟨_, hpb, by rw [if_pos rfl, hvB], eB.symm⟩
      intro d d' hd hd' e
      obtain ⟨r, hr, e1, f1⟩ := rep d hd
      obtain ⟨r', hr', e1', f1'⟩ := rep d' hd'
      rw [f1, f1']
      exact hV.fine r r' hr hr' (by rw [← e1, ← e1', e])
    have := fine_mergeV (t := t) (P := P) _ vN vP (3 * (j + 1)) (by rw [hc1s]; omega) hfine1
      (Eb.nextC b) (Eb.prevC a) (by omega) (by omega)
      (by rw [hc1, if_neg (by omega), if_neg (by omega), if_neg (by omega), hvN])
      (by rw [hc1, if_neg (by omega), if_neg (by omega), if_neg (by omega), hvP])
      (by rw [eN, eP])
    intro d d' hd hd' e
    apply this d d' hd hd'
    have ee : (stepS j s).c2v = mergeV (((s.c2v.set! (3 * j) vP).set! (3 * j + 1) vU).set! (3 * j + 2) vB) vN vP := by
      show mergeV (((s.c2v.set! (3 * j) s.c2v[Eb.prevC _]!).set! (3 * j + 1) s.c2v[Eb.nextC _]!).set! (3 * j + 2)
        s.c2v[Eb.prevC s.stack.back!]!) s.c2v[Eb.nextC s.stack.back!]! s.c2v[Eb.prevC _]! = _
      rw [hA, hB, hvP, hvN, hvB, hvU]
    rw [← ee]
    exact e

/-- `SFacts` from the images of the two glued corners (what `SAt` gives through `StkInv`), the non-degeneracy of the face
    and `vN ≠ vP` -/
theorem sfacts_of {t : CT} {P : Array Nat} (hC : Ctx t P) {j : Nat} {s : DSS} (hO : OInv t P j s.opp)
    (hV : VInv t P j s.c2v s.opp s.vc) (hj : j < P.size) {a b : Nat} (hB : s.stack.back! = b)
    (hA : (if s.splitActive[j]! ≠ inv then s.stack.pop.push s.splitActive[j]! else s.stack.pop).back! = a)
    (ha : a < 3 * j) (hb : b < 3 * j) (hab : a ≠ b)
    (hpa : phi P a = t.opp[Eb.prevC P[j]!]!) (hpb : phi P b = t.opp[Eb.nextC P[j]!]!)
    (hnd : t.c2v[P[j]!]! ≠ t.c2v[Eb.prevC P[j]!]!)
    (hNP : s.c2v[Eb.nextC b]! ≠ s.c2v[Eb.prevC a]!) : SFacts t P j s a b := by
  have hinv := hC.fits'
  have i3 : 3 * j ≤ inv := by omega
  have hbt := hC.tbl.base
  have hpj := hC.plt j hj
  have hpji := hC.p_inv hj
  have hplt : Eb.prevC P[j]! < t.numCorners := AttViews.prevC_ltN hbt.n3 hbt.le hpj
  have hnlt : Eb.nextC P[j]! < t.numCorners := AttViews.nextC_ltN hbt.n3 hpj
  have hai : a < inv := by omega
  have hbi : b < inv := by omega
  have hpai := hC.phi_inv (d := a) (by omega)
  have hpbi := hC.phi_inv (d := b) (by omega)
  have hneA : t.opp[Eb.prevC P[j]!]! ≠ inv := by rw [← hpa]; omega
  have hneB : t.opp[Eb.nextC P[j]!]! ≠ inv := by rw [← hpb]; omega
  obtain ⟨-, hinA⟩ := hC.invol hplt hneA
  obtain ⟨-, hinB⟩ := hC.invol hnlt hneB
  have hoa : s.opp[a]! = inv := hO.inv_of_later hC (by omega) ha
    (Or.inr ⟨j, hj, Nat.le_refl _, by rw [hpa, hinA]; exact EncCounts.prevC_div3 _ hpji⟩)
  have hob : s.opp[b]! = inv := hO.inv_of_later hC (by omega) hb
    (Or.inr ⟨j, hj, Nat.le_refl _, by rw [hpb, hinB]; exact EncCounts.nextC_div3 _ hpji⟩)
  obtain ⟨gA1, gA2⟩ := hC.hedge hplt hneA
  obtain ⟨gB1, gB2⟩ := hC.hedge hnlt hneB
  rw [Eb.nextC_prevC _ hpji] at gA1
  have e1 : Eb.prevC (Eb.prevC P[j]!) = Eb.nextC P[j]! := by
    rw [TVIso.prevC_eq (Eb.prevC P[j]!) (EncCounts.prevC_lt_inv _ hpji), Eb.nextC_prevC _ hpji]
  rw [e1] at gA2
  rw [EncCounts.nextC_nextC' _ hpji] at gB1
  rw [Eb.prevC_nextC _ hpji] at gB2
  have ca : P[a / 3]! < inv := hC.p_inv (i := a / 3) (by omega)
  have cb : P[b / 3]! < inv := hC.p_inv (i := b / 3) (by omega)
  have eP : t.c2v[phi P (Eb.prevC a)]! = t.c2v[phi P (3 * j)]! := by
    rw [phi_prevC P a hai ca, hpa, ← gA1, phi_0]
  have eU : t.c2v[phi P (Eb.nextC a)]! = t.c2v[phi P (3 * j + 1)]! := by
    rw [phi_nextC P a hai ca, hpa, ← gA2, phi_1]
  have eB : t.c2v[phi P (Eb.prevC b)]! = t.c2v[phi P (3 * j + 2)]! := by
    rw [phi_prevC P b hbi cb, hpb, ← gB1, phi_2]
  have eN : t.c2v[phi P (Eb.nextC b)]! = t.c2v[phi P (3 * j)]! := by
    rw [phi_nextC P b hbi cb, hpb, ← gB2, phi_0]
  refine ⟨hB, hA, ha, hb, hab, hoa, hob, hNP, ?_, eP, eN, eU, eB⟩
  intro e
  have := hV.fine _ _ (EncCounts.prevC_lt3 ha i3) (EncCounts.prevC_lt3 hb i3) e
  rw [eP, eB, phi_0, phi_2] at this
  exact hnd this

/-- one symbol other than `S` preserves `Inv`, from the facts about face `j` and the gate fact of face `j - 1` -/
theorem inv_step_at {t : CT} {P : Array Nat} {syms : List Nat} (hC : Ctx t P) {j : Nat} {s : DS}
    (hfj : TraceAt t P syms j) (hgp : 0 < j → Later P (j - 1) t.opp[P[j - 1]!]!)
    (hI : Inv t P j s) (hj : j < P.size) : Inv t P (j + 1) (step syms[j]! j s) := by
  have hinv := hC.fits'
  obtain ⟨_, hg, _, hE, hR, hL, hCc, hsym⟩ := hfj
  unfold step
  by_cases h7 : syms[j]! = 7
  · rw [if_pos h7]
    obtain ⟨a, b⟩ := hE h7
    exact inv_stepE hC hI hj hg a b
  · rw [if_neg h7]
    by_cases h5 : syms[j]! = 5
    · rw [if_pos h5, stepR_eq]
      obtain ⟨h0, a, b⟩ := hR h5
      refine inv_stepQ hC hI hj h0 (hgp h0) _ _ _ (by omega) ⟨nx2 _ (by omega), pv2 _ (by omega), nx0 _ (by omega), nx1 _ (by omega)⟩
        (by rw [phi_2]; exact b) (by rw [phi_0]; exact hg) (by rw [phi_1]; exact a)
    · rw [if_neg h5]
      by_cases h3 : syms[j]! = 3
      · rw [if_pos h3, stepL_eq]
        obtain ⟨h0, a, b⟩ := hL h3
        refine inv_stepQ hC hI hj h0 (hgp h0) _ _ _ (by omega) ⟨nx1 _ (by omega), pv1 _ (by omega), nx2 _ (by omega), nx0 _ (by omega)⟩
          (by rw [phi_1]; exact a) (by rw [phi_2]; exact b) (by rw [phi_0]; exact hg)
      · rw [if_neg h3]
        have h0' : syms[j]! = 0 := by omega
        obtain ⟨h0, a, m, _, hm, hcl, hEar⟩ := hCc h0'
        obtain ⟨l, hF⟩ := hI.cfacts hC hj h0 (hgp h0) a m hm hcl hEar
        exact inv_stepC hC hI hj h0 hg a hF

/-- the gate fact of a face of a `TraceS` -/
theorem TraceAtS.gate {t : CT} {P : Array Nat} {syms : List Nat} {evs : List TopoSplit} {j : Nat}
    (h : TraceAtS t P syms evs j) : Later P j t.opp[P[j]!]! := by
  by_cases hs : syms[j]! = 1
  · exact (h.2 hs).2.1
  · exact (h.1 hs).2.1

/-- **the simulation invariant with `S`**: `OInv`, `VInv` (unchanged) and the stack / `splitActive` invariant -/
structure InvS (t : CT) (P : Array Nat) (syms : List Nat) (evs : List TopoSplit) (j : Nat) (s : DSS) : Prop where
  o : OInv t P j s.opp
  v : VInv t P j s.c2v s.opp s.vc
  k : StkInv syms evs j s

/-- the corner `cornerA` of `stepS` -/
def cornerAS (j : Nat) (s : DSS) : Nat :=
  (if s.splitActive[j]! ≠ inv then s.stack.pop.push s.splitActive[j]! else s.stack.pop).back!

/-- **one symbol of `StS` preserves the invariant.**  Parameters (proved elsewhere / assumed):
    `hstk` — `StkInv` after the step (DracoProofs/EbStkInv.lean: `stkInv_step`);
    `hcAev` — the facts about `cornerA` when the `S` has a split event (`cornerA_of_stk_ev`);
    `hNP` — the two copies of the tip vertex of an `S` face are different decoder vertices (NOT derived from the trace
    here: it needs "every corner reaches the left-most corner of its vertex by swinging left" as an additional invariant,
    together with the clause `¬ FanEarlier` of `SAt`). -/
theorem inv_stepSS {t : CT} {P : Array Nat} {syms : List Nat} {evs : List TopoSplit} {starts : List (Bool × Nat)}
    (hC : Ctx t P) (hTr : TraceS t P syms evs starts) {j : Nat} {s : DSS} (hI : InvS t P syms evs j s)
    (hj : j < syms.length)
    (hstk : StkInv syms evs (j + 1) (stepSS syms.length evs syms[j]! j s))
    (hcAev : syms[j]! = 1 → hasEv syms.length evs j = true →
      cornerAS j s < 3 * j ∧ cornerAS j s ≠ 3 * (j - 1) ∧ phi P (cornerAS j s) = t.opp[Eb.prevC P[j]!]!)
    (hNP : syms[j]! = 1 → s.c2v[Eb.nextC s.stack.back!]! ≠ s.c2v[Eb.prevC (cornerAS j s)]!) :
    InvS t P syms evs (j + 1) (stepSS syms.length evs syms[j]! j s) := by
  have hsz := hTr.size
  have hjP : j < P.size := by omega
  have hf := hTr.face j hj
  by_cases hs : syms[j]! = 1
  · -- S
    obtain ⟨hp, hg, ⟨hnd1, hnd2, hnd3⟩, hA⟩ := hf.2 hs
    obtain ⟨hB, hb, hpb⟩ := cornerB_of_stk hI.k hA
    have h0 := hA.1
    have hAfacts : cornerAS j s < 3 * j ∧ cornerAS j s ≠ 3 * (j - 1) ∧
        phi P (cornerAS j s) = t.opp[Eb.prevC P[j]!]! := by
      cases hev : hasEv syms.length evs j with
      | true => exact hcAev hs hev
      | false =>
        obtain ⟨e, he, h1, h2, h3⟩ := cornerA_of_stk_noev hI.k hA hj hev
        unfold cornerAS
        rw [he]
        exact ⟨h1, h2, h3⟩
    obtain ⟨ha, hab, hpa⟩ := hAfacts
    have hF := sfacts_of hC hI.o hI.v hjP hB (a := cornerAS j s) rfl ha hb hab hpa hpb hnd2 (by rw [← hB]; exact hNP hs)
    have e : stepSS syms.length evs syms[j]! j s = stepS j s := by unfold stepSS; rw [if_pos hs]
    rw [e] at hstk ⊢
    exact ⟨oinv_stepS hC hI.o hjP _ _ hB rfl ha hb hab hpa hpb hg, vinv_stepS hC hI.o hI.v hjP hF, hstk⟩
  · -- E, R, L, C
    have hfj := hf.1 hs
    have hgp : 0 < j → Later P (j - 1) t.opp[P[j - 1]!]! := fun h0 => (hTr.face (j - 1) (by omega)).gate
    have hIb : Inv t P j s.base := ⟨hI.o, hI.v, fun h0 => hI.k.top h0⟩
    have hstep := inv_step_at hC hfj hgp hIb hjP
    have e : (stepSS syms.length evs syms[j]! j s).base = step syms[j]! j s.base := by
      unfold stepSS
      rw [if_neg hs]
      by_cases h0 : syms[j]! = 0
      · rw [if_pos h0]
        have : step syms[j]! j s.base = stepC j s.base := by unfold step; rw [h0]; simp
        rw [this]; rfl
      · rw [if_neg h0]; rfl
    rw [← e] at hstep
    exact ⟨hstep.o, hstep.v, hstk⟩

/-- the invariant holds along the whole run of `StS`, given the three parameters of `inv_stepSS` at every step -/
theorem inv_StS {t : CT} {P : Array Nat} {syms : List Nat} {evs : List TopoSplit} {starts : List (Bool × Nat)}
    (hC : Ctx t P) (hTr : TraceS t P syms evs starts) (maxV : Nat)
    (hk0 : StkInv syms evs 0 (DSS.init syms.length P.size maxV))
    (hstk : ∀ j, j < syms.length → StkInv syms evs j (StS syms evs P.size maxV j) →
      StkInv syms evs (j + 1) (StS syms evs P.size maxV (j + 1)))
    (hcAev : ∀ j, j < syms.length → syms[j]! = 1 → hasEv syms.length evs j = true →
      StkInv syms evs j (StS syms evs P.size maxV j) →
      cornerAS j (StS syms evs P.size maxV j) < 3 * j ∧ cornerAS j (StS syms evs P.size maxV j) ≠ 3 * (j - 1) ∧
        phi P (cornerAS j (StS syms evs P.size maxV j)) = t.opp[Eb.prevC P[j]!]!)
    (hNP : ∀ j, j < syms.length → syms[j]! = 1 →
      (StS syms evs P.size maxV j).c2v[Eb.nextC (StS syms evs P.size maxV j).stack.back!]! ≠
        (StS syms evs P.size maxV j).c2v[Eb.prevC (cornerAS j (StS syms evs P.size maxV j))]!) :
    ∀ j, j ≤ syms.length → InvS t P syms evs j (StS syms evs P.size maxV j)
  | 0, _ => ⟨OInv.init t P, ⟨by simp [StS, DSS.init], by simp [StS, DSS.init], fun d hd => absurd hd (by omega),
      fun d hd => absurd hd (by omega), fun d hd => absurd hd (by omega), fun d _ hd => absurd hd (by omega)⟩, hk0⟩
  | j+1, h => by
    have ih := inv_StS hC hTr maxV hk0 hstk hcAev hNP j (by omega)
    exact inv_stepSS hC hTr ih (by omega) (hstk j (by omega) ih.k) (fun h1 h2 => hcAev j (by omega) h1 h2 ih.k)
      (hNP j (by omega))

/-- **`CTIso` for the tables of `StS`** before the compaction, without interior start faces (`P.size = syms.length`) -/
theorem ctIso_StS_pre {t : CT} {P : Array Nat} {syms : List Nat} {evs : List TopoSplit}
    (hC : Ctx t P) {s : DSS} (hI : InvS t P syms evs P.size s)
    (hcl : ∀ d, d < 3 * P.size → t.opp[phi P d]! ≠ inv → ∃ i, i < P.size ∧ t.opp[phi P d]! / 3 = P[i]! / 3)
    (hcov : ∀ d, d < 3 * P.size → ∃ k, iter (AttViews.sRP t.opp) k t.vc[t.c2v[phi P d]!]! = phi P d)
    (hvlt : ∀ d, d < 3 * P.size → t.c2v[phi P d]! < t.numVertices) : CTIso t P P.size s.c2v s.opp :=
  ctIso_of_OV hC hcl (s := s.base) hI.o hI.v hcov hvlt

/-- the standing assumptions from a `TraceS` -/
theorem TraceS.ctx {t : CT} {P : Array Nat} {syms : List Nat} {evs : List TopoSplit} {starts : List (Bool × Nat)}
    (hT : TblOK t) (h : TraceS t P syms evs starts) : Ctx t P := by
  refine ⟨hT, fun i hi => ?_, h.distinct⟩
  by_cases hn : i < syms.length
  · have hf := h.face i hn
    by_cases hs : syms[i]! = 1
    · exact (hf.2 hs).1
    · exact (hf.1 hs).1
  · have hsz := h.size
    obtain ⟨k, hk, h1, h2⟩ := filter_index (·.1) starts (i - syms.length) (by omega)
    have := (h.init k hk h1).1
    have e : initIndex syms starts k = i := by unfold initIndex; omega
    rw [e] at this
    exact this

/-- without interior start faces every encoder neighbour of a decoded corner lies in a decoded face (`hcl` of
    `ctIso_StS_pre`) -/
theorem TraceS.closed {t : CT} {P : Array Nat} {syms : List Nat} {evs : List TopoSplit} {starts : List (Bool × Nat)}
    (hT : TblOK t) (hTr : TraceS t P syms evs starts) (hn : P.size = syms.length) :
    ∀ d, d < 3 * P.size → t.opp[phi P d]! ≠ inv → ∃ i, i < P.size ∧ t.opp[phi P d]! / 3 = P[i]! / 3 := by
  have hC := hTr.ctx hT
  intro d hd hne
  have hj : d / 3 < P.size := by omega
  have hf := hTr.face (d / 3) (by omega)
  have ofLater : ∀ e, e ≠ inv → Later P (d / 3) e → ∃ i, i < P.size ∧ e / 3 = P[i]! / 3 := by
    intro e he h
    rcases h with h | ⟨i, hi, _, hf⟩
    · exact absurd h he
    · exact ⟨i, hi, hf⟩
  have ofPrev : ∀ e, 0 < d / 3 → e = P[d / 3 - 1]! → ∃ i, i < P.size ∧ e / 3 = P[i]! / 3 :=
    fun e h0 h => ⟨d / 3 - 1, by omega, by rw [h]⟩
  have e : d = 3 * (d / 3) + d % 3 := by omega
  have h3 : d % 3 = 0 ∨ d % 3 = 1 ∨ d % 3 = 2 := by omega
  by_cases hs : syms[d / 3]! = 1
  · obtain ⟨_, hg, _, h0, hr, _, hnoev, hev⟩ := hf.2 hs
    rcases h3 with h | h | h
    · rw [e, h, Nat.add_zero, phi_0] at hne ⊢
      exact ofLater _ hne hg
    · rw [e, h, phi_1] at hne ⊢
      exact ofPrev _ h0 hr
    · rw [e, h, phi_2] at hne ⊢
      cases hv : hasEv syms.length evs (d / 3) with
      | false =>
        obtain ⟨hlen, hl⟩ := hnoev hv
        have hmem : (stk syms evs (d / 3))[1]! ∈ stk syms evs (d / 3) := by
          rw [getElem!_pos _ 1 hlen]; exact List.getElem_mem hlen
        have := (stk_sorted syms evs (d / 3)).2 _ hmem
        exact ⟨(stk syms evs (d / 3))[1]!, by omega, by rw [hl]⟩
      | true =>
        obtain ⟨hq, hl⟩ := hev hv
        have hqP : syms.length - 1 - (evOf syms.length evs (d / 3)).source < P.size := by omega
        have hpi := hC.p_inv hqP
        refine ⟨_, hqP, ?_⟩
        rw [hl]
        split
        · exact EncCounts.nextC_div3 _ hpi
        · exact EncCounts.prevC_div3 _ hpi
  · obtain ⟨_, hg, _, hE, hR, hL, hCc, hsym⟩ := hf.1 hs
    rcases h3 with h | h | h
    · rw [e, h, Nat.add_zero, phi_0] at hne ⊢
      exact ofLater _ hne hg
    · rw [e, h, phi_1] at hne ⊢
      rcases hsym with h7 | h5 | h3 | h0
      · exact ofLater _ hne (hE h7).1
      · exact ofLater _ hne (hR h5).2.1
      · exact ofPrev _ (hL h3).1 (hL h3).2.1
      · exact ofPrev _ (hCc h0).1 (hCc h0).2.1
    · rw [e, h, phi_2] at hne ⊢
      rcases hsym with h7 | h5 | h3 | h0
      · exact ofLater _ hne (hE h7).2
      · exact ofPrev _ (hR h5).1 (hR h5).2.2
      · exact ofLater _ hne (hL h3).2.2
      · obtain ⟨_, _, m, _, hm, hcl, hEar⟩ := hCc h0
        obtain ⟨i, hi, hf⟩ := fan_left hC hj m hm hcl hEar
        exact ⟨i, by omega, hf⟩

/-! ## `vN ≠ vP` from the clause `¬ FanEarlier` of `SAt` -/

/-- `SwingLeft` of the decoder's partial table -/
def dL (dopp : Array Nat) (d : Nat) : Nat := Eb.nextC dopp[Eb.nextC d]!
def dLk (dopp : Array Nat) : Nat → Nat → Nat
  | 0, d => d
  | k+1, d => dL dopp (dLk dopp k d)

/-- the decoder's `Opposite` is an involution where it is defined -/
theorem OInv.invol {t : CT} {P : Array Nat} (hC : Ctx t P) {j : Nat} {dopp : Array Nat} (hO : OInv t P j dopp)
    (hj : j ≤ P.size) {d : Nat} (hd : d < 3 * j) (hne : dopp[d]! ≠ inv) : dopp[d]! < 3 * j ∧ dopp[dopp[d]!]! = d := by
  obtain ⟨h1, h2⟩ := hO.o1 d hd hne
  refine ⟨h1, hO.o2 _ _ h1 hd ?_⟩
  have hlt := hC.phi_lt (d := d) (by omega)
  have hne' : t.opp[phi P d]! ≠ inv := by
    rw [← h2]; have := hC.phi_inv (d := dopp[d]!) (by omega); omega
  rw [h2]
  exact (hC.invol hlt hne').2

theorem nextC_inj3 {x y : Nat} (hx : x < inv) (hy : y < inv) (h : Eb.nextC x = Eb.nextC y) : x = y := by
  have := congrArg Eb.prevC h
  rwa [Eb.prevC_nextC _ hx, Eb.prevC_nextC _ hy] at this

/-- the decoder's swing-left walk from `x0`: as long as it goes on its corners are decoded corners with the label of
    `x0`, and their images are the encoder's swing-left walk -/
theorem dLk_spec {t : CT} {P : Array Nat} (hC : Ctx t P) {j : Nat} {c2v dopp vc : Array Nat}
    (hO : OInv t P j dopp) (hV : VInv t P j c2v dopp vc) (hj : j < P.size) (x0 c0 : Nat) (hx0 : x0 < 3 * j)
    (hphi0 : phi P x0 = sL t c0) :
    ∀ k, (∀ i, i < k → dopp[Eb.nextC (dLk dopp i x0)]! ≠ inv) →
      dLk dopp k x0 < 3 * j ∧ c2v[dLk dopp k x0]! = c2v[x0]! ∧ phi P (dLk dopp k x0) = sLk t (k + 1) c0 := by
  have hinv := hC.fits'
  have i3 : 3 * j ≤ inv := by omega
  intro k
  induction k with
  | zero => intro _; exact ⟨hx0, rfl, hphi0⟩
  | succ k ih =>
    intro hns
    obtain ⟨hd, hl, hp⟩ := ih (fun i hi => hns i (by omega))
    have hk := hns k (by omega)
    have hnd := nextC_lt3 hd i3
    obtain ⟨o1a, o1b⟩ := hO.o1 _ hnd hk
    have hdi : dLk dopp k x0 < inv := by omega
    refine ⟨nextC_lt3 o1a i3, ?_, ?_⟩
    · show c2v[Eb.nextC dopp[Eb.nextC (dLk dopp k x0)]!]! = _
      rw [(hV.hedge _ hnd hk).1, Eb.prevC_nextC _ hdi, hl]
    · show phi P (Eb.nextC dopp[Eb.nextC (dLk dopp k x0)]!) = sL t (sLk t (k + 1) c0)
      rw [phi_nextC P _ (by omega) (hC.p_inv (i := dopp[Eb.nextC (dLk dopp k x0)]! / 3) (by omega)), o1b,
        phi_nextC P _ hdi (hC.p_inv (i := dLk dopp k x0 / 3) (by omega)), hp]
      rfl

/-- the walk from the right end `Next b` of a chain (`dopp[b] = inv`) never repeats a corner -/
theorem dLk_norep {t : CT} {P : Array Nat} (hC : Ctx t P) {j : Nat} {c2v dopp vc : Array Nat}
    (hO : OInv t P j dopp) (hV : VInv t P j c2v dopp vc) (hj : j < P.size) (b c0 : Nat) (hb : b < 3 * j)
    (hob : dopp[b]! = inv) (hphi0 : phi P (Eb.nextC b) = sL t c0) :
    ∀ i k', i < k' → (∀ i', i' < k' → dopp[Eb.nextC (dLk dopp i' (Eb.nextC b))]! ≠ inv) →
      dLk dopp i (Eb.nextC b) ≠ dLk dopp k' (Eb.nextC b) := by
  have hinv := hC.fits'
  have i3 : 3 * j ≤ inv := by omega
  have hx0 := nextC_lt3 hb i3
  intro i
  induction i with
  | zero =>
    intro k' hk' hns e
    obtain ⟨k'', rfl⟩ : ∃ k'', k' = k'' + 1 := ⟨k' - 1, by omega⟩
    obtain ⟨hy, _, _⟩ := dLk_spec hC hO hV hj _ c0 hx0 hphi0 k'' (fun i hi => hns i (by omega))
    have hk := hns k'' (by omega)
    have hny := nextC_lt3 hy i3
    obtain ⟨o1, o2⟩ := hO.invol hC (by omega) hny hk
    have e' : Eb.nextC b = Eb.nextC dopp[Eb.nextC (dLk dopp k'' (Eb.nextC b))]! := e
    have := nextC_inj3 (by omega) (by omega) e'
    rw [this, o2] at hob
    omega
  | succ i ih =>
    intro k' hk' hns e
    obtain ⟨k'', rfl⟩ : ∃ k'', k' = k'' + 1 := ⟨k' - 1, by omega⟩
    obtain ⟨hy1, _, _⟩ := dLk_spec hC hO hV hj _ c0 hx0 hphi0 i (fun i' hi => hns i' (by omega))
    obtain ⟨hy2, _, _⟩ := dLk_spec hC hO hV hj _ c0 hx0 hphi0 k'' (fun i' hi => hns i' (by omega))
    have hk1 := hns i (by omega)
    have hk2 := hns k'' (by omega)
    obtain ⟨a1, a2⟩ := hO.invol hC (by omega) (nextC_lt3 hy1 i3) hk1
    obtain ⟨b1, b2⟩ := hO.invol hC (by omega) (nextC_lt3 hy2 i3) hk2
    have e' : Eb.nextC dopp[Eb.nextC (dLk dopp i (Eb.nextC b))]! =
        Eb.nextC dopp[Eb.nextC (dLk dopp k'' (Eb.nextC b))]! := e
    have e2 := nextC_inj3 (by omega) (by omega) e'
    have e3 : Eb.nextC (dLk dopp i (Eb.nextC b)) = Eb.nextC (dLk dopp k'' (Eb.nextC b)) := by
      rw [← a2, e2, b2]
    exact ih k'' (by omega) (fun i' hi => hns i' (by omega)) (nextC_inj3 (by omega) (by omega) e3)

/-- two decoded corners of one face with the same decoder vertex are the same corner (the encoder's faces are not
    degenerate) -/
theorem same_corner {t : CT} {P : Array Nat} {j : Nat} {c2v dopp vc : Array Nat} (hV : VInv t P j c2v dopp vc)
    (hnd : ∀ i, i < j → t.c2v[P[i]!]! ≠ t.c2v[Eb.nextC P[i]!]! ∧ t.c2v[P[i]!]! ≠ t.c2v[Eb.prevC P[i]!]! ∧
      t.c2v[Eb.nextC P[i]!]! ≠ t.c2v[Eb.prevC P[i]!]!)
    {d d' : Nat} (hd : d < 3 * j) (hd' : d' < 3 * j) (hf : d / 3 = d' / 3) (hl : c2v[d]! = c2v[d']!) : d = d' := by
  have hfine := hV.fine d d' hd hd' hl
  obtain ⟨n1, n2, n3⟩ := hnd (d / 3) (by omega)
  have c1 : d = 3 * (d / 3) ∨ d = 3 * (d / 3) + 1 ∨ d = 3 * (d / 3) + 2 := by omega
  have c2 : d' = 3 * (d / 3) ∨ d' = 3 * (d / 3) + 1 ∨ d' = 3 * (d / 3) + 2 := by omega
  rcases c1 with e1 | e1 | e1 <;> rcases c2 with e2 | e2 | e2 <;> rw [e1, e2] at hfine ⊢ <;>
    simp only [phi_0, phi_1, phi_2] at hfine
  · exact absurd hfine n1
  · exact absurd hfine n2
  · exact absurd hfine.symm n1
  · exact absurd hfine n3
  · exact absurd hfine.symm n2
  · exact absurd hfine.symm n3

/-- **the two copies of the tip vertex of an `S` face are different decoder vertices**: otherwise the decoder's swing-left
    walk from `Next b` ends in `Prev a` (the recorded left-most corner), and face `j` closes the fan of the encoder's vertex
    with faces decoded earlier — excluded by the clause `¬ FanEarlier` of `SAt` -/
theorem vN_ne_vP {t : CT} {P : Array Nat} (hC : Ctx t P) {j : Nat} {c2v dopp vc : Array Nat}
    (hO : OInv t P j dopp) (hV : VInv t P j c2v dopp vc) (hj : j < P.size) {a b : Nat} (ha : a < 3 * j) (hb : b < 3 * j)
    (hoa : dopp[a]! = inv) (hob : dopp[b]! = inv)
    (hpa : phi P a = t.opp[Eb.prevC P[j]!]!) (hpb : phi P b = t.opp[Eb.nextC P[j]!]!)
    (hnd : ∀ i, i < j → t.c2v[P[i]!]! ≠ t.c2v[Eb.nextC P[i]!]! ∧ t.c2v[P[i]!]! ≠ t.c2v[Eb.prevC P[i]!]! ∧
      t.c2v[Eb.nextC P[i]!]! ≠ t.c2v[Eb.prevC P[i]!]!)
    (hnf : ¬ FanEarlier t P j P[j]!) : c2v[Eb.nextC b]! ≠ c2v[Eb.prevC a]! := by
  intro e
  have hinv := hC.fits'
  have i3 : 3 * j ≤ inv := by omega
  have hai : a < inv := by omega
  have hbi : b < inv := by omega
  have hpji := hC.p_inv hj
  have hx0 := nextC_lt3 hb i3
  have hphi0 : phi P (Eb.nextC b) = sL t P[j]! := by
    rw [phi_nextC P b hbi (hC.p_inv (i := b / 3) (by omega)), hpb]
    rfl
  have spec := dLk_spec hC hO hV hj _ P[j]! hx0 hphi0
  have norep := dLk_norep hC hO hV hj b P[j]! hb hob hphi0
  -- the walk stops before `j` steps
  have hstop : ∃ r, r < j ∧ (∀ i, i < r → dopp[Eb.nextC (dLk dopp i (Eb.nextC b))]! ≠ inv) ∧
      dopp[Eb.nextC (dLk dopp r (Eb.nextC b))]! = inv := by
    apply Classical.byContradiction
    intro hno
    have hall : ∀ r, r ≤ j → ∀ i, i < r → dopp[Eb.nextC (dLk dopp i (Eb.nextC b))]! ≠ inv := by
      intro r
      induction r with
      | zero => intro _ i hi; omega
      | succ r ih =>
        intro hr i hi
        by_cases hir : i < r
        · exact ih (by omega) i hir
        · have : i = r := by omega
          subst this
          intro hst
          exact hno ⟨i, by omega, ih (by omega), hst⟩
    have hns := hall j (Nat.le_refl _)
    obtain ⟨i, k', hik, hk', hf⟩ := Draco.pigeonhole j (fun i => dLk dopp i (Eb.nextC b) / 3) (fun i hi => by
      have := (spec i (fun i' hi' => hns i' (by omega))).1
      show dLk dopp i (Eb.nextC b) / 3 < j
      omega)
    obtain ⟨d1, l1, _⟩ := spec i (fun i' hi' => hns i' (by omega))
    obtain ⟨d2, l2, _⟩ := spec k' (fun i' hi' => hns i' (by omega))
    exact norep i k' hik (fun i' hi' => hns i' (by omega)) (same_corner hV hnd d1 d2 hf (by rw [l1, l2]))
  obtain ⟨r, hrj, hns, hst⟩ := hstop
  obtain ⟨hl, hlab, hphi⟩ := spec r hns
  -- the walk ends in the recorded left-most corner `Prev a`
  have hpa' := prevC_lt3 ha i3
  have h1 := hV.lm _ hl hst
  have h2 := hV.lm _ hpa' (by rw [Eb.nextC_prevC _ hai]; exact hoa)
  have hend : dLk dopp r (Eb.nextC b) = Eb.prevC a := by rw [← h1, hlab, e, h2]
  -- the encoder's fan is closed by face `j`
  have hplt : Eb.prevC P[j]! < t.numCorners := AttViews.prevC_ltN hC.tbl.base.n3 hC.tbl.base.le (hC.plt j hj)
  have hneA : t.opp[Eb.prevC P[j]!]! ≠ inv := by
    rw [← hpa]; have := hC.phi_inv (d := a) (by omega); omega
  obtain ⟨-, hinA⟩ := hC.invol hplt hneA
  apply hnf
  refine ⟨r + 2, by omega, by omega, ?_, ?_⟩
  · show sL t (sLk t (r + 1) P[j]!) = P[j]!
    rw [← hphi, hend]
    unfold sL
    rw [← phi_nextC P _ (by omega) (hC.p_inv (i := Eb.prevC a / 3) (by omega)), Eb.nextC_prevC _ hai, hpa, hinA,
      Eb.nextC_prevC _ hpji]
  · intro k hk h0
    obtain ⟨k0, rfl⟩ : ∃ k0, k = k0 + 1 := ⟨k - 1, by omega⟩
    obtain ⟨hd, _, hp⟩ := spec k0 (fun i hi => hns i (by omega))
    rw [← hp]
    refine ⟨by have := hC.phi_inv (d := dLk dopp k0 (Eb.nextC b)) (by omega); omega,
      dLk dopp k0 (Eb.nextC b) / 3, by omega, hC.phi_fc (by omega)⟩

/-- the faces of the symbols are not degenerate -/
theorem TraceAtS.nd {t : CT} {P : Array Nat} {syms : List Nat} {evs : List TopoSplit} {j : Nat}
    (h : TraceAtS t P syms evs j) : t.c2v[P[j]!]! ≠ t.c2v[Eb.nextC P[j]!]! ∧ t.c2v[P[j]!]! ≠ t.c2v[Eb.prevC P[j]!]! ∧
      t.c2v[Eb.nextC P[j]!]! ≠ t.c2v[Eb.prevC P[j]!]! := by
  by_cases hs : syms[j]! = 1
  · exact (h.2 hs).2.2.1
  · exact (h.1 hs).2.2.1

/-- the stack invariant holds initially -/
theorem StkInv.init (syms : List Nat) (evs : List TopoSplit) (nf maxV : Nat) :
    StkInv syms evs 0 (DSS.init syms.length nf maxV) :=
  ⟨by simp [DSS.init, stk], by simp [DSS.init], fun ev _ h => absurd h (by omega), fun i hi _ => by simp [DSS.init, hi]⟩

/-- **one symbol of `StS` preserves the invariant** — `hNP` of `inv_stepSS` discharged by `vN_ne_vP`.  Remaining
    parameters: `hstk` (`StkInv` after the step) and `hcAev` (the facts about `cornerA` for an `S` with a split event) -/
theorem inv_stepSS' {t : CT} {P : Array Nat} {syms : List Nat} {evs : List TopoSplit} {starts : List (Bool × Nat)}
    (hT : TblOK t) (hTr : TraceS t P syms evs starts) {j : Nat} {s : DSS} (hI : InvS t P syms evs j s)
    (hj : j < syms.length)
    (hstk : StkInv syms evs (j + 1) (stepSS syms.length evs syms[j]! j s))
    (hcAev : syms[j]! = 1 → hasEv syms.length evs j = true →
      cornerAS j s < 3 * j ∧ cornerAS j s ≠ 3 * (j - 1) ∧ phi P (cornerAS j s) = t.opp[Eb.prevC P[j]!]!) :
    InvS t P syms evs (j + 1) (stepSS syms.length evs syms[j]! j s) := by
  have hC := hTr.ctx hT
  refine inv_stepSS hC hTr hI hj hstk hcAev ?_
  intro hs
  have hsz := hTr.size
  have hjP : j < P.size := by omega
  have hinv := hC.fits'
  obtain ⟨hp, hg, _, hA⟩ := (hTr.face j hj).2 hs
  obtain ⟨hB, hb, hpb⟩ := cornerB_of_stk hI.k hA
  have hAfacts : cornerAS j s < 3 * j ∧ cornerAS j s ≠ 3 * (j - 1) ∧
      phi P (cornerAS j s) = t.opp[Eb.prevC P[j]!]! := by
    cases hev : hasEv syms.length evs j with
    | true => exact hcAev hs hev
    | false =>
      obtain ⟨e, he, h1, h2, h3⟩ := cornerA_of_stk_noev hI.k hA hj hev
      unfold cornerAS
      rw [he]
      exact ⟨h1, h2, h3⟩
  obtain ⟨ha, hab, hpa⟩ := hAfacts
  -- both corners are open
  have hbt := hC.tbl.base
  have hpj := hC.plt j hjP
  have hpji := hC.p_inv hjP
  have hplt : Eb.prevC P[j]! < t.numCorners := AttViews.prevC_ltN hbt.n3 hbt.le hpj
  have hnlt : Eb.nextC P[j]! < t.numCorners := AttViews.nextC_ltN hbt.n3 hpj
  have hpai := hC.phi_inv (d := cornerAS j s) (by omega)
  have hpbi := hC.phi_inv (d := 3 * (j - 1)) (by omega)
  have hneA : t.opp[Eb.prevC P[j]!]! ≠ inv := by rw [← hpa]; omega
  have hneB : t.opp[Eb.nextC P[j]!]! ≠ inv := by rw [← hpb]; omega
  obtain ⟨-, hinA⟩ := hC.invol hplt hneA
  obtain ⟨-, hinB⟩ := hC.invol hnlt hneB
  have hoa : s.opp[cornerAS j s]! = inv := hI.o.inv_of_later hC (by omega) ha
    (Or.inr ⟨j, hjP, Nat.le_refl _, by rw [hpa, hinA]; exact EncCounts.prevC_div3 _ hpji⟩)
  have hob : s.opp[3 * (j - 1)]! = inv := hI.o.inv_of_later hC (by omega) hb
    (Or.inr ⟨j, hjP, Nat.le_refl _, by rw [hpb, hinB]; exact EncCounts.nextC_div3 _ hpji⟩)
  rw [hB]
  exact vN_ne_vP hC hI.o hI.v hjP ha hb hoa hob hpa hpb
    (fun i hi => (hTr.face i (by omega)).nd) hA.2.2.1

/-- the invariant along the whole run of `StS`, given `StkInv` (initially and through every step) and the split-event
    facts about `cornerA` -/
theorem inv_StS' {t : CT} {P : Array Nat} {syms : List Nat} {evs : List TopoSplit} {starts : List (Bool × Nat)}
    (hT : TblOK t) (hTr : TraceS t P syms evs starts) (maxV : Nat)
    (hstk : ∀ j, j < syms.length → StkInv syms evs j (StS syms evs P.size maxV j) →
      StkInv syms evs (j + 1) (StS syms evs P.size maxV (j + 1)))
    (hcAev : ∀ j, j < syms.length → syms[j]! = 1 → hasEv syms.length evs j = true →
      StkInv syms evs j (StS syms evs P.size maxV j) →
      cornerAS j (StS syms evs P.size maxV j) < 3 * j ∧ cornerAS j (StS syms evs P.size maxV j) ≠ 3 * (j - 1) ∧
        phi P (cornerAS j (StS syms evs P.size maxV j)) = t.opp[Eb.prevC P[j]!]!) :
    ∀ j, j ≤ syms.length → InvS t P syms evs j (StS syms evs P.size maxV j)
  | 0, _ => ⟨OInv.init t P, ⟨by simp [StS, DSS.init], by simp [StS, DSS.init], fun d hd => absurd hd (by omega),
      fun d hd => absurd hd (by omega), fun d hd => absurd hd (by omega), fun d _ hd => absurd hd (by omega)⟩,
      StkInv.init syms evs P.size maxV⟩
  | j+1, h => by
    have ih := inv_StS' hT hTr maxV hstk hcAev j (by omega)
    exact inv_stepSS' hT hTr ih (by omega) (hstk j (by omega) ih.k) (fun h1 h2 => hcAev j (by omega) h1 h2 ih.k)

/-- **`CTIso` for the tables of `StS` after all symbols** (before the compaction, no interior start faces) -/
theorem ctIso_StS {t : CT} {P : Array Nat} {syms : List Nat} {evs : List TopoSplit} {starts : List (Bool × Nat)}
    (hT : TblOK t) (hTr : TraceS t P syms evs starts) (hn : P.size = syms.length) (maxV : Nat)
    (hstk : ∀ j, j < syms.length → StkInv syms evs j (StS syms evs P.size maxV j) →
      StkInv syms evs (j + 1) (StS syms evs P.size maxV (j + 1)))
    (hcAev : ∀ j, j < syms.length → syms[j]! = 1 → hasEv syms.length evs j = true →
      StkInv syms evs j (StS syms evs P.size maxV j) →
      cornerAS j (StS syms evs P.size maxV j) < 3 * j ∧ cornerAS j (StS syms evs P.size maxV j) ≠ 3 * (j - 1) ∧
        phi P (cornerAS j (StS syms evs P.size maxV j)) = t.opp[Eb.prevC P[j]!]!)
    (hcov : ∀ d, d < 3 * P.size → ∃ k, iter (AttViews.sRP t.opp) k t.vc[t.c2v[phi P d]!]! = phi P d)
    (hvlt : ∀ d, d < 3 * P.size → t.c2v[phi P d]! < t.numVertices) :
    CTIso t P P.size (StS syms evs P.size maxV syms.length).c2v (StS syms evs P.size maxV syms.length).opp := by
  have hI := inv_StS' hT hTr maxV hstk hcAev syms.length (Nat.le_refl _)
  rw [← hn] at hI
  have := ctIso_StS_pre (hTr.ctx hT) (syms := syms) (evs := evs) hI (hTr.closed hT hn) hcov hvlt
  rw [hn] at this ⊢
  exact this

end Draco.EbEnc.DecSim
