import DracoProofs.EbCountsRun
import DracoProofs.EbValuesRefine
/-
  The two remaining CORRESPONDENCE hypotheses of `CountsIso.eb_encoded_points_eq_decoded_of_run`:

  (2) `SeamFlagsSound co attsD` is a pure DECODER-side theorem about `buildAttConn` (`seamFlagsSound_of_build`):
      `AddSeamEdge` marks both end points of every seam edge (`markSeams_sv`, new), so around a base vertex that is not
      marked no corner has a seam edge on its left, and `RecomputeVertices` gives all corners of a closed fan of such a
      vertex the same attribute vertex (`build_const_of_not_seam`, from `AttViews.recomputeG_same_vertex`).

  (1) `AttVertIff n attsD used (phi conn.processed)` follows from the per-attribute view isomorphisms
      `AttViews.att_views_iso_nondeg` (`attVertIff_of_run`), whose encoder-side hypotheses come from the run
      (`ofTable_hvcE`, `phi_nondeg_of_run`, `initFromAttribute_seam_vertices`, `initFromAttribute_ok`), the decoder-side ones
      from `APHyp` + `markSeams_sv`; what remains is the seam part of the link, the ONE hypothesis `SeamLink`:
      the decoder's `is_edge_on_seam_` flags are the encoder's at the images.
-/
namespace Draco.EbEnc.CountsIso
open Draco
open Draco.Eb hiding nextC prevC iabs
open Draco.Counts
open Draco.EbEnc.EncCounts AttViews Seams

/-! ## (2a) `AddSeamEdge` marks the end points of every seam edge -/

theorem vertex_ok_get {c2v : Array Nat} {x v : Nat} (h : Eb.vertex c2v x = .ok v) (hx : x ≠ inv) : v = c2v[x]! := by
  unfold Eb.vertex at h
  rw [beq_inv_false hx] at h
  simp only [Bool.false_eq_true, if_false] at h
  obtain ⟨hi, e⟩ := rd_ok h
  rw [← e]; simp [hi]

/-- a flag that reads `true` is inside the array -/
theorem getB_true_lt {a : Array Bool} {i : Nat} (h : a[i]! = true) : i < a.size := by
  by_cases hi : i < a.size
  · exact hi
  · rw [getElem!_neg a i hi] at h; cases h

/-- writing `true` keeps the `true` flags and sets the written one -/
theorem wrB_true {site : String} {a r : Array Bool} {i : Nat} (h : wrB site a i true = .ok r) :
    r[i]! = true ∧ ∀ w : Nat, a[w]! = true → r[w]! = true := by
  obtain ⟨h1, _, h3⟩ := wrB_ok h
  refine ⟨by rw [h3 i h1]; simp, fun w hw => ?_⟩
  rw [h3 w (getB_true_lt hw)]
  split
  · rfl
  · exact hw

/-- the end points of the seam edges are marked -/
def SVD (N : Nat) (c2v : Array Nat) (es vs : Array Bool) : Prop :=
  ∀ d, d < N → es[d]! = true → vs[c2v[Eb.nextC d]!]! = true ∧ vs[c2v[Eb.prevC d]!]! = true

theorem bacStep_vs {N : Nat} {c2vBase opp : Array Nat} (hb : BaseTbl N opp) (c : Nat) (st : BSt) (r : ForInStep BSt)
    (hsz : st.1.size = N) (h : bacStep c2vBase opp c st = .ok r) :
    ∃ st', r = .yield st' ∧ (∀ w : Nat, st.2.1[w]! = true → st'.2.1[w]! = true) ∧
      st'.2.1[c2vBase[Eb.nextC c]!]! = true ∧ st'.2.1[c2vBase[Eb.prevC c]!]! = true ∧
      (opp[c]! ≠ inv → st'.2.1[c2vBase[Eb.nextC opp[c]!]!]! = true ∧ st'.2.1[c2vBase[Eb.prevC opp[c]!]!]! = true) := by
  have hle := hb.le
  unfold bacStep at h
  rw [bind_ok_iff] at h
  obtain ⟨es, h1, h⟩ := h
  rw [bind_ok_iff] at h
  obtain ⟨v1, hv1, h⟩ := h
  rw [bind_ok_iff] at h
  obtain ⟨vs1, hw1, h⟩ := h
  rw [bind_ok_iff] at h
  obtain ⟨v2, hv2, h⟩ := h
  rw [bind_ok_iff] at h
  obtain ⟨vs2, hw2, h⟩ := h
  rw [bind_ok_iff] at h
  obtain ⟨oc, ho, h⟩ := h
  obtain ⟨w1, _, _⟩ := wrB_ok h1
  have hcN : c < N := by omega
  have hoc := opposite_ok ho (by omega)
  subst hoc
  have e1 := vertex_ok_get hv1 (hb.ne_inv (nextC_ltN hb.n3 hcN))
  have e2 := vertex_ok_get hv2 (hb.ne_inv (prevC_ltN hb.n3 hb.le hcN))
  subst e1 e2
  obtain ⟨a1, m1⟩ := wrB_true hw1
  obtain ⟨a2, m2⟩ := wrB_true hw2
  by_cases hne : (opp[c]! != inv) = true
  · rw [if_pos hne, bind_ok_iff] at h
    obtain ⟨es2, _, h⟩ := h
    rw [bind_ok_iff] at h
    obtain ⟨v3, hv3, h⟩ := h
    rw [bind_ok_iff] at h
    obtain ⟨vs3, hw3, h⟩ := h
    rw [bind_ok_iff] at h
    obtain ⟨v4, hv4, h⟩ := h
    rw [bind_ok_iff] at h
    obtain ⟨vs4, hw4, h⟩ := h
    simp only [pure, Except.pure] at h
    cases h
    have hne' : opp[c]! ≠ inv := by simpa using hne
    have hoN := (hb.invol c hcN hne').1
    have e3 := vertex_ok_get hv3 (hb.ne_inv (nextC_ltN hb.n3 hoN))
    have e4 := vertex_ok_get hv4 (hb.ne_inv (prevC_ltN hb.n3 hb.le hoN))
    subst e3 e4
    obtain ⟨a3, m3⟩ := wrB_true hw3
    obtain ⟨a4, m4⟩ := wrB_true hw4
    exact ⟨_, rfl, fun w hw => m4 w (m3 w (m2 w (m1 w hw))), m4 _ (m3 _ (m2 _ a1)), m4 _ (m3 _ a2),
      fun _ => ⟨m4 _ a3, a4⟩⟩
  · rw [if_neg hne] at h
    simp only [pure, Except.pure] at h
    cases h
    have hne' : opp[c]! = inv := by simpa using hne
    exact ⟨_, rfl, fun w hw => m2 w (m1 w hw), m2 _ a1, a2, fun hx => absurd hne' hx⟩

theorem markLoop_sv {N : Nat} {c2vBase opp : Array Nat} (hb : BaseTbl N opp) : ∀ (l : List Nat) (init s : BSt),
    init.1.size = N → forIn l init (bacStep c2vBase opp) = .ok s →
    SVD N c2vBase init.1 init.2.1 → SVD N c2vBase s.1 s.2.1 := by
  intro l
  induction l with
  | nil =>
    intro init s _ h hI
    simp only [List.forIn_nil, pure, Except.pure] at h
    cases h
    exact hI
  | cons a l ih =>
    intro init s hsz h hI
    rw [List.forIn_cons, bind_ok_iff] at h
    obtain ⟨r, h1, h2⟩ := h
    have hle := hb.le
    obtain ⟨st', e, k1, k2, k3⟩ := bacStep_ok c2vBase opp a init r (by omega) h1
    obtain ⟨st'', e', j1, j2, j3, j4⟩ := bacStep_vs hb a init r hsz h1
    subst e
    cases e'
    dsimp only at h2
    refine ih st' s (by omega) h2 ?_
    intro d hd hflag
    rw [k3 d (by omega)] at hflag
    rcases hflag with hold | rfl | ⟨hne, rfl⟩
    · obtain ⟨p1, p2⟩ := hI d hd hold
      exact ⟨j1 _ p1, j1 _ p2⟩
    · exact ⟨j2, j3⟩
    · exact j4 hne

/-- **`AddSeamEdge`**: after the first loop of `buildAttConn` both end points of every seam edge are marked in
    `is_vertex_on_seam_` -/
theorem markSeams_sv {N : Nat} {c2vBase opp vc sc : Array Nat} (hb : BaseTbl N opp) (hszc : c2vBase.size = N)
    {s : BSt} (h : markSeams c2vBase opp vc sc = .ok s) : SVD N c2vBase s.1 s.2.1 := by
  unfold markSeams at h
  rw [← Array.forIn_toList] at h
  refine markLoop_sv hb sc.toList _ s (by simpa using hszc) h ?_
  intro d hd hflag
  exfalso
  simp only [] at hflag
  rw [getElem!_pos _ d (by simpa using (by omega : d < c2vBase.size))] at hflag
  simp at hflag

/-- the decoder's `hsvD` of `att_views_iso`, for every successful `buildAttConn` -/
theorem buildAttConn_sv {N : Nat} {c2vBase opp vc sc : Array Nat} (hb : BaseTbl N opp) (hszc : c2vBase.size = N)
    {a : AttConn} (h : buildAttConn c2vBase opp vc sc = .ok a) :
    ∀ c, c < N → a.edgeSeam[c]! = true →
      a.vertSeam[c2vBase[Eb.prevC c]!]! = true ∧ a.vertSeam[c2vBase[Eb.nextC c]!]! = true := by
  obtain ⟨s, hs, e1, e2, _⟩ := buildAttConn_recompute c2vBase opp vc sc a h
  intro c hc hf
  rw [e1] at hf
  rw [e2]
  obtain ⟨p1, p2⟩ := markSeams_sv hb hszc hs c hc hf
  exact ⟨p2, p1⟩

/-! ## (2b) around a vertex that is not on a seam all corners get the same attribute vertex -/

/-- without seam edges on the left, attribute `SwingLeft` steps lead from a corner of the fan back to its left-most
    corner -/
theorem aL_iter_to_start {N : Nat} {opp vc : Array Nat} {bv : Nat → Nat} (ht : FanTbl N opp vc bv) (es : Array Bool)
    {c0 : Nat} (hc0 : c0 < N) (hns : ∀ x, InFan opp c0 x → es[Eb.nextC x]! = false) :
    ∀ i g, iter (sRP opp) i c0 = g → g ≠ inv → iter (aLP opp es) i g = c0 := by
  have hb := ht.toBaseTbl
  intro i
  induction i with
  | zero => intro g h _; exact h.symm
  | succ i ih =>
    intro g h hne
    rw [iter_succ'] at h
    have hg' : iter (sRP opp) i c0 ≠ inv := by
      intro e; rw [e, sRP_inv] at h; exact hne h.symm
    have hg'N : iter (sRP opp) i c0 < N := (ht.bv_iter hc0 i hg').1
    obtain ⟨hgN, hsl⟩ := hb.sR_sL hg'N h hne
    have hfl := hns g ⟨hne, i + 1, by rw [iter_succ']; exact h⟩
    have hstep : aLP opp es g = iter (sRP opp) i c0 := by
      rcases hb.aL_cases es hgN with ⟨_, h1 | h1⟩ | ⟨_, _, h1⟩
      · rw [hfl] at h1; cases h1
      · rw [hsl] at h1; exact absurd h1 hg'
      · rw [h1, hsl]
    show iter (aLP opp es) i (aLP opp es g) = c0
    rw [hstep]
    exact ih _ rfl hg'

/-- **`RecomputeVertices` on a vertex without seam**: the corners of a closed fan of a base vertex that is not marked in
    `is_vertex_on_seam_` all get the same attribute vertex -/
theorem build_const_of_not_seam {N : Nat} {c2vBase opp vc sc : Array Nat}
    (ht : FanTbl N opp vc (fun c => c2vBase[c]!)) (hszc : c2vBase.size = N)
    {a : AttConn} (h : buildAttConn c2vBase opp vc sc = .ok a)
    (v : Nat) (hv : v < vc.size) (hc0 : vc[v]! ≠ inv) (hcl : ∀ k, iter (sRP opp) k vc[v]! ≠ inv)
    (hvs : a.vertSeam[v]! = false) :
    ∀ x y, InFan opp vc[v]! x → InFan opp vc[v]! y → a.c2v[x]! = a.c2v[y]! := by
  have hb := ht.toBaseTbl
  have hsv := buildAttConn_sv hb hszc h
  obtain ⟨s, hs, e1, e2, hrun⟩ := buildAttConn_recompute c2vBase opp vc sc a h
  have hes : a.edgeSeam.size = N := by
    unfold markSeams at hs
    rw [← Array.forIn_toList] at hs
    have hle := hb.le
    obtain ⟨k1, _, _⟩ := Seams.markLoop_ok c2vBase opp sc.toList _ s (by simp; omega) hs
    rw [e1, k1]
    simpa using hszc
  rw [← e1, ← e2, hszc] at hrun
  obtain ⟨hcN, hbv0⟩ := ht.vcOK v hv hc0
  have hns : ∀ x, InFan opp vc[v]! x → a.edgeSeam[Eb.nextC x]! = false :=
    seamVert_of_flags ht a.edgeSeam a.vertSeam (fun c hc hf => (hsv c hc hf).1) v hv hc0 hvs
  have hfan : FanHyp opp vc a.edgeSeam a.vertSeam v := ⟨fun _ => hcl, fun _ => hns⟩
  intro x y hx hy
  obtain ⟨hxN, hbx⟩ := ht.inFan_bv v hv hc0 x hx
  obtain ⟨hyN, hby⟩ := ht.inFan_bv v hv hc0 y hy
  have hbx : c2vBase[x]! = v := hbx
  have hby : c2vBase[y]! = v := hby
  rw [recomputeG_same_vertex ht a.edgeSeam a.vertSeam hes a.c2v a.lm hrun x y
    (by rw [hbx]; exact hv) (by rw [hby]; exact hv)
    (by rw [hbx]; exact hx) (by rw [hby]; exact hy)
    (by rw [hbx]; exact hfan) (by rw [hby]; exact hfan)]
  obtain ⟨hxne, i, hi⟩ := hx
  obtain ⟨hyne, j, hj⟩ := hy
  refine ⟨i, j, ?_, ?_⟩
  · rw [aL_iter_to_start ht a.edgeSeam hcN hns i x hi hxne, aL_iter_to_start ht a.edgeSeam hcN hns j y hj hyne]
  · rw [aL_iter_to_start ht a.edgeSeam hcN hns i x hi hxne]; exact hc0

/-! ## (2c) `SeamFlagsSound` -/

theorem orbitAux_mem (opp : Array Nat) (c0 : Nat) : ∀ (fuel c x : Nat), x ∈ orbitAux opp c0 fuel c →
    x ≠ inv ∧ ∃ k, iter (sRP opp) k c = x := by
  intro fuel
  induction fuel with
  | zero => intro c x h; simp [orbitAux] at h
  | succ fuel ih =>
    intro c x h
    unfold orbitAux at h
    split at h
    · cases h
    · rename_i hc
      rcases List.mem_cons.mp h with rfl | h'
      · exact ⟨hc, 0, rfl⟩
      · split at h'
        · cases h'
        · obtain ⟨p1, k, hk⟩ := ih _ _ h'
          exact ⟨p1, k + 1, hk⟩

theorem fanCorners_inFan {opp : Array Nat} {c0 x : Nat} (h : x ∈ fanCorners opp c0) : InFan opp c0 x :=
  orbitAux_mem opp c0 _ c0 x h

theorem map_getD_lt {α : Type} (l : List α) (f : α → Nat) (i : Nat) (hi : i < l.length) :
    (l.map f).getD i 0 = f l[i] := by
  simp [List.getD_eq_getElem?_getD, hi]

theorem map_getDB_lt {α : Type} (l : List α) (f : α → Bool) (i : Nat) (hi : i < l.length) :
    (l.map f).getD i false = f l[i] := by
  simp [List.getD_eq_getElem?_getD, hi]

/-- **(2) `SeamFlagsSound` is a theorem about `buildAttConn`.**  `APHyp n co` (the decoder's table has fans; a vertex that
    is not marked as hole vertex has a closed fan), `co.c2v` has `3 n` entries, and every attribute corner table of the
    decoder was built by `buildAttConn` on the decoder's table (from any seam corners): if an attribute is not constant
    around an interior vertex, `IsCornerOnSeam(LeftMostCorner(v))` holds for it. -/
theorem seamFlagsSound_of_build {n : Nat} {co : ConnOut} {attsD : Array AttConn} (hdec : APHyp n co)
    (hszc : co.c2v.size = 3 * n)
    (hbuild : ∀ i (hi : i < attsD.size), ∃ sc, buildAttConn co.c2v co.opp co.vc sc = .ok attsD[i]) :
    SeamFlagsSound co attsD := by
  intro v hv hne hclosed i hi hdiff
  have hi' : i < attsD.toList.length := by
    have : (fanOfD co attsD v).onSeam.length = attsD.toList.length := by
      show (attsD.toList.map _).length = _
      rw [List.length_map]
    omega
  have hiA : i < attsD.size := by simpa using hi'
  obtain ⟨sc, hb⟩ := hbuild i hiA
  have hhole : co.hole[v]! = false := by
    have : (!co.hole[v]!) = true := hclosed
    simpa using this
  have hcl := hdec.closed v hv hne hhole
  obtain ⟨_, hbv0⟩ := hdec.tbl.vcOK v hv hne
  have hbv0 : co.c2v[co.vc[v]!]! = v := hbv0
  show (attsD.toList.map fun a => a.vertSeam[co.c2v[co.vc[v]!]!]!).getD i false = true
  rw [map_getDB_lt _ _ i hi', hbv0, Array.getElem_toList]
  cases hvs : attsD[i].vertSeam[v]! with
  | true => rfl
  | false =>
    exfalso
    have hconst := build_const_of_not_seam hdec.tbl hszc hb v hv hne hcl hvs
    obtain ⟨a, ha, b, hb', hab⟩ := hdiff
    have ha' : a ∈ (fanCorners co.opp co.vc[v]!).map (fanCornerD attsD) := ha
    have hb'' : b ∈ (fanCorners co.opp co.vc[v]!).map (fanCornerD attsD) := hb'
    rw [List.mem_map] at ha' hb''
    obtain ⟨x, hx, rfl⟩ := ha'
    obtain ⟨y, hy, rfl⟩ := hb''
    apply hab
    show (attsD.toList.map fun a => a.c2v[x]!).getD i 0 = (attsD.toList.map fun a => a.c2v[y]!).getD i 0
    rw [map_getD_lt _ _ i hi', map_getD_lt _ _ i hi', Array.getElem_toList]
    exact hconst x y (fanCorners_inFan hx) (fanCorners_inFan hy)

/-! ## (1) `AttVertIff` from the attribute view isomorphisms -/

/-- isomorphic attribute views: two decoder corners have the same attribute vertex iff their images do -/
theorem att_vertex_iff_of_tviso {n m : Nat} {cD oD lD cE oE lE : Array Nat} {sD sE : Array Bool} {φ ψ' : Nat → Nat}
    (h : TVIso { c2v := cD, opp := oD, seam := sD, lm := lD, isAtt := true, numFaces := n }
      { c2v := cE, opp := oE, seam := sE, lm := lE, isAtt := true, numFaces := m } φ ψ') :
    ∀ c c', c < 3 * n → c' < 3 * n → (cD[c]! = cD[c']! ↔ cE[φ c]! = cE[φ c']!) := by
  intro c c' hc hc'
  obtain ⟨v, h1, _, h3, _⟩ := h.vertex c hc
  obtain ⟨v', h1', _, h3', _⟩ := h.vertex c' hc'
  have hinj := h.psi_inj c c' v v' hc hc' h1 h1'
  simp only [TView.vertex, Bool.not_true, Bool.false_and, Bool.false_eq_true, if_false] at h1 h1' h3 h3'
  obtain ⟨_, e1⟩ := AP.rd_ok! h1
  obtain ⟨_, e1'⟩ := AP.rd_ok! h1'
  obtain ⟨_, e3⟩ := AP.rd_ok! h3
  obtain ⟨_, e3'⟩ := AP.rd_ok! h3'
  rw [e1, e1', e3, e3']
  exact ⟨fun e => by rw [e], hinj⟩

/-- **the seam part of the connectivity link**: the decoder's `is_edge_on_seam_` flag of attribute data `i` at a corner is
    the encoder's flag at the image of the corner (what `Seams.seam_flags_correspond` / `eb_seam_flags_correspond` derive
    from the decoded seam bits under `CTIso`) -/
def SeamLink (n : Nat) (attsD used : Array AttConn) (φ : Nat → Nat) : Prop :=
  used.size = attsD.size ∧
    ∀ i, i < attsD.size → ∀ d, d < 3 * n → attsD[i]!.edgeSeam[d]! = used[i]!.edgeSeam[φ d]!

section run
variable {ch : ConnChoices} {valence : Bool} {posFaces : Faces} {acv : Array (Nat × Array Nat)} {conn : ConnEnc}

/-- **(1) `AttVertIff` from the run**: the decoder's attribute corner tables are built by `buildAttConn` on the decoder's
    table, the encoder's by `InitFromAttribute` on the encoder's table, their seam-edge flags correspond (`SeamLink`) ⇒
    the attribute vertices of the decoder's corners and of their images coincide exactly when they do on the other
    side. -/
theorem attVertIff_of_run (henc : encodeConnectivity ch valence posFaces acv = .ok conn)
    {n : Nat} {co : ConnOut} {ψ : Nat → Nat} {attsD used : Array AttConn} (hn : n = conn.processed.size)
    (hiso : TVIso (baseViewD n co.c2v co.opp co.vc) conn.ct.view (phi conn.processed) ψ)
    (hdec : APHyp n co) (hszc : co.c2v.size = 3 * n)
    (hbuild : ∀ i (hi : i < attsD.size), ∃ sc, buildAttConn co.c2v co.opp co.vc sc = .ok attsD[i])
    (hinit : ∀ i (hi : i < used.size), ∃ cv, initFromAttribute conn.ct cv = .ok used[i])
    (hlink : SeamLink n attsD used (phi conn.processed)) :
    AttVertIff n attsD used (phi conn.processed) := by
  obtain ⟨table, _, hcreate, hct, _⟩ := encodeConnectivity_visited ch valence posFaces acv conn henc
  have hnd := phi_nondeg_of_run henc hcreate hct
  rw [hct] at hiso hinit
  have hk := ctok_ofTable hcreate
  have hbE := baseTbl_ofTable hcreate
  refine ⟨hlink.1, ?_⟩
  intro i hi c c' hc hc'
  have hiE : i < used.size := by rw [hlink.1]; exact hi
  obtain ⟨sc, hb⟩ := hbuild i hi
  obtain ⟨cv, hI⟩ := hinit i hiE
  rw [getElem!_pos attsD i hi, getElem!_pos used i hiE]
  obtain ⟨s, _, e1, e2, _, hrE⟩ := initFromAttribute_ok hI
  rw [← e1, ← e2] at hrE
  have hesE := (initFromAttribute_seam_spec hk (fun c hc hne => (hbE.invol c hc hne).2) hI).1
  obtain ⟨ψ', hT⟩ := att_views_iso_nondeg hcreate (CT.ofTable table) rfl n co.c2v co.opp co.vc
    (phi conn.processed) ψ hiso hszc hdec.tbl.oppsz hdec.tbl.vcOK
    (fun d hd => (hdec.cover d hd).2.2) (ofTable_hvcE hcreate) (by rw [hn]; exact hnd)
    sc attsD[i] hb used[i].edgeSeam used[i].vertSeam hesE
    (fun d hd => by
      have := hlink.2 i hi d hd
      rw [getElem!_pos attsD i hi, getElem!_pos used i hiE] at this
      exact this)
    (fun c hc hf => (buildAttConn_sv hdec.tbl.toBaseTbl hszc hb c hc hf).1)
    (fun c _ hf => (initFromAttribute_seam_vertices hk hI c hf).1)
    used[i].c2v used[i].lm hrE
  exact att_vertex_iff_of_tviso hT c c' hc hc'

/-- **C09, Edgebreaker points, from the two runs and the link**: the correspondences `AttVertIff` and `SeamFlagsSound` of
    `eb_encoded_points_eq_decoded_of_run` are replaced by how the attribute corner tables are made (`buildAttConn` on the
    decoder's table, `InitFromAttribute` on the encoder's) and the seam part of the link (`SeamLink`). -/
theorem eb_encoded_points_eq_decoded_of_run2 (atts : Array Attribute) (used : Array AttConn) (nE : Nat)
    (co : ConnOut) (n : Nat) (attsD : Array AttConn) (c2p : Array Nat) (nD tags : Nat) (ψ : Nat → Nat)
    (hatts : atts.size > 1)
    (hrunE : computeNumberOfEncodedPoints atts conn used = .ok nE)
    (henc : encodeConnectivity ch valence posFaces acv = .ok conn)
    (hne : attsD.isEmpty = false)
    (hrunD : assignPoints co n attsD = .ok (c2p, nD, tags))
    (hn : n = conn.processed.size)
    (hiso : TVIso (baseViewD n co.c2v co.opp co.vc) conn.ct.view (phi conn.processed) ψ)
    (hdec : APHyp n co) (hszc : co.c2v.size = 3 * n)
    (hhole : ∀ v, v < co.vc.size → co.vc[v]! ≠ inv → co.hole[v]! = true → ∃ k, iter (sRP co.opp) k co.vc[v]! = inv)
    (hbuild : ∀ i (hi : i < attsD.size), ∃ sc, buildAttConn co.c2v co.opp co.vc sc = .ok attsD[i])
    (hinit : ∀ i (hi : i < used.size), ∃ cv, initFromAttribute conn.ct cv = .ok used[i])
    (hlink : SeamLink n attsD used (phi conn.processed)) :
    nE = nD :=
  eb_encoded_points_eq_decoded_of_run atts used nE co n attsD c2p nD tags ψ hatts hrunE henc hne hrunD hn hiso hdec hhole
    (attVertIff_of_run henc hn hiso hdec hszc hbuild hinit hlink) (seamFlagsSound_of_build hdec hszc hbuild)

end run

end Draco.EbEnc.CountsIso
