import DracoProofs.RobustBasic
/-
  C02 on the model: status discipline.  A computation is *disciplined* when, started with status
  `ok`, it either returns a value and leaves the status `ok`, or returns nothing and leaves a status
  different from `ok` — "the decoder returns ok or an error Status, never neither and never both".
-/
namespace Draco.Robust
open Draco Draco.DecM

structure Disc {α} (m : DecM α) : Prop where
  prop : ∀ s, s.status = .ok →
    (∀ s', m s = (none, s') → s'.status ≠ .ok) ∧ (∀ a s', m s = (some a, s') → s'.status = .ok)

theorem status_ok_beq : (Status.ok == Status.ok) = true := by decide

theorem bind_cases' {α β} (m : DecM α) (f : α → DecM β) (s : DSt) :
    (∃ s1, m s = (none, s1) ∧ (m >>= f) s = (none, s1)) ∨
    (∃ a s1, m s = (some a, s1) ∧ (m >>= f) s = f a s1) := by
  simp only [bind, DecM.andThen]
  rcases hm : m s with ⟨r, s1⟩
  cases r with
  | none => exact Or.inl ⟨s1, rfl, rfl⟩
  | some a => exact Or.inr ⟨a, s1, rfl, rfl⟩

theorem disc_bind {α β} {m : DecM α} {f : α → DecM β} (hm : Disc m) (hf : ∀ a, Disc (f a)) : Disc (m >>= f) := by
  refine ⟨fun s hs => ?_⟩
  have h1 := hm.prop s hs
  rcases bind_cases' m f s with ⟨s1, e1, e2⟩ | ⟨a, s1, e1, e2⟩
  · rw [e2]
    refine ⟨fun s' h => ?_, fun a s' h => ?_⟩
    · cases h; exact h1.1 _ e1
    · cases h
  · rw [e2]; exact (hf a).prop s1 (h1.2 a s1 e1)

theorem disc_pure {α} (a : α) : Disc (pure a : DecM α) := by
  refine ⟨fun s hs => ?_⟩
  refine ⟨fun s' h => ?_, fun b s' h => ?_⟩
  · simp [pure, DecM.ret] at h
  · obtain ⟨_, rfl⟩ := pure_ok h; exact hs

theorem disc_fail {α} : Disc (DecM.fail : DecM α) := by
  refine ⟨fun s hs => ?_⟩
  refine ⟨fun s' h => ?_, fun a s' h => (fail_ok h).elim⟩
  simp only [DecM.fail, Prod.mk.injEq, true_and] at h
  rw [← h, hs]; simp [status_ok_beq]

theorem disc_failWith {α} (st : Status) (hst : st ≠ .ok) : Disc (DecM.failWith st : DecM α) := by
  refine ⟨fun s _ => ?_⟩
  refine ⟨fun s' h => ?_, fun a s' h => (failWith_ok h).elim⟩
  simp only [DecM.failWith, Prod.mk.injEq, true_and] at h
  rw [← h]; exact hst

theorem disc_require (c : Bool) : Disc (require c) := by
  unfold require; split
  · exact disc_pure ()
  · exact disc_fail

theorem disc_ofOption {α} (o : Option α) : Disc (ofOption o) := by
  cases o with
  | none => exact disc_fail
  | some x => exact disc_pure x

theorem disc_lift {α} (r : Rd α) : Disc (lift r) := by
  refine ⟨fun s hs => ?_⟩
  refine ⟨fun s' h => ?_, fun a s' h => ?_⟩
  · unfold lift at h
    split at h
    · simp only [Prod.mk.injEq, true_and] at h
      rw [← h, hs]; simp [status_ok_beq]
    · cases h
  · obtain ⟨rest, _, rfl⟩ := lift_ok h; exact hs

theorem disc_remaining : Disc remaining := by
  refine ⟨fun s hs => ?_⟩
  refine ⟨fun s' h => ?_, fun a s' h => ?_⟩
  · simp [remaining] at h
  · obtain ⟨_, rfl⟩ := remaining_ok h; exact hs

theorem disc_version : Disc version := by
  refine ⟨fun s hs => ?_⟩
  refine ⟨fun s' h => ?_, fun a s' h => ?_⟩
  · simp [version] at h
  · obtain ⟨_, rfl⟩ := version_ok h; exact hs

theorem disc_setVersion (v : Nat) : Disc (setVersion v) := by
  refine ⟨fun s hs => ?_⟩
  refine ⟨fun s' h => ?_, fun a s' h => ?_⟩
  · simp [setVersion] at h
  · simp only [setVersion, Prod.mk.injEq] at h; rw [← h.2]; exact hs

theorem disc_alloc (site : String) (n : Nat) : Disc (alloc site n) := by
  refine ⟨fun s hs => ?_⟩
  refine ⟨fun s' h => ?_, fun a s' h => ?_⟩
  · simp [alloc] at h
  · simp only [alloc, Prod.mk.injEq] at h; rw [← h.2]; exact hs

theorem disc_declare (n : Nat) : Disc (declare n) := by
  refine ⟨fun s hs => ?_⟩
  refine ⟨fun s' h => ?_, fun a s' h => ?_⟩
  · simp [declare] at h
  · simp only [declare, Prod.mk.injEq] at h; rw [← h.2]; exact hs

theorem disc_ite {α} {c : Prop} [Decidable c] {x y : DecM α} (hx : Disc x) (hy : Disc y) : Disc (if c then x else y) := by
  split
  · exact hx
  · exact hy

theorem disc_mapM' {α β} (f : α → DecM β) (hf : ∀ a, Disc (f a)) : ∀ l : List α, Disc (mapM' f l) := by
  intro l
  induction l with
  | nil => simp only [mapM']; exact disc_pure _
  | cons a as ih =>
    simp only [mapM']
    exact disc_bind (hf a) (fun b => disc_bind ih (fun bs => disc_pure _))

theorem disc_replicateM' {α} (f : DecM α) (hf : Disc f) (n : Nat) : Disc (replicateM' n f) := by
  unfold replicateM'; exact disc_mapM' _ (fun _ => hf) _

theorem disc_rdU8 : Disc rdU8 := disc_lift _
theorem disc_rdU16 : Disc rdU16 := disc_lift _
theorem disc_rdU32 : Disc rdU32 := disc_lift _
theorem disc_varint (w : Nat) : Disc (varint w) := disc_lift _
theorem disc_bytes (n : Nat) : Disc (bytes n) := disc_lift _
theorem disc_rdI8 : Disc rdI8 := by unfold rdI8; exact disc_bind disc_rdU8 (fun _ => disc_pure _)
theorem disc_rdI32 : Disc rdI32 := by unfold rdI32; exact disc_bind disc_rdU32 (fun _ => disc_pure _)

theorem disc_decodeSymbolsM (nv nc : Nat) : Disc (decodeSymbolsM nv nc) := by
  refine ⟨fun s hs => ?_⟩
  unfold decodeSymbolsM
  exact (disc_lift _).prop _ hs

/-- one step of the structural walk -/
macro "disc_step" : tactic => `(tactic| first
  | exact disc_pure _ | exact disc_fail | exact disc_failWith _ (by simp) | exact disc_require _
  | exact disc_rdU8 | exact disc_rdU16 | exact disc_rdU32 | exact disc_rdI8 | exact disc_rdI32
  | exact disc_varint _ | exact disc_bytes _ | exact disc_lift _ | exact disc_remaining | exact disc_version
  | exact disc_setVersion _ | exact disc_alloc _ _ | exact disc_declare _ | exact disc_ofOption _
  | exact disc_decodeSymbolsM _ _
  | apply disc_replicateM'
  | apply disc_mapM'
  | apply disc_bind
  | apply disc_ite
  | intro _
  | split)

theorem disc_decodeHeader : Disc decodeHeader := by
  unfold decodeHeader; repeat' disc_step

theorem disc_decodeAttDescs : Disc decodeAttDescs := by
  unfold decodeAttDescs; dsimp only; repeat' disc_step

theorem disc_integerValuesTail (sel ne nc : Nat) : Disc (integerValuesTail sel ne nc) := by
  unfold integerValuesTail; dsimp only; repeat' disc_step

attribute [local irreducible] integerValuesTail in
theorem disc_decodeIntegerValues (kind ne nc : Nat) : Disc (decodeIntegerValues kind ne nc) := by
  unfold decodeIntegerValues; dsimp only
  repeat' (first | exact disc_integerValuesTail _ _ _ | disc_step)

attribute [local irreducible] decodeIntegerValues decodeAttDescs in
theorem disc_decodeSequentialAttributes (opts : DecOpts) (np : Nat) : Disc (decodeSequentialAttributes opts np) := by
  unfold decodeSequentialAttributes; dsimp only
  repeat' (first | exact disc_decodeAttDescs | exact disc_decodeIntegerValues _ _ _ | disc_step)

theorem disc_decodeSchemeSelection (kind : Nat) : Disc (decodeSchemeSelection kind) := by
  unfold decodeSchemeSelection; repeat' disc_step

theorem disc_decodeTransformParams (dt nc : Nat) : Disc (decodeTransformParams dt nc) := by
  unfold decodeTransformParams; repeat' disc_step

theorem disc_finishSeqAttribute (opts : DecOpts) (s : SeqAttState) (n : Nat) (mp : Option (List Nat)) :
    Disc (finishSeqAttribute opts s n mp) := by
  unfold finishSeqAttribute; dsimp only; repeat' disc_step

theorem disc_storeValuesCheck (s : SeqAttState) : Disc (storeValuesCheck s) := by
  unfold storeValuesCheck; repeat' disc_step

attribute [local irreducible] integerValuesTail decodeAttDescs decodeSchemeSelection decodeTransformParams finishSeqAttribute
  storeValuesCheck in
theorem disc_decodeSequentialAttributesLegacy (opts : DecOpts) (np : Nat) :
    Disc (decodeSequentialAttributesLegacy opts np) := by
  unfold decodeSequentialAttributesLegacy; dsimp only
  repeat' (first | exact disc_decodeAttDescs | exact disc_integerValuesTail _ _ _ | exact disc_decodeSchemeSelection _ | exact disc_decodeTransformParams _ _ | exact disc_finishSeqAttribute _ _ _ _ | exact disc_storeValuesCheck _ | disc_step)

attribute [local irreducible] decodeSequentialAttributesLegacy decodeSequentialAttributes in
theorem disc_decodeSequentialAttributesV (opts : DecOpts) (np : Nat) : Disc (decodeSequentialAttributesV opts np) := by
  unfold decodeSequentialAttributesV
  repeat' (first | exact disc_decodeSequentialAttributesLegacy _ _ | exact disc_decodeSequentialAttributes _ _ | disc_step)

attribute [local irreducible] decodeSequentialAttributesV in
theorem disc_decodePointAttributesSeq (opts : DecOpts) (np : Nat) : Disc (decodePointAttributesSeq opts np) := by
  unfold decodePointAttributesSeq
  repeat' (first | exact disc_decodeSequentialAttributesV _ _ | disc_step)

theorem disc_decodeSeqConnectivity : Disc decodeSeqConnectivity := by
  unfold decodeSeqConnectivity; dsimp only; repeat' disc_step

attribute [local irreducible] decodeHeader decodeSeqConnectivity decodePointAttributesSeq in
/-- the dispatcher is disciplined whenever the body decoders are -/
theorem disc_decodeStreamWith (eb kd : DecOpts → DecM Geometry) (opts : DecOpts) (heb : Disc (eb opts)) (hkd : Disc (kd opts)) :
    Disc (decodeStreamWith eb kd opts) := by
  unfold decodeStreamWith; dsimp only
  repeat' (first | exact heb | exact hkd | exact disc_decodeHeader | exact disc_decodeSeqConnectivity | exact disc_decodePointAttributesSeq _ _ | disc_step)

end Draco.Robust
