import DracoProofs.GeneratedCore
import DracoModel.RansSymbol
import DracoModel.Rans
/-
  DracoProofs.GeneratedTable — the size-class branch of `RAnsSymbolEncoder::EncodeTable` (rans_symbol_encoder.h) is the one of the
  model's `encTableGo`
  (lean/Generated/Funcs.lean, translated from clang's AST of /repo on every run by tools/vlib/xlate.py).
-/
namespace Draco.Generated
open Draco Draco.CInt

/-- the size class branch of `RAnsSymbolEncoder::EncodeTable` -/
def sizeClass (p : Int) : Option Bool × Int :=
  if p ≥ 2^22 then (some false, 2) else if p < 2^6 then (none, 0) else if p < 2^14 then (none, 1) else (none, 2)

theorem EncodeTable_sizeClass_eq_model (p : Int) (hp : U32 p) :
    RAnsSymbolEncoder.EncodeTable_sizeClass p = sizeClass p := by
  unfold U32 at hp
  unfold RAnsSymbolEncoder.EncodeTable_sizeClass sizeClass
  c_const
  c_eq


/-- the bytes of one non-zero table entry given its number of extra bytes -/
def entryBytes (p k : Nat) : Bytes :=
  ((p * 4 + k) % 256) :: (List.range k).map (fun b => p / 2 ^ (8 * (b + 1) - 2) % 256)

/-- the model's table loop uses exactly the size classes of the source: a non-zero entry `p` fails when the class
    says `return false`, and otherwise emits the first byte `(p << 2) | k` and `k` extra bytes -/
theorem encTableGo_sizeClass (p : Nat) (ps : List Nat) (hp : p ≠ 0) :
    encTableGo (p :: ps) 0 =
      match sizeClass p with
      | (some _, _) => none
      | (none, k) => (encTableGo ps 0).map (fun bs => entryBytes p k.toNat ++ bs) := by
  rw [encTableGo]
  unfold sizeClass
  by_cases h22 : p ≥ 2^22
  · have h' : (p : Int) ≥ 2^22 := by omega
    rw [if_pos h22, if_pos h']
  · have n22 : ¬ ((p : Int) ≥ 2^22) := by omega
    rw [if_neg h22, if_neg hp, if_neg n22]
    by_cases h6 : p < 2^6
    · have h' : (p : Int) < 2^6 := by omega
      rw [if_pos h']
      cases encTableGo ps 0 <;> simp [entryBytes, h6]; omega
    · have n6 : ¬ ((p : Int) < 2^6) := by omega
      rw [if_neg n6]
      by_cases h14 : p < 2^14
      · have h' : (p : Int) < 2^14 := by omega
        rw [if_pos h']
        cases encTableGo ps 0 <;> simp [entryBytes, h6, h14, List.range_succ]
      · have n14 : ¬ ((p : Int) < 2^14) := by omega
        rw [if_neg n14]
        cases encTableGo ps 0 <;> simp [entryBytes, h6, h14, List.range_succ]


/-! ### `RAnsDecoder<12>::read_init` (ans.h), the four-byte state class -/

theorem cOr32_disj8 (a b : Int) (ha : 0 ≤ a) (hb0 : 0 ≤ b) (hb : b < 2^8) (hs : a * 2^8 + b < 2^32) :
    cOr 32 (a * 256) b = a * 256 + b := by
  unfold cOr pat
  have e1 : ((a * 256) % 2^32).toNat = 2^8 * a.toNat := by omega
  have e2 : (b % 2^32).toNat = b.toNat := by omega
  rw [e1, e2, ← Nat.two_pow_add_eq_or_of_lt (by omega)]; omega
theorem cOr32_disj16 (a b : Int) (ha : 0 ≤ a) (hb0 : 0 ≤ b) (hb : b < 2^16) (hs : a * 2^16 + b < 2^32) :
    cOr 32 (a * 65536) b = a * 65536 + b := by
  unfold cOr pat
  have e1 : ((a * 65536) % 2^32).toNat = 2^16 * a.toNat := by omega
  have e2 : (b % 2^32).toNat = b.toNat := by omega
  rw [e1, e2, ← Nat.two_pow_add_eq_or_of_lt (by omega)]; omega
theorem cOr32_disj24 (a b : Int) (ha : 0 ≤ a) (hb0 : 0 ≤ b) (hb : b < 2^24) (hs : a * 2^24 + b < 2^32) :
    cOr 32 (a * 16777216) b = a * 16777216 + b := by
  unfold cOr pat
  have e1 : ((a * 16777216) % 2^32).toNat = 2^24 * a.toNat := by omega
  have e2 : (b % 2^32).toNat = b.toNat := by omega
  rw [e1, e2, ← Nat.two_pow_add_eq_or_of_lt (by omega)]; omega

theorem cAnd32_63 (x : Int) : cAnd 32 x 63 = x % 64 := by
  unfold cAnd pat
  have : ((63:Int) % 2^32).toNat = 2^6 - 1 := by decide
  rw [this, Nat.and_two_pow_sub_one_eq_mod]; omega
theorem cAnd32_16383 (x : Int) : cAnd 32 x 16383 = x % 16384 := by
  unfold cAnd pat
  have : ((16383:Int) % 2^32).toNat = 2^14 - 1 := by decide
  rw [this, Nat.and_two_pow_sub_one_eq_mod]; omega
theorem cAnd32_4194303 (x : Int) : cAnd 32 x 4194303 = x % 4194304 := by
  unfold cAnd pat
  have : ((4194303:Int) % 2^32).toNat = 2^22 - 1 := by decide
  rw [this, Nat.and_two_pow_sub_one_eq_mod]; omega
theorem cAnd32_1073741823 (x : Int) : cAnd 32 x 1073741823 = x % 1073741824 := by
  unfold cAnd pat
  have : ((1073741823:Int) % 2^32).toNat = 2^30 - 1 := by decide
  rw [this, Nat.and_two_pow_sub_one_eq_mod]; omega

theorem mem_get_le16_val (f : Int → Int) (hf : ∀ i, 0 ≤ f i ∧ f i < 256) : mem_get_le16 f = f 1 * 256 + f 0 := by
  have h0 := hf 0; have h1 := hf 1
  unfold mem_get_le16
  c_const
  rw [cOr32_disj8 _ _ (by omega) (by omega) (by omega) (by omega)]
theorem mem_get_le24_val (f : Int → Int) (hf : ∀ i, 0 ≤ f i ∧ f i < 256) : mem_get_le24 f = f 2 * 65536 + f 1 * 256 + f 0 := by
  have h0 := hf 0; have h1 := hf 1; have h2 := hf 2
  unfold mem_get_le24
  c_const
  rw [cOr32_disj16 (f 2) (f 1 * 256) (by omega) (by omega) (by omega) (by omega)]
  have e : f 2 * 65536 + f 1 * 256 = (f 2 * 256 + f 1) * 256 := by omega
  rw [e, cOr32_disj8 _ _ (by omega) (by omega) (by omega) (by omega)]
theorem mem_get_le32_val (f : Int → Int) (hf : ∀ i, 0 ≤ f i ∧ f i < 256) :
    mem_get_le32 f = f 3 * 16777216 + f 2 * 65536 + f 1 * 256 + f 0 := by
  have h0 := hf 0; have h1 := hf 1; have h2 := hf 2; have h3 := hf 3
  unfold mem_get_le32
  c_const
  have e0 : wrapU32 (wrapI32 (f 3 * 16777216)) = f 3 * 16777216 := by unfold wrapU32 wrapI32; omega
  rw [e0, cOr32_disj24 (f 3) (f 2 * 65536) (by omega) (by omega) (by omega) (by omega)]
  have e1 : f 3 * 16777216 + f 2 * 65536 = (f 3 * 256 + f 2) * 65536 := by omega
  rw [e1, cOr32_disj16 _ (f 1 * 256) (by omega) (by omega) (by omega) (by omega)]
  have e2 : (f 3 * 256 + f 2) * 65536 + f 1 * 256 = (f 3 * 65536 + f 2 * 256 + f 1) * 256 := by omega
  rw [e2, cOr32_disj8 _ _ (by omega) (by omega) (by omega) (by omega)]

/-- `RAnsDecoder<12>::read_init` on a four byte buffer whose last byte announces a four byte state (`x == 3`):
    the state is the little-endian value masked to 30 bits plus `l_rans_base`, the call fails iff it is not below
    `l_rans_base * 256` -/
theorem RAnsDecoder_read_init_x3 (a : AnsDecoder) (buf : Int → Int) (hb : ∀ i, 0 ≤ buf i ∧ buf i < 256)
    (h3 : buf 3 / 64 = 3) :
    RAnsDecoder.read_init a buf 4 =
      (if (buf 3 * 16777216 + buf 2 * 65536 + buf 1 * 256 + buf 0) % 1073741824 + 16384 ≥ 4194304 then 1 else 0,
        { buf_offset := 0, state := (buf 3 * 16777216 + buf 2 * 65536 + buf 1 * 256 + buf 0) % 1073741824 + 16384 }) := by
  have g32 := mem_get_le32_val (fun i => buf ((4 : Int) - 4 + i)) (fun i => hb _)
  have j6 : (4 : Int) - 4 + 3 = 3 := by omega
  have j7 : (4 : Int) - 4 + 2 = 2 := by omega
  have j8 : (4 : Int) - 4 + 1 = 1 := by omega
  have j9 : (4 : Int) - 4 + 0 = 0 := by omega
  simp only [j6, j7, j8, j9] at g32
  have h0 := hb 3; have h1 := hb 2; have h2 := hb 1; have h3' := hb 0
  unfold RAnsDecoder.read_init
  c_const
  simp only [g32, cAnd32_1073741823]
  have hV : 0 ≤ (buf 3 * 16777216 + buf 2 * 65536 + buf 1 * 256 + buf 0) % 1073741824 ∧
      (buf 3 * 16777216 + buf 2 * 65536 + buf 1 * 256 + buf 0) % 1073741824 < 1073741824 := by omega
  generalize (buf 3 * 16777216 + buf 2 * 65536 + buf 1 * 256 + buf 0) % 1073741824 = V at *
  have e : wrapU32 (V + 16384) = V + 16384 := wrapU32_id _ (by omega) (by omega)
  rw [e]
  have hcase : V + 16384 ≥ 4194304 ∨ ¬ (V + 16384 ≥ 4194304) := by omega
  rcases hcase with h | h
  · simp [if_pos h, h3]
  · simp [if_neg h, h3]

/-- the model's `ransReadInit` on the same four bytes -/
theorem ransReadInit_x3 (b0 b1 b2 b3 : Nat) (h : b3 / 64 = 3) :
    ransReadInit 12 [] [b0, b1, b2, b3] =
      if (b3 * 16777216 + b2 * 65536 + b1 * 256 + b0) % 2 ^ 30 + 16384 ≥ 16384 * 256 then none
      else some ((b3 * 16777216 + b2 * 65536 + b1 * 256 + b0) % 2 ^ 30 + 16384, []) := by
  have hr : ransLBase 12 = 16384 := by decide
  simp [ransReadInit, h, hr]

end Draco.Generated
