import DracoProofs.GeneratedCore
import DracoModel.RansSymbol
/-
  DracoProofs.GeneratedTable — the size-class branch of `RAnsSymbolEncoder::EncodeTable` (rans_symbol_encoder.h) is the one of the
  model's `encTableGo`
  (lean/Generated/Funcs.lean, translated from clang's AST of /repo on every run by tools/vlib/xlate.py).
-/
namespace Draco.Generated
open Draco Draco.CInt

/-- the size class branch of `RAnsSymbolEncoder::EncodeTable` -/
def sizeClass (p : Int) : Option Bool × Int :=
  if p ≥ 2^22 then (some false, 2) else if p < 2^6 then (none, 0) else if p < 2^14 then (none, 1) else (none, 2)

theorem EncodeTable_sizeClass_eq_model (p : Int) (hp : U32 p) :
    RAnsSymbolEncoder.EncodeTable_sizeClass p = sizeClass p := by
  unfold U32 at hp
  unfold RAnsSymbolEncoder.EncodeTable_sizeClass sizeClass
  c_const
  c_eq


/-- the bytes of one non-zero table entry given its number of extra bytes -/
def entryBytes (p k : Nat) : Bytes :=
  ((p * 4 + k) % 256) :: (List.range k).map (fun b => p / 2 ^ (8 * (b + 1) - 2) % 256)

/-- the model's table loop uses exactly the size classes of the source: a non-zero entry `p` fails when the class
    says `return false`, and otherwise emits the first byte `(p << 2) | k` and `k` extra bytes -/
theorem encTableGo_sizeClass (p : Nat) (ps : List Nat) (hp : p ≠ 0) :
    encTableGo (p :: ps) 0 =
      match sizeClass p with
      | (some _, _) => none
      | (none, k) => (encTableGo ps 0).map (fun bs => entryBytes p k.toNat ++ bs) := by
  rw [encTableGo]
  unfold sizeClass
  by_cases h22 : p ≥ 2^22
  · have h' : (p : Int) ≥ 2^22 := by omega
    rw [if_pos h22, if_pos h']
  · have n22 : ¬ ((p : Int) ≥ 2^22) := by omega
    rw [if_neg h22, if_neg hp, if_neg n22]
    by_cases h6 : p < 2^6
    · have h' : (p : Int) < 2^6 := by omega
      rw [if_pos h']
      cases encTableGo ps 0 <;> simp [entryBytes, h6]; omega
    · have n6 : ¬ ((p : Int) < 2^6) := by omega
      rw [if_neg n6]
      by_cases h14 : p < 2^14
      · have h' : (p : Int) < 2^14 := by omega
        rw [if_pos h']
        cases encTableGo ps 0 <;> simp [entryBytes, h6, h14, List.range_succ]
      · have n14 : ¬ ((p : Int) < 2^14) := by omega
        rw [if_neg n14]
        cases encTableGo ps 0 <;> simp [entryBytes, h6, h14, List.range_succ]


end Draco.Generated
