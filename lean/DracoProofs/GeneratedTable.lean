import DracoProofs.GeneratedCore
import DracoModel.RansSymbol
import DracoModel.Rans
/-
  DracoProofs.GeneratedTable — the size-class branch of `RAnsSymbolEncoder::EncodeTable` (rans_symbol_encoder.h) is the one of the
  model's `encTableGo`
  (lean/Generated/Funcs.lean, translated from clang's AST of /repo on every run by tools/vlib/xlate.py).
-/
namespace Draco.Generated
open Draco Draco.CInt

/-- the size class branch of `RAnsSymbolEncoder::EncodeTable` -/
def sizeClass (p : Int) : Option Bool × Int :=
  if p ≥ 2^22 then (some false, 2) else if p < 2^6 then (none, 0) else if p < 2^14 then (none, 1) else (none, 2)

theorem EncodeTable_sizeClass_eq_model (p : Int) (hp : U32 p) :
    RAnsSymbolEncoder.EncodeTable_sizeClass p = sizeClass p := by
  unfold U32 at hp
  unfold RAnsSymbolEncoder.EncodeTable_sizeClass sizeClass
  c_const
  c_eq


/-- the bytes of one non-zero table entry given its number of extra bytes -/
def entryBytes (p k : Nat) : Bytes :=
  ((p * 4 + k) % 256) :: (List.range k).map (fun b => p / 2 ^ (8 * (b + 1) - 2) % 256)

/-- the model's table loop uses exactly the size classes of the source: a non-zero entry `p` fails when the class
    says `return false`, and otherwise emits the first byte `(p << 2) | k` and `k` extra bytes -/
theorem encTableGo_sizeClass (p : Nat) (ps : List Nat) (hp : p ≠ 0) :
    encTableGo (p :: ps) 0 =
      match sizeClass p with
      | (some _, _) => none
      | (none, k) => (encTableGo ps 0).map (fun bs => entryBytes p k.toNat ++ bs) := by
  rw [encTableGo]
  unfold sizeClass
  by_cases h22 : p ≥ 2^22
  · have h' : (p : Int) ≥ 2^22 := by omega
    rw [if_pos h22, if_pos h']
  · have n22 : ¬ ((p : Int) ≥ 2^22) := by omega
    rw [if_neg h22, if_neg hp, if_neg n22]
    by_cases h6 : p < 2^6
    · have h' : (p : Int) < 2^6 := by omega
      rw [if_pos h']
      cases encTableGo ps 0 <;> simp [entryBytes, h6]; omega
    · have n6 : ¬ ((p : Int) < 2^6) := by omega
      rw [if_neg n6]
      by_cases h14 : p < 2^14
      · have h' : (p : Int) < 2^14 := by omega
        rw [if_pos h']
        cases encTableGo ps 0 <;> simp [entryBytes, h6, h14, List.range_succ]
      · have n14 : ¬ ((p : Int) < 2^14) := by omega
        rw [if_neg n14]
        cases encTableGo ps 0 <;> simp [entryBytes, h6, h14, List.range_succ]


/-! ### `RAnsDecoder<12>::read_init` (ans.h), the four-byte state class -/

/-- `RAnsDecoder<12>::read_init` on a four byte buffer whose last byte announces a four byte state (`x == 3`):
    the state is the little-endian value masked to 30 bits plus `l_rans_base`, the call fails iff it is not below
    `l_rans_base * 256` -/
theorem RAnsDecoder_read_init_x3 (a : AnsDecoder) (buf : Int → Int) (hb : ∀ i, 0 ≤ buf i ∧ buf i < 256)
    (h3 : buf 3 / 64 = 3) :
    RAnsDecoder.read_init a buf 4 =
      (if (buf 3 * 16777216 + buf 2 * 65536 + buf 1 * 256 + buf 0) % 1073741824 + 16384 ≥ 4194304 then 1 else 0,
        { buf_offset := 0, state := (buf 3 * 16777216 + buf 2 * 65536 + buf 1 * 256 + buf 0) % 1073741824 + 16384 }) := by
  have g32 := mem_get_le32_val (fun i => buf ((4 : Int) - 4 + i)) (fun i => hb _)
  have j6 : (4 : Int) - 4 + 3 = 3 := by omega
  have j7 : (4 : Int) - 4 + 2 = 2 := by omega
  have j8 : (4 : Int) - 4 + 1 = 1 := by omega
  have j9 : (4 : Int) - 4 + 0 = 0 := by omega
  simp only [j6, j7, j8, j9] at g32
  have h0 := hb 3; have h1 := hb 2; have h2 := hb 1; have h3' := hb 0
  unfold RAnsDecoder.read_init
  c_const
  simp only [g32, cAnd32_1073741823]
  have hV : 0 ≤ (buf 3 * 16777216 + buf 2 * 65536 + buf 1 * 256 + buf 0) % 1073741824 ∧
      (buf 3 * 16777216 + buf 2 * 65536 + buf 1 * 256 + buf 0) % 1073741824 < 1073741824 := by omega
  generalize (buf 3 * 16777216 + buf 2 * 65536 + buf 1 * 256 + buf 0) % 1073741824 = V at *
  have e : wrapU32 (V + 16384) = V + 16384 := wrapU32_id _ (by omega) (by omega)
  rw [e]
  have hcase : V + 16384 ≥ 4194304 ∨ ¬ (V + 16384 ≥ 4194304) := by omega
  rcases hcase with h | h
  · simp [if_pos h, h3]
  · simp [if_neg h, h3]

/-- the model's `ransReadInit` on the same four bytes -/
theorem ransReadInit_x3 (b0 b1 b2 b3 : Nat) (h : b3 / 64 = 3) :
    ransReadInit 12 [] [b0, b1, b2, b3] =
      if (b3 * 16777216 + b2 * 65536 + b1 * 256 + b0) % 2 ^ 30 + 16384 ≥ 16384 * 256 then none
      else some ((b3 * 16777216 + b2 * 65536 + b1 * 256 + b0) % 2 ^ 30 + 16384, []) := by
  have hr : ransLBase 12 = 16384 := by decide
  simp [ransReadInit, h, hr]

/-! ### `RAnsDecoder<12>::read_init`: all four size classes, any buffer length -/

/-- result of `read_init` once the masked value `V` and the new `buf_offset` are known -/
def readFin (V off : Int) : Int × AnsDecoder :=
  (if V + 16384 ≥ 4194304 then 1 else 0, { buf_offset := off, state := V + 16384 })

theorem readFin_of (V off G : Int) (h0 : 0 ≤ V) (h1 : V < 2^30) (hG : G = V + 16384) :
    (if G ≥ 4194304 then ((1 : Int), ({ buf_offset := off, state := G } : AnsDecoder))
      else (0, { buf_offset := off, state := G })) = readFin V off := by
  subst hG
  unfold readFin
  have hcase : V + 16384 ≥ 4194304 ∨ ¬ (V + 16384 ≥ 4194304) := by omega
  rcases hcase with h | h
  · simp only [if_pos h]
  · simp only [if_neg h]

/-- `RAnsDecoder<12>::read_init` as a function of the last four bytes of the buffer, all four size classes -/
theorem RAnsDecoder_read_init_classes (a : AnsDecoder) (buf : Int → Int) (n : Int) (hb : ∀ i, 0 ≤ buf i ∧ buf i < 256)
    (hn1 : 1 ≤ n) (hn : n < 2^31) :
    RAnsDecoder.read_init a buf n =
      if buf (n - 1) / 64 = 0 then readFin (buf (n - 1) % 64) (n - 1)
      else if buf (n - 1) / 64 = 1 then
        (if n < 2 then (1, a) else readFin ((buf (n - 1) * 256 + buf (n - 2)) % 16384) (n - 2))
      else if buf (n - 1) / 64 = 2 then
        (if n < 3 then (1, a) else readFin ((buf (n - 1) * 65536 + buf (n - 2) * 256 + buf (n - 3)) % 4194304) (n - 3))
      else readFin ((buf (n - 1) * 16777216 + buf (n - 2) * 65536 + buf (n - 3) * 256 + buf (n - 4)) % 1073741824) (n - 4) := by
  have g16 := mem_get_le16_val (fun i => buf (n - 2 + i)) (fun i => hb _)
  have g24 := mem_get_le24_val (fun i => buf (n - 3 + i)) (fun i => hb _)
  have g32 := mem_get_le32_val (fun i => buf (n - 4 + i)) (fun i => hb _)
  have j1 : n - 2 + 1 = n - 1 := by omega
  have j2 : n - 2 + 0 = n - 2 := by omega
  have j3 : n - 3 + 2 = n - 1 := by omega
  have j4 : n - 3 + 1 = n - 2 := by omega
  have j5 : n - 3 + 0 = n - 3 := by omega
  have j6 : n - 4 + 3 = n - 1 := by omega
  have j7 : n - 4 + 2 = n - 2 := by omega
  have j8 : n - 4 + 1 = n - 3 := by omega
  have j9 : n - 4 + 0 = n - 4 := by omega
  simp only [j1, j2, j3, j4, j5, j6, j7, j8, j9] at g16 g24 g32
  have h0 := hb (n - 1); have h1 := hb (n - 2); have h2 := hb (n - 3); have h3 := hb (n - 4)
  unfold RAnsDecoder.read_init
  c_const
  simp only [g16, g24, g32, cAnd32_63, cAnd32_16383, cAnd32_4194303, cAnd32_1073741823]
  have hlt : ¬ (n < 1) := by omega
  simp only [hlt, if_false]
  generalize buf (n - 1) = T at *
  generalize buf (n - 2) = B1 at *
  generalize buf (n - 3) = B2 at *
  generalize buf (n - 4) = B3 at *
  have hx3 : T / 64 = 0 ∨ T / 64 = 1 ∨ T / 64 = 2 ∨ T / 64 = 3 := by omega
  rcases hx3 with h | h | h | h
  · simp only [h, if_true]
    exact readFin_of _ _ _ (by omega) (by omega) (by simp only [wrapU32, wrapI32]; omega)
  · simp (config := { decide := true }) only [h, if_true, if_false]
    split
    · rfl
    · exact readFin_of _ _ _ (by omega) (by omega) (by simp only [wrapU32]; omega)
  · simp (config := { decide := true }) only [h, if_true, if_false]
    split
    · rfl
    · exact readFin_of _ _ _ (by omega) (by omega) (by simp only [wrapU32]; omega)
  · simp (config := { decide := true }) only [h, if_true, if_false]
    exact readFin_of _ _ _ (by omega) (by omega) (by simp only [wrapU32]; omega)


/-- the translated `read_init` agrees with the model's result: failure ↔ `none`; on success the state and the number of
    bytes left below the state bytes (`buf_offset`) are the model's -/
def readInitAgrees (g : Int × AnsDecoder) (m : Option RansSt) : Prop :=
  match m with
  | none => g.1 = 1
  | some (st, stack) => g = (0, { buf_offset := (stack.length : Int), state := (st : Int) })

theorem readFin_agrees (V : Nat) (off : Nat) (stk : List Nat) (m : Option RansSt) (hoff : stk.length = off) (hV : V < 2^30)
    (hm : m = if V + 16384 ≥ 16384 * 256 then none else some (V + 16384, stk)) :
    readInitAgrees (readFin (V : Int) (off : Int)) m := by
  unfold readFin
  have hcase : V + 16384 ≥ 16384 * 256 ∨ ¬ (V + 16384 ≥ 16384 * 256) := by omega
  rcases hcase with h | h
  · rw [if_pos h] at hm
    subst hm
    have : (V : Int) + 16384 ≥ 4194304 := by omega
    simp only [readInitAgrees, if_pos this]
  · rw [if_neg h] at hm
    subst hm
    have : ¬ ((V : Int) + 16384 ≥ 4194304) := by omega
    simp only [readInitAgrees, if_neg this, hoff]
    rfl


theorem read_init_agrees_x0 (a : AnsDecoder) (pre : List Nat) (top : Nat)
    (hpre : ∀ b ∈ pre, b < 256) (htop : top < 256) (hx : top / 64 = 0) (hlen : pre.length + 1 < 2^31) :
    readInitAgrees (RAnsDecoder.read_init a (bufOf (pre ++ [top])) ((pre ++ [top]).length : Nat))
      (ransReadInit 12 [] (pre ++ [top])) := by
  have hb := bufOf_range (pre ++ [top]) (by
    intro b hb; simp only [List.mem_append, List.mem_cons, List.mem_nil_iff, or_false] at hb
    rcases hb with h | h
    · exact hpre b h
    · omega)
  have hl : ((pre ++ [top]).length : Int) = pre.length + 1 := by simp
  rw [RAnsDecoder_read_init_classes a _ _ hb (by rw [hl]; omega) (by rw [hl]; omega)]
  have e1 : bufOf (pre ++ [top]) (((pre ++ [top]).length : Nat) - 1) = top := by
    rw [bufOf_suffix pre [top] 0 _ (by rw [hl]; omega)]; rfl
  rw [e1]
  have hT : (top : Int) / 64 = 0 := by omega
  have hr : ransLBase 12 = 16384 := by decide
  have hm : ransReadInit 12 [] (pre ++ [top]) =
      if top % 64 + 16384 ≥ 16384 * 256 then none else some (top % 64 + 16384, pre.reverse) := by
    simp [ransReadInit, hx, hr]
  simp (config := { decide := true }) only [hT, if_true, if_false]
  have eV : (top : Int) % 64 = ((top % 64 : Nat) : Int) := by omega
  have eo : (((pre ++ [top]).length : Nat) : Int) - 1 = ((pre.length : Nat) : Int) := by rw [hl]; omega
  rw [eV, eo]
  exact readFin_agrees _ _ _ _ (by simp) (by omega) hm

theorem read_init_agrees_x1 (a : AnsDecoder) (pre : List Nat) (b1 top : Nat)
    (hpre : ∀ b ∈ pre, b < 256) (hb1 : b1 < 256) (htop : top < 256) (hx : top / 64 = 1) (hlen : pre.length + 2 < 2^31) :
    readInitAgrees (RAnsDecoder.read_init a (bufOf (pre ++ [b1, top])) ((pre ++ [b1, top]).length : Nat))
      (ransReadInit 12 [] (pre ++ [b1, top])) := by
  have hb := bufOf_range (pre ++ [b1, top]) (by
    intro b hb; simp only [List.mem_append, List.mem_cons, List.mem_nil_iff, or_false] at hb
    rcases hb with h | h | h
    · exact hpre b h
    · omega
    · omega)
  have hl : ((pre ++ [b1, top]).length : Int) = pre.length + 2 := by simp
  rw [RAnsDecoder_read_init_classes a _ _ hb (by rw [hl]; omega) (by rw [hl]; omega)]
  have e1 : bufOf (pre ++ [b1, top]) (((pre ++ [b1, top]).length : Nat) - 1) = top := by
    rw [bufOf_suffix pre [b1, top] 1 _ (by rw [hl]; omega)]; rfl
  have e2 : bufOf (pre ++ [b1, top]) (((pre ++ [b1, top]).length : Nat) - 2) = b1 := by
    rw [bufOf_suffix pre [b1, top] 0 _ (by rw [hl]; omega)]; rfl
  rw [e1, e2]
  have hT : (top : Int) / 64 = 1 := by omega
  have hr : ransLBase 12 = 16384 := by decide
  have hm : ransReadInit 12 [] (pre ++ [b1, top]) =
      if (top * 256 + b1) % 2 ^ 14 + 16384 ≥ 16384 * 256 then none else some ((top * 256 + b1) % 2 ^ 14 + 16384, pre.reverse) := by
    simp [ransReadInit, hx, hr]
  simp (config := { decide := true }) only [hT, if_true, if_false]
  have hn2 : ¬ (((pre ++ [b1, top]).length : Int) < 2) := by rw [hl]; omega
  rw [if_neg hn2]
  have eV : ((top : Int) * 256 + b1) % 16384 = (((top * 256 + b1) % 2 ^ 14 : Nat) : Int) := by omega
  have eo : (((pre ++ [b1, top]).length : Nat) : Int) - 2 = ((pre.length : Nat) : Int) := by rw [hl]; omega
  rw [eV, eo]
  exact readFin_agrees _ _ _ _ (by simp) (by omega) hm

theorem read_init_agrees_x2 (a : AnsDecoder) (pre : List Nat) (b2 b1 top : Nat)
    (hpre : ∀ b ∈ pre, b < 256) (hb2 : b2 < 256) (hb1 : b1 < 256) (htop : top < 256) (hx : top / 64 = 2) (hlen : pre.length + 3 < 2^31) :
    readInitAgrees (RAnsDecoder.read_init a (bufOf (pre ++ [b2, b1, top])) ((pre ++ [b2, b1, top]).length : Nat))
      (ransReadInit 12 [] (pre ++ [b2, b1, top])) := by
  have hb := bufOf_range (pre ++ [b2, b1, top]) (by
    intro b hb; simp only [List.mem_append, List.mem_cons, List.mem_nil_iff, or_false] at hb
    rcases hb with h | h | h | h
    · exact hpre b h
    · omega
    · omega
    · omega)
  have hl : ((pre ++ [b2, b1, top]).length : Int) = pre.length + 3 := by simp
  rw [RAnsDecoder_read_init_classes a _ _ hb (by rw [hl]; omega) (by rw [hl]; omega)]
  have e1 : bufOf (pre ++ [b2, b1, top]) (((pre ++ [b2, b1, top]).length : Nat) - 1) = top := by
    rw [bufOf_suffix pre [b2, b1, top] 2 _ (by rw [hl]; omega)]; rfl
  have e2 : bufOf (pre ++ [b2, b1, top]) (((pre ++ [b2, b1, top]).length : Nat) - 2) = b1 := by
    rw [bufOf_suffix pre [b2, b1, top] 1 _ (by rw [hl]; omega)]; rfl
  have e3 : bufOf (pre ++ [b2, b1, top]) (((pre ++ [b2, b1, top]).length : Nat) - 3) = b2 := by
    rw [bufOf_suffix pre [b2, b1, top] 0 _ (by rw [hl]; omega)]; rfl
  rw [e1, e2, e3]
  have hT : (top : Int) / 64 = 2 := by omega
  have hr : ransLBase 12 = 16384 := by decide
  have hm : ransReadInit 12 [] (pre ++ [b2, b1, top]) =
      if (top * 65536 + b1 * 256 + b2) % 2 ^ 22 + 16384 ≥ 16384 * 256 then none else some ((top * 65536 + b1 * 256 + b2) % 2 ^ 22 + 16384, pre.reverse) := by
    simp [ransReadInit, hx, hr]
  simp (config := { decide := true }) only [hT, if_true, if_false]
  have hn2 : ¬ (((pre ++ [b2, b1, top]).length : Int) < 3) := by rw [hl]; omega
  rw [if_neg hn2]
  have eV : ((top : Int) * 65536 + b1 * 256 + b2) % 4194304 = (((top * 65536 + b1 * 256 + b2) % 2 ^ 22 : Nat) : Int) := by omega
  have eo : (((pre ++ [b2, b1, top]).length : Nat) : Int) - 3 = ((pre.length : Nat) : Int) := by rw [hl]; omega
  rw [eV, eo]
  exact readFin_agrees _ _ _ _ (by simp) (by omega) hm

theorem read_init_agrees_x3 (a : AnsDecoder) (pre : List Nat) (b3 b2 b1 top : Nat)
    (hpre : ∀ b ∈ pre, b < 256) (hb3 : b3 < 256) (hb2 : b2 < 256) (hb1 : b1 < 256) (htop : top < 256) (hx : top / 64 = 3) (hlen : pre.length + 4 < 2^31) :
    readInitAgrees (RAnsDecoder.read_init a (bufOf (pre ++ [b3, b2, b1, top])) ((pre ++ [b3, b2, b1, top]).length : Nat))
      (ransReadInit 12 [] (pre ++ [b3, b2, b1, top])) := by
  have hb := bufOf_range (pre ++ [b3, b2, b1, top]) (by
    intro b hb; simp only [List.mem_append, List.mem_cons, List.mem_nil_iff, or_false] at hb
    rcases hb with h | h | h | h | h
    · exact hpre b h
    · omega
    · omega
    · omega
    · omega)
  have hl : ((pre ++ [b3, b2, b1, top]).length : Int) = pre.length + 4 := by simp
  rw [RAnsDecoder_read_init_classes a _ _ hb (by rw [hl]; omega) (by rw [hl]; omega)]
  have e1 : bufOf (pre ++ [b3, b2, b1, top]) (((pre ++ [b3, b2, b1, top]).length : Nat) - 1) = top := by
    rw [bufOf_suffix pre [b3, b2, b1, top] 3 _ (by rw [hl]; omega)]; rfl
  have e2 : bufOf (pre ++ [b3, b2, b1, top]) (((pre ++ [b3, b2, b1, top]).length : Nat) - 2) = b1 := by
    rw [bufOf_suffix pre [b3, b2, b1, top] 2 _ (by rw [hl]; omega)]; rfl
  have e3 : bufOf (pre ++ [b3, b2, b1, top]) (((pre ++ [b3, b2, b1, top]).length : Nat) - 3) = b2 := by
    rw [bufOf_suffix pre [b3, b2, b1, top] 1 _ (by rw [hl]; omega)]; rfl
  have e4 : bufOf (pre ++ [b3, b2, b1, top]) (((pre ++ [b3, b2, b1, top]).length : Nat) - 4) = b3 := by
    rw [bufOf_suffix pre [b3, b2, b1, top] 0 _ (by rw [hl]; omega)]; rfl
  rw [e1, e2, e3, e4]
  have hT : (top : Int) / 64 = 3 := by omega
  have hr : ransLBase 12 = 16384 := by decide
  have hm : ransReadInit 12 [] (pre ++ [b3, b2, b1, top]) =
      if (top * 16777216 + b1 * 65536 + b2 * 256 + b3) % 2 ^ 30 + 16384 ≥ 16384 * 256 then none else some ((top * 16777216 + b1 * 65536 + b2 * 256 + b3) % 2 ^ 30 + 16384, pre.reverse) := by
    simp [ransReadInit, hx, hr]
  simp (config := { decide := true }) only [hT, if_true, if_false]
  have eV : ((top : Int) * 16777216 + b1 * 65536 + b2 * 256 + b3) % 1073741824 = (((top * 16777216 + b1 * 65536 + b2 * 256 + b3) % 2 ^ 30 : Nat) : Int) := by omega
  have eo : (((pre ++ [b3, b2, b1, top]).length : Nat) : Int) - 4 = ((pre.length : Nat) : Int) := by rw [hl]; omega
  rw [eV, eo]
  exact readFin_agrees _ _ _ _ (by simp) (by omega) hm


end Draco.Generated
