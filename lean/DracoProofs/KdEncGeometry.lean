import DracoProofs.KdEncAttr
import DracoProofs.SeqGeometry
import DracoProofs.KdTreeValid
/-
  The composed round trip of the kd-tree point cloud coder: header, metadata, number of points,
  attribute descriptors, `KdTreeAttributesEncoder` / `KdTreeAttributesDecoder`.
-/
namespace Draco.KdEnc
open Draco SeqEnc DecM Kd

/-- the domain of the composed theorem -/
structure GeomOK (g : Geometry) (opts : EncOpts) : Prop where
  pointCloud : g.isMesh = false
  /-- empty clouds crash the kd-tree encoder (known finding `empty-geometry`) -/
  points : 0 < g.numPoints
  /-- `int32_t num_points` -/
  points31 : g.numPoints < 2 ^ 31
  natts : g.atts.length < 2 ^ 32
  atts : ∀ i a, g.atts[i]? = some a → AttOK a (opts.att i) g.numPoints
  /-- keeps the 32-bit size prefixes of the coded blocks from overflowing (coarse sufficient bound:
      10^5 points with 3 dimensions pass) -/
  size : 32 * ((2 * (g.atts.map (·.numComponents)).sum + 3) *
    (g.numPoints * (32 * (g.atts.map (·.numComponents)).sum + 1) + 1)) + 3 < 2 ^ 32

theorem allSome_forall2 {α β : Type} (f : Nat → α → Option β) (R : α → β → Prop) :
    ∀ (l : List α) (k : Nat) (r : List β),
    (∀ j a b, l[j]? = some a → f (k + j) a = some b → R a b) →
    allSome ((zipIdxFrom k l).map fun ia => f ia.1 ia.2) = some r → List.Forall₂ R l r := by
  intro l
  induction l with
  | nil =>
    intro k r _ h
    simp only [zipIdxFrom, List.map_nil, allSome, Option.some.injEq] at h
    subst h; exact List.Forall₂.nil
  | cons a as ih =>
    intro k r hR h
    simp only [zipIdxFrom, List.map_cons] at h
    cases hb : f k a with
    | none => rw [hb] at h; simp [allSome] at h
    | some b =>
      rw [hb] at h
      simp only [allSome] at h
      split at h
      · cases h
      · rename_i bs hbs
        simp only [Option.some.injEq] at h
        subst h
        refine List.Forall₂.cons (hR 0 a b (by simp) (by simpa using hb)) (ih (k + 1) bs ?_ hbs)
        intro j a' b' hj hf
        exact hR (j + 1) a' b' (by simpa using hj) (by rw [← hf]; congr 1; omega)

theorem forall2_dim (n : Nat) (atts : List Attribute) (encs : List AttEnc)
    (h : List.Forall₂ (fun a (e : AttEnc) => EncFacts n e ∧ e.desc = descOf a) atts encs) :
    (atts.map (·.numComponents)).sum = dimOf encs := by
  unfold dimOf
  induction h with
  | nil => rfl
  | cons h1 _ ih => simp only [List.map_cons, List.sum_cons, ih, h1.2, descOf]

/-- `PointCloudDecoder::DecodeHeader` reads the kd-tree `EncodeHeader` -/
theorem runs_decodeHeaderKd (hasMd : Bool) (v : Nat) :
    Runs decodeHeader v (encodeHeader hasMd) ⟨2, 3, 0, 1, if hasMd then 32768 else 0⟩ v := by
  unfold decodeHeader encodeHeader
  rw [List.append_assoc]
  refine Runs.bind (Runs.bytes _ 5 v rfl) ?_
  refine Runs.bind0 (Runs.require (by decide) v) ?_
  refine Runs.bind1 (Runs.rdU8 _ v) ?_
  refine Runs.bind1 (Runs.rdU8 _ v) ?_
  refine Runs.bind1 (Runs.rdU8 _ v) ?_
  refine Runs.bind1 (Runs.rdU8 _ v) ?_
  refine Runs.bind' (Runs.rdU16 _ v (by cases hasMd <;> decide)) (List.append_nil _).symm ?_
  refine Runs.of_eq (Runs.pure _ v) rfl rfl ?_
  cases hasMd <;> rfl

/-- the metadata block followed by an arbitrary continuation, `RunsP` form -/
theorem runsP_metadataStep {β : Type} (k : Option GeometryMetadata → DecM β)
    (md : Option GeometryMetadata) (mdBytes tail : Bytes) (Q : β → Prop) (v v' flags : Nat)
    (hv : bsVersion 1 3 ≤ v) (hflags : flags = if md.isSome then 32768 else 0)
    (hmd : ∀ m, md = some m → m.WF')
    (hmdb : encodeMetadataPart md = some mdBytes) (hk : RunsP (k md) v tail Q v') :
    RunsP (if (decide (v ≥ bsVersion 1 3) && flags / 32768 % 2 == 1) = true then do
        let md ← (do let g ← lift Leaf.decodeGeometryMetadata; pure (some g))
        k md
      else do
        let md ← pure none
        k md) v (mdBytes ++ tail) Q v' := by
  subst hflags
  cases md with
  | none =>
    simp only [encodeMetadataPart, Option.some.injEq] at hmdb
    subst hmdb
    rw [if_neg (by simp)]
    exact RunsP.bindR0 (Runs.pure _ v) hk
  | some m =>
    simp only [encodeMetadataPart] at hmdb
    split at hmdb
    · simp only [Option.some.injEq] at hmdb
      subst hmdb
      rw [if_pos (by simp; exact hv)]
      refine RunsP.bindR ?_ hk
      exact Runs.bind' (Runs.lift (fun extra => geometryMetadata_rt m (hmd m rfl) extra) v)
        (List.append_nil _).symm (Runs.pure _ v)
    · cases hmdb

/-- `PointCloudDecoder::DecodePointAttributes` with kd-tree attribute decoders reads back
    `EncodePointAttributes` of the kd-tree encoder -/
theorem runsP_decodePointAttributesKd_with (dopts : DecOpts) (ch : Choices) (hpart : PartSpec ch.part) (opts : EncOpts)
    (n v : Nat) (atts : List Attribute) (bs : Bytes) (encs : List AttEnc) (hv : bsVersion 2 0 ≤ v)
    (hna : atts.length < 2 ^ 32) (hok : ∀ i a, atts[i]? = some a → AttOK a (opts.att i) n)
    (hsz : 32 * ((2 * (atts.map (·.numComponents)).sum + 3) *
      (n * (32 * (atts.map (·.numComponents)).sum + 1) + 1)) + 3 < 2 ^ 32)
    (henc : encodePointAttributes ch opts n atts = some (bs, encs)) :
    RunsP (decodePointAttributesKd dopts n) v bs
      (fun r => ∃ pts', pts'.Perm (pointVector n encs) ∧ r = (geometryOfPointsWith dopts n encs pts').atts) v := by
  unfold encodePointAttributes at henc
  unfold decodePointAttributesKd
  split at henc
  · simp only [Option.some.injEq, Prod.mk.injEq] at henc
    obtain ⟨rfl, rfl⟩ := henc
    refine RunsP.bindR1 (Runs.rdU8 0 v) ?_
    refine RunsP.bindR0 (by simpa [replicateM', mapM'] using Runs.pure ([] : List (List AttDesc)) v) ?_
    refine RunsP.bindR0 (by simpa [mapM'] using Runs.pure ([] : List (List Attribute)) v) ?_
    exact RunsP.pure _ v ⟨pointVector n [], List.Perm.refl _, by simp [geometryOfPointsWith, kdAttsOf, zip3With]⟩
  · rename_i hemp
    split at henc
    · cases henc
    · rename_i kb encs' hkb
      simp only [Option.some.injEq, Prod.mk.injEq] at henc
      obtain ⟨rfl, rfl⟩ := henc
      unfold encodeKdAttributes at hkb
      split at hkb
      · cases hkb
      · rename_i encs'' hall
        simp only at hkb
        split at hkb
        · cases hkb
        · rename_i hlevel
          simp only [Option.some.injEq, Prod.mk.injEq] at hkb
          obtain ⟨rfl, rfl⟩ := hkb
          -- facts about the encoder states
          have hrel := allSome_forall2 (fun i a => encodeAttribute opts n i a)
            (fun a e => EncFacts n e ∧ e.desc = descOf a) atts 0 encs'' (by
              intro j a e hj he
              rw [Nat.zero_add] at he
              exact encodeAttribute_facts opts n j a e (hok j a hj) he) hall
          have hlen : encs''.length = atts.length := (Kd.forall2_len hrel).symm
          have hf : ∀ e ∈ encs'', EncFacts n e := by
            intro e he
            obtain ⟨a, _, h⟩ := Kd.forall2_mem_right hrel e he
            exact h.1
          have hdim : (atts.map (·.numComponents)).sum = dimOf encs'' := forall2_dim n atts encs'' hrel
          have hne : encs'' ≠ [] := by
            intro h
            rw [h] at hlen
            cases atts with
            | nil => simp at hemp
            | cons _ _ => simp at hlen
          rw [hdim] at hsz hlevel ⊢
          have hl6 : compressionLevel opts.speed (dimOf encs'') ≤ 6 := by omega
          refine RunsP.bindR1 (Runs.rdU8 1 v) ?_
          -- the descriptors
          have hdesc := runs_decodeAttDescs v hv (encs''.map (·.desc)) (by simp; exact hne)
            (by simp [hlen]; exact hna) (by
              intro d hd
              simp only [List.mem_map] at hd
              obtain ⟨e, he, rfl⟩ := hd
              have f := hf e he
              have hdt : 1 ≤ e.desc.dataType ∧ e.desc.dataType ≤ 11 := by
                rcases kindOf_cases _ _ f.kindDt with ⟨_, h | h | h⟩ | ⟨_, h | h | h⟩ | ⟨_, h⟩ <;> omega
              exact ⟨f.attType, hdt.1, hdt.2, f.nc1, f.nc255, f.uid⟩)
          have hrep : Runs (replicateM' 1 decodeAttDescs) v
              (encVarint atts.length ++ encs''.flatMap (fun e => descBytes e.desc))
              [encs''.map (·.desc)] v := by
            have := Runs.replicateM'_map (f := decodeAttDescs) (v := v) [()]
              (fun _ => encVarint (encs''.map (·.desc)).length ++ (encs''.map (·.desc)).flatMap descBytes)
              (fun _ => encs''.map (·.desc)) (fun _ _ => hdesc)
            simp only [List.length_singleton, List.map_cons, List.map_nil, List.flatten_cons,
              List.flatten_nil, List.append_nil, List.length_map, hlen, List.flatMap_map] at this
            exact this
          refine RunsP.bindR hrep ?_
          -- the attributes
          have hatt := runsP_decodeKdAttributes_with dopts ch hpart n v (compressionLevel opts.speed (dimOf encs''))
            encs'' hne hf hl6 (compressionLevel_six _ _) hsz
          generalize hkb : (compressionLevel opts.speed (dimOf encs'') ::
              (Kd.encodePoints ch.part Generated.fastdivTab ch.zeroProbRaw (compressionLevel opts.speed (dimOf encs''))
                  (dimOf encs'') (numBits (pointVector n encs'')) (pointVector n encs'') ++
                ((encs''.flatMap fun e => quantParamBytes e.transform) ++
                  (encs''.flatMap fun e => signedMinBytes e.transform)))) = kb at hatt
          have hmap : RunsP (mapM' (decodeKdAttributes dopts n) [encs''.map (·.desc)]) v kb
              (fun r => ∃ pts', pts'.Perm (pointVector n encs'') ∧ r = [(geometryOfPointsWith dopts n encs'' pts').atts]) v := by
            simp only [mapM']
            refine RunsP.bind' hatt (List.append_nil _).symm ?_
            intro a ha
            refine RunsP.bindR0 (Runs.pure _ v) ?_
            obtain ⟨pts', hp1, hp2⟩ := ha
            exact RunsP.pure _ v ⟨pts', hp1, by rw [hp2]⟩
          refine RunsP.bind' (b2 := []) hmap (by rw [← hkb]; simp only [List.append_assoc, List.append_nil, List.cons_append]) ?_
          intro r hr
          obtain ⟨pts', hp1, hp2⟩ := hr
          exact RunsP.pure _ v ⟨pts', hp1, by rw [hp2]; simp⟩

/-- the ordinary decode (`DecOpts = {}`) -/
theorem runsP_decodePointAttributesKd (ch : Choices) (hpart : PartSpec ch.part) (opts : EncOpts)
    (n v : Nat) (atts : List Attribute) (bs : Bytes) (encs : List AttEnc) (hv : bsVersion 2 0 ≤ v)
    (hna : atts.length < 2 ^ 32) (hok : ∀ i a, atts[i]? = some a → AttOK a (opts.att i) n)
    (hsz : 32 * ((2 * (atts.map (·.numComponents)).sum + 3) *
      (n * (32 * (atts.map (·.numComponents)).sum + 1) + 1)) + 3 < 2 ^ 32)
    (henc : encodePointAttributes ch opts n atts = some (bs, encs)) :
    RunsP (decodePointAttributesKd {} n) v bs
      (fun r => ∃ pts', pts'.Perm (pointVector n encs) ∧ r = (geometryOfPoints n encs pts').atts) v :=
  runsP_decodePointAttributesKd_with {} ch hpart opts n v atts bs encs hv hna hok hsz henc

/-- the composed theorem in `RunsP` form, for any Edgebreaker body decoder -/
theorem runsP_decodeStreamWith_with (dopts : DecOpts) (eb : DecOpts → DecM Geometry) (ch : Choices) (hpart : PartSpec ch.part)
    (g : Geometry) (md : Option GeometryMetadata) (opts : EncOpts) (bs : Bytes) (encs : List AttEnc)
    (hok : GeomOK g opts) (hmd : ∀ m, md = some m → m.WF')
    (henc : encodeGeometryKdFull ch g md opts = some (bs, encs)) :
    RunsP (decodeStreamWith eb Kd.decodeKdGeometry dopts) 0 bs
      (fun r => r.metadata = md ∧ ∃ pts', pts'.Perm (pointVector g.numPoints encs) ∧
        r.geometry = geometryOfPointsWith dopts g.numPoints encs pts') (bsVersion 2 3) := by
  unfold encodeGeometryKdFull at henc
  split at henc
  · cases henc
  · rename_i mdBytes hmdb
    split at henc
    · cases henc
    · rename_i ab encs' hab
      simp only [Option.some.injEq, Prod.mk.injEq] at henc
      obtain ⟨rfl, rfl⟩ := henc
      unfold decodeStreamWith
      simp only [List.append_assoc]
      refine RunsP.bindR (runs_decodeHeaderKd md.isSome 0) ?_
      refine RunsP.bindR0 (Runs.require (by rfl) 0) ?_
      simp only []
      refine RunsP.bindR0 (Runs.require (by rfl) 0) ?_
      rw [if_neg (by show ¬ (false = true); exact Bool.false_ne_true),
        if_neg (by show ¬ (false = true); exact Bool.false_ne_true)]
      refine RunsP.bindR0 (Runs.setVersion _ 0) ?_
      have hatts := runsP_decodePointAttributesKd_with dopts ch hpart opts g.numPoints (bsVersion 2 3) g.atts ab encs'
        (by decide) hok.natts hok.atts hok.size hab
      have hp31 := hok.points31
      have hnp : g.numPoints % 2 ^ 32 = g.numPoints := Nat.mod_eq_of_lt (by omega)
      have hsgn : toSigned 32 g.numPoints = (g.numPoints : Int) := by
        unfold toSigned
        have e : ((2:Nat) ^ 32 : Nat) = 4294967296 := by decide
        have e' : ((2:Nat) ^ (32 - 1) : Nat) = 2147483648 := by decide
        simp only [e, e']
        have : g.numPoints < 2147483648 := by simpa using hp31
        split <;> omega
      rw [hnp]
      refine runsP_metadataStep _ md mdBytes _ _ (bsVersion 2 3) (bsVersion 2 3) _ (by decide) rfl hmd hmdb ?_
      rw [if_neg (by show ¬ (true && false) = true; decide), if_pos (by decide)]
      -- PointCloudKdTreeDecoder
      have hkd : RunsP (Kd.decodeKdGeometry dopts) (bsVersion 2 3) (writeLE 4 g.numPoints ++ ab)
          (fun g' => ∃ pts', pts'.Perm (pointVector g.numPoints encs') ∧
            g' = geometryOfPointsWith dopts g.numPoints encs' pts') (bsVersion 2 3) := by
        unfold Kd.decodeKdGeometry
        refine RunsP.bindR0 (Runs.version _) ?_
        rw [if_neg (by decide)]
        refine RunsP.bindR (Runs.rdI32 _ _ (by omega)) ?_
        rw [hsgn]
        refine RunsP.bindR0 (Runs.require (by simp) _) ?_
        simp only [Int.toNat_natCast]
        refine RunsP.bindR0 (Runs.declare _ _) ?_
        refine RunsP.bind' hatts (List.append_nil _).symm ?_
        intro a ha
        obtain ⟨pts', hp1, hp2⟩ := ha
        exact RunsP.pure _ _ ⟨pts', hp1, by rw [hp2]; rfl⟩
      refine RunsP.bind' hkd (List.append_nil _).symm ?_
      intro g' hg'
      exact RunsP.pure _ _ ⟨rfl, hg'⟩

/-- the ordinary decode (`DecOpts = {}`) -/
theorem runsP_decodeStreamWith (eb : DecOpts → DecM Geometry) (ch : Choices) (hpart : PartSpec ch.part)
    (g : Geometry) (md : Option GeometryMetadata) (opts : EncOpts) (bs : Bytes) (encs : List AttEnc)
    (hok : GeomOK g opts) (hmd : ∀ m, md = some m → m.WF')
    (henc : encodeGeometryKdFull ch g md opts = some (bs, encs)) :
    RunsP (decodeStreamWith eb Kd.decodeKdGeometry {}) 0 bs
      (fun r => r.metadata = md ∧ ∃ pts', pts'.Perm (pointVector g.numPoints encs) ∧
        r.geometry = geometryOfPoints g.numPoints encs pts') (bsVersion 2 3) :=
  runsP_decodeStreamWith_with {} eb ch hpart g md opts bs encs hok hmd henc

end Draco.KdEnc
