import Std.Tactic.Do
import DracoProofs.EbEncPredict
/-
  Round trip of the portable tex-coord prediction scheme of the Edgebreaker codec on the SAME mesh data:
  `texCoordsDecode` (DracoModel/EbPredict.lean) applied to the corrections and the orientation stack of
  `texCoordsEncode` (DracoModel/EbEncPredict.lean) returns the values.

  * `texLoop_spec`: the squared-norm / dot-product accumulation loop (early "cannot be predicted" exits) of both
    predictor functions computes the pure function `texAcc`;
  * `texPredict_of_enc`: when the encoder-side predictor `ComputePredictedValue<true>` returns a prediction (and
    possibly an orientation) for entry `p`, the decoder-side predictor `ComputePredictedValue<false>` — on data that
    agrees on the entries `< p` and with that orientation on top of its stack — returns the same prediction and pops
    the orientation; the unsigned 64-bit arithmetic of the decoder equals the signed arithmetic of the encoder
    because the encoder's sums passed the int64 range checks (`s64_add`, `s64_sub`);
  * loop invariants (`mvcgen`) for both loops, `texOK_of_encode`: a successful encoder run made every predictor
    call successfully.
-/
open Std.Do
set_option mvcgen.warning false
open Draco Draco.EbEnc
open Draco.Eb hiding iabs nextC prevC

namespace Draco.EbEnc

theorem ok_bind {α β : Type} (a : α) (f : α → R β) : (Except.ok a >>= f) = f a := rfl

theorem i64_ok (site : String) (x y : Int) (h : i64 site x = .ok y) : y = x ∧ -(2 ^ 63) ≤ x ∧ x < 2 ^ 63 := by
  unfold i64 at h
  split at h
  · cases h
  · rename_i hc
    simp only [Bool.or_eq_true, decide_eq_true_eq, not_or, not_lt] at hc
    simp only [pure, Except.pure, Except.ok.injEq] at h
    exact ⟨h.symm, hc.1, by omega⟩

theorem s64_add (a b : Int) (ha : -(2 ^ 63) ≤ a ∧ a < 2 ^ 63) (hb : -(2 ^ 63) ≤ b ∧ b < 2 ^ 63)
    (hs : -(2 ^ 63) ≤ a + b ∧ a + b < 2 ^ 63) : s64 ((u64 a + u64 b) % 2 ^ 64) = a + b := by
  unfold s64 u64 toSigned toUnsigned
  omega

theorem s64_sub (a b : Int) (ha : -(2 ^ 63) ≤ a ∧ a < 2 ^ 63) (hb : -(2 ^ 63) ≤ b ∧ b < 2 ^ 63)
    (hs : -(2 ^ 63) ≤ a - b ∧ a - b < 2 ^ 63) : s64 ((u64 a + 2 ^ 64 - u64 b) % 2 ^ 64) = a - b := by
  unfold s64 u64 toSigned toUnsigned
  omega


/-- one round of the squared-norm / dot-product accumulation of the tex-coord predictor
    (`none` = "cannot be predicted") -/
def texStep (acc : Int × Int) (x : Int × Int) : Option (Int × Int) :=
  let int64Max : Int := 2 ^ 63 - 1
  let a := Eb.iabs x.1
  let b := Eb.iabs x.2
  if a > 0xffffffff || b > 0xffffffff then none else
  let aa := a * a
  if aa > int64Max - acc.1 then none else
  let pn := acc.1 + aa
  let ab := a * b
  if ab > int64Max then none else
  let term := if (x.1 < 0) != (x.2 < 0) then -ab else ab
  if (term > 0 && acc.2 > int64Max - term) || (term < 0 && acc.2 < -int64Max - term) then none else
  some (pn, acc.2 + term)

def texAcc : List (Int × Int) → Int × Int → Option (Int × Int)
  | [], acc => some acc
  | x :: xs, acc => match texStep acc x with
    | none => none
    | some acc' => texAcc xs acc'

/-- the body of the `for (pi, ci) in …` loop of `texPredict` / `texPredictEnc` (result type `α`) -/
def texLoopBody {α : Type} (x : Int × Int) (s : Option (Option α) × Int × Int) :
    R (ForInStep (Option (Option α) × Int × Int)) :=
  have s2 := s.2
  have pnNorm2 := s2.1
  have cnDotPn := s2.2
  match x with
  | (pi, ci) =>
    have int64Max : Int := 2 ^ 63 - 1
    have a := Eb.iabs pi
    have b := Eb.iabs ci
    if (decide (a > 4294967295) || decide (b > 4294967295)) = true then
      pure (ForInStep.done (some none, pnNorm2, cnDotPn))
    else
      have aa := a * a
      if aa > int64Max - pnNorm2 then pure (ForInStep.done (some none, pnNorm2, cnDotPn))
      else
        have pnNorm2 := pnNorm2 + aa
        have ab := a * b
        if ab > int64Max then pure (ForInStep.done (some none, pnNorm2, cnDotPn))
        else
          have term := if (decide (pi < 0) != decide (ci < 0)) = true then -ab else ab
          if (decide (term > 0) && decide (cnDotPn > int64Max - term) ||
                decide (term < 0) && decide (cnDotPn < -int64Max - term)) = true then
            pure (ForInStep.done (some none, pnNorm2, cnDotPn))
          else
            have cnDotPn := cnDotPn + term
            pure (ForInStep.yield (none, pnNorm2, cnDotPn))

theorem texLoopBody_spec {α : Type} (x : Int × Int) (r : Option (Option α)) (pn cd : Int) :
    (texStep (pn, cd) x = none ∧ ∃ a b, texLoopBody x (r, pn, cd) = (Except.ok (ForInStep.done (some none, a, b)) : R _)) ∨
    (∃ acc', texStep (pn, cd) x = some acc' ∧
      texLoopBody x (r, pn, cd) = (Except.ok (ForInStep.yield (none, acc'.1, acc'.2)) : R _)) := by
  obtain ⟨pi, ci⟩ := x
  unfold texLoopBody texStep
  simp only []
  by_cases h1 : (decide (Eb.iabs pi > 4294967295) || decide (Eb.iabs ci > 4294967295)) = true
  · rw [if_pos h1, if_pos h1]
    exact Or.inl ⟨rfl, _, _, rfl⟩
  · rw [if_neg h1, if_neg h1]
    by_cases h2 : Eb.iabs pi * Eb.iabs pi > 2 ^ 63 - 1 - pn
    · rw [if_pos h2, if_pos h2]
      exact Or.inl ⟨rfl, _, _, rfl⟩
    · rw [if_neg h2, if_neg h2]
      by_cases h3 : Eb.iabs pi * Eb.iabs ci > 2 ^ 63 - 1
      · rw [if_pos h3, if_pos h3]
        exact Or.inl ⟨rfl, _, _, rfl⟩
      · rw [if_neg h3, if_neg h3]
        generalize (if (decide (pi < 0) != decide (ci < 0)) = true then -(Eb.iabs pi * Eb.iabs ci)
          else Eb.iabs pi * Eb.iabs ci) = term
        by_cases h4 : (decide (term > 0) && decide (cd > 2 ^ 63 - 1 - term) ||
            decide (term < 0) && decide (cd < -(2 ^ 63 - 1) - term)) = true
        · rw [if_pos h4, if_pos h4]
          exact Or.inl ⟨rfl, _, _, rfl⟩
        · rw [if_neg h4, if_neg h4]
          exact Or.inr ⟨_, rfl, rfl⟩

theorem texLoop_spec {α : Type} : ∀ (l : List (Int × Int)) (acc : Int × Int),
    ∃ s : Option (Option α) × Int × Int,
      forIn l ((none : Option (Option α)), acc.1, acc.2) texLoopBody = (Except.ok s : R _) ∧
      ((texAcc l acc = none ∧ s.1 = some none) ∨ (texAcc l acc = some s.2 ∧ s.1 = none)) := by
  intro l
  induction l with
  | nil => intro acc; exact ⟨_, rfl, Or.inr ⟨rfl, rfl⟩⟩
  | cons x xs ih =>
    intro acc
    obtain ⟨pn, cd⟩ := acc
    simp only [List.forIn_cons, texAcc]
    rcases texLoopBody_spec (α := α) x none pn cd with ⟨h1, a, b, h2⟩ | ⟨acc', h1, h2⟩
    · rw [h2, h1]
      exact ⟨_, rfl, Or.inl ⟨rfl, rfl⟩⟩
    · rw [h2, h1]
      exact ih acc'



/-- the delta fall-back of the tex-coord predictor, encoder side -/
def texFallbackE (data : Array Int) (p nextData prevData : Nat) : R (Option ((Int × Int) × Option Bool)) :=
  have off := 0
  have jp2 := fun (off : Nat) => do
    let a ← rdI "data" data off
    let b ← rdI "data" data (off + 1)
    pure (some ((a, b), (none : Option Bool)))
  have jp1 := fun (off : Nat) =>
    if nextData < p then
      have off := nextData * 2
      jp2 off
    else
      if p > 0 then
        have off := (p - 1) * 2
        jp2 off
      else pure (some ((0, 0), none))
  if prevData < p then
    have off := prevData * 2
    jp1 off
  else jp1 off

/-- … decoder side -/
def texFallbackD (data : Array Int) (p nextData prevData : Nat) (orient : Array Bool) :
    R (Option ((Int × Int) × Array Bool × Bool)) :=
  have off := 0
  have jp2 := fun (off : Nat) => do
    let a ← rdI "data" data off
    let b ← rdI "data" data (off + 1)
    pure (some ((a, b), orient, false))
  have jp1 := fun (off : Nat) =>
    if nextData < p then
      have off := nextData * 2
      jp2 off
    else
      if p > 0 then
        have off := (p - 1) * 2
        jp2 off
      else pure (some ((0, 0), orient, false))
  if prevData < p then
    have off := prevData * 2
    jp1 off
  else jp1 off

theorem texFallback_rel (orig d : Array Int) (p nextData prevData : Nat) (hs : d.size = orig.size)
    (hagree : ∀ i (h1 : i < d.size) (h2 : i < orig.size), i < 2 * p → d[i] = orig[i])
    (uv : Int × Int) (o : Option Bool) (h : texFallbackE orig p nextData prevData = .ok (some (uv, o)))
    (orient : Array Bool) :
    o = none ∧ texFallbackD d p nextData prevData orient = .ok (some (uv, orient, false)) := by
  have key : ∀ off, off + 1 < 2 * p →
      (do let a ← rdI "data" orig off
          let b ← rdI "data" orig (off + 1)
          pure (some ((a, b), (none : Option Bool))) : R _) = .ok (some (uv, o)) →
      o = none ∧ (do let a ← rdI "data" d off
                     let b ← rdI "data" d (off + 1)
                     pure (some ((a, b), orient, false)) : R _) = .ok (some (uv, orient, false)) := by
    intro off hoff hk
    rw [bind_ok_iff] at hk
    obtain ⟨a, ha, hk⟩ := hk
    rw [bind_ok_iff] at hk
    obtain ⟨b, hb, hk⟩ := hk
    simp only [pure, Except.pure, Except.ok.injEq, Option.some.injEq, Prod.mk.injEq] at hk
    obtain ⟨huv, ho⟩ := hk
    refine ⟨ho.symm, ?_⟩
    rw [rdI_congr _ d orig off hs (fun h1 h2 => hagree _ h1 h2 (by omega)), ha, ok_bind,
      rdI_congr _ d orig (off + 1) hs (fun h1 h2 => hagree _ h1 h2 (by omega)), hb, ok_bind, ← huv]
    rfl
  unfold texFallbackE at h
  unfold texFallbackD
  simp only [] at h ⊢
  by_cases hn : nextData < p
  · simp only [hn, if_true, ite_self] at h ⊢
    exact key _ (by omega) h
  · simp only [hn, if_false] at h ⊢
    by_cases hp0 : p > 0
    · simp only [hp0, if_true, ite_self] at h ⊢
      exact key _ (by omega) h
    · simp only [hp0, if_false, ite_self] at h ⊢
      simp only [pure, Except.pure, Except.ok.injEq, Option.some.injEq, Prod.mk.injEq] at h
      obtain ⟨huv, ho⟩ := h
      exact ⟨ho.symm, by rw [← huv]; rfl⟩


/-- the orientation stack the decoder holds before an entry: the encoder's orientation of the entry (if any) on top -/
def pushOpt (orient : Array Bool) : Option Bool → Array Bool
  | none => orient
  | some b => orient.push b

theorem texPredict_of_enc (md : MeshData) (ps : PosSource) (corner : Nat) (orig d : Array Int) (p : Nat)
    (hs : d.size = orig.size)
    (hagree : ∀ i (h1 : i < d.size) (h2 : i < orig.size), i < 2 * p → d[i] = orig[i])
    (uv : Int × Int) (o : Option Bool)
    (h : texPredictEnc md ps corner orig p = .ok (some (uv, o))) (orient : Array Bool) :
    texPredict md ps corner d p (pushOpt orient o) =
      .ok (some (uv, orient, o.isSome)) := by
  unfold texPredictEnc at h
  unfold texPredict
  rw [bind_ok_iff] at h
  obtain ⟨nextVert, hnv, h⟩ := h
  rw [bind_ok_iff] at h
  obtain ⟨prevVert, hpv, h⟩ := h
  rw [bind_ok_iff] at h
  obtain ⟨nextData, hnd, h⟩ := h
  rw [bind_ok_iff] at h
  obtain ⟨prevData, hpd, h⟩ := h
  rw [hnv, ok_bind, hpv, ok_bind, hnd, ok_bind, hpd, ok_bind]
  -- the `-1` check of the encoder
  by_cases hinv : (nextData == inv || prevData == inv) = true
  · simp only [hinv, if_true] at h
    cases h
  simp only [hinv, Bool.false_eq_true, if_false] at h
  -- the fall-back exits of both functions
  have hfb : texFallbackE orig p nextData prevData = .ok (some (uv, o)) →
      texFallbackD d p nextData prevData (pushOpt orient o) =
        .ok (some (uv, orient, o.isSome)) := by
    intro hf
    obtain ⟨ho, hd⟩ := texFallback_rel orig d p nextData prevData hs hagree uv o hf orient
    subst ho
    exact hd
  by_cases hc : (decide (prevData < p) && decide (nextData < p)) = true
  · rw [if_pos hc] at h
    rw [if_pos hc]
    simp only [Bool.and_eq_true, decide_eq_true_eq] at hc
    obtain ⟨hpl, hnl⟩ := hc
    rw [bind_ok_iff] at h
    obtain ⟨nU, hnU, h⟩ := h
    rw [bind_ok_iff] at h
    obtain ⟨nV, hnV, h⟩ := h
    rw [bind_ok_iff] at h
    obtain ⟨pU, hpU, h⟩ := h
    rw [bind_ok_iff] at h
    obtain ⟨pV, hpV, h⟩ := h
    rw [rdI_congr _ d orig (2 * nextData) hs (fun h1 h2 => hagree _ h1 h2 (by omega)), hnU, ok_bind,
      rdI_congr _ d orig (2 * nextData + 1) hs (fun h1 h2 => hagree _ h1 h2 (by omega)), hnV, ok_bind,
      rdI_congr _ d orig (2 * prevData) hs (fun h1 h2 => hagree _ h1 h2 (by omega)), hpU, ok_bind,
      rdI_congr _ d orig (2 * prevData + 1) hs (fun h1 h2 => hagree _ h1 h2 (by omega)), hpV, ok_bind]
    by_cases heq : (pU == nU && pV == nV) = true
    · rw [if_pos heq] at h
      rw [if_pos heq]
      simp only [pure, Except.pure, Except.ok.injEq, Option.some.injEq, Prod.mk.injEq] at h
      obtain ⟨huv, ho⟩ := h
      subst ho huv
      rfl
    · rw [if_neg heq] at h
      rw [if_neg heq]
      rw [bind_ok_iff] at h
      obtain ⟨tp, htp, h⟩ := h
      obtain ⟨tx, ty, tz⟩ := tp
      rw [htp, ok_bind]
      simp only [] at h ⊢
      rw [bind_ok_iff] at h
      obtain ⟨np, hnp, h⟩ := h
      obtain ⟨nx, ny, nz⟩ := np
      rw [hnp, ok_bind]
      simp only [] at h ⊢
      rw [bind_ok_iff] at h
      obtain ⟨pp, hpp, h⟩ := h
      obtain ⟨px, py, pz⟩ := pp
      rw [hpp, ok_bind]
      simp only [] at h ⊢
      obtain ⟨sE, hsE, hcE⟩ := texLoop_spec (α := (Int × Int) × Option Bool)
        [(px - nx, tx - nx), (py - ny, ty - ny), (pz - nz, tz - nz)] (0, 0)
      obtain ⟨sD, hsD, hcD⟩ := texLoop_spec (α := (Int × Int) × Array Bool × Bool)
        [(px - nx, tx - nx), (py - ny, ty - ny), (pz - nz, tz - nz)] (0, 0)
      rw [bind_ok_iff] at h
      obtain ⟨s, hloop, h⟩ := h
      have hsEq : s = sE := by
        have := hloop.symm.trans hsE
        exact Except.ok.inj this
      subst hsEq
      refine (bind_ok_iff _ _ _).mpr ⟨sD, hsD, ?_⟩
      rcases hcE with ⟨hE1, hE2⟩ | ⟨hE1, hE2⟩
      · -- "cannot be predicted": the encoder returns false
        rw [hE2] at h
        simp only [pure, Except.pure, Except.ok.injEq] at h
        cases h
      rcases hcD with ⟨hD1, hD2⟩ | ⟨hD1, hD2⟩
      · rw [hD1] at hE1; cases hE1
      have hacc : sD.2 = s.2 := by
        rw [hD1] at hE1
        exact Option.some.inj hE1
      obtain ⟨s1, pn, cd⟩ := s
      obtain ⟨sD1, pn', cd'⟩ := sD
      simp only [] at hE2 hD2 hacc
      obtain ⟨rfl, rfl⟩ := Prod.mk.inj hacc
      subst hE2 hD2
      simp only [] at h ⊢
      by_cases hz : (pn' != 0) = true
      · rw [if_pos hz] at h
        rw [if_pos hz]
        by_cases c1 : max (Eb.iabs nU) (Eb.iabs nV) > (2 ^ 63 - 1) / pn'
        · rw [if_pos c1] at h; cases h
        rw [if_neg c1] at h
        rw [if_neg c1]
        by_cases c2 : Eb.iabs cd' > (2 ^ 63 - 1) / max (Eb.iabs (pU - nU)) (Eb.iabs (pV - nV))
        · rw [if_pos c2] at h; cases h
        rw [if_neg c2] at h
        rw [if_neg c2]
        rw [bind_ok_iff] at h
        obtain ⟨xU, hxU, h⟩ := h
        rw [bind_ok_iff] at h
        obtain ⟨xV, hxV, h⟩ := h
        rw [hxU, ok_bind, hxV, ok_bind]
        by_cases c3 : Eb.iabs cd' > (2 ^ 63 - 1) / max (max (Eb.iabs (px - nx)) (Eb.iabs (py - ny))) (Eb.iabs (pz - nz))
        · rw [if_pos c3] at h; cases h
        rw [if_neg c3] at h
        rw [if_neg c3]
        rw [bind_ok_iff] at h
        obtain ⟨cxNorm2, hcx, h⟩ := h
        rw [bind_ok_iff] at h
        obtain ⟨cxU, hcxU, h⟩ := h
        rw [bind_ok_iff] at h
        obtain ⟨cxV, hcxV, h⟩ := h
        rw [hcx, ok_bind, hcxU, ok_bind, hcxV, ok_bind]
        rw [bind_ok_iff] at h
        obtain ⟨s0U, hs0U, h⟩ := h
        rw [bind_ok_iff] at h
        obtain ⟨s0V, hs0V, h⟩ := h
        rw [bind_ok_iff] at h
        obtain ⟨s1U, hs1U, h⟩ := h
        rw [bind_ok_iff] at h
        obtain ⟨s1V, hs1V, h⟩ := h
        simp only [bind_ok_iff] at h
        obtain ⟨cU, _, cV, _, d0U, _, d0V, _, d1U, _, d1V, _, q1, _, q2, _, n0, _, q3, _, q4, _, n1, _, h⟩ := h
        obtain ⟨e0U, r0U⟩ := i64_ok _ _ _ hs0U
        obtain ⟨e0V, r0V⟩ := i64_ok _ _ _ hs0V
        obtain ⟨e1U, r1U⟩ := i64_ok _ _ _ hs1U
        obtain ⟨e1V, r1V⟩ := i64_ok _ _ _ hs1V
        obtain ⟨_, rxU⟩ := i64_ok _ _ _ hxU
        obtain ⟨_, rxV⟩ := i64_ok _ _ _ hxV
        obtain ⟨_, rcU⟩ := i64_ok _ _ _ hcxU
        obtain ⟨_, rcV⟩ := i64_ok _ _ _ hcxV
        subst_vars
        split at h
        · simp only [pure, Except.pure, Except.ok.injEq, Option.some.injEq, Prod.mk.injEq] at h
          obtain ⟨huv, ho⟩ := h
          subst ho huv
          simp only [pushOpt, Array.isEmpty_push, Bool.false_eq_true, if_false, Array.back!_push, if_true,
            Array.pop_push, Option.isSome_some]
          rw [s64_add _ _ rxU rcU r0U, s64_add _ _ rxV rcV r0V]
          rfl
        · simp only [pure, Except.pure, Except.ok.injEq, Option.some.injEq, Prod.mk.injEq] at h
          obtain ⟨huv, ho⟩ := h
          subst ho huv
          simp only [pushOpt, Array.isEmpty_push, Bool.false_eq_true, if_false, Array.back!_push,
            Array.pop_push, Option.isSome_some]
          rw [s64_sub _ _ rxU rcU r1U, s64_sub _ _ rxV rcV r1V]
          rfl
      · rw [if_neg hz] at h
        rw [if_neg hz]
        exact hfb h
  · rw [if_neg hc] at h
    rw [if_neg hc]
    exact hfb h


/-! ### the loops -/

theorem blocksFrom_patch (size nc : Nat) (g : Nat → Nat → Int) (q : Nat) :
    patch (blocksFrom size nc (q + 1) g) (q * nc) nc (fun c _ => g q c) = blocksFrom size nc q g := by
  apply Array.ext
  · simp [blocksFrom]
  · intro i h1 h2
    have hi : i < size := by simpa [blocksFrom] using h2
    rw [patch_get _ _ _ _ i (by simpa [blocksFrom] using hi)]
    simp only [blocksFrom, Array.getElem_ofFn]
    have hsm : (q + 1) * nc = q * nc + nc := Nat.succ_mul q nc
    by_cases hb : q * nc ≤ i ∧ i < q * nc + nc
    · obtain ⟨hd, hm⟩ := block_div_mod hb.1 hb.2
      rw [if_pos hb, if_pos hb.1, hd, hm]
    · rw [if_neg hb]
      by_cases h3 : (q + 1) * nc ≤ i
      · rw [if_pos h3, if_pos (by omega)]
      · rw [if_neg h3, if_neg (by omega)]

/-- value of the encoder-side prediction of entry `p` -/
def texVal (md : MeshData) (ps : PosSource) (data : Array Int) (p : Nat) : (Int × Int) × Option Bool :=
  match texPredictEnc md ps (md.d2c[p]!) data p with
  | .ok (some r) => r
  | _ => ((0, 0), none)

def TexOK (md : MeshData) (ps : PosSource) (data : Array Int) : Prop :=
  ∀ p, p < md.d2c.size → texPredictEnc md ps (md.d2c[p]!) data p = pure (some (texVal md ps data p))

/-- the orientation stack after the encoder processed the `j` last entries -/
def texStack (md : MeshData) (ps : PosSource) (data : Array Int) : Nat → Array Bool
  | 0 => #[]
  | j + 1 => pushOpt (texStack md ps data j) (texVal md ps data (md.d2c.size - 1 - j)).2

def texCorrAt (md : MeshData) (ps : PosSource) (wt : WrapT) (data : Array Int) (p c : Nat) : Int :=
  Wrap.encCorr wt (data.getD (p * 2 + c) 0)
    (if c = 0 then (texVal md ps data p).1.1 else (texVal md ps data p).1.2)

theorem texCoordsEncode_spec (md : MeshData) (ps : PosSource) (wt : WrapT) (data : Array Int) (n : Nat)
    (hd : md.d2c.size = n) (hsz : data.size = n * 2) (hok : TexOK md ps data) :
    ⦃⌜True⌝⦄ texCoordsEncode md ps wt 2 data
    ⦃⇓ r => ⌜r = (blocksFrom data.size 2 0 (texCorrAt md ps wt data), texStack md ps data n)⌝⦄ := by
  mvcgen [texCoordsEncode]
  case inv1 =>
    exact ⇓⟨xs, b⟩ => ⌜b = (blocksFrom data.size 2 (n - xs.prefix.length) (texCorrAt md ps wt data),
      texStack md ps data xs.prefix.length)⌝
  case vc1.step =>
    rename_i jp out0 orient0 n0 pref cur suff hsplit b out1 orient1 p1 corner1 hb0
    obtain ⟨hc, hlt⟩ := range_split hsplit
    have hn0 : n0 = n := hd
    rw [hn0] at hlt
    have hcur : cur = pref.length := by omega
    obtain ⟨bo, bs⟩ := b
    have hb : (bo, bs) = (blocksFrom data.size 2 (n - pref.length) (texCorrAt md ps wt data),
      texStack md ps data pref.length) := hb0
    obtain ⟨hbo, hbs⟩ := Prod.mk.inj hb
    subst hbo hbs hcur
    have hp1 : p1 = n - 1 - pref.length := by simp only [p1, hn0]
    simp only [corner1, out1, orient1]
    rw [hp1, hok (n - 1 - pref.length) (by omega)]
    have hle : (n - 1 - pref.length) * 2 + 2 ≤ data.size := by omega
    have hcorr : ∀ (u v : Int), u = (texVal md ps data (n - 1 - pref.length)).1.1 → v = (texVal md ps data (n - 1 - pref.length)).1.2 →
        corrWrap wt 2 (2 * (n - 1 - pref.length)) (fun c => pure (if (c == 0) = true then u else v)) data
          (blocksFrom data.size 2 (n - pref.length) (texCorrAt md ps wt data)) =
        pure (blocksFrom data.size 2 (n - (pref.length + 1)) (texCorrAt md ps wt data)) := by
      intro u v hu hv
      rw [Nat.mul_comm 2 (n - 1 - pref.length),
        corrWrap_eq wt 2 ((n - 1 - pref.length) * 2) _ (fun c => if c = 0 then u else v) data _ (by omega)
          (by simp [blocksFrom]) (fun c _ => by simp)]
      have h1 : n - pref.length = (n - 1 - pref.length) + 1 := by omega
      have h2 : n - (pref.length + 1) = n - 1 - pref.length := by omega
      rw [h1, h2, ← blocksFrom_patch data.size 2 (texCorrAt md ps wt data) (n - 1 - pref.length)]
      subst hu hv
      rfl
    rcases hv : texVal md ps data (n - 1 - pref.length) with ⟨⟨u, v⟩, o⟩
    have hst : texStack md ps data (pref.length + 1) = pushOpt (texStack md ps data pref.length) o := by
      simp only [texStack, hd, hv]
    cases o with
    | none =>
      mvcgen
      rw [hcorr u v (by rw [hv]) (by rw [hv])]
      mvcgen
      simp only [List.length_append, List.length_cons, List.length_nil, Nat.zero_add]
      rw [hst]; rfl
    | some bb =>
      mvcgen
      rw [hcorr u v (by rw [hv]) (by rw [hv])]
      mvcgen
      simp only [List.length_append, List.length_cons, List.length_nil, Nat.zero_add]
      rw [hst]; rfl
  case vc2.pre =>
    show (Array.replicate data.size (0 : Int), (#[] : Array Bool)) =
      (blocksFrom data.size 2 (n - 0) (texCorrAt md ps wt data), texStack md ps data 0)
    refine Prod.ext ?_ rfl
    apply Array.ext
    · simp [blocksFrom]
    · intro i h1 h2
      have hi : i < data.size := by simpa using h1
      simp only [blocksFrom, Array.getElem_ofFn, Array.getElem_replicate, Nat.sub_zero]
      rw [if_neg (by omega)]
  case vc3.post.success =>
    rename_i jp out0 orient0 n0 r out1 orient1 hr0
    have hr : r = (blocksFrom data.size 2 (n - ([:n0].toList).length) (texCorrAt md ps wt data),
      texStack md ps data ([:n0].toList).length) := hr0
    have hn0 : n0 = n := hd
    rw [range_length, hn0] at hr
    show (r.1, r.2) = _
    rw [hr]
    simp
  case vc4.post.except => simp


theorem texCoordsDecode_spec (md : MeshData) (ps : PosSource) (wt : WrapT) (orig corr : Array Int) (n : Nat)
    (hd : md.d2c.size = n) (hsz : orig.size = n * 2) (hcs : corr.size = orig.size) (hok : TexOK md ps orig)
    (hinv : ∀ p c, p < n → c < 2 →
      Leaf.wrapDec wt (if c = 0 then (texVal md ps orig p).1.1 else (texVal md ps orig p).1.2)
        (corr.getD (p * 2 + c) 0) = orig.getD (p * 2 + c) 0) :
    ⦃⌜True⌝⦄ texCoordsDecode md ps wt 2 (texStack md ps orig n) corr ⦃⇓ r => ⌜r.1 = orig⌝⦄ := by
  mvcgen [texCoordsDecode]
  case inv1 =>
    exact ⇓⟨xs, b⟩ => ⌜b.1 = mix orig corr (xs.prefix.length * 2) ∧
      b.2.1 = texStack md ps orig (n - xs.prefix.length)⌝
  case vc1.step =>
    rename_i jp orient0 pref cur suff hsplit b data1 s1 orient1 used1 corner1 hb0
    obtain ⟨hc, hlt⟩ := range_split hsplit
    rw [hd] at hlt
    have hcur : cur = pref.length := by omega
    obtain ⟨bd, bo, bu⟩ := b
    have hb : bd = mix orig corr (pref.length * 2) ∧ bo = texStack md ps orig (n - pref.length) := hb0
    obtain ⟨hbd, hbo⟩ := hb
    subst hbd hbo hcur
    simp only [corner1, data1, orient1, s1, used1]
    -- the stack before entry `p`
    have hst : texStack md ps orig (n - pref.length) =
        pushOpt (texStack md ps orig (n - (pref.length + 1))) (texVal md ps orig pref.length).2 := by
      have h1 : n - pref.length = (n - (pref.length + 1)) + 1 := by omega
      rw [h1]
      simp only [texStack, hd]
      congr 3
      omega
    have hcall := hok pref.length (by omega)
    have hrel := texPredict_of_enc md ps (md.d2c[pref.length]!) orig (mix orig corr (pref.length * 2)) pref.length
      (by simp [hcs]) (by
        intro i h1 h2 hi
        rw [mix_get orig corr _ i (by simpa using h1), if_pos (by omega)]
        simp [Array.getD, h2]) (texVal md ps orig pref.length).1 (texVal md ps orig pref.length).2 hcall
      (texStack md ps orig (n - (pref.length + 1)))
    have hrel' : texPredict md ps (md.d2c[pref.length]!) (mix orig corr (pref.length * 2)) pref.length
        (pushOpt (texStack md ps orig (n - (pref.length + 1))) (texVal md ps orig pref.length).2) =
        pure (some ((texVal md ps orig pref.length).1, texStack md ps orig (n - (pref.length + 1)),
          (texVal md ps orig pref.length).2.isSome)) := hrel
    rw [hst, hrel']
    have hle : (pref.length + 1) * 2 ≤ corr.size := by omega
    have happ : applyWrap wt 2 (2 * pref.length)
        (fun c => pure (if (c == 0) = true then (texVal md ps orig pref.length).1.1 else (texVal md ps orig pref.length).1.2))
        (mix orig corr (pref.length * 2)) = pure (mix orig corr ((pref.length + 1) * 2)) := by
      rw [Nat.mul_comm 2 pref.length,
        applyWrap_eq wt 2 (pref.length * 2) _
          (fun c => if c = 0 then (texVal md ps orig pref.length).1.1 else (texVal md ps orig pref.length).1.2)
          _ (by simp; omega) (fun c _ => by simp),
        mix_patch orig corr 2 pref.length _ (fun c hc => hinv pref.length c hlt hc) hle]
    mvcgen
    all_goals
      rw [happ]
      mvcgen
      simp [List.length_append]
  case vc2.pre =>
    show corr = mix orig corr (0 * 2) ∧ texStack md ps orig n = texStack md ps orig (n - 0)
    exact ⟨by rw [Nat.zero_mul, mix_zero], rfl⟩
  case vc3.post.success =>
    rename_i jp orient0 r data1 s1 used1 hr0
    have hr : r.1 = mix orig corr (([:md.d2c.size].toList).length * 2) ∧ _ := hr0
    rw [range_length, hd] at hr
    show r.1 = orig
    rw [hr.1]
    exact mix_all orig corr _ hcs (by omega)
  case vc4.post.except => simp


theorem texOK_of_encode (md : MeshData) (ps : PosSource) (wt : WrapT) (data : Array Int) (r : Array Int × Array Bool)
    (h : texCoordsEncode md ps wt 2 data = .ok r) : TexOK md ps data := by
  intro p hp
  unfold texCoordsEncode at h
  simp only [Std.Legacy.Range.forIn_eq_forIn_range', bne_self_eq_false, Bool.false_eq_true, if_false] at h
  rw [bind_ok_iff] at h
  obtain ⟨st, hloop, _⟩ := h
  have hmem : md.d2c.size - 1 - p ∈ List.range' 0 ([:md.d2c.size].size) 1 := by
    simp [Std.Legacy.Range.size, List.mem_range']
    omega
  obtain ⟨s, r', hbody⟩ := forIn_ok_steps _ _ (by
    intro a s r hr
    rw [bind_ok_iff] at hr
    obtain ⟨x, _, hr⟩ := hr
    rcases x with _ | ⟨⟨u, v⟩, o⟩
    · simp [throw, throwThe, MonadExceptOf.throw, bind, Except.bind] at hr
    · rcases o with _ | b
      · simp only [] at hr
        rw [bind_ok_iff] at hr
        obtain ⟨_, _, hr⟩ := hr
        simp [pure, Except.pure] at hr
        exact ⟨_, hr.symm⟩
      · simp only [] at hr
        rw [bind_ok_iff] at hr
        obtain ⟨_, _, hr⟩ := hr
        simp [pure, Except.pure] at hr
        exact ⟨_, hr.symm⟩) _ _ hloop _ hmem
  rw [bind_ok_iff] at hbody
  obtain ⟨x, hcall, hrest⟩ := hbody
  have hp' : md.d2c.size - 1 - (md.d2c.size - 1 - p) = p := by omega
  rw [hp'] at hcall
  rcases x with _ | x
  · simp [throw, throwThe, MonadExceptOf.throw, bind, Except.bind] at hrest
  · show texPredictEnc md ps md.d2c[p]! data p = Except.ok (some (texVal md ps data p))
    simp [texVal, hcall]

/-- **tex-coords portable prediction**: whenever the encoder loop succeeds, the decoder loop — given the encoder's
    corrections and orientation stack — returns the values (2 components per entry, inside the range of the
    wrap transform) -/
theorem tex_coords_roundtrip (md : MeshData) (ps : PosSource) (wt : WrapT) (lo hi : Int) (n : Nat) (data : Array Int)
    (hd : md.d2c.size = n) (hsz : data.size = n * 2)
    (hinit : Wrap.init lo hi = some wt) (hlo : -2 ^ 31 ≤ lo) (hhi : hi < 2 ^ 31)
    (hrange : ∀ i (h : i < data.size), lo ≤ data[i] ∧ data[i] ≤ hi)
    (corr : Array Int) (orient : Array Bool) (henc : texCoordsEncode md ps wt 2 data = .ok (corr, orient)) :
    ∃ used, texCoordsDecode md ps wt 2 orient corr = .ok (data, used) := by
  have hok := texOK_of_encode md ps wt data _ henc
  obtain ⟨a, h1, h2⟩ := R.of_triple (texCoordsEncode_spec md ps wt data n hd hsz hok)
  rw [henc] at h1
  cases h1
  obtain ⟨hcorr, horient⟩ := Prod.mk.inj h2
  subst hcorr horient
  have hspec := texCoordsDecode_spec md ps wt data (blocksFrom data.size 2 0 (texCorrAt md ps wt data)) n hd hsz
    (by simp [blocksFrom]) hok ?_
  · obtain ⟨r, e1, e2⟩ := R.of_triple hspec
    refine ⟨r.2, ?_⟩
    rw [e1]
    congr 1
    exact Prod.ext e2 rfl
  · intro p c hp hc
    have hi : p * 2 + c < data.size := by omega
    rw [blocksFrom_getD data.size 2 _ p c hc hi]
    unfold texCorrAt
    have hv : data.getD (p * 2 + c) 0 = data[p * 2 + c] := by simp [Array.getD, hi]
    rw [hv]
    obtain ⟨h1, h2⟩ := hrange (p * 2 + c) hi
    exact (Wrap.decOrig_encCorr (Wrap.init_bounds hinit).1 (Wrap.init_bounds hinit).2.1 (Wrap.init_bounds hinit).2.2
      hlo hhi _ _ h1 h2)

end Draco.EbEnc
