import DracoProofs.EbCountsRun2
import DracoProofs.EbFinal3
import DracoProofs.EbValid
import DracoProofs.EbEncStages
/-
  The point / face counts the two codecs REPORT: `enc.numEncodedPoints`, `enc.numEncodedFaces` of `encodeEdgebreaker`
  against `mesh.numPoints`, `mesh.numFaces` of the decoder's `decodeConnectivity`.

  (1) `decodeConnectivity_stages`: a successful `decodeConnectivity` is `connLoop` (→ `co`), `decodeSeams`, `buildAttConn` for
      every attribute data, `assignPoints` (`DecStagesOf mesh co`), by inversion (`Robust.Post`; `decodeConnectivity_stages_runs`
      from `Runs`).
  (2) `conn_atts_init`, `usedOf_init`: every entry of the encoder's `attribute_data_` — hence every attribute corner table
      `ComputeNumberOfEncodedPoints` looks at (`usedOf`) — is made by `InitFromAttribute` on the encoder's table.
  (3) `eb_encoded_counts_of_link` (more than one attribute) / `eb_encoded_counts_of_link_single`: encoder run + decoder
      stages + the link ⇒ `enc.numEncodedPoints = mesh.numPoints ∧ enc.numEncodedFaces = mesh.numFaces`.

  INDEX ALIGNMENT.  `usedOf enc` lists the attribute corner tables of the controllers that encode on their attribute table
  (`onAttTable`: an attribute data WITH interior seams), in CONTROLLER order; the decoder's `mesh.atts` has one table per
  attribute data, in attribute-data order.  `SeamLink n mesh.atts (usedOf enc) φ` (the hypothesis `hlink`) contains
  `(usedOf enc).size = mesh.atts.size` and compares entry `i` with entry `i`: it holds when every attribute data has an
  interior seam and the controllers come in attribute-data order.  For the general case one needs (not done here):
  an injection `σ` of the indices of `usedOf enc` into those of `mesh.atts` with `SeamLink` along `σ`, the fact that a
  decoder table outside the image of `σ` (no interior seams) is constant on every fan (`SecSpec.left`: attribute vertices
  only change across seam edges), and `fan_corr` of EbCountsIso.lean for a corner relation restricted to one fan.
-/
namespace Draco.Eb
open Draco Draco.DecM Draco.Robust

/-! ## (1) the stages of the decoder -/

/-- the stages of a successful `decodeConnectivity` that produced `mesh`, with the connectivity `co` of `connLoop` -/
def DecStagesOf (mesh : Mesh) (co : ConnOut) : Prop :=
  ∃ (ci : ConnIn) (tr : Trav) (seams : Array (Array Nat)) (tags : Nat),
    connLoop ci tr = .ok co ∧ ci.numFaces = mesh.numFaces ∧ mesh.c2v = co.c2v ∧ mesh.opp = co.opp ∧
    mesh.vc = co.vc ∧ seams.mapM (fun sc => buildAttConn co.c2v co.opp co.vc sc) = .ok mesh.atts ∧
    assignPoints co mesh.numFaces mesh.atts = .ok (mesh.faces, mesh.numPoints, tags)

def DecStages (mesh : Mesh) : Prop := ∃ co, DecStagesOf mesh co

attribute [local irreducible] Robust.Post

theorem decodeConnectivity_stages : Post decodeConnectivity DecStages := by
  unfold decodeConnectivity
  post_walk
  all_goals exact ⟨_, _, _, _, _, by assumption, rfl, rfl, rfl, rfl, by assumption, by assumption⟩

/-- … from a successful run on a state -/
theorem decodeConnectivity_stages_of_run {s s' : DSt} {mesh : Mesh} (h : decodeConnectivity s = (some mesh, s')) :
    DecStages mesh := by
  have := decodeConnectivity_stages
  unfold Robust.Post at this
  exact this s mesh s' h

/-- … from the program logic `Runs` -/
theorem decodeConnectivity_stages_runs {v v' : Nat} {bs : Bytes} {mesh : Mesh}
    (h : Runs decodeConnectivity v bs mesh v') : DecStages mesh := by
  obtain ⟨s', hs, _, _⟩ := h.run { rest := bs ++ [], version := v } [] rfl rfl
  exact decodeConnectivity_stages_of_run hs

/-- every attribute corner table of the decoded mesh is built by `buildAttConn` on the decoded connectivity -/
theorem DecStagesOf.build {mesh : Mesh} {co : ConnOut} (h : DecStagesOf mesh co) :
    ∀ i (hi : i < mesh.atts.size), ∃ sc, buildAttConn co.c2v co.opp co.vc sc = .ok mesh.atts[i] := by
  obtain ⟨_, _, seams, _, _, _, _, _, _, hm, _⟩ := h
  intro i hi
  rw [Array.mapM_eq_mapM_toList] at hm
  cases hl : List.mapM (fun sc => buildAttConn co.c2v co.opp co.vc sc) seams.toList with
  | error e => rw [hl] at hm; cases hm
  | ok l =>
    rw [hl] at hm
    simp only [Functor.map, Except.map, Except.ok.injEq] at hm
    have hmem : mesh.atts[i] ∈ l := by
      have h1 : mesh.atts[i] ∈ mesh.atts.toList := Array.getElem_mem_toList hi
      have h2 : mesh.atts.toList = l := by rw [← hm]
      rw [← h2]; exact h1
    obtain ⟨sc, _, hsc⟩ := list_mapM_ok _ _ _ hl _ hmem
    exact ⟨sc, hsc⟩

end Draco.Eb

namespace Draco.EbEnc.CountsIso
open Draco Draco.SeqEnc
open Draco.Eb hiding nextC prevC iabs
open Draco.Counts
open Draco.EbEnc.EncCounts AttViews Seams

/-! ## (2) the encoder's attribute corner tables -/

/-- every entry of `attribute_data_` is made by `InitFromAttribute` on the encoder's corner table -/
theorem conn_atts_init (ch : ConnChoices) (valence : Bool) (posFaces : Faces)
    (acv : Array (Nat × Array Nat)) (conn : ConnEnc)
    (h : encodeConnectivity ch valence posFaces acv = .ok conn) :
    ∀ k, k < conn.atts.size → ∃ cv, initFromAttribute conn.ct cv = .ok (conn.atts[k]!).conn := by
  rw [encodeConnectivity_eq] at h
  split at h
  · rename_i table hcreate
    simp only [] at h
    rcases ite_ok h with ⟨_, h⟩ | ⟨_, h⟩
    · exact (throw_bind_ne h).elim
    obtain ⟨x, _, h⟩ := (bind_ok_iff _ _ _).mp h
    obtain ⟨atts, hatts, h⟩ := (bind_ok_iff _ _ _).mp h
    obtain ⟨val, h⟩ := ite_bind_both h
    obtain ⟨s, hloop, h⟩ := (bind_ok_iff _ _ _).mp h
    obtain ⟨sb, _, h⟩ := (bind_ok_iff _ _ _).mp h
    have hconn : conn.atts = atts ∧ conn.ct = CT.ofTable table := by
      rcases ite_ok h with ⟨_, h⟩ | ⟨_, h⟩
      · obtain ⟨cb, _, h⟩ := (bind_ok_iff _ _ _).mp h
        have := pure_ok h
        rw [this]
        exact ⟨rfl, rfl⟩
      · have := pure_ok h
        rw [this]
        exact ⟨rfl, rfl⟩
    rw [hconn.1, hconn.2]
    rw [PosAgreeP.array_forIn_range] at hatts
    have ho := PosAgreeP.forIn_ok_inv _ (fun p (a : Array AttData) => a.size = p ∧
        ∀ q, q < p → ∃ cv, initFromAttribute (CT.ofTable table) cv = .ok (a[q]!).conn)
      acv.size 0 _ atts ?_ ?_ hatts
    · intro k hk
      exact ho.2 k (by rw [← ho.1]; exact hk)
    · intro j s r _ hj hI hr
      rcases hxy : acv[j]! with ⟨ai, cv⟩
      rw [hxy] at hr
      simp only [] at hr
      rw [bind_ok_iff] at hr
      obtain ⟨c, hc, hr⟩ := hr
      simp only [pure, Except.pure, Except.ok.injEq] at hr
      subst hr
      refine ⟨_, rfl, by simp [hI.1], ?_⟩
      intro q hq
      by_cases hqj : q = j
      · subst hqj
        have : q = s.size := hI.1.symm
        subst this
        exact ⟨cv, by simpa using hc⟩
      · have hlt : q < s.size := by rw [hI.1]; omega
        obtain ⟨cv', hcv'⟩ := hI.2 q (by omega)
        refine ⟨cv', ?_⟩
        have hlt' : q < s.size + 1 := by omega
        simpa [Array.getElem_push, hlt, hlt'] using hcv'
    · exact ⟨by simp, fun q hq => by omega⟩
  · simp only [throw, throwThe, MonadExceptOf.throw] at h
    cases h

/-- the attribute corner tables `ComputeNumberOfEncodedPoints` is run with (`EncStages`): those of the controllers that
    encode on their attribute corner table, in controller order -/
def usedOf (enc : Encoded) : Array AttConn :=
  (enc.controllers.toList.filterMap fun c =>
    if c.onAttTable && c.attDataId ≥ 0 then some (enc.conn.atts[c.attDataId.toNat]!).conn else none).toArray

section stream
variable {ch : EbChoices} {g : Geometry} {md : Option GeometryMetadata} {o : EbOpts} {enc : Encoded}

/-- the run of `ComputeNumberOfEncodedPoints` inside `encodeEdgebreaker`, with the connectivity run it belongs to -/
theorem encoded_points_run (henc : encodeEdgebreaker ch g md o = .ok enc) :
    ∃ coder posFaces acv,
      encodeConnectivity ch.conn (coder == 2) posFaces acv = .ok enc.conn ∧
      generateControllers o g.atts.toArray g.numPoints enc.conn = .ok enc.controllers ∧
      enc.numEncodedFaces = enc.conn.ct.numFaces - enc.conn.ct.numDegenerated ∧
      computeNumberOfEncodedPoints g.atts.toArray enc.conn (usedOf enc) = .ok enc.numEncodedPoints := by
  obtain ⟨_, coder, posFaces, acv, cs, _, _, _, _, hconn, hcs, _, _, _, hctrl, _, _, hnf, hnp, _⟩ :=
    (encodeEdgebreaker_stages ch g md o enc henc).stages
  refine ⟨coder, posFaces, acv, hconn, by rw [hctrl]; exact hcs, hnf, ?_⟩
  unfold usedOf
  rw [hctrl]
  exact hnp

/-- `hinit` for the tables of the run -/
theorem usedOf_init (henc : encodeEdgebreaker ch g md o = .ok enc) :
    ∀ i (hi : i < (usedOf enc).size), ∃ cv, initFromAttribute enc.conn.ct cv = .ok (usedOf enc)[i] := by
  obtain ⟨coder, posFaces, acv, hconn, hcs, _, _⟩ := encoded_points_run henc
  intro i hi
  have hmem : (usedOf enc)[i] ∈ (usedOf enc).toList := Array.getElem_mem_toList hi
  generalize (usedOf enc)[i] = a at hmem ⊢
  unfold usedOf at hmem
  simp only [List.mem_filterMap] at hmem
  obtain ⟨c, hc, hval⟩ := hmem
  split at hval
  · rename_i hcond
    injection hval with hval
    rw [← hval]
    simp only [Bool.and_eq_true, decide_eq_true_eq] at hcond
    have hlt := (generateControllers_attDataId_lt hcs c (by simpa using hc) hcond.2).1
    exact conn_atts_init ch.conn (coder == 2) posFaces acv enc.conn hconn _ hlt
  · cases hval

/-! ## (3) the reported counts -/

/-- the number of faces the encoder reports is the number of faces of `processed_connectivity_corners_` -/
theorem encoded_faces_eq (henc : encodeEdgebreaker ch g md o = .ok enc) :
    enc.numEncodedFaces = enc.conn.processed.size := by
  obtain ⟨coder, posFaces, acv, hconn, _, hnf, _⟩ := encoded_points_run henc
  rw [hnf, Coverage.encodeConnectivity_size ch.conn (coder == 2) posFaces acv enc.conn hconn]

/-- **The reported counts agree, more than one attribute.**  `encodeEdgebreaker` succeeded with `enc`; the decoder's
    `decodeConnectivity` produced `mesh` through the connectivity `co` (`DecStagesOf`, from `decodeConnectivity_stages`);
    the link: `mesh.numFaces = processed.size`, the base views are isomorphic under `phi processed`, and the seam flags
    correspond (`SeamLink`, see the note on index alignment at the top); decoder-side table invariants `APHyp`, `hszc`,
    `hhole`.  Then `num_encoded_points = mesh.numPoints` and `num_encoded_faces = mesh.numFaces`. -/
theorem eb_encoded_counts_of_link (henc : encodeEdgebreaker ch g md o = .ok enc)
    {mesh : Mesh} {co : ConnOut} (hst : DecStagesOf mesh co) (ψ : Nat → Nat)
    (hatts : g.atts.length > 1)
    (hne : mesh.atts.isEmpty = false)
    (hn : mesh.numFaces = enc.conn.processed.size)
    (hiso : TVIso (baseViewD mesh.numFaces co.c2v co.opp co.vc) enc.conn.ct.view (phi enc.conn.processed) ψ)
    (hdec : APHyp mesh.numFaces co) (hszc : co.c2v.size = 3 * mesh.numFaces)
    (hhole : ∀ v, v < co.vc.size → co.vc[v]! ≠ inv → co.hole[v]! = true → ∃ k, iter (sRP co.opp) k co.vc[v]! = inv)
    (hlink : SeamLink mesh.numFaces mesh.atts (usedOf enc) (phi enc.conn.processed)) :
    enc.numEncodedPoints = mesh.numPoints ∧ enc.numEncodedFaces = mesh.numFaces := by
  obtain ⟨coder, posFaces, acv, hconn, _, _, hnp⟩ := encoded_points_run henc
  refine ⟨?_, by rw [encoded_faces_eq henc, hn]⟩
  obtain ⟨_, _, _, tags, _, _, _, _, _, _, hap⟩ := id hst
  exact eb_encoded_points_eq_decoded_of_run2 g.atts.toArray (usedOf enc) enc.numEncodedPoints co mesh.numFaces mesh.atts
    mesh.faces mesh.numPoints tags ψ (by simpa using hatts) hnp hconn hne hap hn hiso hdec hszc hhole hst.build
    (usedOf_init henc) hlink

/-- **The reported counts agree, position only** (`num_attributes() ≤ 1`, no attribute data on the decoder's side);
    `hconn`: the decoder's `num_connectivity_verts` is the number of its vertices that have a left-most corner. -/
theorem eb_encoded_counts_of_link_single (henc : encodeEdgebreaker ch g md o = .ok enc)
    {mesh : Mesh} {co : ConnOut} (hst : DecStagesOf mesh co) (ψ : Nat → Nat)
    (hatts : g.atts.length ≤ 1)
    (hne : mesh.atts.isEmpty = true)
    (hn : mesh.numFaces = enc.conn.processed.size)
    (hiso : TVIso (baseViewD mesh.numFaces co.c2v co.opp co.vc) enc.conn.ct.view (phi enc.conn.processed) ψ)
    (hdec : APHyp mesh.numFaces co)
    (hhole : ∀ v, v < co.vc.size → co.vc[v]! ≠ inv → co.hole[v]! = true → ∃ k, iter (sRP co.opp) k co.vc[v]! = inv)
    (hconnV : co.numConnVerts = (usedVerts co.vc).length) :
    enc.numEncodedPoints = mesh.numPoints ∧ enc.numEncodedFaces = mesh.numFaces := by
  obtain ⟨coder, posFaces, acv, hconn, _, _, hnp⟩ := encoded_points_run henc
  refine ⟨?_, by rw [encoded_faces_eq henc, hn]⟩
  obtain ⟨_, _, _, tags, _, _, _, _, _, _, hap⟩ := id hst
  exact eb_encoded_points_eq_decoded_single_of_run g.atts.toArray (usedOf enc) enc.numEncodedPoints co mesh.numFaces
    mesh.atts mesh.faces mesh.numPoints tags ψ (by simpa using hatts) hnp hconn hne hap hn hiso hdec hhole hconnV

end stream

end Draco.EbEnc.CountsIso
