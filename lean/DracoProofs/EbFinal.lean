import DracoProofs.EbFaceCorr
import DracoProofs.EbPlanOK
import DracoProofs.EbEncCounts
/-
  `eb_roundtrip_conditional_partial`: the stream-level conditional round trip with `PlanOK` and the face correspondence
  resolved into their sources.
-/
namespace Draco.EbEnc
open Draco Draco.SeqEnc DecM
open Draco.Eb hiding iabs nextC prevC
open FaceCorr

/-- **eb_roundtrip_conditional_partial**.  For a successful run of the Edgebreaker encoder model, IF
    * `hconn` — the CONNECTIVITY LINK (the only hypothesis about running a codec stage on bytes): the decoder's
      connectivity stage reads the encoder's connectivity bytes and builds `mesh`; `hnf`: with as many faces as the
      encoder processed (part of `ctIso`);
    * structural conditions on the decoder's side: `hdec` (attribute-decoder ids in range; `sides` ARE the decoder's own
      sequences and point maps), `hids` (attribute data ids distinct), `hvals` (raw lengths; value blocks:
      `valuesOK_of_item` = the checked value-block theorem `eb_value_block_conditional_iso`);
    * the input inside the format's domain: `hatt`, `huid`, `hproc`/`hfits`;
    * `hs` — the plan's attributes are the input attributes in stream order (`PlanSetting`: from `generateControllers_attIds`,
      `rearrangeEncoders_perm`, `CtrlShape`), `hrows` — the ROW CORRESPONDENCE of every attribute (`row_of_item_kind0…3`
      from `TupleSetup`: view isomorphism, traversal runs, points refine vertices, values refine vertices);
    * `hcover` — the traversal reached every non-degenerate face;
    THEN both decodes of the stream followed by arbitrary bytes succeed, consume exactly the stream, return the metadata,
    and `Spec.checkCore .edgebreaker` (RoundTripOK) accepts.  Descriptor / transform-parameter conditions, the byte layout
    of the attribute section, the `matchOne` bookkeeping, the tuple and face correspondences and the multiset argument are
    proved inside. -/
theorem eb_roundtrip_conditional_partial (ch : EbChoices) (g : Geometry) (md : Option GeometryMetadata) (o : EbOpts)
    (enc : Encoded) (henc : encodeEdgebreaker ch g md o = .ok enc) (hmd : ∀ m, md = some m → m.WF')
    (mesh : Mesh) (sides : List (SeqOut × Array Nat)) (hsides : enc.couts.size = sides.length)
    (hconn : ∀ coder, traversalCoder o g.faces.length = some coder →
      Runs decodeConnectivity 514 ([coder] ++ enc.conn.bytes) mesh 514)
    (hnf : mesh.numFaces = enc.conn.processed.size)
    (plan : AttPlan) (hplan : plan = planOf o g.atts.toArray enc.conn enc.controllers enc.couts.toList sides)
    (hatt : ∀ a, a < g.atts.toArray.size → EbAttOK (g.atts.toArray[a]!) (o.base.att a))
    (hids : plan.Pairwise fun a b =>
      (0 ≤ b.dec.attDataId → a.dec.attDataId ≠ b.dec.attDataId) ∧ (b.dec.attDataId < 0 → 0 ≤ a.dec.attDataId))
    (hdec : ∀ d ∈ plan, DecoderOK mesh d)
    (hvals : ∀ (i k : Nat) (hi : i < plan.length) (hk : k < plan[i].items.length),
      ValuesOK mesh plan[i] (parentAt plan i k) plan[i].items[k])
    (huid : (g.atts.map (·.uniqueId)).Nodup)
    {item : Nat → Nat × Array Nat × AttItem} {encI : Nat → EncItem} (hs : PlanSetting g o plan item encI)
    (hrows : RowsCorr g item mesh.faces (flattenFaces g.faces).toArray mesh.numFaces (phi enc.conn.processed))
    (hproc : ∀ i, i < enc.conn.processed.size → enc.conn.processed[i]! < 3 * g.faces.length)
    (hfits : 3 * g.faces.length ≤ inv)
    (hcover : ∀ j (hj : j < g.faces.length), nondegFace g (g.faces[j]) = true →
      ∃ i, i < (facesOf mesh).length ∧ enc.conn.processed[i]! / 3 = j)
    (extra : Bytes) :
    ∃ st st',
      decodeGeometry {} { rest := enc.bytes ++ extra } = (some ⟨planGeometry {} mesh plan, md⟩, st) ∧ st.rest = extra ∧
      decodeGeometry { skip := allTypes } { rest := enc.bytes ++ extra } =
        (some ⟨planGeometry { skip := allTypes } mesh plan, md⟩, st') ∧ st'.rest = extra ∧
      Spec.checkCore .edgebreaker (quantReq g o.base) g (planGeometry {} mesh plan)
        (planGeometry { skip := allTypes } mesh plan) = true := by
  obtain ⟨mdBytes, coder, posFaces, acv, cs, couts, h1, h2, h3, h4, _⟩ :=
    (encodeEdgebreaker_stages ch g md o enc henc).stages
  have hnd := (EncCounts.encodeConnectivity_faces ch.conn _ posFaces acv enc.conn h4).1
  subst hplan
  exact eb_roundtrip_of_rows ch g md o enc henc hmd mesh sides hsides hconn _ rfl
    (planOK_of_setup ch g md o enc henc {} mesh sides hsides hatt hids hdec hvals)
    (planOK_of_setup ch g md o enc henc { skip := allTypes } mesh sides hsides hatt hids hdec hvals)
    huid hs enc.conn.processed hrows hnf hproc hfits hnd hcover extra

end Draco.EbEnc
