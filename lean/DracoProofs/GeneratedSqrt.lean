import DracoProofs.GeneratedCore
import DracoProofs.EbIntSqrt
/-
  DracoProofs.GeneratedSqrt — `IntSqrt` (core/math_utils.h) of lean/Generated/Funcs.lean (translated from clang's AST of
  /repo on every run by tools/vlib/xlate.py; its `while` and `do … while` loops as `CInt.cWhile 64`) returns the floor square
  root — the value of the model's `Eb.intSqrt` — for every `uint64_t`; in particular the bound of 64 iterations is never
  reached.  The termination argument is the one of DracoProofs/EbIntSqrt.lean.
-/
namespace Draco.Generated
open Draco Draco.CInt Draco.Eb

/-- the estimation loop, for any condition/body that act on `(act, sq)` like the C++ -/
theorem est_loop (c : Int × Int → Bool) (f : Int × Int → Int × Int)
    (hc : ∀ a s : Nat, c ((a : Int), (s : Int)) = decide (a ≥ 2))
    (hf : ∀ a s : Nat, a < 2 ^ 64 → f ((a : Int), (s : Int)) = (((a / 4 : Nat) : Int), (((s * 2) % 2 ^ 64 : Nat) : Int))) :
    ∀ (fuel a s : Nat), a < 2 ^ 64 → a < 2 * 4 ^ fuel →
      ∃ a' : Nat, cWhile fuel c f ((a : Int), (s : Int)) = some ((a' : Int), ((intSqrt.est fuel a s : Nat) : Int)) := by
  intro fuel
  induction fuel with
  | zero =>
    intro a s h64 ha
    have : ¬ (a ≥ 2) := by omega
    exact ⟨a, by simp [cWhile, hc, this, intSqrt.est]⟩
  | succ fuel ih =>
    intro a s h64 ha
    by_cases h2 : a ≥ 2
    · obtain ⟨a', h'⟩ := ih (a / 4) ((s * 2) % 2 ^ 64) (by omega) (by
        have : 4 ^ (fuel + 1) = 4 * 4 ^ fuel := by ring
        omega)
      exact ⟨a', by rw [cWhile, hc, decide_eq_true h2, if_pos rfl, hf a s h64, h', intSqrt.est, if_pos h2]⟩
    · exact ⟨a, by rw [cWhile, hc, decide_eq_false h2]; simp [intSqrt.est, h2]⟩

/-- the Newton loop after its first step, for any condition/body that act like the C++ on values below 2^32 -/
theorem newton_loop (n : Nat) (hn0 : 0 < n) (hn : n < 2 ^ 64) (c : Int → Bool) (f : Int → Int)
    (hc : ∀ y : Nat, y < 2 ^ 32 → c (y : Int) = decide (n < y * y))
    (hf : ∀ y : Nat, 0 < y → y + n / y < 2 ^ 33 → f (y : Int) = (((y + n / y) / 2 : Nat) : Int)) :
    ∀ (fuel x : Nat), 0 < x → x + n / x < 2 ^ 33 → (x + n / x) / 2 - Nat.sqrt n < 2 ^ fuel →
      cWhile fuel c f (((x + n / x) / 2 : Nat) : Int) = some ((Nat.sqrt n : Nat) : Int) := by
  have hs0 : 0 < Nat.sqrt n := Nat.sqrt_pos.2 hn0
  intro fuel
  induction fuel with
  | zero =>
    intro x hx hsum hd
    have hge := intSqrt_step_ge n x hx
    have hy : (x + n / x) / 2 = Nat.sqrt n := by omega
    have hsq : Nat.sqrt n * Nat.sqrt n ≤ n := Nat.sqrt_le n
    rw [hy, cWhile, hc _ (by omega), decide_eq_false (by omega)]
    simp
  | succ fuel ih =>
    intro x hx hsum hd
    have hge := intSqrt_step_ge n x hx
    generalize hyd : (x + n / x) / 2 = y at hge hd
    have hy32 : y < 2 ^ 32 := by omega
    by_cases hcn : n < y * y
    · have hys : Nat.sqrt n < y := Nat.sqrt_lt.2 hcn
      have hq : n / y ≤ Nat.sqrt n := intSqrt_div_le n y hys
      have hp : 2 ^ (fuel + 1) = 2 * 2 ^ fuel := by ring
      rw [cWhile, hc y hy32, decide_eq_true hcn, if_pos rfl, hf y (by omega) (by omega)]
      exact ih y (by omega) (by omega) (by omega)
    · have h1 : y ≤ Nat.sqrt n := Nat.le_sqrt.2 (by omega)
      have : y = Nat.sqrt n := by omega
      rw [cWhile, hc y hy32, decide_eq_false hcn, this]
      simp


theorem IntSqrt_eq_model (n : Nat) (hn : n < 2 ^ 64) : IntSqrt (n : Int) = some ((intSqrt n : Nat) : Int) := by
  rw [intSqrt_eq_sqrt n hn]
  unfold IntSqrt
  by_cases h0 : n = 0
  · subst h0; simp
  have hn0 : 0 < n := Nat.pos_of_ne_zero h0
  have hne : ¬ ((n : Int) = 0) := by omega
  rw [if_neg hne]
  -- first loop
  obtain ⟨a', h1⟩ := est_loop
    (fun st => let act_number : Int := st.1; let square_root : Int := st.2; decide (act_number ≥ 2))
    (fun st => let act_number : Int := st.1; let square_root : Int := st.2; let square_root : Int := (wrapU64 (square_root * 2)); let act_number : Int := (wrapU64 (Int.tdiv act_number 4)); (act_number, square_root))
    (by intro a s; simp)
    (by
      intro a s ha64
      have e1 : wrapU64 ((s : Int) * 2) = (((s * 2) % 2 ^ 64 : Nat) : Int) := by unfold wrapU64; omega
      have e2 : wrapU64 (Int.tdiv (a : Int) 4) = ((a / 4 : Nat) : Int) := by
        rw [Int.tdiv_eq_ediv_of_nonneg (by omega)]; unfold wrapU64; omega
      simp only [e1, e2])
    64 n 1 hn (by
      have : (2:Nat) ^ 64 ≤ 2 * 4 ^ 64 := by norm_num
      omega)
  have h1' : cWhile 64 (fun st => let act_number : Int := st.1; let square_root : Int := st.2; decide (act_number ≥ 2))
      (fun st => let act_number : Int := st.1; let square_root : Int := st.2; let square_root : Int := (wrapU64 (square_root * 2)); let act_number : Int := (wrapU64 (Int.tdiv act_number 4)); (act_number, square_root)) ((n : Int), (1 : Int)) = some ((a' : Int), ((intSqrt.est 64 n 1 : Nat) : Int)) := by
    simpa using h1
  dsimp only
  rw [h1']
  dsimp only
  obtain ⟨j, hj, hlo, hhi⟩ := intSqrt_est_spec n hn 64 n 1 (by
      have : (2:Nat) ^ 64 ≤ 2 * 4 ^ 64 := by norm_num
      omega) (by omega) (by omega) (by omega) ⟨0, rfl⟩
  rw [hj]
  have hpos : 0 < 2 ^ j := Nat.pos_of_ne_zero (by positivity)
  have hj32 : j ≤ 32 := by
    by_contra hgt
    have h33 : 2 ^ 33 ≤ 2 ^ j := Nat.pow_le_pow_right (by norm_num) (by omega)
    have : 2 ^ 33 * 2 ^ 33 ≤ 2 ^ j * 2 ^ j := Nat.mul_le_mul h33 h33
    omega
  have hq : n / 2 ^ j < 2 * 2 ^ j := by
    rw [Nat.div_lt_iff_lt_mul hpos]
    have : 2 * 2 ^ j * 2 ^ j = 2 * (2 ^ j * 2 ^ j) := by ring
    omega
  have hsum : 2 ^ j + n / 2 ^ j < 2 ^ 33 := by
    by_cases h32 : j = 32
    · subst h32
      have : n / 2 ^ 32 < 2 ^ 32 := by
        rw [Nat.div_lt_iff_lt_mul (by norm_num)]; omega
      omega
    · have : 2 ^ j ≤ 2 ^ 31 := Nat.pow_le_pow_right (by norm_num) (by omega)
      omega
  -- the first Newton step, then the second loop
  have stepEq : ∀ y : Nat, 0 < y → y + n / y < 2 ^ 33 →
      wrapU64 (Int.tdiv (wrapU64 ((y : Int) + wrapU64 (Int.tdiv (n : Int) (y : Int)))) 2) = (((y + n / y) / 2 : Nat) : Int) := by
    intro y hy hs
    have e1 : Int.tdiv (n : Int) (y : Int) = ((n / y : Nat) : Int) := by
      rw [Int.tdiv_eq_ediv_of_nonneg (by omega)]; norm_cast
    rw [e1]
    have hqn : n / y ≤ n := Nat.div_le_self _ _
    generalize n / y = q at *
    have e2 : wrapU64 (q : Int) = (q : Int) := wrapU64_id _ (by omega) (by omega)
    rw [e2]
    have e3 : wrapU64 ((y : Int) + (q : Int)) = ((y + q : Nat) : Int) := by
      rw [wrapU64_id _ (by omega) (by omega)]; norm_cast
    rw [e3, Int.tdiv_eq_ediv_of_nonneg (by omega)]
    have e4 : (((y + q : Nat) : Int)) / 2 = (((y + q) / 2 : Nat) : Int) := by norm_cast
    rw [e4]
    exact wrapU64_id _ (by omega) (by omega)
  have hx0 : (((2 ^ j : Nat) : Nat) : Int) = ((2 ^ j : Nat) : Int) := rfl
  rw [stepEq (2 ^ j) hpos hsum]
  have h2 := newton_loop n hn0 hn
    (fun st => let square_root : Int := st; decide ((wrapU64 (square_root * square_root)) > (n : Int)))
    (fun st => let square_root : Int := st; let square_root : Int := (wrapU64 (Int.tdiv (wrapU64 (square_root + (wrapU64 (Int.tdiv (n : Int) square_root)))) 2)); square_root)
    (by
      intro y hy
      have hyy : y * y < 2 ^ 64 := by
        have : y * y ≤ (2 ^ 32 - 1) * (2 ^ 32 - 1) := Nat.mul_le_mul (by omega) (by omega)
        omega
      have e : wrapU64 ((y : Int) * (y : Int)) = ((y * y : Nat) : Int) := by
        rw [wrapU64_id _ (by positivity) (by exact_mod_cast hyy)]; norm_cast
      simp only [e]
      congr 1
      exact propext ⟨fun h => by exact_mod_cast h, fun h => by exact_mod_cast h⟩)
    (by intro y hy hs; exact stepEq y hy hs)
    64 (2 ^ j) hpos hsum (by
      have : (2 ^ j + n / 2 ^ j) / 2 < 2 ^ 33 := by omega
      have : (2:Nat) ^ 33 ≤ 2 ^ 64 := by norm_num
      omega)
  rw [h2]

end Draco.Generated
