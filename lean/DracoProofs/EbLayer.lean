import DracoProofs.EbEncTex
import DracoProofs.EbEncCM
import DracoProofs.EbEncCM2
import DracoProofs.EbEncCoders
import DracoProofs.SeqIntValues
/-
  The attribute value block of an Edgebreaker stream (`SequentialIntegerAttributeEncoder::EncodeValues` with a mesh
  prediction scheme → `SequentialIntegerAttributeDecoder::DecodeValues`): for every scheme the encoder can select,
  the decoder — on the same `MeshData` — reads the scheme bytes, the coded corrections and the prediction data
  back, consumes exactly the block and returns the portable values.
-/
open Draco Draco.EbEnc Draco.SeqEnc DecM
open Draco.Eb hiding iabs nextC prevC

namespace Draco.EbEnc

theorem Runs.tag (t : String) (v : Nat) : Runs (DecM.tag t) v [] () v :=
  ⟨fun s extra hs hv => ⟨_, rfl, by simpa using hs, hv⟩⟩

theorem Runs.liftR {α : Type} {r : R α} {a : α} (h : r = .ok a) (v : Nat) : Runs (liftR r) v [] a v := by
  subst h
  exact ⟨fun s extra hs hv => ⟨s, rfl, by simpa using hs, hv⟩⟩

/-- the decoder's scheme object for the scheme the encoder wrote -/
def decScheme (kind : Nat) : PScheme → Eb.Scheme
  | .none => .none
  | .delta => if kind == 3 then .deltaOcta false else .deltaWrap
  | .parallelogram => .parallelogram
  | .constrainedMulti => .constrainedMulti
  | .texCoords => .texCoords
  | .geometricNormal => .geometricNormal false
  | .geometricNormalWrap => .none

/-- the scheme bytes of `encodeIntegerValuesEb` -/
def schemeBytes (kind : Nat) : PScheme → Bytes
  | .none => [toUnsigned 8 PScheme.none.method]
  | s => [toUnsigned 8 s.method, toUnsigned 8 (if kind == 3 then Generated.PREDICTION_TRANSFORM_NORMAL_OCTAHEDRON_CANONICALIZED
         else Generated.PREDICTION_TRANSFORM_WRAP)]

/-- the (kind, scheme) combinations `createScheme` produces -/
def SchemeKindOK (kind : Nat) : PScheme → Prop
  | .none | .delta => True
  | .geometricNormal => kind = 3
  | .geometricNormalWrap => False
  | _ => kind ≠ 3

theorem runs_readSchemeEb (kind : Nat) (s : PScheme) (h : SchemeKindOK kind s) (v : Nat) :
    Runs (readSchemeEb kind) v (schemeBytes kind s) (decScheme kind s, "") v := by
  unfold readSchemeEb
  refine Runs.remaining_bind (fun rem0 _ => ?_)
  by_cases h3 : kind = 3
  · subst h3
    cases s <;> simp only [SchemeKindOK] at h <;> try (exact absurd rfl h)
    · refine Runs.bind1 (Runs.rdI8 _ v) ?_
      refine Runs.bind0 (Runs.tag _ v) ?_
      refine Runs.bind0 (Runs.require (by decide) v) ?_
      simp only []
      rw [if_neg (by decide)]
      exact Runs.pure _ v
    all_goals
      refine Runs.bind1 (Runs.rdI8 _ v) ?_
      refine Runs.bind0 (Runs.tag _ v) ?_
      refine Runs.bind0 (Runs.require (by decide) v) ?_
      simp only []
      rw [if_pos (by decide)]
      refine Runs.bind1 (Runs.rdI8 _ v) ?_
      refine Runs.bind0 (Runs.require (by decide) v) ?_
      rw [if_pos (by decide), if_pos (by decide)]
      exact Runs.pure _ v
  · have hk : (kind == 3) = false := by simpa using h3
    cases s <;> simp only [SchemeKindOK] at h
    · refine Runs.bind1 (Runs.rdI8 _ v) ?_
      refine Runs.bind0 (Runs.tag _ v) ?_
      refine Runs.bind0 (Runs.require (by decide) v) ?_
      simp only []
      rw [if_neg (by decide)]
      exact Runs.pure _ v
    all_goals
      try (exact absurd h h3)
    all_goals
      simp only [schemeBytes, decScheme, hk]
      refine Runs.bind1 (Runs.rdI8 _ v) ?_
      refine Runs.bind0 (Runs.tag _ v) ?_
      refine Runs.bind0 (Runs.require (by decide) v) ?_
      rw [if_pos (by decide)]
      refine Runs.bind1 (Runs.rdI8 _ v) ?_
      refine Runs.bind0 (Runs.require (by decide) v) ?_
      simp (decide := true) only [hk, if_true, if_false, Bool.false_eq_true]
      exact Runs.pure _ v

def noPos : PosSource := { pointIds := #[], map := #[], values := #[] }
def noPosF : PosSourceF := { pointIds := #[], map := #[], values := #[] }

theorem runs_parentSourcesEb_none (scheme : Eb.Scheme) (h : scheme.needsParent = false) (pointIds : Array Nat)
    (parent : Option Parent) (v : Nat) :
    Runs (parentSourcesEb scheme pointIds parent) v [] (noPos, noPosF, "") v := by
  unfold parentSourcesEb
  simp only [h, Bool.false_eq_true, if_false]
  exact Runs.pure _ v

theorem runs_parentSourcesEb_some (scheme : Eb.Scheme) (h : scheme.needsParent = true) (hne : scheme ≠ .texCoordsDeprecated)
    (pointIds : Array Nat) (p : Parent) (h3 : p.numComponents = 3) (hok : p.intsOk = true) (v : Nat) :
    Runs (parentSourcesEb scheme pointIds (some p)) v []
      ({ pointIds := pointIds, map := p.map, values := p.ints }, noPosF, "") v := by
  unfold parentSourcesEb
  simp only [h, if_true]
  refine Runs.bind0 (Runs.require (by simp [h3]) v) ?_
  have : (scheme == Eb.Scheme.texCoordsDeprecated) = false := by
    cases scheme <;> first | rfl | exact absurd rfl hne
  simp only [this, Bool.false_eq_true, if_false, hok, Bool.not_true]
  exact Runs.pure _ v

theorem DecM.bind_pure' {α : Type} (m : DecM α) : (m >>= fun a => (pure a : DecM α)) = m := by
  funext s
  show DecM.andThen m DecM.ret s = m s
  unfold DecM.andThen DecM.ret
  rcases h : m s with ⟨o, s'⟩
  cases o <;> rfl

theorem runs_readCodedValuesEb (ch : Choices) (level : Nat) (builtin : Bool) (i nc n : Nat) (syms : List Nat)
    (body : Bytes) (v : Nat) (hnc : 0 < nc) (hn : syms.length = n) (h32 : n < 2 ^ 32) (hs : ∀ s ∈ syms, s < 2 ^ 32)
    (henc : encodeSymbolBody ch level builtin i nc syms = some body) :
    Runs (readCodedValuesEb false n nc) v body syms v := by
  have h := runs_symbolBody (fun raw => (pure raw : DecM (List Nat))) ch level builtin i nc n syms body [] syms v v
    hnc hn h32 hs henc (Runs.pure _ v)
  rw [List.append_nil] at h
  unfold readCodedValuesEb
  have e : decodeSymbolsV false n nc = Leaf.decodeSymbols n nc := by
    funext bs; exact decodeSymbolsV_current n nc bs
  rw [e]
  simpa [DecM.bind_pure'] using h

/-- the values the decoder hands to the scheme -/
def schemeVals (kind : Nat) (s : PScheme) (syms : List Nat) : Array Int :=
  if kind == 3 && s != .none then (syms.map (toSigned 32)).toArray else (syms.map ofSymbol).toArray

theorem schemeVals_eq (kind : Nat) (s : PScheme) (hk : SchemeKindOK kind s) (syms : List Nat) :
    (if (decScheme kind s).isOcta = true then (List.map (toSigned 32) syms).toArray
      else (List.map ofSymbol syms).toArray) = schemeVals kind s syms := by
  unfold schemeVals
  by_cases h3 : kind = 3
  · subst h3
    cases s <;> simp only [SchemeKindOK] at hk <;> first | rfl | exact absurd rfl hk
  · have hk3 : (kind == 3) = false := by simpa using h3
    cases s <;> simp only [SchemeKindOK] at hk <;> first | (simp only [decScheme, hk3]; rfl) | exact absurd hk h3

/-- `decodeIntegerValuesEb` (bitstream 2.2) as the composition of its parts -/
theorem runs_decodeIntegerValuesEb (kind n nc attComponents : Nat) (md : MeshData) (pointIds : Array Nat)
    (parent : Option Parent) (s : PScheme) (hk : SchemeKindOK kind s) (pos : PosSource) (posF : PosSourceF)
    (hpar : Runs (parentSourcesEb (decScheme kind s) pointIds parent) 514 [] (pos, posF, "") 514)
    (ch : Choices) (level : Nat) (builtin : Bool) (i : Nat) (syms : List Nat) (body tail : Bytes)
    (hnc : 0 < nc) (hn : 0 < n) (hlen : syms.length = n * nc) (h32 : n * nc < 2 ^ 32) (hs : ∀ s ∈ syms, s < 2 ^ 32)
    (henc : encodeSymbolBody ch level builtin i nc syms = some body) (out : Array Int)
    (happly : Runs (applySchemeEb 514 (decScheme kind s) md pos posF nc (schemeVals kind s syms)) 514 tail out 514) :
    Runs (decodeIntegerValuesEb kind n nc attComponents md pointIds parent) 514
      (schemeBytes kind s ++ (body ++ tail)) (out, TransformData.none) 514 := by
  unfold decodeIntegerValuesEb
  refine Runs.bind0 (Runs.version 514) ?_
  simp only []
  refine Runs.bind (runs_readSchemeEb kind s hk 514) ?_
  simp only []
  rw [if_neg (by decide)]
  refine Runs.bind0 hpar ?_
  simp only []
  rw [if_neg (by decide)]
  rw [if_neg (by decide)]
  refine Runs.bind0 (Runs.pure _ 514) ?_
  refine Runs.bind0 (Runs.require (by simpa using hnc) 514) ?_
  refine Runs.bind0 (Runs.alloc _ _ 514) ?_
  refine Runs.bind0 (Runs.require (by simpa using hn) 514) ?_
  refine Runs.bind (runs_readCodedValuesEb ch level builtin i nc (n * nc) syms body 514 hnc hlen h32 hs henc) ?_
  rw [schemeVals_eq kind s hk]
  refine Runs.bind' happly (List.append_nil _).symm ?_
  exact Runs.pure _ 514

/-! ### bit buffers read in one go -/

theorem yields_rabsReadBits : ∀ (bits : List Bool) (d : RAnsBitDec) (acc : List Bool),
    Yields RAnsBitDec.nextBit d bits →
    (rabsReadBits d.probZero bits.length d.ans acc).1 = acc.reverse ++ bits := by
  intro bits
  induction bits with
  | nil => intro d acc _; simp [rabsReadBits]
  | cons b bits ih =>
    intro d acc h
    obtain ⟨h1, h2⟩ := h
    have := ih (RAnsBitDec.nextBit d).2 (b :: acc) h2
    simp only [RAnsBitDec.nextBit] at this h1
    simp only [List.length_cons, rabsReadBits, h1]
    rw [this]
    simp

/-- a bit buffer written by the encoder (`finishBits`) and read by `StartDecoding` + `n` × `DecodeNextBit` -/
theorem runs_bitBuffer {β : Type} (ch : ConnChoices) (bits : List Bool) (hlen : bits.length + 3 < 2 ^ 32)
    (k : RAnsBitDec → DecM β) (tail : Bytes) (c : β) (v v' : Nat)
    (hk : ∀ d, (rabsReadBits d.probZero bits.length d.ans []).1 = bits → Yields RAnsBitDec.nextBit d bits →
      Runs (k d) v tail c v') :
    Runs (lift (ransBitStart false) >>= k) v (finishBits ch (encodeBits bits) ++ tail) c v' := by
  constructor
  intro s extra hs hv
  obtain ⟨d, hd, hy⟩ := bit_buffer_roundtrip ch bits hlen (tail ++ extra)
  have hr := yields_rabsReadBits bits d [] hy
  simp only [List.reverse_nil, List.nil_append] at hr
  obtain ⟨s', e, r, w⟩ := (hk d hr hy).run { s with rest := tail ++ extra } extra rfl hv
  refine ⟨s', ?_, r, w⟩
  show DecM.andThen (lift (ransBitStart false)) k s = _
  rw [List.append_assoc] at hs
  simp only [DecM.andThen, DecM.lift, hs, hd]
  exact e

/-! ### `applySchemeEb` per scheme -/

theorem runs_wrapData {lo hi : Int} {wt : WrapT} (hinit : Wrap.init lo hi = some wt) (hlo : -2 ^ 31 ≤ lo)
    (hhi : hi < 2 ^ 31) (v : Nat) : Runs (lift Wrap.decodeTransformData) v (Wrap.encodeTransformData wt) wt v :=
  Runs.lift (fun extra => Wrap.transformData_roundtrip hinit hlo hhi extra) v

theorem runs_apply_deltaWrap (md : MeshData) (pos : PosSource) (posF : PosSourceF) (nc : Nat) {lo hi : Int}
    {wt : WrapT} (hinit : Wrap.init lo hi = some wt) (hlo : -2 ^ 31 ≤ lo) (hhi : hi < 2 ^ 31)
    (corr data : Array Int) (hdec : deltaDecodeWrap wt nc corr = .ok data) :
    Runs (applySchemeEb 514 .deltaWrap md pos posF nc corr) 514 (Wrap.encodeTransformData wt) data 514 := by
  unfold applySchemeEb
  simp only []
  refine Runs.bind0 (Runs.tag _ 514) ?_
  refine Runs.bind' (runs_wrapData hinit hlo hhi 514) (List.append_nil _).symm ?_
  exact Runs.liftR hdec 514

theorem runs_apply_parallelogram (md : MeshData) (pos : PosSource) (posF : PosSourceF) (nc : Nat) {lo hi : Int}
    {wt : WrapT} (hinit : Wrap.init lo hi = some wt) (hlo : -2 ^ 31 ≤ lo) (hhi : hi < 2 ^ 31)
    (corr data : Array Int) (used : Nat) (hdec : parallelogramDecode md wt nc corr = .ok (data, used)) :
    Runs (applySchemeEb 514 .parallelogram md pos posF nc corr) 514 (Wrap.encodeTransformData wt) data 514 := by
  unfold applySchemeEb
  simp only []
  refine Runs.bind' (runs_wrapData hinit hlo hhi 514) (List.append_nil _).symm ?_
  refine Runs.bind0 (Runs.liftR hdec 514) ?_
  refine Runs.bind0 (Runs.tag _ 514) ?_
  exact Runs.pure _ 514

/-- the bits of the orientation flags: "same as the previous one" (the first against `true`) -/
def orientBits : Bool → List Bool → List Bool
  | _, [] => []
  | last, o :: os => (o == last) :: orientBits o os

theorem orientBits_length (os : List Bool) : ∀ last, (orientBits last os).length = os.length := by
  induction os with
  | nil => intro _; rfl
  | cons o os ih => intro last; simp [orientBits, ih]

theorem orient_enc_fold (os : List Bool) : ∀ (e : RAnsBitEnc) (last : Bool),
    (os.foldl (fun (acc : RAnsBitEnc × Bool) o => (acc.1.encodeBit (o == acc.2), o)) (e, last)).1 =
      (orientBits last os).foldl (fun e b => e.encodeBit b) e := by
  induction os with
  | nil => intro e last; rfl
  | cons o os ih => intro e last; simp only [List.foldl_cons, orientBits]; exact ih _ _

theorem orient_dec_fold (os : List Bool) : ∀ (acc : Array Bool) (last : Bool),
    ((orientBits last os).foldl (fun (acc : Array Bool × Bool) b =>
      let last := if b then acc.2 else !acc.2
      (acc.1.push last, last)) (acc, last)).1 = acc ++ os.toArray := by
  induction os with
  | nil => intro acc last; simp [orientBits]
  | cons o os ih =>
    intro acc last
    simp only [orientBits, List.foldl_cons]
    have : (if (o == last) = true then last else !last) = o := by cases o <;> cases last <;> rfl
    rw [this, ih]
    simp

theorem runs_apply_texCoords (md : MeshData) (pos : PosSource) (posF : PosSourceF) (ch : ConnChoices)
    (orient : Array Bool) (hcount : orient.size ≤ 3 * md.t.numFaces) (hF : 3 * md.t.numFaces + 3 < 2 ^ 31)
    {lo hi : Int} {wt : WrapT} (hinit : Wrap.init lo hi = some wt) (hlo : -2 ^ 31 ≤ lo) (hhi : hi < 2 ^ 31)
    (corr data : Array Int) (used : Nat) (hdec : texCoordsDecode md pos wt 2 orient corr = .ok (data, used)) :
    Runs (applySchemeEb 514 .texCoords md pos posF 2 corr) 514
      (encodeOrientations (finishBits ch) orient ++ Wrap.encodeTransformData wt) data 514 := by
  unfold applySchemeEb encodeOrientations
  simp only []
  refine Runs.remaining_bind (fun rem1 _ => ?_)
  refine Runs.bind0 (Runs.tag _ 514) ?_
  rw [List.append_assoc]
  have hsz : orient.size % 2 ^ 32 = orient.size := Nat.mod_eq_of_lt (by omega)
  rw [hsz]
  refine Runs.bind (Runs.rdI32 _ 514 (by omega)) ?_
  have hts : toSigned 32 orient.size = (orient.size : Int) := by
    unfold toSigned
    have e31 : (2:Nat) ^ (32 - 1) = 2147483648 := by decide
    have e32 : (2:Nat) ^ 32 = 4294967296 := by decide
    rw [e31, e32, Nat.mod_eq_of_lt (by omega), if_pos (by omega)]
  rw [hts]
  refine Runs.bind0 (Runs.require (by simp) 514) ?_
  refine Runs.bind0 (Runs.require (by simpa using hcount) 514) ?_
  refine Runs.bind0 (Runs.alloc _ _ 514) ?_
  refine Runs.remaining_bind (fun rem2 _ => ?_)
  refine Runs.bind0 (Runs.tag _ 514) ?_
  rw [orient_enc_fold]
  have hpre : (decide (514 < bsVersion 2 2)) = false := by decide
  rw [hpre]
  refine runs_bitBuffer ch (orientBits true orient.toList) (by rw [orientBits_length]; simp; omega) _ _ _ 514 514 ?_
  intro d hbits _
  simp only [Int.toNat_natCast]
  have hl : orient.size = (orientBits true orient.toList).length := by rw [orientBits_length]; simp
  rw [hl, hbits, orient_dec_fold]
  refine Runs.bind' (runs_wrapData hinit hlo hhi 514) (List.append_nil _).symm ?_
  have he : (Array.mkEmpty (orientBits true orient.toList).length : Array Bool) ++ orient.toList.toArray = orient := by simp
  rw [he]
  refine Runs.bind0 (Runs.liftR hdec 514) ?_
  refine Runs.bind0 (Runs.tag _ 514) ?_
  exact Runs.pure _ 514

theorem runs_octaData {q : Nat} {t : OctaT} (hq : Octa.init q = some t) (v : Nat) :
    Runs (lift Octa.decodeTransformData) v (Octa.encodeTransformData t) t v := by
  refine Runs.lift (fun extra => ?_) v
  obtain ⟨hwf, _⟩ := Octa.init_wf hq
  obtain ⟨w1, w2, w3, w4⟩ := hwf
  unfold Octa.decodeTransformData Octa.encodeTransformData
  rw [List.append_assoc, Wrap.readLE_writeLE _ _ _ (Wrap.toUnsigned32_lt _)]
  dsimp only
  rw [Wrap.readLE_writeLE _ _ _ (Wrap.toUnsigned32_lt _)]
  dsimp only
  rw [Wrap.toSigned_toUnsigned32 t.maxQ (by omega) (by omega), setMaxQuantizedValue_of_init hq]

theorem runs_apply_deltaOcta (md : MeshData) (pos : PosSource) (posF : PosSourceF) {q : Nat} {t : OctaT}
    (hq : Octa.init q = some t) (corr : Array Int) :
    Runs (applySchemeEb 514 (.deltaOcta false) md pos posF 2 corr) 514 (Octa.encodeTransformData t)
      (deltaDecode (octaDecEntry t) 2 corr.toList).toArray 514 := by
  unfold applySchemeEb
  simp only [Bool.false_eq_true, if_false]
  refine Runs.bind0 (Runs.tag _ 514) ?_
  refine Runs.bind' (runs_octaData hq 514) (List.append_nil _).symm ?_
  exact Runs.pure _ 514

theorem runs_apply_geometricNormal (md : MeshData) (pos : PosSource) (posF : PosSourceF) (ch : ConnChoices)
    {q : Nat} {t : OctaT} (hq : Octa.init q = some t) (corr data : Array Int) (flips : List Bool)
    (hlen : flips.length + 3 < 2 ^ 32)
    (hdec : ∀ fd, Yields RAnsBitDec.nextBit fd flips →
      ∃ k, geometricNormalDecode md pos t (Leaf.octaDec t) false fd corr = .ok (data, k)) :
    Runs (applySchemeEb 514 (.geometricNormal false) md pos posF 2 corr) 514
      (Octa.encodeTransformData t ++ finishBits ch (encodeBits flips)) data 514 := by
  unfold applySchemeEb
  simp only [Bool.false_eq_true, if_false]
  refine Runs.bind (runs_octaData hq 514) ?_
  have hpre : (decide (514 < bsVersion 2 2)) = false := by decide
  simp only [hpre, Bool.false_eq_true, if_false]
  rw [if_neg (by decide)]
  refine Runs.remaining_bind (fun rem1 _ => ?_)
  refine Runs.bind0 (Runs.tag _ 514) ?_
  refine Runs.remaining_bind (fun rem2 _ => ?_)
  refine Runs.bind0 (Runs.tag _ 514) ?_
  rw [← List.append_nil (finishBits ch (encodeBits flips))]
  refine runs_bitBuffer ch flips hlen _ _ _ 514 514 ?_
  intro d _ hy
  obtain ⟨k, hk⟩ := hdec d hy
  refine Runs.bind0 (Runs.liftR hk 514) ?_
  refine Runs.bind0 (Runs.tag _ 514) ?_
  exact Runs.pure _ 514

theorem foldl_append_flatten {α : Type} (B : α → Bytes) (l : List α) : ∀ acc : Bytes,
    l.foldl (fun b i => b ++ B i) acc = acc ++ (l.map B).flatten := by
  induction l with
  | nil => intro acc; simp
  | cons x xs ih => intro acc; simp [ih, List.append_assoc]

theorem array4_eq (A : Array (Array Bool)) (h : A.size = 4) :
    ((List.range 4).map fun i => A.getD i #[]).toArray = A := by
  apply Array.ext
  · simp [h]
  · intro i h1 h2
    have : i < 4 := by simpa using h1
    simp [Array.getD, h2]

/-- the bytes of one context of crease flags -/
def creaseBlock (ch : ConnChoices) (isCrease : Array (Array Bool)) (i : Nat) : Bytes :=
  encVarint ((isCrease.getD i #[]).size % 2 ^ 32) ++
    if (isCrease.getD i #[]).size > 0 then
      finishBits ch (encodeBits ((creaseStreamOrder isCrease).getD i #[]).toList)
    else []

theorem encodeCreaseFlags_blocks (ch : ConnChoices) (isCrease : Array (Array Bool)) :
    encodeCreaseFlags (finishBits ch) isCrease = ((List.range 4).map (creaseBlock ch isCrease)).flatten := by
  rw [encodeCreaseFlags_eq]
  have := foldl_append_flatten (creaseBlock ch isCrease) (List.range 4) []
  simp only [List.nil_append] at this
  rw [← this]
  congr 1
  funext b i
  unfold creaseBlock encodeBits
  rw [List.append_assoc, Array.foldl_toList]

theorem runs_apply_constrainedMulti (md : MeshData) (pos : PosSource) (posF : PosSourceF) (nc : Nat) (ch : ConnChoices)
    (isCrease : Array (Array Bool)) (hsize : isCrease.size = 4)
    (hdvd : ∀ c, ((creaseStreamOrder isCrease).getD c #[]).size = (isCrease.getD c #[]).size)
    (hcount : ∀ c, (isCrease.getD c #[]).size ≤ 3 * md.t.numFaces) (hF : 3 * md.t.numFaces + 3 < 2 ^ 31)
    {lo hi : Int} {wt : WrapT} (hinit : Wrap.init lo hi = some wt) (hlo : -2 ^ 31 ≤ lo) (hhi : hi < 2 ^ 31)
    (corr data : Array Int) (maxPar : Nat)
    (hdec : constrainedMultiDecode md wt nc (creaseStreamOrder isCrease) corr = .ok (data, maxPar)) :
    Runs (applySchemeEb 514 .constrainedMulti md pos posF nc corr) 514
      (encodeCreaseFlags (finishBits ch) isCrease ++ Wrap.encodeTransformData wt) data 514 := by
  unfold applySchemeEb
  simp only []
  rw [if_neg (by decide)]
  refine Runs.remaining_bind (fun rem1 _ => ?_)
  refine Runs.bind0 (Runs.tag _ 514) ?_
  rw [encodeCreaseFlags_blocks, kMax_eq]
  have hpre : (decide (514 < bsVersion 2 2)) = false := by decide
  rw [hpre]
  refine Runs.bind (Runs.replicateM'_map (List.range 4) (creaseBlock ch isCrease)
    (fun i => (creaseStreamOrder isCrease).getD i #[]) ?_) ?_
  · intro i _
    unfold creaseBlock
    have hlt : (isCrease.getD i #[]).size < 2 ^ 32 := by have := hcount i; omega
    rw [Nat.mod_eq_of_lt hlt]
    refine Runs.bind (Runs.varint32 _ 514 hlt) ?_
    refine Runs.bind0 (Runs.require (by simpa using hcount i) 514) ?_
    by_cases h0 : (isCrease.getD i #[]).size = 0
    · have hb : ((isCrease.getD i #[]).size == 0) = true := by simpa using h0
      rw [hb, if_pos rfl, if_neg (by omega)]
      refine Runs.of_eq (Runs.pure _ 514) rfl rfl ?_
      have := hdvd i
      rw [h0] at this
      exact (Array.eq_empty_of_size_eq_zero this).symm
    · have hb : ((isCrease.getD i #[]).size == 0) = false := by simpa using h0
      have hp : (isCrease.getD i #[]).size > 0 := by omega
      simp only [hb, hp, Bool.false_eq_true, if_false, if_true]
      refine Runs.bind0 (Runs.alloc _ _ 514) ?_
      refine Runs.remaining_bind (fun rem2 _ => ?_)
      refine Runs.bind0 (Runs.tag _ 514) ?_
      rw [← List.append_nil (finishBits ch _)]
      have hl : ((creaseStreamOrder isCrease).getD i #[]).toList.length = (isCrease.getD i #[]).size := by
        rw [Array.length_toList, hdvd]
      refine runs_bitBuffer ch _ (by have := hcount i; omega) _ _ _ 514 514 ?_
      intro d hbits _
      rw [← hl, hbits]
      exact Runs.pure _ 514
  · rw [array4_eq _ (by simp [creaseStreamOrder, hsize])]
    refine Runs.bind' (runs_wrapData hinit hlo hhi 514) (List.append_nil _).symm ?_
    refine Runs.bind0 (Runs.liftR hdec 514) ?_
    refine Runs.bind0 (Runs.tag _ 514) ?_
    exact Runs.pure _ 514


/-! ### sizes and int32 ranges of the corrections -/

theorem blocksFrom_forall (size nc : Nat) (g : Nat → Nat → Int) (P : Int → Prop) (hnc : 0 < nc)
    (h : ∀ p c, c < nc → p * nc + c < size → P (g p c)) : ∀ x ∈ (blocksFrom size nc 0 g).toList, P x := by
  intro x hx
  rw [Array.mem_toList_iff, Array.mem_iff_getElem] at hx
  obtain ⟨i, hi, rfl⟩ := hx
  have hi' : i < size := by simpa [blocksFrom] using hi
  simp only [blocksFrom, Array.getElem_ofFn, Nat.zero_mul, Nat.zero_le, if_true]
  apply h
  · exact Nat.mod_lt _ hnc
  · rw [Nat.mul_comm, Nat.div_add_mod]; exact hi'

theorem pairArr_forall (size : Nat) (g : Nat → Int × Int) (k : Nat) (P : Int → Prop) (h0 : P 0)
    (h : ∀ p, p < k → P (g p).1 ∧ P (g p).2) : ∀ x ∈ (pairArr size g k).toList, P x := by
  intro x hx
  rw [Array.mem_toList_iff, Array.mem_iff_getElem] at hx
  obtain ⟨i, hi, rfl⟩ := hx
  simp only [pairArr, Array.getElem_ofFn]
  split
  · rename_i hlt
    have := h (i / 2) (by omega)
    split
    · exact this.1
    · exact this.2
  · exact h0

theorem wrapInitOf_spec (data : Array Int) (wt : WrapT) (h : wrapInitOf data = some wt)
    (hr : ∀ x ∈ data.toList, -2 ^ 31 ≤ x ∧ x < 2 ^ 31) :
    ∃ lo hi, Wrap.init lo hi = some wt ∧ -2 ^ 31 ≤ lo ∧ hi < 2 ^ 31 ∧
      ∀ i (h : i < data.size), lo ≤ data[i] ∧ data[i] ≤ hi := by
  unfold wrapInitOf at h
  split at h
  · cases h
  · rename_i mn mx hb
    obtain ⟨_, hall, hmn, hmx⟩ := dataBounds_spec _ mn mx hb
    refine ⟨mn, mx, h, (hr mn hmn).1, (hr mx hmx).2, fun i hi => hall _ ?_⟩
    exact Array.getElem_mem_toList hi

theorem symbolBodyR_ok (ch : EbChoices) (o : EncOpts) (attId nc : Nat) (syms : List Nat) (b : Bytes)
    (h : symbolBodyR ch o attId nc syms = .ok b) :
    encodeSymbolBody ch.seq (symbolLevel o.speed) o.builtin attId nc syms = some b := by
  unfold symbolBodyR at h
  split at h
  · cases h
  · rename_i b' hb
    cases h
    exact hb

theorem octaEntries_of_getD (t : OctaT) : ∀ (n fuel : Nat) (l : List Int), l.length = n * 2 → n ≤ fuel →
    (∀ p, p < n → Octa.inGrid t (l.getD (2 * p) 0, l.getD (2 * p + 1) 0) ∧
      Octa.canonical t (l.getD (2 * p) 0, l.getD (2 * p + 1) 0)) →
    ∀ e ∈ entriesOf 2 fuel l, OctaEntry t e := by
  intro n
  induction n with
  | zero =>
    intro fuel l hl _ _
    have : l = [] := by simpa using hl
    subst this
    cases fuel <;> simp [entriesOf]
  | succ n ih =>
    intro fuel l hl hf hP
    cases fuel with
    | zero => omega
    | succ f =>
      match l, hl with
      | a :: b :: rest, hl =>
        simp only [entriesOf, List.isEmpty_cons, Bool.false_eq_true, if_false, List.mem_cons]
        rintro e (rfl | he)
        · have := hP 0 (by omega)
          exact ⟨a, b, rfl, by simpa using this⟩
        · refine ih f rest (by simp at hl; omega) (by omega) (fun p hp => ?_) e (by simpa using he)
          have := hP (p + 1) (by omega)
          have e1 : 2 * (p + 1) = 2 * p + 1 + 1 := by omega
          rw [e1] at this
          simpa using this
      | [a], hl => simp at hl; omega
      | [], hl => simp at hl



theorem deltaEncodeOcta_range (q : Nat) (t : OctaT) (hq : Octa.init q = some t) (n : Nat) (data : Array Int)
    (hlen : data.size = n * 2)
    (hent : ∀ e ∈ SeqEnc.entriesOf 2 data.size data.toList, OctaEntry t e) :
    (deltaEncodeOcta t data).size = n * 2 ∧ ∀ x ∈ (deltaEncodeOcta t data).toList, -2 ^ 31 ≤ x ∧ x < 2 ^ 31 := by
  obtain ⟨hwf, _⟩ := Octa.init_wf hq
  obtain ⟨w1, w2, w3, w4⟩ := hwf
  have hl : data.toList.length = n * 2 := by simpa using hlen
  obtain ⟨_, e2, _⟩ := Draco.entriesOf_spec 2 (by decide) n data.toList.length data.toList hl (by omega)
  have hsz : data.size = data.toList.length := by simp
  rw [hsz] at hent
  unfold deltaEncodeOcta
  rw [hsz]
  generalize hes : SeqEnc.entriesOf 2 data.toList.length data.toList = es at *
  let Dom : List Int → Prop := OctaEntry t
  let Pred : List Int → Prop := fun p => ∃ a b, p = [a, b] ∧ Octa.inGrid t (a, b)
  have hlenE : ∀ e p, Dom e → Pred p → (SeqEnc.octaEnc t e p).length = 2 := by
    rintro e p ⟨a, b, rfl, _, _⟩ ⟨c, d, rfl, _⟩
    rfl
  have hstep : ∀ e, Dom e → Pred e := fun e ⟨a, b, h1, h2, _⟩ => ⟨a, b, h1, h2⟩
  have h0 : Pred (List.replicate 2 0) := ⟨0, 0, rfl, by unfold Octa.inGrid; simp only; omega⟩
  have hrg : ∀ e p, Dom e → Pred p → ∀ x ∈ SeqEnc.octaEnc t e p, -2 ^ 31 ≤ x ∧ x < 2 ^ 31 := by
    rintro e p ⟨a, b, rfl, hg, hc⟩ ⟨c, d, rfl, hp⟩
    obtain ⟨_, r2⟩ := Octa.octa_roundtrip_wf t ⟨w1, w2, w3, w4⟩ (a, b) (c, d) hc hg hp
    simp only [SeqEnc.octaEnc, List.mem_cons, List.not_mem_nil, or_false]
    rintro x (rfl | rfl)
    · unfold Octa.inGrid at r2; omega
    · unfold Octa.inGrid at r2; omega
  have hcl := deltaEncode_length (SeqEnc.octaEnc t) 2 Dom Pred hlenE hstep es _ hent h0
  have hcr := deltaEncode_forall (SeqEnc.octaEnc t) Dom Pred (fun x => -2 ^ 31 ≤ x ∧ x < 2 ^ 31) hrg hstep es _ hent h0
  rw [show ([0, 0] : List Int) = List.replicate 2 0 from rfl]
  refine ⟨?_, ?_⟩
  · simp only [List.size_toArray]
    rw [hcl, e2, Nat.mul_comm]
  · simpa using hcr

theorem normalCorrection_range (q : Nat) (ot : OctaT) (hq : Octa.init q = some ot) (pred : Int × Int × Int)
    (o : Int × Int) (hg : Octa.inGrid ot o) (hc : Octa.canonical ot o) :
    (-2 ^ 31 ≤ (normalCorrection ot pred o).2.1 ∧ (normalCorrection ot pred o).2.1 < 2 ^ 31) ∧
    (-2 ^ 31 ≤ (normalCorrection ot pred o).2.2 ∧ (normalCorrection ot pred o).2.2 < 2 ^ 31) := by
  obtain ⟨hwf, _⟩ := Octa.init_wf hq
  have hwf' := hwf
  obtain ⟨hV, hQ, hc1, h29⟩ := hwf'
  have hsum := Octa.canonicalizeIntVec_abs_sum ot (by omega) pred
  unfold normalCorrection
  generalize Octa.canonicalizeIntVec ot pred = v at *
  obtain ⟨x, y, z⟩ := v
  simp only at hsum
  have hx : iabs x ≤ ot.center := by have := Octa.iabs_nonneg y; have := Octa.iabs_nonneg z; omega
  have hy : iabs y ≤ ot.center := by have := Octa.iabs_nonneg x; have := Octa.iabs_nonneg z; omega
  have hz : iabs z ≤ ot.center := by have := Octa.iabs_nonneg x; have := Octa.iabs_nonneg y; omega
  have hnx : wrap32 (-x) = -x := wrap32_small _ (by unfold iabs at hx; split at hx <;> omega) (by unfold iabs at hx; split at hx <;> omega)
  have hny : wrap32 (-y) = -y := wrap32_small _ (by unfold iabs at hy; split at hy <;> omega) (by unfold iabs at hy; split at hy <;> omega)
  have hnz : wrap32 (-z) = -z := wrap32_small _ (by unfold iabs at hz; split at hz <;> omega) (by unfold iabs at hz; split at hz <;> omega)
  have hsumN : iabs (-x) + iabs (-y) + iabs (-z) = ot.center := by
    have e : ∀ a : Int, iabs (-a) = iabs a := by intro a; unfold iabs; split <;> split <;> omega
    rw [e, e, e]; exact hsum
  obtain ⟨gP, _⟩ := Octa.intVecToCoords_inGrid_canonical ot hwf (x, y, z) hsum
  obtain ⟨gN, _⟩ := Octa.intVecToCoords_inGrid_canonical ot hwf (-x, -y, -z) hsumN
  have key : ∀ pr, Octa.inGrid ot pr →
      (-2 ^ 31 ≤ Octa.makePositive ot (Octa.modMax ot (Octa.encCorr ot o pr).1) ∧
        Octa.makePositive ot (Octa.modMax ot (Octa.encCorr ot o pr).1) < 2 ^ 31) ∧
      (-2 ^ 31 ≤ Octa.makePositive ot (Octa.modMax ot (Octa.encCorr ot o pr).2) ∧
        Octa.makePositive ot (Octa.modMax ot (Octa.encCorr ot o pr).2) < 2 ^ 31) := by
    intro pr hpr
    obtain ⟨_, r2⟩ := Octa.octa_roundtrip_wf ot hwf o pr hc hg hpr
    unfold Octa.inGrid at r2
    rw [Octa.makePositive_modMax ot hwf _ r2.1 r2.2.1, Octa.makePositive_modMax ot hwf _ r2.2.2.1 r2.2.2.2]
    omega
  simp only [hnx, hny, hnz]
  split
  · exact key _ gP
  · exact key _ gN

theorem texStack_size (md : MeshData) (ps : PosSource) (data : Array Int) : ∀ j, (texStack md ps data j).size ≤ j := by
  intro j
  induction j with
  | zero => simp [texStack]
  | succ j ih =>
    unfold texStack
    generalize (texVal md ps data (md.d2c.size - 1 - j)).2 = o
    cases o with
    | none => simp only [pushOpt]; omega
    | some b => simp only [pushOpt, Array.size_push]; omega



/-! ### the value block -/

/-- normals (`kind` 3): two components, valid quantization bits, every entry a canonical point of the grid -/
def NormalsOK (o : EncOpts) (attId nc n : Nat) (portable : Array Int) : Prop :=
  nc = 2 ∧ ∃ t, Octa.init (o.att attId).quantBits.toNat = some t ∧
    ∀ p, p < n → Octa.inGrid t (portable.getD (2 * p) 0, portable.getD (2 * p + 1) 0) ∧
      Octa.canonical t (portable.getD (2 * p) 0, portable.getD (2 * p + 1) 0)

/-- the decoder's `num_flags ≤ num_corners` check on the crease flags the encoder produced -/
def CreaseCountOK (ch : EbChoices) (attId nc : Nat) (md : MeshData) (portable : Array Int) : Prop :=
  ∀ wt corr isCrease, wrapInitOf portable = some wt →
    constrainedMultiEncode md wt nc (ch.crease attId) portable = .ok (corr, isCrease) →
    ∀ c, (isCrease.getD c #[]).size ≤ 3 * md.t.numFaces

theorem toList_getD' (a : Array Int) (i : Nat) : a.toList.getD i 0 = a.getD i 0 := by
  by_cases h : i < a.size
  · simp [Array.getD, h]
  · simp [Array.getD, h]

theorem setMax_of_init' {q : Nat} {t : OctaT} (h : Octa.init q = some t) :
    Octa.setMaxQuantizedValue (2 ^ q - 1) = some t := by
  have hq : 2 ≤ q ∧ q ≤ 30 := by
    unfold Octa.init at h
    split at h
    · cases h
    · omega
  rw [setMaxQuantizedValue_pow q hq.1 hq.2, h]

theorem normalsOK_entries {n : Nat} {portable : Array Int} {t : OctaT}
    (hlen : portable.size = n * 2)
    (hent : ∀ p, p < n → Octa.inGrid t (portable.getD (2 * p) 0, portable.getD (2 * p + 1) 0) ∧
      Octa.canonical t (portable.getD (2 * p) 0, portable.getD (2 * p + 1) 0)) :
    ∀ e ∈ SeqEnc.entriesOf 2 portable.size portable.toList, OctaEntry t e :=
  octaEntries_of_getD t n portable.size portable.toList (by simpa using hlen) (by omega)
    (fun p hp => by rw [toList_getD', toList_getD']; exact hent p hp)

theorem toSymbol_lt (l : List Int) (h : ∀ x ∈ l, -2 ^ 31 ≤ x ∧ x < 2 ^ 31) : ∀ s ∈ l.map (toSymbol 32), s < 2 ^ 32 := by
  intro s hs
  simp only [List.mem_map] at hs
  obtain ⟨x, hx, rfl⟩ := hs
  exact (toSymbol32 x (h x hx).1 (h x hx).2).2

theorem toUnsigned_lt (l : List Int) : ∀ s ∈ l.map (toUnsigned 32), s < 2 ^ 32 := by
  intro s hs
  simp only [List.mem_map] at hs
  obtain ⟨x, _, rfl⟩ := hs
  exact toUnsigned32_lt' x

theorem schemeVals_wrap (kind : Nat) (s : PScheme) (h : kind ≠ 3 ∨ s = .none) (corr : Array Int)
    (hr : ∀ x ∈ corr.toList, -2 ^ 31 ≤ x ∧ x < 2 ^ 31) :
    schemeVals kind s (corr.toList.map (toSymbol 32)) = corr := by
  unfold schemeVals
  have : (kind == 3 && s != .none) = false := by
    rcases h with h | h
    · have : (kind == 3) = false := by simpa using h
      simp [this]
    · subst h; cases (kind == 3) <;> rfl
  rw [this]
  simp only [Bool.false_eq_true, if_false, map_ofSymbol_toSymbol _ hr]

theorem schemeVals_octa (s : PScheme) (h : s ≠ .none) (corr : Array Int)
    (hr : ∀ x ∈ corr.toList, -2 ^ 31 ≤ x ∧ x < 2 ^ 31) :
    schemeVals 3 s (corr.toList.map (toUnsigned 32)) = corr := by
  unfold schemeVals
  have : ((3:Nat) == 3 && s != .none) = true := by
    cases s <;> first | rfl | exact absurd rfl h
  rw [this]
  simp only [if_true, map_toSigned_toUnsigned _ hr]

/-- **the value block**: what `encodeSchemeBlock` wrote is read back by `decodeIntegerValuesEb` on the same
    `MeshData` and position source -/
theorem runs_schemeBlock (ch : EbChoices) (o : EncOpts) (attId kind nc n attComponents : Nat) (s : PScheme)
    (md : MeshData) (pointIds : Array Nat) (parentD : Option Parent) (pos : PosSource) (portable : Array Int)
    (bs : Bytes) (hk : SchemeKindOK kind s)
    (hpar : Runs (parentSourcesEb (decScheme kind s) pointIds parentD) 514 [] (pos, noPosF, "") 514)
    (hnc : 0 < nc) (hn : 0 < n) (hlen : portable.size = n * nc) (hd : md.d2c.size = n) (h32 : n * nc < 2 ^ 32)
    (hr : ∀ x ∈ portable.toList, -2 ^ 31 ≤ x ∧ x < 2 ^ 31)
    (hk3 : kind = 3 → NormalsOK o attId nc n portable)
    (hF : 3 * md.t.numFaces + 3 < 2 ^ 31) (hcorners : n ≤ 3 * md.t.numFaces)
    (hcrease : s = .constrainedMulti → CreaseCountOK ch attId nc md portable)
    (henc : encodeSchemeBlock ch o attId kind nc s md pos portable = .ok bs) :
    Runs (decodeIntegerValuesEb kind n nc attComponents md pointIds parentD) 514 bs
      (portable, TransformData.none) 514 := by
  have hcomp := fun syms body tail hlen hs henc out happly =>
    runs_decodeIntegerValuesEb kind n nc attComponents md pointIds parentD s hk pos noPosF hpar ch.seq
      (symbolLevel o.speed) o.builtin attId syms body tail hnc hn hlen h32 hs henc out happly
  cases s with
  | none =>
    unfold encodeSchemeBlock at henc
    simp only [] at henc
    rw [bind_ok_iff] at henc
    obtain ⟨b, hb, hret⟩ := henc
    simp only [pure, Except.pure, Except.ok.injEq] at hret
    subst hret
    have := hcomp _ b [] (by simpa using hlen) (toSymbol_lt _ hr) (symbolBodyR_ok _ _ _ _ _ _ hb) portable (by
      rw [schemeVals_wrap kind .none (Or.inr rfl) portable hr]
      unfold applySchemeEb
      simp only [decScheme]
      exact Runs.pure _ 514)
    simpa [schemeBytes] using this
  | delta =>
    by_cases h3 : kind = 3
    · subst h3
      obtain ⟨hnc2, t, hq, hent⟩ := hk3 rfl
      subst hnc2
      unfold encodeSchemeBlock at henc
      simp only [BEq.rfl, if_true, setMax_of_init' hq] at henc
      rw [if_pos (show (PScheme.delta == PScheme.delta) = true from rfl), bind_ok_iff] at henc
      obtain ⟨b, hb, hret⟩ := henc
      simp only [pure, Except.pure, Except.ok.injEq] at hret
      subst hret
      have hent' := normalsOK_entries hlen hent
      obtain ⟨hcs, hcr⟩ := deltaEncodeOcta_range _ t hq n portable hlen hent'
      have hrt := delta_octa_roundtrip _ t hq n portable hlen hent'
      have := hcomp _ b (Octa.encodeTransformData t) (by simpa using hcs) (toUnsigned_lt _)
        (symbolBodyR_ok _ _ _ _ _ _ hb) portable (by
          rw [schemeVals_octa .delta (by intro h; cases h) _ hcr]
          refine Runs.of_eq (runs_apply_deltaOcta md pos noPosF hq (deltaEncodeOcta t portable)) rfl rfl ?_
          rw [hrt])
      simpa [schemeBytes] using this
    · have hk3' : (kind == 3) = false := by simpa using h3
      unfold encodeSchemeBlock at henc
      simp only [hk3', Bool.false_eq_true, if_false] at henc
      split at henc
      · cases henc
      · rename_i wt hwt
        obtain ⟨lo, hi, hinit, hlo, hhi, hrange⟩ := wrapInitOf_spec portable wt hwt hr
        rw [bind_ok_iff] at henc
        obtain ⟨corr, hcorr, henc⟩ := henc
        rw [bind_ok_iff] at henc
        obtain ⟨b, hb, hret⟩ := henc
        simp only [pure, Except.pure, Except.ok.injEq] at hret
        subst hret
        obtain ⟨corr', hc1, hc2⟩ := delta_wrap_roundtrip wt lo hi nc n portable hnc hn hlen hinit hlo hhi hrange
        rw [hcorr] at hc1
        cases hc1
        have hce := deltaEncodeWrap_eq wt nc n portable hnc hn hlen
        rw [hcorr] at hce
        have hce' : corr = blocksFrom portable.size nc 0 (deltaCorrAt wt nc portable) := by cases hce; rfl
        have hcr : ∀ x ∈ corr.toList, -2 ^ 31 ≤ x ∧ x < 2 ^ 31 := by
          rw [hce']
          refine blocksFrom_forall _ _ _ _ hnc (fun p c hc hi' => ?_)
          unfold deltaCorrAt
          have hv : portable.getD (p * nc + c) 0 = portable[p * nc + c] := by simp [Array.getD, hi']
          rw [hv]
          exact encCorr_int32 hinit hlo hhi _ _ (hrange _ hi').1 (hrange _ hi').2
        have hcs : corr.size = n * nc := by rw [hce']; simp [blocksFrom, hlen]
        have := hcomp _ b (Wrap.encodeTransformData wt) (by simpa using hcs) (toSymbol_lt _ hcr)
          (symbolBodyR_ok _ _ _ _ _ _ hb) portable (by
            rw [schemeVals_wrap kind .delta (Or.inl h3) corr hcr]
            simp only [decScheme, hk3', Bool.false_eq_true, if_false]
            exact runs_apply_deltaWrap md pos noPosF nc hinit hlo hhi corr portable hc2)
        simpa [schemeBytes, hk3'] using this
  | geometricNormalWrap => exact absurd hk (by simp [SchemeKindOK])
  | geometricNormal =>
    have h3 : kind = 3 := hk
    subst h3
    obtain ⟨hnc2, t, hq, hent⟩ := hk3 rfl
    subst hnc2
    unfold encodeSchemeBlock at henc
    simp only [BEq.rfl, if_true, setMax_of_init' hq] at henc
    rw [if_neg (show ¬ (PScheme.geometricNormal == PScheme.delta) = true from by decide), bind_ok_iff] at henc
    obtain ⟨⟨corr, flips⟩, hgn, henc⟩ := henc
    simp only [] at henc
    rw [bind_ok_iff] at henc
    obtain ⟨b, hb, hret⟩ := henc
    simp only [pure, Except.pure, Except.ok.injEq] at hret
    subst hret
    have hlen' : portable.size = 2 * n := by omega
    have hok := normalOK_of_encode md pos t portable _ hgn
    obtain ⟨a, h1, h2⟩ := R.of_triple (geometricNormalEncode_spec md pos t portable n hd hlen' hok)
    rw [hgn] at h1
    cases h1
    obtain ⟨hcorr, hflips⟩ := Prod.mk.inj h2
    have hcr : ∀ x ∈ corr.toList, -2 ^ 31 ≤ x ∧ x < 2 ^ 31 := by
      rw [hcorr]
      refine pairArr_forall _ _ _ _ (by omega) (fun p hp => ?_)
      exact normalCorrection_range _ t hq _ _ (hent p hp).1 (hent p hp).2
    have hcs : corr.size = n * 2 := by rw [hcorr]; simp [normalCorrArr, hlen]
    have hfl : flips.toList.length = n := by rw [hflips]; simp [normalFlips]
    have := hcomp _ b (Octa.encodeTransformData t ++ finishBits ch.conn (encodeBits flips.toList))
      (by simpa using hcs) (toUnsigned_lt _) (symbolBodyR_ok _ _ _ _ _ _ hb) portable (by
        rw [schemeVals_octa .geometricNormal (by intro h; cases h) _ hcr]
        refine runs_apply_geometricNormal md pos noPosF ch.conn hq corr portable flips.toList (by omega) ?_
        intro fd hfd
        exact geometric_normal_roundtrip md pos _ t hq portable n hd hlen' hent corr flips hgn fd hfd)
    have e : Array.foldl (fun e f => e.encodeBit f) RAnsBitEnc.start flips = encodeBits flips.toList := by
      unfold encodeBits; rw [Array.foldl_toList]
    simpa [schemeBytes, e] using this
  | parallelogram =>
    have h3 : kind ≠ 3 := hk
    have hk3' : (kind == 3) = false := by simpa using h3
    unfold encodeSchemeBlock at henc
    simp only [] at henc
    split at henc
    · cases henc
    · rename_i wt hwt
      obtain ⟨lo, hi, hinit, hlo, hhi, hrange⟩ := wrapInitOf_spec portable wt hwt hr
      rw [bind_ok_iff] at henc
      obtain ⟨corr, hcorr, henc⟩ := henc
      rw [bind_ok_iff] at henc
      obtain ⟨b, hb, hret⟩ := henc
      simp only [pure, Except.pure, Except.ok.injEq] at hret
      subst hret
      obtain ⟨used, hdec⟩ := parallelogram_roundtrip_of_encode md wt lo hi nc n portable corr hnc hn hd hlen hinit hlo
        hhi hrange hcorr
      have hce := parallelogramEncode_eq md wt nc n portable hnc hn hd hlen (predOK_of_encode md wt nc portable corr hcorr)
      rw [hcorr] at hce
      have hce' : corr = blocksFrom portable.size nc 0 (parCorrAt md wt nc portable) := by cases hce; rfl
      have hcr : ∀ x ∈ corr.toList, -2 ^ 31 ≤ x ∧ x < 2 ^ 31 := by
        rw [hce']
        refine blocksFrom_forall _ _ _ _ hnc (fun p c hc hi' => ?_)
        unfold parCorrAt
        have hv : portable.getD (p * nc + c) 0 = portable[p * nc + c] := by simp [Array.getD, hi']
        rw [hv]
        exact encCorr_int32 hinit hlo hhi _ _ (hrange _ hi').1 (hrange _ hi').2
      have hcs : corr.size = n * nc := by rw [hce']; simp [blocksFrom, hlen]
      have := hcomp _ b (Wrap.encodeTransformData wt) (by simpa using hcs) (toSymbol_lt _ hcr)
        (symbolBodyR_ok _ _ _ _ _ _ hb) portable (by
          rw [schemeVals_wrap kind .parallelogram (Or.inl h3) corr hcr]
          exact runs_apply_parallelogram md pos noPosF nc hinit hlo hhi corr portable used hdec)
      simpa [schemeBytes, hk3'] using this
  | constrainedMulti =>
    have h3 : kind ≠ 3 := hk
    have hk3' : (kind == 3) = false := by simpa using h3
    unfold encodeSchemeBlock at henc
    simp only [] at henc
    split at henc
    · cases henc
    · rename_i wt hwt
      obtain ⟨lo, hi, hinit, hlo, hhi, hrange⟩ := wrapInitOf_spec portable wt hwt hr
      rw [bind_ok_iff] at henc
      obtain ⟨⟨corr, isCrease⟩, hcorr, henc⟩ := henc
      simp only [] at henc
      rw [bind_ok_iff] at henc
      obtain ⟨b, hb, hret⟩ := henc
      simp only [pure, Except.pure, Except.ok.injEq] at hret
      subst hret
      obtain ⟨maxPar, hdec⟩ := constrained_multi_roundtrip md wt lo hi nc n (ch.crease attId) portable corr isCrease
        hnc hn hd hlen hinit hlo hhi hrange hcorr
      obtain ⟨hcs, hcr⟩ := constrainedMultiEncode_corr_range md wt lo hi nc n (ch.crease attId) portable corr isCrease
        hnc hn hd hlen hinit hlo hhi hrange hcorr
      have := hcomp _ b (encodeCreaseFlags (finishBits ch.conn) isCrease ++ Wrap.encodeTransformData wt)
        (by simpa [hlen] using hcs) (toSymbol_lt _ hcr) (symbolBodyR_ok _ _ _ _ _ _ hb) portable (by
          rw [schemeVals_wrap kind .constrainedMulti (Or.inl h3) corr hcr]
          exact runs_apply_constrainedMulti md pos noPosF nc ch.conn isCrease
            (constrainedMultiEncode_isCrease_size md wt nc n _ portable corr isCrease hd hlen hcorr)
            (constrainedMultiEncode_streamOrder_size md wt nc n _ portable corr isCrease hd hlen hcorr)
            (hcrease rfl wt corr isCrease hwt hcorr) hF hinit hlo hhi corr portable maxPar hdec)
      simpa [schemeBytes, hk3'] using this
  | texCoords =>
    have h3 : kind ≠ 3 := hk
    have hk3' : (kind == 3) = false := by simpa using h3
    unfold encodeSchemeBlock at henc
    simp only [] at henc
    split at henc
    · cases henc
    · rename_i wt hwt
      obtain ⟨lo, hi, hinit, hlo, hhi, hrange⟩ := wrapInitOf_spec portable wt hwt hr
      rw [bind_ok_iff] at henc
      obtain ⟨⟨corr, orient⟩, hcorr, henc⟩ := henc
      simp only [] at henc
      rw [bind_ok_iff] at henc
      obtain ⟨b, hb, hret⟩ := henc
      simp only [pure, Except.pure, Except.ok.injEq] at hret
      subst hret
      have hnc2 : nc = 2 := by
        by_contra hne
        unfold texCoordsEncode at hcorr
        have : (nc != 2) = true := by simpa using hne
        simp [this, throw, throwThe, MonadExceptOf.throw, bind, Except.bind] at hcorr
      subst hnc2
      obtain ⟨used, hdec⟩ := tex_coords_roundtrip md pos wt lo hi n portable hd hlen hinit hlo hhi hrange corr orient hcorr
      have hok := texOK_of_encode md pos wt portable _ hcorr
      obtain ⟨a, h1, h2⟩ := R.of_triple (texCoordsEncode_spec md pos wt portable n hd hlen hok)
      rw [hcorr] at h1
      cases h1
      obtain ⟨hce', horient⟩ := Prod.mk.inj h2
      have hcr : ∀ x ∈ corr.toList, -2 ^ 31 ≤ x ∧ x < 2 ^ 31 := by
        rw [hce']
        refine blocksFrom_forall _ _ _ _ hnc (fun p c hc hi' => ?_)
        unfold texCorrAt
        have hv : portable.getD (p * 2 + c) 0 = portable[p * 2 + c] := by simp [Array.getD, hi']
        rw [hv]
        exact encCorr_int32 hinit hlo hhi _ _ (hrange _ hi').1 (hrange _ hi').2
      have hcs : corr.size = n * 2 := by rw [hce']; simp [blocksFrom, hlen]
      have hos : orient.size ≤ 3 * md.t.numFaces := by
        rw [horient]
        exact Nat.le_trans (texStack_size md pos portable n) hcorners
      have := hcomp _ b (encodeOrientations (finishBits ch.conn) orient ++ Wrap.encodeTransformData wt)
        (by simpa using hcs) (toSymbol_lt _ hcr) (symbolBodyR_ok _ _ _ _ _ _ hb) portable (by
          rw [schemeVals_wrap kind .texCoords (Or.inl h3) corr hcr]
          exact runs_apply_texCoords md pos noPosF ch.conn orient hos hF hinit hlo hhi corr portable used hdec)
      simpa [schemeBytes, hk3'] using this

/-- the parent (position) attribute as the decoder holds it when the values are decoded is the encoder's portable
    position attribute: same mapping, same int32 values -/
def ParentAgree (pe : Option ParentAtt) (pd : Option Parent) : Prop :=
  ∀ p, pe = some p → ∃ q, pd = some q ∧ q.numComponents = p.numComponents ∧ q.intsOk = true ∧ q.map = p.map ∧
    q.ints = p.values

theorem schemeKindOK_effective (kind : Nat) (s : PScheme) (portable : Array Int) (h : SchemeKindOK kind s) :
    SchemeKindOK kind (effectiveScheme s portable) := by
  unfold effectiveScheme
  split
  · split
    · split
      · trivial
      · exact h
    · exact h
  · exact h

theorem runs_parent_of_enc (kind : Nat) (s : PScheme) (hk : SchemeKindOK kind s) (pointIds : Array Nat)
    (parentE : Option ParentAtt) (parentD : Option Parent) (hpar : ParentAgree parentE parentD) (pos : PosSource)
    (h : encParentSource s pointIds parentE = .ok pos) :
    Runs (parentSourcesEb (decScheme kind s) pointIds parentD) 514 [] (pos, noPosF, "") 514 := by
  unfold encParentSource at h
  by_cases hp : s.needsParent = true
  · simp only [hp, if_true] at h
    cases parentE with
    | none => simp [throw, throwThe, MonadExceptOf.throw, bind, Except.bind] at h
    | some p =>
      obtain ⟨q, hq, hq3, hqok, hqm, hqi⟩ := hpar p rfl
      subst hq
      simp only [] at h
      by_cases h3 : p.numComponents = 3
      · have h3' : (p.numComponents != 3) = false := by simp [h3]
        by_cases hk0 : p.kind = 0
        · have : (p.kind == 0) = true := by simp [hk0]
          simp only [h3', this, Bool.false_eq_true, if_false, if_true] at h
          split at h <;> simp [throw, throwThe, MonadExceptOf.throw, bind, Except.bind] at h
        · have : (p.kind == 0) = false := by simp [hk0]
          simp only [h3', this, Bool.false_eq_true, if_false] at h
          simp only [pure, Except.pure, Except.ok.injEq] at h
          subst h
          have := runs_parentSourcesEb_some (decScheme kind s) (by
              cases s <;> simp only [PScheme.needsParent] at hp <;> first | rfl | exact absurd hp (by decide) | exact absurd hk (by simp [SchemeKindOK]))
            (by cases s <;> simp only [PScheme.needsParent] at hp <;> first | (intro hh; cases hh) | exact absurd hp (by decide))
            pointIds q (hq3.trans h3) hqok 514
          rw [hqm, hqi] at this
          exact this
      · have h3' : (p.numComponents != 3) = true := by simp [h3]
        simp [h3', throw, throwThe, MonadExceptOf.throw, bind, Except.bind] at h
  · have hp' : s.needsParent = false := by simpa using hp
    simp only [hp', Bool.false_eq_true, if_false, pure, Except.pure, Except.ok.injEq] at h
    subst h
    refine runs_parentSourcesEb_none _ ?_ pointIds parentD 514
    cases s <;> simp only [PScheme.needsParent] at hp' <;> first | rfl | (simp only [decScheme]; split <;> rfl) | exact absurd hp' (by decide)

theorem effectiveScheme_cm (s : PScheme) (portable : Array Int)
    (h : effectiveScheme s portable = .constrainedMulti) : s = .constrainedMulti := by
  unfold effectiveScheme at h
  split at h
  · split at h
    · split at h
      · cases h
      · exact h
    · exact h
  · exact h

/-- **the attribute value block of an Edgebreaker stream** (`SequentialIntegerAttributeEncoder::EncodeValues` with a
    mesh prediction scheme, read by `SequentialIntegerAttributeDecoder::DecodeValues`, bitstream 2.2): for every
    scheme the encoder can select — none, difference, parallelogram, constrained multi-parallelogram, tex-coords
    portable (wrap transform) and difference / geometric normal (canonicalized octahedron transform) — and whatever
    choices it takes, the decoder, given the same `MeshData` and the same parent attribute, returns the portable
    values and stops exactly behind the block. -/
theorem runs_encodeIntegerValuesEb (ch : EbChoices) (o : EncOpts) (attId kind nc numValues n attComponents : Nat)
    (scheme : PScheme) (md : MeshData) (pointIds : Array Nat) (parentE : Option ParentAtt) (parentD : Option Parent)
    (portable : Array Int) (sch' : PScheme) (bs : Bytes)
    (hnv : numValues ≠ 0) (hk : SchemeKindOK kind scheme) (hpar : ParentAgree parentE parentD)
    (hnc : 0 < nc) (hn : 0 < n) (hlen : portable.size = n * nc) (hd : md.d2c.size = n) (h32 : n * nc < 2 ^ 32)
    (hr : ∀ x ∈ portable.toList, -2 ^ 31 ≤ x ∧ x < 2 ^ 31)
    (hk3 : kind = 3 → NormalsOK o attId nc n portable)
    (hF : 3 * md.t.numFaces + 3 < 2 ^ 31) (hcorners : n ≤ 3 * md.t.numFaces)
    (hcrease : scheme = .constrainedMulti → CreaseCountOK ch attId nc md portable)
    (henc : encodeIntegerValuesEb ch o attId kind nc numValues scheme md pointIds parentE portable = .ok (sch', bs)) :
    sch' = effectiveScheme scheme portable ∧
    Runs (decodeIntegerValuesEb kind n nc attComponents md pointIds parentD) 514 bs
      (portable, TransformData.none) 514 := by
  unfold encodeIntegerValuesEb at henc
  have hnv' : (numValues == 0) = false := by simpa using hnv
  simp only [hnv', Bool.false_eq_true, if_false] at henc
  rw [bind_ok_iff] at henc
  obtain ⟨pos, hpos, henc⟩ := henc
  rw [bind_ok_iff] at henc
  obtain ⟨bs', hbs, hret⟩ := henc
  simp only [pure, Except.pure, Except.ok.injEq, Prod.mk.injEq] at hret
  obtain ⟨rfl, rfl⟩ := hret
  have hk' := schemeKindOK_effective kind scheme portable hk
  exact ⟨rfl, runs_schemeBlock ch o attId kind nc n attComponents _ md pointIds parentD pos portable bs' hk'
    (runs_parent_of_enc kind _ hk' pointIds parentE parentD hpar pos hpos) hnc hn hlen hd h32 hr hk3 hF hcorners
    (fun h => hcrease (effectiveScheme_cm _ _ h)) hbs⟩


/-! ### encoder and decoder on their own mesh data -/

/-- two position sources that deliver the same position for every entry -/
def PosAgree (a b : PosSource) : Prop := ∀ i, a.get i = b.get i

theorem texPredictEnc_congr_ps (md : MeshData) (a b : PosSource) (h : PosAgree a b) :
    texPredictEnc md a = texPredictEnc md b := by
  funext corner data p
  unfold texPredictEnc
  simp only [h _]

theorem texCoordsEncode_congr_ps (md : MeshData) (a b : PosSource) (h : PosAgree a b) (wt : WrapT) (nc : Nat)
    (data : Array Int) : texCoordsEncode md a wt nc data = texCoordsEncode md b wt nc data := by
  unfold texCoordsEncode
  rw [texPredictEnc_congr_ps md a b h]

theorem normalPredict_congr_ps (md : MeshData) (a b : PosSource) (h : PosAgree a b) (corner : Nat) (one : Bool) :
    normalPredict md a corner one = normalPredict md b corner one := by
  unfold normalPredict
  simp only [h _]

theorem geometricNormalEncode_congr_ps (md : MeshData) (a b : PosSource) (h : PosAgree a b) (ot : OctaT)
    (data : Array Int) : geometricNormalEncode md a ot data = geometricNormalEncode md b ot data := by
  unfold geometricNormalEncode
  simp only [normalPredict_congr_ps md a b h]

theorem encodeSchemeBlock_congr_ps (ch : EbChoices) (o : EncOpts) (attId kind nc : Nat) (s : PScheme) (md : MeshData)
    (a b : PosSource) (h : PosAgree a b) (portable : Array Int) :
    encodeSchemeBlock ch o attId kind nc s md a portable = encodeSchemeBlock ch o attId kind nc s md b portable := by
  unfold encodeSchemeBlock
  simp only [texCoordsEncode_congr_ps md a b h, geometricNormalEncode_congr_ps md a b h]

/-- what the decoder holds as parent attribute when it decodes a block whose scheme needs one: three components,
    integer view present, and — entry by entry — the positions the encoder saw (`PosAgree`) -/
def DecParentOK (s : PScheme) (parentD : Option Parent) (pointIdsD : Array Nat) (posE : PosSource) : Prop :=
  s.needsParent = true → ∃ q, parentD = some q ∧ q.numComponents = 3 ∧ q.intsOk = true ∧
    PosAgree posE { pointIds := pointIdsD, map := q.map, values := q.ints }

theorem encParentSource_noParent (s : PScheme) (h : s.needsParent = false) (pointIds : Array Nat)
    (parent : Option ParentAtt) (pos : PosSource) (hp : encParentSource s pointIds parent = .ok pos) : pos = noPos := by
  unfold encParentSource at hp
  simp only [h, Bool.false_eq_true, if_false, pure, Except.pure, Except.ok.injEq] at hp
  exact hp.symm

/-- **the value block, encoder and decoder each on their own mesh data**: the encoder runs on `mdE` / `pointIdsE` /
    `parentE`, the decoder on `mdD` / `pointIdsD` / `parentD`.  Named hypotheses: `hinv` (*block invariance*: the
    block the encoder writes is the one it would write on the decoder's mesh data — what prediction equivariance
    under `MDIso` delivers), `hparD` (`DecParentOK`). -/
theorem runs_valueBlock (ch : EbChoices) (o : EncOpts) (attId kind nc numValues n attComponents : Nat)
    (scheme : PScheme) (mdE mdD : MeshData) (pointIdsE pointIdsD : Array Nat) (parentE : Option ParentAtt)
    (parentD : Option Parent) (portable : Array Int) (sch' : PScheme) (bs : Bytes)
    (hnv : numValues ≠ 0) (hk : SchemeKindOK kind scheme)
    (hinv : ∀ posE, encParentSource (effectiveScheme scheme portable) pointIdsE parentE = .ok posE →
      encodeSchemeBlock ch o attId kind nc (effectiveScheme scheme portable) mdE posE portable =
      encodeSchemeBlock ch o attId kind nc (effectiveScheme scheme portable) mdD posE portable)
    (hparD : ∀ posE, encParentSource (effectiveScheme scheme portable) pointIdsE parentE = .ok posE →
      DecParentOK (effectiveScheme scheme portable) parentD pointIdsD posE)
    (hnc : 0 < nc) (hn : 0 < n) (hlen : portable.size = n * nc) (hd : mdD.d2c.size = n) (h32 : n * nc < 2 ^ 32)
    (hr : ∀ x ∈ portable.toList, -2 ^ 31 ≤ x ∧ x < 2 ^ 31)
    (hk3 : kind = 3 → NormalsOK o attId nc n portable)
    (hF : 3 * mdD.t.numFaces + 3 < 2 ^ 31) (hcorners : n ≤ 3 * mdD.t.numFaces)
    (hcrease : scheme = .constrainedMulti → CreaseCountOK ch attId nc mdD portable)
    (henc : encodeIntegerValuesEb ch o attId kind nc numValues scheme mdE pointIdsE parentE portable = .ok (sch', bs)) :
    sch' = effectiveScheme scheme portable ∧
    Runs (decodeIntegerValuesEb kind n nc attComponents mdD pointIdsD parentD) 514 bs
      (portable, TransformData.none) 514 := by
  unfold encodeIntegerValuesEb at henc
  have hnv' : (numValues == 0) = false := by simpa using hnv
  simp only [hnv', Bool.false_eq_true, if_false] at henc
  rw [bind_ok_iff] at henc
  obtain ⟨posE, hpos, henc⟩ := henc
  rw [bind_ok_iff] at henc
  obtain ⟨bs', hbs, hret⟩ := henc
  simp only [pure, Except.pure, Except.ok.injEq, Prod.mk.injEq] at hret
  obtain ⟨rfl, rfl⟩ := hret
  have hk' := schemeKindOK_effective kind scheme portable hk
  refine ⟨rfl, ?_⟩
  rw [hinv posE hpos] at hbs
  by_cases hp : (effectiveScheme scheme portable).needsParent = true
  · obtain ⟨q, hq, hq3, hqok, hagree⟩ := hparD posE hpos hp
    subst hq
    rw [encodeSchemeBlock_congr_ps ch o attId kind nc _ mdD _ _ hagree] at hbs
    refine runs_schemeBlock ch o attId kind nc n attComponents _ mdD pointIdsD (some q) _ portable bs' hk' ?_
      hnc hn hlen hd h32 hr hk3 hF hcorners (fun h => hcrease (effectiveScheme_cm _ _ h)) hbs
    generalize effectiveScheme scheme portable = s at *
    exact runs_parentSourcesEb_some (decScheme kind s) (by
        cases s <;> simp only [PScheme.needsParent] at hp <;> first | rfl | exact absurd hp (by decide) | exact absurd hk' (by simp [SchemeKindOK]))
      (by cases s <;> simp only [PScheme.needsParent] at hp <;> first | (intro hh; cases hh) | exact absurd hp (by decide))
      pointIdsD q hq3 hqok 514
  · have hp' : (effectiveScheme scheme portable).needsParent = false := by simpa using hp
    have := encParentSource_noParent _ hp' _ _ _ hpos
    subst this
    refine runs_schemeBlock ch o attId kind nc n attComponents _ mdD pointIdsD parentD noPos portable bs' hk' ?_
      hnc hn hlen hd h32 hr hk3 hF hcorners (fun h => hcrease (effectiveScheme_cm _ _ h)) hbs
    generalize effectiveScheme scheme portable = s at *
    refine runs_parentSourcesEb_none _ ?_ pointIdsD parentD 514
    cases s <;> simp only [PScheme.needsParent] at hp' <;> first | rfl | (simp only [decScheme]; split <;> rfl) | exact absurd hp' (by decide)

end Draco.EbEnc
