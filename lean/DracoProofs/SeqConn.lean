import DracoProofs.SeqRuns
import DracoProofs.SeqLemmas
import DracoProofs.Tagged
/-
  Connectivity of the sequential mesh coder: `MeshSequentialDecoder::DecodeConnectivity` reads back
  `MeshSequentialEncoder::EncodeConnectivity` (raw u8 / u16 / varint / u32 indices and the
  entropy coded index differences).
-/
namespace Draco
open SeqEnc DecM

theorem triples_flattenFaces (faces : List (Nat × Nat × Nat)) : triples (flattenFaces faces) = faces := by
  induction faces with
  | nil => rfl
  | cons f fs ih =>
    obtain ⟨a, b, c⟩ := f
    unfold flattenFaces at ih ⊢
    simp only [List.flatMap_cons, List.cons_append, List.nil_append, triples, ih]

theorem flattenFaces_length (faces : List (Nat × Nat × Nat)) :
    (flattenFaces faces).length = 3 * faces.length := by
  induction faces with
  | nil => rfl
  | cons f fs ih =>
    unfold flattenFaces at ih ⊢
    simp only [List.flatMap_cons, List.length_append, ih, List.length_cons, List.length_nil]
    omega

theorem flattenFaces_lt (n : Nat) (faces : List (Nat × Nat × Nat))
    (h : faces.all (fun (a, b, c) => a < n && b < n && c < n) = true) :
    ∀ x ∈ flattenFaces faces, x < n := by
  intro x hx
  unfold flattenFaces at hx
  simp only [List.mem_flatMap] at hx
  obtain ⟨f, hf, hxf⟩ := hx
  have := List.all_eq_true.1 h f hf
  obtain ⟨a, b, c⟩ := f
  simp only [Bool.and_eq_true, decide_eq_true_eq] at this
  simp only [List.mem_cons, List.not_mem_nil, or_false] at hxf
  rcases hxf with rfl | rfl | rfl <;> omega

theorem indexSymbols_length : ∀ (idx : List Nat) (last : Int), (indexSymbols last idx).length = idx.length := by
  intro idx
  induction idx with
  | nil => intro _; rfl
  | cons x xs ih => intro last; simp [indexSymbols, ih]

theorem decompress_go_indexSymbols : ∀ (idx : List Nat) (last : Int) (acc : List Nat),
    0 ≤ last → last < 2 ^ 31 → (∀ x ∈ idx, x < 2 ^ 31) →
    decompressIndices.go (indexSymbols last idx) last acc = some (acc.reverse ++ idx) := by
  intro idx
  induction idx with
  | nil => intro last acc _ _ _; simp [indexSymbols, decompressIndices.go]
  | cons x xs ih =>
    intro last acc h0 h1 hx
    have hx31 : x < 2 ^ 31 := hx x (by simp)
    have hrec := fun acc' => ih (x : Int) acc' (by omega) (by omega) (fun y hy => hx y (by simp [hy]))
    simp only [indexSymbols, decompressIndices.go]
    by_cases hneg : (x : Int) - last < 0
    · simp only [hneg, if_true]
      have hna : ((x : Int) - last).natAbs = (last - x).toNat := by omega
      have hs : (2 * ((x : Int) - last).natAbs + 1) % 2 ^ 32 = 2 * (last - x).toNat + 1 := by
        rw [hna]; apply Nat.mod_eq_of_lt; omega
      rw [hs]
      have e1 : (2 * (last - (x:Int)).toNat + 1) % 2 = 1 := by omega
      have e2 : (2 * (last - (x:Int)).toNat + 1) / 2 = (last - (x:Int)).toNat := by omega
      simp only [e1, e2, beq_self_eq_true, if_true]
      have e3 : ¬ (((last - (x:Int)).toNat : Nat) : Int) > last := by omega
      simp only [e3, if_false]
      have e4 : last - (((last - (x:Int)).toNat : Nat) : Int) = (x : Int) := by omega
      rw [e4, hrec]
      simp
    · simp only [hneg, if_false]
      have hna : ((x : Int) - last).natAbs = ((x:Int) - last).toNat := by omega
      have hs : (2 * ((x : Int) - last).natAbs + 0) % 2 ^ 32 = 2 * ((x:Int) - last).toNat := by
        rw [hna]; apply Nat.mod_eq_of_lt; omega
      rw [hs]
      have e1 : (2 * ((x:Int) - last).toNat) % 2 = 0 := by omega
      have e2 : (2 * ((x:Int) - last).toNat) / 2 = ((x:Int) - last).toNat := by omega
      simp only [e1, e2]
      have e0 : ((0:Nat) == 1) = false := rfl
      simp only [e0, Bool.false_eq_true, if_false]
      have e3 : ¬ ((((x:Int) - last).toNat : Nat) : Int) > 2 ^ 31 - 1 - last := by omega
      simp only [e3, if_false]
      have e4 : last + ((((x:Int) - last).toNat : Nat) : Int) = (x : Int) := by omega
      rw [e4, hrec]
      simp

theorem decompressIndices_indexSymbols (idx : List Nat) (h : ∀ x ∈ idx, x < 2 ^ 31) :
    decompressIndices (indexSymbols 0 idx) = some idx := by
  unfold decompressIndices
  rw [decompress_go_indexSymbols idx 0 [] (by omega) (by omega) h]
  simp

theorem flatMap_length_ge {α : Type} (f : α → Bytes) (l : List α) (h : ∀ x ∈ l, 1 ≤ (f x).length) :
    l.length ≤ (l.flatMap f).length := by
  induction l with
  | nil => simp
  | cons x xs ih =>
    have := h x (by simp)
    have := ih (fun y hy => h y (by simp [hy]))
    simp only [List.flatMap_cons, List.length_append, List.length_cons]
    omega

theorem encVarint_length_pos' (x : Nat) : 1 ≤ (encVarint x).length := by
  unfold encVarint encVarintFuel
  split <;> simp

/-- **`seq_connectivity_roundtrip`** in `Runs` form: the decoder returns the number of points and
    the faces in order, and stops exactly behind the connectivity block -/
theorem runs_decodeSeqConnectivity (ch : Choices) (opts : EncOpts) (numPoints : Nat)
    (faces : List (Nat × Nat × Nat)) (bs : Bytes) (v : Nat) (hv : bsVersion 2 2 ≤ v)
    (hnf : faces.length ≤ 0xffffffff / 3) (hnp : numPoints < 2 ^ 31)
    (hvalid : faces.all (fun (a, b, c) => a < numPoints && b < numPoints && c < numPoints) = true)
    (henc : encodeConnectivity ch opts numPoints faces = some bs) :
    Runs decodeSeqConnectivity v bs (numPoints, faces) v := by
  have hidx := flattenFaces_lt numPoints faces hvalid
  have hlen := flattenFaces_length faces
  have htri := triples_flattenFaces faces
  have hall : ((flattenFaces faces).all fun x => decide (x < numPoints)) = true := by
    rw [List.all_eq_true]; intro x hx; simpa using hidx x hx
  unfold encodeConnectivity at henc
  simp only [] at henc
  rw [Nat.mod_eq_of_lt (by omega : faces.length < 2 ^ 32),
    Nat.mod_eq_of_lt (by omega : numPoints < 2 ^ 32)] at henc
  generalize hI : flattenFaces faces = idx at *
  unfold decodeSeqConnectivity
  refine Runs.bind0 (Runs.version v) ?_
  simp only []
  have hleg : ¬ v < bsVersion 2 2 := by omega
  rw [if_neg hleg]
  split at henc
  · -- compressed
    split at henc
    · cases henc
    · rename_i sb hsb
      simp only [Option.some.injEq] at henc
      subst henc
      rw [List.append_assoc]
      refine Runs.bind (Runs.varint32 _ v (by omega)) ?_
      rw [if_neg hleg]
      refine Runs.bind (Runs.varint32 _ v (by omega)) ?_
      refine Runs.bind0 (Runs.require (by simpa using hnf) v) ?_
      refine Runs.bind0 (Runs.declare _ v) ?_
      refine Runs.bind1 (Runs.rdU8 0 v) ?_
      refine Runs.remaining_bind (fun rem _ => ?_)
      rw [if_neg (by decide)]
      refine Runs.bind0 (Runs.alloc _ _ v) ?_
      rw [if_pos (by decide)]
      refine Runs.bind0 (Runs.alloc _ _ v) ?_
      have hsl : (indexSymbols 0 idx).length = faces.length * 3 := by
        rw [indexSymbols_length, hlen, Nat.mul_comm]
      refine Runs.bind' (Runs.lift (a := indexSymbols 0 idx) (fun extra => ?_) v) (List.append_nil _).symm ?_
      · rw [← hsl]
        exact symbols_roundtrip_aux ch.oracle ch.connScheme 7 1 _ sb (by decide)
          (by rw [hsl]; omega) hsb extra
      refine Runs.bind0 (Runs.ofOption (decompressIndices_indexSymbols idx
        (fun x hx => by have := hidx x hx; omega)) v) ?_
      refine Runs.bind0 (Runs.require hall v) ?_
      rw [htri]
      exact Runs.pure _ v
  · -- raw indices
    simp only [Option.some.injEq] at henc
    subst henc
    have h3 : 3 * faces.length = idx.length := hlen.symm
    -- every index takes at least one byte
    have hbody : ∀ body : Bytes, idx.length ≤ body.length →
        ∀ rem, body.length ≤ rem → (decide (faces.length ≤ rem / 3)) = true := by
      intro body hb rem hr
      simp only [decide_eq_true_eq]
      omega
    rw [List.append_assoc]
    refine Runs.bind (Runs.varint32 _ v (by omega)) ?_
    rw [if_neg hleg]
    refine Runs.bind (Runs.varint32 _ v (by omega)) ?_
    refine Runs.bind0 (Runs.require (by simpa using hnf) v) ?_
    refine Runs.bind0 (Runs.declare _ v) ?_
    refine Runs.bind1 (Runs.rdU8 1 v) ?_
    by_cases c1 : numPoints < 256
    · simp only [c1, if_true]
      refine Runs.remaining_bind (fun rem hrem => ?_)
      rw [if_pos (by decide)]
      refine Runs.bind0 (Runs.require (hbody _ (by simp) rem hrem) v) ?_
      refine Runs.bind0 (Runs.alloc _ _ v) ?_
      rw [if_neg (by decide), h3]
      have e : idx.map (· % 256) = (idx.map fun x => [x % 256]).flatten := by
        clear hbody hrem hall htri hidx hI hlen h3
        induction idx with
        | nil => rfl
        | cons x xs ih => simp [ih]
      rw [e]
      refine Runs.bind' (Runs.of_eq (a' := idx) (Runs.replicateM'_map idx (fun x => [x % 256]) id
        (fun x hx => by
          have : x % 256 = x := Nat.mod_eq_of_lt (by have := hidx x hx; omega)
          rw [this]; exact Runs.rdU8 x v)) rfl rfl (List.map_id idx)) (List.append_nil _).symm ?_
      refine Runs.bind0 (Runs.require hall v) ?_
      rw [htri]
      exact Runs.pure _ v
    · simp only [c1, if_false]
      by_cases c2 : numPoints < 2 ^ 16
      · simp only [c2, if_true]
        refine Runs.remaining_bind (fun rem hrem => ?_)
        rw [if_pos (by decide)]
        refine Runs.bind0 (Runs.require (hbody _ (flatMap_length_ge _ idx
          (fun x _ => by rw [writeLE_length]; omega)) rem hrem) v) ?_
        refine Runs.bind0 (Runs.alloc _ _ v) ?_
        rw [if_neg (by decide), h3, List.flatMap_def]
        refine Runs.bind' (Runs.of_eq (a' := idx) (Runs.replicateM'_map idx (writeLE 2) id
          (fun x hx => Runs.rdU16 x v (by have := hidx x hx; omega))) rfl rfl (List.map_id idx))
          (List.append_nil _).symm ?_
        refine Runs.bind0 (Runs.require hall v) ?_
        rw [htri]
        exact Runs.pure _ v
      · simp only [c2, if_false]
        by_cases c3 : numPoints < 2 ^ 21
        · have hc : (decide (numPoints < 2 ^ 21) && !decide (v < bsVersion 2 2)) = true := by
            rw [decide_eq_true c3, decide_eq_false hleg]; rfl
          rw [if_pos c3]
          simp only [hc, if_true]
          refine Runs.remaining_bind (fun rem hrem => ?_)
          rw [if_pos (by decide)]
          refine Runs.bind0 (Runs.require (hbody _ (flatMap_length_ge _ idx
            (fun x _ => encVarint_length_pos' _)) rem hrem) v) ?_
          refine Runs.bind0 (Runs.alloc _ _ v) ?_
          rw [if_neg (by decide), h3, List.flatMap_def]
          refine Runs.bind' (Runs.of_eq (a' := idx) (Runs.replicateM'_map idx
            (fun v => encVarint (v % 2 ^ 32)) id
            (fun x hx => by
              have : x % 2 ^ 32 = x := Nat.mod_eq_of_lt (by have := hidx x hx; omega)
              rw [this]
              exact Runs.varint32 x v (by have := hidx x hx; omega))) rfl rfl (List.map_id idx))
            (List.append_nil _).symm ?_
          refine Runs.bind0 (Runs.require hall v) ?_
          rw [htri]
          exact Runs.pure _ v
        · have hc : (decide (numPoints < 2 ^ 21) && !decide (v < bsVersion 2 2)) = false := by
            rw [decide_eq_false c3]; rfl
          rw [if_neg c3]
          simp only [hc, Bool.false_eq_true, if_false]
          refine Runs.remaining_bind (fun rem hrem => ?_)
          rw [if_pos (by decide)]
          refine Runs.bind0 (Runs.require (hbody _ (flatMap_length_ge _ idx
            (fun x _ => by rw [writeLE_length]; omega)) rem hrem) v) ?_
          refine Runs.bind0 (Runs.alloc _ _ v) ?_
          rw [if_neg (by decide), h3, List.flatMap_def]
          refine Runs.bind' (Runs.of_eq (a' := idx) (Runs.replicateM'_map idx (writeLE 4) id
            (fun x hx => Runs.rdU32 x v (by have := hidx x hx; omega))) rfl rfl (List.map_id idx))
            (List.append_nil _).symm ?_
          refine Runs.bind0 (Runs.require hall v) ?_
          rw [htri]
          exact Runs.pure _ v

end Draco
