import DracoModel.Octahedron
/-
  DracoProofs.Octahedron — integer part of octahedral normal coding (C07) and the
  (canonicalized and legacy) octahedral prediction transforms (C16).
-/
namespace Draco
namespace Octa

/-! ### basic arithmetic -/

theorem tdiv2_two_mul (k : Int) : tdiv2 (2 * k) = k := by
  unfold tdiv2
  exact Int.mul_tdiv_cancel_left k (by decide)

theorem iabs_nonneg (x : Int) : 0 ≤ iabs x := by unfold iabs; split <;> omega

/-- every initialised tool box is well formed -/
theorem init_wf {q : Nat} {t : OctaT} (h : init q = some t) : t.WF ∧ t.q = q := by
  unfold init at h
  split at h
  · cases h
  · rename_i hq
    simp only [Option.some.injEq] at h
    subst h
    have h2 : 2 ≤ q := by omega
    have h30 : q ≤ 30 := by omega
    obtain ⟨k, rfl⟩ : ∃ k, q = k + 2 := ⟨q - 2, by omega⟩
    have hk : k ≤ 28 := by omega
    have hp : (2:Int)^(k+2) = 4 * 2^k := by rw [Int.pow_add]; omega
    have hc : (2:Int)^k = ((2^k : Nat) : Int) := by simp
    have hpos : 1 ≤ 2^k := Nat.one_le_two_pow
    have hle : 2^k ≤ 2^28 := Nat.pow_le_pow_right (by decide) hk
    unfold OctaT.WF
    dsimp only
    rw [hp, hc]
    refine ⟨⟨?_, ?_, ?_, ?_⟩, rfl⟩ <;> omega

/-! ### InvertDiamond -/

/-- closed form of `InvertDiamond` on the box `[-c, c]²` (coordinates relative to the center):
    the reflection of each of the four quadrant triangles along its diagonal diamond edge -/
def invD (c : Int) (p : Int × Int) : Int × Int :=
  if p.1 ≥ 0 ∧ p.2 ≥ 0 then (c - p.2, c - p.1)
  else if p.1 ≤ 0 ∧ p.2 ≤ 0 then (-c - p.2, -c - p.1)
  else if p.1 > 0 then (p.2 + c, p.1 - c)
  else (p.2 - c, p.1 + c)

/-- `InvertDiamond` (uint32 reflection, conversion to int32, truncating `/2`) equals its closed
    form on the box — in particular nothing wraps and every halved value is even. -/
theorem invertDiamond_closed_form (t : OctaT) (hc : t.center < 2^29) (p : Int × Int)
    (h1 : -t.center ≤ p.1) (h2 : p.1 ≤ t.center) (h3 : -t.center ≤ p.2) (h4 : p.2 ≤ t.center) :
    invertDiamond t p = invD t.center p := by
  obtain ⟨s, tt⟩ := p
  unfold invertDiamond invD
  dsimp only at *
  generalize t.center = c at *
  by_cases hpp : s ≥ 0 ∧ tt ≥ 0
  · simp only [hpp, and_self, if_true]
    refine Prod.ext ?_ ?_
    · dsimp only; rw [← tdiv2_two_mul (c - tt)]; congr 1
      unfold s32 u32; split <;> omega
    · dsimp only; rw [← tdiv2_two_mul (c - s)]; congr 1
      unfold s32 u32; split <;> omega
  · by_cases hnn : s ≤ 0 ∧ tt ≤ 0
    · simp only [hpp, hnn, and_self, if_true, if_false]
      refine Prod.ext ?_ ?_
      · dsimp only; rw [← tdiv2_two_mul (-c - tt)]; congr 1
        unfold s32 u32; split <;> omega
      · dsimp only; rw [← tdiv2_two_mul (-c - s)]; congr 1
        unfold s32 u32; split <;> omega
    · by_cases hs : s > 0
      · have ht : ¬ tt > 0 := by omega
        simp only [hpp, hnn, hs, ht, if_true, if_false]
        refine Prod.ext ?_ ?_
        · dsimp only; rw [← tdiv2_two_mul (tt + c)]; congr 1
          unfold s32 u32; split <;> omega
        · dsimp only; rw [← tdiv2_two_mul (s - c)]; congr 1
          unfold s32 u32; split <;> omega
      · have ht : tt > 0 := by omega
        simp only [hpp, hnn, hs, ht, if_true, if_false]
        refine Prod.ext ?_ ?_
        · dsimp only; rw [← tdiv2_two_mul (tt - c)]; congr 1
          unfold s32 u32; split <;> omega
        · dsimp only; rw [← tdiv2_two_mul (s + c)]; congr 1
          unfold s32 u32; split <;> omega

/-- the box `[-c, c]²` of center-relative coordinates -/
def InBox (c : Int) (p : Int × Int) : Prop := -c ≤ p.1 ∧ p.1 ≤ c ∧ -c ≤ p.2 ∧ p.2 ≤ c

/-- canonical points in center-relative coordinates: the three corners other than `(c, c)` are
    excluded and on each edge of the square only the half next to the top-right / bottom-left
    quadrant is kept -/
def CanonC (c : Int) (p : Int × Int) : Prop :=
  ¬(p.1 = -c ∧ p.2 = -c) ∧ ¬(p.1 = -c ∧ p.2 = c) ∧ ¬(p.1 = c ∧ p.2 = -c) ∧
  (p.1 = -c → p.2 ≤ 0) ∧ (p.1 = c → 0 ≤ p.2) ∧ (p.2 = c → 0 ≤ p.1) ∧ (p.2 = -c → p.1 ≤ 0)

theorem invD_inBox (c : Int) (p : Int × Int) (h : InBox c p) : InBox c (invD c p) := by
  obtain ⟨s, tt⟩ := p
  unfold InBox invD at *
  dsimp only at *
  (repeat' split) <;> dsimp only <;> omega

/-- `InvertDiamond` is an involution on canonical points (it is NOT on the non-canonical half
    edges: `(3,-1) ↦ (2,0) ↦ (3,1)` for `c = 3`) -/
theorem invD_invD (c : Int) (hc : 1 ≤ c) (p : Int × Int) (hb : InBox c p) (hcan : CanonC c p) :
    invD c (invD c p) = p := by
  obtain ⟨s, tt⟩ := p
  unfold InBox CanonC at *
  dsimp only at *
  unfold invD
  dsimp only
  by_cases h1 : s ≥ 0 ∧ tt ≥ 0
  · simp only [h1, and_self, if_true]
    have : c - tt ≥ 0 ∧ c - s ≥ 0 := by omega
    simp only [this, and_self, if_true]
    refine Prod.ext ?_ ?_ <;> dsimp only <;> omega
  · by_cases h2 : s ≤ 0 ∧ tt ≤ 0
    · simp only [h1, h2, and_self, if_true, if_false]
      have a : ¬ (-c - tt ≥ 0 ∧ -c - s ≥ 0) := by omega
      have b : -c - tt ≤ 0 ∧ -c - s ≤ 0 := by omega
      simp only [a, b, and_self, if_true, if_false]
      refine Prod.ext ?_ ?_ <;> dsimp only <;> omega
    · by_cases h3 : s > 0
      · simp only [h1, h2, h3, if_true, if_false]
        have a : ¬ (tt + c ≥ 0 ∧ s - c ≥ 0) := by omega
        have b : ¬ (tt + c ≤ 0 ∧ s - c ≤ 0) := by omega
        have d : tt + c > 0 := by omega
        simp only [a, b, d, if_true, if_false]
        refine Prod.ext ?_ ?_ <;> dsimp only <;> omega
      · simp only [h1, h2, h3, if_false]
        have a : ¬ (tt - c ≥ 0 ∧ s + c ≥ 0) := by omega
        have b : ¬ (tt - c ≤ 0 ∧ s + c ≤ 0) := by omega
        have d : ¬ tt - c > 0 := by omega
        simp only [a, b, d, if_false]
        refine Prod.ext ?_ ?_ <;> dsimp only <;> omega

/-- `IsInDiamond` on the box: no uint32 wrap -/
theorem isInDiamond_box (t : OctaT) (hc : t.center < 2^29) (p : Int × Int)
    (hb : InBox t.center p) :
    isInDiamond t p.1 p.2 = decide (iabs p.1 + iabs p.2 ≤ t.center) := by
  obtain ⟨s, tt⟩ := p
  unfold InBox at hb
  unfold isInDiamond u32 iabs
  dsimp only at *
  congr 1
  apply propext
  (repeat' split) <;> omega

/-! ### rotations, ModMax, MakePositive -/

theorem rotationCount_le (p : Int × Int) : rotationCount p ≤ 3 := by
  unfold rotationCount
  dsimp only
  (repeat' split) <;> omega

theorem rotate_inverse (o : Int × Int) (r : Nat) (hr : r ≤ 3) :
    rotatePoint (rotatePoint o r) ((4 - r) % 4) = o := by
  have : r = 0 ∨ r = 1 ∨ r = 2 ∨ r = 3 := by omega
  rcases this with rfl | rfl | rfl | rfl <;> simp [rotatePoint]

theorem rotate_inBox (c : Int) (o : Int × Int) (r : Nat) (h : InBox c o) :
    InBox c (rotatePoint o r) := by
  unfold InBox at *
  unfold rotatePoint
  split <;> (try dsimp only) <;> omega

/-- the scalar heart of both octahedral transforms: `ModMax(pred + MakePositive(orig − pred))`
    is `orig` and the correction lies in `[0, 2c]`. -/
theorem modMax_makePositive (t : OctaT) (hwf : t.WF) (a b : Int)
    (ha1 : -t.center ≤ a) (ha2 : a ≤ t.center) (hb1 : -t.center ≤ b) (hb2 : b ≤ t.center) :
    modMax t (wrap32 (b + makePositive t (a - b))) = a ∧
      0 ≤ makePositive t (a - b) ∧ makePositive t (a - b) ≤ t.maxV := by
  obtain ⟨hV, hQ, h1, h29⟩ := hwf
  unfold modMax makePositive wrap32
  rw [hV, hQ]
  generalize t.center = c at *
  refine ⟨?_, ?_, ?_⟩ <;> (repeat' split) <;> omega

/-- the encoder in `MeshPredictionSchemeGeometricNormalEncoder` applies `ModMax` and then
    `MakePositive` to a correction: that is the identity on `[0, 2c]` -/
theorem makePositive_modMax (t : OctaT) (hwf : t.WF) (x : Int) (h0 : 0 ≤ x) (h1 : x ≤ t.maxV) :
    makePositive t (modMax t x) = x := by
  obtain ⟨hV, hQ, hc1, h29⟩ := hwf
  unfold modMax makePositive
  rw [hV] at h1
  rw [hQ]
  generalize t.center = c at *
  (repeat' split) <;> omega

/-! ### canonical points -/

/-- explicit description of canonical grid points -/
theorem canonical_iff (t : OctaT) (hwf : t.WF) (p : Int × Int) (hg : inGrid t p) :
    canonical t p ↔ CanonC t.center (p.1 - t.center, p.2 - t.center) := by
  obtain ⟨hV, hQ, h1, h29⟩ := hwf
  obtain ⟨s, tt⟩ := p
  unfold canonical canonicalize CanonC inGrid at *
  dsimp only at *
  rw [hV] at *
  generalize t.center = c at *
  constructor
  · intro h
    (repeat' split at h) <;> simp only [Prod.mk.injEq] at h <;> omega
  · intro h
    (repeat' split) <;> simp only [Prod.mk.injEq] <;> omega

/-- C07: `CanonicalizeOctahedralCoords` produces a canonical point of the grid -/
theorem canonicalize_canonical (t : OctaT) (hwf : t.WF) (p : Int × Int) (hg : inGrid t p) :
    canonical t (canonicalize t p) ∧ inGrid t (canonicalize t p) := by
  obtain ⟨hV, hQ, h1, h29⟩ := hwf
  obtain ⟨s, tt⟩ := p
  unfold inGrid at hg
  dsimp only at hg
  rw [hV] at hg
  have key : ∀ q : Int × Int, canonicalize t (s, tt) = q →
      canonical t q ∧ inGrid t q := by
    intro q hq
    unfold canonicalize at hq
    dsimp only at hq
    unfold canonical canonicalize inGrid
    rw [hV] at *
    generalize t.center = c at *
    (repeat' split at hq) <;> subst hq <;> dsimp only <;>
      (refine ⟨?_, ?_⟩) <;> (try omega) <;>
      ((repeat' split) <;> simp only [Prod.mk.injEq] <;> omega)
  exact key _ rfl

theorem canonicalize_idempotent (t : OctaT) (hwf : t.WF) (p : Int × Int) (hg : inGrid t p) :
    canonicalize t (canonicalize t p) = canonicalize t p :=
  (canonicalize_canonical t hwf p hg).1

/-- C07, integer half: the octahedral coordinates of an integer vector of L1 norm `c` lie in the
    square `[0, 2c]²` and are canonical -/
theorem intVecToCoords_inGrid_canonical (t : OctaT) (hwf : t.WF) (v : Int × Int × Int)
    (hsum : iabs v.1 + iabs v.2.1 + iabs v.2.2 = t.center) :
    inGrid t (intVecToCoords t v) ∧ canonical t (intVecToCoords t v) := by
  obtain ⟨x, y, z⟩ := v
  dsimp only at hsum
  have hV := hwf.1
  have pre : ∀ p, inGrid t p → inGrid t (canonicalize t p) ∧ canonical t (canonicalize t p) :=
    fun p hp => ⟨(canonicalize_canonical t hwf p hp).2, (canonicalize_canonical t hwf p hp).1⟩
  unfold intVecToCoords
  dsimp only
  split
  · apply pre
    unfold inGrid; unfold iabs at hsum; dsimp only; rw [hV]
    (repeat' split at hsum) <;> omega
  · apply pre
    unfold inGrid; unfold iabs at *; dsimp only; rw [hV]
    (repeat' split at hsum) <;> (repeat' split) <;> omega

/-- the integer tail of `FloatVectorToQuantizedOctahedralCoords` always produces a vector of L1
    norm `c`, whatever the float rounding produced, as long as `|i0| ≤ c` -/
theorem fixIntVec_abs_sum (t : OctaT) (i0 i1 : Int) (zNeg : Bool) (h0 : iabs i0 ≤ t.center) :
    let v := fixIntVec t i0 i1 zNeg
    iabs v.1 + iabs v.2.1 + iabs v.2.2 = t.center := by
  unfold fixIntVec iabs at *
  dsimp only
  generalize t.center = c at *
  cases zNeg <;> simp only [Bool.false_eq_true, if_true, if_false] <;>
    (repeat' split at h0) <;> (repeat' split) <;> omega

/-! ### the canonicalized transform -/

/-- encoder stage after the diamond inversion: rotation into the bottom-left quadrant and the
    positive difference -/
def encRot (t : OctaT) (o p : Int × Int) : Int × Int :=
  let inBL := isInBottomLeft p
  let rc := rotationCount p
  let o := if !inBL then rotatePoint o rc else o
  let p := if !inBL then rotatePoint p rc else p
  (makePositive t (o.1 - p.1), makePositive t (o.2 - p.2))

/-- decoder stage between the two diamond inversions -/
def decRot (t : OctaT) (p corr : Int × Int) : Int × Int :=
  let inBL := isInBottomLeft p
  let rc := rotationCount p
  let p := if !inBL then rotatePoint p rc else p
  let orig : Int × Int :=
    (modMax t (wrap32 (p.1 + corr.1)), modMax t (wrap32 (p.2 + corr.2)))
  if !inBL then rotatePoint orig ((4 - rc) % 4) else orig

theorem encCorr_eq (t : OctaT) (orig pred : Int × Int) :
    encCorr t orig pred =
      let o : Int × Int := (orig.1 - t.center, orig.2 - t.center)
      let p : Int × Int := (pred.1 - t.center, pred.2 - t.center)
      let inD := isInDiamond t p.1 p.2
      encRot t (if !inD then invertDiamond t o else o) (if !inD then invertDiamond t p else p) :=
  rfl

theorem decOrig_eq (t : OctaT) (pred corr : Int × Int) :
    decOrig t pred corr =
      let p : Int × Int := (pred.1 - t.center, pred.2 - t.center)
      let inD := isInDiamond t p.1 p.2
      let o := decRot t (if !inD then invertDiamond t p else p) corr
      let o := if !inD then invertDiamond t o else o
      (o.1 + t.center, o.2 + t.center) :=
  rfl

theorem rot_roundtrip (t : OctaT) (hwf : t.WF) (o p : Int × Int)
    (ho : InBox t.center o) (hp : InBox t.center p) :
    decRot t p (encRot t o p) = o ∧
      0 ≤ (encRot t o p).1 ∧ (encRot t o p).1 ≤ t.maxV ∧
      0 ≤ (encRot t o p).2 ∧ (encRot t o p).2 ≤ t.maxV := by
  have hr := rotationCount_le p
  -- the rotated points
  have key : ∀ o' p' : Int × Int, InBox t.center o' → InBox t.center p' →
      (modMax t (wrap32 (p'.1 + makePositive t (o'.1 - p'.1))),
       modMax t (wrap32 (p'.2 + makePositive t (o'.2 - p'.2)))) = o' ∧
      0 ≤ makePositive t (o'.1 - p'.1) ∧ makePositive t (o'.1 - p'.1) ≤ t.maxV ∧
      0 ≤ makePositive t (o'.2 - p'.2) ∧ makePositive t (o'.2 - p'.2) ≤ t.maxV := by
    intro o' p' ho' hp'
    obtain ⟨a1, a2, a3, a4⟩ := ho'
    obtain ⟨b1, b2, b3, b4⟩ := hp'
    obtain ⟨e1, e2, e3⟩ := modMax_makePositive t hwf o'.1 p'.1 a1 a2 b1 b2
    obtain ⟨f1, f2, f3⟩ := modMax_makePositive t hwf o'.2 p'.2 a3 a4 b3 b4
    exact ⟨Prod.ext e1 f1, e2, e3, f2, f3⟩
  unfold decRot encRot
  dsimp only
  cases hbl : isInBottomLeft p
  · simp only [Bool.not_false, if_true]
    obtain ⟨k1, k2⟩ := key (rotatePoint o (rotationCount p)) (rotatePoint p (rotationCount p))
      (rotate_inBox _ _ _ ho) (rotate_inBox _ _ _ hp)
    rw [k1]
    exact ⟨rotate_inverse o _ hr, k2⟩
  · simp only [Bool.not_true, Bool.false_eq_true, if_false]
    exact key o p ho hp

theorem inGrid_inBox (t : OctaT) (hwf : t.WF) (p : Int × Int) (h : inGrid t p) :
    InBox t.center (p.1 - t.center, p.2 - t.center) := by
  unfold inGrid at h; unfold InBox; rw [hwf.1] at h; dsimp only; omega

/-- the whole pipeline in center-relative coordinates -/
theorem centered_roundtrip (t : OctaT) (hwf : t.WF) (o p : Int × Int)
    (hoB : InBox t.center o) (hpB : InBox t.center p) (hcanC : CanonC t.center o) :
    ∀ inD : Bool, inD = isInDiamond t p.1 p.2 →
    (if !inD then
        invertDiamond t (decRot t (if !inD then invertDiamond t p else p)
          (encRot t (if !inD then invertDiamond t o else o) (if !inD then invertDiamond t p else p)))
      else decRot t (if !inD then invertDiamond t p else p)
          (encRot t (if !inD then invertDiamond t o else o) (if !inD then invertDiamond t p else p)))
      = o ∧
    inGrid t (encRot t (if !inD then invertDiamond t o else o)
      (if !inD then invertDiamond t p else p)) := by
  have hc29 := hwf.2.2.2
  have hc1 := hwf.2.2.1
  intro inD _
  cases inD
  · simp only [Bool.not_false, if_true]
    rw [invertDiamond_closed_form t hc29 o hoB.1 hoB.2.1 hoB.2.2.1 hoB.2.2.2,
      invertDiamond_closed_form t hc29 p hpB.1 hpB.2.1 hpB.2.2.1 hpB.2.2.2]
    have hio := invD_inBox t.center o hoB
    have hip := invD_inBox t.center p hpB
    obtain ⟨r1, r2⟩ := rot_roundtrip t hwf _ _ hio hip
    rw [r1, invertDiamond_closed_form t hc29 _ hio.1 hio.2.1 hio.2.2.1 hio.2.2.2,
      invD_invD t.center hc1 o hoB hcanC]
    exact ⟨rfl, r2⟩
  · simp only [Bool.not_true, Bool.false_eq_true, if_false]
    obtain ⟨r1, r2⟩ := rot_roundtrip t hwf o p hoB hpB
    rw [r1]
    exact ⟨rfl, r2⟩

/-- C16, canonicalized octahedral transform: exact round trip for every canonical original and
    every predicted point of the grid; corrections lie in `[0, max_value_]²`. -/
theorem octa_roundtrip_wf (t : OctaT) (hwf : t.WF) (orig pred : Int × Int)
    (hcan : canonical t orig) (ho : inGrid t orig) (hp : inGrid t pred) :
    decOrig t pred (encCorr t orig pred) = orig ∧ inGrid t (encCorr t orig pred) := by
  have hoB := inGrid_inBox t hwf orig ho
  have hpB := inGrid_inBox t hwf pred hp
  have hcanC := (canonical_iff t hwf orig ho).1 hcan
  have h := centered_roundtrip t hwf _ _ hoB hpB hcanC _ rfl
  rw [decOrig_eq, encCorr_eq]
  dsimp only at h ⊢
  obtain ⟨e, b⟩ := h
  refine ⟨?_, b⟩
  rw [e]
  refine Prod.ext ?_ ?_ <;> dsimp only <;> omega

/-! ### the legacy (non canonicalized) transform -/

/-- C16 for the legacy transform (decoder kept for bitstreams < 2.2): same statement -/
theorem legacy_roundtrip_wf (t : OctaT) (hwf : t.WF) (orig pred : Int × Int)
    (hcan : canonical t orig) (ho : inGrid t orig) (hp : inGrid t pred) :
    legacyDecOrig t pred (legacyEncCorr t orig pred) = orig ∧
      inGrid t (legacyEncCorr t orig pred) := by
  have hc29 := hwf.2.2.2
  have hc1 := hwf.2.2.1
  have hV := hwf.1
  have hoB := inGrid_inBox t hwf orig ho
  have hpB := inGrid_inBox t hwf pred hp
  have hcanC := (canonical_iff t hwf orig ho).1 hcan
  have w1 : wrap32 (pred.1 - t.center) = pred.1 - t.center := by
    unfold inGrid at hp; unfold wrap32; omega
  have w2 : wrap32 (pred.2 - t.center) = pred.2 - t.center := by
    unfold inGrid at hp; unfold wrap32; omega
  have wo : ∀ x, 0 ≤ x → x ≤ t.maxV → wrap32 (x - t.center + t.center) = x := by
    intro x h0 h1; unfold wrap32; omega
  -- scalar step on a pair of boxed points
  have key : ∀ o' p' : Int × Int, InBox t.center o' → InBox t.center p' →
      ((modMax t (wrap32 (p'.1 + makePositive t (o'.1 - p'.1))),
        modMax t (wrap32 (p'.2 + makePositive t (o'.2 - p'.2)))) : Int × Int) = o' ∧
      inGrid t (makePositive t (o'.1 - p'.1), makePositive t (o'.2 - p'.2)) := by
    intro o' p' ho' hp'
    obtain ⟨a1, a2, a3, a4⟩ := ho'
    obtain ⟨b1, b2, b3, b4⟩ := hp'
    obtain ⟨e1, e2, e3⟩ := modMax_makePositive t hwf o'.1 p'.1 a1 a2 b1 b2
    obtain ⟨f1, f2, f3⟩ := modMax_makePositive t hwf o'.2 p'.2 a3 a4 b3 b4
    exact ⟨Prod.ext e1 f1, e2, e3, f2, f3⟩
  have fin : ((wrap32 (orig.1 - t.center + t.center), wrap32 (orig.2 - t.center + t.center))
      : Int × Int) = orig := by
    unfold inGrid at ho
    exact Prod.ext (wo _ ho.1 ho.2.1) (wo _ ho.2.2.1 ho.2.2.2)
  unfold legacyDecOrig legacyEncCorr
  dsimp only
  rw [w1, w2]
  cases hD : isInDiamond t (pred.1 - t.center) (pred.2 - t.center)
  · simp only [Bool.not_false, if_true]
    rw [invertDiamond_closed_form t hc29 _ hoB.1 hoB.2.1 hoB.2.2.1 hoB.2.2.2,
      invertDiamond_closed_form t hc29 _ hpB.1 hpB.2.1 hpB.2.2.1 hpB.2.2.2]
    have hio := invD_inBox t.center _ hoB
    have hip := invD_inBox t.center _ hpB
    obtain ⟨r1, r2⟩ := key _ _ hio hip
    rw [r1, invertDiamond_closed_form t hc29 _ hio.1 hio.2.1 hio.2.2.1 hio.2.2.2,
      invD_invD t.center hc1 _ hoB hcanC]
    exact ⟨fin, r2⟩
  · simp only [Bool.not_true, Bool.false_eq_true, if_false]
    obtain ⟨r1, r2⟩ := key _ _ hoB hpB
    dsimp only at r1 r2
    obtain ⟨q1, q2⟩ := Prod.mk.inj r1
    rw [q1, q2]
    exact ⟨fin, r2⟩

/-! ### CanonicalizeIntegerVector -/

theorem iabs_eq_natAbs (x : Int) : iabs x = (x.natAbs : Int) := by
  unfold iabs; split <;> omega

theorem div_sum_le (a b z c : Nat) (hS : 0 < a + b + z) :
    (a * c) / (a + b + z) + (b * c) / (a + b + z) ≤ c := by
  have h1 := Nat.div_mul_le_self (a * c) (a + b + z)
  have h2 := Nat.div_mul_le_self (b * c) (a + b + z)
  have h3 : ((a * c) / (a + b + z) + (b * c) / (a + b + z)) * (a + b + z) ≤ c * (a + b + z) := by
    rw [Nat.add_mul]
    have : a * c + b * c ≤ c * (a + b + z) := by
      rw [Nat.mul_add, Nat.mul_add, Nat.mul_comm c a, Nat.mul_comm c b]
      exact Nat.le_add_right _ _
    omega
  exact Nat.le_of_mul_le_mul_right h3 hS

/-- `CanonicalizeIntegerVector` always returns a vector of L1 norm `center_value_` (this is what
    the geometric normal predictor feeds to `IntegerVectorToQuantizedOctahedralCoords`) -/
theorem canonicalizeIntVec_abs_sum (t : OctaT) (hc : 0 ≤ t.center) (v : Int × Int × Int) :
    iabs (canonicalizeIntVec t v).1 + iabs (canonicalizeIntVec t v).2.1
      + iabs (canonicalizeIntVec t v).2.2 = t.center := by
  obtain ⟨x, y, z⟩ := v
  unfold canonicalizeIntVec
  dsimp only
  split
  · rename_i h0
    dsimp only
    have hx := iabs_nonneg x; have hy := iabs_nonneg y; have hz := iabs_nonneg z
    have : iabs y = 0 := by omega
    have : iabs z = 0 := by omega
    have : iabs t.center = t.center := by unfold iabs; split <;> omega
    omega
  · rename_i h0
    dsimp only
    generalize hx' : Int.tdiv (x * t.center) (iabs x + iabs y + iabs z) = x' at *
    generalize hy' : Int.tdiv (y * t.center) (iabs x + iabs y + iabs z) = y' at *
    have hS : 0 < x.natAbs + y.natAbs + z.natAbs := by
      simp only [iabs_eq_natAbs] at h0; omega
    have eS : (iabs x + iabs y + iabs z).natAbs = x.natAbs + y.natAbs + z.natAbs := by
      simp only [iabs_eq_natAbs]; omega
    have ex : x'.natAbs = (x.natAbs * t.center.natAbs) / (x.natAbs + y.natAbs + z.natAbs) := by
      rw [← hx', Int.natAbs_tdiv, Int.natAbs_mul, eS]; rfl
    have ey : y'.natAbs = (y.natAbs * t.center.natAbs) / (x.natAbs + y.natAbs + z.natAbs) := by
      rw [← hy', Int.natAbs_tdiv, Int.natAbs_mul, eS]; rfl
    have keyN : x'.natAbs + y'.natAbs ≤ t.center.natAbs := by
      rw [ex, ey]; exact div_sum_le _ _ _ _ hS
    have key : iabs x' + iabs y' ≤ t.center := by
      rw [iabs_eq_natAbs, iabs_eq_natAbs]; omega
    have hx := iabs_nonneg x'; have hy := iabs_nonneg y'
    split <;> (unfold iabs at *; (repeat' split) <;> omega)

end Octa
end Draco
