import DracoProofs.SymbolCoding
import DracoProofs.BitRead
/-
  Tagged scheme: `DecodeTaggedSymbols` reads back `EncodeTaggedSymbols`.
-/
namespace Draco

/-! ### chunks -/

theorem chunksOfTR_eq (c : Nat) : ∀ (f : Nat) (l : List Nat) (acc : List (List Nat)),
    chunksOfTR c f l acc = acc.reverse ++ chunksOf c f l := by
  intro f
  induction f with
  | zero => intro l acc; simp [chunksOfTR, chunksOf]
  | succ f ih =>
    intro l acc
    simp only [chunksOfTR, chunksOf]
    split
    · simp
    · rw [ih]; simp

theorem chunksOf_spec (c : Nat) (hc : 0 < c) : ∀ (m f : Nat) (l : List Nat), l.length = m * c → m ≤ f →
    (chunksOf c f l).flatten = l ∧ (∀ g ∈ chunksOf c f l, g.length = c) ∧
      (chunksOf c f l).length = m := by
  intro m
  induction m with
  | zero =>
    intro f l hl _
    have : l = [] := List.length_eq_zero_iff.mp (by simpa using hl)
    subst this
    cases f <;> simp [chunksOf]
  | succ m ih =>
    intro f l hl hf
    obtain ⟨f, rfl⟩ : ∃ f', f = f' + 1 := ⟨f - 1, by omega⟩
    have hlen : c ≤ l.length := by
      rw [hl, Nat.succ_mul]; omega
    have hne : l.isEmpty = false := by
      cases l with
      | nil => simp at hlen; omega
      | cons _ _ => rfl
    have hd : (l.drop c).length = m * c := by
      simp only [List.length_drop, hl, Nat.succ_mul]; omega
    obtain ⟨h1, h2, h3⟩ := ih f (l.drop c) hd (by omega)
    simp only [chunksOf, hne, Bool.false_eq_true, if_false, List.flatten_cons, h1,
      List.take_append_drop, List.length_cons, h3, List.mem_cons, true_and]
    refine ⟨?_, trivial⟩
    intro g hg
    rcases hg with rfl | hg
    · simp [List.length_take]; omega
    · exact h2 g hg

/-! ### bounds -/

theorem foldl_max_ge : ∀ (l : List Nat) (a : Nat), a ≤ l.foldl max a ∧ ∀ v ∈ l, v ≤ l.foldl max a := by
  intro l
  induction l with
  | nil => intro a; simp
  | cons x l ih =>
    intro a
    obtain ⟨h1, h2⟩ := ih (max a x)
    simp only [List.foldl_cons]
    refine ⟨by omega, ?_⟩
    intro v hv
    rcases List.mem_cons.mp hv with rfl | hv
    · omega
    · exact h2 v hv

theorem le_listMax (l : List Nat) (v : Nat) (h : v ∈ l) : v ≤ listMax l :=
  (foldl_max_ge l 0).2 v h

theorem lt_two_pow_bitLength (n : Nat) : n < 2 ^ bitLength n := by
  simp only [bitLength]
  split
  · exact Nat.lt_log2_self
  · have : n = 0 := by omega
    subst this; simp

theorem lt_pow_bitLength_of_mem (g : List Nat) (v : Nat) (h : v ∈ g) :
    v < 2 ^ bitLength (listMax g) := by
  have h1 := le_listMax g v h
  have h2 := lt_two_pow_bitLength (listMax g)
  omega

/-! ### the value loop -/

/-- all value bits of `EncodeTaggedSymbols` -/
def taggedBits (groups : List (List Nat)) (bls : List Nat) : List Bool :=
  (groups.zip bls).flatMap fun gb => gb.1.flatMap (bitsOf gb.2)

theorem flatMap_bitsOf_length (bl : Nat) (vs : List Nat) :
    (vs.flatMap (bitsOf bl)).length = vs.length * bl := by
  induction vs with
  | nil => simp
  | cons v vs ih => simp [List.flatMap_cons, bitsOf_length_A, ih, Nat.succ_mul]; omega

theorem packBits_covers (B : List Bool) (rest : Bytes) : B.length ≤ 8 * (packBits B ++ rest).length := by
  rw [List.length_append, packBits_length_A B.length B (Nat.le_refl _)]; omega

theorem readTaggedValues_spec (B : List Bool) (rest : Bytes) (bl : Nat) (hbl : bl ≤ 32) :
    ∀ (vs : List Nat) (k : Nat) (acc : List Nat) (more : List Bool),
      k ≤ B.length → (∀ v ∈ vs, v < 2 ^ bl) → B.drop k = vs.flatMap (bitsOf bl) ++ more →
      readTaggedValues bl vs.length (readerAt (packBits B ++ rest) k) acc
        = some (vs.reverse ++ acc, readerAt (packBits B ++ rest) (k + vs.length * bl)) := by
  intro vs
  induction vs with
  | nil => intro k acc more _ _ _; simp [readTaggedValues]
  | cons v vs ih =>
    intro k acc more hk hv hB
    have hcov := packBits_covers B rest
    have hlenB : (B.drop k).length = ((v :: vs).flatMap (bitsOf bl) ++ more).length := by rw [hB]
    simp only [List.length_drop, List.flatMap_cons, List.length_append, bitsOf_length_A] at hlenB
    have hkb : k + bl ≤ B.length := by omega
    have hval : readVal (packBits B ++ rest) k bl = v := by
      rw [readVal_packBits rest B bl k hkb, hB]
      simp only [List.flatMap_cons, List.append_assoc]
      rw [List.take_left' (bitsOf_length_A bl v), valOfBits_bitsOf_A]
      exact Nat.mod_eq_of_lt (hv v (by simp))
    have hdrop : B.drop (k + bl) = vs.flatMap (bitsOf bl) ++ more := by
      rw [← List.drop_drop, hB]
      simp only [List.flatMap_cons, List.append_assoc]
      rw [List.drop_left' (bitsOf_length_A bl v)]
    simp only [readTaggedValues, List.length_cons,
      getBits_readerAt (packBits B ++ rest) bl k hbl (by omega), hval]
    rw [ih (k + bl) (v :: acc) more hkb (fun w hw => hv w (by simp [hw])) hdrop]
    simp only [List.reverse_cons, List.append_assoc, List.singleton_append]
    congr 3
    rw [Nat.succ_mul]; omega

theorem decodeTaggedLoop_spec (pb : Nat) (t : RansDecTable) (comps : Nat) (B : List Bool)
    (rest : Bytes) :
    ∀ (groups : List (List Nat)) (bls : List Nat) (st : RansSt) (k : Nat) (acc : List Nat)
      (more : List Bool),
      groups.length = bls.length → ransReadN pb t groups.length st = bls →
      (∀ g ∈ groups, g.length = comps) →
      (∀ gb ∈ groups.zip bls, gb.2 ≤ 32 ∧ ∀ v ∈ gb.1, v < 2 ^ gb.2) → k ≤ B.length →
      B.drop k = taggedBits groups bls ++ more →
      decodeTaggedLoop pb t comps groups.length st (readerAt (packBits B ++ rest) k) acc
        = some (acc.reverse ++ groups.flatten,
            readerAt (packBits B ++ rest) (k + (taggedBits groups bls).length)) := by
  intro groups
  induction groups with
  | nil =>
    intro bls st k acc more _ _ _ _ _ _
    simp [decodeTaggedLoop, taggedBits]
  | cons g gs ih =>
    intro bls st k acc more hlen hread hg hv hk hB
    cases bls with
    | nil => simp at hlen
    | cons bl bls =>
      simp only [List.length_cons, ransReadN, List.cons.injEq] at hread
      obtain ⟨htag, hread'⟩ := hread
      have hgl : g.length = comps := hg g (by simp)
      obtain ⟨hbl, hvg⟩ := hv (g, bl) (by simp)
      simp only at hbl hvg
      simp only [taggedBits, List.zip_cons_cons, List.flatMap_cons, List.append_assoc] at hB
      have hvals := readTaggedValues_spec B rest bl hbl g k acc _ hk hvg hB
      rw [hgl] at hvals
      have hk' : k + comps * bl ≤ B.length := by
        have hl : (B.drop k).length = (g.flatMap (bitsOf bl) ++
            ((gs.zip bls).flatMap (fun gb => gb.1.flatMap (bitsOf gb.2)) ++ more)).length := by rw [hB]
        simp only [List.length_drop, List.length_append, flatMap_bitsOf_length, hgl] at hl
        omega
      have hB' : B.drop (k + comps * bl) = taggedBits gs bls ++ more := by
        rw [← List.drop_drop, hB, List.drop_left' (by rw [flatMap_bitsOf_length, hgl])]
        rfl
      have hih := ih bls (ransRead pb t st).2 (k + comps * bl) (g.reverse ++ acc) more
        (by simpa using hlen) hread' (fun g' hg' => hg g' (by simp [hg']))
        (fun gb hgb => hv gb (by simp [List.zip_cons_cons, hgb])) hk' hB'
      simp only [decodeTaggedLoop, List.length_cons, htag, hvals, hih]
      simp only [List.reverse_append, List.reverse_reverse, List.flatten_cons, List.append_assoc,
        taggedBits, List.zip_cons_cons, List.flatMap_cons, List.length_append,
        flatMap_bitsOf_length, hgl]
      congr 3
      omega

/-! ### assembling `DecodeTaggedSymbols` -/

theorem decodeRans_inv (pb : Nat) (t : RansDecTable) (before bs rest : Bytes) (n : Nat)
    (syms : List Nat) (h : decodeRans pb t before n bs = some (syms, rest)) :
    ∃ st, ransStartDecoding pb before bs = some (st, rest) ∧ ransReadN pb t n st = syms := by
  simp only [decodeRans] at h
  split at h
  · simp at h
  · rename_i st rest' hs
    simp only [Option.some.injEq, Prod.mk.injEq, ransReadNTR_eq, List.reverse_nil,
      List.nil_append] at h
    obtain ⟨h1, rfl⟩ := h
    exact ⟨st, hs, h1⟩

theorem decodeTaggedSymbols_of (before bs rest1 rest2 : Bytes) (n comps : Nat) (t : RansDecTable)
    (st : RansSt) (vals : List Nat) (r : BitReader)
    (h1 : ransSymbolDecoderCreate (ransPrecisionBits 5) bs = some (t, rest1))
    (h2 : ransStartDecoding (ransPrecisionBits 5) (before ++ consumedOf bs rest1) rest1
      = some (st, rest2))
    (h3 : t.probs.size ≠ 0) (hc : comps ≠ 0)
    (h4 : decodeTaggedLoop (ransPrecisionBits 5) t comps ((n + comps - 1) / comps) st
      (BitReader.start rest2) [] = some (vals, r)) :
    decodeTaggedSymbols before n comps bs = some (vals, rest2.drop r.bytesDecoded) := by
  simp only [decodeTaggedSymbols, h1, h2, h3, hc, if_false, h4]

theorem zip_map_mem {α β : Type} (f : α → β) : ∀ (l : List α) (ab : α × β), ab ∈ l.zip (l.map f) →
    ab.2 = f ab.1 ∧ ab.1 ∈ l := by
  intro l
  induction l with
  | nil => intro ab h; simp at h
  | cons x l ih =>
    intro ab h
    simp only [List.map_cons, List.zip_cons_cons, List.mem_cons] at h
    rcases h with rfl | h
    · simp
    · obtain ⟨h1, h2⟩ := ih ab h
      exact ⟨h1, by simp [h2]⟩

theorem groups_div (m c : Nat) (hc : 0 < c) : (m * c + c - 1) / c = m := by
  have : m * c + c - 1 = c * m + (c - 1) := by
    rw [Nat.mul_comm]; omega
  rw [this, Nat.mul_add_div hc, Nat.div_eq_of_lt (by omega)]; simp

theorem tagged_roundtrip_aux (o : ProbOracle) (comps : Nat) (groups : List (List Nat)) (bs : Bytes)
    (hc : 0 < comps) (hg : ∀ g ∈ groups, g.length = comps) (hlen : groups.length < 2 ^ 32)
    (h : encodeTaggedSymbols o groups (groups.map fun g => bitLength (listMax g)) = some bs) :
    ∀ before rest, decodeTaggedSymbols before (groups.length * comps) comps (bs ++ rest)
      = some (groups.flatten, rest) := by
  generalize hbls : (groups.map fun g => bitLength (listMax g)) = bls at h
  have hblen : groups.length = bls.length := by rw [← hbls]; simp
  simp only [encodeTaggedSymbols] at h
  split at h
  · simp at h
  · rename_i hany
    split at h
    · simp at h
    · rename_i probs tbl hcr
      split at h
      · simp at h
      · rename_i tags he
        simp only [Option.some.injEq] at h; subst h
        have hlt32 : ∀ bl ∈ bls, bl < 33 := by
          intro bl hbl
          simp only [List.any_eq_true, not_exists, not_and, decide_eq_true_eq] at hany
          have := hany bl hbl; omega
        have hpb := ransPrecisionBits_le 5
        obtain ⟨⟨t, ht⟩, hne, hpos, hdec⟩ := encoderCreate_spec o _ hpb _ probs tbl
          (by rw [countFreqs_length]; decide) hcr
        have hsyms : ∀ s ∈ bls, 0 < probs.getD s 0 := by
          intro s hs
          exact hpos s (countFreqs_pos _ bls s hs (hlt32 s hs))
        obtain ⟨tags', he', hrt⟩ := rans_roundtrip_aux _ hpb probs bls t ht hsyms (by omega)
        rw [he] at he'
        simp only [Option.some.injEq] at he'; subst he'
        intro before rest
        have hsz : t.probs.size ≠ 0 := by
          rw [ransBuildLookup_size _ _ _ ht]
          intro h0; exact hne (List.length_eq_zero_iff.mp h0)
        generalize hB : ((groups.zip bls).flatMap fun gb => gb.1.flatMap (bitsOf gb.2)) = B
        have hBt : taggedBits groups bls = B := hB
        have hcreate := ransSymbolDecoderCreate_of _
          (tbl ++ (tags ++ (packBits B ++ rest))) (tags ++ (packBits B ++ rest)) probs t
          (hdec _) hne ht
        obtain ⟨st, hstart, hread⟩ := decodeRans_inv _ t
          (before ++ consumedOf (tbl ++ (tags ++ (packBits B ++ rest))) (tags ++ (packBits B ++ rest)))
          _ _ _ _ (hrt _ (packBits B ++ rest))
        have hloop := decodeTaggedLoop_spec (ransPrecisionBits 5) t comps B rest groups bls st 0 [] []
          hblen (by rw [hblen]; exact hread) hg
          (by
            intro gb hgb
            rw [← hbls] at hgb
            obtain ⟨e1, e2⟩ := zip_map_mem _ groups gb hgb
            refine ⟨?_, ?_⟩
            · have := hlt32 gb.2 (by rw [← hbls, e1]; exact List.mem_map_of_mem e2)
              omega
            · intro v hv; rw [e1]; exact lt_pow_bitLength_of_mem gb.1 v hv)
          (Nat.zero_le _) (by simp [hBt])
        rw [hBt, Nat.zero_add] at hloop
        have hfin := decodeTaggedSymbols_of before _ _ _ (groups.length * comps) comps t st _ _
          hcreate hstart hsz (by omega)
          (by rw [groups_div _ _ hc, readerAt_zero]; exact hloop)
        have e : tbl ++ tags ++ packBits B ++ rest = tbl ++ (tags ++ (packBits B ++ rest)) := by
          simp only [List.append_assoc]
        rw [e, hfin]
        simp only [List.reverse_nil, List.nil_append, Option.some.injEq, Prod.mk.injEq, true_and]
        have : (readerAt (packBits B ++ rest) B.length).bytesDecoded = (packBits B).length := by
          simp only [readerAt, BitReader.bytesDecoded,
            packBits_length_A B.length B (Nat.le_refl _)]
        rw [this, List.drop_left' rfl]

/-! ### `EncodeSymbols` / `DecodeSymbols` -/

theorem symbols_roundtrip_aux (o : ProbOracle) (choice : Scheme) (level comps : Nat)
    (syms : List Nat) (bs : Bytes) (hc : 0 < comps) (hlen : syms.length < 2 ^ 32)
    (h : encodeSymbolsWith o choice level comps syms = some bs) :
    ∀ rest, decodeSymbols syms.length comps (bs ++ rest) = some (syms, rest) := by
  intro rest
  simp only [encodeSymbolsWith] at h
  split at h
  · rename_i hem
    have : syms = [] := by simpa using hem
    subst this
    simp only [Option.some.injEq] at h; subst h
    simp [decodeSymbols]
  · rename_i hem
    have hne : syms.length ≠ 0 := by
      intro h0; exact hem (by simpa using List.length_eq_zero_iff.mp h0)
    have hc0 : ¬ comps = 0 := by omega
    simp only [hc0, if_false] at h
    split at h
    · simp at h
    · rename_i hmod
      have hmod : syms.length % comps = 0 := by simpa using hmod
      split at h
      · simp at h
      · rename_i hmv
        cases choice with
        | tagged =>
          simp only [chunksOfTR_eq, List.reverse_nil, List.nil_append] at h
          split at h
          · simp at h
          · rename_i body hb
            simp only [Option.some.injEq] at h; subst h
            have hm : syms.length = syms.length / comps * comps :=
              (Nat.div_mul_cancel (Nat.dvd_of_mod_eq_zero hmod)).symm
            have hle : syms.length / comps ≤ syms.length := Nat.div_le_self _ _
            obtain ⟨g1, g2, g3⟩ := chunksOf_spec comps hc (syms.length / comps) syms.length syms hm hle
            have := tagged_roundtrip_aux o comps _ body hc g2 (by omega) hb [Scheme.toByte .tagged] rest
            rw [g1, g3, ← hm] at this
            simp only [decodeSymbols, hne, if_false, List.cons_append, Scheme.toByte, if_true]
            exact this
        | raw =>
          simp only at h
          split at h
          · exact absurd h (by simp)
          · rename_i hmv31
            split at h
            · exact absurd h (by simp)
            · rename_i body hb
              simp only [Option.some.injEq] at h; subst h
              have := raw_roundtrip_aux o level syms (listMax syms) _ body
                (fun s hs => le_listMax syms s hs) (by omega) hlen hb [Scheme.toByte .raw] rest
              simp only [decodeSymbols, hne, if_false, List.cons_append, Scheme.toByte]
              simp only [Scheme.toByte] at this
              simpa using this

end Draco
