import DracoProofs.Cleanup
import DracoProofs.C14Verify
/-
  DracoProofs.C14Multiset — the count-based multiset clauses of DracoModel/C14Verify.lean:
  `triRotB` is an equivalence relation, counting a class is invariant under it, and the clauses
  follow from `Forall₂ TriRot`, `Perm` and `Sublist` facts about lists of triangles.
-/
namespace Draco
namespace C14

open Cleanup

theorem rotTriB_eq (t : List (List Bytes)) : rotTriB t = rotTri t := by
  match t with
  | [] => rfl
  | [_] => rfl
  | [_, _] => rfl
  | [_, _, _] => rfl
  | _ :: _ :: _ :: _ :: _ => rfl

theorem rotTri_three (t : List (List Bytes)) : rotTri (rotTri (rotTri t)) = t := by
  match t with
  | [] => rfl
  | [_] => rfl
  | [_, _] => rfl
  | [_, _, _] => rfl
  | _ :: _ :: _ :: _ :: _ => rfl

theorem triRotB_iff (t' t : List (List Bytes)) : triRotB t' t = true ↔ TriRot t' t := by
  simp [triRotB, TriRot, rotTriB_eq, or_assoc]

theorem triRot_symm {a b : List (List Bytes)} (h : TriRot a b) : TriRot b a := by
  rcases h with e | e | e <;> subst e
  · exact Or.inl rfl
  · exact Or.inr (Or.inr (rotTri_three b).symm)
  · right; left
    rw [rotTri_three]

theorem triRot_trans {a b c : List (List Bytes)} (h1 : TriRot a b) (h2 : TriRot b c) : TriRot a c := by
  rcases h1 with e | e | e <;> subst e <;> rcases h2 with e | e | e <;> subst e
  · exact Or.inl rfl
  · exact Or.inr (Or.inl rfl)
  · exact Or.inr (Or.inr rfl)
  · exact Or.inr (Or.inl rfl)
  · exact Or.inr (Or.inr rfl)
  · left; rw [rotTri_three]
  · exact Or.inr (Or.inr rfl)
  · left; rw [rotTri_three]
  · right; left; rw [rotTri_three]

/-- `==` on `RTri` -/
theorem rtri_beq (a b : RTri) : (a == b) = true ↔ TriRot a.t b.t := triRotB_iff a.t b.t

theorem rtri_beq_congr {a b : RTri} (h : TriRot a.t b.t) (c : RTri) : (a == c) = (b == c) := by
  cases h1 : (a == c) <;> cases h2 : (b == c) <;> try rfl
  · exact absurd ((rtri_beq a c).2 (triRot_trans h ((rtri_beq b c).1 h2))) (by simp [h1])
  · exact absurd ((rtri_beq b c).2 (triRot_trans (triRot_symm h) ((rtri_beq a c).1 h1))) (by simp [h2])

/-! ### counting -/

theorem countP_forall₂ {α β : Type} {R : α → β → Prop} {p : α → Bool} {q : β → Bool} {l1 : List α} {l2 : List β}
    (h : List.Forall₂ R l1 l2) (hpq : ∀ a b, R a b → p a = q b) : l1.countP p = l2.countP q := by
  induction h with
  | nil => rfl
  | cons hab _ ih => simp only [List.countP_cons, ih, hpq _ _ hab]

/-- lists of triangles that correspond one by one up to rotation have the same class counts -/
theorem count_rtris_forall₂ {l1 l2 : List (List (List Bytes))} (h : List.Forall₂ TriRot l1 l2) (c : RTri) :
    (rtris l1).count c = (rtris l2).count c := by
  unfold rtris List.count
  rw [List.countP_map, List.countP_map]
  exact countP_forall₂ h (fun a b hab => rtri_beq_congr (a := ⟨a⟩) (b := ⟨b⟩) hab c)

theorem count_rtris_perm {l1 l2 : List (List (List Bytes))} (h : l1.Perm l2) (c : RTri) :
    (rtris l1).count c = (rtris l2).count c := by
  unfold rtris List.count
  exact (h.map RTri.mk).countP_eq _

theorem count_rtris_sublist {l1 l2 : List (List (List Bytes))} (h : l1.Sublist l2) (c : RTri) :
    (rtris l1).count c ≤ (rtris l2).count c := by
  unfold rtris List.count
  exact (h.map RTri.mk).countP_le

theorem eqMultiset_of_count {α : Type} [BEq α] {l1 l2 : List α} (h : ∀ c, l1.count c = l2.count c) :
    eqMultiset l1 l2 = true := by
  unfold eqMultiset eqMultisetSlow
  rw [Bool.or_eq_true]
  right
  rw [List.all_eq_true]
  intro x _
  simp [h x]

theorem subMultiset_of_count {α : Type} [BEq α] {l1 l2 : List α} (h : ∀ c, l1.count c ≤ l2.count c) :
    subMultiset l1 l2 = true := by
  unfold subMultiset subMultisetSlow
  rw [Bool.or_eq_true]
  right
  rw [List.all_eq_true]
  intro x _
  simp [h x]

/-- same multiset of oriented triangles, from a permutation up to rotation -/
theorem sameTriangles_of {l1 l l2 : List (List (List Bytes))} (h1 : List.Forall₂ TriRot l1 l) (h2 : l.Perm l2) :
    sameTriangles l1 l2 = true := by
  unfold sameTriangles
  apply eqMultiset_of_count
  intro c
  rw [count_rtris_forall₂ h1 c, count_rtris_perm h2 c]

end C14
end Draco
