import DracoProofs.EbEncCM
/-
  Further facts about a successful run of the constrained multi-parallelogram encoder loop
  `constrainedMultiEncode` (needed at the stream level): the number of contexts, the range of the
  corrections, the number of crease flags.
-/
namespace Draco.EbEnc
open Draco Draco.Eb

/-- the states of a successful run of the encoder loop: `E k` = the state after the entries
    `n-1, …, n-k`; the flags returned are those of the last state, the corrections are the last `out` with
    the corrections of entry 0 added -/
theorem constrainedMultiEncode_trace (md : MeshData) (wt : WrapT) (nc n : Nat)
    (crease : Array (Array Bool)) (data corr : Array Int) (isCrease : Array (Array Bool))
    (hd : md.d2c.size = n) (hsz : data.size = n * nc)
    (henc : constrainedMultiEncode md wt nc crease data = .ok (corr, isCrease)) :
    ∃ E : Nat → CMEncSt,
      E 0 = (Array.replicate data.size (0 : Int),
        (Array.range 4).map (fun i => (crease.getD i #[]).size), Array.replicate 4 #[]) ∧
      (E (n - 1)).2.2 = isCrease ∧
      corrWrap wt nc 0 (fun _ => pure 0) data (E (n - 1)).1 = .ok corr ∧
      (∀ k, k ≤ n - 1 → (E k).1.size = data.size ∧ (E k).2.1.size = 4 ∧ (E k).2.2.size = 4) ∧
      ∀ k, k < n - 1 → encBody md wt nc crease data (n - 1 - k) (E k) = .ok (.yield (E (k + 1))) := by
  rw [constrainedMultiEncode_eq, bind_ok_iff] at henc
  obtain ⟨sfin, hloop, henc⟩ := henc
  rw [bind_ok_iff] at henc
  obtain ⟨out, hcw, hret⟩ := henc
  simp only [pure, Except.pure, Except.ok.injEq, Prod.mk.injEq] at hret
  obtain ⟨hout, hisC⟩ := hret
  subst hout hisC
  rw [hd, kMax_eq] at hloop
  simp only [Std.Legacy.Range.forIn_eq_forIn_range', Std.Legacy.Range.size, Nat.sub_zero, Nat.add_sub_cancel,
    Nat.div_one] at hloop
  obtain ⟨E, hE0, hEfin, hEI, hEstep⟩ := forIn_trace_inv (List.range' 0 (n - 1) 1)
    (fun k s => encBody md wt nc crease data (n - 1 - k) s)
    (fun _ (s : CMEncSt) => s.1.size = data.size ∧ s.2.1.size = 4 ∧ s.2.2.size = 4) (by
      intro i hi s r hI hr
      have hi' : i < n - 1 := by simpa using hi
      have hli : (List.range' 0 (n - 1) 1)[i] = i := by simp
      rw [hli] at hr
      obtain ⟨m, fl, P, left', isC', _, _, h3, h4, h5, _⟩ :=
        encBody_ok md wt nc crease data (n - 1 - i) n s r (by omega) (by omega) hsz hI.1 hI.2.1 hI.2.2 hr
      exact ⟨_, h5, by simpa using hI.1, h3, h4⟩) _ _ (by simp) hloop
  simp only [List.length_range'] at hEfin hEI hEstep
  refine ⟨E, hE0, by rw [hEfin], by rw [hEfin]; exact hcw, hEI, ?_⟩
  intro k hk
  have := hEstep k hk
  simpa using this

/-- (1) the encoder returns the flags of exactly `kMaxNumParallelograms = 4` contexts -/
theorem constrainedMultiEncode_isCrease_size (md : MeshData) (wt : WrapT) (nc n : Nat)
    (crease : Array (Array Bool)) (data corr : Array Int) (isCrease : Array (Array Bool))
    (hd : md.d2c.size = n) (hsz : data.size = n * nc)
    (henc : constrainedMultiEncode md wt nc crease data = .ok (corr, isCrease)) :
    isCrease.size = 4 := by
  obtain ⟨E, _, hfin, _, hI, _⟩ := constrainedMultiEncode_trace md wt nc n crease data corr isCrease hd hsz henc
  rw [← hfin]
  exact (hI (n - 1) (by omega)).2.2

/-- corrections of the wrap transform are int32 values -/
theorem encCorr_int32 {lo hi : Int} {wt : WrapT} (hinit : Wrap.init lo hi = some wt) (hlo : -2 ^ 31 ≤ lo)
    (hhi : hi < 2 ^ 31) (orig pred : Int) (h1 : lo ≤ orig) (h2 : orig ≤ hi) :
    -2 ^ 31 ≤ Wrap.encCorr wt orig pred ∧ Wrap.encCorr wt orig pred < 2 ^ 31 := by
  obtain ⟨hb, hd0, hd1⟩ := Wrap.init_bounds hinit
  obtain ⟨b1, b2⟩ := Wrap.encCorr_bounds hb hd0 hd1 hlo hhi orig pred h1 h2
  obtain ⟨_, _, e3, e4, e5⟩ := hb
  omega

set_option linter.unusedVariables false in
/-- (2) the corrections: one per value, all of them int32 values -/
theorem constrainedMultiEncode_corr_range (md : MeshData) (wt : WrapT) (lo hi : Int) (nc n : Nat)
    (crease : Array (Array Bool)) (data corr : Array Int) (isCrease : Array (Array Bool))
    (hnc : 0 < nc) (hn : 0 < n) (hd : md.d2c.size = n) (hsz : data.size = n * nc)
    (hinit : Wrap.init lo hi = some wt) (hlo : -2 ^ 31 ≤ lo) (hhi : hi < 2 ^ 31)
    (hrange : ∀ i (h : i < data.size), lo ≤ data[i] ∧ data[i] ≤ hi)
    (henc : constrainedMultiEncode md wt nc crease data = .ok (corr, isCrease)) :
    corr.size = data.size ∧ ∀ x ∈ corr.toList, -2 ^ 31 ≤ x ∧ x < 2 ^ 31 := by
  obtain ⟨E, hE0, _, hcw, hI, hstep⟩ := constrainedMultiEncode_trace md wt nc n crease data corr isCrease hd hsz henc
  have hblk : ∀ p, p < n → p * nc + nc ≤ data.size := by
    intro p hp
    rw [hsz, ← Nat.succ_mul]; exact Nat.mul_le_mul_right nc hp
  -- a patched block of corrections
  have hpatch : ∀ (out : Array Int) (p : Nat) (P : Nat → Int), out.size = data.size →
      (∀ i, -2 ^ 31 ≤ out.getD i 0 ∧ out.getD i 0 < 2 ^ 31) →
      ∀ i, -2 ^ 31 ≤ (patch out (p * nc) nc fun c _ => Wrap.encCorr wt (data.getD (p * nc + c) 0) (P c)).getD i 0 ∧
        (patch out (p * nc) nc fun c _ => Wrap.encCorr wt (data.getD (p * nc + c) 0) (P c)).getD i 0 < 2 ^ 31 := by
    intro out p P hos hout i
    rw [patch_getD]
    split
    · rename_i hc
      have hi : p * nc + (i - p * nc) < data.size := by omega
      have hv : data.getD (p * nc + (i - p * nc)) 0 = data[p * nc + (i - p * nc)] := by simp [Array.getD, hi]
      rw [hv]
      obtain ⟨r1, r2⟩ := hrange _ hi
      exact encCorr_int32 hinit hlo hhi _ _ r1 r2
    · exact hout i
  have hall : ∀ k, k ≤ n - 1 → ∀ i, -2 ^ 31 ≤ (E k).1.getD i 0 ∧ (E k).1.getD i 0 < 2 ^ 31 := by
    intro k
    induction k with
    | zero =>
      intro _ i
      rw [hE0]
      by_cases hi : i < data.size
      · simp [Array.getD, hi]
      · simp [Array.getD, hi]
    | succ k ih =>
      intro hk i
      obtain ⟨m, fl, P, left', isC', _, _, _, _, h5, _, _⟩ :=
        encBody_ok md wt nc crease data (n - 1 - k) n (E k) _ (by omega) (by omega) hsz
          (hI k (by omega)).1 (hI k (by omega)).2.1 (hI k (by omega)).2.2 (hstep k (by omega))
      have h5' : E (k + 1) = _ := ForInStep.yield.inj h5
      rw [h5']
      exact hpatch _ _ P (hI k (by omega)).1 (ih (by omega)) i
  have hcorr := corrWrap_eq wt nc 0 (fun _ => pure 0) (fun _ => 0) data (E (n - 1)).1 (by have := hblk 0 hn; omega)
    (hI (n - 1) (by omega)).1 (fun _ _ => rfl)
  rw [hcw] at hcorr
  have hcorr' : corr = _ := Except.ok.inj hcorr
  have hcs : corr.size = data.size := by
    rw [hcorr', patch_size]; exact (hI (n - 1) (by omega)).1
  refine ⟨hcs, ?_⟩
  intro x hx
  obtain ⟨i, hi, rfl⟩ := List.getElem_of_mem hx
  have hi' : i < corr.size := by simpa using hi
  have := hpatch (E (n - 1)).1 0 (fun _ => 0) (hI (n - 1) (by omega)).1 (hall (n - 1) (by omega)) i
  simp only [Nat.zero_mul] at this
  rw [← hcorr'] at this
  simpa [Array.getD, hi'] using this

/-- (3) every context holds at most 4 flags per predicted entry -/
theorem constrainedMultiEncode_flag_count (md : MeshData) (wt : WrapT) (nc n : Nat)
    (crease : Array (Array Bool)) (data corr : Array Int) (isCrease : Array (Array Bool))
    (hd : md.d2c.size = n) (hsz : data.size = n * nc)
    (henc : constrainedMultiEncode md wt nc crease data = .ok (corr, isCrease)) :
    ∀ c, (isCrease.getD c #[]).size ≤ 4 * (n - 1) := by
  obtain ⟨E, hE0, hfin, _, hI, hstep⟩ := constrainedMultiEncode_trace md wt nc n crease data corr isCrease hd hsz henc
  intro c
  have hall : ∀ k, k ≤ n - 1 → ((E k).2.2.getD c #[]).toList.length ≤ 4 * k := by
    intro k
    induction k with
    | zero =>
      intro _
      rw [hE0]
      by_cases hc : c < 4
      · simp [Array.getD, hc]
      · simp [Array.getD, hc]
    | succ k ih =>
      intro hk
      obtain ⟨m, fl, P, left', isC', h1, h2, _, _, h5, h6, _⟩ :=
        encBody_ok md wt nc crease data (n - 1 - k) n (E k) _ (by omega) (by omega) hsz
          (hI k (by omega)).1 (hI k (by omega)).2.1 (hI k (by omega)).2.2 (hstep k (by omega))
      have h5' : E (k + 1) = _ := ForInStep.yield.inj h5
      rw [h5']
      simp only
      rw [h6 c, List.length_append]
      have := ih (by omega)
      split
      · omega
      · rw [List.length_nil]; omega
  have := hall (n - 1) (by omega)
  rw [hfin] at this
  simpa using this

/-- (4) the number of flags of context `c` is a multiple of the `c + 1` flags an entry of the context pushes -/
theorem constrainedMultiEncode_flags_dvd (md : MeshData) (wt : WrapT) (nc n : Nat)
    (crease : Array (Array Bool)) (data corr : Array Int) (isCrease : Array (Array Bool))
    (hd : md.d2c.size = n) (hsz : data.size = n * nc)
    (henc : constrainedMultiEncode md wt nc crease data = .ok (corr, isCrease)) :
    ∀ c, (c + 1) ∣ (isCrease.getD c #[]).size := by
  obtain ⟨E, hE0, hfin, _, hI, hstep⟩ := constrainedMultiEncode_trace md wt nc n crease data corr isCrease hd hsz henc
  intro c
  have hall : ∀ k, k ≤ n - 1 → (c + 1) ∣ ((E k).2.2.getD c #[]).toList.length := by
    intro k
    induction k with
    | zero =>
      intro _
      rw [hE0]
      by_cases hc : c < 4
      · simp [Array.getD, hc]
      · simp [Array.getD, hc]
    | succ k ih =>
      intro hk
      obtain ⟨m, fl, P, left', isC', h1, h2, _, _, h5, h6, _⟩ :=
        encBody_ok md wt nc crease data (n - 1 - k) n (E k) _ (by omega) (by omega) hsz
          (hI k (by omega)).1 (hI k (by omega)).2.1 (hI k (by omega)).2.2 (hstep k (by omega))
      have h5' : E (k + 1) = _ := ForInStep.yield.inj h5
      rw [h5']
      simp only
      rw [h6 c, List.length_append]
      apply Nat.dvd_add (ih (by omega))
      split
      · rename_i hc
        rw [h1, hc.2]
        have : m - 1 + 1 = m := by omega
        rw [this]
      · rw [List.length_nil]; exact Nat.dvd_zero _
  have := hall (n - 1) (by omega)
  rw [hfin] at this
  simpa using this

theorem streamOrder_size (m : Nat) (A : Array Bool) : (streamOrder m A).size = A.size / m * m := by
  simp [streamOrder]

/-- (4') hence the flags in stream order are as many as the flags collected: the decoder reads
    `(isCrease.getD c #[]).size` bits, the encoder writes the bits `(creaseStreamOrder isCrease)[c]` -/
theorem constrainedMultiEncode_streamOrder_size (md : MeshData) (wt : WrapT) (nc n : Nat)
    (crease : Array (Array Bool)) (data corr : Array Int) (isCrease : Array (Array Bool))
    (hd : md.d2c.size = n) (hsz : data.size = n * nc)
    (henc : constrainedMultiEncode md wt nc crease data = .ok (corr, isCrease)) :
    ∀ c, ((creaseStreamOrder isCrease).getD c #[]).size = (isCrease.getD c #[]).size := by
  intro c
  rw [creaseStreamOrder_getD, streamOrder_size]
  exact Nat.div_mul_cancel (constrainedMultiEncode_flags_dvd md wt nc n crease data corr isCrease hd hsz henc c)

end Draco.EbEnc
