import DracoProofs.EbDecSimS
/-
  THE SYMBOL LOOP WITH `S` AND SPLIT EVENTS: `connMain` computes the run `RunS` (the pure steps of DracoProofs/EbTraceS.lean,
  with the `checkSplit` loop as `splitLoop`), given the decoder's checks (`GuardsS`) at every symbol.
-/
namespace Draco.EbEnc.DecSim
open Draco Draco.EbEnc
open Draco.Eb (inv connMain ConnMain ConnIn ConnOut Trav R decodeSymbolStd TopoSplit)
open Draco.EbEnc.ConnTri (RdS CSt forIn_list_total bind_forIn_total)
set_option linter.unusedSimpArgs false

/-- tables, remaining split events and tags after `j` symbols (`splitLoop` = the `checkSplit` loop of `E / R / L`) -/
def RunS (syms : List Nat) (evs : List TopoSplit) (nf nv : Nat) : Nat → DSS × List TopoSplit × Nat
  | 0 => (DSS.init syms.length nf nv, evs, 0)
  | j+1 =>
    let r := RunS syms evs nf nv j
    if syms[j]! = 1 then (stepS j r.1, r.2.1, r.2.2 ||| 2 ||| 16384)
    else if syms[j]! = 0 then (r.1.withBase (stepC j r.1.base), r.2.1, r.2.2 ||| 1)
    else
      let l := splitLoop syms.length j r.2.1 (r.1.splitActive, r.2.2 ||| symTag syms[j]!, 0)
      ({ r.1.withBase (step syms[j]! j r.1.base) with splitActive := l.1 }, l.2.1, l.2.2.1)

def GuardE (nv j : Nat) (s : DSS) : Prop :=
  3 * j + 2 < s.c2v.size ∧ s.vc.size + 3 ≤ nv ∧ s.vc.size + 2 < 4294967295

def GuardRL (nv j : Nat) (s : DSS) : Prop :=
  3 * j + 2 < s.c2v.size ∧ s.opp.size = s.c2v.size ∧ s.c2v.size ≤ 4294967295 ∧ s.vc.size + 1 ≤ nv ∧ s.vc.size < 4294967295 ∧
  0 < s.stack.size ∧ s.stack.back! < 3 * j ∧ Eb.nextC s.stack.back! < 3 * j ∧ Eb.prevC s.stack.back! < 3 * j ∧
  s.opp[s.stack.back!]! = 4294967295 ∧ s.c2v[Eb.prevC s.stack.back!]! < s.vc.size

def GuardC (j : Nat) (s0 : DS) : Prop :=
  3 * j + 2 < s0.c2v.size ∧ s0.opp.size = s0.c2v.size ∧ s0.c2v.size ≤ 4294967295 ∧
  0 < s0.stack.size ∧ s0.stack.back! < 3 * j ∧ Eb.nextC s0.stack.back! < 3 * j ∧ Eb.prevC s0.stack.back! < 3 * j ∧
  s0.c2v[Eb.nextC s0.stack.back!]! < s0.vc.size ∧ s0.c2v[Eb.nextC s0.stack.back!]! < s0.hole.size ∧
  cornerB s0 < 3 * j ∧ Eb.nextC (cornerB s0) < 3 * j ∧ s0.stack.back! ≠ cornerB s0 ∧
  s0.opp[s0.stack.back!]! = 4294967295 ∧ s0.opp[cornerB s0]! = 4294967295 ∧
  s0.c2v[Eb.prevC s0.stack.back!]! < s0.vc.size ∧ s0.vc.size ≤ 4294967295 ∧
  s0.c2v[Eb.nextC s0.stack.back!]! ≠ s0.c2v[Eb.prevC s0.stack.back!]! ∧
  s0.c2v[Eb.nextC s0.stack.back!]! ≠ s0.c2v[Eb.nextC (cornerB s0)]!

/-- the checks of `TOPOLOGY_S` and the relabelling walk (the hypotheses of `body_S`) -/
def GuardS (nf j : Nat) (s : DSS) : Prop :=
  ∃ (a b : Nat) (w : List Nat),
    3 * j + 2 < s.c2v.size ∧ s.opp.size = s.c2v.size ∧ s.c2v.size ≤ 4294967295 ∧ j < s.splitActive.size ∧
    0 < s.stack.size ∧ s.stack.back! = b ∧
    ((s.splitActive[j]! = 4294967295 ∧ 0 < s.stack.pop.size ∧ s.stack.pop.back! = a) ∨
      (s.splitActive[j]! ≠ 4294967295 ∧ s.splitActive[j]! = a)) ∧
    a ≠ b ∧ a < 3 * j ∧ b < 3 * j ∧ Eb.nextC a < 3 * j ∧ Eb.prevC a < 3 * j ∧ Eb.nextC b < 3 * j ∧ Eb.prevC b < 3 * j ∧
    s.opp[a]! = 4294967295 ∧ s.opp[b]! = 4294967295 ∧
    s.c2v[Eb.prevC a]! < s.vc.size ∧ s.c2v[Eb.nextC b]! < s.vc.size ∧ s.c2v[Eb.prevC b]! < s.vc.size ∧ s.vc.size < 4294967295 ∧
    Walk (fun x => Eb.nextC (glue (glue s.opp a (3 * j + 2)) b (3 * j + 1))[Eb.nextC x]!) (Eb.nextC b) w ∧
    w.length < 3 * nf + 1 ∧
    (∀ y, y ∈ w → y < s.c2v.size ∧ Eb.nextC y < s.c2v.size ∧
      Eb.nextC (glue (glue s.opp a (3 * j + 2)) b (3 * j + 1))[Eb.nextC y]! ≠ Eb.nextC b) ∧
    w.foldl (fun c y => c.setIfInBounds y s.c2v[Eb.prevC a]!)
        (((s.c2v.setIfInBounds (3 * j) s.c2v[Eb.prevC a]!).setIfInBounds (3 * j + 1) s.c2v[Eb.nextC a]!).setIfInBounds (3 * j + 2)
          s.c2v[Eb.prevC b]!) =
      mergeV (((s.c2v.setIfInBounds (3 * j) s.c2v[Eb.prevC a]!).setIfInBounds (3 * j + 1) s.c2v[Eb.nextC a]!).setIfInBounds (3 * j + 2)
          s.c2v[Eb.prevC b]!) s.c2v[Eb.nextC b]! s.c2v[Eb.prevC a]!

/-- the decoder's checks at symbol `j` on the state `RunS j` -/
def GuardsAt (syms : List Nat) (evs : List TopoSplit) (nf nv j : Nat) : Prop :=
  (syms[j]! = 7 ∨ syms[j]! = 5 ∨ syms[j]! = 3 ∨ syms[j]! = 0 ∨ syms[j]! = 1) ∧
  (syms[j]! = 7 → GuardE nv j (RunS syms evs nf nv j).1) ∧
  (syms[j]! = 5 ∨ syms[j]! = 3 → GuardRL nv j (RunS syms evs nf nv j).1) ∧
  (syms[j]! = 0 → GuardC j (RunS syms evs nf nv j).1.base) ∧
  (syms[j]! = 1 → GuardS nf j (RunS syms evs nf nv j).1) ∧
  (syms[j]! ≠ 0 → syms[j]! ≠ 1 →
    ∀ ev, ev ∈ (RunS syms evs nf nv j).2.1 → ev.source ≤ syms.length - j - 1 ∧ ev.split < syms.length ∧ ev.split < 2 ^ 31)

/-- the result of the symbol loop -/
def mainOfDSS (s : DSS) (nf tg : Nat) : ConnMain :=
  { c2v := s.c2v, opp := s.opp, vc := s.vc, hole := s.hole, stack := s.stack, invalid := s.invalid, numFaces := nf, tags := tg }

set_option maxRecDepth 100000 in
set_option maxHeartbeats 2000000 in
/-- **the symbol loop with `S` and split events** -/
theorem connMain_RunS (syms : List Nat) (evs : List TopoSplit) (nf nv : Nat) (tr : Trav) (hkind : tr.kind = 0)
    (hsym : ∀ i, i < syms.length → (decodeSymbolStd (RdS tr.sym i)).1 = syms[i]!)
    (hn : 3 * syms.length + 2 < 4294967295)
    (hG : ∀ j, j < syms.length → GuardsAt syms evs nf nv j)
    (hv : (RunS syms evs nf nv syms.length).1.vc.size ≤ nv) :
    connMain ⟨nf, nv, syms.length, evs, true⟩ tr =
      .ok (mainOfDSS (RunS syms evs nf nv syms.length).1 syms.length (RunS syms evs nf nv syms.length).2.2) := by
  rw [(decompM _ tr).2]
  refine bind_forIn_total syms.length _ _ _
    (fun j s => j ≤ syms.length ∧ s = mkStS (RunS syms evs nf nv j).1 (RunS syms evs nf nv j).2.1 j (RdS tr.sym j) tr
      (RunS syms evs nf nv j).2.2) _ ?_ ?_ ?_
  · exact ⟨Nat.zero_le _, rfl⟩
  · intro j s hj hI
    obtain ⟨_, rfl⟩ := hI
    refine ⟨_, ?_, by omega, rfl⟩
    have hs := hsym j hj
    obtain ⟨hcase, gE, gRL, gC, gS, gev⟩ := hG j hj
    have hR1 : RdS tr.sym (j + 1) = (decodeSymbolStd (RdS tr.sym j)).2 := rfl
    have hRun : RunS syms evs nf nv (j + 1) =
        if syms[j]! = 1 then (stepS j (RunS syms evs nf nv j).1, (RunS syms evs nf nv j).2.1, (RunS syms evs nf nv j).2.2 ||| 2 ||| 16384)
        else if syms[j]! = 0 then ((RunS syms evs nf nv j).1.withBase (stepC j (RunS syms evs nf nv j).1.base),
          (RunS syms evs nf nv j).2.1, (RunS syms evs nf nv j).2.2 ||| 1)
        else
          ({ (RunS syms evs nf nv j).1.withBase (step syms[j]! j (RunS syms evs nf nv j).1.base) with
              splitActive := (splitLoop syms.length j (RunS syms evs nf nv j).2.1
                ((RunS syms evs nf nv j).1.splitActive, (RunS syms evs nf nv j).2.2 ||| symTag syms[j]!, 0)).1 },
            (splitLoop syms.length j (RunS syms evs nf nv j).2.1
                ((RunS syms evs nf nv j).1.splitActive, (RunS syms evs nf nv j).2.2 ||| symTag syms[j]!, 0)).2.1,
            (splitLoop syms.length j (RunS syms evs nf nv j).2.1
                ((RunS syms evs nf nv j).1.splitActive, (RunS syms evs nf nv j).2.2 ||| symTag syms[j]!, 0)).2.2.1) := rfl
    rw [hRun, hR1]
    rcases hcase with h7 | h5 | h3 | h0 | h1
    · have n1 : ¬ syms[j]! = 1 := by omega
      have n0 : ¬ syms[j]! = 0 := by omega
      rw [if_neg n1, if_neg n0]
      have e1 : step syms[j]! j (RunS syms evs nf nv j).1.base = stepE j (RunS syms evs nf nv j).1.base := by simp [step, h7]
      have e2 : symTag syms[j]! = 16 := by simp [symTag, h7]
      rw [e1, e2]
      rw [h7] at hs
      obtain ⟨a1, a2, a3⟩ := gE h7
      exact body_E_S nf nv syms.length evs tr hkind j _ _ _ _ hs a1 a2 a3 (by omega) (gev n0 n1)
    · have n1 : ¬ syms[j]! = 1 := by omega
      have n0 : ¬ syms[j]! = 0 := by omega
      rw [if_neg n1, if_neg n0]
      have e1 : step syms[j]! j (RunS syms evs nf nv j).1.base = stepR j (RunS syms evs nf nv j).1.base := by simp [step, h5]
      have e2 : symTag syms[j]! = 8 := by simp [symTag, h5]
      rw [e1, e2]
      rw [h5] at hs
      obtain ⟨a1, a2, a3, a4, a5, a6, a7, a8, a9, a10, a11⟩ := gRL (Or.inl h5)
      exact body_R_S nf nv syms.length evs tr hkind j _ _ _ _ (by omega) (gev n0 n1) hs a1 a2 a3 a4 a5 a6 a7 a8 a9 a10 a11
    · have n1 : ¬ syms[j]! = 1 := by omega
      have n0 : ¬ syms[j]! = 0 := by omega
      rw [if_neg n1, if_neg n0]
      have e1 : step syms[j]! j (RunS syms evs nf nv j).1.base = stepL j (RunS syms evs nf nv j).1.base := by simp [step, h3]
      have e2 : symTag syms[j]! = 4 := by simp [symTag, h3]
      rw [e1, e2]
      rw [h3] at hs
      obtain ⟨a1, a2, a3, a4, a5, a6, a7, a8, a9, a10, a11⟩ := gRL (Or.inr h3)
      exact body_L_S nf nv syms.length evs tr hkind j _ _ _ _ (by omega) (gev n0 n1) hs a1 a2 a3 a4 a5 a6 a7 a8 a9 a10 a11
    · have n1 : ¬ syms[j]! = 1 := by omega
      rw [if_neg n1, if_pos h0]
      rw [h0] at hs
      obtain ⟨a1, a2, a3, a4, a5, a6, a7, a8, a9, a10, a11, a12, a13, a14, a15, a16, a17, a18⟩ := gC h0
      exact body_C_S nf nv syms.length evs tr hkind j (RunS syms evs nf nv j).1.base _ _ _ _ _ hs a1 a2 a3 a4 a5 a6 a7 a8 a9 a10 a11 a12
        a13 a14 a15 a16 a17 a18
    · rw [if_pos h1]
      rw [h1] at hs
      obtain ⟨a, b, w, a1, a2, a3, a4, a5, a6, a7, a8, a9, a10, a11, a12, a13, a14, a15, a16, a17, a18, a19, a20, a21, a22, a23, a24⟩ := gS h1
      exact body_S nf nv syms.length evs tr hkind j _ _ _ _ a b w hs a1 a2 a3 a4 a5 a6 a7 a8 a9 a10 a11 a12 a13 a14 a15 a16 a17 a18
        a19 a20 a21 a22 a23 a24
  · intro s hs
    obtain ⟨_, rfl⟩ := hs
    have h3 : ¬ (nv < (RunS syms evs nf nv syms.length).1.vc.size) := by omega
    rw [decompM_tail]
    simp [tailM, mkStS, h3, mainOfDSS, pure, Except.pure, Eb.raise]

/-! ## `RunS` computes `StS`: the `checkSplit` loop against `applySplits` -/

/-- the split bookkeeping of `applySplits`, one event -/
def evApp (n j : Nat) (sa : Array Nat) (ev : TopoSplit) : Array Nat :=
  if ev.source = n - 1 - j ∧ ev.split < n then
    sa.set! (n - 1 - ev.split) (if ev.edge = 1 then 3 * j + 1 else 3 * j + 2)
  else sa

theorem applySplits_eq (n : Nat) (evs : List TopoSplit) (j : Nat) (sa : Array Nat) :
    applySplits n evs j sa = evs.foldl (evApp n j) sa := rfl

theorem foldl_noop (n j : Nat) : ∀ (l : List TopoSplit) (sa : Array Nat), (∀ ev, ev ∈ l → ev.source ≠ n - 1 - j) →
    l.foldl (evApp n j) sa = sa := by
  intro l
  induction l with
  | nil => intro sa _; rfl
  | cons ev l ih =>
    intro sa h
    have h1 := h ev (List.mem_cons_self ..)
    rw [List.foldl_cons]
    have : evApp n j sa ev = sa := by unfold evApp; rw [if_neg (fun hh => h1 hh.1)]
    rw [this]
    exact ih sa (fun e he => h e (List.mem_cons_of_mem _ he))

/-- on a list sorted by decreasing source with sources `≤ n - 1 - j`, the loop consumes the events of this symbol -/
theorem splitLoop_sorted (n j : Nat) : ∀ (l : List TopoSplit) (sa : Array Nat) (tg cnt : Nat),
    l.Pairwise (fun a b => a.source ≥ b.source) → (∀ ev, ev ∈ l → ev.source ≤ n - 1 - j ∧ ev.split < n) →
    (splitLoop n j l (sa, tg, cnt)).1 = l.foldl (evApp n j) sa ∧
    (splitLoop n j l (sa, tg, cnt)).2.1 = l.filter (fun ev => decide (ev.source < n - 1 - j)) := by
  intro l
  induction l with
  | nil => intro sa tg cnt _ _; exact ⟨rfl, rfl⟩
  | cons ev l ih =>
    intro sa tg cnt hp hb
    obtain ⟨hb1, hb2⟩ := hb ev (List.mem_cons_self ..)
    rw [List.pairwise_cons] at hp
    by_cases h : ev.source = n - j - 1
    · have h' : ev.source = n - 1 - j := by omega
      have e1 : splitLoop n j (ev :: l) (sa, tg, cnt) = splitLoop n j l (evSet n j sa ev, evTag tg cnt ev, cnt + 1) := by
        simp [splitLoop, h]
      obtain ⟨i1, i2⟩ := ih (evSet n j sa ev) (evTag tg cnt ev) (cnt + 1) hp.2 (fun e he => hb e (List.mem_cons_of_mem _ he))
      rw [e1, i1, i2, List.foldl_cons]
      have e2 : evApp n j sa ev = evSet n j sa ev := by
        unfold evApp evSet; rw [if_pos ⟨h', hb2⟩, Array.set!_eq_setIfInBounds]
      rw [e2]
      refine ⟨rfl, ?_⟩
      rw [List.filter_cons_of_neg (by simp; omega)]
    · have e1 : splitLoop n j (ev :: l) (sa, tg, cnt) = (sa, ev :: l, tg, cnt) := by simp [splitLoop, h]
      have hlt : ev.source < n - 1 - j := by omega
      have hall : ∀ e, e ∈ l → e.source < n - 1 - j := fun e he => by have := hp.1 e he; omega
      rw [e1]
      refine ⟨?_, ?_⟩
      · show sa = _
        rw [foldl_noop n j (ev :: l) sa]
        intro e he
        rcases List.mem_cons.mp he with rfl | he
        · omega
        · have := hall e he; omega
      · show ev :: l = _
        rw [List.filter_cons_of_pos (by simpa using hlt)]
        congr 1
        symm
        rw [List.filter_eq_self]
        intro e he
        simpa using hall e he

/-- dropping events that are no-ops does not change the fold -/
theorem foldl_filter_noop (n j : Nat) (p : TopoSplit → Bool) : ∀ (l : List TopoSplit) (sa : Array Nat),
    (∀ ev, ev ∈ l → p ev = false → ev.source ≠ n - 1 - j) → (l.filter p).foldl (evApp n j) sa = l.foldl (evApp n j) sa := by
  intro l
  induction l with
  | nil => intro sa _; rfl
  | cons ev l ih =>
    intro sa h
    by_cases hp : p ev = true
    · rw [List.filter_cons_of_pos hp, List.foldl_cons, List.foldl_cons]
      exact ih _ (fun e he => h e (List.mem_cons_of_mem _ he))
    · rw [List.filter_cons_of_neg hp, List.foldl_cons]
      have h1 := h ev (List.mem_cons_self ..) (by simpa using hp)
      have : evApp n j sa ev = sa := by unfold evApp; rw [if_neg (fun hh => h1 hh.1)]
      rw [this]
      exact ih _ (fun e he => h e (List.mem_cons_of_mem _ he))

/-- the events: sorted by decreasing source, ids in range, the source symbol is `E / R / L` -/
def EvSorted (syms : List Nat) (evs : List TopoSplit) : Prop :=
  evs.Pairwise (fun a b => a.source ≥ b.source) ∧
  ∀ ev, ev ∈ evs → ev.source < syms.length ∧ ev.split < syms.length ∧
    (syms[syms.length - 1 - ev.source]! = 7 ∨ syms[syms.length - 1 - ev.source]! = 5 ∨ syms[syms.length - 1 - ev.source]! = 3)

/-- **`RunS` computes `StS`**, and the remaining events after `j` symbols are those with a source not yet decoded -/
theorem RunS_fst (syms : List Nat) (evs : List TopoSplit) (nf nv : Nat) (hE : EvSorted syms evs)
    (_hsym : ∀ j, j < syms.length → syms[j]! = 7 ∨ syms[j]! = 5 ∨ syms[j]! = 3 ∨ syms[j]! = 0 ∨ syms[j]! = 1) :
    ∀ j, j ≤ syms.length → (RunS syms evs nf nv j).1 = StS syms evs nf nv j ∧
      (RunS syms evs nf nv j).2.1 = evs.filter (fun ev => decide (ev.source < syms.length - j)) := by
  obtain ⟨hsort, hev⟩ := hE
  intro j
  induction j with
  | zero =>
    intro _
    refine ⟨rfl, ?_⟩
    show evs = _
    symm
    rw [List.filter_eq_self]
    intro e he
    simpa using (hev e he).1
  | succ j ih =>
    intro hj
    obtain ⟨i1, i2⟩ := ih (by omega)
    -- no event has its source at a `C` or `S`
    have hno : (syms[j]! = 0 ∨ syms[j]! = 1) →
        evs.filter (fun ev => decide (ev.source < syms.length - (j + 1))) = evs.filter (fun ev => decide (ev.source < syms.length - j)) := by
      intro h01
      apply List.filter_congr
      intro e he
      obtain ⟨k1, _, k3⟩ := hev e he
      have : e.source ≠ syms.length - 1 - j := by
        intro hh
        have : syms.length - 1 - e.source = j := by omega
        rw [this] at k3
        omega
      simp only [decide_eq_decide]
      omega
    have hRun : RunS syms evs nf nv (j + 1) =
        if syms[j]! = 1 then (stepS j (RunS syms evs nf nv j).1, (RunS syms evs nf nv j).2.1, (RunS syms evs nf nv j).2.2 ||| 2 ||| 16384)
        else if syms[j]! = 0 then ((RunS syms evs nf nv j).1.withBase (stepC j (RunS syms evs nf nv j).1.base),
          (RunS syms evs nf nv j).2.1, (RunS syms evs nf nv j).2.2 ||| 1)
        else
          ({ (RunS syms evs nf nv j).1.withBase (step syms[j]! j (RunS syms evs nf nv j).1.base) with
              splitActive := (splitLoop syms.length j (RunS syms evs nf nv j).2.1
                ((RunS syms evs nf nv j).1.splitActive, (RunS syms evs nf nv j).2.2 ||| symTag syms[j]!, 0)).1 },
            (splitLoop syms.length j (RunS syms evs nf nv j).2.1
                ((RunS syms evs nf nv j).1.splitActive, (RunS syms evs nf nv j).2.2 ||| symTag syms[j]!, 0)).2.1,
            (splitLoop syms.length j (RunS syms evs nf nv j).2.1
                ((RunS syms evs nf nv j).1.splitActive, (RunS syms evs nf nv j).2.2 ||| symTag syms[j]!, 0)).2.2.1) := rfl
    have hSt : StS syms evs nf nv (j + 1) = stepSS syms.length evs syms[j]! j (StS syms evs nf nv j) := rfl
    rw [hRun, hSt]
    by_cases h1 : syms[j]! = 1
    · rw [if_pos h1]
      refine ⟨by unfold stepSS; rw [if_pos h1, i1], ?_⟩
      show (RunS syms evs nf nv j).2.1 = _
      rw [i2, hno (Or.inr h1)]
    · rw [if_neg h1]
      by_cases h0 : syms[j]! = 0
      · rw [if_pos h0]
        refine ⟨by unfold stepSS; rw [if_neg h1, if_pos h0, i1], ?_⟩
        show (RunS syms evs nf nv j).2.1 = _
        rw [i2, hno (Or.inl h0)]
      · rw [if_neg h0]
        have hfs : (evs.filter (fun ev => decide (ev.source < syms.length - j))).Pairwise (fun a b => a.source ≥ b.source) :=
          hsort.sublist List.filter_sublist
        have hfb : ∀ ev, ev ∈ evs.filter (fun ev => decide (ev.source < syms.length - j)) →
            ev.source ≤ syms.length - 1 - j ∧ ev.split < syms.length := by
          intro e he
          obtain ⟨he1, he2⟩ := List.mem_filter.mp he
          have := (hev e he1).2.1
          simp at he2
          omega
        obtain ⟨l1, l2⟩ := splitLoop_sorted syms.length j _ (RunS syms evs nf nv j).1.splitActive
          ((RunS syms evs nf nv j).2.2 ||| symTag syms[j]!) 0 hfs hfb
        rw [i2]
        refine ⟨?_, ?_⟩
        · unfold stepSS
          rw [if_neg h1, if_neg h0, l1, i1]
          dsimp only [DSS.withBase]
          rw [applySplits_eq, foldl_filter_noop syms.length j _ evs _ (fun e _ hp => by simp at hp; omega)]
        · show (splitLoop syms.length j _ _).2.1 = _
          rw [l2, List.filter_filter]
          apply List.filter_congr
          intro e _
          rw [Bool.eq_iff_iff]
          simp only [Bool.and_eq_true, decide_eq_true_eq]
          omega

/-- the decoder's checks at symbol `j`, on the pure state `StS j` -/
def GuardsS (syms : List Nat) (evs : List TopoSplit) (nf nv j : Nat) : Prop :=
  (syms[j]! = 7 ∨ syms[j]! = 5 ∨ syms[j]! = 3 ∨ syms[j]! = 0 ∨ syms[j]! = 1) ∧
  (syms[j]! = 7 → GuardE nv j (StS syms evs nf nv j)) ∧
  (syms[j]! = 5 ∨ syms[j]! = 3 → GuardRL nv j (StS syms evs nf nv j)) ∧
  (syms[j]! = 0 → GuardC j (StS syms evs nf nv j).base) ∧
  (syms[j]! = 1 → GuardS nf j (StS syms evs nf nv j))

/-- the tags of the symbol loop (a function of the symbols and the events) -/
def tagsS (syms : List Nat) (evs : List TopoSplit) (nf nv : Nat) : Nat := (RunS syms evs nf nv syms.length).2.2

/-- **the symbol loop with `S` and topology split events computes `StS`** -/
theorem connMain_StS (syms : List Nat) (evs : List TopoSplit) (nf nv : Nat) (tr : Trav) (hkind : tr.kind = 0)
    (hsym : ∀ i, i < syms.length → (decodeSymbolStd (RdS tr.sym i)).1 = syms[i]!)
    (hn : 3 * syms.length + 2 < 2 ^ 31) (hE : EvSorted syms evs)
    (hG : ∀ j, j < syms.length → GuardsS syms evs nf nv j)
    (hv : (StS syms evs nf nv syms.length).vc.size ≤ nv) :
    connMain ⟨nf, nv, syms.length, evs, true⟩ tr =
      .ok (mainOfDSS (StS syms evs nf nv syms.length) syms.length (tagsS syms evs nf nv)) := by
  have hF := RunS_fst syms evs nf nv hE (fun j hj => (hG j hj).1)
  have hlast := (hF syms.length (Nat.le_refl _)).1
  have := connMain_RunS syms evs nf nv tr hkind hsym (by omega) ?_ (by rw [hlast]; exact hv)
  · rw [this, hlast]; rfl
  · intro j hj
    obtain ⟨g0, g1, g2, g3, g4⟩ := hG j hj
    obtain ⟨f1, f2⟩ := hF j (by omega)
    refine ⟨g0, by rw [f1]; exact g1, by rw [f1]; exact g2, by rw [f1]; exact g3, by rw [f1]; exact g4, ?_⟩
    intro _ _ ev hev
    rw [f2] at hev
    obtain ⟨he1, he2⟩ := List.mem_filter.mp hev
    have := (hE.2 ev he1).2.1
    simp at he2
    omega

end Draco.EbEnc.DecSim
