import DracoModel.BitBuf
import DracoProofs.Scalar
/-
  Helper lemmas for C17 (b): `packBits` / `BitReader` are inverse.
  The reader is described by the stream of bits it is still going to deliver.
-/
namespace Draco

theorem bitsOf_length (n : Nat) : ∀ v, (bitsOf n v).length = n := by
  induction n with
  | zero => intro v; rfl
  | succ n ih => intro v; simp [bitsOf, ih]

theorem valOfBits_bitsOf (n : Nat) : ∀ v, valOfBits (bitsOf n v) = v % 2^n := by
  induction n with
  | zero => intro v; simp [bitsOf, valOfBits, Nat.mod_one]
  | succ n ih =>
    intro v
    simp only [bitsOf, valOfBits, ih]
    rw [Nat.pow_succ, Nat.mul_comm (2^n) 2, Nat.mod_mul]
    rcases Nat.mod_two_eq_zero_or_one v with h | h <;> simp [h]

theorem bitsOf_drop (k : Nat) : ∀ n v, (bitsOf n v).drop k = bitsOf (n - k) (v / 2^k) := by
  induction k with
  | zero => intro n v; simp
  | succ k ih =>
    intro n v
    cases n with
    | zero => simp [bitsOf]
    | succ n =>
      simp only [bitsOf, List.drop_succ_cons, ih]
      have : n + 1 - (k + 1) = n - k := by omega
      rw [this, Nat.div_div_eq_div_mul, Nat.pow_succ, Nat.mul_comm]

theorem bitsOf_valOfBits (l : List Bool) : ∀ n, l.length ≤ n →
    bitsOf n (valOfBits l) = l ++ List.replicate (n - l.length) false := by
  induction l with
  | nil =>
    intro n _
    simp only [valOfBits, List.length_nil, Nat.sub_zero, List.nil_append]
    induction n with
    | zero => rfl
    | succ n ih => simp [bitsOf, List.replicate_succ, ih]
  | cons b l ih =>
    intro n hn
    cases n with
    | zero => simp at hn
    | succ n =>
      simp only [List.length_cons] at hn
      simp only [bitsOf, valOfBits]
      have h1 : ((if b = true then 1 else 0) + 2 * valOfBits l) / 2 = valOfBits l := by
        cases b <;> simp <;> omega
      have h2 : (((if b = true then 1 else 0) + 2 * valOfBits l) % 2 == 1) = b := by
        cases b <;> simp <;> omega
      rw [h1, h2, ih n (by omega)]
      simp

theorem packBits_nil : packBits [] = [] := by
  rw [packBits]; simp

theorem packBits_cons (bits : List Bool) (h : bits ≠ []) :
    packBits bits = valOfBits (bits.take 8) :: packBits (bits.drop 8) := by
  rw [packBits]
  have : bits.isEmpty = false := by cases bits <;> simp_all
  simp [this]

theorem packBits_stream (n : Nat) : ∀ bits : List Bool, bits.length ≤ n →
    ∃ pad, (packBits bits).flatMap (bitsOf 8) = bits ++ pad := by
  induction n using Nat.strongRecOn with
  | ind n ih =>
    intro bits hlen
    by_cases hb : bits = []
    · subst hb; exact ⟨[], by simp [packBits_nil]⟩
    · rw [packBits_cons bits hb]
      simp only [List.flatMap_cons]
      by_cases h8 : bits.length < 8
      · have ht : bits.take 8 = bits := List.take_of_length_le (by omega)
        have hd : bits.drop 8 = [] := List.drop_of_length_le (by omega)
        rw [ht, hd, packBits_nil, bitsOf_valOfBits bits 8 (by omega)]
        exact ⟨List.replicate (8 - bits.length) false, by simp⟩
      · have hne : bits.length ≠ 0 := by
          intro h; exact hb (List.length_eq_zero_iff.mp h)
        have htl : (bits.take 8).length = 8 := by simp; omega
        obtain ⟨pad, hp⟩ := ih (n - 8) (by omega) (bits.drop 8) (by simp; omega)
        rw [hp, bitsOf_valOfBits _ 8 (by omega), htl]
        refine ⟨pad, ?_⟩
        simp only [Nat.sub_self, List.replicate_zero, List.append_nil]
        rw [← List.append_assoc, List.take_append_drop]

theorem packBits_length (n : Nat) : ∀ bits : List Bool, bits.length ≤ n →
    (packBits bits).length = (bits.length + 7) / 8 := by
  induction n using Nat.strongRecOn with
  | ind n ih =>
    intro bits hlen
    by_cases hb : bits = []
    · subst hb; simp [packBits_nil]
    · rw [packBits_cons bits hb]
      have hne : bits.length ≠ 0 := by
        intro h; exact hb (List.length_eq_zero_iff.mp h)
      simp only [List.length_cons]
      rw [ih (n - 8) (by omega) (bits.drop 8) (by simp; omega)]
      simp only [List.length_drop]
      omega

theorem packBits_isBytes (n : Nat) : ∀ bits : List Bool, bits.length ≤ n →
    IsBytes (packBits bits) := by
  induction n using Nat.strongRecOn with
  | ind n ih =>
    intro bits hlen
    by_cases hb : bits = []
    · subst hb; intro b h; simp [packBits_nil] at h
    · rw [packBits_cons bits hb]
      have hne : bits.length ≠ 0 := by
        intro h; exact hb (List.length_eq_zero_iff.mp h)
      intro b hmem
      simp only [List.mem_cons] at hmem
      rcases hmem with h | h
      · subst h
        have h1 := bitsOf_valOfBits (bits.take 8) 8 (by simp; omega)
        have h2 := valOfBits_bitsOf 8 (valOfBits (bits.take 8))
        rw [h1] at h2
        have h3 : ∀ (l : List Bool) k, valOfBits (l ++ List.replicate k false) = valOfBits l := by
          intro l k
          induction l with
          | nil =>
            induction k with
            | zero => rfl
            | succ k ihk => simp only [List.nil_append] at ihk ⊢; simp [List.replicate_succ, valOfBits, ihk]
          | cons a l ihl => simp [valOfBits, ihl]
        rw [h3] at h2
        have : valOfBits (bits.take 8) % 2^8 < 2^8 := Nat.mod_lt _ (by decide)
        omega
      · exact ih (n - 8) (by omega) (bits.drop 8) (by simp; omega) b h

/-- the bits a reader will still deliver -/
def BitReader.stream (r : BitReader) : List Bool :=
  match r.cur with
  | [] => []
  | b :: rest => (bitsOf 8 b).drop r.sh ++ rest.flatMap (bitsOf 8)

theorem stream_start (bs : Bytes) : (BitReader.start bs).stream = bs.flatMap (bitsOf 8) := by
  cases bs <;> simp [BitReader.start, BitReader.stream]

theorem bitsOf_succ (n v : Nat) : bitsOf (n+1) v = (v % 2 == 1) :: bitsOf n (v / 2) := rfl

theorem getBit_stream (r : BitReader) (hsh : r.sh < 8) (b : Bool) (S : List Bool)
    (hs : r.stream = b :: S) :
    (r.getBit).1 = (if b then 1 else 0) ∧ (r.getBit).2.stream = S ∧ (r.getBit).2.sh < 8 ∧
      (r.getBit).2.decoded = r.decoded + 1 := by
  obtain ⟨cur, sh, dec⟩ := r
  cases cur with
  | nil => simp [BitReader.stream] at hs
  | cons x rest =>
    simp only [BitReader.stream, bitsOf_drop] at hs
    simp only at hsh
    obtain ⟨m, hm⟩ : ∃ m, 8 - sh = m + 1 := ⟨8 - sh - 1, by omega⟩
    rw [hm, bitsOf_succ] at hs
    simp only [List.cons_append, List.cons.injEq] at hs
    obtain ⟨hb, hS⟩ := hs
    have hbit : (x / 2^sh) % 2 = (if b then 1 else 0) := by
      rcases Nat.mod_two_eq_zero_or_one (x / 2^sh) with h | h <;> simp [h] at hb <;> simp [← hb, h]
    unfold BitReader.getBit
    simp only
    by_cases h8 : sh + 1 = 8
    · simp only [h8, if_true]
      refine ⟨hbit, ?_, by decide, trivial⟩
      have : m = 0 := by omega
      subst this
      rw [show bitsOf 0 (x / 2^sh / 2) = [] from rfl, List.nil_append] at hS
      rw [← hS]
      cases rest <;> simp [BitReader.stream]
    · simp only [h8, if_false]
      refine ⟨hbit, ?_, by omega, trivial⟩
      simp only [BitReader.stream, bitsOf_drop]
      have : 8 - (sh + 1) = m := by omega
      rw [this, ← hS, Nat.pow_succ, ← Nat.div_div_eq_div_mul]

theorem getBitsAux_stream (n : Nat) : ∀ (i acc : Nat) (r : BitReader) (bs S : List Bool),
    r.sh < 8 → bs.length = n → r.stream = bs ++ S →
    (BitReader.getBitsAux n i acc r).1 = acc + 2^i * valOfBits bs ∧
    (BitReader.getBitsAux n i acc r).2.stream = S ∧
    (BitReader.getBitsAux n i acc r).2.sh < 8 ∧
    (BitReader.getBitsAux n i acc r).2.decoded = r.decoded + n := by
  induction n with
  | zero =>
    intro i acc r bs S hsh hl hs
    have : bs = [] := List.length_eq_zero_iff.mp hl
    subst this
    simp [BitReader.getBitsAux, valOfBits, hsh, hs]
  | succ n ih =>
    intro i acc r bs S hsh hl hs
    cases bs with
    | nil => simp at hl
    | cons b bs =>
      simp only [List.length_cons, Nat.add_right_cancel_iff] at hl
      obtain ⟨h1, h2, h3, h4⟩ := getBit_stream r hsh b (bs ++ S) (by simpa using hs)
      have hrec := ih (i+1) (acc + r.getBit.1 * 2^i) r.getBit.2 bs S h3 hl h2
      simp only [BitReader.getBitsAux]
      obtain ⟨g1, g2, g3, g4⟩ := hrec
      refine ⟨?_, g2, g3, by rw [g4, h4]; omega⟩
      rw [g1, h1, valOfBits, Nat.pow_succ]
      cases b
      · simp [Nat.mul_assoc]
      · simp only [if_true, Nat.one_mul, Nat.mul_add, Nat.mul_one, Nat.mul_assoc]; omega

theorem getMany_stream : ∀ (ops : List (Nat × Nat)) (r : BitReader) (S : List Bool),
    (∀ p ∈ ops, p.1 ≤ 32) → r.sh < 8 → r.stream = putBitsAll ops ++ S →
    ∃ r', r.getMany (ops.map (·.1)) = some (ops.map (fun p => p.2 % 2^p.1), r') ∧
      r'.stream = S ∧ r'.sh < 8 ∧ r'.decoded = r.decoded + (putBitsAll ops).length := by
  intro ops
  induction ops with
  | nil =>
    intro r S _ hsh hs
    exact ⟨r, by simp [BitReader.getMany], by simpa [putBitsAll] using hs, hsh, by simp [putBitsAll]⟩
  | cons p ops ih =>
    intro r S hw hsh hs
    have hp : p.1 ≤ 32 := hw p (by simp)
    have hs' : r.stream = bitsOf p.1 p.2 ++ (putBitsAll ops ++ S) := by
      simpa [putBitsAll, List.append_assoc] using hs
    obtain ⟨g1, g2, g3, g4⟩ :=
      getBitsAux_stream p.1 0 0 r (bitsOf p.1 p.2) (putBitsAll ops ++ S) hsh (bitsOf_length _ _) hs'
    obtain ⟨r', e1, e2, e3, e4⟩ := ih (BitReader.getBitsAux p.1 0 0 r).2 S
      (fun q hq => hw q (by simp [hq])) g3 g2
    refine ⟨r', ?_, e2, e3, ?_⟩
    · have hn : ¬ p.1 > 32 := by omega
      simp only [List.map_cons, BitReader.getMany, BitReader.getBits, hn, if_false, e1]
      rw [g1, valOfBits_bitsOf]
      simp
    · rw [e4, g4]
      simp [putBitsAll, bitsOf_length]
      omega

theorem bytesDecoded_drop (bits : List Bool) (rest : Bytes) (r : BitReader)
    (h : r.decoded = bits.length) :
    (packBits bits ++ rest).drop r.bytesDecoded = rest := by
  have hl := packBits_length bits.length bits (Nat.le_refl _)
  unfold BitReader.bytesDecoded
  rw [h, ← hl, List.drop_left]

theorem decBitRegion_enc (withSize : Bool) (ops : List (Nat × Nat)) (rest : Bytes)
    (hw : ∀ p ∈ ops, p.1 ≤ 32)
    (hlen : withSize = true → ((putBitsAll ops).length + 7) / 8 < 2^64) :
    decBitRegion false withSize (ops.map (·.1)) (encBitRegion withSize (putBitsAll ops) ++ rest) =
      some ((if withSize then some (((putBitsAll ops).length + 7) / 8) else none,
             ops.map (fun p => p.2 % 2^p.1)), rest) := by
  obtain ⟨pad, hpad⟩ := packBits_stream _ (putBitsAll ops) (Nat.le_refl _)
  have hstream : (BitReader.start (packBits (putBitsAll ops) ++ rest)).stream =
      putBitsAll ops ++ (pad ++ rest.flatMap (bitsOf 8)) := by
    rw [stream_start, List.flatMap_append, hpad, List.append_assoc]
  obtain ⟨r', e1, _, _, e4⟩ := getMany_stream ops _ _ hw (by simp [BitReader.start]) hstream
  have hdrop := bytesDecoded_drop (putBitsAll ops) rest r' (by simpa [BitReader.start] using e4)
  have hl := packBits_length _ (putBitsAll ops) (Nat.le_refl _)
  cases withSize with
  | false =>
    simp only [decBitRegion, encBitRegion, Bool.false_eq_true, if_false, e1, hdrop]
  | true =>
    have hv := decVarint_enc (w := 64) (by simp) (packBits (putBitsAll ops)).length
      (by rw [hl]; exact hlen rfl) (packBits (putBitsAll ops) ++ rest)
    rw [hl] at hv
    simp only [decBitRegion, encBitRegion, if_true, readBitRegionSize, Bool.false_eq_true, if_false,
      List.append_assoc, hl, hv, e1, hdrop]

theorem getBit_nil (r : BitReader) (h : r.cur = []) : r.getBit = (0, r) := by
  unfold BitReader.getBit; rw [h]
