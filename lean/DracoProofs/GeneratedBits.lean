import DracoProofs.GeneratedCore
import DracoModel.BitCoders
/-
  DracoProofs.GeneratedBits — `ReverseBits32`, `CountOneBits32` and `CopyBits32` (core/bit_utils.h) of lean/Generated/Funcs.lean
  (translated from clang's AST of /repo on every run by tools/vlib/xlate.py) equal the model's `reverseBits32` /
  `countOneBits32` (DracoModel/BitCoders.lean), through a bridge between the C bit operations on `Int` and the
  `Nat` bit operations of the model.
-/
namespace Draco.Generated
open Draco Draco.CInt

theorem cAnd_nat (w : Nat) (A B : Nat) (hA : A < 2^w) (hB : B < 2^w) : cAnd w (A : Int) (B : Int) = ((A &&& B : Nat) : Int) := by
  unfold cAnd pat
  have e1 : ((A : Int) % 2^w).toNat = A := by
    rw [Int.emod_eq_of_lt (by omega) (by exact_mod_cast hA)]; simp
  have e2 : ((B : Int) % 2^w).toNat = B := by
    rw [Int.emod_eq_of_lt (by omega) (by exact_mod_cast hB)]; simp
  rw [e1, e2]
theorem cOr_nat' (w : Nat) (A B : Nat) (hA : A < 2^w) (hB : B < 2^w) : cOr w (A : Int) (B : Int) = ((A ||| B : Nat) : Int) := by
  unfold cOr pat
  have e1 : ((A : Int) % 2^w).toNat = A := by
    rw [Int.emod_eq_of_lt (by omega) (by exact_mod_cast hA)]; simp
  have e2 : ((B : Int) % 2^w).toNat = B := by
    rw [Int.emod_eq_of_lt (by omega) (by exact_mod_cast hB)]; simp
  rw [e1, e2]

/-- one swap step of `ReverseBits32`: `((n >> k) & m) | ((n & m) << k)` -/
theorem reverse_step (n m k : Nat) (mI : Int) (hmI : mI = (m : Int)) (hn : n < 2^32) (hm : m * 2^k < 2^32) (hk : k ≤ 16) :
    cOr 32 (cAnd 32 ((n : Int) / 2^k) mI) (wrapU32 (cAnd 32 (n : Int) mI * 2^k)) =
      ((((n >>> k) &&& m) ||| ((n &&& m) <<< k) : Nat) : Int) ∧
    ((n >>> k) &&& m) ||| ((n &&& m) <<< k) < 2^32 := by
  subst hmI
  have hpos : 0 < 2^k := Nat.two_pow_pos k
  have hm32 : m < 2^32 := by
    calc m ≤ m * 2^k := Nat.le_mul_of_pos_right _ hpos
      _ < 2^32 := hm
  have h1 : n >>> k < 2^32 := by rw [Nat.shiftRight_eq_div_pow]; exact Nat.lt_of_le_of_lt (Nat.div_le_self _ _) hn
  have hand : n &&& m ≤ m := Nat.and_le_right
  have h2 : (n &&& m) <<< k < 2^32 := by
    rw [Nat.shiftLeft_eq]; exact Nat.lt_of_le_of_lt (Nat.mul_le_mul_right _ hand) hm
  have e1 : (n : Int) / 2^k = ((n >>> k : Nat) : Int) := by
    rw [Nat.shiftRight_eq_div_pow]; norm_cast
  have e2 : cAnd 32 (n : Int) (m : Int) = ((n &&& m : Nat) : Int) := cAnd_nat 32 n m hn hm32
  have e3 : wrapU32 (((n &&& m : Nat) : Int) * 2^k) = (((n &&& m) <<< k : Nat) : Int) := by
    rw [Nat.shiftLeft_eq]
    have : (((n &&& m : Nat) : Int) * 2^k) = (((n &&& m) * 2^k : Nat) : Int) := by norm_cast
    rw [this, ← Nat.shiftLeft_eq]
    exact wrapU32_id _ (by omega) (by exact_mod_cast h2)
  rw [e1, e2, e3, cAnd_nat 32 _ _ h1 hm32]
  have h3 : (n >>> k) &&& m < 2^32 := Nat.lt_of_le_of_lt Nat.and_le_right hm32
  refine ⟨cOr_nat' 32 _ _ h3 h2, Nat.or_lt_two_pow h3 h2⟩


theorem reverse_last (n : Nat) (hn : n < 2^32) :
    cOr 32 ((n : Int) / 2^16) (wrapU32 ((n : Int) * 2^16)) = (((n >>> 16) ||| ((n <<< 16) % 2^32) : Nat) : Int) := by
  have h1 : n >>> 16 < 2^32 := by rw [Nat.shiftRight_eq_div_pow]; exact Nat.lt_of_le_of_lt (Nat.div_le_self _ _) hn
  have e1 : (n : Int) / (2:Int)^16 = ((n >>> 16 : Nat) : Int) := by rw [Nat.shiftRight_eq_div_pow]; omega
  have e3 : wrapU32 ((n : Int) * 2^16) = (((n <<< 16) % 2^32 : Nat) : Int) := by
    rw [Nat.shiftLeft_eq]; unfold wrapU32; omega
  rw [e1, e3]
  exact cOr_nat' 32 _ _ h1 (Nat.mod_lt _ (by decide))

theorem ReverseBits32_eq_model (n : Nat) (hn : n < 2^32) : ReverseBits32 (n : Int) = (reverseBits32 n : Int) := by
  unfold ReverseBits32 reverseBits32
  simp only [cShr, cShl, Int.reduceToNat]
  obtain ⟨e1, b1⟩ := reverse_step n 0x55555555 1 1431655765 rfl hn (by decide) (by decide)
  rw [e1]
  obtain ⟨e2, b2⟩ := reverse_step _ 0x33333333 2 858993459 rfl b1 (by decide) (by decide)
  rw [e2]
  obtain ⟨e3, b3⟩ := reverse_step _ 0x0F0F0F0F 4 252645135 rfl b2 (by decide) (by decide)
  rw [e3]
  obtain ⟨e4, b4⟩ := reverse_step _ 0x00FF00FF 8 16711935 rfl b3 (by decide) (by decide)
  rw [e4]
  exact reverse_last _ b4


theorem shr_and (n m k : Nat) (mI : Int) (hmI : mI = (m : Int)) (hn : n < 2^32) (hm : m < 2^32) :
    cAnd 32 ((n : Int) / (2:Int)^k) mI = (((n >>> k) &&& m : Nat) : Int) ∧ (n >>> k) &&& m ≤ m := by
  subst hmI
  have h1 : n >>> k < 2^32 := by rw [Nat.shiftRight_eq_div_pow]; exact Nat.lt_of_le_of_lt (Nat.div_le_self _ _) hn
  have e1 : (n : Int) / (2:Int)^k = ((n >>> k : Nat) : Int) := by
    rw [Nat.shiftRight_eq_div_pow]; norm_cast
  rw [e1]
  exact ⟨cAnd_nat 32 _ _ h1 hm, Nat.and_le_right⟩

theorem and_lit (n m : Nat) (mI : Int) (hmI : mI = (m : Int)) (hn : n < 2^32) (hm : m < 2^32) :
    cAnd 32 (n : Int) mI = ((n &&& m : Nat) : Int) ∧ n &&& m ≤ m := by
  subst hmI
  exact ⟨cAnd_nat 32 _ _ hn hm, Nat.and_le_right⟩

theorem CountOneBits32_eq_model (n : Nat) (hn : n < 2^32) : CountOneBits32 (n : Int) = (countOneBits32 n : Int) := by
  unfold CountOneBits32 countOneBits32
  simp only [cShr, cShl, Int.reduceToNat]
  obtain ⟨a1, l1⟩ := shr_and n 0x55555555 1 1431655765 rfl hn (by decide)
  rw [a1]
  have e1 : wrapU32 ((n : Int) - (((n >>> 1) &&& 0x55555555 : Nat) : Int)) =
      (((n + 2^32 - ((n >>> 1) &&& 0x55555555)) % 2^32 : Nat) : Int) := by unfold wrapU32; omega
  rw [e1]
  have b1 : (n + 2^32 - ((n >>> 1) &&& 0x55555555)) % 2^32 < 2^32 := Nat.mod_lt _ (by decide)
  generalize (n + 2^32 - ((n >>> 1) &&& 0x55555555)) % 2^32 = n1 at *
  obtain ⟨a2, l2⟩ := shr_and n1 0x33333333 2 858993459 rfl b1 (by decide)
  obtain ⟨a3, l3⟩ := and_lit n1 0x33333333 858993459 rfl b1 (by decide)
  rw [a2, a3]
  have e2 : wrapU32 ((((n1 >>> 2) &&& 0x33333333 : Nat) : Int) + ((n1 &&& 0x33333333 : Nat) : Int)) =
      (((((n1 >>> 2) &&& 0x33333333) + (n1 &&& 0x33333333)) % 2^32 : Nat) : Int) := by unfold wrapU32; omega
  rw [e2]
  have b2 : (((n1 >>> 2) &&& 0x33333333) + (n1 &&& 0x33333333)) % 2^32 < 2^32 := Nat.mod_lt _ (by decide)
  generalize (((n1 >>> 2) &&& 0x33333333) + (n1 &&& 0x33333333)) % 2^32 = n2 at *
  have e3 : wrapU32 ((n2 : Int) + (n2 : Int) / (2:Int)^4) = (((n2 + (n2 >>> 4)) % 2^32 : Nat) : Int) := by
    rw [Nat.shiftRight_eq_div_pow]; unfold wrapU32; omega
  rw [e3]
  obtain ⟨a4, l4⟩ := and_lit ((n2 + (n2 >>> 4)) % 2^32) 0xF0F0F0F 252645135 rfl (Nat.mod_lt _ (by decide)) (by decide)
  rw [a4]
  generalize ((n2 + (n2 >>> 4)) % 2^32) &&& 0xF0F0F0F = q at *
  have e4 : wrapU32 ((q : Int) * 16843009) = (((q * 0x1010101) % 2^32 : Nat) : Int) := by unfold wrapU32; omega
  rw [e4]
  have b4 : (q * 0x1010101) % 2^32 < 2^32 := Nat.mod_lt _ (by decide)
  generalize (q * 0x1010101) % 2^32 = r at *
  have e5 : (r : Int) / (2:Int)^24 = ((r >>> 24 : Nat) : Int) := by rw [Nat.shiftRight_eq_div_pow]; omega
  rw [e5]
  have : r >>> 24 < 2^8 := by rw [Nat.shiftRight_eq_div_pow]; omega
  exact wrapI32_id _ (by omega) (by omega)


/-! ### `CopyBits32` -/

theorem xor_ones (m : Nat) (h : m < 2^32) : m ^^^ 0xFFFFFFFF = 2^32 - 1 - m := by
  have h1 : (~~~ (BitVec.ofNat 32 m)).toNat = 2^32 - 1 - m := by
    rw [BitVec.toNat_not]; simp [Nat.mod_eq_of_lt h]
  have h2 : (~~~ (BitVec.ofNat 32 m)).toNat = m ^^^ 0xFFFFFFFF := by
    rw [← BitVec.xor_allOnes, BitVec.toNat_xor]
    simp [Nat.mod_eq_of_lt h]
  omega

theorem shl_wrap (a k : Nat) : wrapU32 (cShl (a : Int) (k : Int)) = (((a <<< k) % 2^32 : Nat) : Int) := by
  unfold cShl
  have e : ((k : Int)).toNat = k := by simp
  rw [e, Nat.shiftLeft_eq]
  have : (a : Int) * 2 ^ k = ((a * 2 ^ k : Nat) : Int) := by norm_cast
  rw [this]; unfold wrapU32; omega

theorem shr_nat (a k : Nat) : cShr (a : Int) (k : Int) = ((a >>> k : Nat) : Int) := by
  unfold cShr
  have e : ((k : Int)).toNat = k := by simp
  rw [e, Nat.shiftRight_eq_div_pow]; norm_cast

theorem CopyBits32_eq_model (dst dOff src sOff nbits : Nat) (hd : dst < 2^32) (hn : nbits ≤ 32) :
    CopyBits32 (dst : Int) (dOff : Int) (src : Int) (sOff : Int) (nbits : Int) =
      (copyBits32 dst dOff src sOff nbits : Int) := by
  unfold CopyBits32 copyBits32
  have m0 : wrapU32 (-0 - 1) = ((0xFFFFFFFF : Nat) : Int) := by decide
  have e32 : wrapI32 (32 - (nbits : Int)) = ((32 - nbits : Nat) : Int) := by
    rw [wrapI32_id _ (by omega) (by omega)]; omega
  rw [m0, e32, shr_nat, shl_wrap, shr_nat, shl_wrap]
  have hM : ((0xFFFFFFFF >>> (32 - nbits)) <<< dOff) % 2^32 < 2^32 := Nat.mod_lt _ (by decide)
  generalize ((0xFFFFFFFF >>> (32 - nbits)) <<< dOff) % 2^32 = M at *
  have hS : ((src >>> sOff) <<< dOff) % 2^32 < 2^32 := Nat.mod_lt _ (by decide)
  generalize ((src >>> sOff) <<< dOff) % 2^32 = S at *
  have en : wrapU32 (-(M : Int) - 1) = ((M ^^^ 0xFFFFFFFF : Nat) : Int) := by
    rw [xor_ones M hM]; unfold wrapU32; omega
  have hX : M ^^^ 0xFFFFFFFF < 2^32 := by rw [xor_ones M hM]; omega
  dsimp only
  rw [en, cAnd_nat 32 _ _ hd hX, cAnd_nat 32 _ _ hS hM]
  exact cOr_nat' 32 _ _ (Nat.lt_of_le_of_lt Nat.and_le_left hd) (Nat.lt_of_le_of_lt Nat.and_le_right hM)

end Draco.Generated
