import DracoProofs.EbDecSim
import DracoProofs.EbCountsRun
/-
  ENCODER HALF of the connectivity link for SPLIT-FREE traversals: the abstract trace `DecSim.Trace` (DracoProofs/EbDecSim.lean)
  holds of the result of a successful `encodeConnectivity` (standard traversal, no attribute data) that produced no symbol
  `S` and no interior start face.

  `trace_of_run : encodeConnectivity ch false pf #[] = .ok conn → (∀ x ∈ conn.symbols.toList, x ≠ topoS) →
     conn.symbols.size = conn.processed.size → Trace conn.ct conn.processed conn.symbols.toList.reverse`
  (`processed.size = symbols.size` says that there is no interior start face: `processed = P.reverse ++ initFaceCorners`
  and the traversal pushes one symbol per corner of `P`).

  The invariant `TrInv` records for every corner `P[i]` (ENCODER order) and its symbol what the traversal knew when it
  processed it, with TIMESTAMPS: `Before P i y` — the corner `y` is invalid or in a face processed before `P[i]`;
  `NextIs P cur i y` — `y` is the corner processed next (`P[i + 1]`, or the current corner while it is not yet pushed); for
  `C` the flag `Coverage.CFlag` (tip not on a hole, every visited face at the tip has index ≥ i).  At the end the closure of
  the visited faces under adjacency (`Coverage.Closed`, traversal completeness) turns `CFlag` into "every other face of the
  fan of the tip is processed later".
-/
namespace Draco.EbEnc.EncTrace
open Draco
open Draco.Eb hiding nextC prevC iabs
open Draco.EbEnc.EncCounts Draco.EbEnc.Coverage Draco.EbEnc.DecSim AttViews

/-! ## the timestamped invariant -/

/-- `y` is invalid or lies in a face processed before `P[i]` -/
def Before (P : Array Nat) (i y : Nat) : Prop := y = inv ∨ ∃ i', i' < i ∧ i' < P.size ∧ P[i']! / 3 = y / 3

/-- `y` is the corner processed right after `P[i]` -/
def NextIs (P : Array Nat) (cur i y : Nat) : Prop :=
  y ≠ inv ∧ ((y = cur ∧ i + 1 = P.size) ∨ (i + 1 < P.size ∧ P[i + 1]! = y))

structure TrEnt (t : CT) (holeId : Array Nat) (vf : Array Bool) (P sy : Array Nat) (cur i : Nat) : Prop where
  g : Before P i t.opp[P[i]!]!
  e : sy[i]! = topoE → Before P i t.opp[Eb.nextC P[i]!]! ∧ Before P i t.opp[Eb.prevC P[i]!]!
  r : sy[i]! = topoR → Before P i t.opp[Eb.nextC P[i]!]! ∧ NextIs P cur i t.opp[Eb.prevC P[i]!]!
  l : sy[i]! = topoL → NextIs P cur i t.opp[Eb.nextC P[i]!]! ∧ Before P i t.opp[Eb.prevC P[i]!]!
  c : sy[i]! = topoC → NextIs P cur i t.opp[Eb.nextC P[i]!]! ∧ CFlag t holeId vf P i
  k : sy[i]! = topoC ∨ sy[i]! = topoS ∨ sy[i]! = topoL ∨ sy[i]! = topoR ∨ sy[i]! = topoE

structure TrInv (t : CT) (holeId : Array Nat) (vf : Array Bool) (P sy : Array Nat) (cur : Nat) : Prop where
  ent : ∀ i, i < P.size → TrEnt t holeId vf P sy cur i
  sz : sy.size = P.size

theorem Before.push {P : Array Nat} {i y c : Nat} (h : Before P i y) : Before (P.push c) i y := by
  rcases h with h | ⟨i', h1, h2, h3⟩
  · exact Or.inl h
  · exact Or.inr ⟨i', h1, by simp; omega, by rw [push_get!, if_neg (by omega)]; exact h3⟩

theorem NextIs.push {P : Array Nat} {c cur' i y : Nat} (h : NextIs P c i y) : NextIs (P.push c) cur' i y := by
  obtain ⟨hne, h | ⟨h1, h2⟩⟩ := h
  · refine ⟨hne, Or.inr ⟨by simp; omega, ?_⟩⟩
    rw [push_get!, if_pos h.2, h.1]
  · refine ⟨hne, Or.inr ⟨by simp; omega, ?_⟩⟩
    rw [push_get!, if_neg (by omega)]; exact h2

/-- **one traversal step** on the timestamped invariant: `c` is pushed with the symbol `x` -/
theorem TrInv.visit {t : CT} {holeId : Array Nat} {vf : Array Bool} {P sy : Array Nat} {c cur' x : Nat}
    (h : TrInv t holeId vf P sy c) (hlt : c / 3 < vf.size)
    (hnew : TrEnt t holeId (vf.setIfInBounds (c / 3) true) (P.push c) (sy.push x) cur' P.size) :
    TrInv t holeId (vf.setIfInBounds (c / 3) true) (P.push c) (sy.push x) cur' := by
  refine ⟨?_, by simp [h.sz]⟩
  intro i hi
  rw [Array.size_push] at hi
  by_cases hlast : i = P.size
  · rw [hlast]; exact hnew
  have hi' : i < P.size := by omega
  have eP : (P.push c)[i]! = P[i]! := by rw [push_get!, if_neg hlast]
  have eS : (sy.push x)[i]! = sy[i]! := by rw [push_get!, if_neg (by rw [h.sz]; exact hlast)]
  obtain ⟨g, e, r, l, cc, k⟩ := h.ent i hi'
  rw [← eS] at e r l cc k
  refine ⟨by rw [eP]; exact g.push, ?_, ?_, ?_, ?_, k⟩
  · intro hs; rw [eP]; exact ⟨(e hs).1.push, (e hs).2.push⟩
  · intro hs; rw [eP]; exact ⟨(r hs).1.push, (r hs).2.push⟩
  · intro hs; rw [eP]; exact ⟨(l hs).1.push, (l hs).2.push⟩
  · intro hs; rw [eP]; exact ⟨(cc hs).1.push, (cc hs).2.push hi' hlt⟩

/-- a new current corner is taken from the stack -/
theorem TrInv.recur {t : CT} {holeId : Array Nat} {vf : Array Bool} {P sy : Array Nat} (cur' : Nat)
    (h : TrInv t holeId vf P sy inv) : TrInv t holeId vf P sy cur' := by
  have hn : ∀ i y, NextIs P inv i y → NextIs P cur' i y := by
    intro i y ⟨hne, h'⟩
    rcases h' with h' | h'
    · exact absurd h'.1 hne
    · exact ⟨hne, Or.inr h'⟩
  refine ⟨fun i hi => ?_, h.sz⟩
  obtain ⟨g, e, r, l, cc, k⟩ := h.ent i hi
  exact ⟨g, e, fun hs => ⟨(r hs).1, hn _ _ (r hs).2⟩, fun hs => ⟨hn _ _ (l hs).1, (l hs).2⟩,
    fun hs => ⟨hn _ _ (cc hs).1, (cc hs).2⟩, k⟩

/-- a visited face has a time stamp (no interior start face so far) -/
theorem before_of_vis {t : CT} {vf vv : Array Bool} {P : Array Nat} (hInv : Inv t vf vv P #[]) {y : Nat}
    (h : Vis vf y) : Before P P.size y := by
  rcases h with h | h
  · exact Or.inl h
  right
  have hc := hInv.cnt (y / 3)
  rw [if_pos h] at hc
  have hpos : 0 < (P.toList ++ (#[] : Array Nat).toList).countP (fun c => c / 3 == y / 3) := by omega
  rw [List.countP_pos_iff] at hpos
  obtain ⟨c, hcm, hcf⟩ := hpos
  simp only [Array.toList_empty, List.append_nil] at hcm
  obtain ⟨i, hi, e⟩ := mem_toList_iff_get.mp hcm
  exact ⟨i, hi, hi, by rw [e]; simpa using hcf⟩

/-! ## the traversal loop -/

theorem topo_vals : topoC = 0 ∧ topoS = 1 ∧ topoL = 3 ∧ topoR = 5 ∧ topoE = 7 := by decide

/-- the entry of the corner that is pushed -/
theorem TrEnt.new {t : CT} {holeId : Array Nat} {vf' : Array Bool} {P sy : Array Nat} {c x cur' : Nat}
    (hsz : sy.size = P.size) (g : Before P P.size t.opp[c]!)
    (e : x = topoE → Before P P.size t.opp[Eb.nextC c]! ∧ Before P P.size t.opp[Eb.prevC c]!)
    (r : x = topoR → Before P P.size t.opp[Eb.nextC c]! ∧ t.opp[Eb.prevC c]! ≠ inv ∧ t.opp[Eb.prevC c]! = cur')
    (l : x = topoL → (t.opp[Eb.nextC c]! ≠ inv ∧ t.opp[Eb.nextC c]! = cur') ∧ Before P P.size t.opp[Eb.prevC c]!)
    (cc : x = topoC → (t.opp[Eb.nextC c]! ≠ inv ∧ t.opp[Eb.nextC c]! = cur') ∧ CFlag t holeId vf' (P.push c) P.size)
    (k : x = topoC ∨ x = topoS ∨ x = topoL ∨ x = topoR ∨ x = topoE) :
    TrEnt t holeId vf' (P.push c) (sy.push x) cur' P.size := by
  have eP : (P.push c)[P.size]! = c := by rw [push_get!, if_pos rfl]
  have eS : (sy.push x)[P.size]! = x := by rw [push_get!, if_pos hsz.symm]
  have hn : ∀ y, y ≠ inv ∧ y = cur' → NextIs (P.push c) cur' P.size y :=
    fun y hy => ⟨hy.1, Or.inl ⟨hy.2, by simp⟩⟩
  rw [← eS] at e r l cc k
  refine ⟨by rw [eP]; exact g.push, ?_, ?_, ?_, ?_, k⟩
  · intro hs; rw [eP]; exact ⟨(e hs).1.push, (e hs).2.push⟩
  · intro hs; rw [eP]; exact ⟨(r hs).1.push, hn _ (r hs).2⟩
  · intro hs; rw [eP]; exact ⟨hn _ (l hs).1, (l hs).2.push⟩
  · intro hs; rw [eP]; exact ⟨hn _ (cc hs).1, (cc hs).2⟩

/-- the traversal loop continues: timestamps, and the current corner is valid -/
def TrY (t : CT) (holeId : Array Nat) (s : InSt) : Prop :=
  TrInv t holeId s.1 s.2.2.2.2.2.1 s.2.2.2.2.1 s.2.2.2.2.2.2.2.2.2.2.2.1 ∧ s.2.2.2.2.2.2.2.2.2.2.2.1 ≠ inv

/-- the traversal loop is left -/
def TrQ (t : CT) (holeId : Array Nat) (s : InSt) : Prop :=
  TrInv t holeId s.1 s.2.2.2.2.2.1 s.2.2.2.2.1 inv

section loops
variable {t : CT} (hT : TblOK t) {holeId : Array Nat}
include hT

theorem innerTail_tr {valence : Bool} {vh : Array Bool} {splits : Array TopoSplit} {f2s : Array Nat} {lsid : Int}
    {nss nv face lastCorner vertId : Nat} {onB : Bool} {val : ValEnc} {sy : Array Nat}
    {vf vv1 : Array Bool} {P stack : Array Nat} {c : Nat} {r : ForInStep InSt}
    (hTr : TrInv t holeId vf P sy c) (hc : c < t.c2v.size) (hlt : c / 3 < vf.size)
    (hg : Before P P.size t.opp[c]!)
    (hbef : ∀ y, Vis (vf.setIfInBounds (c / 3) true) y → (y ≠ inv → y / 3 ≠ c / 3) → Before P P.size y)
    (hb : innerTail t holeId valence (vf.setIfInBounds (c / 3) true) vh (P.push c) splits f2s lsid nss stack nv face
      lastCorner vertId onB () vv1 val sy c = .ok r) :
    StepOK (TrY t holeId) (TrQ t holeId) r := by
  have hk := hT.ctok
  have hcinv : c < inv := hT.lt_inv hc
  have hn : Eb.nextC c < t.numCorners := hk.next_lt hc
  have hp : Eb.prevC c < t.numCorners := hk.prev_lt hc
  obtain ⟨vC, vS, vL, vR, vE⟩ := topo_vals
  unfold innerTail at hb
  obtain ⟨rc, hR, hb⟩ := (bind_ok_iff _ _ _).mp hb
  obtain ⟨lc, hL, hb⟩ := (bind_ok_iff _ _ _).mp hb
  obtain ⟨rv, hb, hrv1, hrv2⟩ := visited_absorb hb
  obtain ⟨lv, hb, hlv1, hlv2⟩ := visited_absorb hb
  have erc : t.opp[Eb.nextC c]! = rc := by
    rw [← vget_eq]; exact (opposite_get (hT.base.ne_inv hn) hR).2
  have elc : t.opp[Eb.prevC c]! = lc := by
    rw [← vget_eq]; exact (opposite_get (hT.base.ne_inv hp) hL).2
  -- neighbours lie in other faces
  have faceR : rc ≠ inv → rc / 3 ≠ c / 3 := by
    intro hne
    have := hk.oppface _ hn (by rw [vget_eq, erc]; exact hne)
    rw [vget_eq, erc, nextC_div3 c hcinv] at this
    exact this
  have faceL : lc ≠ inv → lc / 3 ≠ c / 3 := by
    intro hne
    have := hk.oppface _ hp (by rw [vget_eq, elc]; exact hne)
    rw [vget_eq, elc, prevC_div3 c hcinv] at this
    exact this
  have visOf : ∀ (x : Nat) (b : Bool), ((x != inv) = true → rdB "visited_faces_" (vf.setIfInBounds (c / 3) true) (faceOf x) = .ok b) →
      (¬ (x != inv) = true → b = true) → b = true → Vis (vf.setIfInBounds (c / 3) true) x := by
    intro x b h1 h2 hbt
    by_cases hx : x = inv
    · exact Or.inl hx
    · have hne : (x != inv) = true := by simpa using hx
      have := (rdB_get (h1 hne)).2
      rw [faceOf_ne hx, hbt] at this
      exact Or.inr this
  have neOf : ∀ (x : Nat) (b : Bool), (¬ (x != inv) = true → b = true) → b = false → x ≠ inv := by
    intro x b h2 hbf hx
    have := h2 (by simp [hx])
    rw [hbf] at this; cases this
  rcases ite_ok hb with ⟨hrvt, hb⟩ | ⟨hrvf, hb⟩
  · have hbr : Before P P.size rc := hbef rc (visOf rc rv hrv1 hrv2 hrvt) faceR
    over_splits hb =>
      rcases ite_ok hb with ⟨hlvt, hb⟩ | ⟨hlvf, hb⟩
      · -- E
        have hbl : Before P P.size lc := hbef lc (visOf lc lv hlv1 hlv2 hlvt) faceL
        over_splits hb =>
          obtain ⟨val1, hb⟩ := ite_bind_absorb hb
          refine Or.inr ⟨_, pure_ok hb, ?_⟩
          apply hTr.visit hlt
          exact TrEnt.new hTr.sz hg (fun _ => by rw [erc, elc]; exact ⟨hbr, hbl⟩)
            (fun h => by rw [vE, vR] at h; omega) (fun h => by rw [vE, vL] at h; omega)
            (fun h => by rw [vE, vC] at h; omega) (Or.inr (Or.inr (Or.inr (Or.inr rfl))))
      · -- R
        have hlf : lv = false := by simpa using hlvf
        have hlne := neOf lc lv hlv2 hlf
        obtain ⟨val1, hb⟩ := ite_bind_absorb hb
        refine Or.inl ⟨_, pure_ok hb, ?_, hlne⟩
        apply hTr.visit hlt
        exact TrEnt.new hTr.sz hg (fun h => by rw [vE, vR] at h; omega)
          (fun _ => by rw [erc, elc]; exact ⟨hbr, hlne, rfl⟩) (fun h => by rw [vR, vL] at h; omega)
          (fun h => by rw [vR, vC] at h; omega) (Or.inr (Or.inr (Or.inr (Or.inl rfl))))
  · have hrf : rv = false := by simpa using hrvf
    have hrne := neOf rc rv hrv2 hrf
    rcases ite_ok hb with ⟨hlvt, hb⟩ | ⟨hlvf, hb⟩
    · -- L
      have hbl : Before P P.size lc := hbef lc (visOf lc lv hlv1 hlv2 hlvt) faceL
      over_splits hb =>
        obtain ⟨val1, hb⟩ := ite_bind_absorb hb
        refine Or.inl ⟨_, pure_ok hb, ?_, hrne⟩
        apply hTr.visit hlt
        exact TrEnt.new hTr.sz hg (fun h => by rw [vE, vL] at h; omega) (fun h => by rw [vL, vR] at h; omega)
          (fun _ => by rw [erc, elc]; exact ⟨⟨hrne, rfl⟩, hbl⟩)
          (fun h => by rw [vL, vC] at h; omega) (Or.inr (Or.inr (Or.inl rfl)))
    · -- S
      obtain ⟨val1, hb⟩ := ite_bind_absorb hb
      have fin : ∀ (vv2 vh2 : Array Bool) {x : Eb.R (ForInStep InSt)}, x = .ok r →
          (∀ f2s', x = pure (ForInStep.done ((vf.setIfInBounds (c / 3) true), vv2, vh2, val1, sy.push topoS, P.push c,
            splits, f2s', lsid, nss + 1, (stack.set! (stack.size - 1) lc).push rc, c, nv)) →
            StepOK (TrY t holeId) (TrQ t holeId) r) := by
        intro vv2 vh2 x hx f2s' e
        rw [e] at hx
        refine Or.inr ⟨_, pure_ok hx, ?_⟩
        apply hTr.visit hlt
        exact TrEnt.new hTr.sz hg (fun h => by rw [vE, vS] at h; omega) (fun h => by rw [vS, vR] at h; omega)
          (fun h => by rw [vS, vL] at h; omega) (fun h => by rw [vS, vC] at h; omega) (Or.inr (Or.inl rfl))
      rcases ite_ok hb with ⟨_, hb⟩ | ⟨_, hb⟩
      · obtain ⟨hole, _, hb⟩ := (bind_ok_iff _ _ _).mp hb
        obtain ⟨hv, _, hb⟩ := (bind_ok_iff _ _ _).mp hb
        rcases ite_ok hb with ⟨_, hb⟩ | ⟨_, hb⟩
        · obtain ⟨x, hx, hb⟩ := (bind_ok_iff _ _ _).mp hb
          obtain ⟨vv2, vh2⟩ := x
          obtain ⟨f2s', _, hb⟩ := (bind_ok_iff _ _ _).mp hb
          exact fin vv2 vh2 hb f2s' rfl
        · obtain ⟨f2s', _, hb⟩ := (bind_ok_iff _ _ _).mp hb
          exact fin vv1 vh hb f2s' rfl
      · obtain ⟨f2s', _, hb⟩ := (bind_ok_iff _ _ _).mp hb
        exact fin vv1 vh hb f2s' rfl

theorem innerBody_tr {valence : Bool} {vfS : Array Bool} {p0 y0 : Nat} (hH : HolesOK t holeId) (x : Nat) (s : InSt)
    (r : ForInStep InSt) (hI : IIn t #[] s) (hX : XIn t holeId vfS p0 y0 s) (hnv : s.2.2.2.2.2.2.2.2.2.2.2.2 < t.numFaces)
    (hTr : TrY t holeId s) (hb : innerBody t holeId valence t.numFaces x s = .ok r) :
    StepOK (TrY t holeId) (TrQ t holeId) r := by
  obtain ⟨vf, vv, vh, val, sy, P, sp, f2s, ls, nss, st, c, nv⟩ := s
  obtain ⟨hInv, hSt, hCur⟩ := hI
  obtain ⟨hC, _, _⟩ := hX
  obtain ⟨hTr, hcne⟩ := hTr
  dsimp only at hInv hSt hCur hC hTr hcne hnv
  have hk := hT.ctok
  have h3 := hk.three
  obtain ⟨vC, vS, vL, vR, vE⟩ := topo_vals
  unfold innerBody at hb
  rcases ite_ok hb with ⟨hge, hb⟩ | ⟨_, hb⟩
  · have : nv ≥ t.numFaces := hge
    omega
  obtain ⟨vf', hvf, hb⟩ := (bind_ok_iff _ _ _).mp hb
  obtain ⟨vertId, hvert, hb⟩ := (bind_ok_iff _ _ _).mp hb
  obtain ⟨hid, hhid, hb⟩ := (bind_ok_iff _ _ _).mp hb
  obtain ⟨vis, hvis, hb⟩ := (bind_ok_iff _ _ _).mp hb
  obtain ⟨_, evis⟩ := rdB_get hvis
  have hlt : c / 3 < vf.size := by
    have := (wrB_get hvf).1
    rw [faceOf_ne hcne] at this; exact this
  have evf : vf' = vf.setIfInBounds (c / 3) true := by
    have := (wrB_get hvf).2
    rw [faceOf_ne hcne] at this; exact this
  subst evf
  have hc : c < t.c2v.size := by
    rcases hCur with e | ⟨e, _⟩
    · exact absurd e hcne
    · rcases e with e | e
      · exact absurd e hcne
      · exact e.1
  have hun : vf.getD (c / 3) false = false := by
    rcases hCur with e | ⟨_, e⟩
    · exact absurd e hcne
    · exact e
  have hcnd : isDegenA t.c2v (c / 3) = false := by
    rcases hCur with e | ⟨e, _⟩
    · exact absurd e hcne
    · rcases e with e | e
      · exact absurd e hcne
      · exact e.2.1
  have evert : t.c2v[c]! = vertId := by rw [← vget_eq]; exact (vertex_get hcne hvert).2
  have hg : Before P P.size t.opp[c]! := by
    rcases hC.curG with e | e
    · exact absurd e hcne
    · exact before_of_vis hInv e
  have hbef : ∀ y, Vis (vf.setIfInBounds (c / 3) true) y → (y ≠ inv → y / 3 ≠ c / 3) → Before P P.size y := by
    intro y hy hface
    apply before_of_vis hInv
    rcases hy with e | e
    · exact Or.inl e
    · by_cases hyi : y = inv
      · exact Or.inl hyi
      · rw [bget_set' _ _ _ _ hlt, if_neg (hface hyi)] at e
        exact Or.inr e
  rcases ite_ok hb with ⟨hnvis, hb⟩ | ⟨_, hb⟩
  · obtain ⟨vv', hvv', hb⟩ := (bind_ok_iff _ _ _).mp hb
    rcases ite_ok hb with ⟨hnb, hb⟩ | ⟨_, hb⟩
    · -- C
      obtain ⟨val1, hb⟩ := ite_bind_absorb hb
      obtain ⟨o, ho, hb⟩ := (bind_ok_iff _ _ _).mp hb
      have hn : Eb.nextC c < t.numCorners := hk.next_lt hc
      have eo : t.opp[Eb.nextC c]! = o := by
        rw [← vget_eq]; exact (opposite_get (hT.base.ne_inv hn) ho).2
      have hhole : vget holeId (t.c2v[c]!) = inv := by
        rw [evert]
        have : hid = inv := by simpa using hnb
        rw [← this]; exact (rd_get hhid).2
      -- the fan of the tip is closed: there is a right neighbour
      have hoi : o ≠ inv := by
        have hcl := hT.fan_closed hH hc hcnd hhole
        obtain ⟨P0, hO, _⟩ := CountsIso.orbit_exists hT.base hc
        obtain ⟨J, rfl⟩ : ∃ J, P0 = J + 1 := ⟨P0 - 1, by have := hO.pos; omega⟩
        have hper : iter (sRP t.opp) (J + 1) c = c := by
          rcases hO.fin with e | e
          · exact absurd e (hcl _)
          · exact e
        have hJlt := AP.iter_sR_lt hT.base hc J (hcl J)
        have hsl := (hT.base.sR_sL hJlt (by rw [← iter_succ' (sRP t.opp) J c]; exact hper) hcne).2
        intro e
        rw [sLP_eq _ hcne, eo, e, nextC_inv] at hsl
        exact hcl J hsl.symm
      refine Or.inl ⟨_, pure_ok hb, ?_, hoi⟩
      apply hTr.visit hlt
      refine TrEnt.new hTr.sz hg (fun h => by rw [vE, vC] at h; omega) (fun h => by rw [vC, vR] at h; omega)
        (fun h => by rw [vC, vL] at h; omega) (fun _ => ⟨by rw [eo]; exact ⟨hoi, rfl⟩, ?_⟩) (Or.inl rfl)
      have e : (P.push c)[P.size]! = c := by rw [push_get!, if_pos rfl]
      refine ⟨by rw [e]; exact hhole, ?_⟩
      intro z hz hzv hzvis
      rw [e] at hzv
      refine ⟨P.size, Nat.le_refl _, by simp, ?_⟩
      rw [e]
      apply Classical.byContradiction
      intro hne'
      rw [bget_set' _ _ _ _ hlt, if_neg (fun h => hne' h.symm)] at hzvis
      have := hInv.verts (z / 3) hzvis (z % 3) (Nat.mod_lt _ (by omega))
      rw [show 3 * (z / 3) + z % 3 = z by omega, vget_eq, hzv, evert, evis] at this
      have hf : vis = false := by simpa using hnvis
      rw [hf] at this; cases this
    · exact innerTail_tr hT hTr hc hlt hg hbef hb
  · exact innerTail_tr hT hTr hc hlt hg hbef hb

end loops

/-! ## the stack loop, one call, the loop over the faces -/

section loops2
variable {t : CT} (hT : TblOK t) {holeId : Array Nat} (hH : HolesOK t holeId)
include hT hH

/-- invariant of the stack loop (no current corner) -/
def TrS (t : CT) (holeId : Array Nat) (s : StSt) : Prop :=
  TrInv t holeId s.1 s.2.2.2.2.2.1 s.2.2.2.2.1 inv

theorem stackBody_tr {valence : Bool} {vfS : Array Bool} {p0 y0 : Nat} (x : Nat) (s : StSt) (r : ForInStep StSt)
    (hI : ISt t #[] s) (hX : XSt t holeId vfS p0 y0 s) (hTr : TrS t holeId s)
    (hb : stackBody t holeId valence t.numFaces x s = .ok r) :
    StepOK (TrS t holeId) (TrS t holeId) r := by
  obtain ⟨vf, vv, vh, val, sy, P, sp, f2s, ls, nss, st, fin⟩ := s
  obtain ⟨hInv, hSt⟩ := hI
  obtain ⟨hC, hfin⟩ := hX
  dsimp only at hInv hSt hC hfin hTr
  have hTr' : TrInv t holeId vf P sy inv := hTr
  subst hfin
  have hk := hT.ctok
  have h3 := hk.three
  unfold stackBody at hb
  rcases ite_ok hb with ⟨hemp, hb⟩ | ⟨hne, hb⟩
  · exact Or.inr ⟨_, pure_ok hb, hTr'⟩
  have hne' : st.isEmpty = false := by simpa using hne
  rcases ite_ok hb with ⟨hinv, hb⟩ | ⟨hninv, hb⟩
  · exact Or.inl ⟨_, pure_ok hb, hTr'⟩
  have hbi : st.back! ≠ inv := by simpa using hninv
  obtain ⟨b, hb1, hb⟩ := (bind_ok_iff _ _ _).mp hb
  rcases ite_ok hb with ⟨hvis, hb⟩ | ⟨hnvis, hb⟩
  · exact Or.inl ⟨_, pure_ok hb, hTr'⟩
  obtain ⟨s2, hloop, hb⟩ := (bind_ok_iff _ _ _).mp hb
  have hbmem : st.back! ∈ st.toList := by
    rw [mem_toList_iff_get]
    have hpos : 0 < st.size := by
      rcases Nat.eq_zero_or_pos st.size with e | e
      · rw [Array.isEmpty_iff_size_eq_zero.mpr e] at hne'; cases hne'
      · exact e
    exact ⟨st.size - 1, by omega, (back!_eq st).symm⟩
  have hcur : CurOK t vf vv st.back! := by
    refine Or.inr ⟨hSt.back hne', ?_⟩
    rw [(rdB_get hb1).2]
    simpa using hnvis
  have hC0 : CallInv t holeId vfS p0 y0 vf P st st.back! := by
    apply hC.weaken
    · intro y hy
      rcases hy with hy | hy | hy
      · exact Or.inl hy
      · exact Or.inr (Or.inl hy)
      · rw [hy]; exact Or.inl (Or.inl rfl)
    · exact hC.stG
    · exact hC.stG _ hbmem
  have h2 := range_loop t.numFaces (innerBody t holeId valence t.numFaces)
    (fun j s => IIn t #[] s ∧ XInN t holeId vfS p0 y0 j s ∧ TrY t holeId s)
    (fun s => IInQ t #[] s ∧ XQ t holeId vfS p0 y0 s ∧ TrQ t holeId s)
    (by
      intro j s r hj ⟨hI, ⟨hX, hn⟩, hY⟩ hr
      have h1 := innerBody_inv hk j s r hI hr
      have h2 := innerBody_cov hT j s r hI hX hr
      have h3 := innerBody_tr hT hH j s r hI hX (by rw [hn]; exact hj) hY hr
      rcases h1 with ⟨s', e1, hs1⟩ | ⟨s', e1, hs1⟩
      · rcases h2 with ⟨s'', e2, hs2⟩ | ⟨s'', e2, _⟩
        · rw [e1] at e2; cases e2
          rcases h3 with ⟨s3, e3, hs3⟩ | ⟨s3, e3, _⟩
          · rw [e1] at e3; cases e3
            exact Or.inl ⟨s', e1, hs1, ⟨hs2.1, by rw [hs2.2, hn]⟩, hs3⟩
          · rw [e1] at e3; cases e3
        · rw [e1] at e2; cases e2
      · rcases h2 with ⟨s'', e2, _⟩ | ⟨s'', e2, hs2⟩
        · rw [e1] at e2; cases e2
        · rw [e1] at e2; cases e2
          rcases h3 with ⟨s3, e3, _⟩ | ⟨s3, e3, hs3⟩
          · rw [e1] at e3; cases e3
          · rw [e1] at e3; cases e3
            exact Or.inr ⟨s', e1, hs1, hs2, hs3⟩)
    _ s2 ⟨⟨hInv, hSt, hcur⟩, ⟨⟨hC0, ⟨hne', Or.inl rfl⟩, Nat.zero_le _⟩, rfl⟩, hTr'.recur st.back!, hbi⟩ hloop
  have hQ : TrQ t holeId s2 := by
    rcases h2 with ⟨hI2, ⟨hX2, hn2⟩, hY2⟩ | h
    · -- the loop cannot run `num_faces` times and still have an unvisited current corner
      exfalso
      have hall := all_of_vcount (vf := s2.1) (n := t.numFaces) (by have := hX2.2.2; omega)
      rcases hI2.2.2 with e | ⟨e, hun⟩
      · exact hY2.2 e
      · rcases e with e | e
        · exact hY2.2 e
        · have := hall (s2.2.2.2.2.2.2.2.2.2.2.2.1 / 3) (by have := e.1; omega)
          rw [hun] at this; cases this
    · exact h.2.2
  obtain ⟨vf2, vv2, vh2, val2, sy2, P2, sp2, f2s2, ls2, nss2, st2, c2, nv2⟩ := s2
  exact Or.inl ⟨_, pure_ok hb, hQ⟩

theorem outerTail_tr {valence : Bool} {val : ValEnc} {sy : Array Nat}
    {sf : RAnsBitEnc} {sfs : Array Bool} {P : Array Nat} {sp : Array TopoSplit} {f2s : Array Nat} {ls : Int} {nss : Nat}
    {vf vv vh : Array Bool} {from_ : Nat} {r : ForInStep OSt}
    (hInv : Inv t vf vv P #[]) (hfrom : CornerOK t vv from_) (hgate : GateOK t vf from_)
    (hTr : TrInv t holeId vf P sy inv)
    (hb : outerTail t holeId valence t.numFaces val sy sf sfs P sp f2s ls nss () vf vv vh #[] from_ = .ok r) :
    ∃ s', r = .yield s' ∧ TrInv t holeId s'.1 s'.2.2.2.2.2.2.2.1 s'.2.2.2.2.1 inv ∧ s'.2.2.2.2.2.2.1 = sfs ∧
      s'.2.2.2.2.2.2.2.2.1 = #[] := by
  have hk := hT.ctok
  unfold outerTail at hb
  rcases ite_ok hb with ⟨hfi, hb⟩ | ⟨_, hb⟩
  · exact ⟨_, pure_ok hb, hTr, rfl, rfl⟩
  obtain ⟨s2, hloop, hb⟩ := (bind_ok_iff _ _ _).mp hb
  have hC0 : CallInv t holeId vf P.size from_ vf P #[from_] inv := by
    refine ⟨fun i h1 h2 => by omega, fun f h => Or.inl h, fun f h => h, ?_, Or.inl rfl, ?_, Nat.le_refl _⟩
    · intro y hy
      simp only [List.mem_singleton] at hy
      rw [hy]; exact hgate
    · exact Or.inr (Or.inl (by simp))
  have h2 := range_loop (4 * t.numFaces + 16) (stackBody t holeId valence t.numFaces)
    (fun _ s => ISt t #[] s ∧ XSt t holeId vf P.size from_ s ∧ TrS t holeId s)
    (fun s => ISt t #[] s ∧ XStQ t holeId vf P.size from_ s ∧ TrS t holeId s)
    (by
      intro j s r _ ⟨hI, hX, hS⟩ hr
      have h1 := stackBody_inv hk j s r hI hr
      have h2 := stackBody_cov hT j s r hI hX hr
      have h3 := stackBody_tr hT hH j s r hI hX hS hr
      rcases h1 with ⟨s', e1, hs1⟩ | ⟨s', e1, hs1⟩
      · rcases h2 with ⟨s'', e2, hs2⟩ | ⟨s'', e2, _⟩
        · rw [e1] at e2; cases e2
          rcases h3 with ⟨s3, e3, hs3⟩ | ⟨s3, e3, _⟩
          · rw [e1] at e3; cases e3
            exact Or.inl ⟨s', e1, hs1, hs2, hs3⟩
          · rw [e1] at e3; cases e3
        · rw [e1] at e2; cases e2
      · rcases h2 with ⟨s'', e2, _⟩ | ⟨s'', e2, hs2⟩
        · rw [e1] at e2; cases e2
        · rw [e1] at e2; cases e2
          rcases h3 with ⟨s3, e3, _⟩ | ⟨s3, e3, hs3⟩
          · rw [e1] at e3; cases e3
          · rw [e1] at e3; cases e3
            exact Or.inr ⟨s', e1, hs1, hs2, hs3⟩)
    (vf, vv, vh, val, sy, P, sp, f2s, ls, nss, #[from_], false) s2
    ⟨⟨hInv, StackOK.single hfrom⟩, ⟨hC0, rfl⟩, hTr⟩ hloop
  have hS2 : TrS t holeId s2 := by
    rcases h2 with h | h <;> exact h.2.2
  obtain ⟨vf2, vv2, vh2, val2, sy2, P2, sp2, f2s2, ls2, nss2, st2, fin2⟩ := s2
  rcases ite_ok hb with ⟨_, hb⟩ | ⟨_, hb⟩
  · exact (throw_bind_ne hb).elim
  · exact ⟨_, pure_ok hb, hS2, rfl, rfl⟩

/-- the loop over the faces: the timestamped invariant as long as there is no interior start face -/
theorem outerBody_tr {valence : Bool} (cId : Nat) (s : OSt) (r : ForInStep OSt) (hcId : cId < t.numCorners)
    (hI : Coverage.OInv t s)
    (hTr : s.2.2.2.2.2.2.2.2.1 = #[] → TrInv t holeId s.1 s.2.2.2.2.2.2.2.1 s.2.2.2.2.1 inv)
    (hSF : (∀ b, b ∈ s.2.2.2.2.2.2.1.toList → b = false) → s.2.2.2.2.2.2.2.2.1 = #[])
    (hb : outerBody t holeId valence t.numFaces cId s = .ok r) :
    ∃ s', r = .yield s' ∧ s.2.2.2.2.2.2.2.2.1.size ≤ s'.2.2.2.2.2.2.2.2.1.size ∧
      (s'.2.2.2.2.2.2.2.2.1 = #[] → TrInv t holeId s'.1 s'.2.2.2.2.2.2.2.1 s'.2.2.2.2.1 inv) ∧
      ((∀ b, b ∈ s'.2.2.2.2.2.2.1.toList → b = false) → s'.2.2.2.2.2.2.2.2.1 = #[]) := by
  obtain ⟨vf, vv, vh, val, sy, sf, sfs, P, ifc, sp, f2s, ls, nss⟩ := s
  obtain ⟨hIO, hClosed⟩ := hI
  have hInv : Inv t vf vv P ifc := hIO
  dsimp only at hTr hSF
  have hk := hT.ctok
  have h3 := hk.three
  have hfit := hk.fits
  have hf : cId / 3 < t.numFaces := by
    have : cId < t.c2v.size := hcId
    omega
  unfold outerBody at hb
  obtain ⟨b, hb1, hb⟩ := (bind_ok_iff _ _ _).mp hb
  rcases ite_ok hb with ⟨hvis, hb⟩ | ⟨hnv, hb⟩
  · exact ⟨_, pure_ok hb, Nat.le_refl _, hTr, hSF⟩
  obtain ⟨d, hd, hb⟩ := (bind_ok_iff _ _ _).mp hb
  have ed := isDegenerated_ok hk hf hd
  rcases ite_ok hb with ⟨hdt, hb⟩ | ⟨hnd, hb⟩
  · exact ⟨_, pure_ok hb, Nat.le_refl _, hTr, hSF⟩
  have hnd' : isDegenA t.c2v (cId / 3) = false := by
    rw [← ed]; simpa using hnd
  obtain ⟨x, hx, hb⟩ := (bind_ok_iff _ _ _).mp hb
  obtain ⟨interior, sc⟩ := x
  obtain ⟨hsp1, hsp2⟩ := findInit_spec hk hf hx
  simp only [] at hb
  rcases ite_ok hb with ⟨hint, hb⟩ | ⟨hnint, hb⟩
  · -- an interior start face: the list of init faces becomes non-empty
    obtain ⟨v0, _, hb⟩ := (bind_ok_iff _ _ _).mp hb
    obtain ⟨v1, _, hb⟩ := (bind_ok_iff _ _ _).mp hb
    obtain ⟨v2, _, hb⟩ := (bind_ok_iff _ _ _).mp hb
    obtain ⟨vv1, _, hb⟩ := (bind_ok_iff _ _ _).mp hb
    obtain ⟨vv2, _, hb⟩ := (bind_ok_iff _ _ _).mp hb
    obtain ⟨vv3, _, hb⟩ := (bind_ok_iff _ _ _).mp hb
    obtain ⟨vf', _, hb⟩ := (bind_ok_iff _ _ _).mp hb
    obtain ⟨oppId, _, hb⟩ := (bind_ok_iff _ _ _).mp hb
    obtain ⟨b2, _, hb⟩ := (bind_ok_iff _ _ _).mp hb
    -- whichever corner the traversal starts from, the init faces are `ifc.push _` afterwards
    have fin : ∀ from_, outerTail t holeId valence t.numFaces val sy (sf.encodeBit interior) (sfs.push interior) P sp
        f2s ls nss () vf' vv3 vh (ifc.push (Eb.nextC sc)) from_ = .ok r →
        ∃ s', r = .yield s' ∧ ifc.size ≤ s'.2.2.2.2.2.2.2.2.1.size ∧
          (s'.2.2.2.2.2.2.2.2.1 = #[] → TrInv t holeId s'.1 s'.2.2.2.2.2.2.2.1 s'.2.2.2.2.1 inv) ∧
          ((∀ b, b ∈ s'.2.2.2.2.2.2.1.toList → b = false) → s'.2.2.2.2.2.2.2.2.1 = #[]) := by
      intro from_ hb
      have hsf : ¬ ∀ b, b ∈ (sfs.push interior).toList → b = false := by
        intro h
        have := h interior (by simp)
        rw [this] at hint; cases hint
      unfold outerTail at hb
      rcases ite_ok hb with ⟨_, hb⟩ | ⟨_, hb⟩
      · refine ⟨_, pure_ok hb, by simp, fun h => ?_, fun h => absurd h hsf⟩
        simp at h
      · obtain ⟨s2, _, hb⟩ := (bind_ok_iff _ _ _).mp hb
        rcases ite_ok hb with ⟨_, hb⟩ | ⟨_, hb⟩
        · exact (throw_bind_ne hb).elim
        · refine ⟨_, pure_ok hb, by simp, fun h => ?_, fun h => absurd h hsf⟩
          simp at h
    rcases ite_ok hb with ⟨_, hb⟩ | ⟨_, hb⟩
    · exact fin _ hb
    · exact fin _ hb
  · -- a face at a hole
    have hst := hsp2 (by simpa using hnint)
    obtain ⟨hsclt, hso, hsnd⟩ := hst
    have hsci : sc < inv := by omega
    obtain ⟨x2, hx2, hb⟩ := (bind_ok_iff _ _ _).mp hb
    obtain ⟨vv', vh'⟩ := x2
    obtain ⟨hm, hg⟩ := encodeHole_spec hx2
    simp only [] at hb
    by_cases hifc : ifc = #[]
    · subst hifc
      have hnl : Eb.nextC sc < inv := Eb.nextC_lt sc hsci
      obtain ⟨g1, g2⟩ := hg rfl hnl (by rw [prevC_nextC' sc hsci]; exact hso)
      rw [prevC_nextC' sc hsci] at g2
      have hco : CornerOK t vv' sc := by
        refine Or.inr ⟨hsclt, ?_, g1, g2⟩
        rcases hsnd with e | e
        · rw [e]; exact hnd'
        · exact e
      have hgate : GateOK t vf sc := by
        right; left
        rw [← vget_eq]
        exact (opposite_get (by omega) hso).2
      obtain ⟨s', hr, hTr', _, hifc'⟩ := outerTail_tr hT hH (hInv.mono hm) hco hgate (hTr rfl) hb
      exact ⟨s', hr, by simp, fun _ => hTr', fun _ => hifc'⟩
    · -- there was an interior start face already: only the size of the list matters
      unfold outerTail at hb
      have hpos : 0 < ifc.size := by
        rcases Nat.eq_zero_or_pos ifc.size with e | e
        · exact absurd (Array.eq_empty_of_size_eq_zero e) hifc
        · exact e
      have hsf : ¬ ∀ b, b ∈ (sfs.push interior).toList → b = false := by
        intro h
        apply hifc
        apply hSF
        intro b hb'
        exact h b (by rw [Array.toList_push]; exact List.mem_append_left _ hb')
      rcases ite_ok hb with ⟨_, hb⟩ | ⟨_, hb⟩
      · refine ⟨_, pure_ok hb, Nat.le_refl _, fun h => ?_, fun h => absurd h hsf⟩
        exact absurd h hifc
      · obtain ⟨s2, _, hb⟩ := (bind_ok_iff _ _ _).mp hb
        rcases ite_ok hb with ⟨_, hb⟩ | ⟨_, hb⟩
        · exact (throw_bind_ne hb).elim
        · refine ⟨_, pure_ok hb, Nat.le_refl _, fun h => ?_, fun h => absurd h hsf⟩
          exact absurd h hifc

end loops2

/-! ## from the final state to the trace -/

theorem sL_eq_sLP (t : CT) {c : Nat} (h : c ≠ inv) : sL t c = sLP t.opp c := by
  rw [sLP_eq _ h]; rfl

/-- the three vertices of a non-degenerate face -/
theorem nondeg_three {c2v : Array Nat} {c : Nat} (hc : c < inv) (hn : Eb.nextC c < inv) (hp : Eb.prevC c < inv)
    (hnd : isDegenA c2v (c / 3) = false) :
    c2v[c]! ≠ c2v[Eb.nextC c]! ∧ c2v[c]! ≠ c2v[Eb.prevC c]! ∧ c2v[Eb.nextC c]! ≠ c2v[Eb.prevC c]! := by
  have h1 := nondeg_prev (c2v := c2v) hc hnd
  have h2 := nondeg_prev (c2v := c2v) hn (by rw [nextC_div3 c hc]; exact hnd)
  have h3 := nondeg_prev (c2v := c2v) hp (by rw [prevC_div3 c hc]; exact hnd)
  rw [prevC_nextC' c hc] at h2
  rw [prevC_prevC' c hc] at h3
  exact ⟨h2, fun e => h1 e.symm, h3⟩

/-- two corners of one non-degenerate face with the same vertex are equal -/
theorem same_corner {c2v : Array Nat} {a b : Nat} (ha : a < inv) (hb : b < inv) (hn : Eb.nextC b < inv)
    (hp : Eb.prevC b < inv) (hnd : isDegenA c2v (b / 3) = false) (hf : a / 3 = b / 3) (hv : c2v[a]! = c2v[b]!) :
    a = b := by
  obtain ⟨h1, h2, _⟩ := nondeg_three hb hn hp hnd
  rcases same_face ha hb hf with e | e | e
  · exact e
  · rw [e] at hv; exact absurd hv.symm h1
  · rw [e] at hv; exact absurd hv.symm h2

section fan
variable {t : CT} (hT : TblOK t) {holeId : Array Nat} (hH : HolesOK t holeId)
include hT hH

/-- **the fan of the tip of a `C`**: closed, and every other face of it is processed later -/
theorem fan_of_cflag {vf vv : Array Bool} {P : Array Nat} (hInv : Inv t vf vv P #[]) (hcl : Closed t vf) {i : Nat}
    (hi : i < P.size) (hcf : CFlag t holeId vf P i) :
    ∃ m, 2 ≤ m ∧ m ≤ P.size ∧ sLk t m P[i]! = P[i]! ∧
      ∀ k, k < m → 0 < k → sLk t k P[i]! ≠ inv ∧ ∃ i', i < i' ∧ i' < P.size ∧ P[i']! / 3 = sLk t k P[i]! / 3 := by
  have hk := hT.ctok
  have hb := hT.base
  have hfit := hb.le
  obtain ⟨hc, hcv⟩ := inv_entry hk hInv i hi
  have hci := hT.lt_inv hc
  have hcne : P[i]! ≠ inv := by omega
  have hnd := hInv.nd _ hcv
  have hclf := hT.fan_closed hH hc hnd hcf.1
  obtain ⟨m, hO, _⟩ := CountsIso.orbit_exists hb hc
  obtain ⟨J, rfl⟩ : ∃ J, m = J + 1 := ⟨m - 1, by have := hO.pos; omega⟩
  have hper : iter (sRP t.opp) (J + 1) P[i]! = P[i]! := by
    rcases hO.fin with e | e
    · exact absurd e (hclf _)
    · exact e
  have hw := hT.walk hc hnd
  have hsl : ∀ k, sLP t.opp (iter (sRP t.opp) (k + 1) P[i]!) = iter (sRP t.opp) k P[i]! := by
    intro k
    exact (hb.sR_sL (hw k (hclf k)).1 (iter_succ' (sRP t.opp) k P[i]!).symm (hclf (k + 1))).2
  -- `SwingLeft^k` is `SwingRight^(m - k)`
  have hsLk : ∀ k, k ≤ J + 1 → sLk t k P[i]! = iter (sRP t.opp) (J + 1 - k) P[i]! := by
    intro k
    induction k with
    | zero => intro _; show P[i]! = _; rw [Nat.sub_zero, hper]
    | succ k ih =>
      intro hk'
      show sL t (sLk t k P[i]!) = _
      rw [ih (by omega), sL_eq_sLP t (hclf _), show J + 1 - k = (J + 1 - (k + 1)) + 1 by omega, hsl]
  -- every face of the fan is visited
  have hvis : ∀ d, d ≤ J + 1 → vf.getD (iter (sRP t.opp) (J + 1 - d) P[i]! / 3) false = true := by
    intro d
    induction d with
    | zero => intro _; rw [Nat.sub_zero, hper]; exact hcv
    | succ d ih =>
      intro hd
      have h1 := ih (by omega)
      rw [show J + 1 - d = (J + 1 - (d + 1)) + 1 by omega, iter_succ'] at h1
      exact (link_sR hT (hw _ (hclf _)).1
        (by rw [← iter_succ' (sRP t.opp) (J + 1 - (d + 1)) P[i]!]; exact hclf _)).2 vf hcl h1
  -- the faces of the fan are pairwise different
  have hinj : ∀ a b, a ≤ J → b ≤ J → iter (sRP t.opp) a P[i]! / 3 = iter (sRP t.opp) b P[i]! / 3 → a = b := by
    intro a b ha hb' e
    have hwa := hw a (hclf a)
    have hwb := hw b (hclf b)
    have hlb := hT.lt_inv hwb.1
    have := same_corner (c2v := t.c2v) (hT.lt_inv hwa.1) hlb (hT.lt_inv (hk.next_lt hwb.1))
      (hT.lt_inv (hk.prev_lt hwb.1)) hwb.2.1 e (by rw [hwa.2.2, hwb.2.2])
    have hinj' := walk_inj hb (f := P[i]!) (j := J) (fun i' hi' => (hw i' (hclf i')).1)
      (fun i' h1 h2 => hO.nef i' h1 (by omega))
    rcases Nat.lt_trichotomy a b with h | h | h
    · exact absurd this (hinj' a b h hb')
    · exact h
    · exact absurd this.symm (hinj' b a h ha)
  -- every face of the fan is a processed face
  have hmem : ∀ k, k ≤ J → ∃ i', i ≤ i' ∧ i' < P.size ∧ P[i']! / 3 = iter (sRP t.opp) k P[i]! / 3 := by
    intro k hk'
    have := hvis (J + 1 - k) (by omega)
    rw [show J + 1 - (J + 1 - k) = k by omega] at this
    exact hcf.2 _ (hw k (hclf k)).1 (hw k (hclf k)).2.2 this
  refine ⟨J + 1, ?_, ?_, by rw [hsLk _ (Nat.le_refl _), Nat.sub_self]; rfl, ?_⟩
  · -- the right neighbour lies in another face
    rcases Nat.eq_zero_or_pos J with e | e
    · exfalso
      subst e
      have h1 : sRP t.opp P[i]! = P[i]! := hper
      have hp := hk.prev_lt hc
      rw [sRP_eq _ hcne] at h1
      have ho : t.opp[Eb.prevC P[i]!]! ≠ inv := by
        intro e; rw [e, prevC_inv] at h1; exact hcne h1.symm
      have hf := hk.oppface _ hp (by rw [vget_eq]; exact ho)
      obtain ⟨holt, _⟩ := hb.invol _ hp ho
      rw [vget_eq, prevC_div3 _ hci, ← prevC_div3 _ (hT.lt_inv holt), h1] at hf
      exact hf rfl
    · omega
  · -- at most as many faces as processed corners
    have hsub : ((List.range (J + 1)).map (fun k => iter (sRP t.opp) k P[i]! / 3)) ⊆ P.toList.map (· / 3) := by
      intro f hf
      rw [List.mem_map] at hf
      obtain ⟨k, hk', rfl⟩ := hf
      obtain ⟨i', _, h2, h3⟩ := hmem k (by have := List.mem_range.mp hk'; omega)
      rw [List.mem_map]
      exact ⟨P[i']!, mem_toList_iff_get.mpr ⟨i', h2, rfl⟩, h3⟩
    have hnodup : ((List.range (J + 1)).map (fun k => iter (sRP t.opp) k P[i]! / 3)).Nodup := by
      apply List.Nodup.map_on _ List.nodup_range
      intro a ha b hb' e
      exact hinj a b (by have := List.mem_range.mp ha; omega) (by have := List.mem_range.mp hb'; omega) e
    have := hnodup.length_le_of_subset hsub
    simpa using this
  · intro k hkm hk0
    rw [hsLk k (by omega)]
    refine ⟨hclf _, ?_⟩
    obtain ⟨i', h1, h2, h3⟩ := hmem (J + 1 - k) (by omega)
    refine ⟨i', ?_, h2, h3⟩
    rcases Nat.lt_or_ge i i' with h | h
    · exact h
    · exfalso
      have e : i' = i := by omega
      rw [e] at h3
      have := hinj 0 (J + 1 - k) (by omega) (by omega) h3
      omega

end fan

theorem list_reverse_get! (l : List Nat) (j : Nat) (hj : j < l.length) : l.reverse[j]! = l[l.length - 1 - j]! := by
  rw [getElem!_pos l.reverse j (by simpa using hj), getElem!_pos l (l.length - 1 - j) (by omega), List.getElem_reverse]

theorem array_reverse_get! (P : Array Nat) (j : Nat) (hj : j < P.size) : (P.reverse ++ #[])[j]! = P[P.size - 1 - j]! := by
  rw [Array.append_empty]
  simp only [Array.getElem!_eq_getD, Array.getD_eq_getD_getElem?]
  rw [Array.getElem?_reverse hj]

theorem toList_get! (a : Array Nat) (i : Nat) : a.toList[i]! = a[i]! := by
  by_cases h : i < a.size
  · rw [getElem!_pos a.toList i (by simpa using h), getElem!_pos a i h, Array.getElem_toList]
  · rw [getElem!_neg a.toList i (by simpa using h), getElem!_neg a i h]

/-- **from the final state of the main loop to the trace** -/
theorem trace_of_state {t : CT} (hT : TblOK t) {holeId : Array Nat} (hH : HolesOK t holeId) {vf vv : Array Bool}
    {P sy : Array Nat} (hInv : Inv t vf vv P #[]) (hcl : Closed t vf) (hTr : TrInv t holeId vf P sy inv)
    (hnoS : ∀ x, x ∈ sy.toList → x ≠ topoS) :
    Trace t (P.reverse ++ #[]) sy.toList.reverse := by
  have hk := hT.ctok
  have hfit := hT.base.le
  obtain ⟨vC, vS, vL, vR, vE⟩ := topo_vals
  have hsz : (P.reverse ++ #[]).size = P.size := by simp
  have hPd := array_reverse_get! P
  -- later / earlier in decoder order
  have later_of : ∀ i, i < P.size → ∀ y, Before P i y → Later (P.reverse ++ #[]) (P.size - 1 - i) y := by
    intro i hi y hy
    rcases hy with e | ⟨i', h1, h2, h3⟩
    · exact Or.inl e
    · right
      refine ⟨P.size - 1 - i', by rw [hsz]; omega, by omega, ?_⟩
      rw [hPd _ (by omega), show P.size - 1 - (P.size - 1 - i') = i' by omega, h3]
  have next_of : ∀ i, i < P.size → ∀ y, NextIs P inv i y →
      0 < P.size - 1 - i ∧ y = (P.reverse ++ #[])[P.size - 1 - i - 1]! := by
    intro i hi y ⟨hne, h⟩
    rcases h with h | ⟨h1, h2⟩
    · exact absurd h.1 hne
    · refine ⟨by omega, ?_⟩
      rw [hPd _ (by omega), show P.size - 1 - (P.size - 1 - i - 1) = i + 1 by omega, h2]
  refine ⟨by simp [hTr.sz], ?_, ?_⟩
  · -- the faces are pairwise different
    have hnodup : (P.toList.map (· / 3)).Nodup := by
      rw [List.nodup_iff_count_le_one]
      intro f
      rw [List.count_eq_countP, List.countP_map]
      have := hInv.cnt f
      simp only [Array.toList_empty, List.append_nil] at this
      have e : List.countP ((fun x => x == f) ∘ fun x => x / 3) P.toList =
          List.countP (fun c => c / 3 == f) P.toList := by
        apply List.countP_congr; intro c _; simp [Function.comp]
      rw [e, this]
      split <;> omega
    intro j hj j' hj' e
    rw [hsz] at hj hj'
    rw [hPd j hj, hPd j' hj'] at e
    have h1 : P.size - 1 - j < (P.toList.map (· / 3)).length := by simp; omega
    have h2 : P.size - 1 - j' < (P.toList.map (· / 3)).length := by simp; omega
    have := (hnodup.getElem_inj_iff (hi := h1) (hj := h2)).mp (by
      simp only [List.getElem_map, Array.getElem_toList]
      rw [← getElem!_pos P _ (by omega), ← getElem!_pos P _ (by omega)]
      exact e)
    omega
  · intro j hj
    rw [hsz] at hj
    have hi : P.size - 1 - j < P.size := by omega
    obtain ⟨g, e, r, l, cc, kk⟩ := hTr.ent _ hi
    obtain ⟨hc, hcv⟩ := inv_entry hk hInv _ hi
    have hci := hT.lt_inv hc
    have hnd := hInv.nd _ hcv
    have esym : sy.toList.reverse[j]! = sy[P.size - 1 - j]! := by
      rw [list_reverse_get! _ _ (by simp [hTr.sz]; exact hj), toList_get!]
      simp [hTr.sz]
    have hjj : P.size - 1 - (P.size - 1 - j) = j := by omega
    unfold TraceAt
    rw [hPd j hj, esym]
    refine ⟨hc, by have := later_of _ hi _ g; rw [hjj] at this; exact this,
      nondeg_three hci (hT.lt_inv (hk.next_lt hc)) (hT.lt_inv (hk.prev_lt hc)) hnd, ?_, ?_, ?_, ?_, ?_⟩
    · intro hs
      obtain ⟨h1, h2⟩ := e (by rw [hs, vE])
      have a1 := later_of _ hi _ h1
      have a2 := later_of _ hi _ h2
      rw [hjj] at a1 a2
      exact ⟨a1, a2⟩
    · intro hs
      obtain ⟨h1, h2⟩ := r (by rw [hs, vR])
      have a1 := later_of _ hi _ h1
      obtain ⟨b1, b2⟩ := next_of _ hi _ h2
      rw [hjj] at a1 b1 b2
      exact ⟨b1, a1, b2⟩
    · intro hs
      obtain ⟨h1, h2⟩ := l (by rw [hs, vL])
      have a2 := later_of _ hi _ h2
      obtain ⟨b1, b2⟩ := next_of _ hi _ h1
      rw [hjj] at a2 b1 b2
      exact ⟨b1, b2, a2⟩
    · intro hs
      obtain ⟨h1, h2⟩ := cc (by rw [hs, vC])
      obtain ⟨b1, b2⟩ := next_of _ hi _ h1
      rw [hjj] at b1 b2
      obtain ⟨m, m1, m2, m3, m4⟩ := fan_of_cflag hT hH hInv hcl hi h2
      refine ⟨b1, b2, m, by rw [hsz]; omega, m1, m3, ?_⟩
      intro k hk1 hk2
      obtain ⟨n1, i', n2, n3, n4⟩ := m4 k hk1 hk2
      refine ⟨n1, P.size - 1 - i', by omega, ?_⟩
      rw [hPd _ (by omega), show P.size - 1 - (P.size - 1 - i') = i' by omega, n4]
    · have hmem : sy[P.size - 1 - j]! ∈ sy.toList :=
        mem_toList_iff_get.mpr ⟨_, by rw [hTr.sz]; exact hi, rfl⟩
      have hS := hnoS _ hmem
      rw [vC, vS, vL, vR, vE] at kk
      rw [vS] at hS
      omega

/-! ## the run -/

theorem trInv_init (t : CT) (holeId : Array Nat) (vf : Array Bool) : TrInv t holeId vf #[] #[] inv :=
  ⟨fun i hi => by simp at hi, rfl⟩

/-- **trace_of_run**: a successful `encodeConnectivity` (standard traversal, no attribute data) without a symbol `S` and
    with boundary start faces only satisfies the abstract trace `DecSim.Trace`: `conn.processed` are the gate corners in
    decoder order, the reversed `conn.symbols` the symbols in decoder order; and `processed` is the reversed list of the
    traversal's corners (no initial face) -/
theorem trace_of_run (ch : ConnChoices) (pf : Faces) (conn : ConnEnc)
    (h : encodeConnectivity ch false pf #[] = .ok conn)
    (hnoS : ∀ x, x ∈ conn.symbols.toList → x ≠ topoS)
    (hstart : ∀ b, b ∈ conn.startFaces.toList → b = false) :
    Trace conn.ct conn.processed conn.symbols.toList.reverse ∧ TblOK conn.ct ∧
      conn.symbols.size = conn.processed.size := by
  have hrun := h
  rw [encodeConnectivity_eq] at hrun
  split at hrun
  · rename_i table hcreate
    have hT := tblOK_ofTable hcreate
    simp only [] at hrun
    rcases ite_ok hrun with ⟨_, hrun⟩ | ⟨_, hrun⟩
    · exact (throw_bind_ne hrun).elim
    obtain ⟨x, hx, hrun⟩ := (bind_ok_iff _ _ _).mp hrun
    have hH : HolesOK (CT.ofTable table) x.1 := findHoles_spec hT (nh := x.2) hx
    obtain ⟨atts, _, hrun⟩ := (bind_ok_iff _ _ _).mp hrun
    obtain ⟨val, hrun⟩ := ite_bind_both hrun
    obtain ⟨s, hloop, hrun⟩ := (bind_ok_iff _ _ _).mp hrun
    have hI : (Coverage.OInv (CT.ofTable table) s ∧
        (s.2.2.2.2.2.2.2.2.1 = #[] → TrInv (CT.ofTable table) x.1 s.1 s.2.2.2.2.2.2.2.1 s.2.2.2.2.1 inv) ∧
        ((∀ b, b ∈ s.2.2.2.2.2.2.1.toList → b = false) → s.2.2.2.2.2.2.2.2.1 = #[])) ∨ False := by
      refine range_loop _ _
        (fun _ s => Coverage.OInv (CT.ofTable table) s ∧
          (s.2.2.2.2.2.2.2.2.1 = #[] → TrInv (CT.ofTable table) x.1 s.1 s.2.2.2.2.2.2.2.1 s.2.2.2.2.1 inv) ∧
          ((∀ b, b ∈ s.2.2.2.2.2.2.1.toList → b = false) → s.2.2.2.2.2.2.2.2.1 = #[]))
        (fun _ => False) ?_ _ s ?_ hloop
      · intro j s r hj ⟨hO, hTr, hSF⟩ hr
        left
        obtain ⟨s', e, hO', _, _⟩ := outerBody_cov hT hH j s r hj hO hr
        obtain ⟨s'', e', hsz, hTr', hSF'⟩ := outerBody_tr hT hH j s r hj hO hTr hSF hr
        rw [e] at e'; cases e'
        exact ⟨s', e, hO', hTr', hSF'⟩
      · exact ⟨⟨inv_init (CT.ofTable table) _ _ rfl, closed_init _ _⟩, fun _ => trInv_init _ _ _, fun _ => rfl⟩
    obtain ⟨hO, hTr, hSF⟩ := hI.resolve_right (fun h => h)
    obtain ⟨vf, vv, vh, val2, sy, sf, sfs, P, ifc, sp, f2s, ls, nss⟩ := s
    dsimp only at hTr hSF
    obtain ⟨sb, _, hrun⟩ := (bind_ok_iff _ _ _).mp hrun
    have hconn : conn.ct = CT.ofTable table ∧ conn.processed = P.reverse ++ ifc ∧ conn.symbols = sy ∧
        conn.startFaces = sfs := by
      rcases ite_ok hrun with ⟨_, hrun⟩ | ⟨_, hrun⟩
      · obtain ⟨cb, _, hrun⟩ := (bind_ok_iff _ _ _).mp hrun
        have := pure_ok hrun
        rw [this]
        exact ⟨rfl, rfl, rfl, rfl⟩
      · have := pure_ok hrun
        rw [this]
        exact ⟨rfl, rfl, rfl, rfl⟩
    obtain ⟨e1, e2, e3, e4⟩ := hconn
    have hifc : ifc = #[] := hSF (by rw [← e4]; exact hstart)
    subst hifc
    have hInv : Inv (CT.ofTable table) vf vv P #[] := hO.1
    have hTr' := hTr rfl
    rw [e1, e2, e3]
    refine ⟨trace_of_state hT hH hInv hO.2 hTr' (by rw [← e3]; exact hnoS), hT, ?_⟩
    simp [hTr'.sz]
  · simp only [throw, throwThe, MonadExceptOf.throw] at hrun
    cases hrun

/-! ## the vertex cover of the run, and the isomorphism -/

/-- `hcov` / `hvlt` of `DecSim.ctIso_of_inv` for the result of a successful run -/
theorem cover_of_run (ch : ConnChoices) (valence : Bool) (pf : Faces) (acv : Array (Nat × Array Nat)) (conn : ConnEnc)
    (h : encodeConnectivity ch valence pf acv = .ok conn) :
    (∀ d, d < 3 * conn.processed.size →
      ∃ k, iter (sRP conn.ct.opp) k conn.ct.vc[conn.ct.c2v[phi conn.processed d]!]! = phi conn.processed d) ∧
    (∀ d, d < 3 * conn.processed.size → conn.ct.c2v[phi conn.processed d]! < conn.ct.numVertices) := by
  obtain ⟨table, _, hcreate, hct, _⟩ := encodeConnectivity_visited ch valence pf acv conn h
  have hnd := CountsIso.phi_nondeg_of_run h hcreate hct
  have hT := tblOK_ofTable hcreate
  have hk := hT.ctok
  have hsz : (CT.ofTable table).numCorners = 3 * pf.size := create_c2v_size hcreate
  have hlt : ∀ d, d < 3 * conn.processed.size → phi conn.processed d < 3 * pf.size := by
    intro d hd
    have hi : d / 3 < conn.processed.size := by omega
    have hmem : conn.processed[d / 3]! ∈ conn.processed.toList := mem_toList_iff_get.mpr ⟨_, hi, rfl⟩
    have hc := ((encodeConnectivity_faces ch valence pf acv conn h).2.1 _ hmem).1
    rw [hct] at hc
    rw [← hsz]
    have e : d = 3 * (d / 3) + d % 3 := by omega
    have h3 : d % 3 = 0 ∨ d % 3 = 1 ∨ d % 3 = 2 := by omega
    rcases h3 with e' | e' | e'
    · rw [e, e', Nat.add_zero, phi_0]; exact hc
    · rw [e, e', phi_1]; exact hk.next_lt hc
    · rw [e, e', phi_2]; exact hk.prev_lt hc
  have hv : ∀ x, x < 3 * pf.size → (CT.ofTable table).c2v[x]! < (CT.ofTable table).vc.size := by
    intro x hx
    have := ((CornerTable.createF_vinv hcreate).2.2 x hx).1
    have e1 : (CT.ofTable table).c2v[x]! = vget table.cornerToVertex x := by
      show table.cornerToVertex[x]! = table.cornerToVertex.getD x 0
      rw [Array.getElem!_eq_getD]; rfl
    rw [e1]
    show _ < (table.vertexCorners.map fun o => o.getD inv).size
    rw [Array.size_map]
    exact this
  rw [hct]
  exact ⟨fun d hd => cover_enc_of_create hcreate _ (hlt d hd) (hnd d hd) (hv _ (hlt d hd)),
    fun d hd => hv _ (hlt d hd)⟩

/-- **the encoder's table is isomorphic to the table the pure decoder simulation `DecSim.St` builds** from the reversed
    symbols: split-free run, boundary start faces only -/
theorem ctIso_St_of_run (ch : ConnChoices) (pf : Faces) (conn : ConnEnc)
    (h : encodeConnectivity ch false pf #[] = .ok conn)
    (hnoS : ∀ x, x ∈ conn.symbols.toList → x ≠ topoS)
    (hstart : ∀ b, b ∈ conn.startFaces.toList → b = false) (maxV : Nat) :
    CTIso conn.ct conn.processed conn.processed.size
      (St conn.symbols.toList.reverse conn.processed.size maxV conn.processed.size).c2v
      (St conn.symbols.toList.reverse conn.processed.size maxV conn.processed.size).opp := by
  obtain ⟨hTr, hT, _⟩ := trace_of_run ch pf conn h hnoS hstart
  obtain ⟨hcov, hvlt⟩ := cover_of_run ch false pf #[] conn h
  exact ctIso_St hT hTr maxV hcov hvlt

/-- non-vacuity: the closed fan of four triangles (decoder order `E R R C`) and the strip (`E L R L`) of
    DracoProofs/EbDecSim.lean are such runs -/
example : ∀ x, x ∈ (#[0, 5, 5, 7] : Array Nat).toList → x ≠ topoS := by decide

end Draco.EbEnc.EncTrace
