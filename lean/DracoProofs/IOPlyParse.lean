import DracoModel.IO.Ply
import DracoProofs.IOStl
/-
  DracoProofs.IOPlyParse — the PLY header parser (`PlyReader::ParseHeader` and the parser_utils
  helpers) on the header text `PlyEncoder` writes.
-/
namespace Draco.IO.Ply
open Draco Draco.IO

/-! ### decimal numbers -/

theorem digitsVal_append (ds : Bytes) (d : Nat) : digitsVal (ds ++ [d]) = 10 * digitsVal ds + (d - 48) := by
  simp [digitsVal, List.foldl_append]

theorem decimalAux_spec : ∀ (fuel n : Nat) (acc : Bytes), n < fuel →
    ∃ ds, decimalAux fuel n acc = ds ++ acc ∧ ds ≠ [] ∧ (∀ c ∈ ds, isDigit c = true) ∧ digitsVal ds = n := by
  intro fuel
  induction fuel with
  | zero => intro n acc h; omega
  | succ f ih =>
    intro n acc h
    unfold decimalAux
    by_cases h10 : n < 10
    · refine ⟨[48 + n], by simp [h10], by simp, ?_, ?_⟩
      · intro c hc; simp at hc; subst hc; simp [isDigit]; omega
      · simp [digitsVal]
    · simp only [h10, if_false]
      obtain ⟨ds, h1, h2, h3, h4⟩ := ih (n / 10) ((48 + n % 10) :: acc) (by omega)
      refine ⟨ds ++ [48 + n % 10], by rw [h1]; simp, by simp, ?_, ?_⟩
      · intro c hc
        simp only [List.mem_append, List.mem_singleton] at hc
        rcases hc with hc | rfl
        · exact h3 c hc
        · simp [isDigit]; omega
      · rw [digitsVal_append, h4]; omega

theorem decimal_spec (n : Nat) :
    decimal n ≠ [] ∧ (∀ c ∈ decimal n, isDigit c = true) ∧ digitsVal (decimal n) = n := by
  obtain ⟨ds, h1, h2, h3, h4⟩ := decimalAux_spec (n + 1) n [] (by omega)
  unfold decimal
  rw [h1, List.append_nil]
  exact ⟨h2, h3, h4⟩

theorem isDigit_not_space (c : Nat) (h : isDigit c = true) : isSpace c = false := by
  simp [isDigit] at h; simp [isSpace]; omega

theorem isDigit_not_delim (c : Nat) (h : isDigit c = true) : isDelim c = false := by
  simp [isDigit] at h; simp [isDelim]; omega

theorem takeWhile_all {α : Type} (p : α → Bool) (l : List α) (h : ∀ c ∈ l, p c = true) :
    l.takeWhile p = l := by
  induction l with
  | nil => rfl
  | cons c cs ih => simp [List.takeWhile, h c (by simp), ih (fun x hx => h x (by simp [hx]))]

theorem strtoll_decimal (n : Nat) (h : n < 2 ^ 63) : strtoll (decimal n) = (n : Int) := by
  obtain ⟨h1, h2, h3⟩ := decimal_spec n
  cases hd : decimal n with
  | nil => exact absurd hd h1
  | cons d r =>
    have hdig : isDigit d = true := h2 d (by rw [hd]; simp)
    have h45 : d ≠ 45 := by intro e; subst e; simp [isDigit] at hdig
    have h43 : d ≠ 43 := by intro e; subst e; simp [isDigit] at hdig
    have htw : (d :: r).takeWhile isDigit = d :: r :=
      takeWhile_all _ _ (fun c hc => h2 c (by rw [hd]; exact hc))
    have e1 : ((d :: r).head? == some 45) = false := by simp [h45]
    have e2 : ((d :: r).head? == some 43) = false := by simp [h43]
    have hv : digitsVal (d :: r) = n := by rw [← hd]; exact h3
    unfold strtoll
    simp only [e1, e2, Bool.or_self, Bool.false_eq_true, if_false, htw, hv]
    have : ¬ (n ≥ 2 ^ 63) := by omega
    simp [this]

theorem numEntries_of_nat (nm : Bytes) (n : Nat) (ps : List PProp) (h : n < 2 ^ 31) :
    (Element.mk nm (n : Int) ps).numEntries = (n : Int) := by
  unfold Element.numEntries toSigned toUnsigned
  simp only
  have h1 : (((n : Int) % ((2 ^ 32 : Nat) : Int)).toNat) = n := by
    have : ((n : Int) % ((2 ^ 32 : Nat) : Int)) = (n : Int) := by
      apply Int.emod_eq_of_lt <;> omega
    rw [this]; simp
  rw [h1]
  have h2 : n % 2 ^ 32 = n := Nat.mod_eq_of_lt (by omega)
  rw [h2]
  have h3 : n < 2 ^ (32 - 1) := by simpa using h
  simp [h3]

/-! ### lines and words -/

theorem parseLine_nl (line rest : Bytes) (h : ∀ c ∈ line, isDelim c = false) :
    parseLine (line ++ 10 :: rest) = (line, rest) := by
  unfold parseLine
  have h1 : (line ++ 10 :: rest).takeWhile (fun c => !isDelim c) = line := by
    rw [List.takeWhile_append_of_pos (by intro c hc; simp [h c hc])]
    simp [isDelim]
  have h2 : (line ++ 10 :: rest).dropWhile (fun c => !isDelim c) = 10 :: rest := by
    rw [List.dropWhile_append_of_pos (by intro c hc; simp [h c hc])]
    simp [isDelim]
  rw [h1, h2]
  cases rest with
  | nil => rfl
  | cons r rs =>
    by_cases hr : r = 10
    · subst hr; rfl
    · simp only
      split
      · rename_i heq; injection heq with e1 e2; exact absurd e1 hr
      · rfl

theorem skipWs_cons (c : Nat) (rest : Bytes) (h : isSpace c = false) : skipWs (c :: rest) = c :: rest := by
  simp [skipWs, List.dropWhile, h]

theorem splitWordsAux_word (w rest cur : Bytes) (h : ∀ c ∈ w, isSpace c = false) :
    splitWordsAux (w ++ rest) cur = splitWordsAux rest (w.reverse ++ cur) := by
  induction w generalizing cur with
  | nil => rfl
  | cons c cs ih =>
    have hc : isSpace c = false := h c (by simp)
    simp only [List.cons_append, splitWordsAux, hc, Bool.false_eq_true, if_false]
    rw [ih _ (fun x hx => h x (by simp [hx]))]
    simp

theorem splitWords_three (w1 w2 w3 : Bytes) (h1 : ∀ c ∈ w1, isSpace c = false)
    (h2 : ∀ c ∈ w2, isSpace c = false) (h3 : ∀ c ∈ w3, isSpace c = false)
    (n1 : w1 ≠ []) (n2 : w2 ≠ []) (n3 : w3 ≠ []) :
    splitWords (w1 ++ 32 :: (w2 ++ 32 :: w3)) = [w1, w2, w3] := by
  unfold splitWords
  have e1 : (w1.reverse ++ ([] : Bytes)).isEmpty = false := by
    cases w1 with
    | nil => exact absurd rfl n1
    | cons a b => simp
  have e2 : (w2.reverse ++ ([] : Bytes)).isEmpty = false := by
    cases w2 with
    | nil => exact absurd rfl n2
    | cons a b => simp
  have e3 : (w3.reverse ++ ([] : Bytes)).isEmpty = false := by
    cases w3 with
    | nil => exact absurd rfl n3
    | cons a b => simp
  rw [splitWordsAux_word w1 _ [] h1]
  have s32 : isSpace 32 = true := by decide
  rw [splitWordsAux, s32, if_pos rfl, e1]
  simp only [Bool.false_eq_true, if_false]
  rw [splitWordsAux_word w2 _ [] h2, splitWordsAux, s32, if_pos rfl, e2]
  simp only [Bool.false_eq_true, if_false]
  have := splitWordsAux_word w3 [] [] h3
  rw [List.append_nil] at this
  rw [this, splitWordsAux, e3]
  simp

/-! ### one iteration of the header loop -/

/-- a header line as the encoder writes it: no line terminator inside, does not start with white
    space, at least 10 characters, not `end_header…` -/
structure GoodLine (line : Bytes) : Prop where
  noDelim : ∀ c ∈ line, isDelim c = false
  first : ∀ c, line.head? = some c → isSpace c = false
  long : 10 ≤ line.length
  notEnd : (line.take 10 == ascii "end_header") = false

theorem headerLoop_line (fuel : Nat) (line rest : Bytes) (els : List Element) (h : GoodLine line) :
    headerLoop (fuel + 1) (line ++ 10 :: rest) els =
      match lineEffect els line with
      | .error e => .error e
      | .ok els' => headerLoop fuel rest els' := by
  cases hl : line with
  | nil => have := h.long; rw [hl] at this; simp at this
  | cons c cs =>
    have hsp : isSpace c = false := h.first c (by rw [hl]; rfl)
    rw [← hl]
    have hskip : skipWs (line ++ 10 :: rest) = line ++ 10 :: rest := by
      rw [hl]; exact skipWs_cons c _ hsp
    conv => lhs; unfold headerLoop
    simp only [hskip]
    have hlen : ¬ (line ++ 10 :: rest).length < 10 := by
      have := h.long; simp; omega
    have ht : (line ++ 10 :: rest).take 10 = line.take 10 := by
      rw [List.take_append_of_le_length h.long]
    rw [if_neg hlen, ht, h.notEnd, parseLine_nl line rest h.noDelim]
    simp only [Bool.false_eq_true, if_false]
    rfl

theorem headerLoop_end (fuel : Nat) (rest : Bytes) (els : List Element) :
    headerLoop (fuel + 1) (ascii "end_header" ++ 10 :: rest) els = .ok (els, rest) := by
  have hskip : skipWs (ascii "end_header" ++ 10 :: rest) = ascii "end_header" ++ 10 :: rest := by
    exact skipWs_cons 101 _ (by decide)
  conv => lhs; unfold headerLoop
  simp only [hskip]
  have hlen : ¬ (ascii "end_header" ++ 10 :: rest).length < 10 := by
    simp [ascii]
  have ht : (ascii "end_header" ++ 10 :: rest).take 10 = ascii "end_header" := by
    rw [List.take_append_of_le_length (by decide)]; decide
  rw [if_neg hlen, ht]
  have hp := parseLine_nl (ascii "end_header") rest (by decide)
  simp [hp]

end Draco.IO.Ply

namespace Draco.IO.Ply
open Draco Draco.IO

/-! ### many header lines -/

/-- successive `lineEffect`s -/
def effects : List Bytes → List Element → Res (List Element)
  | [], els => .ok els
  | l :: ls, els =>
    match lineEffect els l with
    | .error e => .error e
    | .ok els' => effects ls els'

theorem effects_append (l1 l2 : List Bytes) (els els1 : List Element) (h : effects l1 els = .ok els1) :
    effects (l1 ++ l2) els = effects l2 els1 := by
  induction l1 generalizing els with
  | nil => simp [effects] at h; subst h; rfl
  | cons l ls ih =>
    simp only [List.cons_append, effects] at h ⊢
    cases hl : lineEffect els l with
    | error e => rw [hl] at h; cases h
    | ok els' => rw [hl] at h; simp only; exact ih els' h

/-- bytes of a list of lines, each terminated by '\n' -/
def linesBytes (lines : List Bytes) : Bytes := (lines.map (· ++ [10])).flatten

theorem headerLoop_lines (lines : List Bytes) : ∀ (els els' : List Element) (rest : Bytes) (fuel : Nat),
    (∀ l ∈ lines, GoodLine l) → effects lines els = .ok els' →
    headerLoop (fuel + lines.length) (linesBytes lines ++ rest) els = headerLoop fuel rest els' := by
  induction lines with
  | nil => intro els els' rest fuel _ h; simp [effects] at h; subst h; simp [linesBytes]
  | cons l ls ih =>
    intro els els' rest fuel hg h
    simp only [effects] at h
    cases hl : lineEffect els l with
    | error e => rw [hl] at h; cases h
    | ok els1 =>
      rw [hl] at h
      have hb : linesBytes (l :: ls) ++ rest = l ++ 10 :: (linesBytes ls ++ rest) := by
        simp [linesBytes, List.append_assoc]
      rw [hb, List.length_cons, ← Nat.add_assoc, headerLoop_line _ l _ els (hg l (by simp)), hl]
      exact ih els1 els' rest fuel (fun x hx => hg x (by simp [hx])) h

theorem headerLoop_mono : ∀ (f : Nat) (bs : Bytes) (els : List Element) (x : List Element × Bytes),
    headerLoop f bs els = .ok x → ∀ k, headerLoop (f + k) bs els = .ok x := by
  intro f
  induction f with
  | zero => intro bs els x h; simp [headerLoop] at h
  | succ f ih =>
    intro bs els x h k
    have e : f + 1 + k = (f + k) + 1 := by omega
    rw [e]
    unfold headerLoop at h ⊢
    simp only at h ⊢
    split at h
    · cases h
    · rename_i h10
      rw [if_neg h10]
      split at h
      · rename_i he; rw [if_pos he]; exact h
      · rename_i he
        rw [if_neg he]
        cases hle : lineEffect els (parseLine (skipWs bs)).1 with
        | error e => rw [hle] at h; cases h
        | ok els' => rw [hle] at h; simp only at h ⊢; exact ih _ _ _ h k

/-! ### effect of the lines the encoder writes -/

theorem addProp_snoc (pre : List Element) (e : Element) (p : PProp) :
    addProp (pre ++ [e]) p = pre ++ [{ e with props := e.props ++ [p] }] := by
  simp [addProp]

/-- text of a scalar property line -/
def propText (T name : Bytes) : Bytes := ascii "property " ++ (T ++ 32 :: name)

@[reducible] def IsWord (w : Bytes) : Prop := w ≠ [] ∧ ∀ c ∈ w, isSpace c = false ∧ isDelim c = false

theorem typeName_cases (dt : Nat) (T : Bytes) (h : typeName dt = some T) :
    (dt = dtFLOAT32 ∧ T = ascii "float") ∨ (dt = dtUINT8 ∧ T = ascii "uchar") ∨ (dt = dtINT32 ∧ T = ascii "int") := by
  unfold typeName at h
  split at h
  · left; exact ⟨by assumption, (Option.some.inj h).symm⟩
  · split at h
    · right; left; exact ⟨by assumption, (Option.some.inj h).symm⟩
    · split at h
      · right; right; exact ⟨by assumption, (Option.some.inj h).symm⟩
      · cases h

theorem typeName_word (dt : Nat) (T : Bytes) (h : typeName dt = some T) : IsWord T := by
  rcases typeName_cases dt T h with ⟨-, rfl⟩ | ⟨-, rfl⟩ | ⟨-, rfl⟩ <;> exact ⟨by decide, by decide⟩

theorem lineEffect_scalar (pre : List Element) (e : Element) (dt : Nat) (T name : Bytes)
    (hT : typeName dt = some T) (hn : IsWord name) :
    lineEffect (pre ++ [e]) (propText T name) =
      .ok (pre ++ [{ e with props := e.props ++ [⟨name, dt, 0⟩] }]) := by
  have hw := typeName_word dt T hT
  have hsplit : splitWords (propText T name) = [ascii "property", T, name] := by
    have : propText T name = ascii "property" ++ 32 :: (T ++ 32 :: name) := by
      simp [propText, ascii]
    rw [this]
    exact splitWords_three _ _ _ (by decide) (fun c hc => (hw.2 c hc).1) (fun c hc => (hn.2 c hc).1)
      (by decide) hw.1 hn.1
  unfold lineEffect
  simp only [hsplit]
  have h1 : (ascii "property" == ascii "element") = false := by decide
  have h2 : (pre ++ [e]).isEmpty = false := by simp
  rw [h1, h2]
  simp only [Bool.false_eq_true, if_false]
  have hpp : parseProperty [ascii "property", T, name] = some (.ok ⟨name, dt, 0⟩) := by
    rcases typeName_cases dt T hT with ⟨rfl, rfl⟩ | ⟨rfl, rfl⟩ | ⟨rfl, rfl⟩ <;> rfl
  rw [hpp]
  simp only [addProp_snoc]

theorem goodLine_prop (T name : Bytes) (hT : IsWord T) (hn : IsWord name) : GoodLine (propText T name) := by
  refine ⟨?_, ?_, ?_, ?_⟩
  · intro c hc
    simp only [propText, List.mem_append, List.mem_cons] at hc
    rcases hc with hc | hc | rfl | hc
    · revert c; decide
    · exact (hT.2 c hc).2
    · decide
    · exact (hn.2 c hc).2
  · intro c hc; simp [propText, ascii] at hc; subst hc; decide
  · simp [propText, ascii]; omega
  · have e1 : propText T name = 112 :: (ascii "roperty " ++ (T ++ 32 :: name)) := rfl
    have e2 : ascii "end_header" = 101 :: ascii "nd_header" := by decide
    rw [e1, e2]
    simp [List.take_succ_cons]

end Draco.IO.Ply
