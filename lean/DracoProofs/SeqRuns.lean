import DracoModel.SeqDecoder
import DracoProofs.Scalar
/-
  A small program logic for the decoder monad `DecM`: `Runs m v bs a v'` says that `m`, started
  in ANY state whose remaining input begins with `bs` and whose bitstream version is `v`,
  succeeds with result `a`, consumes exactly `bs` and leaves the version `v'`.
  (Allocation log, declared counts and status are not constrained: success does not depend on them.)
-/
namespace Draco
open DecM

structure Runs {α : Type} (m : DecM α) (v : Nat) (bs : Bytes) (a : α) (v' : Nat) : Prop where
  run : ∀ (s : DSt) (extra : Bytes), s.rest = bs ++ extra → s.version = v →
    ∃ s', m s = (some a, s') ∧ s'.rest = extra ∧ s'.version = v'

namespace Runs
variable {α β : Type}

theorem pure (a : α) (v : Nat) : Runs (Pure.pure a : DecM α) v [] a v :=
  ⟨fun s extra hs hv => ⟨s, rfl, by simpa using hs, hv⟩⟩

theorem bind {m : DecM α} {f : α → DecM β} {v v1 v2 : Nat} {b1 b2 : Bytes} {a : α} {c : β}
    (h1 : Runs m v b1 a v1) (h2 : Runs (f a) v1 b2 c v2) : Runs (m >>= f) v (b1 ++ b2) c v2 := by
  constructor
  intro s extra hs hv
  obtain ⟨s1, e1, r1, w1⟩ := h1.run s (b2 ++ extra) (by rw [hs, List.append_assoc]) hv
  obtain ⟨s2, e2, r2, w2⟩ := h2.run s1 extra r1 w1
  refine ⟨s2, ?_, r2, w2⟩
  show DecM.andThen m f s = _
  simp only [DecM.andThen, e1, e2]

/-- `bind` with the split of the input given separately -/
theorem bind' {m : DecM α} {f : α → DecM β} {v v1 v2 : Nat} {bs b1 b2 : Bytes} {a : α} {c : β}
    (h1 : Runs m v b1 a v1) (hb : bs = b1 ++ b2) (h2 : Runs (f a) v1 b2 c v2) :
    Runs (m >>= f) v bs c v2 := hb ▸ bind h1 h2

/-- a step that consumes nothing -/
theorem bind0 {m : DecM α} {f : α → DecM β} {v v1 v2 : Nat} {bs : Bytes} {a : α} {c : β}
    (h1 : Runs m v [] a v1) (h2 : Runs (f a) v1 bs c v2) : Runs (m >>= f) v bs c v2 :=
  bind' h1 rfl h2

/-- a step that consumes one byte -/
theorem bind1 {m : DecM α} {f : α → DecM β} {v v1 v2 : Nat} {b : Nat} {bs : Bytes} {a : α} {c : β}
    (h1 : Runs m v [b] a v1) (h2 : Runs (f a) v1 bs c v2) : Runs (m >>= f) v (b :: bs) c v2 :=
  bind' h1 rfl h2

theorem of_eq {m m' : DecM α} {v v' : Nat} {bs bs' : Bytes} {a a' : α}
    (h : Runs m v bs a v') (hm : m = m') (hb : bs = bs') (ha : a = a') : Runs m' v bs' a' v' := by
  subst hm; subst hb; subst ha; exact h

theorem require {c : Bool} (h : c = true) (v : Nat) : Runs (DecM.require c) v [] () v := by
  subst h
  exact ⟨fun s extra hs hv => ⟨s, rfl, by simpa using hs, hv⟩⟩

theorem alloc (site : String) (n v : Nat) : Runs (DecM.alloc site n) v [] () v :=
  ⟨fun s extra hs hv => ⟨_, rfl, by simpa using hs, hv⟩⟩

theorem declare (n v : Nat) : Runs (DecM.declare n) v [] () v :=
  ⟨fun s extra hs hv => ⟨_, rfl, by simpa using hs, hv⟩⟩

theorem setVersion (w v : Nat) : Runs (DecM.setVersion w) v [] () w :=
  ⟨fun s extra hs _ => ⟨_, rfl, by simpa using hs, rfl⟩⟩

theorem version (v : Nat) : Runs DecM.version v [] v v :=
  ⟨fun s extra hs hv => ⟨s, by simp only [DecM.version, hv], by simpa using hs, hv⟩⟩

theorem ofOption {o : Option α} {a : α} (h : o = some a) (v : Nat) :
    Runs (DecM.ofOption o) v [] a v := by
  subst h
  exact ⟨fun s extra hs hv => ⟨s, rfl, by simpa using hs, hv⟩⟩

/-- a byte-level reader that consumes exactly `bs` whatever follows -/
theorem lift {r : Rd α} {bs : Bytes} {a : α} (h : ∀ extra, r (bs ++ extra) = some (a, extra))
    (v : Nat) : Runs (DecM.lift r) v bs a v := by
  constructor
  intro s extra hs hv
  refine ⟨{ s with rest := extra }, ?_, rfl, hv⟩
  simp only [DecM.lift, hs, h extra]

/-- `remaining` is at least the length of what the continuation is going to consume -/
theorem remaining_bind {f : Nat → DecM β} {v v' : Nat} {bs : Bytes} {c : β}
    (h : ∀ n, bs.length ≤ n → Runs (f n) v bs c v') : Runs (DecM.remaining >>= f) v bs c v' := by
  constructor
  intro s extra hs hv
  obtain ⟨s', e, r, w⟩ := (h s.rest.length (by rw [hs]; simp)).run s extra hs hv
  exact ⟨s', by show DecM.andThen DecM.remaining f s = _; simpa only [DecM.andThen, DecM.remaining] using e, r, w⟩

theorem rdU8 (b v : Nat) : Runs DecM.rdU8 v [b] b v :=
  lift (fun _ => rfl) v

theorem rdLE (n x v : Nat) (hx : x < 256 ^ n) : Runs (DecM.lift (readLE n)) v (writeLE n x) x v :=
  lift (fun extra => by rw [readLE_writeLE, Nat.mod_eq_of_lt hx]) v

theorem rdU16 (x v : Nat) (hx : x < 65536) : Runs DecM.rdU16 v (writeLE 2 x) x v :=
  rdLE 2 x v (by simpa using hx)

theorem rdU32 (x v : Nat) (hx : x < 2 ^ 32) : Runs DecM.rdU32 v (writeLE 4 x) x v :=
  rdLE 4 x v (by simpa using hx)

theorem varint32 (x v : Nat) (hx : x < 2 ^ 32) : Runs (DecM.varint 32) v (encVarint x) x v :=
  lift (fun extra => decVarint_enc (by simp) x hx extra) v

theorem bytes (bs : Bytes) (n v : Nat) (h : bs.length = n) : Runs (DecM.bytes n) v bs bs v := by
  refine lift (fun extra => ?_) v
  simp only [readBytes, List.length_append, h]
  rw [if_neg (by omega)]
  simp [← h]

theorem rdI8 (b v : Nat) : Runs DecM.rdI8 v [b] (toSigned 8 b) v :=
  bind' (rdU8 b v) rfl (pure _ v)

theorem rdI32 (x v : Nat) (hx : x < 2 ^ 32) : Runs DecM.rdI32 v (writeLE 4 x) (toSigned 32 x) v :=
  bind' (rdU32 x v hx) (by simp) (pure _ v)

end Runs

/-- `mapM'` over a list: element `k` consumes chunk `k` and yields result `k` -/
inductive RunsAll {α β : Type} (f : α → DecM β) (v : Nat) : List α → List Bytes → List β → Prop
  | nil : RunsAll f v [] [] []
  | cons {a : α} {as : List α} {b : Bytes} {bs : List Bytes} {y : β} {ys : List β} :
      Runs (f a) v b y v → RunsAll f v as bs ys → RunsAll f v (a :: as) (b :: bs) (y :: ys)

theorem RunsAll.mapM' {α β : Type} {f : α → DecM β} {v : Nat} {xs : List α} {bss : List Bytes}
    {ys : List β} (h : RunsAll f v xs bss ys) : Runs (DecM.mapM' f xs) v bss.flatten ys v := by
  induction h with
  | nil => exact Runs.pure _ v
  | cons h1 _ ih =>
    simp only [DecM.mapM', List.flatten_cons]
    refine Runs.bind h1 ?_
    exact Runs.bind' ih (by simp) (Runs.pure _ v)

theorem RunsAll.of_map {α β γ : Type} {f : α → DecM β} {v : Nat} (xs : List γ) (A : γ → α)
    (B : γ → Bytes) (Y : γ → β) (h : ∀ x ∈ xs, Runs (f (A x)) v (B x) (Y x) v) :
    RunsAll f v (xs.map A) (xs.map B) (xs.map Y) := by
  induction xs with
  | nil => exact .nil
  | cons x xs ih =>
    exact .cons (h x (by simp)) (ih fun y hy => h y (by simp [hy]))

/-- `replicateM'`: the same reader once per element of `xs` -/
theorem Runs.replicateM'_map {β γ : Type} {f : DecM β} {v : Nat} (xs : List γ) (B : γ → Bytes)
    (Y : γ → β) (h : ∀ x ∈ xs, Runs f v (B x) (Y x) v) :
    Runs (DecM.replicateM' xs.length f) v (xs.map B).flatten (xs.map Y) v := by
  unfold DecM.replicateM'
  refine RunsAll.mapM' ?_
  induction xs with
  | nil => exact .nil
  | cons x xs ih =>
    exact .cons (h x (by simp)) (ih fun y hy => h y (by simp [hy]))

end Draco
