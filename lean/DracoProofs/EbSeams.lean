import DracoProofs.EbCTIso
import DracoProofs.EbEncPredict
import DracoProofs.EbEncCoders
/-
  The attribute seams of the Edgebreaker codec correspond under the corner table isomorphism `CTIso`
  (DracoProofs/EbCTIso.lean).

  (A) `seams_correspond` / `seams_list`: the encoder (`EbEnc.encodeSeamBits`, walking the faces of
      `processed_connectivity_corners_`) and the decoder (`Eb.decodeSeams`, walking its faces in order) produce / consume
      the seam bits of every attribute data in the same order, one bit per interior edge, at the side of the edge whose
      face comes first; the decoder's seam corner lists are therefore determined by the encoder's `is_edge_on_seam_`
      flags at the images `phi processed c` of the decoder corners.
  (B) `markSeams_flags` / `seam_flags_correspond`: the flags `is_edge_on_seam_` the decoder derives from the seam corners
      (`AddSeamEdge`, the first loop of `Eb.buildAttConn`, restated as `markSeams`) are the encoder's flags at the images,
      when the encoder's flags are symmetric and mark the boundary edges.

  Route: both model functions are restated (by `rfl`) as `forIn` loops over named bodies; each side is then related to a
  pure description (`readsBit`, `seamP`, `bitE`) by loop invariants: `encodeSeamBits_spec` (the bits the encoder writes),
  `decodeSeams_spec` (what the decoder does with bit decoders that deliver such bits).
-/
namespace Draco.EbEnc
open Draco Draco.Eb

namespace Seams

/-! ### the two loops as loops over named bodies -/

abbrev DSt := Array (Array Nat) × Array RAnsBitDec × Nat

def dBnd (c i : Nat) (seams : Array (Array Nat)) : R (ForInStep (Array (Array Nat))) :=
  pure (ForInStep.yield (seams.modify i fun x => x.push c))

def dAtt (c i : Nat) (s : DSt) : R (ForInStep DSt) :=
  match s.2.1[i]? with
  | none => do
    throw (Err.ub "attribute_connectivity_decoders_")
    pure (ForInStep.yield (s.1, s.2.1, s.2.2))
  | some d =>
    match d.nextBit with
    | (b, d') =>
      if b = true then
        pure (ForInStep.yield (s.1.modify i fun x => x.push c, s.2.1.set! i d', s.2.2 ||| tg_seam_interior))
      else pure (ForInStep.yield (s.1, s.2.1.set! i d', s.2.2 ||| tg_seam_none))

def dCorner (legacy21 : Bool) (opp : Array Nat) (numAtt f c : Nat) (s : DSt) : R (ForInStep DSt) := do
  let oc ← opposite opp c
  if (oc == inv) = true then do
    let s1 ← forIn [:numAtt] s.1 (dBnd c)
    pure (ForInStep.yield (s1, s.2.1, s.2.2 ||| tg_seam_boundary))
  else if (!legacy21 && decide (oc / 3 < f)) = true then pure (ForInStep.yield s)
  else do
    let s1 ← forIn [:numAtt] s (dAtt c)
    pure (ForInStep.yield s1)

def dFace (legacy21 : Bool) (opp : Array Nat) (numAtt f : Nat) (s : DSt) : R (ForInStep DSt) := do
  let s1 ← forIn [3 * f, Eb.nextC (3 * f), Eb.prevC (3 * f)] s (dCorner legacy21 opp numAtt f)
  pure (ForInStep.yield s1)

theorem decodeSeams_eq (legacy21 : Bool) (opp : Array Nat) (n m : Nat) (decs : Array RAnsBitDec) :
    decodeSeams legacy21 opp n m decs = (do
      let s ← forIn [:n] ((Array.replicate m #[], decs, 0) : DSt) (dFace legacy21 opp m)
      pure (s.1, s.2.2)) := by
  rfl

abbrev ESt := Array RAnsBitEnc × Array (Array Bool)

def eAtt (edgeSeams : Array (Array Bool)) (c i : Nat) (s : ESt) : R (ForInStep ESt) := do
  let isSeam ← rdB "IsCornerOppositeToSeamEdge" edgeSeams[i]! c
  pure (ForInStep.yield (s.1.modify i fun x => x.encodeBit isSeam, s.2.modify i fun x => x.push isSeam))

def eCorner (t : CT) (edgeSeams : Array (Array Bool)) (vis : Array Bool) (c : Nat) (s : ESt) : R (ForInStep ESt) := do
  let oppC ← opposite t.opp c
  if (oppC == inv) = true then pure (ForInStep.yield s)
  else do
    let b ← rdB "visited_faces_" vis (oppC / 3)
    if b = true then pure (ForInStep.yield s)
    else do
      let s1 ← forIn [:edgeSeams.size] s (eAtt edgeSeams c)
      pure (ForInStep.yield s1)

def eFace (t : CT) (edgeSeams : Array (Array Bool)) (ci : Nat) (s : Array RAnsBitEnc × Array (Array Bool) × Array Bool) :
    R (ForInStep (Array RAnsBitEnc × Array (Array Bool) × Array Bool)) := do
  let vis ← wrB "visited_faces_" s.2.2 (faceOf ci) true
  let s1 ← forIn [ci, Eb.nextC ci, Eb.prevC ci] ((s.1, s.2.1) : ESt) (eCorner t edgeSeams vis)
  pure (ForInStep.yield (s1.1, s1.2, vis))

theorem encodeSeamBits_eq (t : CT) (processed : Array Nat) (edgeSeams : Array (Array Bool)) :
    encodeSeamBits t processed edgeSeams =
      if (!edgeSeams.isEmpty) = true then do
        let s ← forIn processed ((Array.replicate edgeSeams.size RAnsBitEnc.start, Array.replicate edgeSeams.size #[],
          Array.replicate t.numFaces false) : Array RAnsBitEnc × Array (Array Bool) × Array Bool) (eFace t edgeSeams)
        pure (s.1, s.2.1)
      else pure (Array.replicate edgeSeams.size RAnsBitEnc.start, Array.replicate edgeSeams.size #[]) := by
  rfl

/-! ### generic loop rules -/

theorem range_forIn {σ : Type} (m : Nat) (init : σ) (f : Nat → σ → R (ForInStep σ)) :
    forIn [:m] init f = forIn (List.range' 0 m 1) init f := by
  rw [Std.Legacy.Range.forIn_eq_forIn_range']
  simp [Std.Legacy.Range.size]

theorem loop_inv {σ : Type} (f : Nat → σ → R (ForInStep σ)) (I : Nat → σ → Prop) :
    ∀ (k a : Nat), (∀ j s, a ≤ j → j < a + k → I j s → ∃ s', f j s = .ok (.yield s') ∧ I (j + 1) s') →
    ∀ init, I a init → ∃ out, forIn (List.range' a k 1) init f = .ok out ∧ I (a + k) out := by
  intro k
  induction k with
  | zero => intro a _ init hi; exact ⟨init, rfl, hi⟩
  | succ k ih =>
    intro a h init hi
    obtain ⟨s', h1, h2⟩ := h a init (Nat.le_refl _) (by omega) hi
    obtain ⟨out, h3, h4⟩ := ih (a + 1) (fun j s hj1 hj2 hI => h j s (by omega) (by omega) hI) s' h2
    refine ⟨out, ?_, by rw [show a + (k + 1) = a + 1 + k by omega]; exact h4⟩
    rw [List.range'_succ, List.forIn_cons, h1]
    exact h3

theorem loop_inv_ok {σ : Type} (f : Nat → σ → R (ForInStep σ)) (I : Nat → σ → Prop) :
    ∀ (k a : Nat), (∀ j s r, a ≤ j → j < a + k → I j s → f j s = .ok r → ∃ s', r = .yield s' ∧ I (j + 1) s') →
    ∀ init out, I a init → forIn (List.range' a k 1) init f = .ok out → I (a + k) out := by
  intro k
  induction k with
  | zero =>
    intro a _ init out hi h
    simp [pure, Except.pure] at h
    subst h
    exact hi
  | succ k ih =>
    intro a h init out hi hf
    rw [List.range'_succ, List.forIn_cons, bind_ok_iff] at hf
    obtain ⟨r, h1, h2⟩ := hf
    obtain ⟨s', rfl, hI'⟩ := h a init r (Nat.le_refl _) (by omega) hi h1
    have := ih (a + 1) (fun j s r hj1 hj2 hI => h j s r (by omega) (by omega) hI) s' out hI' h2
    rw [show a + (k + 1) = a + 1 + k by omega]
    exact this

theorem modify_get! {α : Type} [Inhabited α] (a : Array α) (k i : Nat) (g : α → α) (hi : i < a.size) :
    (a.modify k g)[i]! = if i = k then g a[i]! else a[i]! := by
  simp only [Array.getElem!_eq_getD, Array.getD_eq_getD_getElem?, Array.getElem?_modify]
  by_cases e : k = i
  · subst e; simp [hi]
  · simp [e, Ne.symm e]

theorem range_filter_succ (p : Nat → Bool) (k : Nat) :
    (List.range (k + 1)).filter p = (List.range k).filter p ++ if p k then [k] else [] := by
  rw [List.range_succ, List.filter_append]
  by_cases h : p k <;> simp [h]

theorem range'_head (k N : Nat) (h : k < N) : List.range' k (N - k) 1 = k :: List.range' (k + 1) (N - (k + 1)) 1 := by
  rw [show N - k = (N - (k + 1)) + 1 by omega, List.range'_succ]

end Seams
open Seams

/-! ### the decoder -/

/-- the decoder reads a bit at corner `d` -/
def readsBit (dopp : Array Nat) (d : Nat) : Bool := dopp[d]! != inv && !decide (dopp[d]! / 3 < d / 3)

/-- corner `d` becomes a seam corner -/
def seamP (dopp : Array Nat) (bit : Nat → Bool) (d : Nat) : Bool := dopp[d]! == inv || (readsBit dopp d && bit d)

namespace Seams

def DInv (dopp : Array Nat) (N m : Nat) (bit : Nat → Nat → Bool) (k : Nat) (s : DSt) : Prop :=
  s.1.size = m ∧ (∀ i, i < m → s.1[i]!.toList = (List.range k).filter (seamP dopp (bit i))) ∧
  ∀ i, i < m → ∃ d, s.2.1[i]? = some d ∧
    Yields RAnsBitDec.nextBit d (((List.range' k (N - k) 1).filter (readsBit dopp)).map (bit i))

theorem dBnd_loop (c m : Nat) (seams : Array (Array Nat)) (hs : seams.size = m) :
    ∃ out, forIn [:m] seams (dBnd c) = .ok out ∧ out.size = m ∧ ∀ i, i < m → out[i]! = seams[i]!.push c := by
  rw [range_forIn]
  obtain ⟨out, h1, h2, h3⟩ := loop_inv (dBnd c)
    (fun k s => s.size = m ∧ ∀ i, i < m → s[i]! = if i < k then seams[i]!.push c else seams[i]!) m 0
    (by
      intro j s _ hj ⟨hsz, hI⟩
      refine ⟨_, rfl, by simpa using hsz, fun i hi => ?_⟩
      rw [modify_get! _ _ _ _ (by omega), hI i hi]
      by_cases e : i = j
      · subst e; simp
      · have : (i < j + 1) = (i < j) := by apply propext; omega
        simp [e, this])
    seams ⟨hs, fun i hi => by simp⟩
  refine ⟨out, h1, h2, fun i hi => ?_⟩
  rw [h3 i hi]
  simp [hi]

theorem dAtt_loop (c m : Nat) (s : DSt) (bit : Nat → Bool) (hs : s.1.size = m)
    (hd : ∀ i, i < m → ∃ d, s.2.1[i]? = some d ∧ d.nextBit.1 = bit i) :
    ∃ out, forIn [:m] s (dAtt c) = .ok out ∧ out.1.size = m ∧
      (∀ i, i < m → out.1[i]! = if bit i then s.1[i]!.push c else s.1[i]!) ∧
      (∀ i, i < m → ∃ d, s.2.1[i]? = some d ∧ out.2.1[i]? = some d.nextBit.2) := by
  rw [range_forIn]
  obtain ⟨out, h1, h2, h3⟩ := loop_inv (dAtt c)
    (fun k st => st.1.size = m ∧ ∀ i, i < m →
      (st.1[i]! = if i < k ∧ bit i = true then s.1[i]!.push c else s.1[i]!) ∧
      ∃ d, s.2.1[i]? = some d ∧ st.2.1[i]? = some (if i < k then d.nextBit.2 else d)) m 0
    (by
      intro j st _ hj ⟨hsz, hI⟩
      obtain ⟨d, hd1, hd2⟩ := hd j (by omega)
      obtain ⟨hj1, d0, hj2, hj3⟩ := hI j (by omega)
      rw [hd1] at hj2
      cases hj2
      simp only [Nat.lt_irrefl, if_false] at hj3
      have hjs : j < st.2.1.size := by
        rcases Array.getElem?_eq_some_iff.mp hj3 with ⟨h, _⟩
        exact h
      unfold dAtt
      rw [hj3]
      dsimp only
      rcases hnb : d.nextBit with ⟨b, d'⟩
      rw [hnb] at hd2
      dsimp only at hd2 ⊢
      have key : ∀ i, i < m → ∃ d, s.2.1[i]? = some d ∧
          (st.2.1.set! j d')[i]? = some (if i < j + 1 then d.nextBit.2 else d) := by
        intro i hi
        obtain ⟨_, di, hi1, hi2⟩ := hI i hi
        refine ⟨di, hi1, ?_⟩
        simp only [Array.set!_eq_setIfInBounds, Array.getElem?_setIfInBounds]
        by_cases e : j = i
        · subst e
          rw [hi1] at hd1
          cases hd1
          simp [hjs, hnb]
        · rw [if_neg e, hi2]
          have : (i < j + 1) = (i < j) := by apply propext; omega
          simp only [this]
      by_cases hb : b = true
      · rw [if_pos hb]
        refine ⟨_, rfl, by simpa using hsz, fun i hi => ⟨?_, key i hi⟩⟩
        show (st.1.modify j fun x => x.push c)[i]! = _
        rw [modify_get! _ _ _ _ (by omega), (hI i hi).1]
        by_cases e : i = j
        · subst e
          have : bit i = true := by rw [← hd2]; exact hb
          simp [this]
        · have : (i < j + 1) = (i < j) := by apply propext; omega
          simp [e, this]
      · rw [if_neg hb]
        refine ⟨_, rfl, hsz, fun i hi => ⟨?_, key i hi⟩⟩
        show st.1[i]! = _
        rw [(hI i hi).1]
        by_cases e : i = j
        · subst e
          have : bit i = false := by rw [← hd2]; simpa using hb
          simp [this]
        · have : (i < j + 1) = (i < j) := by apply propext; omega
          simp [this])
    s ⟨hs, fun i hi => ⟨by simp, by
      obtain ⟨d, hd1, _⟩ := hd i hi
      exact ⟨d, hd1, by simpa using hd1⟩⟩⟩
  refine ⟨out, h1, h2, fun i hi => ?_, fun i hi => ?_⟩
  · rw [(h3 i hi).1]; simp [hi]
  · obtain ⟨d, e1, e2⟩ := (h3 i hi).2
    exact ⟨d, e1, by simpa [hi] using e2⟩


theorem opposite_rd_eq (opp : Array Nat) (c : Nat) (h : c < opp.size) (hc : c ≠ inv) :
    opposite opp c = .ok opp[c]! := by
  unfold opposite rd
  have : (c == inv) = false := by simpa using hc
  simp [this, h, pure, Except.pure]

theorem dCorner_step (dopp : Array Nat) (N m : Nat) (bit : Nat → Nat → Bool) (hN : dopp.size = N) (hinv : N ≤ inv)
    (k : Nat) (hk : k < N) (s : DSt) (hI : DInv dopp N m bit k s) :
    ∃ s', dCorner false dopp m (k / 3) k s = .ok (.yield s') ∧ DInv dopp N m bit (k + 1) s' := by
  obtain ⟨hsz, hseam, hy⟩ := hI
  unfold dCorner
  rw [opposite_rd_eq dopp k (by omega) (by omega)]
  simp only [bind, Except.bind, Bool.not_false, Bool.true_and]
  by_cases h1 : (dopp[k]! == inv) = true
  · rw [if_pos h1]
    obtain ⟨out, ho1, ho2, ho3⟩ := dBnd_loop k m s.1 hsz
    have hr : readsBit dopp k = false := by
      unfold readsBit
      have : dopp[k]! = inv := by simpa using h1
      simp [this]
    have hp : ∀ i, seamP dopp (bit i) k = true := by
      intro i; unfold seamP; simp [h1]
    rw [ho1]
    refine ⟨_, rfl, ho2, fun i hi => ?_, fun i hi => ?_⟩
    · show out[i]!.toList = _
      rw [ho3 i hi, range_filter_succ, hp i, Array.toList_push, hseam i hi]
      rfl
    · obtain ⟨d, hd1, hd2⟩ := hy i hi
      refine ⟨d, hd1, ?_⟩
      rw [range'_head k N hk, List.filter_cons, hr] at hd2
      exact hd2
  · rw [if_neg h1]
    by_cases h2 : decide (dopp[k]! / 3 < k / 3) = true
    · rw [if_pos h2]
      have hr : readsBit dopp k = false := by
        unfold readsBit
        simp [h2]
      have hp : ∀ i, seamP dopp (bit i) k = false := by
        intro i; unfold seamP
        have : (dopp[k]! == inv) = false := by simpa using h1
        simp [this, hr]
      refine ⟨_, rfl, hsz, fun i hi => ?_, fun i hi => ?_⟩
      · rw [range_filter_succ, hp i, hseam i hi]
        simp
      · obtain ⟨d, hd1, hd2⟩ := hy i hi
        refine ⟨d, hd1, ?_⟩
        rw [range'_head k N hk, List.filter_cons, hr] at hd2
        exact hd2
    · rw [if_neg h2]
      have hr : readsBit dopp k = true := by
        unfold readsBit
        have : (dopp[k]! != inv) = true := by simpa using h1
        simp only [this, Bool.true_and]
        simpa using h2
      have hy' : ∀ i, i < m → ∃ d, s.2.1[i]? = some d ∧ d.nextBit.1 = bit i k ∧
          Yields RAnsBitDec.nextBit d.nextBit.2
            (((List.range' (k + 1) (N - (k + 1)) 1).filter (readsBit dopp)).map (bit i)) := by
        intro i hi
        obtain ⟨d, hd1, hd2⟩ := hy i hi
        rw [range'_head k N hk, List.filter_cons, hr] at hd2
        simp only [if_true, List.map_cons] at hd2
        exact ⟨d, hd1, hd2.1, hd2.2⟩
      obtain ⟨out, ho1, ho2, ho3, ho4⟩ := dAtt_loop k m s (fun i => bit i k) hsz (fun i hi => by
        obtain ⟨d, hd1, hd2, _⟩ := hy' i hi
        exact ⟨d, hd1, hd2⟩)
      rw [ho1]
      refine ⟨_, rfl, ho2, fun i hi => ?_, fun i hi => ?_⟩
      · show out.1[i]!.toList = _
        rw [ho3 i hi, range_filter_succ]
        have hp : seamP dopp (bit i) k = bit i k := by
          unfold seamP
          have : (dopp[k]! == inv) = false := by simpa using h1
          simp [this, hr]
        rw [hp]
        by_cases hb : bit i k = true
        · simp [hb, hseam i hi]
        · simp [hb, hseam i hi]
      · obtain ⟨d, hd1, _, hd3⟩ := hy' i hi
        obtain ⟨d2, e1, e2⟩ := ho4 i hi
        rw [hd1] at e1
        cases e1
        exact ⟨_, e2, hd3⟩

theorem dFace_step (dopp : Array Nat) (N m : Nat) (bit : Nat → Nat → Bool) (hN : dopp.size = N) (hinv : N ≤ inv)
    (f : Nat) (hf : 3 * f + 3 ≤ N) (s : DSt) (hI : DInv dopp N m bit (3 * f) s) :
    ∃ s', dFace false dopp m f s = .ok (.yield s') ∧ DInv dopp N m bit (3 * (f + 1)) s' := by
  unfold dFace
  rw [nextC_eq (3 * f) (by omega), prevC_eq (3 * f) (by omega)]
  have e1 : (3 * f) % 3 = 0 := by omega
  simp only [e1, if_true, show ¬ (0 = 2) by omega, if_false]
  obtain ⟨s1, a1, b1⟩ := dCorner_step dopp N m bit hN hinv (3 * f) (by omega) s hI
  obtain ⟨s2, a2, b2⟩ := dCorner_step dopp N m bit hN hinv (3 * f + 1) (by omega) s1 b1
  obtain ⟨s3, a3, b3⟩ := dCorner_step dopp N m bit hN hinv (3 * f + 1 + 1) (by omega) s2 b2
  rw [show 3 * f / 3 = f by omega] at a1
  rw [show (3 * f + 1) / 3 = f by omega] at a2
  rw [show (3 * f + 1 + 1) / 3 = f by omega, show 3 * f + 1 + 1 = 3 * f + 2 by omega] at a3
  refine ⟨s3, ?_, by rw [show 3 * (f + 1) = 3 * f + 1 + 1 + 1 by omega]; exact b3⟩
  simp only [List.forIn_cons, List.forIn_nil, a1, a2, a3, bind, Except.bind, pure, Except.pure]

end Seams
open Seams

/-- the decoder, on bit decoders that deliver per attribute the bits `bit i d` of the corners `d` at which a bit is read
    (in corner order), collects the boundary corners and the corners whose bit is set -/
theorem decodeSeams_spec (dopp : Array Nat) (n m : Nat) (bit : Nat → Nat → Bool) (decs : Array RAnsBitDec)
    (hN : dopp.size = 3 * n) (hinv : 3 * n ≤ inv)
    (hy : ∀ i, i < m → ∃ d, decs[i]? = some d ∧
      Yields RAnsBitDec.nextBit d (((List.range (3 * n)).filter (readsBit dopp)).map (bit i))) :
    ∃ seams tags, decodeSeams false dopp n m decs = .ok (seams, tags) ∧ seams.size = m ∧
      ∀ i, i < m → seams[i]!.toList = (List.range (3 * n)).filter (seamP dopp (bit i)) := by
  rw [decodeSeams_eq, range_forIn]
  obtain ⟨out, h1, h2, h3, _⟩ := loop_inv (dFace false dopp m) (fun f s => DInv dopp (3 * n) m bit (3 * f) s) n 0
    (fun j s _ hj hI => dFace_step dopp (3 * n) m bit hN hinv j (by omega) s hI)
    (Array.replicate m #[], decs, 0)
    ⟨by simp, fun i hi => by simp [hi], fun i hi => by
      obtain ⟨d, e1, e2⟩ := hy i hi
      refine ⟨d, e1, ?_⟩
      rw [List.range_eq_range'] at e2
      simpa using e2⟩
  rw [h1]
  refine ⟨out.1, out.2.2, rfl, h2, fun i hi => ?_⟩
  rw [h3 i hi]
  simp


namespace Seams

/-! ### consequences of `CTIso` for faces -/

theorem array_forIn_range {σ : Type} (a : Array Nat) (init : σ) (f : Nat → σ → R (ForInStep σ)) :
    forIn a init f = forIn (List.range' 0 a.size 1) init (fun i s => f a[i]! s) := by
  rw [← Array.forIn_toList]
  have : a.toList = (List.range' 0 a.size 1).map (fun i => a[i]!) := by
    apply List.ext_getElem
    · simp
    · intro i h1 h2
      simp at h1
      simp [h1]
  conv => lhs; rw [this]
  rw [List.forIn_map]

theorem phi_0 (p : Array Nat) (f : Nat) : phi p (3 * f) = p[f]! := by
  unfold phi
  have e1 : 3 * f / 3 = f := by omega
  have e2 : 3 * f % 3 = 0 := by omega
  simp [e1, e2]

theorem phi_1 (p : Array Nat) (f : Nat) : phi p (3 * f + 1) = Eb.nextC p[f]! := by
  unfold phi
  have e1 : (3 * f + 1) / 3 = f := by omega
  have e2 : (3 * f + 1) % 3 = 1 := by omega
  simp [e1, e2]

theorem phi_2 (p : Array Nat) (f : Nat) : phi p (3 * f + 2) = Eb.prevC p[f]! := by
  unfold phi
  have e1 : (3 * f + 2) / 3 = f := by omega
  have e2 : (3 * f + 2) % 3 = 2 := by omega
  simp [e1, e2]

end Seams
open Seams

/-- the image of a decoder corner lies in the face of the recorded corner of its face -/
theorem CTIso.phi_face {t : CT} {p : Array Nat} {n : Nat} {dc2v dopp : Array Nat}
    (h : CTIso t p n dc2v dopp) (hC : t.numCorners ≤ inv) (d : Nat) (hd : d < 3 * n) :
    phi p d / 3 = p[d / 3]! / 3 := by
  have hp := h.processed_lt (d / 3) (by omega)
  have hne : p[d / 3]! ≠ inv := by omega
  have h3 : d = 3 * (d / 3) ∨ d = 3 * (d / 3) + 1 ∨ d = 3 * (d / 3) + 2 := by omega
  rcases h3 with e | e | e
  · rw [e, phi_0, ← e]
  · rw [e, phi_1, ← e, nextC_face _ hne]
  · rw [e, phi_2, ← e, prevC_face _ hne]

/-- the face map `i ↦ processed[i] / 3` is injective -/
theorem CTIso.face_inj {t : CT} {p : Array Nat} {n : Nat} {dc2v dopp : Array Nat}
    (h : CTIso t p n dc2v dopp) (hC : t.numCorners ≤ inv) (i j : Nat) (hi : i < n) (hj : j < n)
    (e : p[i]! / 3 = p[j]! / 3) : i = j := by
  have hpi := h.processed_lt i hi
  have hpj := h.processed_lt j hj
  have h1 := nextC_eq p[i]! (by omega)
  have h2 := prevC_eq p[i]! (by omega)
  have hcase : p[j]! = p[i]! ∨ p[j]! = Eb.nextC p[i]! ∨ p[j]! = Eb.prevC p[i]! := by
    rw [h1, h2]
    split <;> split <;> omega
  rcases hcase with c | c | c
  · have := h.inj (3 * j) (3 * i) (by omega) (by omega) (by rw [phi_0, phi_0, c])
    omega
  · have := h.inj (3 * j) (3 * i + 1) (by omega) (by omega) (by rw [phi_0, phi_1, c])
    omega
  · have := h.inj (3 * j) (3 * i + 2) (by omega) (by omega) (by rw [phi_0, phi_2, c])
    omega

/-- no decoder corner has its opposite in its own face -/
def NoSelfOpp (dopp : Array Nat) (n : Nat) : Prop :=
  ∀ d, d < 3 * n → dopp[d]! ≠ inv → dopp[d]! / 3 ≠ d / 3

/-- `NoSelfOpp` follows from the same property of the encoder's table -/
theorem CTIso.noSelfOpp {t : CT} {p : Array Nat} {n : Nat} {dc2v dopp : Array Nat}
    (h : CTIso t p n dc2v dopp) (hC : t.numCorners ≤ inv)
    (ht : ∀ c, c < t.numCorners → t.opp[c]! ≠ inv → t.opp[c]! / 3 ≠ c / 3) : NoSelfOpp dopp n := by
  intro d hd hne e
  obtain ⟨h1, h2⟩ := h.opp_map d hd hne
  have hinv := (h.opp_inv d hd).not.mp hne
  apply ht (phi p d) (h.corner_lt d hd) hinv
  rw [← h2, h.phi_face hC _ h1, h.phi_face hC d hd, e]

/-- the encoder's "the face of the opposite corner is visited" is the decoder's `oc / 3 < f` -/
theorem CTIso.visited_iff {t : CT} {p : Array Nat} {n : Nat} {dc2v dopp : Array Nat}
    (h : CTIso t p n dc2v dopp) (hC : t.numCorners ≤ inv) (hns : NoSelfOpp dopp n)
    (d : Nat) (hd : d < 3 * n) (hne : dopp[d]! ≠ inv) :
    (∃ j, j < d / 3 + 1 ∧ p[j]! / 3 = t.opp[phi p d]! / 3) ↔ dopp[d]! / 3 < d / 3 := by
  obtain ⟨h1, h2⟩ := h.opp_map d hd hne
  have hf := h.phi_face hC _ h1
  rw [h2] at hf
  constructor
  · rintro ⟨j, hj, e⟩
    rw [hf] at e
    have := h.face_inj hC j (dopp[d]! / 3) (by omega) (by omega) e
    have := hns d hd hne
    omega
  · intro hlt
    exact ⟨dopp[d]! / 3, by omega, hf.symm⟩


namespace Seams

/-! ### the encoder -/

theorem rdB_ok {site : String} {a : Array Bool} {i : Nat} {b : Bool} (h : rdB site a i = .ok b) :
    i < a.size ∧ b = a[i]! := by
  unfold rdB at h
  split at h
  · rename_i hi
    simp only [pure, Except.pure] at h
    cases h
    exact ⟨hi, by simp [hi]⟩
  · cases h

theorem wrB_ok {site : String} {a : Array Bool} {i : Nat} {v : Bool} {r : Array Bool} (h : wrB site a i v = .ok r) :
    i < a.size ∧ r.size = a.size ∧ ∀ x, x < a.size → r[x]! = if x = i then v else a[x]! := by
  unfold wrB at h
  split at h
  · rename_i hi
    simp only [pure, Except.pure] at h
    cases h
    refine ⟨hi, by simp, fun x hx => ?_⟩
    by_cases e : x = i
    · subst e; simp [hx]
    · simp [hx, e, Ne.symm e]
  · cases h

theorem opposite_ok {opp : Array Nat} {c v : Nat} (h : opposite opp c = .ok v) (hc : c ≠ inv) : v = opp[c]! := by
  unfold opposite at h
  have : (c == inv) = false := by simpa using hc
  simp only [this, Bool.false_eq_true, if_false] at h
  obtain ⟨hi, e⟩ := rd_ok h
  rw [← e]
  simp [hi]

end Seams
open Seams

/-- the bit of attribute data `i` at decoder corner `d` -/
def bitE (edgeSeams : Array (Array Bool)) (p : Array Nat) (i d : Nat) : Bool := edgeSeams[i]![phi p d]!

namespace Seams

def EInv (dopp : Array Nat) (edgeSeams : Array (Array Bool)) (p : Array Nat) (k : Nat) (s : ESt) : Prop :=
  s.2.size = edgeSeams.size ∧ ∀ i, i < edgeSeams.size →
    s.2[i]!.toList = ((List.range k).filter (readsBit dopp)).map (bitE edgeSeams p i)

theorem eAtt_loop (edgeSeams : Array (Array Bool)) (c : Nat) (s out : ESt) (hs : s.2.size = edgeSeams.size)
    (h : forIn [:edgeSeams.size] s (eAtt edgeSeams c) = .ok out) :
    out.2.size = edgeSeams.size ∧
      ∀ i, i < edgeSeams.size → out.2[i]!.toList = s.2[i]!.toList ++ [edgeSeams[i]![c]!] := by
  rw [range_forIn] at h
  have key := loop_inv_ok (eAtt edgeSeams c) (fun k st => st.2.size = edgeSeams.size ∧ ∀ i, i < edgeSeams.size →
      st.2[i]!.toList = s.2[i]!.toList ++ if i < k then [edgeSeams[i]![c]!] else []) edgeSeams.size 0 (by
    intro j st r _ hj ⟨hsz, hI⟩ hr
    unfold eAtt at hr
    rw [bind_ok_iff] at hr
    obtain ⟨b, hb, hr⟩ := hr
    obtain ⟨_, rfl⟩ := rdB_ok hb
    simp only [pure, Except.pure] at hr
    cases hr
    refine ⟨_, rfl, by simpa using hsz, fun i hi => ?_⟩
    show (st.2.modify j fun x => x.push edgeSeams[j]![c]!)[i]!.toList = _
    rw [modify_get! _ _ _ _ (by omega)]
    by_cases e : i = j
    · subst e
      rw [if_pos rfl, Array.toList_push, hI i hi]
      simp
    · have : (i < j + 1) = (i < j) := by apply propext; omega
      rw [if_neg e, hI i hi]
      simp only [this]) s out ⟨hs, by simp⟩ h
  refine ⟨key.1, fun i hi => ?_⟩
  rw [key.2 i hi]
  simp [hi]

theorem eCorner_step {t : CT} {p : Array Nat} {n : Nat} {dc2v dopp : Array Nat}
    (h : CTIso t p n dc2v dopp) (hC : t.numCorners ≤ inv) (hns : NoSelfOpp dopp n)
    (edgeSeams : Array (Array Bool)) (vis : Array Bool) (d : Nat) (hd : d < 3 * n)
    (hvis : ∀ x, x < vis.size → (vis[x]! = true ↔ ∃ j, j < d / 3 + 1 ∧ p[j]! / 3 = x))
    (s : ESt) (r : ForInStep ESt) (hI : EInv dopp edgeSeams p d s)
    (hr : eCorner t edgeSeams vis (phi p d) s = .ok r) :
    ∃ s', r = .yield s' ∧ EInv dopp edgeSeams p (d + 1) s' := by
  obtain ⟨hsz, hbits⟩ := hI
  have hc := h.corner_lt d hd
  unfold eCorner at hr
  rw [bind_ok_iff] at hr
  obtain ⟨oppC, ho, hr⟩ := hr
  have ho' := opposite_ok ho (by omega)
  subst ho'
  by_cases h1 : (t.opp[phi p d]! == inv) = true
  · rw [if_pos h1] at hr
    simp only [pure, Except.pure] at hr
    cases hr
    have hdo : dopp[d]! = inv := (h.opp_inv d hd).mpr (by simpa using h1)
    have hrb : readsBit dopp d = false := by unfold readsBit; simp [hdo]
    refine ⟨s, rfl, hsz, fun i hi => ?_⟩
    rw [range_filter_succ, hrb, hbits i hi]
    simp
  · rw [if_neg h1, bind_ok_iff] at hr
    obtain ⟨b, hb, hr⟩ := hr
    obtain ⟨hlt, rfl⟩ := rdB_ok hb
    have hdo : dopp[d]! ≠ inv := (h.opp_inv d hd).not.mpr (by simpa using h1)
    have hviff := (hvis _ hlt).trans (h.visited_iff hC hns d hd hdo)
    by_cases h2 : vis[t.opp[phi p d]! / 3]! = true
    · rw [if_pos h2] at hr
      simp only [pure, Except.pure] at hr
      cases hr
      have hrb : readsBit dopp d = false := by
        unfold readsBit
        simp [hviff.mp h2]
      refine ⟨s, rfl, hsz, fun i hi => ?_⟩
      rw [range_filter_succ, hrb, hbits i hi]
      simp
    · rw [if_neg h2, bind_ok_iff] at hr
      obtain ⟨s1, hl, hr⟩ := hr
      simp only [pure, Except.pure] at hr
      cases hr
      have hrb : readsBit dopp d = true := by
        unfold readsBit
        have h3 : ¬ dopp[d]! / 3 < d / 3 := fun e => h2 (hviff.mpr e)
        simp [hdo, h3]
      obtain ⟨k1, k2⟩ := eAtt_loop edgeSeams _ s s1 hsz hl
      refine ⟨s1, rfl, k1, fun i hi => ?_⟩
      rw [range_filter_succ, hrb, k2 i hi, hbits i hi]
      simp [bitE]

theorem eFace_step {t : CT} {p : Array Nat} {n : Nat} {dc2v dopp : Array Nat}
    (h : CTIso t p n dc2v dopp) (hC : t.numCorners ≤ inv) (hns : NoSelfOpp dopp n)
    (edgeSeams : Array (Array Bool)) (f : Nat) (hf : f < n)
    (s : Array RAnsBitEnc × Array (Array Bool) × Array Bool)
    (r : ForInStep (Array RAnsBitEnc × Array (Array Bool) × Array Bool))
    (hI : EInv dopp edgeSeams p (3 * f) (s.1, s.2.1))
    (hV : ∀ x, x < s.2.2.size → (s.2.2[x]! = true ↔ ∃ j, j < f ∧ p[j]! / 3 = x))
    (hr : eFace t edgeSeams p[f]! s = .ok r) :
    ∃ s', r = .yield s' ∧ EInv dopp edgeSeams p (3 * (f + 1)) (s'.1, s'.2.1) ∧
      ∀ x, x < s'.2.2.size → (s'.2.2[x]! = true ↔ ∃ j, j < f + 1 ∧ p[j]! / 3 = x) := by
  have hp := h.processed_lt f hf
  unfold eFace at hr
  rw [bind_ok_iff] at hr
  obtain ⟨vis, hw, hr⟩ := hr
  rw [bind_ok_iff] at hr
  obtain ⟨s1, hl, hr⟩ := hr
  simp only [pure, Except.pure] at hr
  cases hr
  have hface : faceOf p[f]! = p[f]! / 3 := by
    unfold faceOf
    have : (p[f]! == inv) = false := by simp; omega
    simp [this]
  rw [hface] at hw
  obtain ⟨w1, w2, w3⟩ := wrB_ok hw
  have hvis : ∀ x, x < vis.size → (vis[x]! = true ↔ ∃ j, j < f + 1 ∧ p[j]! / 3 = x) := by
    intro x hx
    rw [w2] at hx
    rw [w3 x hx]
    by_cases e : x = p[f]! / 3
    · simp only [e, if_true, true_iff]
      exact ⟨f, by omega, rfl⟩
    · rw [if_neg e, hV x hx]
      constructor
      · rintro ⟨j, hj, e'⟩
        exact ⟨j, by omega, e'⟩
      · rintro ⟨j, hj, e'⟩
        have : j ≠ f := by
          intro e2
          subst e2
          exact e e'.symm
        exact ⟨j, by omega, e'⟩
  have el : [p[f]!, Eb.nextC p[f]!, Eb.prevC p[f]!] = [phi p (3 * f), phi p (3 * f + 1), phi p (3 * f + 2)] := by
    rw [phi_0, phi_1, phi_2]
  rw [el, List.forIn_cons, bind_ok_iff] at hl
  obtain ⟨r1, a1, hl⟩ := hl
  obtain ⟨s2, rfl, b1⟩ := eCorner_step h hC hns edgeSeams vis (3 * f) (by omega)
    (by rw [show 3 * f / 3 + 1 = f + 1 by omega]; exact hvis) _ r1 hI a1
  dsimp only at hl
  rw [List.forIn_cons, bind_ok_iff] at hl
  obtain ⟨r2, a2, hl⟩ := hl
  obtain ⟨s3, rfl, b2⟩ := eCorner_step h hC hns edgeSeams vis (3 * f + 1) (by omega)
    (by rw [show (3 * f + 1) / 3 + 1 = f + 1 by omega]; exact hvis) _ r2 b1 a2
  dsimp only at hl
  rw [List.forIn_cons, bind_ok_iff] at hl
  obtain ⟨r3, a3, hl⟩ := hl
  obtain ⟨s4, rfl, b3⟩ := eCorner_step h hC hns edgeSeams vis (3 * f + 2) (by omega)
    (by rw [show (3 * f + 2) / 3 + 1 = f + 1 by omega]; exact hvis) _ r3 b2 a3
  dsimp only at hl
  simp only [List.forIn_nil, pure, Except.pure] at hl
  cases hl
  exact ⟨_, rfl, by rw [show 3 * (f + 1) = 3 * f + 2 + 1 by omega]; exact b3, hvis⟩

end Seams
open Seams

/-- the bits the encoder writes for attribute data `i`: the flags `edgeSeams[i]` at the images of the decoder corners at
    which the decoder reads a bit, in the decoder's corner order -/
theorem encodeSeamBits_spec {t : CT} {p : Array Nat} {n : Nat} {dc2v dopp : Array Nat}
    (h : CTIso t p n dc2v dopp) (hC : t.numCorners ≤ inv) (hns : NoSelfOpp dopp n)
    (edgeSeams : Array (Array Bool)) (encs : Array RAnsBitEnc) (seamBits : Array (Array Bool))
    (he : encodeSeamBits t p edgeSeams = .ok (encs, seamBits)) :
    seamBits.size = edgeSeams.size ∧ ∀ i, i < edgeSeams.size →
      seamBits[i]!.toList = ((List.range (3 * n)).filter (readsBit dopp)).map (bitE edgeSeams p i) := by
  rw [encodeSeamBits_eq] at he
  by_cases hem : (!edgeSeams.isEmpty) = true
  · rw [if_pos hem, bind_ok_iff] at he
    obtain ⟨s, hl, he⟩ := he
    simp only [pure, Except.pure] at he
    cases he
    rw [array_forIn_range] at hl
    have key := loop_inv_ok (fun i s => eFace t edgeSeams p[i]! s)
      (fun f s => EInv dopp edgeSeams p (3 * f) (s.1, s.2.1) ∧
        ∀ x, x < s.2.2.size → (s.2.2[x]! = true ↔ ∃ j, j < f ∧ p[j]! / 3 = x)) p.size 0
      (fun j s r _ hj hI hr => eFace_step h hC hns edgeSeams j (by rw [h.faces]; omega) s r hI.1 hI.2 hr)
      _ s ⟨⟨by simp, fun i hi => by simp [hi]⟩, fun x hx => by
        simp only [Array.size_replicate] at hx
        simp [hx]⟩ hl
    rw [Nat.zero_add, ← h.faces] at key
    exact key.1
  · rw [if_neg hem] at he
    simp only [pure, Except.pure] at he
    cases he
    have : edgeSeams.size = 0 := by simpa using hem
    refine ⟨by simp, fun i hi => by omega⟩


/-! ### (A) the seam corners of the decoder -/

/-- **bit alignment, list form**: the decoder, reading the bits the encoder wrote, succeeds, and its seam corner list of
    attribute data `i` is the list of the decoder corners `c` (in increasing order, each once) that are on the boundary or
    at which a bit is read (`readsBit`) and the encoder's flag at the image `phi processed c` is set -/
theorem seams_list {t : CT} {p : Array Nat} {n : Nat} {dc2v dopp : Array Nat}
    (h : CTIso t p n dc2v dopp) (hC : t.numCorners ≤ inv) (hns : NoSelfOpp dopp n)
    (edgeSeams : Array (Array Bool)) (encs : Array RAnsBitEnc) (seamBits : Array (Array Bool)) (decs : Array RAnsBitDec)
    (he : encodeSeamBits t p edgeSeams = .ok (encs, seamBits))
    (hds : decs.size = edgeSeams.size)
    (hy : ∀ i (hi : i < decs.size), Yields RAnsBitDec.nextBit decs[i] (seamBits[i]!).toList) :
    ∃ seams tags, decodeSeams false dopp n edgeSeams.size decs = .ok (seams, tags) ∧ seams.size = edgeSeams.size ∧
      ∀ i, i < edgeSeams.size →
        seams[i]!.toList = (List.range (3 * n)).filter (seamP dopp (bitE edgeSeams p i)) := by
  obtain ⟨_, hb⟩ := encodeSeamBits_spec h hC hns edgeSeams encs seamBits he
  have hle := h.corners_le
  exact decodeSeams_spec dopp n edgeSeams.size (bitE edgeSeams p) decs h.sizes.2 (by omega) (fun i hi => by
    have hi' : i < decs.size := by omega
    refine ⟨decs[i], by simp [hi'], ?_⟩
    rw [← hb i hi]
    exact hy i hi')

theorem seamP_iff {p : Array Nat} {n : Nat} {dopp : Array Nat}
    (hns : NoSelfOpp dopp n) (edgeSeams : Array (Array Bool)) (i c : Nat) (hc : c < 3 * n) :
    seamP dopp (bitE edgeSeams p i) c = true ↔
      (dopp[c]! = inv ∨ (dopp[c]! ≠ inv ∧ c / 3 < dopp[c]! / 3 ∧ edgeSeams[i]![phi p c]! = true)) := by
  unfold seamP readsBit bitE
  by_cases e : dopp[c]! = inv
  · simp [e]
  · have := hns c hc e
    have e2 : (c / 3 < dopp[c]! / 3) ↔ ¬ dopp[c]! / 3 < c / 3 := by omega
    simp [e, e2]

/-- **(A) bit alignment**: the decoder, reading the bits the encoder wrote, succeeds, and decoder corner `c` is a seam
    corner of attribute data `i` exactly when it is on the boundary, or its opposite lies in a later face (the edge is
    decoded from this side) and the encoder's flag at the image `phi processed c` is set -/
theorem seams_correspond {t : CT} {p : Array Nat} {n : Nat} {dc2v dopp : Array Nat}
    (h : CTIso t p n dc2v dopp) (hC : t.numCorners ≤ inv) (hns : NoSelfOpp dopp n)
    (edgeSeams : Array (Array Bool)) (encs : Array RAnsBitEnc) (seamBits : Array (Array Bool)) (decs : Array RAnsBitDec)
    (he : encodeSeamBits t p edgeSeams = .ok (encs, seamBits))
    (hds : decs.size = edgeSeams.size)
    (hy : ∀ i (hi : i < decs.size), Yields RAnsBitDec.nextBit decs[i] (seamBits[i]!).toList) :
    ∃ seams tags, decodeSeams false dopp n edgeSeams.size decs = .ok (seams, tags) ∧ seams.size = edgeSeams.size ∧
      ∀ i, i < edgeSeams.size → ∀ c, c < 3 * n →
        (c ∈ seams[i]! ↔
          (dopp[c]! = inv ∨ (dopp[c]! ≠ inv ∧ c / 3 < dopp[c]! / 3 ∧ edgeSeams[i]![phi p c]! = true))) := by
  obtain ⟨seams, tags, h1, h2, h3⟩ := seams_list h hC hns edgeSeams encs seamBits decs he hds hy
  refine ⟨seams, tags, h1, h2, fun i hi c hc => ?_⟩
  rw [← Array.mem_toList_iff, h3 i hi, List.mem_filter, List.mem_range,
    seamP_iff hns edgeSeams i c hc]
  simp [hc]

/-! ### (B) the seam flags of the decoder -/

namespace Seams

abbrev BSt := Array Bool × Array Bool × Bool

/-- the body of the first loop of `Eb.buildAttConn` (`AddSeamEdge` for one seam corner) -/
def bacStep (c2vBase opp : Array Nat) (c : Nat) (s : BSt) : R (ForInStep BSt) := do
  let edgeSeam ← wrB "is_edge_on_seam_" s.1 c true
  let vertSeam ← wrB "is_vertex_on_seam_" s.2.1 (← vertex c2vBase (Eb.nextC c)) true
  let vertSeam ← wrB "is_vertex_on_seam_" vertSeam (← vertex c2vBase (Eb.prevC c)) true
  let oc ← opposite opp c
  if (oc != inv) = true then do
    let edgeSeam ← wrB "is_edge_on_seam_" edgeSeam oc true
    let vertSeam ← wrB "is_vertex_on_seam_" vertSeam (← vertex c2vBase (Eb.nextC oc)) true
    let vertSeam ← wrB "is_vertex_on_seam_" vertSeam (← vertex c2vBase (Eb.prevC oc)) true
    pure (ForInStep.yield (edgeSeam, vertSeam, false))
  else pure (ForInStep.yield (edgeSeam, vertSeam, s.2.2))

end Seams
open Seams

/-- the first loop of `Eb.buildAttConn`: `(is_edge_on_seam_, is_vertex_on_seam_, no_interior_seams_)` after
    `AddSeamEdge` for every seam corner -/
def markSeams (c2vBase opp vc seamCorners : Array Nat) : R BSt :=
  forIn seamCorners ((Array.replicate c2vBase.size false, Array.replicate vc.size false, true) : BSt)
    (bacStep c2vBase opp)

/-- `is_edge_on_seam_` of a successful `buildAttConn` is the array its first loop (`markSeams`) produces -/
theorem buildAttConn_edgeSeam (c2vBase opp vc sc : Array Nat) (a : AttConn)
    (h : buildAttConn c2vBase opp vc sc = .ok a) :
    ∃ s, markSeams c2vBase opp vc sc = .ok s ∧ a.edgeSeam = s.1 := by
  obtain ⟨s, h1, h2⟩ := (bind_ok_iff (α := BSt) (forIn sc ((Array.replicate c2vBase.size false,
    Array.replicate vc.size false, true) : BSt) (bacStep c2vBase opp)) _ a).mp h
  refine ⟨s, h1, ?_⟩
  obtain ⟨s2, _, h4⟩ := (bind_ok_iff _ _ a).mp h2
  cases h4
  rfl

namespace Seams

theorem bacStep_ok (c2vBase opp : Array Nat) (c : Nat) (st : BSt) (r : ForInStep BSt) (hsz : st.1.size ≤ inv)
    (h : bacStep c2vBase opp c st = .ok r) :
    ∃ st', r = .yield st' ∧ st'.1.size = st.1.size ∧ c < st.1.size ∧
      ∀ d, d < st.1.size → (st'.1[d]! = true ↔ st.1[d]! = true ∨ d = c ∨ (opp[c]! ≠ inv ∧ opp[c]! = d)) := by
  unfold bacStep at h
  rw [bind_ok_iff] at h
  obtain ⟨es, h1, h⟩ := h
  rw [bind_ok_iff] at h
  obtain ⟨v1, _, h⟩ := h
  rw [bind_ok_iff] at h
  obtain ⟨vs1, _, h⟩ := h
  rw [bind_ok_iff] at h
  obtain ⟨v2, _, h⟩ := h
  rw [bind_ok_iff] at h
  obtain ⟨vs2, _, h⟩ := h
  rw [bind_ok_iff] at h
  obtain ⟨oc, ho, h⟩ := h
  obtain ⟨w1, w2, w3⟩ := wrB_ok h1
  have hoc := opposite_ok ho (by omega)
  subst hoc
  by_cases hne : (opp[c]! != inv) = true
  · rw [if_pos hne, bind_ok_iff] at h
    obtain ⟨es2, h2, h⟩ := h
    rw [bind_ok_iff] at h
    obtain ⟨v3, _, h⟩ := h
    rw [bind_ok_iff] at h
    obtain ⟨vs3, _, h⟩ := h
    rw [bind_ok_iff] at h
    obtain ⟨v4, _, h⟩ := h
    rw [bind_ok_iff] at h
    obtain ⟨vs4, _, h⟩ := h
    simp only [pure, Except.pure] at h
    cases h
    obtain ⟨u1, u2, u3⟩ := wrB_ok h2
    have hne' : opp[c]! ≠ inv := by simpa using hne
    refine ⟨_, rfl, by rw [u2, w2], w1, fun d hd => ?_⟩
    show es2[d]! = true ↔ _
    rw [u3 d (by omega), w3 d hd]
    by_cases e1 : d = opp[c]!
    · simp [e1, hne']
    · have e1' : ¬ opp[c]! = d := fun e => e1 e.symm
      by_cases e2 : d = c <;> simp [e1, e1', e2]
  · rw [if_neg hne] at h
    simp only [pure, Except.pure] at h
    cases h
    have hne' : opp[c]! = inv := by simpa using hne
    refine ⟨_, rfl, w2, w1, fun d hd => ?_⟩
    show es[d]! = true ↔ _
    rw [w3 d hd]
    by_cases e2 : d = c <;> simp [e2, hne']

theorem markLoop_ok (c2vBase opp : Array Nat) : ∀ (l : List Nat) (init s : BSt), init.1.size ≤ inv →
    forIn l init (bacStep c2vBase opp) = .ok s →
    s.1.size = init.1.size ∧ (∀ c, c ∈ l → c < init.1.size) ∧
    ∀ d, d < init.1.size →
      (s.1[d]! = true ↔ init.1[d]! = true ∨ d ∈ l ∨ ∃ c, c ∈ l ∧ opp[c]! ≠ inv ∧ opp[c]! = d) := by
  intro l
  induction l with
  | nil =>
    intro init s _ h
    simp only [List.forIn_nil, pure, Except.pure] at h
    cases h
    simp
  | cons a l ih =>
    intro init s hsz h
    rw [List.forIn_cons, bind_ok_iff] at h
    obtain ⟨r, h1, h2⟩ := h
    obtain ⟨st', rfl, k1, k2, k3⟩ := bacStep_ok c2vBase opp a init r hsz h1
    dsimp only at h2
    obtain ⟨j1, j2, j3⟩ := ih st' s (by omega) h2
    refine ⟨by omega, ?_, fun d hd => ?_⟩
    · intro c hc
      rcases List.mem_cons.mp hc with rfl | hc'
      · exact k2
      · have := j2 c hc'; omega
    · rw [j3 d (by omega), k3 d hd]
      simp only [List.mem_cons, exists_eq_or_imp]
      tauto

end Seams
open Seams

/-- the encoder's opposite map is an involution -/
def CTOppInvol (t : CT) : Prop := ∀ c, c < t.numCorners → t.opp[c]! ≠ inv → t.opp[t.opp[c]!]! = c

/-- **(B) the seam flags**: if the encoder's flags of attribute data `i` are symmetric and mark every boundary edge of a
    processed face, then the flags the decoder's `AddSeamEdge` loop (`markSeams`, the first loop of `buildAttConn`) sets
    from the decoded seam corners are the encoder's flags at the images of the corners -/
theorem markSeams_flags {t : CT} {p : Array Nat} {n : Nat} {dc2v dopp : Array Nat}
    (h : CTIso t p n dc2v dopp) (hC : t.numCorners ≤ inv) (hinvol : CTOppInvol t)
    (edgeSeams : Array (Array Bool)) (i : Nat)
    (hsym : ∀ c, c < t.numCorners → t.opp[c]! ≠ inv → edgeSeams[i]![t.opp[c]!]! = edgeSeams[i]![c]!)
    (hbnd : ∀ d, d < 3 * n → t.opp[phi p d]! = inv → edgeSeams[i]![phi p d]! = true)
    (dvc sc : Array Nat)
    (hsc : sc.toList = (List.range (3 * n)).filter (seamP dopp (bitE edgeSeams p i)))
    (s : BSt) (hs : markSeams dc2v dopp dvc sc = .ok s) :
    s.1.size = 3 * n ∧ ∀ d, d < 3 * n → s.1[d]! = edgeSeams[i]![phi p d]! := by
  have hle := h.corners_le
  unfold markSeams at hs
  rw [← Array.forIn_toList] at hs
  obtain ⟨k1, _, k3⟩ := markLoop_ok dc2v dopp sc.toList _ s (by simp [h.sizes.1]; omega) hs
  simp only [Array.size_replicate, h.sizes.1] at k1 k3
  refine ⟨k1, fun d hd => ?_⟩
  -- membership in the seam corner list
  have hmem : ∀ c, c ∈ sc.toList ↔ c < 3 * n ∧ seamP dopp (bitE edgeSeams p i) c = true := by
    intro c
    rw [hsc, List.mem_filter, List.mem_range]
  -- a seam corner has its flag set
  have hflag : ∀ c, c ∈ sc.toList → edgeSeams[i]![phi p c]! = true := by
    intro c hc
    obtain ⟨hc1, hc2⟩ := (hmem c).mp hc
    unfold seamP bitE at hc2
    simp only [Bool.or_eq_true, Bool.and_eq_true, beq_iff_eq] at hc2
    rcases hc2 with e | ⟨_, e⟩
    · exact hbnd c hc1 ((h.opp_inv c hc1).mp e)
    · exact e
  have hiff : s.1[d]! = true ↔ edgeSeams[i]![phi p d]! = true := by
    have hrep : (Array.replicate (3 * n) false)[d]! = false := by
      simp [hd]
    rw [k3 d hd, hrep]
    simp only [Bool.false_eq_true, false_or]
    constructor
    · rintro (hc | ⟨c, hc, hne, e⟩)
      · exact hflag d hc
      · have hc1 := ((hmem c).mp hc).1
        obtain ⟨_, m2⟩ := h.opp_map c hc1 hne
        have hne' := (h.opp_inv c hc1).not.mp hne
        rw [← e, m2, hsym _ (h.corner_lt c hc1) hne']
        exact hflag c hc
    · intro hE
      by_cases e : dopp[d]! = inv
      · left
        rw [hmem]
        refine ⟨hd, ?_⟩
        unfold seamP
        simp [e]
      · by_cases e2 : dopp[d]! / 3 < d / 3
        · right
          obtain ⟨m1, m2⟩ := h.opp_map d hd e
          have hne' := (h.opp_inv d hd).not.mp e
          -- the opposite corner `c` of `d` has `d` as its opposite
          have hback : dopp[dopp[d]!]! = d := by
            have hi2 := hinvol _ (h.corner_lt d hd) hne'
            have hne2 : t.opp[phi p dopp[d]!]! ≠ inv := by
              rw [m2, hi2]
              have := h.corner_lt d hd
              omega
            have hne3 := (h.opp_inv _ m1).not.mpr hne2
            obtain ⟨m3, m4⟩ := h.opp_map _ m1 hne3
            rw [m2, hi2] at m4
            exact h.inj _ _ m3 hd m4
          refine ⟨dopp[d]!, ?_, by rw [hback]; omega, hback⟩
          rw [hmem]
          refine ⟨m1, ?_⟩
          unfold seamP readsBit bitE
          have e3 : ¬ d / 3 < dopp[d]! / 3 := by omega
          have e4 : d ≠ inv := by omega
          rw [hback, m2, hsym _ (h.corner_lt d hd) hne', hE]
          simp [e3, e4]
        · left
          rw [hmem]
          refine ⟨hd, ?_⟩
          unfold seamP readsBit bitE
          simp [e, e2, hE]
  cases hb : edgeSeams[i]![phi p d]! with
  | true => exact hiff.mpr hb
  | false =>
    cases hb2 : s.1[d]! with
    | false => rfl
    | true => rw [hiff.mp hb2] at hb; cases hb


/-- **(A) + (B)**: the decoder succeeds on the encoder's bits, and whenever `buildAttConn` succeeds on the decoded seam
    corners of an attribute data whose encoder flags are symmetric and mark the boundary, its `is_edge_on_seam_` is the
    image of the encoder's -/
theorem seam_flags_correspond {t : CT} {p : Array Nat} {n : Nat} {dc2v dopp : Array Nat}
    (h : CTIso t p n dc2v dopp) (hC : t.numCorners ≤ inv) (hns : NoSelfOpp dopp n) (hinvol : CTOppInvol t)
    (edgeSeams : Array (Array Bool)) (encs : Array RAnsBitEnc) (seamBits : Array (Array Bool)) (decs : Array RAnsBitDec)
    (he : encodeSeamBits t p edgeSeams = .ok (encs, seamBits))
    (hds : decs.size = edgeSeams.size)
    (hy : ∀ i (hi : i < decs.size), Yields RAnsBitDec.nextBit decs[i] (seamBits[i]!).toList) :
    ∃ seams tags, decodeSeams false dopp n edgeSeams.size decs = .ok (seams, tags) ∧ seams.size = edgeSeams.size ∧
      ∀ i, i < edgeSeams.size →
        (∀ c, c < t.numCorners → t.opp[c]! ≠ inv → edgeSeams[i]![t.opp[c]!]! = edgeSeams[i]![c]!) →
        (∀ d, d < 3 * n → t.opp[phi p d]! = inv → edgeSeams[i]![phi p d]! = true) →
        ∀ dvc a, buildAttConn dc2v dopp dvc seams[i]! = .ok a →
          a.edgeSeam.size = 3 * n ∧ ∀ d, d < 3 * n → a.edgeSeam[d]! = edgeSeams[i]![phi p d]! := by
  obtain ⟨seams, tags, h1, h2, h3⟩ := seams_list h hC hns edgeSeams encs seamBits decs he hds hy
  refine ⟨seams, tags, h1, h2, fun i hi hsym hbnd dvc a ha => ?_⟩
  obtain ⟨s, hs, e⟩ := buildAttConn_edgeSeam dc2v dopp dvc _ a ha
  rw [e]
  exact markSeams_flags h hC hinvol edgeSeams i hsym hbnd dvc _ (h3 i hi) s hs

namespace Seams

/-! ### non-vacuity -/

/-- two triangles sharing an edge (the second example of EbCTIso.lean, decoder vertices `0 … 3`) -/
def exT : CT := ⟨#[0, 1, 2, 2, 1, 3], #[5, inv, inv, inv, inv, 0], #[0, 1, 2, 5], 0, 0⟩
def exDc2v : Array Nat := #[0, 1, 2, 1, 0, 3]
def exDopp : Array Nat := #[inv, inv, 5, inv, inv, 2]
/-- two attribute data: the shared edge is a seam of the first and not of the second -/
def exES : Array (Array Bool) := #[#[true, true, true, true, true, true], #[false, true, true, true, true, false]]

theorem exIso : CTIso exT #[3, 1] 2 exDc2v exDopp := by
  apply ctIso_sound
  · decide
  · decide
  · intro d hd
    have : d = 0 ∨ d = 1 ∨ d = 2 ∨ d = 3 ∨ d = 4 ∨ d = 5 := by omega
    rcases this with rfl | rfl | rfl | rfl | rfl | rfl <;> decide
  · simp [ctIso, exT, exDc2v, exDopp, CT.numCorners, CT.numVertices, Id.run, Std.Legacy.Range.forIn_eq_forIn_range',
      Std.Legacy.Range.size, List.range'_succ, inv, Eb.nextC, Eb.prevC, bind, pure]

theorem exNoSelfOpp : NoSelfOpp exDopp 2 := by
  intro d hd
  have : d = 0 ∨ d = 1 ∨ d = 2 ∨ d = 3 ∨ d = 4 ∨ d = 5 := by omega
  rcases this with rfl | rfl | rfl | rfl | rfl | rfl <;> decide

theorem exEnc : ∃ encs, encodeSeamBits exT #[3, 1] exES = .ok (encs, #[#[true], #[false]]) := by
  simp [encodeSeamBits_eq, exES, exT, eFace, eCorner, eAtt, List.range'_succ, wrB, rdB, opposite, rd,
    faceOf, CT.numFaces, inv, Eb.nextC, Eb.prevC, bind, Except.bind, pure, Except.pure]
  decide


/-- (A) on the example: with bit decoders opened on the encoder's buffers the decoder finds the corners `0 1 2 3 4`
    (boundary + the seam edge at corner 2, decoded at face 0) for the first attribute data and the boundary corners for
    the second -/
theorem exA : ∃ decs seams tags, decs.size = 2 ∧ decodeSeams false exDopp 2 2 decs = .ok (seams, tags) ∧
    seams[0]!.toList = [0, 1, 2, 3, 4] ∧ seams[1]!.toList = [0, 1, 3, 4] := by
  obtain ⟨encs, he⟩ := exEnc
  obtain ⟨d0, _, y0⟩ := ransBit_start_finish Generated.fastdivTab divOK_generated (fun _ _ => 0) (encodeBits [true])
    (by rw [encodeBits_flat]; decide) []
  obtain ⟨d1, _, y1⟩ := ransBit_start_finish Generated.fastdivTab divOK_generated (fun _ _ => 0) (encodeBits [false])
    (by rw [encodeBits_flat]; decide) []
  rw [encodeBits_flat] at y0 y1
  obtain ⟨seams, tags, h1, _, h3⟩ := seams_list exIso (by decide) exNoSelfOpp exES encs _ #[d0, d1] he rfl (by
    intro i hi
    have : i = 0 ∨ i = 1 := by
      simp only [List.size_toArray, List.length_cons, List.length_nil] at hi
      omega
    rcases this with rfl | rfl
    · exact y0
    · exact y1)
  refine ⟨#[d0, d1], seams, tags, rfl, h1, ?_, ?_⟩
  · rw [h3 0 (by decide)]; decide
  · rw [h3 1 (by decide)]; decide

/-- (B) on the example: `AddSeamEdge` on the decoded corners of the first attribute data succeeds and reproduces the
    encoder's flags -/
theorem exB : ∃ s, markSeams exDc2v exDopp #[0, 1, 2, 5] #[0, 1, 2, 3, 4] = .ok s ∧
    ∀ d, d < 6 → s.1[d]! = exES[0]![phi #[3, 1] d]! := by
  have hs : ∃ s, markSeams exDc2v exDopp #[0, 1, 2, 5] #[0, 1, 2, 3, 4] = .ok s := by
    simp [markSeams, bacStep, exDc2v, exDopp, wrB, vertex, rd, opposite, inv, Eb.nextC, Eb.prevC, bind, Except.bind,
      pure, Except.pure]
  obtain ⟨s, hs⟩ := hs
  refine ⟨s, hs, ?_⟩
  have six : ∀ c, c < 6 → c = 0 ∨ c = 1 ∨ c = 2 ∨ c = 3 ∨ c = 4 ∨ c = 5 := fun c hc => by omega
  exact (markSeams_flags exIso (by decide)
    (by intro c hc; rcases six c hc with rfl | rfl | rfl | rfl | rfl | rfl <;> decide) exES 0
    (by intro c hc; rcases six c hc with rfl | rfl | rfl | rfl | rfl | rfl <;> decide)
    (by intro c hc; rcases six c hc with rfl | rfl | rfl | rfl | rfl | rfl <;> decide)
    #[0, 1, 2, 5] #[0, 1, 2, 3, 4] (by decide) s hs).2

end Seams

end Draco.EbEnc
