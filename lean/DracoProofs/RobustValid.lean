import DracoProofs.RobustPost


/-
  C03 on the model: every geometry returned by the sequential decoders is structurally valid.
-/
namespace Draco.Robust
open Draco Draco.DecM

theorem zipWith_len (f : Int → Int → Int) (p c : List Int) (nc : Nat) (hp : p.length = nc) (hc : c.length = nc) :
    (List.zipWith f p c).length = nc := by simp [hp, hc]

theorem post_symbols (k nc : Nat) : Post (lift (Leaf.decodeSymbols (k * nc) nc)) (fun l => l.length = k * nc) :=
  post_lift (fun bs a rest h => decodeSymbols_length k nc bs a rest h)

theorem post_symbolsV (legacy : Bool) (k nc : Nat) :
    Post (lift (decodeSymbolsV legacy (k * nc) nc)) (fun l => l.length = k * nc) :=
  post_lift (fun bs a rest h => decodeSymbolsV_length legacy k nc bs a rest h)

theorem octaStep_len (dec : Int × Int → Int × Int → Int × Int) (p cr : List Int) (nc : Nat) (_hp : p.length = nc)
    (hc : cr.length = nc) :
    (match p, cr with
      | [p0, p1], [c0, c1] => (match dec (p0, p1) (c0, c1) with | (a, b) => [a, b])
      | _, _ => cr).length = nc := by
  split
  · simp at hc ⊢; omega
  · exact hc

theorem integerValuesTail_length (sel ne nc : Nat) :
    Post (integerValuesTail sel ne nc) (fun vals => vals.length = ne * nc) := by
  unfold integerValuesTail
  apply post_bind_any; intro ver
  apply post_bind_require; intro hnc
  have hnc : 0 < nc := by simpa using hnc
  extract_lets numValues jp2
  have hnv : numValues = ne * nc := rfl
  apply post_bind_any; intro _
  apply post_bind_require; intro _
  apply post_ite
  · intro _; exact post_failWith
  intro _
  apply post_bind_any; intro compressed
  have hjp2 : ∀ raw : List Nat, raw.length = ne * nc → Post (jp2 raw) (fun vals => vals.length = ne * nc) := by
    intro raw hraw
    simp -zeta only [jp2]
    extract_lets vals octaDelta
    have hv : vals.length = ne * nc := by
      simp only [vals]; split <;> simp [hraw]
    have hod : ∀ dec, (octaDelta dec).length = ne * nc := by
      intro dec
      simp only [octaDelta]
      exact deltaDecode_length _ nc ne hnc (fun p cr hp hc => octaStep_len dec p cr nc hp hc) _ hv
    split
    · apply post_bind_any; intro t
      apply post_pure
      exact deltaDecode_length _ nc ne hnc (fun p c hp hc => zipWith_len _ p c nc hp hc) _ hv
    · apply post_bind_any; intro c
      exact post_pure (hod _)
    · apply post_bind_any; intro c
      exact post_pure (hod _)
    · exact post_pure hv
  apply post_ite <;> intro _
  · exact post_bind (post_symbolsV _ ne nc) (fun raw hraw => hjp2 raw hraw)
  · apply post_bind_any; intro numBytes
    apply post_ite <;> intro hnb
    · refine post_bind (post_bytes (4 * numValues)) (fun b hb => ?_)
      apply post_bind_pure
      exact hjp2 _ (leGroups_length 4 (ne * nc) (by omega) b (by rw [hb, hnv]; omega))
    · apply post_bind_any; intro _
      apply post_bind_any; intro rem
      apply post_bind_any; intro _
      apply post_ite <;> intro hz
      · apply post_bind_pure
        exact hjp2 _ (by simp [hnv])
      · refine post_bind (post_bytes (numBytes * numValues)) (fun b hb => ?_)
        apply post_bind_pure
        have : 0 < numBytes := by
          rcases Nat.eq_zero_or_pos numBytes with h | h
          · simp [h] at hz
          · exact h
        exact hjp2 _ (leGroups_length numBytes (ne * nc) this b (by rw [hb, hnv]; exact Nat.mul_comm _ _))

theorem decodeIntegerValues_length (kind ne nc : Nat) :
    Post (decodeIntegerValues kind ne nc) (fun vals => vals.length = ne * nc) := by
  unfold decodeIntegerValues
  apply post_bind_any; intro ver
  apply post_ite
  · intro _; exact post_failWith
  intro _
  apply post_bind_any; intro method
  apply post_bind_any; intro _
  extract_lets sel0 numValues jp sel3 sel2 sel1
  have hnv : numValues = ne * nc := rfl
  have hjp : ∀ sel, Post (jp () sel) (fun vals => vals.length = ne * nc) := by
    intro sel
    simp -zeta only [jp]
    apply post_ite
    · intro _; exact integerValuesTail_length 2 ne nc
    intro _
    apply post_bind_require; intro hnc
    have hnc : 0 < nc := by simpa using hnc
    apply post_bind_any; intro _
    apply post_bind_require; intro _
    apply post_bind_any; intro compressed
    extract_lets jp2
    have hjp2 : ∀ raw : List Nat, raw.length = ne * nc → Post (jp2 raw) (fun vals => vals.length = ne * nc) := by
      intro raw hraw
      simp -zeta only [jp2]
      extract_lets vals
      have hv : vals.length = ne * nc := by
        simp only [vals]; split <;> simp [hraw]
      split
      · apply post_bind_any; intro minV
        apply post_bind_any; intro maxV
        apply post_bind_any; intro _
        apply post_bind_any; intro t
        apply post_ite <;> intro _ <;> apply post_pure
        · exact deltaDecode_length _ nc ne hnc (fun p c hp hc => zipWith_len _ p c nc hp hc) _ hv
        · exact hv
      · apply post_bind_any; intro maxQ
        apply post_bind_any; intro _
        apply post_bind_any; intro c
        apply post_ite <;> intro _ <;> apply post_pure
        · refine deltaDecode_length _ nc ne hnc (fun p cr hp hc => ?_) _ hv
          split
          · simp at hc ⊢; omega
          · exact hc
        · exact hv
      · exact post_pure hv
    apply post_ite <;> intro _
    · exact post_bind (post_symbols ne nc) (fun raw hraw => hjp2 raw hraw)
    · apply post_bind_any; intro numBytes
      apply post_ite <;> intro hnb
      · refine post_bind (post_bytes (4 * numValues)) (fun b hb => ?_)
        apply post_bind_pure
        exact hjp2 _ (leGroups_length 4 (ne * nc) (by omega) b (by rw [hb, hnv]; omega))
      · apply post_bind_any; intro _
        apply post_bind_any; intro rem
        apply post_bind_any; intro _
        apply post_ite <;> intro hz
        · apply post_bind_pure
          exact hjp2 _ (by simp [hnv])
        · refine post_bind (post_bytes (numBytes * numValues)) (fun b hb => ?_)
          apply post_bind_pure
          have : 0 < numBytes := by
            rcases Nat.eq_zero_or_pos numBytes with h | h
            · simp [h] at hz
            · exact h
          exact hjp2 _ (leGroups_length numBytes (ne * nc) this b (by rw [hb, hnv]; exact Nat.mul_comm _ _))
  apply post_ite <;> intro _
  · apply post_bind_any; intro tt
    apply post_bind_any; intro _
    repeat' (first | exact hjp _ | (apply post_ite <;> intro _))
  · exact hjp _

/-! ### attribute descriptors -/

def DescOk (d : AttDesc) : Prop := 1 ≤ d.numComponents ∧ 1 ≤ d.dataType ∧ d.dataType < 12

theorem dataTypeLength_pos (dt : Nat) (h1 : 1 ≤ dt) (h2 : dt < 12) : 1 ≤ dataTypeLength dt := by
  unfold dataTypeLength
  have : dt = 1 ∨ dt = 2 ∨ dt = 3 ∨ dt = 4 ∨ dt = 5 ∨ dt = 6 ∨ dt = 7 ∨ dt = 8 ∨ dt = 9 ∨ dt = 10 ∨ dt = 11 := by omega
  rcases this with h | h | h | h | h | h | h | h | h | h | h <;> subst h <;> decide

theorem decodeAttDescs_post : Post decodeAttDescs (fun descs => ∀ d ∈ descs, DescOk d) := by
  unfold decodeAttDescs
  apply post_bind_any; intro ver
  extract_lets jp
  have hjp : ∀ n, Post (jp n) (fun descs => ∀ d ∈ descs, DescOk d) := by
    intro n
    simp -zeta only [jp]
    apply post_bind_any; intro _
    apply post_bind_any; intro rem
    apply post_bind_any; intro _
    apply post_bind_any; intro _
    refine post_mono (post_replicateM' _ DescOk ?_ n) (fun l h => h.2)
    apply post_bind_any; intro t
    apply post_bind_any; intro dt
    apply post_bind_any; intro nc
    apply post_bind_any; intro nz
    apply post_bind_any; intro _
    apply post_bind_require; intro hdt
    apply post_bind_require; intro hnc
    extract_lets jp2
    have hjp2 : ∀ uid, Post (jp2 uid) DescOk := by
      intro uid
      simp -zeta only [jp2]
      apply post_pure
      simp only [Bool.and_eq_true, bne_iff_ne, ne_eq, decide_eq_true_eq] at hdt hnc
      have h12 : Generated.DT_TYPES_COUNT.toNat = 12 := by decide
      rw [h12] at hdt
      refine ⟨?_, ?_, hdt.2⟩ <;> simp only <;> omega
    apply post_ite <;> intro _ <;> apply post_bind_any <;> intro uid <;> exact hjp2 uid
  apply post_ite <;> intro _ <;> apply post_bind_any <;> intro n <;> exact hjp n

/-! ### the sequential attribute decoders controller -/

/-- after `DecodeAttributesDecoderData` + decoder creation -/
def S1 (s : SeqAttState) : Prop :=
  DescOk s.desc ∧ s.decoderType ≤ 3 ∧ (s.decoderType = 2 → s.desc.dataType = 9) ∧
  (s.decoderType = 3 → s.desc.numComponents = 3 ∧ s.desc.dataType = 9)

/-- after `DecodePortableAttributes` for `np` points -/
def S2 (np : Nat) (s : SeqAttState) : Prop :=
  S1 s ∧
  (s.decoderType = 0 → s.rawValues.length = np * (dataTypeLength s.desc.dataType * s.desc.numComponents)) ∧
  (s.decoderType ≠ 0 → s.portable.length = np * (if (s.decoderType == 3) = true then 2 else s.desc.numComponents))

theorem valid_of (a : Attribute) (np : Nat) (h1 : 1 ≤ a.numComponents) (h2 : 1 ≤ dataTypeLength a.dataType)
    (h3 : a.numValues * (dataTypeLength a.dataType * a.numComponents) ≤ a.values.length)
    (h4 : a.map = none) (h5 : np ≤ a.numValues) : a.valid np = true := by
  unfold Attribute.valid Attribute.stride
  rw [h4]
  simp only [ge_iff_le, Bool.and_eq_true, decide_eq_true_eq]
  exact ⟨⟨⟨h1, h2⟩, h3⟩, h5⟩

theorem intToLE_length (n : Nat) (v : Int) : (intToLE n v).length = n := by
  unfold intToLE; exact Quant.writeLE_length _ _

theorem decodeSequentialAttributes_post (opts : DecOpts) (np : Nat) :
    Post (decodeSequentialAttributes opts np) (fun atts => ∀ a ∈ atts, a.valid np = true) := by
  unfold decodeSequentialAttributes
  have h9 : Generated.DT_FLOAT32.toNat = 9 := by decide
  have h5 : Generated.DT_INT32.toNat = 5 := by decide
  refine post_bind decodeAttDescs_post (fun descs hdescs => ?_)
  apply post_bind_any; intro _
  -- decoder types
  refine post_bind (post_mapM' _ DescOk S1 ?_ descs hdescs) (fun st1 h1 => ?_)
  · intro d hd
    apply post_bind_any; intro dt
    apply post_bind_require; intro hdt
    have hdt : dt ≤ 3 := by simpa using hdt
    extract_lets jpIn jpOut
    have hIn : ∀ u, (dt = 2 → d.dataType = 9) → (dt = 3 → d.numComponents = 3 ∧ d.dataType = 9) → Post (jpIn u) S1 := by
      intro u h2 h3
      simp -zeta only [jpIn]
      exact post_pure ⟨hd, hdt, h2, h3⟩
    have hOut : ∀ u, (dt = 2 → d.dataType = 9) → Post (jpOut u) S1 := by
      intro u h2
      simp -zeta only [jpOut]
      apply post_ite <;> intro hc
      · apply post_bind_require; intro hr
        refine hIn () h2 (fun _ => ?_)
        simpa [h9] using hr
      · exact hIn () h2 (fun h => by simp [h] at hc)
    apply post_ite <;> intro hc
    · apply post_bind_require; intro hr
      refine hOut () (fun _ => ?_)
      simpa [h9] using hr
    · exact hOut () (fun h => by simp [h] at hc)
  apply post_bind_any; intro _
  apply post_bind_any; intro _
  -- portable attributes
  refine post_bind (post_mapM' _ S1 (S2 np) ?_ st1 h1.2) (fun st2 h2 => ?_)
  · intro s hs
    extract_lets stride nc
    apply post_bind_any; intro _
    apply post_ite <;> intro hc
    · refine post_bind (post_bytes (np * stride)) (fun b hb => ?_)
      apply post_pure
      refine ⟨hs, fun _ => hb, fun h => ?_⟩
      simp only [beq_iff_eq] at hc
      exact (h hc).elim
    · refine post_bind (decodeIntegerValues_length s.decoderType np nc) (fun vals hv => ?_)
      apply post_pure
      refine ⟨hs, fun h => ?_, fun _ => hv⟩
      simp only [beq_iff_eq] at hc
      exact (hc h).elim
  -- transform data
  refine post_bind (post_mapM' _ (S2 np) (S2 np) ?_ st2 h2.2) (fun st3 h3 => ?_)
  · intro s hs
    apply post_ite <;> intro _
    · apply post_bind_any; intro mins
      apply post_bind_any; intro range
      apply post_bind_any; intro bits
      apply post_bind_any; intro _
      exact post_pure hs
    · apply post_ite <;> intro _
      · apply post_bind_any; intro bits
        exact post_pure hs
      · exact post_pure hs
  -- original format
  refine post_mono (post_mapM' _ (S2 np) (fun a => a.valid np = true) ?_ st3 h3.2) (fun l h => h.2)
  intro s hs
  obtain ⟨⟨⟨hnc, hdt1, hdt12⟩, hty, ht2, ht3⟩, hraw, hport⟩ := hs
  have hdtl := dataTypeLength_pos _ hdt1 hdt12
  extract_lets d nc len
  have hd : d = s.desc := rfl
  apply post_ite <;> intro hc0
  · apply post_pure
    simp only [beq_iff_eq] at hc0
    exact valid_of _ np hnc hdtl (by simp only [AttDesc.toAttribute]; rw [hraw hc0]) rfl (Nat.le_refl _)
  have hc0' : s.decoderType ≠ 0 := by simpa using hc0
  have hp := hport hc0'
  apply post_ite <;> intro _
  · -- skipped transform: the portable attribute
    apply post_pure
    have hnc2 : 1 ≤ nc := by simp only [nc]; split <;> omega
    refine valid_of _ np hnc2 (by simp only [h5]; decide) ?_ rfl (Nat.le_refl _)
    simp only [h5]
    rw [map_flatten_length (intToLE 4) 4 (intToLE_length 4), hp]
    have : dataTypeLength 5 = 4 := by decide
    rw [this]
    simp only [nc]
    rw [Nat.mul_comm 4, ← Nat.mul_assoc]
  split
  · -- integer
    rename_i h1'
    apply post_bind_any; intro _
    apply post_pure
    refine valid_of _ np hnc hdtl ?_ rfl (Nat.le_refl _)
    simp only [AttDesc.toAttribute]
    rw [map_flatten_length (intToLE len) len (intToLE_length len), hp]
    have : (s.decoderType == 3) = false := by simp [h1']
    simp only [this, Bool.false_eq_true, if_false, len, hd]
    rw [Nat.mul_comm (dataTypeLength _), ← Nat.mul_assoc]
  · -- quantization
    rename_i h2'
    split
    · apply post_pure
      refine valid_of _ np hnc hdtl ?_ rfl (Nat.le_refl _)
      simp only [AttDesc.toAttribute]
      rw [dequantAll_flatten_length, hp]
      have : (s.decoderType == 3) = false := by simp [h2']
      simp only [this, Bool.false_eq_true, if_false, hd, ht2 h2']
      have : dataTypeLength 9 = 4 := by decide
      rw [this, Nat.mul_comm 4, ← Nat.mul_assoc]
    · exact post_fail
  · -- normals
    rename_i hn1 hn2
    have hn1' : s.decoderType ≠ 1 := hn1
    have hn2' : s.decoderType ≠ 2 := hn2
    have h3' : s.decoderType = 3 := by omega
    split
    · apply post_bind_any; intro _
      apply post_pure
      refine valid_of _ np hnc hdtl ?_ rfl (Nat.le_refl _)
      simp only [AttDesc.toAttribute]
      have : (s.decoderType == 3) = true := by simp [h3']
      simp only [this, if_true] at hp
      rw [octaAll_flatten_length _ np _ (by rw [hp]; exact Nat.mul_comm _ _)]
      simp only [hd, (ht3 h3').1, (ht3 h3').2]
      have : dataTypeLength 9 = 4 := by decide
      rw [this]
    · exact post_fail

/-- `finishSeqAttribute` on a state with complete storage yields a valid attribute -/
theorem finishSeqAttribute_post (opts : DecOpts) (s : SeqAttState) (np : Nat) (hs : S2 np s) :
    Post (finishSeqAttribute opts s np none) (fun a => a.valid np = true) := by
  unfold finishSeqAttribute
  dsimp only
  have h5 : Generated.DT_INT32.toNat = 5 := by decide
  obtain ⟨⟨⟨hnc, hdt1, hdt12⟩, hty, ht2, ht3⟩, hraw, hport⟩ := hs
  have hdtl := dataTypeLength_pos _ hdt1 hdt12
  apply post_ite <;> intro hc0
  · apply post_pure
    simp only [beq_iff_eq] at hc0
    exact valid_of _ np hnc hdtl (by simp only [AttDesc.toAttribute]; rw [hraw hc0]) rfl (Nat.le_refl _)
  have hc0' : s.decoderType ≠ 0 := by simpa using hc0
  have hp := hport hc0'
  apply post_ite <;> intro _
  · apply post_pure
    have hnc2 : 1 ≤ (if (s.decoderType == 3) = true then 2 else s.desc.numComponents) := by split <;> omega
    refine valid_of _ np hnc2 (by simp only [h5]; decide) ?_ rfl (Nat.le_refl _)
    simp only [h5]
    rw [map_flatten_length (intToLE 4) 4 (intToLE_length 4), hp]
    have : dataTypeLength 5 = 4 := by decide
    rw [this, Nat.mul_comm 4, ← Nat.mul_assoc]
  split
  · rename_i h1'
    apply post_pure
    refine valid_of _ np hnc hdtl ?_ rfl (Nat.le_refl _)
    simp only [AttDesc.toAttribute]
    rw [map_flatten_length (intToLE _) _ (intToLE_length _), hp]
    have : (s.decoderType == 3) = false := by simp [h1']
    simp only [this, Bool.false_eq_true, if_false]
    rw [Nat.mul_comm (dataTypeLength _), ← Nat.mul_assoc]
  · rename_i h2'
    split
    · apply post_pure
      refine valid_of _ np hnc hdtl ?_ rfl (Nat.le_refl _)
      simp only [AttDesc.toAttribute]
      rw [dequantAll_flatten_length, hp]
      have : (s.decoderType == 3) = false := by simp [h2']
      simp only [this, Bool.false_eq_true, if_false, ht2 h2']
      have : dataTypeLength 9 = 4 := by decide
      rw [this, Nat.mul_comm 4, ← Nat.mul_assoc]
    · exact post_fail
  · rename_i hn1 hn2
    have hn1' : s.decoderType ≠ 1 := hn1
    have hn2' : s.decoderType ≠ 2 := hn2
    have h3' : s.decoderType = 3 := by omega
    split
    · apply post_pure
      refine valid_of _ np hnc hdtl ?_ rfl (Nat.le_refl _)
      simp only [AttDesc.toAttribute]
      have : (s.decoderType == 3) = true := by simp [h3']
      simp only [this, if_true] at hp
      rw [octaAll_flatten_length _ np _ (by rw [hp]; exact Nat.mul_comm _ _)]
      simp only [(ht3 h3').1, (ht3 h3').2]
      have : dataTypeLength 9 = 4 := by decide
      rw [this]
    · exact post_fail

/-- the controller of bitstreams < 2.0 -/
theorem decodeSequentialAttributesLegacy_post (opts : DecOpts) (np : Nat) :
    Post (decodeSequentialAttributesLegacy opts np) (fun atts => ∀ a ∈ atts, a.valid np = true) := by
  unfold decodeSequentialAttributesLegacy
  have h9 : Generated.DT_FLOAT32.toNat = 9 := by decide
  refine post_bind decodeAttDescs_post (fun descs hdescs => ?_)
  apply post_bind_any; intro _
  refine post_bind (post_mapM' _ DescOk S1 ?_ descs hdescs) (fun st1 h1 => ?_)
  · intro d hd
    apply post_bind_any; intro dt
    apply post_bind_require; intro hdt
    have hdt : dt ≤ 3 := by simpa using hdt
    extract_lets jpIn jpOut
    have hIn : ∀ u, (dt = 2 → d.dataType = 9) → (dt = 3 → d.numComponents = 3 ∧ d.dataType = 9) → Post (jpIn u) S1 := by
      intro u h2 h3
      simp -zeta only [jpIn]
      exact post_pure ⟨hd, hdt, h2, h3⟩
    have hOut : ∀ u, (dt = 2 → d.dataType = 9) → Post (jpOut u) S1 := by
      intro u h2
      simp -zeta only [jpOut]
      apply post_ite <;> intro hc
      · apply post_bind_require; intro hr
        refine hIn () h2 (fun _ => ?_)
        simpa [h9] using hr
      · exact hIn () h2 (fun h => by simp [h] at hc)
    apply post_ite <;> intro hc
    · apply post_bind_require; intro hr
      refine hOut () (fun _ => ?_)
      simpa [h9] using hr
    · exact hOut () (fun h => by simp [h] at hc)
  apply post_bind_any; intro _
  apply post_bind_any; intro _
  refine post_bind (post_mapM' _ S1 (S2 np) ?_ st1 h1.2) (fun st2 h2 => ?_)
  · intro s hs
    extract_lets stride nc
    apply post_bind_any; intro _
    apply post_ite <;> intro hc
    · refine post_bind (post_bytes (np * stride)) (fun b hb => ?_)
      apply post_pure
      refine ⟨hs, fun _ => hb, fun h => ?_⟩
      simp only [beq_iff_eq] at hc
      exact (h hc).elim
    · apply post_bind_any; intro sel
      apply post_bind_any; intro tr
      refine post_bind (integerValuesTail_length sel np nc) (fun vals hv => ?_)
      apply post_bind_any; intro _
      apply post_pure
      refine ⟨hs, fun h => ?_, fun _ => hv⟩
      simp only [beq_iff_eq] at hc
      exact (hc h).elim
  refine post_mono (post_mapM' _ (S2 np) (fun a => a.valid np = true) ?_ st2 h2.2) (fun l h => h.2)
  intro s hs
  exact finishSeqAttribute_post opts s np hs

theorem decodeSequentialAttributesV_post (opts : DecOpts) (np : Nat) :
    Post (decodeSequentialAttributesV opts np) (fun atts => ∀ a ∈ atts, a.valid np = true) := by
  unfold decodeSequentialAttributesV
  apply post_bind_any; intro ver
  apply post_ite <;> intro _
  · exact decodeSequentialAttributesLegacy_post opts np
  · exact decodeSequentialAttributes_post opts np

theorem decodePointAttributesSeq_post (opts : DecOpts) (np : Nat) :
    Post (decodePointAttributesSeq opts np) (fun atts => ∀ a ∈ atts, a.valid np = true) := by
  unfold decodePointAttributesSeq
  apply post_bind_any; intro nd
  apply post_ite <;> intro _
  · exact post_pure (by simp)
  · apply post_ite <;> intro _
    · exact decodeSequentialAttributesV_post opts np
    · exact post_failWith

/-! ### sequential connectivity -/

theorem triples_valid (np : Nat) : ∀ (n : Nat) (idx : List Nat), idx.length ≤ n → (∀ i ∈ idx, i < np) →
    ∀ f ∈ triples idx, f.1 < np ∧ f.2.1 < np ∧ f.2.2 < np := by
  intro n
  induction n using Nat.strongRecOn with
  | _ n ih =>
    intro idx hl h f hf
    match idx, hl, h, hf with
    | a :: b :: c :: rest, hl, h, hf =>
      simp only [triples, List.mem_cons] at hf
      rcases hf with rfl | hf
      · exact ⟨h a (by simp), h b (by simp), h c (by simp)⟩
      · simp only [List.length_cons] at hl
        exact ih (n - 3) (by omega) rest (by omega) (fun i hi => h i (by simp [hi])) f hf
    | [], _, _, hf => simp [triples] at hf
    | [_], _, _, hf => simp [triples] at hf
    | [_, _], _, _, hf => simp [triples] at hf

theorem decodeSeqConnectivity_post :
    Post decodeSeqConnectivity (fun r => ∀ f ∈ r.2, f.1 < r.1 ∧ f.2.1 < r.1 ∧ f.2.2 < r.1) := by
  unfold decodeSeqConnectivity
  apply post_bind_any; intro ver
  extract_lets legacy jpF
  have hjpF : ∀ nf, Post (jpF nf) (fun r => ∀ f ∈ r.2, f.1 < r.1 ∧ f.2.1 < r.1 ∧ f.2.2 < r.1) := by
    intro nf
    simp -zeta only [jpF]
    extract_lets jpP
    have hjpP : ∀ np, Post (jpP np) (fun r => ∀ f ∈ r.2, f.1 < r.1 ∧ f.2.1 < r.1 ∧ f.2.2 < r.1) := by
      intro np
      simp -zeta only [jpP]
      apply post_bind_any; intro _
      apply post_bind_any; intro _
      apply post_bind_any; intro method
      apply post_bind_any; intro rem
      extract_lets jpI jpA
      have hjpI : ∀ idx, Post (jpI idx) (fun r => ∀ f ∈ r.2, f.1 < r.1 ∧ f.2.1 < r.1 ∧ f.2.2 < r.1) := by
        intro idx
        simp -zeta only [jpI]
        apply post_bind_require; intro hall
        apply post_pure
        simp only [List.all_eq_true, decide_eq_true_eq] at hall
        exact triples_valid np idx.length idx (Nat.le_refl _) hall
      have hjpA : ∀ u, Post (jpA u) (fun r => ∀ f ∈ r.2, f.1 < r.1 ∧ f.2.1 < r.1 ∧ f.2.2 < r.1) := by
        intro u
        simp -zeta only [jpA]
        apply post_bind_any; intro _
        apply post_ite <;> intro _
        · apply post_bind_any; intro _
          apply post_bind_any; intro syms
          apply post_bind_any; intro idx
          exact hjpI idx
        repeat' (first | (apply post_bind_any; intro idx; exact hjpI idx) | (apply post_ite <;> intro _))
      apply post_ite <;> intro _
      · apply post_bind_any; intro u; exact hjpA u
      · exact hjpA ()
    apply post_ite <;> intro _ <;> apply post_bind_any <;> intro np <;> exact hjpP np
  apply post_ite <;> intro _ <;> apply post_bind_any <;> intro nf <;> exact hjpF nf

/-! ### the whole decoder -/

/-- the dispatcher with arbitrary body decoders for the Edgebreaker / kd-tree methods: valid whenever the
    bodies only return valid geometries -/
theorem decodeStreamWith_post (eb kd : DecOpts → DecM Geometry) (opts : DecOpts)
    (heb : Post (eb opts) (fun g => g.valid = true)) (hkd : Post (kd opts) (fun g => g.valid = true)) :
    Post (decodeStreamWith eb kd opts) (fun r => r.geometry.valid = true) := by
  unfold decodeStreamWith
  apply post_bind_any; intro h
  apply post_bind_any; intro _
  extract_lets isMesh maxMajor maxMinor ver jpM
  apply post_bind_any; intro _
  apply post_ite <;> intro _
  · exact post_failWith
  apply post_ite <;> intro _
  · exact post_failWith
  apply post_bind_any; intro _
  have hjpM : ∀ md, Post (jpM md) (fun r => r.geometry.valid = true) := by
    intro md
    simp -zeta only [jpM]
    apply post_ite <;> intro _
    · exact post_bind heb (fun g hg => post_pure hg)
    apply post_ite <;> intro _
    · exact post_bind hkd (fun g hg => post_pure hg)
    apply post_ite <;> intro _
    · refine post_bind decodeSeqConnectivity_post (fun r hr => ?_)
      obtain ⟨np, faces⟩ := r
      refine post_bind (decodePointAttributesSeq_post opts np) (fun atts ha => ?_)
      apply post_pure
      simp only [Geometry.valid, Bool.and_eq_true, List.all_eq_true, decide_eq_true_eq]
      refine ⟨fun f hf => ?_, ha⟩
      obtain ⟨a, b, c⟩ := f
      have := hr (a, b, c) hf
      simp only at this ⊢
      exact ⟨⟨this.1, this.2.1⟩, this.2.2⟩
    · apply post_bind_any; intro np
      extract_lets numPoints
      apply post_bind_any; intro _
      refine post_bind (decodePointAttributesSeq_post opts numPoints) (fun atts ha => ?_)
      apply post_pure
      simp only [Geometry.valid, Bool.and_eq_true, List.all_eq_true]
      exact ⟨by simp, ha⟩
  apply post_ite <;> intro _ <;> apply post_bind_any <;> intro md <;> exact hjpM md

end Draco.Robust
